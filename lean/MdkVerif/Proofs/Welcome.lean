import MdkVerif.Model.Welcome
/-
  Proofs.Welcome — frame lemmas of the storage operations the invitation state machine uses
  (what each write can and cannot touch), for both backends.
-/
namespace MdkVerif.Welcome
open MdkVerif MdkVerif.Store

theorem alookup_ainsert {α : Type} (k k' : Nat) (v : α) (l : List (Nat × α)) :
    alookup k (ainsert k' v l) = if k = k' then some v else alookup k l := by
  induction l with
  | nil =>
    by_cases h : k = k'
    · subst h; simp [ainsert, alookup]
    · have : ¬ k' = k := fun e => h e.symm
      simp [ainsert, alookup, h, this]
  | cons p t ih =>
    obtain ⟨a, b⟩ := p
    simp only [ainsert]
    by_cases h1 : a = k'
    · subst h1
      simp only [if_true, alookup]
      by_cases h2 : a = k
      · subst h2; simp
      · have : ¬ k = a := fun e => h2 e.symm
        simp [h2, this]
    · simp only [h1, if_false, alookup]
      by_cases h2 : a = k
      · subst h2
        have : ¬ a = k' := h1
        simp [this]
      · simp only [h2, if_false]; exact ih

/-- `find?` by key after an insert-or-replace by the same key -/
theorem find_upsert {α : Type} (key : α → Nat) (ups : α → List α → List α)
    (hnil : ∀ x, ups x [] = [x])
    (hcons : ∀ x a t, ups x (a :: t) = if key a == key x then x :: t else a :: ups x t)
    (x : α) (l : List α) (k : Nat) :
    (ups x l).find? (fun y => key y == k) = if key x = k then some x else l.find? (fun y => key y == k) := by
  induction l with
  | nil =>
    rw [hnil]
    by_cases h : key x = k
    · have hb : (key x == k) = true := by simp [h]
      simp [List.find?, hb, h]
    · have hb : (key x == k) = false := by simp [h]
      simp [List.find?, hb, h]
  | cons a t ih =>
    rw [hcons]
    by_cases h1 : key a = key x
    · have hb1 : (key a == key x) = true := by simp [h1]
      simp only [hb1, if_true]
      by_cases h2 : key x = k
      · have hb2 : (key x == k) = true := by simp [h2]
        simp [List.find?, hb2, h2]
      · have hb2 : (key x == k) = false := by simp [h2]
        have hb3 : (key a == k) = false := by rw [h1]; exact hb2
        simp [List.find?, hb2, hb3, h2]
    · have hb1 : (key a == key x) = false := by simp [h1]
      simp only [hb1, Bool.false_eq_true, if_false]
      by_cases h3 : key a = k
      · have hb3 : (key a == k) = true := by simp [h3]
        have h4 : ¬ key x = k := by rw [← h3]; exact fun e => h1 e.symm
        simp [List.find?, hb3, h4]
      · have hb3 : (key a == k) = false := by simp [h3]
        simp only [List.find?, hb3]
        exact ih

theorem find_replaceGroup (g : Group) (l : List Group) (gid : Nat) :
    (replaceGroup g l).find? (·.gid == gid) = if g.gid = gid then some g else l.find? (·.gid == gid) :=
  find_upsert (·.gid) replaceGroup (fun _ => rfl) (fun _ _ _ => rfl) g l gid

/-- what `save_group` can touch: the record of that id (and the memory backend's second index) -/
theorem saveGroup_frame (s s' : Store) (g : Group) (h : saveGroup s g = some s') :
    (∀ gid, findGroup s' gid = if g.gid = gid then some g else findGroup s gid) ∧
    s'.relays = s.relays ∧ s'.welcomes = s.welcomes ∧ s'.pws = s.pws ∧ s'.msgs = s.msgs ∧ s'.backend = s.backend := by
  unfold saveGroup at h
  split at h; · cases h
  split at h; · cases h
  split at h; · cases h
  split at h
  · split at h
    · split at h
      · cases h
      · cases h; exact ⟨fun gid => by simp [findGroup, find_replaceGroup], rfl, rfl, rfl, rfl, rfl⟩
    · cases h; exact ⟨fun gid => by simp [findGroup, find_replaceGroup], rfl, rfl, rfl, rfl, rfl⟩
  · split at h
    · cases h
    · cases h; exact ⟨fun gid => by simp [findGroup, find_replaceGroup], rfl, rfl, rfl, rfl, rfl⟩

theorem replaceRelays_frame (s s' : Store) (gid : Nat) (rs : List Nat) (h : replaceRelays s gid rs = some s') :
    s'.groups = s.groups ∧ s'.welcomes = s.welcomes ∧ s'.pws = s.pws ∧ s'.msgs = s.msgs ∧ s'.backend = s.backend ∧
    (∀ g, g ≠ gid → alookup g s'.relays = alookup g s.relays) := by
  unfold replaceRelays at h
  simp only at h
  split at h; · cases h
  split at h; · cases h
  split at h; · cases h
  cases h
  refine ⟨rfl, rfl, rfl, rfl, rfl, ?_⟩
  intro g hg
  simp [alookup_ainsert, hg]

theorem find_upsertPw (p : PW) (l : List PW) (w : Nat) :
    (upsertPw p l).find? (·.wrapper == w) = if p.wrapper = w then some p else l.find? (·.wrapper == w) :=
  find_upsert (·.wrapper) upsertPw (fun _ => rfl) (fun _ _ _ => rfl) p l w

theorem findPw_savePw (s : Store) (p : PW) (w : Nat) :
    findPw (savePw s p) w = if p.wrapper = w then some p else findPw s w := by
  simp [findPw, savePw, find_upsertPw]

theorem find_upsertWelcome (x : Store.Welcome) (l : List Store.Welcome) (id : Nat) :
    (upsertWelcome x l).find? (·.id == id) = if x.id = id then some x else l.find? (·.id == id) :=
  find_upsert (·.id) upsertWelcome (fun _ => rfl) (fun _ _ _ => rfl) x l id

theorem saveWelcome_frame (s s' : Store) (x : Store.Welcome) (h : saveWelcome s x = some s') :
    s'.groups = s.groups ∧ s'.relays = s.relays ∧ s'.pws = s.pws ∧ s'.msgs = s.msgs ∧ s'.backend = s.backend ∧
    (∀ id, findWelcome s' id = if x.id = id then some x else findWelcome s id) := by
  unfold saveWelcome at h
  split at h
  · split at h; · cases h
    split at h; · cases h
    split at h; · cases h
    cases h; exact ⟨rfl, rfl, rfl, rfl, rfl, fun id => by simp [findWelcome, find_upsertWelcome]⟩
  · split at h; · cases h
    split at h; · cases h
    cases h; exact ⟨rfl, rfl, rfl, rfl, rfl, fun id => by simp [findWelcome, find_upsertWelcome]⟩

theorem findGroup_of_groups_eq (s s' : Store) (h : s'.groups = s.groups) (gid : Nat) :
    findGroup s' gid = findGroup s gid := by simp [findGroup, h]

/-- the group `gid` is not Active in store `s` -/
def NotActive (s : Store) (gid : Nat) : Prop := ∀ g, findGroup s gid = some g → g.state ≠ 0

theorem isActive_false_iff (c : Client) (gid : Nat) : isActive c gid = false ↔ NotActive c.store gid := by
  unfold isActive NotActive
  cases h : findGroup c.store gid with
  | none => simp
  | some g => simp

theorem notActive_of_groups_eq (s s' : Store) (h : s'.groups = s.groups) (gid : Nat) (hn : NotActive s gid) :
    NotActive s' gid := by
  intro g hg; rw [findGroup_of_groups_eq _ _ h] at hg; exact hn g hg

theorem notActive_saveGroup (s s' : Store) (g : Group) (h : saveGroup s g = some s') (hg : g.state ≠ 0) (gid : Nat)
    (hn : NotActive s gid) : NotActive s' gid := by
  intro g' hg'
  rw [(saveGroup_frame _ _ _ h).1] at hg'
  by_cases e : g.gid = gid
  · simp [e] at hg'; subst hg'; exact hg
  · simp [e] at hg'; exact hn g' hg'

end MdkVerif.Welcome
