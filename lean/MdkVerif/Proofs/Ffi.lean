import MdkVerif.Model.Ffi
import MdkVerif.Proofs.Tags
/-
  Helper lemmas for Props/C06Ffi (hex decoding of the binding layer, table lookups).
-/
namespace MdkVerif.Ffi
open MdkVerif.Codec

/-! ### one hex character -/

theorem hexVal_some (c x : Nat) (h : hexVal c = some x) :
    (48 ≤ c ∧ c ≤ 57 ∧ x = c - 48) ∨ (97 ≤ c ∧ c ≤ 102 ∧ x = c - 87) ∨ (65 ≤ c ∧ c ≤ 70 ∧ x = c - 55) := by
  unfold hexVal at h
  by_cases c1 : 48 ≤ c ∧ c ≤ 57
  · rw [if_pos c1] at h
    injection h with h
    exact Or.inl ⟨c1.1, c1.2, h.symm⟩
  · rw [if_neg c1] at h
    by_cases c2 : 97 ≤ c ∧ c ≤ 102
    · rw [if_pos c2] at h
      injection h with h
      exact Or.inr (Or.inl ⟨c2.1, c2.2, h.symm⟩)
    · rw [if_neg c2] at h
      by_cases c3 : 65 ≤ c ∧ c ≤ 70
      · rw [if_pos c3] at h
        injection h with h
        exact Or.inr (Or.inr ⟨c3.1, c3.2, h.symm⟩)
      · rw [if_neg c3] at h
        cases h

theorem hexVal_lt (c x : Nat) (h : hexVal c = some x) : x < 16 := by
  rcases hexVal_some c x h with ⟨_, _, rfl⟩ | ⟨_, _, rfl⟩ | ⟨_, _, rfl⟩ <;> omega

/-- re-encoding a hex character gives its lower-case spelling -/
theorem hexDigit_hexVal (c x : Nat) (h : hexVal c = some x) : hexDigit x = lowerC c := by
  unfold hexDigit lowerC
  rcases hexVal_some c x h with ⟨h1, h2, rfl⟩ | ⟨h1, h2, rfl⟩ | ⟨h1, h2, rfl⟩
  · rw [if_pos (by omega), if_neg (by omega)]; omega
  · rw [if_neg (by omega), if_neg (by omega)]; omega
  · rw [if_neg (by omega), if_pos (by omega)]; omega

theorem hexVal_upperC (c x : Nat) (h : hexVal c = some x) : hexVal (upperC c) = some x := by
  rcases hexVal_some c x h with ⟨h1, h2, rfl⟩ | ⟨h1, h2, rfl⟩ | ⟨h1, h2, rfl⟩
  · have : upperC c = c := by unfold upperC; rw [if_neg (by omega)]
    rw [this]; exact h
  · have : upperC c = c - 32 := by unfold upperC; rw [if_pos (by omega)]
    rw [this]; unfold hexVal
    rw [if_neg (by omega), if_neg (by omega), if_pos (by omega)]; exact congrArg some (by omega)
  · have : upperC c = c := by unfold upperC; rw [if_neg (by omega)]
    rw [this]; exact h

/-! ### the pair loop against `Codec.hexDec` (the C15 model of the same crate) -/

theorem hexPairs_ok_iff : ∀ (s : Bytes) (i : Nat) (b : Bytes), hexPairs i s = .ok b ↔ hexDec s = some b
  | [], i, b => by simp [hexPairs, hexDec]
  | [_], i, b => by simp [hexPairs, hexDec]
  | a :: c :: r, i, b => by
    unfold hexPairs hexDec
    cases h1 : hexVal a with
    | none => simp
    | some x =>
      cases h2 : hexVal c with
      | none => simp
      | some y =>
        have ih := hexPairs_ok_iff r (i + 2)
        cases h3 : hexPairs (i + 2) r with
        | error e =>
          cases h4 : hexDec r with
          | none => simp
          | some t => exact absurd ((ih t).mpr h4) (by rw [h3]; intro h; cases h)
        | ok t =>
          have h4 : hexDec r = some t := (ih t).mp h3
          simp [h4]

theorem hexDec_spec : ∀ (s b : Bytes), hexDec s = some b → isBytes b = true ∧ hexEnc b = s.map lowerC
  | [], b, h => by simp [hexDec] at h; subst h; simp [isBytes, hexEnc]
  | [_], b, h => by simp [hexDec] at h
  | a :: c :: r, b, h => by
    unfold hexDec at h
    cases h1 : hexVal a with
    | none => simp [h1] at h
    | some x =>
      cases h2 : hexVal c with
      | none => simp [h1, h2] at h
      | some y =>
        cases h3 : hexDec r with
        | none => simp [h1, h2, h3] at h
        | some t =>
          simp [h1, h2, h3] at h
          subst h
          obtain ⟨ib, ie⟩ := hexDec_spec r t h3
          have hx := hexVal_lt a x h1
          have hy := hexVal_lt c y h2
          have d1 : (x * 16 + y) / 16 = x := by omega
          have d2 : (x * 16 + y) % 16 = y := by omega
          constructor
          · simp only [isBytes, List.all_cons, Bool.and_eq_true, decide_eq_true_eq]
            exact ⟨by omega, by simpa [isBytes] using ib⟩
          · simp only [hexEnc, List.map_cons, d1, d2, hexDigit_hexVal a x h1, hexDigit_hexVal c y h2, ie]

theorem hexPairs_ok_spec (s : Bytes) (i : Nat) (b : Bytes) (h : hexPairs i s = .ok b) :
    s.length = 2 * b.length ∧ isBytes b = true ∧ hexEnc b = s.map lowerC := by
  have hd := (hexPairs_ok_iff s i b).mp h
  exact ⟨hexDec_length s b hd, hexDec_spec s b hd⟩

/-- the loop succeeds exactly on even-length strings of hex characters -/
theorem hexPairs_isOk_iff : ∀ (s : Bytes) (i : Nat),
    (∃ b, hexPairs i s = .ok b) ↔ s.length % 2 = 0 ∧ ∀ c ∈ s, isHexChar c = true
  | [], i => by simp [hexPairs]
  | [x], i => by simp [hexPairs]
  | a :: c :: r, i => by
    have ih := hexPairs_isOk_iff r (i + 2)
    unfold hexPairs
    cases h1 : hexVal a with
    | none => simp [isHexChar, h1]
    | some x =>
      cases h2 : hexVal c with
      | none => simp [isHexChar, h2]
      | some y =>
        cases h3 : hexPairs (i + 2) r with
        | error e =>
          have : ¬ (r.length % 2 = 0 ∧ ∀ d ∈ r, isHexChar d = true) := by
            intro hh; obtain ⟨b, hb⟩ := ih.mpr hh; rw [h3] at hb; cases hb
          constructor
          · intro ⟨b, hb⟩; cases hb
          · intro ⟨hl, hc⟩
            exfalso; apply this
            refine ⟨by simp only [List.length_cons] at hl; omega, fun d hd => hc d (by simp [hd])⟩
        | ok t =>
          obtain ⟨hl, hc⟩ := ih.mp ⟨t, h3⟩
          constructor
          · intro _
            refine ⟨by simp only [List.length_cons]; omega, ?_⟩
            intro d hd
            simp only [List.mem_cons] at hd
            rcases hd with rfl | rfl | hd
            · simp [isHexChar, h1]
            · simp [isHexChar, h2]
            · exact hc d hd
          · intro _; exact ⟨_, rfl⟩

/-- on an even-length string the loop never answers `OddLength` / `InvalidStringLength`, and an
    `InvalidHexCharacter` names the FIRST character that is not a hex digit, with its index -/
theorem hexPairs_error_spec : ∀ (s : Bytes) (i : Nat) (e : HexErr), s.length % 2 = 0 → hexPairs i s = .error e →
    ∃ c k, e = .invalidChar c (i + k) ∧ s[k]? = some c ∧ hexVal c = none ∧
      ∀ j, j < k → ∃ d, s[j]? = some d ∧ (hexVal d).isSome = true
  | [], i, e, _, h => by simp [hexPairs] at h
  | [_], i, e, hl, _ => by simp at hl
  | a :: c :: r, i, e, hl, h => by
    unfold hexPairs at h
    cases h1 : hexVal a with
    | none =>
      simp [h1] at h; subst h
      exact ⟨a, 0, by simp, by simp, h1, by intro j hj; omega⟩
    | some x =>
      cases h2 : hexVal c with
      | none =>
        simp [h1, h2] at h; subst h
        refine ⟨c, 1, by simp, by simp, h2, ?_⟩
        intro j hj
        have : j = 0 := by omega
        subst this
        exact ⟨a, by simp, by simp [h1]⟩
      | some y =>
        cases h3 : hexPairs (i + 2) r with
        | ok t => simp [h1, h2, h3] at h
        | error e' =>
          simp [h1, h2, h3] at h; subst h
          have hl' : r.length % 2 = 0 := by simp only [List.length_cons] at hl; omega
          obtain ⟨c', k, he, hk, hv, hbefore⟩ := hexPairs_error_spec r (i + 2) e' hl' h3
          refine ⟨c', k + 2, by rw [he]; congr 1; omega, by simpa using hk, hv, ?_⟩
          intro j hj
          match j with
          | 0 => exact ⟨a, by simp, by simp [h1]⟩
          | 1 => exact ⟨c, by simp, by simp [h2]⟩
          | j + 2 =>
            obtain ⟨d, hd, hv'⟩ := hbefore j (by omega)
            exact ⟨d, by simpa using hd, hv'⟩

theorem hexPairs_upper : ∀ (s : Bytes) (i : Nat) (b : Bytes), hexPairs i s = .ok b → hexPairs i (s.map upperC) = .ok b
  | [], i, b, h => by simpa [hexPairs] using h
  | [_], i, b, h => by simp [hexPairs] at h
  | a :: c :: r, i, b, h => by
    unfold hexPairs at h
    cases h1 : hexVal a with
    | none => simp [h1] at h
    | some x =>
      cases h2 : hexVal c with
      | none => simp [h1, h2] at h
      | some y =>
        cases h3 : hexPairs (i + 2) r with
        | error e => simp [h1, h2, h3] at h
        | ok t =>
          simp [h1, h2, h3] at h
          have ih := hexPairs_upper r (i + 2) t h3
          simp only [List.map_cons]
          unfold hexPairs
          simp [hexVal_upperC a x h1, hexVal_upperC c y h2, ih, h]

/-! ### table lookups -/

theorem lookupV_mem (a : List (Nat × Bytes)) (v : Nat) (s : Bytes) (h : lookupV a v = some s) : (v, s) ∈ a := by
  unfold lookupV at h
  cases hf : a.find? (fun p => p.1 == v) with
  | none => simp [hf] at h
  | some p =>
    simp [hf] at h
    have hm := List.mem_of_find?_eq_some hf
    have hp := List.find?_some hf
    simp at hp
    obtain ⟨p1, p2⟩ := p
    simp at hp h
    subst hp; subst h
    exact hm

theorem lookupK_mem (f : List (Bytes × Nat)) (s : Bytes) (v : Nat) (h : lookupK f s = some v) : (s, v) ∈ f := by
  unfold lookupK at h
  cases hf : f.find? (fun p => p.1 == s) with
  | none => simp [hf] at h
  | some p =>
    simp [hf] at h
    have hm := List.mem_of_find?_eq_some hf
    have hp := List.find?_some hf
    simp at hp
    obtain ⟨p1, p2⟩ := p
    simp at hp h
    subst hp; subst h
    exact hm

/-- two tables that pass the executable check are inverse to each other on their domains -/
theorem tables_round_trip (a : List (Nat × Bytes)) (f : List (Bytes × Nat)) (h : inverseTables a f = true) :
    (∀ v s, lookupV a v = some s → lookupK f s = some v) ∧ (∀ s v, lookupK f s = some v → lookupV a v = some s) := by
  unfold inverseTables at h
  simp only [Bool.and_eq_true, List.all_eq_true] at h
  obtain ⟨ha, hf⟩ := h
  constructor
  · intro v s hv
    have := ha (v, s) (lookupV_mem a v s hv)
    simpa using this
  · intro s v hs
    have := hf (s, v) (lookupK_mem f s v hs)
    simpa using this

end MdkVerif.Ffi
