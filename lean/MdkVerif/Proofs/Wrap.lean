import MdkVerif.Model.Wrap
/-
  Helper lemmas for Props/C06Wrap.lean: association lists, `findGroup`, `touch`, the NIP-44 layer
  (at most one secret does not simply fail), the window arithmetic.
-/
namespace MdkVerif.Wrap
open MdkVerif

/-! ### association lists -/

theorem alookup_ainsert_self {α : Type} (k : Nat) (v : α) (l : List (Nat × α)) : alookup k (ainsert k v l) = some v := by
  induction l with
  | nil => simp [ainsert, alookup]
  | cons p r ih =>
    obtain ⟨k', v'⟩ := p
    by_cases h : k' = k
    · simp [ainsert, alookup, h]
    · simp [ainsert, alookup, h, ih]

theorem alookup_ainsert_ne {α : Type} (k n : Nat) (v : α) (l : List (Nat × α)) (h : n ≠ k) :
    alookup n (ainsert k v l) = alookup n l := by
  induction l with
  | nil => simp [ainsert, alookup]; intro h'; exact absurd h'.symm h
  | cons p r ih =>
    obtain ⟨k', v'⟩ := p
    by_cases hk : k' = k
    · subst hk
      have : ¬ k' = n := fun h' => h h'.symm
      simp [ainsert, alookup, this]
    · by_cases hn : k' = n
      · subst hn
        simp [ainsert, alookup, hk]
      · simp [ainsert, alookup, hk, hn, ih]

/-! ### groups -/

theorem findGroup_some {groups : List Group} {nid : Bytes} {g : Group} (h : findGroup groups nid = some g) :
    g ∈ groups ∧ g.nid = nid := by
  unfold findGroup at h
  have h1 := List.mem_of_find?_eq_some h
  have h2 := List.find?_some h
  exact ⟨h1, by simpa using h2⟩

/-- with pairwise distinct nostr group ids (both backends enforce it) the lookup finds THE group with that id -/
theorem findGroup_iff {groups : List Group} (hd : groups.Pairwise (fun a b => a.nid ≠ b.nid)) (nid : Bytes) (g : Group) :
    findGroup groups nid = some g ↔ g ∈ groups ∧ g.nid = nid := by
  constructor
  · exact findGroup_some
  · intro ⟨hm, hn⟩
    induction groups with
    | nil => cases hm
    | cons x r ih =>
      unfold findGroup
      rw [List.pairwise_cons] at hd
      rcases List.mem_cons.mp hm with rfl | hr
      · simp [List.find?, hn]
      · have hx : x.nid ≠ nid := by rw [← hn]; exact hd.1 g hr
        have : (x.nid == nid) = false := by simpa using hx
        simp only [List.find?, this]
        exact ih hd.2 hr

theorem frame_ensure (g : Group) : g.ensure.frame = g.frame := by
  unfold Group.ensure Group.frame
  split <;> rfl

theorem touch_frame (groups : List Group) (g : Group) : (touch groups g).map Group.frame = groups.map Group.frame := by
  unfold touch
  rw [List.map_map]
  apply List.map_congr_left
  intro x _
  simp only [Function.comp]
  split
  · rename_i h; rw [h, frame_ensure]
  · rfl

/-- nothing is written when the current epoch's secret is already stored -/
theorem ensure_of_stored (g : Group) (h : (alookup g.epoch g.secrets).isSome = true) : g.ensure = g := by
  unfold Group.ensure
  split
  · rfl
  · rename_i hn; rw [hn] at h; cases h

theorem touch_of_stored (groups : List Group) (g : Group) (h : (alookup g.epoch g.secrets).isSome = true) :
    touch groups g = groups := by
  unfold touch
  rw [ensure_of_stored g h]
  conv => rhs; rw [← List.map_id groups]
  apply List.map_congr_left
  intro x _
  split
  · rename_i hx; exact hx.symm
  · rfl

theorem touch_mem {groups : List Group} {g x : Group} (h : x ∈ touch groups g) :
    ∃ y ∈ groups, x = y ∨ x = y.ensure := by
  unfold touch at h
  obtain ⟨y, hy, rfl⟩ := List.mem_map.mp h
  refine ⟨y, hy, ?_⟩
  split
  · rename_i hx; right; rw [hx]
  · left; rfl

/-! ### the NIP-44 layer -/

/-- a secret under which the payload does not simply fail is the one its MAC verifies under -/
theorem open_not_err_key {c : Content} {k : Nat} (h : nip44Open c k ≠ .err) :
    ∃ p, c = .bytes p ∧ p.macKey = some k := by
  cases c with
  | notBase64 => simp [nip44Open] at h
  | empty => simp [nip44Open] at h
  | bytes p =>
    refine ⟨p, rfl, ?_⟩
    unfold nip44Open at h
    simp only at h
    split at h
    · exact absurd rfl h
    · split at h
      · exact absurd rfl h
      · split at h
        · exact absurd rfl h
        · split at h
          · exact absurd rfl h
          · rename_i hk; exact Classical.not_not.mp hk

/-- … so at most ONE secret does not simply fail -/
theorem open_unique {c : Content} {k k' : Nat} (h : nip44Open c k ≠ .err) (h' : nip44Open c k' ≠ .err) : k = k' := by
  obtain ⟨p, hp, hk⟩ := open_not_err_key h
  obtain ⟨p', hp', hk'⟩ := open_not_err_key h'
  rw [hp] at hp'
  cases hp'
  rw [hk] at hk'
  exact Option.some.inj hk'

theorem openWith_err_iff (c : Content) (ks : List Nat) : openWith c ks = .err ↔ ∀ k ∈ ks, nip44Open c k = .err := by
  induction ks with
  | nil => simp [openWith]
  | cons k r ih =>
    unfold openWith
    cases hk : nip44Open c k with
    | err => simp [ih, hk]
    | ok i => simp [hk]
    | panic => simp [hk]

/-- the outcome of the key loop is the outcome under the one key that matters -/
theorem openWith_eq (c : Content) (ks : List Nat) (r : Open) (hr : r ≠ .err) :
    openWith c ks = r ↔ ∃ k ∈ ks, nip44Open c k = r := by
  induction ks with
  | nil => simp [openWith]; exact fun h => hr h.symm
  | cons k t ih =>
    unfold openWith
    cases hk : nip44Open c k with
    | err =>
      simp only [ih, List.mem_cons, exists_eq_or_imp, hk]
      constructor
      · intro h; exact Or.inr h
      · rintro (h | h)
        · exact absurd h.symm hr
        · exact h
    | ok i =>
      simp only [List.mem_cons, exists_eq_or_imp, hk]
      constructor
      · intro h; exact Or.inl h
      · rintro (h | ⟨k', _, h'⟩)
        · exact h
        · have : k = k' := open_unique (by rw [hk]; simp) (by rw [h']; exact hr)
          subst this; rw [hk] at h'; exact h'
    | panic =>
      simp only [List.mem_cons, exists_eq_or_imp, hk]
      constructor
      · intro h; exact Or.inl h
      · rintro (h | ⟨k', _, h'⟩)
        · exact h
        · have : k = k' := open_unique (by rw [hk]; simp) (by rw [h']; exact hr)
          subst this; rw [hk] at h'; exact h'


/-! ### step 1 as decision logic -/

theorem tagValue_ok (t : Tag) (nid : Bytes) :
    tagValue t = .ok nid ↔ ∃ v, t[1]? = some v ∧ v.length = Generated.hTagHexLen ∧ hexDecode v = some nid := by
  unfold tagValue
  split
  · rename_i h
    simp [h]
  · rename_i s h
    split
    · rename_i hl
      simp only [reduceCtorEq, false_iff, not_exists, not_and]
      intro v hv hl'
      rw [h] at hv; cases hv
      exact absurd hl' hl
    · rename_i hl
      have hl' : s.length = Generated.hTagHexLen := Classical.not_not.mp hl
      split
      · rename_i hd
        simp only [reduceCtorEq, false_iff, not_exists, not_and]
        intro v hv _ hd'
        rw [h] at hv; cases hv
        rw [hd] at hd'; cases hd'
      · rename_i b hd
        constructor
        · intro hb
          cases hb
          exact ⟨s, h, hl', hd⟩
        · rintro ⟨v, hv, _, hd'⟩
          rw [h] at hv; cases hv
          rw [hd] at hd'; cases hd'
          rfl

theorem extractNid_ok (e : Ev) (nid : Bytes) :
    extractNid e = .ok nid ↔ ∃ t v, hTags e = [t] ∧ t[1]? = some v ∧ v.length = Generated.hTagHexLen ∧ hexDecode v = some nid := by
  unfold extractNid
  split
  · rename_i h; simp [h]
  · rename_i t h
    rw [tagValue_ok]
    constructor
    · rintro ⟨v, hv⟩; exact ⟨t, v, h, hv⟩
    · rintro ⟨t', v, ht, hv⟩
      rw [h] at ht; cases ht
      exact ⟨v, hv⟩
  · rename_i a b r h; simp [h]

theorem validate_ok (cfg : Cfg) (now : Nat) (e : Ev) (nid : Bytes) :
    validate cfg now e = .ok nid ↔
      e.kind = Generated.kindMlsGroupMessage ∧ e.createdAt ≤ satAdd now cfg.skew ∧ now - cfg.maxAge ≤ e.createdAt ∧
      extractNid e = .ok nid := by
  unfold validate kindOk notTooNew notTooOld
  by_cases hk : e.kind = Generated.kindMlsGroupMessage
  · by_cases h1 : e.createdAt > satAdd now cfg.skew
    · simp [hk, h1]; intro h; omega
    · by_cases h2 : e.createdAt < now - cfg.maxAge
      · simp [hk, h1, h2]; intro _ h; omega
      · have h1' : e.createdAt ≤ satAdd now cfg.skew := by omega
        have h2' : now - cfg.maxAge ≤ e.createdAt := by omega
        simp [hk, h1, h2, h1', h2']
  · simp [hk]

/-! ### records -/

theorem recordFailure_groups (st : Store) (id : Nat) (k : ErrKind) (g e : Option Nat) :
    (recordFailure st id k g e).groups = st.groups := rfl

theorem recordFailure_other (st : Store) (id n : Nat) (k : ErrKind) (g e : Option Nat) (h : n ≠ id) :
    alookup n (recordFailure st id k g e).recs = alookup n st.recs := by
  unfold recordFailure
  exact alookup_ainsert_ne id n _ _ h

theorem recordFailure_self (st : Store) (id : Nat) (k : ErrKind) (g e : Option Nat) :
    ∃ r, alookup id (recordFailure st id k g e).recs = some r ∧ r.state = 3 ∧ r.reason = some (reasonOf k) ∧
      r.mid = (alookup id st.recs).bind (·.mid) := by
  unfold recordFailure
  exact ⟨_, alookup_ainsert_self id _ _, rfl, rfl, rfl⟩

theorem blocked_failed (r : Rec) (h : r.state = 3) : blocked r = true := by
  unfold blocked
  rw [h]
  decide

end MdkVerif.Wrap
