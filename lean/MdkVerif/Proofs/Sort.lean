import MdkVerif.Model.Basic
/- helper lemmas about the model's insertion sort and pagination (core Lean only) -/
namespace MdkVerif
open List

/-- what the sort needs from a comparator: a strict weak order -/
structure StrictWeak {α : Type} (lt : α → α → Bool) : Prop where
  asymm : ∀ a b, lt a b = true → lt b a = false
  negtrans : ∀ a b c, lt b a = false → lt c b = false → lt c a = false

theorem insertBy_perm {α : Type} (lt : α → α → Bool) (x : α) (l : List α) :
    insertBy lt x l ~ x :: l := by
  induction l with
  | nil => simp [insertBy]
  | cons y ys ih =>
    simp only [insertBy]
    split
    · exact Perm.refl _
    · exact (Perm.cons y ih).trans (Perm.swap x y ys)

theorem sortBy_perm {α : Type} (lt : α → α → Bool) (l : List α) : sortBy lt l ~ l := by
  induction l with
  | nil => simp [sortBy]
  | cons x xs ih => exact (insertBy_perm lt x _).trans (Perm.cons x ih)

theorem mem_insertBy {α : Type} (lt : α → α → Bool) (x a : α) (l : List α) :
    a ∈ insertBy lt x l ↔ a = x ∨ a ∈ l := by
  rw [(insertBy_perm lt x l).mem_iff]; simp

theorem mem_sortBy {α : Type} (lt : α → α → Bool) (a : α) (l : List α) : a ∈ sortBy lt l ↔ a ∈ l :=
  (sortBy_perm lt l).mem_iff

theorem length_sortBy {α : Type} (lt : α → α → Bool) (l : List α) : (sortBy lt l).length = l.length :=
  (sortBy_perm lt l).length_eq

/-- the order in which the result lists elements: `b` never strictly precedes an earlier `a` -/
def NotAfter {α : Type} (lt : α → α → Bool) (a b : α) : Prop := lt b a = false

theorem insertBy_sorted {α : Type} {lt : α → α → Bool} (h : StrictWeak lt) (x : α) (l : List α)
    (hl : l.Pairwise (NotAfter lt)) : (insertBy lt x l).Pairwise (NotAfter lt) := by
  induction l with
  | nil => simp [insertBy]
  | cons y ys ih =>
    simp only [insertBy]
    have hy := (pairwise_cons.mp hl)
    by_cases c : lt x y = true
    · simp only [c, if_true]
      refine pairwise_cons.mpr ⟨?_, hl⟩
      intro b hb
      rcases mem_cons.mp hb with rfl | hb
      · exact h.asymm _ _ c
      · exact h.negtrans _ _ _ (h.asymm _ _ c) (hy.1 b hb)
    · have c' : lt x y = false := by simpa using c
      simp only [c', Bool.false_eq_true, if_false]
      refine pairwise_cons.mpr ⟨?_, ih hy.2⟩
      intro b hb
      rcases (mem_insertBy lt x b ys).mp hb with rfl | hb
      · exact c'
      · exact hy.1 b hb

theorem sortBy_sorted {α : Type} {lt : α → α → Bool} (h : StrictWeak lt) (l : List α) :
    (sortBy lt l).Pairwise (NotAfter lt) := by
  induction l with
  | nil => simp [sortBy]
  | cons x xs ih => exact insertBy_sorted h x _ ih

/-- the sorted listing is determined by the *set* of elements, not by the order they are held in
    (hash-map iteration order, SQL row order), provided incomparable elements are equal -/
theorem sortBy_perm_eq {α : Type} {lt : α → α → Bool} (h : StrictWeak lt) (l₁ l₂ : List α)
    (hp : l₁ ~ l₂)
    (hd : ∀ a b, a ∈ l₁ → b ∈ l₁ → lt a b = false → lt b a = false → a = b) :
    sortBy lt l₁ = sortBy lt l₂ := by
  apply Perm.eq_of_pairwise (le := NotAfter lt)
  · intro a b ha hb hab hba
    have ha' : a ∈ l₁ := (mem_sortBy lt a l₁).mp ha
    have hb' : b ∈ l₁ := hp.symm.mem_iff.mp ((mem_sortBy lt b l₂).mp hb)
    exact hd a b ha' hb' hba hab
  · exact sortBy_sorted h l₁
  · exact sortBy_sorted h l₂
  · exact (sortBy_perm lt l₁).trans (hp.trans (sortBy_perm lt l₂).symm)

/-! ## pagination -/

def pageOf {α : Type} (l : List α) (offset limit : Nat) : List α := (l.drop offset).take limit

/-- concatenating `k` consecutive pages of size `limit` gives the first `k*limit` elements -/
theorem pages_concat {α : Type} (l : List α) (limit : Nat) (k : Nat) :
    ((List.range k).flatMap (fun i => pageOf l (i * limit) limit)) = l.take (k * limit) := by
  induction k with
  | zero => simp
  | succ k ih =>
    rw [List.range_succ, List.flatMap_append, ih]
    simp only [flatMap_cons, flatMap_nil, append_nil, pageOf]
    rw [Nat.succ_mul]
    -- take (a) l ++ take b (drop a l) = take (a+b) l
    rw [← List.take_add]

/-- pages partition the listing: no gaps, no repeats -/
theorem pages_partition {α : Type} (l : List α) (limit : Nat) (k : Nat) (hk : l.length ≤ k * limit) :
    ((List.range k).flatMap (fun i => pageOf l (i * limit) limit)) = l := by
  rw [pages_concat, List.take_of_length_le hk]

/-- a page that starts at or beyond the end is empty -/
theorem page_beyond {α : Type} (l : List α) (offset limit : Nat) (h : l.length ≤ offset) :
    pageOf l offset limit = [] := by
  simp [pageOf, List.drop_eq_nil_of_le h]

end MdkVerif
