import MdkVerif.Model.Client
import MdkVerif.Proofs.Client
import MdkVerif.Proofs.Store
import MdkVerif.Proofs.Fork
import MdkVerif.Proofs.ForkInv
import MdkVerif.Props.C01Fork
/-
  MdkVerif.Proofs.Chain — lemmas for lifting the single-fork theorems of C01 to many clients and to
  chains of forks (`Props/C01Chain.lean`).

  §A  frame lemmas for `deliver`, for EVERY state / event / fuel (`Frame`, `frame_deliverN`); stale events
      fail the outer layer (`outerOpens_stale`, `stale_deliverN`).
  §B  the child state as a function of the parent group state (`childOfG`), chains of children
      (`chainG`), the core of a group state (path, members, admins, name).
  §C  stale events (created on a branch the client is not on) keep the fork simulation: mixed runs.
  §D  one fork level for a client in any role (`AtFork`), with everything the simulation knows exposed.
  §E  the induction over the levels of a chain (stale events interleaved; the pure case as a corollary).
  §F  a rollback over two epochs.
  §G  the consumed ratchet generations: frame and invariant.

  REPAIR AFTER A CHANGE OF Model/Client.lean.  The lemmas that unfold definitions of the model (instead of
  going through the statements of Proofs/Fork.lean, Proofs/ForkInv.lean, Proofs/Client.lean) are:
    §A  `frame_rollbackTo` … `frame_deliverOnce` (step1, deliverOnce, the handlers, rollbackTo),
        `outerOpens_stale` (outerOpens), `stale_deliverN` (step1, deliverOnce);
    §B  `ensureSecret_eq`, `childOfG_commit`, `core_childOfG` (ensureSecret, mergeCommit, applyBody, syncRec);
    §C  `quiet_stale` (recordFailure, setRec — through `stale_deliverN`);
    §F  `isBetter_mid`, `rollback_mid`, `apply_parent_mgr`, and the last rewriting step of `depth2_core`
        (isBetter, rollbackTo, mgrCreate, wrongEpochCommit);
    §G  `cstep_rollbackTo` … `cstep_deliverOnce`, `consMono_send` … `consMono_restart`
        (the same functions as §A, plus the local operations).
  Everything else (§C–§E in particular: `rel_stale`, `fork_level_mixed`, `chain_step`, `chain_rest_mixed`,
  `chain_run_mixed`) uses only statements.
-/
namespace MdkVerif.Chain
open MdkVerif MdkVerif.Client MdkVerif.Fork MdkVerif.Props.C01Fork
open MdkVerif.Store (alookup_ainsert_self alookup_ainsert_ne)

/-- delivering a list of events, one after the other -/
def run (nx : Nat) (c : Cl) (l : List Ev) : Cl := l.foldl (fun c e => (deliver c e nx).1) c

@[simp] theorem run_nil (nx : Nat) (c : Cl) : run nx c [] = c := rfl
@[simp] theorem run_cons (nx : Nat) (c : Cl) (e : Ev) (l : List Ev) : run nx c (e :: l) = run nx (deliver c e nx).1 l := rfl
theorem run_append (nx : Nat) (c : Cl) (l1 l2 : List Ev) : run nx c (l1 ++ l2) = run nx (run nx c l1) l2 := by
  simp [run, List.foldl_append]

/-! ## §A  frame lemmas (the section that unfolds the step functions of Model.Client)

  `Frame ep n c c'`: as far as the configuration of the client and the dedup record of event number
  `n` go, `c'` differs from `c` at most by re-markings of a rollback to epoch `ep` (`rbRec ep`, which
  never creates or deletes a record).  Delivering `e` is a `Frame (epochOf e.path) n` for every
  `n ≠ e.n`. -/

structure Frame (ep n : Nat) (c c' : Cl) : Prop where
  id : c'.id = c.id
  persistent : c'.persistent = c.persistent
  retention : c'.retention = c.retention
  maxPast : c'.maxPast = c.maxPast
  hasGroup : c'.hasGroup = c.hasGroup
  /-- every property of the record of `n` that survives a rollback re-marking survives the step -/
  recs : ∀ P : Option Rec → Prop, (∀ o, P o → P (o.map (rbRec ep))) → P (getRec c n) → P (getRec c' n)

theorem frame_refl (ep n : Nat) (c : Cl) : Frame ep n c c := ⟨rfl, rfl, rfl, rfl, rfl, fun _ _ h => h⟩

theorem Frame.trans {ep n : Nat} {a b c : Cl} (h1 : Frame ep n a b) (h2 : Frame ep n b c) : Frame ep n a c :=
  ⟨h2.id.trans h1.id, h2.persistent.trans h1.persistent, h2.retention.trans h1.retention,
   h2.maxPast.trans h1.maxPast, h2.hasGroup.trans h1.hasGroup, fun P hP h => h2.recs P hP (h1.recs P hP h)⟩

/-- a step that keeps the configuration and the record table -/
theorem frame_struct (ep n : Nat) (c c' : Cl) (h1 : c'.id = c.id) (h2 : c'.persistent = c.persistent)
    (h3 : c'.retention = c.retention) (h4 : c'.maxPast = c.maxPast) (h5 : c'.hasGroup = c.hasGroup)
    (h6 : c'.recs = c.recs) : Frame ep n c c' :=
  ⟨h1, h2, h3, h4, h5, fun P _ h => by simpa only [getRec, h6] using h⟩

theorem Frame.setRec {ep n : Nat} {c x : Cl} (h : Frame ep n c x) (m : Nat) (r : Rec) (hm : n ≠ m) :
    Frame ep n c (setRec x m r) :=
  h.trans ⟨rfl, rfl, rfl, rfl, rfl, fun P _ hp => by
    have : getRec (Client.setRec x m r) n = getRec x n := by
      simp only [getRec, Client.setRec]; exact alookup_ainsert_ne _ _ _ _ hm
    rw [this]; exact hp⟩

theorem Frame.recordFailure {ep n : Nat} {c x : Cl} (h : Frame ep n c x) (m : Nat) (b : Bool) (e : Option Nat) (hm : n ≠ m) :
    Frame ep n c (recordFailure x m b e) := h.setRec m _ hm

theorem frame_rollbackTo (n : Nat) (c c1 : Cl) (ep : Nat) (hr : rollbackTo c ep = some c1) : Frame ep n c c1 := by
  unfold rollbackTo at hr
  split at hr
  · cases hr
  · split at hr
    · cases hr
    · cases hr
      refine ⟨rfl, rfl, rfl, rfl, rfl, ?_⟩
      intro P hP h
      simp only [getRec] at h ⊢
      rw [alookup_map_key _ rbRec2 (by intro p; obtain ⟨k', r⟩ := p; exact ite_pair _ _ _ _),
        alookup_map_key _ (rbRec1 ep) (by intro p; obtain ⟨k', r⟩ := p; exact ite_pair _ _ _ _)]
      have := hP _ h
      cases hx : alookup n c.recs <;> simpa [hx, rbRec] using this

/-- `setRec` on a client that kept configuration and records -/
theorem frame_setRec_struct (ep n : Nat) (c x : Cl) (m : Nat) (r : Rec) (hm : n ≠ m) (h1 : x.id = c.id)
    (h2 : x.persistent = c.persistent) (h3 : x.retention = c.retention) (h4 : x.maxPast = c.maxPast)
    (h5 : x.hasGroup = c.hasGroup) (h6 : x.recs = c.recs) : Frame ep n c (setRec x m r) :=
  (frame_struct ep n c x h1 h2 h3 h4 h5 h6).setRec m r hm

theorem Frame.trans' {ep n : Nat} {a b c : Cl} (h2 : Frame ep n b c) (h1 : Frame ep n a b) : Frame ep n a c := h1.trans h2

theorem frame_returnOwnCommit (ep n : Nat) (c : Cl) : Frame ep n c (returnOwnCommit c).1 := by
  apply frame_struct <;> rfl

theorem frame_failUnprocessable (ep n : Nat) (c : Cl) (e : Ev) (hn : n ≠ e.n) : Frame ep n c (failUnprocessable c e).1 := by
  show Frame ep n c (recordFailure c e.n true (some c.g.recEpoch))
  exact (frame_refl ep n c).recordFailure _ _ _ hn

theorem frame_notBetterResult (ep n : Nat) (c : Cl) (e : Ev) (hn : n ≠ e.n) : Frame ep n c (notBetterResult c e).1 := by
  unfold notBetterResult
  split
  · split
    · exact frame_returnOwnCommit ep n c
    · exact frame_failUnprocessable ep n c e hn
  · exact frame_failUnprocessable ep n c e hn

theorem frame_ownMessage (ep n : Nat) (c : Cl) (e : Ev) (hn : n ≠ e.n) : Frame ep n c (ownMessage c e).1 := by
  unfold ownMessage
  repeat' split
  all_goals first
    | exact frame_refl ep n c
    | exact frame_returnOwnCommit ep n c
    | (dsimp only; apply frame_setRec_struct <;> first | rfl | exact hn)

theorem frame_storeApp (ep n : Nat) (c : Cl) (e : Ev) (m t k : Nat) (hn : n ≠ e.n) : Frame ep n c (storeApp c e m t k).1 := by
  unfold storeApp
  dsimp only
  apply frame_setRec_struct <;> first | rfl | exact hn

theorem frame_processCommit (ep n : Nat) (c : Cl) (e : Ev) (b : Body) (sw : List Nat) (hn : n ≠ e.n) :
    Frame ep n c (processCommit c e b sw).1 := by
  unfold processCommit
  split
  · exact frame_failUnprocessable ep n c e hn
  · dsimp only
    split
    · apply frame_setRec_struct <;> first | rfl | exact hn
    · apply frame_setRec_struct <;> first | rfl | exact hn

theorem frame_wrongEpochCommit (n : Nat) (retry : Cl → Option (Cl × Res)) (c : Cl) (e : Ev) (ee : Nat) (hn : n ≠ e.n)
    (hretry : ∀ c1 r, retry c1 = some r → Frame ee n c1 r.1) : Frame ee n c (wrongEpochCommit retry c e ee).1 := by
  unfold wrongEpochCommit
  split
  · split
    · rename_i c1 hr
      split
      · rename_i r hrr
        exact (frame_rollbackTo n c c1 ee hr).trans (hretry c1 r hrr)
      · exact frame_notBetterResult ee n c e hn
    · exact frame_notBetterResult ee n c e hn
  · exact frame_notBetterResult ee n c e hn

theorem frame_step1 (n : Nat) (retry : Cl → Option (Cl × Res)) (nx : Nat) (c : Cl) (e : Ev) (hn : n ≠ e.n)
    (hretry : ∀ c1 r, retry c1 = some r → Frame (epochOf e.path) n c1 r.1) :
    Frame (epochOf e.path) n c (step1 retry nx c e).1 := by
  have hw : Frame (epochOf e.path) n c (withSecret c) := by apply frame_struct <;> rfl
  unfold step1
  split
  · show Frame _ n c (recordFailure c e.n false none)
    exact (frame_refl _ n c).recordFailure _ _ _ hn
  · split
    · show Frame _ n c (recordFailure c e.n true none)
      exact (frame_refl _ n c).recordFailure _ _ _ hn
    simp only
    split
    · show Frame _ n c (recordFailure (withSecret c) e.n true none)
      exact hw.recordFailure _ _ _ hn
    · split
      · -- commit
        split
        · exact hw.trans (frame_wrongEpochCommit n retry _ e _ hn hretry)
        · split
          · split
            · refine hw.trans ?_
              apply frame_setRec_struct <;> first | rfl | exact hn
            · exact hw.trans (frame_ownMessage _ n _ e hn)
          · split
            · exact hw.trans (frame_failUnprocessable _ n _ e hn)
            · refine Frame.trans' (frame_processCommit _ n _ e _ _ hn) (hw.trans ?_)
              apply frame_struct <;> rfl
      · -- leave
        split
        · exact hw.trans (frame_failUnprocessable _ n _ e hn)
        · split
          · exact hw.trans (frame_ownMessage _ n _ e hn)
          · split
            · exact hw.trans (frame_failUnprocessable _ n _ e hn)
            · split
              · refine hw.trans ?_
                apply frame_setRec_struct <;> first | rfl | exact hn
              · refine hw.trans ?_
                apply frame_setRec_struct <;> first | rfl | exact hn
      · -- app
        split
        · exact hw.trans (frame_failUnprocessable _ n _ e hn)
        · split
          · exact hw.trans (frame_failUnprocessable _ n _ e hn)
          · split
            · exact hw.trans (frame_ownMessage _ n _ e hn)
            · split
              · exact hw.trans (frame_failUnprocessable _ n _ e hn)
              · refine Frame.trans' (frame_storeApp _ n _ e _ _ _ hn) (hw.trans ?_)
                apply frame_struct <;> rfl

theorem frame_deliverOnce (n : Nat) (retry : Cl → Option (Cl × Res)) (nx : Nat) (c : Cl) (e : Ev) (hn : n ≠ e.n)
    (hretry : ∀ c1 r, retry c1 = some r → Frame (epochOf e.path) n c1 r.1) :
    Frame (epochOf e.path) n c (deliverOnce retry nx c e).1 := by
  unfold deliverOnce
  split
  · split
    · exact frame_refl _ n c
    · exact frame_step1 n retry nx c e hn hretry
  · exact frame_step1 n retry nx c e hn hretry

/-- **frame of `process_message`**, every state, event and fuel: the configuration (`id`, `persistent`,
    `retention`, `maxPast`, `hasGroup`) never changes, and the dedup record of every OTHER event number
    is created by nothing and changed by nothing except the re-marking of a rollback to `e`'s epoch -/
theorem frame_deliverN (fuel nx : Nat) (c : Cl) (e : Ev) (n : Nat) (hn : n ≠ e.n) :
    Frame (epochOf e.path) n c (deliverN fuel nx c e).1 := by
  induction fuel generalizing c with
  | zero => exact frame_deliverOnce n _ nx c e hn (by intro c1 r hr; cases hr)
  | succ f ih =>
    apply frame_deliverOnce n _ nx c e hn
    intro c1 r hr
    cases hr
    exact ih c1

theorem frame_deliver (nx : Nat) (c : Cl) (e : Ev) (n : Nat) (hn : n ≠ e.n) :
    Frame (epochOf e.path) n c (deliver c e nx).1 := frame_deliverN 3 nx c e n hn

/-- the configuration part alone needs no side condition (take an event number that differs from `e.n`) -/
theorem deliver_config (nx : Nat) (c : Cl) (e : Ev) :
    (deliver c e nx).1.id = c.id ∧ (deliver c e nx).1.persistent = c.persistent ∧
    (deliver c e nx).1.retention = c.retention ∧ (deliver c e nx).1.maxPast = c.maxPast ∧
    (deliver c e nx).1.hasGroup = c.hasGroup := by
  have h := frame_deliver nx c e (e.n + 1) (by omega)
  exact ⟨h.id, h.persistent, h.retention, h.maxPast, h.hasGroup⟩

/-- an unseen event number stays unseen unless it is the delivered one -/
theorem deliver_unseen (nx : Nat) (c : Cl) (e : Ev) (n : Nat) (hn : n ≠ e.n) (h : getRec c n = none) :
    getRec (deliver c e nx).1 n = none :=
  (frame_deliver nx c e n hn).recs (· = none) (fun o ho => by rw [ho]; rfl) h

/-- an event whose creation state is not a prefix of the client's MLS path (created on a branch the client
    is not on, or ahead of the client) fails the outer layer: every stored exporter secret is the secret
    of a prefix of the client's path (`SecretsOK`) -/
theorem outerOpens_stale (g : GState) (e : Ev) (hs : SecretsOK g) (hst : ¬ e.path <+: g.path) : outerOpens g e = false := by
  have key : ∀ ep, (match alookup ep g.secrets with | some p => p == e.path | none => false) = false := by
    intro ep
    cases h : alookup ep g.secrets with
    | none => rfl
    | some q =>
      simp only [beq_eq_false_iff_ne, ne_eq]
      intro x
      exact hst (x ▸ (hs ep q h).2)
  unfold outerOpens
  simp only [Bool.or_eq_false_iff, List.any_eq_false, List.mem_range, Bool.and_eq_true, decide_eq_true_eq, not_and,
    Bool.not_eq_true]
  exact ⟨key _, fun x _ _ => key _⟩

/-- … so delivering it changes nothing (its record already blocks it), or only writes the event's OWN record, Failed
    (and stores the current epoch's exporter secret on the way, if the event is routed to an active group):
    not routed (no group, or another `h` tag than the id in force) → GroupNotFound; evicted → ExportSecret;
    otherwise the outer layer fails → Message -/
theorem stale_deliverN (fuel nx : Nat) (c : Cl) (e : Ev) (hs : SecretsOK (ensureSecret c.g))
    (hst : ¬ e.path <+: c.g.path) :
    ((deliverN fuel nx c e).1 = c ∧ ∃ r, getRec c e.n = some r ∧ (r.state = 3 ∨ r.state = 4) ∧
        (deliverN fuel nx c e).2 = if routes c e then .unprocessable else .previouslyFailed) ∨
    (routes c e = false ∧ deliverN fuel nx c e = (recordFailure c e.n false none, .err eGroupNotFound)) ∨
    (routes c e = true ∧ c.g.active = false ∧ deliverN fuel nx c e = (recordFailure c e.n true none, .err eExportSecret)) ∨
    (routes c e = true ∧ c.g.active = true ∧
      deliverN fuel nx c e = (recordFailure (withSecret c) e.n true none, .err eMessage)) := by
  have ho : outerOpens (withSecret c).g e = false :=
    outerOpens_stale _ e hs (by rw [withSecret_path]; exact hst)
  have hstep : ∀ retry,
      (routes c e = false ∧ step1 retry nx c e = (recordFailure c e.n false none, .err eGroupNotFound)) ∨
      (routes c e = true ∧ c.g.active = false ∧ step1 retry nx c e = (recordFailure c e.n true none, .err eExportSecret)) ∨
      (routes c e = true ∧ c.g.active = true ∧
        step1 retry nx c e = (recordFailure (withSecret c) e.n true none, .err eMessage)) := by
    intro retry
    by_cases hr : routes c e = true
    · by_cases ha : c.g.active = true
      · right; right
        refine ⟨hr, ha, ?_⟩
        unfold step1
        simp [hr, ha, ho]
      · right; left
        have ha' : c.g.active = false := by simpa using ha
        refine ⟨hr, ha', ?_⟩
        unfold step1
        simp [hr, ha']
    · left
      have hr' : routes c e = false := by simpa using hr
      refine ⟨hr', ?_⟩
      unfold step1
      simp [hr']
  obtain ⟨retry, hd⟩ := deliverN_once fuel nx c e
  rw [hd]
  unfold deliverOnce
  split
  · rename_i r hr
    split
    · rename_i h34
      exact Or.inl ⟨rfl, r, hr, by simpa using h34, rfl⟩
    · exact Or.inr (hstep retry)
  · exact Or.inr (hstep retry)

/-- a record is fixed by every rollback re-marking to an epoch `≥ K` -/
def StableRec (K : Nat) (r : Rec) : Prop := ∀ ep, K ≤ ep → rbRec ep r = r

theorem StableRec.mono {K K' : Nat} {r : Rec} (h : StableRec K r) (hk : K ≤ K') : StableRec K' r :=
  fun ep hep => h ep (Nat.le_trans hk hep)

/-- a stable record of another event number is untouched -/
theorem deliver_keeps (nx : Nat) (c : Cl) (e : Ev) (n : Nat) (r : Rec) (hn : n ≠ e.n) (h : getRec c n = some r)
    (hs : rbRec (epochOf e.path) r = r) : getRec (deliver c e nx).1 n = some r :=
  (frame_deliver nx c e n hn).recs (· = some r) (fun o ho => by rw [ho]; simp [hs]) h

theorem run_persistent (nx : Nat) (l : List Ev) : ∀ c : Cl, (run nx c l).persistent = c.persistent := by
  induction l with
  | nil => intro c; rfl
  | cons e t ih => intro c; rw [run_cons, ih]; exact (deliver_config nx c e).2.1

theorem frame_run (nx : Nat) (ep n : Nat) (l : List Ev) : ∀ (c : Cl), (∀ e ∈ l, epochOf e.path = ep ∧ n ≠ e.n) →
    Frame ep n c (run nx c l) := by
  induction l with
  | nil => intro c _; exact frame_refl ep n c
  | cons e t ih =>
    intro c h
    obtain ⟨h1, h2⟩ := h e List.mem_cons_self
    rw [run_cons]
    exact (h1 ▸ frame_deliver nx c e n h2).trans (ih _ (fun x hx => h x (List.mem_cons_of_mem _ hx)))

/-! ## §B  the child state as a function of the parent group state -/

/-- the group state after applying commit `a` to the parent group state `g` (`Fork.childG` without the client) -/
def childOfG (mp : Nat) (g : GState) (a : Ev) : GState := syncRec (ensureSecret (mergeCommit mp (ensureSecret g) a))

theorem childG_eq (c : Cl) (a : Ev) : childG c a = childOfG c.maxPast c.g a := rfl

theorem childOfG_wc (mp : Nat) (g : GState) (X : List Nat) (a : Ev) : childOfG mp (wc g X) a = wc (childOfG mp g a) X := by
  unfold childOfG; rw [ensureSecret_wc, mergeCommit_wc, ensureSecret_wc, syncRec_wc]

/-- the winners of a chain of forks applied one after the other -/
def chainG (mp : Nat) (g : GState) (ws : List Ev) : GState := ws.foldl (childOfG mp) g

@[simp] theorem chainG_nil (mp : Nat) (g : GState) : chainG mp g [] = g := rfl
@[simp] theorem chainG_cons (mp : Nat) (g : GState) (w : Ev) (ws : List Ev) :
    chainG mp g (w :: ws) = chainG mp (childOfG mp g w) ws := rfl

theorem chainG_wc (mp : Nat) (X : List Nat) (ws : List Ev) : ∀ g, chainG mp (wc g X) ws = wc (chainG mp g ws) X := by
  induction ws with
  | nil => intro g; rfl
  | cons w ws ih => intro g; rw [chainG_cons, chainG_cons, childOfG_wc, ih]

/-- stored exporter secrets after `exporter_secret()` in a state with path `p` -/
def secretsAfter (p : Path) (S : List (Nat × Path)) : List (Nat × Path) :=
  match alookup (epochOf p) S with
  | some _ => S
  | none => ainsert (epochOf p) p S

theorem ensureSecret_eq (g : GState) : ensureSecret g = { g with secrets := secretsAfter g.path g.secrets } := by
  unfold ensureSecret secretsAfter
  split <;> rename_i h <;> simp [h]

/-- every field of the child state of a commit, as a function of the parent's path, members, group data
    (name, description, admins, relays, nostr group id), (ensured) secrets, retained past states, last-message
    pointer, consumed list and activity flag -/
theorem childOfG_commit (mp : Nat) (g : GState) (a : Ev) (b : Body) (sw : List Nat) (hk : a.kind = .commit b sw) :
    childOfG mp g a =
      { path := g.path ++ [a.cipher], members := membersAfter b sw g.members,
        admins := (dataAfter b (dataOf g)).admins, name := (dataAfter b (dataOf g)).name,
        desc := (dataAfter b (dataOf g)).desc, relays := (dataAfter b (dataOf g)).relays,
        nid := (dataAfter b (dataOf g)).nid,
        secrets := secretsAfter (g.path ++ [a.cipher]) (secretsAfter g.path g.secrets),
        pending := none, props := [], consumed := g.consumed, past := (g.path :: g.past).take mp,
        recEpoch := epochOf (g.path ++ [a.cipher]), recName := (dataAfter b (dataOf g)).name,
        recAdmins := (dataAfter b (dataOf g)).admins, recDesc := (dataAfter b (dataOf g)).desc,
        recRelays := (dataAfter b (dataOf g)).relays, recNid := (dataAfter b (dataOf g)).nid,
        last := g.last, active := g.active } := by
  unfold childOfG mergeCommit
  rw [hk]
  simp only [ensureSecret_eq, syncRec]
  cases b <;> simp [applyBody, membersAfter, dataAfter, dataOf]

/-- what two parent states must share for a commit to give the same child (up to consumed ratchet
    generations): NOT the pending commit, the queued proposals or the stored record -/
structure SameParent (g1 g2 : GState) : Prop where
  path : g1.path = g2.path
  members : g1.members = g2.members
  data : dataOf g1 = dataOf g2
  secrets : (ensureSecret g1).secrets = (ensureSecret g2).secrets
  past : g1.past = g2.past
  last : g1.last = g2.last
  active : g1.active = g2.active

/-- what equality up to the consumed list says field by field -/
theorem wc_fields {g1 g2 : GState} (h : wc g1 [] = wc g2 []) :
    g1.path = g2.path ∧ g1.members = g2.members ∧ dataOf g1 = dataOf g2 ∧
    g1.recEpoch = g2.recEpoch ∧ g1.recName = g2.recName ∧ g1.recAdmins = g2.recAdmins ∧
    g1.recDesc = g2.recDesc ∧ g1.recRelays = g2.recRelays ∧ g1.recNid = g2.recNid ∧
    g1.pending = g2.pending ∧ g1.props = g2.props ∧ g1.secrets = g2.secrets ∧ g1.past = g2.past ∧
    g1.last = g2.last ∧ g1.active = g2.active := by
  have f : ∀ {α : Type} (π : GState → α), π (wc g1 []) = π (wc g2 []) := fun π => congrArg π h
  exact ⟨f GState.path, f GState.members, f dataOf, f GState.recEpoch, f GState.recName,
    f GState.recAdmins, f GState.recDesc, f GState.recRelays, f GState.recNid, f GState.pending, f GState.props,
    f GState.secrets, f GState.past, f GState.last, f GState.active⟩

theorem SameParent.core_eq {g1 g2 : GState} (h : SameParent g1 g2) :
    (g1.path, g1.members, dataOf g1) = (g2.path, g2.members, dataOf g2) := by rw [h.path, h.members, h.data]

theorem sameParent_of_wc {g1 g2 : GState} (h : wc g1 [] = wc g2 []) : SameParent g1 g2 := by
  obtain ⟨h1, h2, h3, _, _, _, _, _, _, _, _, h5, h6, h7, h8⟩ := wc_fields h
  exact ⟨h1, h2, h3, by simp only [ensureSecret_eq, h1, h5], h6, h7, h8⟩

theorem childOfG_congr (mp : Nat) (g1 g2 : GState) (a : Ev) (b : Body) (sw : List Nat) (hk : a.kind = .commit b sw)
    (h : SameParent g1 g2) : wc (childOfG mp g1 a) [] = wc (childOfG mp g2 a) [] := by
  have s := h.secrets
  simp only [ensureSecret_eq] at s
  rw [childOfG_commit mp g1 a b sw hk, childOfG_commit mp g2 a b sw hk]
  simp only [wc, s]
  simp only [h.path, h.members, h.data, h.past, h.last, h.active]

/-- the core of a group state: MLS state (path, hence epoch), members, and the group data (name, description,
    admins, relays, nostr group id) -/
abbrev Core := Path × List Nat × GData

def core (g : GState) : Core := (g.path, g.members, dataOf g)

/-- a commit applied to the core -/
def coreStep (k : Core) (a : Ev) : Core :=
  match a.kind with
  | .commit b sw => (k.1 ++ [a.cipher], membersAfter b sw k.2.1, dataAfter b k.2.2)
  | _ => k

@[simp] theorem core_wc (g : GState) (X : List Nat) : core (wc g X) = core g := rfl

theorem core_childOfG (mp : Nat) (g : GState) (a : Ev) : core (childOfG mp g a) = coreStep (core g) a := by
  cases hk : a.kind with
  | commit b sw => rw [childOfG_commit mp g a b sw hk]; simp [core, coreStep, hk, dataOf]
  | app m t k => simp [childOfG, mergeCommit, hk, core, coreStep, syncRec, dataOf]
  | leave => simp [childOfG, mergeCommit, hk, core, coreStep, syncRec, dataOf]

theorem core_chainG (mp : Nat) (ws : List Ev) : ∀ g, core (chainG mp g ws) = ws.foldl coreStep (core g) := by
  induction ws with
  | nil => intro g; rfl
  | cons w ws ih => intro g; rw [chainG_cons, ih, core_childOfG]; rfl

theorem foldl_coreStep_path (ws : List Ev) (hk : ∀ w ∈ ws, ∃ b sw, w.kind = .commit b sw) :
    ∀ k : Core, (ws.foldl coreStep k).1 = k.1 ++ ws.map (·.cipher) := by
  induction ws with
  | nil => intro k; simp
  | cons w ws ih =>
    intro k
    obtain ⟨b, sw, hw⟩ := hk w List.mem_cons_self
    rw [List.foldl_cons, ih (fun x hx => hk x (List.mem_cons_of_mem _ hx))]
    simp [coreStep, hw]

/-- the child of a synced-or-not parent is synced, active if the parent is, and its record id is the new id -/
theorem childOfG_synced (mp : Nat) (g : GState) (a : Ev) : Synced (childOfG mp g a) := synced_syncRec _

theorem secretsOK_wc (g : GState) (X : List Nat) (h : SecretsOK g) : SecretsOK (wc g X) := h

theorem secretsOK_childOfG (mp : Nat) (g : GState) (a : Ev) (h : SecretsOK g) : SecretsOK (childOfG mp g a) :=
  secOK_syncRec _ (secOK_ensure _ (secOK_merge _ _ _ (secOK_ensure _ h)))

/-! ## §C  stale events may be interleaved

  An event created on a branch the client is not on (its creation path is neither a prefix of the fork's
  parent path nor a child of the parent by one of the fork's commits) is refused by the outer layer
  wherever it is delivered during the fork (`stale_deliverN`): it only writes its own record.  The
  simulation relation of the fork does not look at that record, so the fork theorems hold for delivery
  lists that interleave such events freely. -/

/-- `e` is stale at the fork `T` of the client `c` -/
structure StaleAt (c : Cl) (T : List Ev) (e : Ev) : Prop where
  num : ∀ a ∈ T, e.n ≠ a.n
  parent : ¬ e.path <+: c.g.path
  child : ∀ a ∈ T, e.path ≠ c.g.path ++ [a.cipher]

/-- what a refused stale delivery does to the client -/
structure Quiet (n : Nat) (c c' : Cl) : Prop where
  id : c'.id = c.id
  persistent : c'.persistent = c.persistent
  retention : c'.retention = c.retention
  maxPast : c'.maxPast = c.maxPast
  hasGroup : c'.hasGroup = c.hasGroup
  g : c'.g = c.g ∨ c'.g = ensureSecret c.g
  mgr : c'.mgr = c.mgr
  msgs : c'.msgs = c.msgs
  recs : ∀ m, m ≠ n → getRec c' m = getRec c m

theorem quiet_refl (n : Nat) (c : Cl) : Quiet n c c := ⟨rfl, rfl, rfl, rfl, rfl, Or.inl rfl, rfl, rfl, fun _ _ => rfl⟩

theorem quiet_recordFailure (c : Cl) (n : Nat) (b : Bool) (ep : Option Nat) : Quiet n c (recordFailure c n b ep) := by
  refine ⟨rfl, rfl, rfl, rfl, rfl, Or.inl rfl, rfl, rfl, ?_⟩
  intro m hm
  simp only [getRec, recordFailure, setRec]
  exact alookup_ainsert_ne _ _ _ _ hm

theorem quiet_stale (fuel nx : Nat) (c : Cl) (e : Ev) (hs : SecretsOK (ensureSecret c.g))
    (hst : ¬ e.path <+: c.g.path) : Quiet e.n c (deliverN fuel nx c e).1 := by
  rcases stale_deliverN fuel nx c e hs hst with h | h | h | h
  · rw [h.1]; exact quiet_refl _ c
  · rw [h.2]; exact quiet_recordFailure c e.n false none
  · rw [h.2.2]; exact quiet_recordFailure c e.n true none
  · rw [h.2.2]
    refine ⟨rfl, rfl, rfl, rfl, rfl, Or.inr rfl, rfl, rfl, ?_⟩
    intro m hm
    simp only [getRec, recordFailure, setRec]
    exact alookup_ainsert_ne _ _ _ _ hm

theorem Quiet.consumed {n : Nat} {c c' : Cl} (h : Quiet n c c') : c'.g.consumed = c.g.consumed := by
  rcases h.g with x | x
  · rw [x]
  · rw [x]; exact (ensureSecret_fields c.g).2.2.2.2.2.2.2.2.2.2.1

theorem Quiet.frame {n : Nat} {c c' : Cl} (h : Quiet n c c') (ep m : Nat) (hm : m ≠ n) : Frame ep m c c' :=
  ⟨h.id, h.persistent, h.retention, h.maxPast, h.hasGroup, fun P _ hp => by rw [h.recs m hm]; exact hp⟩

theorem pform_quiet {c0 c c' : Cl} {n : Nat} (hf : PForm c0 c) (h : Quiet n c c') : PForm c0 c' := by
  refine ⟨h.id.trans hf.id, h.retention.trans hf.ret, h.maxPast.trans hf.mp, h.hasGroup.trans hf.hg, ?_, ?_⟩
  · rw [h.consumed]
    rcases h.g with x | x
    · rw [x]; exact hf.g
    · rw [x, ensureSecret_idem]; exact hf.g
  · rw [h.mgr]; exact hf.mgr

theorem cform_quiet {c0 c c' : Cl} {a : Ev} {n : Nat} (hb : Base c0) (ha : Com c0 a) (hf : CForm c0 a c) (h : Quiet n c c') :
    CForm c0 a c' := by
  have hst : ensureSecret c.g = c.g := by
    rw [hf.g, ensureSecret_wc, (childG_stable c0 hb a ha).1]
  have hg : c'.g = c.g := by
    rcases h.g with x | x
    · exact x
    · rw [x, hst]
  refine ⟨h.id.trans hf.id, h.retention.trans hf.ret, h.maxPast.trans hf.mp, h.hasGroup.trans hf.hg, ?_, ?_⟩
  · rw [hg]; exact hf.g
  · rw [h.mgr, hg]; exact hf.mgr

/-- the client's stored secrets (with the current one ensured) follow its path, in both shapes of the fork -/
theorem pform_secrets {c0 c : Cl} (hs0 : SecretsOK c0.g) (hf : PForm c0 c) :
    SecretsOK (ensureSecret c.g) ∧ c.g.path = c0.g.path := by
  have hp : c.g.path = c0.g.path := by
    have := congrArg GState.path hf.g
    rw [ensureSecret_path] at this; rw [this]; exact gP_path c0
  refine ⟨?_, hp⟩
  rw [hf.g]
  exact secretsOK_wc _ _ (secretsOK_ensure _ hs0)

theorem cform_secrets {c0 c : Cl} {a : Ev} (hb : Base c0) (hs0 : SecretsOK c0.g) (ha : Com c0 a) (hf : CForm c0 a c) :
    SecretsOK (ensureSecret c.g) ∧ c.g.path = c0.g.path ++ [a.cipher] := by
  have hst : ensureSecret c.g = c.g := by
    rw [hf.g, ensureSecret_wc, (childG_stable c0 hb a ha).1]
  refine ⟨?_, by rw [hf.g]; exact (childG_facts c0 hb a ha).1⟩
  rw [hst, hf.g]
  exact secretsOK_wc _ _ (secretsOK_childOfG _ _ _ hs0)

theorem not_prefix_child {p q : Path} {x : Nat} (h1 : ¬ q <+: p) (h2 : q ≠ p ++ [x]) : ¬ q <+: p ++ [x] := by
  intro h
  rcases List.prefix_concat_iff.mp h with y | y
  · exact h2 y
  · exact h1 y

/-- a stale delivery keeps the simulation relation (bystander) -/
theorem rel_stale (c0 : Cl) (hb : Base c0) (hs0 : SecretsOK c0.g) (S : List Ev) (hS : Sibs c0 S) (c : Cl) (st : FState)
    (nx : Nat) (h : Rel c0 S c st) (e : Ev) (hst : StaleAt c0 S e) :
    Rel c0 S (deliver c e nx).1 st ∧ Quiet e.n c (deliver c e nx).1 := by
  have hq : Quiet e.n c (deliver c e nx).1 := by
    cases hap : st.applied with
    | none =>
      have hf := h.par hap
      obtain ⟨h1, h2⟩ := pform_secrets hs0 hf
      exact quiet_stale 3 nx c e h1 (by rw [h2]; exact hst.parent)
    | some ka =>
      obtain ⟨a, haS, _, hcf, _⟩ := h.chi ka hap
      obtain ⟨h1, h2⟩ := cform_secrets hb hs0 (hS.sib a haS).com hcf
      exact quiet_stale 3 nx c e h1 (by rw [h2]; exact not_prefix_child hst.parent (hst.child a haS))
  have hrec : ∀ e' ∈ S, getRec (deliver c e nx).1 e'.n = getRec c e'.n :=
    fun e' he' => hq.recs e'.n (fun x => hst.num e' he' x.symm)
  refine ⟨⟨?_, fun hap => pform_quiet (h.par hap) hq, ?_, ?_, ?_⟩, hq⟩
  · intro x hx
    rw [hq.consumed] at hx
    rcases h.cons x hx with y | ⟨e', he', hc, hn⟩
    · exact Or.inl y
    · exact Or.inr ⟨e', he', hc, by rw [hrec e' he']; exact hn⟩
  · intro k hk
    obtain ⟨a, haS, hka, hcf, hra⟩ := h.chi k hk
    exact ⟨a, haS, hka, cform_quiet hb (hS.sib a haS).com hcf hq, by rw [hrec a haS]; exact hra⟩
  · intro e' he' hb'
    rw [hrec e' he']; exact h.blk e' he' hb'
  · intro e' he' hb' hna
    rw [hrec e' he']; exact h.fresh e' he' hb' hna

/-- a stale delivery keeps the simulation relation (committer) -/
theorem rel2_stale (c0 : Cl) (hb : Base c0) (hs0 : SecretsOK c0.g) (o : Ev) (S : List Ev) (hS : Sibs2 c0 o S) (c : Cl)
    (st : FState) (nx : Nat) (h : Rel2 c0 o S c st) (e : Ev) (hst : StaleAt c0 (o :: S) e) :
    Rel2 c0 o S (deliver c e nx).1 st ∧ Quiet e.n c (deliver c e nx).1 := by
  have hq : Quiet e.n c (deliver c e nx).1 := by
    cases hap : st.applied with
    | none =>
      have hf := h.par hap
      obtain ⟨h1, h2⟩ := pform_secrets hs0 hf
      exact quiet_stale 3 nx c e h1 (by rw [h2]; exact hst.parent)
    | some ka =>
      obtain ⟨a, haT, _, hcf, _⟩ := h.chi ka hap
      obtain ⟨h1, h2⟩ := cform_secrets hb hs0 (hS.com a haT) hcf
      exact quiet_stale 3 nx c e h1 (by rw [h2]; exact not_prefix_child hst.parent (hst.child a haT))
  have hrec : ∀ e' ∈ o :: S, getRec (deliver c e nx).1 e'.n = getRec c e'.n :=
    fun e' he' => hq.recs e'.n (fun x => hst.num e' he' x.symm)
  have hST : ∀ e' ∈ S, e' ∈ o :: S := fun e' h' => List.mem_cons_of_mem _ h'
  refine ⟨⟨?_, fun hap => pform_quiet (h.par hap) hq, ?_, ?_, ?_, ?_⟩, hq⟩
  · intro x hx
    rw [hq.consumed] at hx
    rcases h.cons x hx with y | ⟨e', he', hc, hn⟩
    · exact Or.inl y
    · exact Or.inr ⟨e', he', hc, by rw [hrec e' (hST e' he')]; exact hn⟩
  · intro k hk
    obtain ⟨a, haT, hka, hcf, hra⟩ := h.chi k hk
    exact ⟨a, haT, hka, cform_quiet hb (hS.com a haT) hcf hq, by rw [hrec a haT]; exact hra⟩
  · intro e' he' hb'
    rw [hrec e' he']; exact h.blk e' he' hb'
  · intro e' he' hb' hna
    rw [hrec e' (hST e' he')]; exact h.fresh e' he' hb' hna
  · intro hb' hna
    rw [hrec o List.mem_cons_self]; exact h.ownf hb' hna

/-- the keys of the fork's commits in a mixed delivery list, in order -/
def sibKeys (T l : List Ev) : List Key := (l.filter (fun e => decide (e ∈ T))).map key

theorem sibKeys_cons_mem {T : List Ev} {e : Ev} (l : List Ev) (h : e ∈ T) : sibKeys T (e :: l) = key e :: sibKeys T l := by
  simp [sibKeys, h]
theorem sibKeys_cons_not {T : List Ev} {e : Ev} (l : List Ev) (h : e ∉ T) : sibKeys T (e :: l) = sibKeys T l := by
  simp [sibKeys, h]

theorem mem_sibKeys {T l : List Ev} {k : Key} : k ∈ sibKeys T l ↔ ∃ e ∈ l, e ∈ T ∧ key e = k := by
  simp [sibKeys, and_assoc]

theorem rel_run_mixed (c0 : Cl) (hb : Base c0) (hs0 : SecretsOK c0.g) (S : List Ev) (hS : Sibs c0 S) (nx : Nat) (l : List Ev) :
    ∀ (c : Cl) (st : FState), Rel c0 S c st → FInv st → (∀ e ∈ l, e ∈ S ∨ StaleAt c0 S e) →
      Rel c0 S (run nx c l) (frun st (sibKeys S l)) ∧
      ∀ n, (∀ e ∈ l, n ≠ e.n) → Frame (epochOf c0.g.path) n c (run nx c l) := by
  induction l with
  | nil => intro c st h _ _; exact ⟨h, fun n _ => frame_refl _ n c⟩
  | cons e t ih =>
    intro c st h hi hl
    have hl' : ∀ x ∈ t, x ∈ S ∨ StaleAt c0 S x := fun x hx => hl x (List.mem_cons_of_mem _ hx)
    rw [run_cons]
    by_cases he : e ∈ S
    · rw [sibKeys_cons_mem t he]
      obtain ⟨h1, h2⟩ := ih _ _ (rel_step c0 hb S hS c st nx h hi e he) (finv_deliver st _ hi) hl'
      refine ⟨h1, fun n hn => Frame.trans ?_ (h2 n (fun x hx => hn x (List.mem_cons_of_mem _ hx)))⟩
      have := frame_deliver nx c e n (hn e List.mem_cons_self)
      rw [(hS.sib e he).path] at this
      exact this
    · rw [sibKeys_cons_not t he]
      rcases hl e List.mem_cons_self with x | x
      · exact absurd x he
      · obtain ⟨hr, hq⟩ := rel_stale c0 hb hs0 S hS c st nx h e x
        obtain ⟨h1, h2⟩ := ih _ _ hr hi hl'
        exact ⟨h1, fun n hn => (hq.frame _ n (hn e List.mem_cons_self)).trans (h2 n (fun x hx => hn x (List.mem_cons_of_mem _ hx)))⟩

theorem rel2_run_mixed (c0 : Cl) (hb : Base c0) (hs0 : SecretsOK c0.g) (o : Ev) (S : List Ev) (hS : Sibs2 c0 o S) (nx : Nat)
    (l : List Ev) : ∀ (c : Cl) (st : FState), Rel2 c0 o S c st → FInv st → (∀ e ∈ l, e ∈ o :: S ∨ StaleAt c0 (o :: S) e) →
      Rel2 c0 o S (run nx c l) (frun2 (key o) st (sibKeys (o :: S) l)) ∧
      ∀ n, (∀ e ∈ l, n ≠ e.n) → Frame (epochOf c0.g.path) n c (run nx c l) := by
  induction l with
  | nil => intro c st h _ _; exact ⟨h, fun n _ => frame_refl _ n c⟩
  | cons e t ih =>
    intro c st h hi hl
    have hl' : ∀ x ∈ t, x ∈ o :: S ∨ StaleAt c0 (o :: S) x := fun x hx => hl x (List.mem_cons_of_mem _ hx)
    rw [run_cons]
    by_cases he : e ∈ o :: S
    · rw [sibKeys_cons_mem t he]
      obtain ⟨h1, h2⟩ := ih _ _ (rel2_step c0 hb o S hS c st nx h hi e he) (finv_deliver2 _ st _ hi) hl'
      refine ⟨h1, fun n hn => Frame.trans ?_ (h2 n (fun x hx => hn x (List.mem_cons_of_mem _ hx)))⟩
      have := frame_deliver nx c e n (hn e List.mem_cons_self)
      rw [(hS.com e he).path] at this
      exact this
    · rw [sibKeys_cons_not t he]
      rcases hl e List.mem_cons_self with x | x
      · exact absurd x he
      · obtain ⟨hr, hq⟩ := rel2_stale c0 hb hs0 o S hS c st nx h e x
        obtain ⟨h1, h2⟩ := ih _ _ hr hi hl'
        exact ⟨h1, fun n hn => (hq.frame _ n (hn e List.mem_cons_self)).trans (h2 n (fun x hx => hn x (List.mem_cons_of_mem _ hx)))⟩

/-! ## §D  one fork level, any role -/

/-- a client at the parent state of a fork whose set of competing commits is `T`: a bystander (all of
    `T` are foreign siblings) or one of the committers (its own staged commit `o` is in `T`, applied on
    relay echo) -/
inductive AtFork (c : Cl) (T : List Ev) : Prop where
  | bystander (hg : c.hasGroup = true) (ha : c.g.active = true) (hr : 1 ≤ c.retention) (hsec : SecretsOK c.g)
      (hm : NoForkSnapshot c) (hn : c.g.recNid = c.g.nid) (hS : Siblings c T)
  | committer (o : Ev) (S : List Ev) (hg : c.hasGroup = true) (ha : c.g.active = true) (hr : 1 ≤ c.retention)
      (hsec : SecretsOK c.g) (hm : NoForkSnapshot c) (hn : c.g.recNid = c.g.nid) (ho : OwnCommit c o) (hS : Siblings c S)
      (hd : ∀ e ∈ S, e.n ≠ o.n ∧ (e.ts, e.idnum) ≠ (o.ts, o.idnum)) (hT : ∀ e, e ∈ T ↔ e ∈ o :: S)

/-- `w` is the MIP-03 minimum of `S` -/
def IsMin (w : Ev) (S : List Ev) : Prop := w ∈ S ∧ ∀ e ∈ S, e = w ∨ klt (key w) (key e) = true

theorem isMin_unique {w w' : Ev} {S : List Ev} (h : IsMin w S) (h' : IsMin w' S) : w = w' := by
  rcases h.2 w' h'.1 with x | x
  · exact x.symm
  · rcases h'.2 w h.1 with y | y
    · exact y
    · rw [klt_asymm x] at y; cases y

/-- `l` is a delivery list over `S` (any order, any repetition) that contains every element of `S` -/
def Covers (S l : List Ev) : Prop := (∀ e ∈ l, e ∈ S) ∧ (∀ e ∈ S, e ∈ l)

/-- everything the simulation knows after a delivery list `l` — commits of the fork `T` and stale
    events, in any order — ended on `w` -/
structure LevelDone (c : Cl) (T l : List Ev) (w : Ev) (c' : Cl) : Prop where
  base : Base c
  paths : ∀ e ∈ T, e.path = c.g.path
  com : Com c w
  form : CForm c w c'
  wrec : getRec c' w.n = some (rec2 c)
  blk : ∀ e ∈ l, e ∈ T → e ≠ w → e.sender ≠ c.id → ∃ r, getRec c' e.n = some r ∧ BlockedRec c r
  cons : ∀ x ∈ c'.g.consumed, x ∈ c.g.consumed ∨ ∃ e ∈ T, e.cipher = x
  frame : ∀ n, (∀ e ∈ l, n ≠ e.n) → Frame (epochOf c.g.path) n c c'

theorem atFork_paths {c : Cl} {T : List Ev} (h : AtFork c T) : ∀ e ∈ T, e.path = c.g.path := by
  cases h with
  | bystander _ _ _ _ _ _ hS => exact hS.path
  | committer o S _ _ _ _ _ _ ho hS _ hT =>
    intro e he
    rcases List.mem_cons.mp ((hT e).mp he) with rfl | x
    · exact ho.path
    · exact hS.path e x

theorem atFork_kind {c : Cl} {T : List Ev} (h : AtFork c T) : ∀ e ∈ T, ∃ b sw, e.kind = .commit b sw := by
  cases h with
  | bystander _ _ _ _ _ _ hS => intro e he; obtain ⟨b, sw, hk, _⟩ := hS.kind e he; exact ⟨b, sw, hk⟩
  | committer o S _ _ _ _ _ _ ho hS _ hT =>
    intro e he
    rcases List.mem_cons.mp ((hT e).mp he) with rfl | x
    · exact ho.kind
    · obtain ⟨b, sw, hk, _⟩ := hS.kind e x; exact ⟨b, sw, hk⟩

theorem atFork_secrets {c : Cl} {T : List Ev} (h : AtFork c T) : SecretsOK c.g := by
  cases h with
  | bystander _ _ _ hsec _ _ _ => exact hsec
  | committer _ _ _ _ _ hsec _ _ _ _ _ _ => exact hsec

theorem staleAt_congr {c : Cl} {T T' : List Ev} {e : Ev} (h : ∀ x, x ∈ T ↔ x ∈ T') (hs : StaleAt c T e) : StaleAt c T' e :=
  ⟨fun a ha => hs.num a ((h a).mpr ha), hs.parent, fun a ha => hs.child a ((h a).mpr ha)⟩

/-- **one level**: the single-fork theorems for either role, for delivery lists that interleave stale
    events, with the full shape of the final state -/
theorem fork_level_mixed (c : Cl) (T l : List Ev) (nx : Nat) (hat : AtFork c T)
    (hl : ∀ e ∈ l, e ∈ T ∨ StaleAt c T e) (hne : ∃ e ∈ l, e ∈ T) :
    ∃ w ∈ l, w ∈ T ∧ (∀ e ∈ l, e ∈ T → e = w ∨ klt (key w) (key e) = true) ∧ LevelDone c T l w (run nx c l) := by
  have hpaths := atFork_paths hat
  have hsec0 := atFork_secrets hat
  cases hat with
  | bystander hg ha hr hsec hm hn hS =>
    have hb := base_of c hg ha hr hsec hm
    have hSs := sibs_of c T hn hS
    obtain ⟨hrel, hframe⟩ := rel_run_mixed c hb hsec0 T hSs nx l c ⟨none, []⟩ (rel_init c hb T hSs) (by simp [FInv]) hl
    have hkne : sibKeys T l ≠ [] := by
      obtain ⟨e, he, heT⟩ := hne
      intro x
      have : key e ∈ sibKeys T l := mem_sibKeys.mpr ⟨e, he, heT, rfl⟩
      rw [x] at this; cases this
    obtain ⟨ka, hka, hap, hmin, hblk⟩ := single_fork (sibKeys T l) hkne
    obtain ⟨w, hwS, hwk, hcf, hrw⟩ := hrel.chi ka hap
    obtain ⟨e0, he0, he0T, hk0⟩ := mem_sibKeys.mp hka
    have hw : w ∈ l := by
      have : e0 = w := hSs.inj e0 he0T w hwS (Or.inr (hk0.trans hwk.symm))
      rw [← this]; exact he0
    refine ⟨w, hw, hwS, ?_, hb, hpaths, (hSs.sib w hwS).com, hcf, hrw, ?_, ?_, hframe⟩
    · intro e he heT
      rcases hmin (key e) (mem_sibKeys.mpr ⟨e, he, heT, rfl⟩) with x | x
      · exact Or.inl (hSs.inj e heT w hwS (Or.inr (x.symm.trans hwk.symm)))
      · exact Or.inr (by rw [hwk]; exact x)
    · intro e he heT hne' _
      have hk : key e ≠ ka := fun x => hne' (hSs.inj e heT w hwS (Or.inr (x.trans hwk.symm)))
      exact hrel.blk e heT (hblk (key e) (mem_sibKeys.mpr ⟨e, he, heT, rfl⟩) hk)
    · intro x hx
      rcases hrel.cons x hx with y | ⟨e', he', hc, _⟩
      · exact Or.inl y
      · exact Or.inr ⟨e', he', hc⟩
  | committer o S hg ha hr hsec hm hn ho hS hd hT =>
    have hb := base_of c hg ha hr hsec hm
    have hSs := sibs2_of c o S hn ho hS hd
    have hl' : ∀ e ∈ l, e ∈ o :: S ∨ StaleAt c (o :: S) e := by
      intro e he
      rcases hl e he with x | x
      · exact Or.inl ((hT e).mp x)
      · exact Or.inr (staleAt_congr hT x)
    obtain ⟨hrel, hframe⟩ := rel2_run_mixed c hb hsec0 o S hSs nx l c ⟨none, []⟩ (rel2_init c hb o S hSs) (by simp [FInv]) hl'
    have hkne : sibKeys (o :: S) l ≠ [] := by
      obtain ⟨e, he, heT⟩ := hne
      intro x
      have : key e ∈ sibKeys (o :: S) l := mem_sibKeys.mpr ⟨e, he, (hT e).mp heT, rfl⟩
      rw [x] at this; cases this
    obtain ⟨ka, hka, hap, hmin, hblk⟩ := single_fork2 (key o) (sibKeys (o :: S) l) hkne
    obtain ⟨w, hwT, hwk, hcf, hrw⟩ := hrel.chi ka hap
    obtain ⟨e0, he0, he0T, hk0⟩ := mem_sibKeys.mp hka
    have hw : w ∈ l := by
      have : e0 = w := hSs.inj e0 he0T w hwT (Or.inr (hk0.trans hwk.symm))
      rw [← this]; exact he0
    refine ⟨w, hw, (hT w).mpr hwT, ?_, hb, hpaths, hSs.com w hwT, hcf, hrw, ?_, ?_, hframe⟩
    · intro e he heT
      have heT' := (hT e).mp heT
      rcases hmin (key e) (mem_sibKeys.mpr ⟨e, he, heT', rfl⟩) with x | x
      · exact Or.inl (hSs.inj e heT' w hwT (Or.inr (x.symm.trans hwk.symm)))
      · exact Or.inr (by rw [hwk]; exact x)
    · intro e he heT hne' hfor
      have heT' := (hT e).mp heT
      have hk : key e ≠ ka := fun x => hne' (hSs.inj e heT' w hwT (Or.inr (x.trans hwk.symm)))
      have hno : e ≠ o := fun x => hfor (x ▸ ho.own)
      have hko : key e ≠ key o := fun x => hno (hSs.inj e heT' o List.mem_cons_self (Or.inr x))
      exact hrel.blk e heT' (hblk (key e) (mem_sibKeys.mpr ⟨e, he, heT', rfl⟩) hk hko)
    · intro x hx
      rcases hrel.cons x hx with y | ⟨e', he', hc, _⟩
      · exact Or.inl y
      · exact Or.inr ⟨e', (hT e').mpr (List.mem_cons_of_mem _ he'), hc⟩

/-- the same for delivery lists over the fork's commits only -/
theorem fork_level (c : Cl) (T l : List Ev) (nx : Nat) (hat : AtFork c T) (hl : ∀ e ∈ l, e ∈ T) (hne : l ≠ []) :
    ∃ w ∈ l, (∀ e ∈ l, e = w ∨ klt (key w) (key e) = true) ∧ LevelDone c T l w (run nx c l) := by
  obtain ⟨x, hx⟩ := List.exists_mem_of_ne_nil l hne
  obtain ⟨w, hw, _, hmin, hd⟩ := fork_level_mixed c T l nx hat (fun e he => Or.inl (hl e he)) ⟨x, hx, hl x hx⟩
  exact ⟨w, hw, fun e he => hmin e he (hl e he), hd⟩

/-- no snapshot of the current or a later epoch (`HInv.below`; stronger than `NoForkSnapshot`, and what
    makes `NoForkSnapshot` hold again one epoch later) -/
def Below (c : Cl) : Prop := ∀ s ∈ c.mgr, s.epoch < epochOf c.g.path

theorem Below.noFork {c : Cl} (h : Below c) : NoForkSnapshot c := fun s hs => Nat.ne_of_lt (h s hs)

namespace LevelDone
variable {c c' : Cl} {T l : List Ev} {w : Ev}

theorem path (h : LevelDone c T l w c') : c'.g.path = c.g.path ++ [w.cipher] := by
  rw [h.form.g]; exact (childG_facts c h.base w h.com).1

theorem g (h : LevelDone c T l w c') : wc c'.g [] = wc (childOfG c.maxPast c.g w) [] := by
  rw [h.form.g]; rfl

theorem epoch (h : LevelDone c T l w c') : epochOf c'.g.path = epochOf c.g.path + 1 := by
  rw [h.path, epochOf_snoc]

/-- path, members and the whole group data after the level: the winner's commit applied to the parent's core -/
theorem core (h : LevelDone c T l w c') : Chain.core c'.g = coreStep (Chain.core c.g) w := by
  have h1 : Chain.core (wc c'.g []) = Chain.core (wc (childOfG c.maxPast c.g w) []) := by rw [h.g]
  rw [core_wc, core_wc, core_childOfG] at h1
  exact h1

theorem active (h : LevelDone c T l w c') : c'.g.active = true := cform_active c h.base w c' h.form

/-- the stored record is in step with the MLS state again (in particular the id in force is the extension's) -/
theorem synced (h : LevelDone c T l w c') : Synced c'.g := by
  rw [h.form.g]
  exact childOfG_synced c.maxPast c.g w

theorem recNid (h : LevelDone c T l w c') : c'.g.recNid = c'.g.nid := h.synced.2.2.2.2.2

/-- the id in force did not move (no commit of the level rotates it) -/
theorem keptId (h : LevelDone c T l w c') : c'.g.recNid = c.g.recNid := by
  rw [h.form.g]; exact childG_recNid c w h.com

theorem secrets (h : LevelDone c T l w c') (hs : SecretsOK c.g) : SecretsOK c'.g := by
  rw [h.form.g]; exact secretsOK_wc _ _ (secretsOK_childOfG _ _ _ hs)

theorem below (h : LevelDone c T l w c') (hb : Below c) : Below c' := by
  obtain ⟨k, hk⟩ := h.form.mgr
  intro s hs
  rw [h.epoch]
  rw [hk] at hs
  rcases List.mem_append.mp hs with x | x
  · exact Nat.lt_succ_of_lt (hb s (List.mem_of_mem_drop x))
  · simp at x; subst x; exact Nat.lt_succ_self _

end LevelDone

theorem rec2_stable (c : Cl) : StableRec (epochOf c.g.path + 1) (rec2 c) := by
  intro ep hep
  have : ¬ epochOf c.g.path + 1 > ep := by omega
  simp [rbRec, rbRec1, rbRec2, rec2, this]

theorem blocked_stable (c : Cl) (r : Rec) (h : BlockedRec c r) : StableRec (epochOf c.g.path + 1) r := by
  intro ep hep
  obtain ⟨_, h2, h3⟩ := h
  have : ¬ epochOf c.g.path + 1 > ep := by omega
  have e1 : rbRec1 ep r = r := by simp [rbRec1, h2, h3, this]
  simp [rbRec, e1, rbRec2, h3]

/-! ## §E  chains of forks -/
/-- one level of a chain: the MIP-03 winner and the set of competing commits -/
abbrev Level := Ev × List Ev

/-- all events of a list of levels -/
def evs (Ls : List Level) : List Ev := Ls.flatMap (·.2)

@[simp] theorem evs_nil : evs [] = [] := rfl
@[simp] theorem evs_cons (L : Level) (Ls : List Level) : evs (L :: Ls) = L.2 ++ evs Ls := rfl

/-- the conditions on the commits of one level that do not mention the client's state, only the CORE `k` of the
    state they were created in (path, members, group data): created in the state with path `k.1`, by others,
    each by an admin of THAT state or as a pure self-update, non-zero timestamps, pairwise distinct event numbers /
    MIP-03 keys / ciphertexts, published under the nostr group id of that state, none of them rotating the id,
    none of them removing the receiver `id` -/
structure LevelEv (id : Nat) (k : Core) (S : List Ev) : Prop where
  path : ∀ e ∈ S, e.path = k.1
  kind : ∀ e ∈ S, ∃ b sw, e.kind = .commit b sw ∧ (k.2.2.admins.contains e.sender || isPureSelfUpdate b sw) = true
  foreign : ∀ e ∈ S, e.sender ≠ id
  ts : ∀ e ∈ S, e.ts ≠ 0
  distinct : ∀ e1 ∈ S, ∀ e2 ∈ S, e1 ≠ e2 → e1.n ≠ e2.n ∧ (e1.ts, e1.idnum) ≠ (e2.ts, e2.idnum) ∧ e1.cipher ≠ e2.cipher
  tag : ∀ e ∈ S, e.tag = k.2.2.nid
  keepsId : ∀ e ∈ S, ∀ d sw, e.kind = .commit (.setData d) sw → d.nid = k.2.2.nid
  keepsMe : ∀ e ∈ S, ∀ b sw, e.kind = .commit b sw → removesMe id b sw = false

/-- a chain of forks starting in the state with core `k`: every level's commits were created in the
    state reached by the MIP-03 winners of the levels before it (`coreStep`: the admins that authorise a level
    and the id its events are tagged with are those the winners before it left); event numbers and
    ciphertexts are distinct across levels (within a level: `LevelEv.distinct`) -/
def ChainEv (id : Nat) : Core → List Level → Prop
  | _, [] => True
  | k, L :: rest => LevelEv id k L.2 ∧ IsMin L.1 L.2 ∧
      (∀ e1 ∈ L.2, ∀ e2 ∈ evs rest, e1.n ≠ e2.n ∧ e1.cipher ≠ e2.cipher) ∧
      ChainEv id (coreStep k L.1) rest

/-- a level-by-level schedule: one delivery list per level, each over its level and containing all of it -/
def LevelWise : List Level → List (List Ev) → Prop
  | [], [] => True
  | L :: Ls, l :: ls => Covers L.2 l ∧ LevelWise Ls ls
  | _, _ => False

/-- `e` was created in a state that is neither a prefix of `p` nor a child of `p` by a commit of `S`
    (an event of a branch that lost at an earlier level, for instance) -/
def StalePath (p : Path) (S : List Ev) (e : Ev) : Prop := ¬ e.path <+: p ∧ ∀ a ∈ S, e.path ≠ p ++ [a.cipher]

/-- a level-by-level schedule that interleaves stale events freely: the list of level k holds every
    commit of the level, and apart from them only events that are stale for that level and whose event
    numbers differ from those of `all` (the chain's events) -/
def LevelWiseS (all : List Ev) : Path → List Level → List (List Ev) → Prop
  | _, [], [] => True
  | p, L :: Ls, l :: ls =>
      (∀ e ∈ l, e ∈ L.2 ∨ (StalePath p L.2 e ∧ ∀ a ∈ all, e.n ≠ a.n)) ∧ (∀ e ∈ L.2, e ∈ l) ∧
      LevelWiseS all (p ++ [L.1.cipher]) Ls ls
  | _, _, _ => False

theorem levelWiseS_of_levelWise (all : List Ev) : ∀ (Ls : List Level) (ls : List (List Ev)) (p : Path),
    LevelWise Ls ls → LevelWiseS all p Ls ls := by
  intro Ls
  induction Ls with
  | nil => intro ls p h; cases ls with
    | nil => trivial
    | cons l ls => cases h
  | cons L rest ih =>
    intro ls p h
    cases ls with
    | nil => cases h
    | cons l ls => exact ⟨fun e he => Or.inl (h.1.1 e he), h.1.2, ih ls _ h.2⟩

/-- every delivered event of such a schedule is a chain event or has a number of its own -/
theorem levelWiseS_delivered (all : List Ev) : ∀ (Ls : List Level) (ls : List (List Ev)) (p : Path),
    LevelWiseS all p Ls ls → ∀ e ∈ ls.flatten, e ∈ evs Ls ∨ ∀ a ∈ all, e.n ≠ a.n := by
  intro Ls
  induction Ls with
  | nil => intro ls p h e he; cases ls with
    | nil => cases he
    | cons l ls => cases h
  | cons L rest ih =>
    intro ls p h e he
    cases ls with
    | nil => cases h
    | cons l ls =>
      obtain ⟨h1, _, h3⟩ := h
      rw [List.flatten_cons] at he
      rcases List.mem_append.mp he with x | x
      · rcases h1 e x with y | y
        · exact Or.inl (by simp [y])
        · exact Or.inr y.2
      · rcases ih ls _ h3 e x with y | y
        · exact Or.inl (by simp [y])
        · exact Or.inr y

theorem siblings_of_levelEv (c : Cl) (S : List Ev) (hn : c.g.recNid = c.g.nid) (h : LevelEv c.id (core c.g) S)
    (hu : ∀ e ∈ S, getRec c e.n = none ∧ e.cipher ∉ c.g.consumed) : Siblings c S where
  path := h.path
  kind := h.kind
  foreign := h.foreign
  ts := h.ts
  distinct := h.distinct
  unseen := fun e he => (hu e he).1
  unconsumed := fun e he => (hu e he).2
  tag := fun e he => (h.tag e he).trans hn.symm
  keepsId := fun e he d sw hk => (h.keepsId e he d sw hk).trans hn.symm
  keepsMe := h.keepsMe

/-- the per-client hypotheses of a chain: group present and active (not evicted), retention, stored secrets
    following the path, no snapshot of the current or a later epoch, the id in force is the extension's -/
structure Ready (c : Cl) : Prop where
  hasGroup : c.hasGroup = true
  act : c.g.active = true
  ret : 1 ≤ c.retention
  sec : SecretsOK c.g
  below : Below c
  nid : c.g.recNid = c.g.nid

/-- what a client has done after a level-by-level schedule over the chain `Ls` that delivered the list `dl` -/
structure ChainDone (c : Cl) (Ls : List Level) (dl : List Ev) (c' : Cl) : Prop where
  path : c'.g.path = c.g.path ++ Ls.map (·.1.cipher)
  g : wc c'.g [] = wc (chainG c.maxPast c.g (Ls.map (·.1))) []
  win : ∀ L ∈ Ls, (getRec c' L.1.n).map (·.state) = some 2
  lose : ∀ L ∈ Ls, ∀ e ∈ L.2, e ≠ L.1 → e.sender ≠ c.id → ∃ r, getRec c' e.n = some r ∧ (r.state = 3 ∨ r.state = 4)
  id : c'.id = c.id
  persistent : c'.persistent = c.persistent
  retention : c'.retention = c.retention
  maxPast : c'.maxPast = c.maxPast
  ready : Ready c'
  keep : ∀ n r, getRec c n = some r → StableRec (epochOf c.g.path) r → (∀ e ∈ dl, n ≠ e.n) → getRec c' n = some r
  unseen : ∀ n, getRec c n = none → (∀ e ∈ dl, n ≠ e.n) → getRec c' n = none
  cons : ∀ x ∈ c'.g.consumed, x ∈ c.g.consumed ∨ ∃ e ∈ evs Ls, e.cipher = x

theorem chainDone_nil (c : Cl) (h : Ready c) : ChainDone c [] [] c where
  path := by simp
  g := rfl
  win := fun L hL => by cases hL
  lose := fun L hL => by cases hL
  id := rfl
  persistent := rfl
  retention := rfl
  maxPast := rfl
  ready := h
  keep := fun _ _ h _ _ => h
  unseen := fun _ h _ => h
  cons := fun x hx => Or.inl hx

/-- one level (any role, stale events interleaved) followed by a chain the client is a bystander of -/
theorem chain_step (nx : Nat) (c : Cl) (w : Ev) (T l : List Ev) (rest : List Level) (lr : List Ev) (c2 : Cl)
    (hat : AtFork c T) (hbelow : Below c) (hmin : IsMin w T)
    (hl : ∀ e ∈ l, e ∈ T ∨ StaleAt c T e) (hcov : ∀ e ∈ T, e ∈ l)
    (hN1 : ∀ e1 ∈ l, ∀ e2 ∈ evs rest, e1.n ≠ e2.n) (hN2 : ∀ e1 ∈ T, ∀ e2 ∈ lr, e1.n ≠ e2.n)
    (hC : ∀ e1 ∈ T, ∀ e2 ∈ evs rest, e1.cipher ≠ e2.cipher)
    (hchain : ChainEv c.id (coreStep (core c.g) w) rest)
    (hu : ∀ e ∈ evs rest, getRec c e.n = none ∧ e.cipher ∉ c.g.consumed)
    (hc2 : c2 = run nx (run nx c l) lr)
    (ih : ∀ c1 : Cl, Ready c1 → c1.g.path = c.g.path ++ [w.cipher] → ChainEv c1.id (core c1.g) rest →
      (∀ e ∈ evs rest, getRec c1 e.n = none ∧ e.cipher ∉ c1.g.consumed) → ChainDone c1 rest lr (run nx c1 lr)) :
    ChainDone c ((w, T) :: rest) (l ++ lr) c2 := by
  obtain ⟨w', hw'l, hw'T, hmin', hd⟩ := fork_level_mixed c T l nx hat hl ⟨w, hcov w hmin.1, hmin.1⟩
  have hw : w = w' := isMin_unique hmin ⟨hw'T, fun e he => hmin' e (hcov e he) he⟩
  subst hw
  have hsec : SecretsOK c.g := atFork_secrets hat
  have hready1 : Ready (run nx c l) :=
    ⟨hd.form.hg, hd.active, by rw [hd.form.ret]; exact hd.base.ret, hd.secrets hsec, hd.below hbelow, hd.recNid⟩
  have hu1 : ∀ e ∈ evs rest, getRec (run nx c l) e.n = none ∧ e.cipher ∉ (run nx c l).g.consumed := by
    intro e he
    constructor
    · exact (hd.frame e.n (fun x hx => (hN1 x hx e he).symm)).recs (· = none) (fun o ho => by rw [ho]; rfl) (hu e he).1
    · intro hx
      rcases hd.cons _ hx with y | ⟨e', he', y⟩
      · exact (hu e he).2 y
      · exact hC e' he' e he y
  have hch1 : ChainEv (run nx c l).id (core (run nx c l).g) rest := by
    rw [hd.form.id, hd.core]; exact hchain
  have hI := ih (run nx c l) hready1 hd.path hch1 hu1
  rw [← hc2] at hI
  have hep1 : epochOf (run nx c l).g.path = epochOf c.g.path + 1 := hd.epoch
  refine ⟨?_, ?_, ?_, ?_, hI.id.trans hd.form.id, hI.persistent.trans (run_persistent nx l c),
    hI.retention.trans hd.form.ret, hI.maxPast.trans hd.form.mp, hI.ready, ?_, ?_, ?_⟩
  · rw [hI.path, hd.path]; simp
  · rw [hI.g, hd.form.mp]
    simp only [List.map_cons, chainG_cons]
    rw [← chainG_wc, ← chainG_wc, hd.g]
  · intro L hL
    rcases List.mem_cons.mp hL with rfl | hL'
    · have := hI.keep w.n (rec2 c) hd.wrec (by rw [hep1]; exact rec2_stable c) (fun e he => hN2 w hmin.1 e he)
      show (getRec c2 w.n).map (·.state) = some 2
      rw [this]; rfl
    · exact hI.win L hL'
  · intro L hL e he hne' hfor
    rcases List.mem_cons.mp hL with rfl | hL'
    · obtain ⟨r, hr, hbr⟩ := hd.blk e (hcov e he) he hne' hfor
      have := hI.keep e.n r hr (by rw [hep1]; exact blocked_stable c r hbr) (fun e' he' => hN2 e he e' he')
      exact ⟨r, this, hbr.1⟩
    · exact hI.lose L hL' e he hne' (by rw [hd.form.id]; exact hfor)
  · intro n r hr hst hn
    have hnl : ∀ e ∈ l, n ≠ e.n := fun e he => hn e (List.mem_append_left _ he)
    have h1 : getRec (run nx c l) n = some r :=
      (hd.frame n hnl).recs (· = some r) (fun o ho => by rw [ho]; simp [hst _ (Nat.le_refl _)]) hr
    exact hI.keep n r h1 (hst.mono (by omega)) (fun e he => hn e (List.mem_append_right _ he))
  · intro n hr hn
    have hnl : ∀ e ∈ l, n ≠ e.n := fun e he => hn e (List.mem_append_left _ he)
    have h1 : getRec (run nx c l) n = none :=
      (hd.frame n hnl).recs (· = none) (fun o ho => by rw [ho]; rfl) hr
    exact hI.unseen n h1 (fun e he => hn e (List.mem_append_right _ he))
  · intro x hx
    rcases hI.cons x hx with y | ⟨e, he, y⟩
    · rcases hd.cons x y with z | ⟨e, he, z⟩
      · exact Or.inl z
      · exact Or.inr ⟨e, by simp [he], z⟩
    · exact Or.inr ⟨e, by simp [he], y⟩

/-- the number conditions of `chain_step` from a `LevelWiseS` schedule -/
theorem step_numbers (all : List Ev) (T l : List Ev) (p : Path) (rest : List Level) (ls : List (List Ev)) (p' : Path)
    (hT : ∀ e ∈ T, e ∈ all) (hrest : ∀ e ∈ evs rest, e ∈ all)
    (hl : ∀ e ∈ l, e ∈ T ∨ (StalePath p T e ∧ ∀ a ∈ all, e.n ≠ a.n))
    (hcross : ∀ e1 ∈ T, ∀ e2 ∈ evs rest, e1.n ≠ e2.n ∧ e1.cipher ≠ e2.cipher)
    (hw : LevelWiseS all p' rest ls) :
    (∀ e1 ∈ l, ∀ e2 ∈ evs rest, e1.n ≠ e2.n) ∧ (∀ e1 ∈ T, ∀ e2 ∈ ls.flatten, e1.n ≠ e2.n) := by
  constructor
  · intro e1 h1 e2 h2
    rcases hl e1 h1 with x | x
    · exact (hcross e1 x e2 h2).1
    · exact x.2 e2 (hrest e2 h2)
  · intro e1 h1 e2 h2
    rcases levelWiseS_delivered all rest ls p' hw e2 h2 with x | x
    · exact (hcross e1 h1 e2 x).1
    · exact (x e1 (hT e1 h1)).symm

theorem staleAt_of_path {c : Cl} {T : List Ev} {e : Ev} {all : List Ev} (hT : ∀ a ∈ T, a ∈ all)
    (h : StalePath c.g.path T e ∧ ∀ a ∈ all, e.n ≠ a.n) : StaleAt c T e :=
  ⟨fun a ha => h.2 a (hT a ha), h.1.1, h.1.2⟩

/-- **chain of forks, bystander, stale events interleaved**: induction over the levels -/
theorem chain_rest_mixed (nx : Nat) (all : List Ev) (Ls : List Level) : ∀ (c : Cl) (ls : List (List Ev)), Ready c →
    ChainEv c.id (core c.g) Ls → (∀ e ∈ evs Ls, e ∈ all) →
    (∀ e ∈ evs Ls, getRec c e.n = none ∧ e.cipher ∉ c.g.consumed) →
    LevelWiseS all c.g.path Ls ls → ChainDone c Ls ls.flatten (run nx c ls.flatten) := by
  induction Ls with
  | nil =>
    intro c ls hr _ _ _ hw
    cases ls with
    | nil => exact chainDone_nil c hr
    | cons l ls => cases hw
  | cons L rest ih =>
    intro c ls hr hch hall hu hw
    cases ls with
    | nil => cases hw
    | cons l ls =>
      obtain ⟨w, T⟩ := L
      obtain ⟨hlev, hmin, hcross, hch'⟩ := hch
      obtain ⟨hl, hcov, hw'⟩ := hw
      have hTall : ∀ e ∈ T, e ∈ all := fun e he => hall e (by simp [he])
      have hrall : ∀ e ∈ evs rest, e ∈ all := fun e he => hall e (by simp [he])
      have hS : Siblings c T := siblings_of_levelEv c T hr.nid hlev (fun e he => hu e (by simp [he]))
      obtain ⟨hN1, hN2⟩ := step_numbers all T l c.g.path rest ls _ hTall hrall hl hcross hw'
      rw [List.flatten_cons]
      refine chain_step nx c w T l rest ls.flatten _ (.bystander hr.hasGroup hr.act hr.ret hr.sec hr.below.noFork hr.nid hS) hr.below
        hmin (fun e he => (hl e he).imp id (staleAt_of_path hTall)) hcov hN1 hN2 (fun e1 h1 e2 h2 => (hcross e1 h1 e2 h2).2)
        hch' (fun e he => hu e (by simp [he])) (by simp [run_append]) ?_
      intro c1 hr1 hp1 hch1 hu1
      exact ih c1 ls hr1 hch1 hrall hu1 (hp1 ▸ hw')

/-- **chain of forks, bystander** (delivery lists over the levels' commits only) -/
theorem chain_rest (nx : Nat) (Ls : List Level) (c : Cl) (ls : List (List Ev)) (hr : Ready c)
    (hch : ChainEv c.id (core c.g) Ls) (hu : ∀ e ∈ evs Ls, getRec c e.n = none ∧ e.cipher ∉ c.g.consumed)
    (hw : LevelWise Ls ls) : ChainDone c Ls ls.flatten (run nx c ls.flatten) :=
  chain_rest_mixed nx (evs Ls) Ls c ls hr hch (fun _ h => h) hu (levelWiseS_of_levelWise _ Ls ls _ hw)

/-- **chain of forks, first level in any role** (bystander or committer), later levels as a bystander,
    stale events interleaved -/
theorem chain_run_mixed (nx : Nat) (all : List Ev) (c : Cl) (w : Ev) (T l : List Ev) (rest : List Level) (ls : List (List Ev))
    (hat : AtFork c T) (hbelow : Below c) (hmin : IsMin w T)
    (hl : ∀ e ∈ l, e ∈ T ∨ (StalePath c.g.path T e ∧ ∀ a ∈ all, e.n ≠ a.n)) (hcov : ∀ e ∈ T, e ∈ l)
    (hall : ∀ e ∈ T ++ evs rest, e ∈ all)
    (hcross : ∀ e1 ∈ T, ∀ e2 ∈ evs rest, e1.n ≠ e2.n ∧ e1.cipher ≠ e2.cipher)
    (hchain : ChainEv c.id (coreStep (core c.g) w) rest)
    (hu : ∀ e ∈ evs rest, getRec c e.n = none ∧ e.cipher ∉ c.g.consumed)
    (hw : LevelWiseS all (c.g.path ++ [w.cipher]) rest ls) :
    ChainDone c ((w, T) :: rest) (l ++ ls.flatten) (run nx c (l ++ ls.flatten)) := by
  have hTall : ∀ e ∈ T, e ∈ all := fun e he => hall e (List.mem_append_left _ he)
  have hrall : ∀ e ∈ evs rest, e ∈ all := fun e he => hall e (List.mem_append_right _ he)
  obtain ⟨hN1, hN2⟩ := step_numbers all T l c.g.path rest ls _ hTall hrall hl hcross hw
  exact chain_step nx c w T l rest ls.flatten _ hat hbelow hmin (fun e he => (hl e he).imp id (staleAt_of_path hTall)) hcov
    hN1 hN2 (fun e1 h1 e2 h2 => (hcross e1 h1 e2 h2).2) hchain hu (run_append nx c l _)
    (fun c1 hr1 hp1 hch1 hu1 => chain_rest_mixed nx all rest c1 ls hr1 hch1 hrall hu1 (hp1 ▸ hw))

theorem chain_run (nx : Nat) (c : Cl) (w : Ev) (T l : List Ev) (rest : List Level) (ls : List (List Ev))
    (hat : AtFork c T) (hbelow : Below c) (hmin : IsMin w T) (hcov : Covers T l)
    (hcross : ∀ e1 ∈ T, ∀ e2 ∈ evs rest, e1.n ≠ e2.n ∧ e1.cipher ≠ e2.cipher)
    (hchain : ChainEv c.id (coreStep (core c.g) w) rest)
    (hu : ∀ e ∈ evs rest, getRec c e.n = none ∧ e.cipher ∉ c.g.consumed)
    (hw : LevelWise rest ls) :
    ChainDone c ((w, T) :: rest) (l ++ ls.flatten) (run nx c (l ++ ls.flatten)) :=
  chain_run_mixed nx (T ++ evs rest) c w T l rest ls hat hbelow hmin (fun e he => Or.inl (hcov.1 e he)) hcov.2
    (fun _ h => h) hcross hchain hu (levelWiseS_of_levelWise _ rest ls _ hw)

/-! ## §F  a rollback over two epochs (unfolds `wrongEpochCommit`, `isBetter`, `rollbackTo`, `mgrCreate`)

  The client follows a loser `a` of a fork and a child `a'` of `a`, then receives the better sibling `b`:
  the snapshot taken when `a` was applied is still retained (retention ≥ 2), `is_better_candidate` compares
  `b` with `a`, `rollback_to_epoch` restores the parent state and drops BOTH snapshots, both records are
  invalidated, and `b` is applied. -/

theorem find_mid (X Y : List Snap) (s : Snap) (ep : Nat) (hX : ∀ x ∈ X, x.epoch ≠ ep) (hs : s.epoch = ep) :
    (X ++ s :: Y).find? (·.epoch == ep) = some s := by
  rw [List.find?_append]
  have : X.find? (·.epoch == ep) = none := by
    apply List.find?_eq_none.mpr; intro x hx; simpa using hX x hx
  simp [this, hs]

theorem findIdx_mid (X Y : List Snap) (s : Snap) (ep : Nat) (hX : ∀ x ∈ X, x.epoch ≠ ep) (hs : s.epoch = ep) :
    findIdx (X ++ s :: Y) ep = some X.length := by
  induction X with
  | nil => simp [findIdx, hs]
  | cons x t ih =>
    have hx : (x.epoch == ep) = false := by simpa using hX x List.mem_cons_self
    simp only [List.cons_append, findIdx, hx, Bool.false_eq_true, if_false,
      ih (fun y hy => hX y (List.mem_cons_of_mem _ hy)), Option.map_some, List.length_cons]

theorem isBetter_mid (c : Cl) (X Y : List Snap) (s : Snap) (ep : Nat) (e : Ev) (hm : c.mgr = X ++ s :: Y)
    (hX : ∀ x ∈ X, x.epoch ≠ ep) (hs : s.epoch = ep) (hts : s.ts ≠ 0) :
    isBetter c ep e = klt (key e) (s.ts, s.commit) := by
  unfold isBetter
  rw [hm, find_mid X Y s ep hX hs]
  simp only [klt, key]
  have : (s.ts == 0) = false := by simpa using hts
  simp only [this, Bool.false_eq_true, if_false]
  by_cases h1 : e.ts < s.ts
  · simp [h1]
  · by_cases h2 : e.ts > s.ts
    · have : ¬ e.ts = s.ts := by omega
      simp [h1, h2, this]
    · have : e.ts = s.ts := by omega
      simp only [this, decide_false, Bool.false_or, beq_self_eq_true, Bool.true_and, if_false, Nat.lt_irrefl]
      apply decide_eq_decide.mpr; exact Iff.rfl

theorem rollback_mid (c : Cl) (X Y : List Snap) (s : Snap) (ep : Nat) (hm : c.mgr = X ++ s :: Y)
    (hX : ∀ x ∈ X, x.epoch ≠ ep) (hs : s.epoch = ep) :
    ∃ c1, rollbackTo c ep = some c1 ∧ c1.g = s.saved ∧ c1.mgr = X ∧ c1.id = c.id ∧ c1.retention = c.retention ∧
      c1.maxPast = c.maxPast ∧ c1.hasGroup = c.hasGroup ∧ ∀ n, getRec c1 n = (getRec c n).map (rbRec ep) := by
  unfold rollbackTo
  rw [hm, findIdx_mid X Y s ep hX hs]
  simp only [List.drop_left, List.take_left]
  refine ⟨_, rfl, rfl, rfl, rfl, rfl, rfl, rfl, ?_⟩
  intro n
  simp only [getRec]
  rw [alookup_map_key _ rbRec2 (by intro p; obtain ⟨k', r⟩ := p; exact ite_pair _ _ _ _),
    alookup_map_key _ (rbRec1 ep) (by intro p; obtain ⟨k', r⟩ := p; exact ite_pair _ _ _ _)]
  cases alookup n c.recs <;> rfl

/-- the snapshot queue after a sibling is applied at the parent shape, exactly -/
theorem apply_parent_mgr (c0 : Cl) (hb : Base c0) (retry : Cl → Option (Cl × Res)) (nx : Nat) (c : Cl) (e : Ev)
    (hf : PForm c0 c) (hs : Sib c0 e) (hr : getRec c e.n = none) (hc : e.cipher ∉ c.g.consumed) :
    (deliverOnce retry nx c e).1.mgr =
      (c.mgr ++ [snapOf c0 e (e.cipher :: c.g.consumed)]).drop ((c.mgr ++ [snapOf c0 e (e.cipher :: c.g.consumed)]).length - c.retention) := by
  obtain ⟨b, sw, hk, hadm⟩ := hs.kind
  have hwg : (withSecret c).g = wc (gP c0) c.g.consumed := hf.g
  have hpath : c.g.path = c0.g.path := by
    have := congrArg GState.path hf.g
    rw [ensureSecret_path] at this; rw [this]; exact gP_path c0
  have hcg : (consume (withSecret c) e.cipher).g = wc (gP c0) (e.cipher :: c.g.consumed) := by
    show ({ (withSecret c).g with consumed := e.cipher :: (withSecret c).g.consumed } : GState) = _
    rw [hwg]; rfl
  rw [deliverOnce_norec _ _ _ _ hr,
    step1_commit_same retry nx c e b sw (pform_routes c0 c e hf hs.tag) (pform_active c0 c hb hf)
      (by rw [hwg, outerOpens_wc]; exact outerOpens_parent c0 hb e hs.path) hk
      (by rw [hs.path, hpath]) (by rw [hf.id]; exact hs.foreign) hc,
    processCommit_ok _ _ _ _ (by
      rw [hcg]
      have : isAdmin (wc (gP c0) (e.cipher :: c.g.consumed)) e.sender = isAdmin c0.g e.sender := by simp [isAdmin, gP, wc]
      rw [this]; exact hadm) (by
      show removesMe c.id b sw = false
      rw [hf.id]; exact hs.me b sw hk)]
  show (mgrCreate (consume (withSecret c) e.cipher) _ e).mgr = _
  simp only [mgrCreate, hcg]
  have hp' : (wc (gP c0) (e.cipher :: c.g.consumed)).path = c0.g.path := gP_path c0
  rw [hp']
  rfl

theorem alookup_secretsAfter_ne (p : Path) (S : List (Nat × Path)) (k : Nat) (h : k ≠ epochOf p) :
    alookup k (secretsAfter p S) = alookup k S := by
  unfold secretsAfter
  split
  · rfl
  · exact alookup_ainsert_ne _ _ _ _ h

/-- two epochs down, the outer layer still opens an event of the grandparent state -/
theorem outerOpens_grandchild (c0 c1 : Cl) (hb : Base c0) (a a' e : Ev) (ha : Com c0 a)
    (hc1 : c1.g = wc (childG c0 a) c1.g.consumed) (hk' : ∃ b sw, a'.kind = .commit b sw) (hp : e.path = c0.g.path) :
    outerOpens (childG c1 a') e = true := by
  obtain ⟨b', sw', hk'⟩ := hk'
  obtain ⟨h1, _, h3, _⟩ := childG_facts c0 hb a ha
  have hp1 : c1.g.path = c0.g.path ++ [a.cipher] := by rw [hc1]; exact h1
  have hs1 : alookup (epochOf c0.g.path) c1.g.secrets = some c0.g.path := by rw [hc1]; exact h3
  have hsec : alookup (epochOf c0.g.path) (childG c1 a').secrets = some c0.g.path := by
    rw [childG_eq, childOfG_commit _ _ _ _ _ hk']
    simp only
    rw [alookup_secretsAfter_ne _ _ _ (by rw [hp1]; simp [epochOf] <;> omega),
      alookup_secretsAfter_ne _ _ _ (by rw [hp1]; simp [epochOf] <;> omega)]
    exact hs1
  have hpath : (childG c1 a').path = c0.g.path ++ [a.cipher] ++ [a'.cipher] := by
    rw [childG_eq, childOfG_commit _ _ _ _ _ hk', hp1]
  simp only [outerOpens, hpath, Bool.or_eq_true, List.any_eq_true]
  right
  refine ⟨1, by simp, ?_⟩
  have e2 : epochOf (c0.g.path ++ [a.cipher, a'.cipher]) - 2 = epochOf c0.g.path := by simp [epochOf]; omega
  have e3 : 2 ≤ epochOf (c0.g.path ++ [a.cipher, a'.cipher]) := by simp [epochOf]; omega
  simp only [hp]
  simp
  refine ⟨e3, ?_⟩
  rw [e2, hsec]
  simp

theorem drop_two (Q : List Snap) (s1 s2 : Snap) (r : Nat) (hr : 2 ≤ r) :
    ∃ k, ((Q ++ [s1]).drop ((Q ++ [s1]).length - r) ++ [s2]).drop (((Q ++ [s1]).drop ((Q ++ [s1]).length - r) ++ [s2]).length - r)
      = Q.drop k ++ s1 :: [s2] := by
  have h1 : (Q ++ [s1]).length - r ≤ Q.length := by simp only [List.length_append, List.length_singleton]; omega
  rw [drop_snoc _ _ _ h1]
  generalize (Q ++ [s1]).length - r = d1
  have h2 : (Q.drop d1 ++ ([s1] ++ [s2])).length - r ≤ (Q.drop d1).length := by
    simp only [List.length_append, List.length_singleton]; omega
  refine ⟨d1 + ((Q.drop d1 ++ ([s1] ++ [s2])).length - r), ?_⟩
  rw [List.append_assoc, List.drop_append_of_le_length h2, List.drop_drop]
  rfl

theorem cform_path {c c' : Cl} {w : Ev} (hb : Base c) (hw : Com c w) (hf : CForm c w c') :
    c'.g.path = c.g.path ++ [w.cipher] := by rw [hf.g]; exact (childG_facts c hb w hw).1

theorem cform_core {c c' : Cl} {w : Ev} (hf : CForm c w c') : core c'.g = coreStep (core c.g) w := by
  have h1 : core c'.g = core (wc (childG c w) c'.g.consumed) := by rw [← hf.g]
  rw [core_wc, childG_eq, core_childOfG] at h1
  exact h1

theorem cform_below {c c' : Cl} {w : Ev} (hb : Base c) (hw : Com c w) (hf : CForm c w c') (hbel : Below c) : Below c' := by
  obtain ⟨k, hk⟩ := hf.mgr
  intro s hs
  rw [cform_path hb hw hf, epochOf_snoc]
  rw [hk] at hs
  rcases List.mem_append.mp hs with x | x
  · exact Nat.lt_succ_of_lt (hbel s (List.mem_of_mem_drop x))
  · simp at x; subst x; exact Nat.lt_succ_self _

/-- the child `a'` of the sibling `a`: conditions on the event (created in `a`'s state, authorised by the admins
    `a` leaves, foreign, tagged with the id in force, neither rotating the id nor removing the receiver), and on
    the client's state at the fork (unseen, unconsumed) -/
structure ChildOf (c : Cl) (a a' : Ev) : Prop where
  path : a'.path = c.g.path ++ [a.cipher]
  kind : ∃ b sw, a'.kind = .commit b sw ∧
    ((coreStep (core c.g) a).2.2.admins.contains a'.sender || isPureSelfUpdate b sw) = true
  foreign : a'.sender ≠ c.id
  ts : a'.ts ≠ 0
  unseen : getRec c a'.n = none
  unconsumed : a'.cipher ∉ c.g.consumed
  tag : a'.tag = c.g.recNid
  keepsId : ∀ d sw, a'.kind = .commit (.setData d) sw → d.nid = c.g.recNid
  keepsMe : ∀ b sw, a'.kind = .commit b sw → removesMe c.id b sw = false

/-- **rollback over two epochs** -/
theorem depth2_core (c : Cl) (a b a' : Ev) (nx : Nat)
    (hg : c.hasGroup = true) (hact : c.g.active = true) (hr : 2 ≤ c.retention) (hsec : SecretsOK c.g) (hbelow : Below c)
    (hnid : c.g.recNid = c.g.nid)
    (hS : Siblings c [a, b]) (hab : a ≠ b) (hlt : klt (key b) (key a) = true)
    (hc : ChildOf c a a') (hn : a'.n ≠ a.n ∧ a'.n ≠ b.n) (hci : a'.cipher ≠ a.cipher) :
    CForm c b (run nx c [a, a', b]) ∧ getRec (run nx c [a, a', b]) b.n = some (rec2 c) ∧
    (getRec (run nx c [a, a', b]) a.n).map (·.state) = some 4 ∧
    (getRec (run nx c [a, a', b]) a'.n).map (·.state) = some 4 := by
  have hb : Base c := base_of c hg hact (by omega) hsec hbelow.noFork
  have hSs := sibs_of c [a, b] hnid hS
  have haS : a ∈ [a, b] := by simp
  have hbS : b ∈ [a, b] := by simp
  have sa := hSs.sib a haS
  have sb := hSs.sib b hbS
  obtain ⟨hnab, _, hcab⟩ := hS.distinct a haS b hbS hab
  -- step 1: `a` at the parent state
  obtain ⟨retry1, hd1⟩ := deliverN_once 3 nx c a
  obtain ⟨hcf1, hrecs1, hcons1⟩ := apply_parent c hb retry1 nx c a (pform_init c hb) sa (hS.unseen a haS) (hS.unconsumed a haS)
  have hm1 := apply_parent_mgr c hb retry1 nx c a (pform_init c hb) sa (hS.unseen a haS) (hS.unconsumed a haS)
  generalize hc1 : (deliverOnce retry1 nx c a).1 = c1 at hcf1 hrecs1 hcons1 hm1
  have hp1 : c1.g.path = c.g.path ++ [a.cipher] := cform_path hb sa.com hcf1
  have hsec1 : SecretsOK c1.g := by rw [hcf1.g]; exact secretsOK_wc _ _ (secretsOK_childOfG _ _ _ hsec)
  have hbel1 : Below c1 := cform_below hb sa.com hcf1 hbelow
  have hact1 : c1.g.active = true := cform_active c hb a c1 hcf1
  have hb1 : Base c1 := base_of c1 hcf1.hg hact1 (by rw [hcf1.ret]; omega) hsec1 hbel1.noFork
  have hkept1 : c1.g.recNid = c.g.recNid := by rw [hcf1.g]; exact childG_recNid c a sa.com
  have hnid1 : c1.g.recNid = c1.g.nid := by
    have : Synced c1.g := by rw [hcf1.g]; exact childOfG_synced c.maxPast c.g a
    exact this.2.2.2.2.2
  -- step 2: the child `a'` at `a`'s state
  obtain ⟨bk, swk, hkk, hadm⟩ := hc.kind
  have hadm1 : c1.g.admins = (coreStep (core c.g) a).2.2.admins := by
    have := congrArg (fun k : Core => k.2.2.admins) (cform_core hcf1)
    exact this
  have sa' : Sib c1 a' :=
    ⟨by rw [hp1]; exact hc.path, ⟨bk, swk, hkk, by rw [isAdmin, hadm1]; exact hadm⟩,
     by rw [hcf1.id]; simpa using hc.foreign, hc.ts,
     by rw [hcons1]; intro x; rcases List.mem_cons.mp x with y | y
        · exact hci y
        · exact hc.unconsumed y,
     by rw [hkept1]; exact hc.tag,
     fun b' sw' hk' => keeps_nid c1 hnid1 b' (fun d hd => by rw [hkept1]; exact hc.keepsId d sw' (by rw [hk', hd])),
     fun b' sw' hk' => by rw [hcf1.id]; exact hc.keepsMe b' sw' hk'⟩
  have hr1 : getRec c1 a'.n = none := by
    simp only [getRec, hrecs1]; rw [alookup_ainsert_ne _ _ _ _ hn.1]; exact hc.unseen
  obtain ⟨retry2, hd2⟩ := deliverN_once 3 nx c1 a'
  obtain ⟨hcf2, hrecs2, hcons2⟩ := apply_parent c1 hb1 retry2 nx c1 a' (pform_init c1 hb1) sa' hr1 sa'.cipher
  have hm2 := apply_parent_mgr c1 hb1 retry2 nx c1 a' (pform_init c1 hb1) sa' hr1 sa'.cipher
  generalize hc2 : (deliverOnce retry2 nx c1 a').1 = c2 at hcf2 hrecs2 hcons2 hm2
  -- the snapshot queue of c2: … ++ [snapshot of the parent (applied: a), snapshot of a's state (applied: a')]
  rw [hcf1.ret, hm1] at hm2
  obtain ⟨k, hk⟩ := drop_two c.mgr (snapOf c a (a.cipher :: c.g.consumed)) (snapOf c1 a' (a'.cipher :: c1.g.consumed)) c.retention hr
  rw [hk] at hm2
  have hX : ∀ x ∈ c.mgr.drop k, x.epoch ≠ epochOf c.g.path := drop_no_epoch c hb k
  -- step 3: the better sibling `b`
  have hr2 : getRec c2 b.n = none := by
    simp only [getRec, hrecs2, hrecs1]
    rw [alookup_ainsert_ne _ _ _ _ (Ne.symm hn.2), alookup_ainsert_ne _ _ _ _ (Ne.symm hnab)]
    exact hS.unseen b hbS
  have hst2 := (childG_stable c1 hb1 a' sa'.com).1
  have hw2 : withSecret c2 = c2 := withSecret_eq c2 (by rw [hcf2.g, ensureSecret_wc, hst2])
  have hp2 : c2.g.path = c.g.path ++ [a.cipher] ++ [a'.cipher] := by rw [cform_path hb1 sa'.com hcf2, hp1]
  obtain ⟨bb, swb, hkb⟩ := sb.com.kind
  have hbetter : isBetter c2 (epochOf c.g.path) b = true := by
    rw [isBetter_mid c2 _ _ _ _ b hm2 hX rfl sa.ts]; exact hlt
  obtain ⟨c3, hrb, hg3, hmgr3, hid3, hret3, hmp3, hhg3, hrec3⟩ := rollback_mid c2 _ _ _ _ hm2 hX rfl
  have hpf3 : PForm c c3 := by
    refine ⟨by rw [hid3, hcf2.id, hcf1.id], by rw [hret3, hcf2.ret, hcf1.ret], by rw [hmp3, hcf2.mp, hcf1.mp],
      by rw [hhg3]; exact hcf2.hg, ?_, ⟨_, hmgr3⟩⟩
    rw [hg3]
    simp only [snapOf, wc_consumed]
    rw [ensureSecret_wc]
    show wc (ensureSecret (ensureSecret c.g)) _ = _
    rw [ensureSecret_idem]; rfl
  have hcons3 : c3.g.consumed = a.cipher :: c.g.consumed := by rw [hg3]; rfl
  have hr3 : getRec c3 b.n = none := by rw [hrec3, hr2]; rfl
  obtain ⟨retry3, hd3⟩ := deliverN_once 2 nx c3 b
  obtain ⟨hcf4, hrecs4, _⟩ := apply_parent c hb retry3 nx c3 b hpf3 sb hr3
    (by rw [hcons3]; intro x; rcases List.mem_cons.mp x with y | y
        · exact hcab y.symm
        · exact hS.unconsumed b hbS y)
  have hfinal : run nx c [a, a', b] = (deliverOnce retry3 nx c3 b).1 := by
    show (deliver (deliver (deliver c a nx).1 a' nx).1 b nx).1 = _
    have e1 : (deliver c a nx).1 = c1 := by rw [deliver, hd1, hc1]
    have e2 : (deliver c1 a' nx).1 = c2 := by rw [deliver, hd2, hc2]
    rw [e1, e2]
    show (deliverOnce (fun x => some (deliverN 2 nx x b)) nx c2 b).1 = _
    rw [deliverOnce_norec _ _ _ _ hr2,
      step1_commit_wrong _ nx c2 b bb swb (cform_routes c1 a' c2 b hcf2 sa'.com (by rw [hkept1]; exact sb.tag))
        (cform_active c1 hb1 a' c2 hcf2)
        (by rw [hw2, hcf2.g, outerOpens_wc]
            exact outerOpens_grandchild c c1 hb a a' b sa.com hcf1.g sa'.com.kind sb.path) hkb
        (by rw [sb.path, hp2]; simp [epochOf]),
      hw2, sb.path]
    simp only [wrongEpochCommit, hbetter, if_true, hrb, hd3]
  rw [hfinal]
  refine ⟨hcf4, by simp only [getRec, hrecs4]; exact alookup_ainsert_self _ _ _, ?_, ?_⟩
  · have e : getRec (deliverOnce retry3 nx c3 b).1 a.n = (getRec c2 a.n).map (rbRec (epochOf c.g.path)) := by
      simp only [getRec, hrecs4]; rw [alookup_ainsert_ne _ _ _ _ hnab]; exact hrec3 a.n
    have e2 : getRec c2 a.n = some (rec2 c) := by
      simp only [getRec, hrecs2, hrecs1]
      rw [alookup_ainsert_ne _ _ _ _ (Ne.symm hn.1), alookup_ainsert_self]
    rw [e, e2]
    simp [rbRec, rbRec1, rbRec2, rec2]
  · have e : getRec (deliverOnce retry3 nx c3 b).1 a'.n = (getRec c2 a'.n).map (rbRec (epochOf c.g.path)) := by
      simp only [getRec, hrecs4]; rw [alookup_ainsert_ne _ _ _ _ hn.2]; exact hrec3 a'.n
    have e2 : getRec c2 a'.n = some (rec2 c1) := by
      simp only [getRec, hrecs2]; exact alookup_ainsert_self _ _ _
    rw [e, e2]
    have : epochOf c.g.path < epochOf c1.g.path + 1 := by rw [hp1, epochOf_snoc]; omega
    simp [rbRec, rbRec1, rbRec2, rec2, this]

/-! ## §G  the consumed ratchet generations (unfolds the step functions of Model.Client)

  `consumed` after a delivery ⊆ old `consumed` ∪ {e.cipher} — NOT for every state: a rollback restores the
  list saved in a snapshot, which for an arbitrary state is arbitrary (`Props.C01Chain.consumed_frame_needs_inv`).
  It holds for every state whose snapshots hold sub-lists of the current list, oldest first (`ConsMono`),
  which every operation preserves (so every reachable state satisfies it). -/

structure ConsMono (c : Cl) : Prop where
  below : ∀ s ∈ c.mgr, ∀ x ∈ s.saved.consumed, x ∈ c.g.consumed
  sorted : c.mgr.Pairwise (fun a b => ∀ x ∈ a.saved.consumed, x ∈ b.saved.consumed)

/-- the invariant is kept and the consumed list grew by at most `x` -/
structure CStep (x : Nat) (c c' : Cl) : Prop where
  inv : ConsMono c'
  sub : ∀ y ∈ c'.g.consumed, y ∈ c.g.consumed ∨ y = x

theorem cstep_refl (x : Nat) (c : Cl) (h : ConsMono c) : CStep x c c := ⟨h, fun _ hy => Or.inl hy⟩

theorem CStep.trans {x : Nat} {a b c : Cl} (h1 : CStep x a b) (h2 : CStep x b c) : CStep x a c :=
  ⟨h2.inv, fun y hy => by
    rcases h2.sub y hy with z | z
    · exact h1.sub y z
    · exact Or.inr z⟩

/-- same snapshots, consumed list grown by at most `x` -/
theorem cstep_grow (x : Nat) (c c' : Cl) (h : ConsMono c) (hm : c'.mgr = c.mgr)
    (h1 : ∀ y ∈ c.g.consumed, y ∈ c'.g.consumed) (h2 : ∀ y ∈ c'.g.consumed, y ∈ c.g.consumed ∨ y = x) : CStep x c c' :=
  ⟨⟨fun s hs y hy => h1 y (h.below s (hm ▸ hs) y hy), hm ▸ h.sorted⟩, h2⟩

theorem cstep_same (x : Nat) (c c' : Cl) (h : ConsMono c) (hm : c'.mgr = c.mgr) (hg : c'.g.consumed = c.g.consumed) :
    CStep x c c' :=
  cstep_grow x c c' h hm (fun _ hy => hg ▸ hy) (fun _ hy => Or.inl (hg ▸ hy))

/-- snapshot the current state, then continue with the same consumed list -/
theorem cstep_mgrCreate_then (x : Nat) (c : Cl) (ep : Nat) (e : Ev) (c' : Cl) (h : ConsMono c)
    (hm : c'.mgr = (mgrCreate c ep e).mgr) (hg : c'.g.consumed = c.g.consumed) : CStep x c c' := by
  have hq : ∀ s ∈ c.mgr ++ [({ epoch := ep, commit := e.idnum, ts := e.ts, saved := c.g } : Snap)],
      ∀ y ∈ s.saved.consumed, y ∈ c.g.consumed := by
    intro s hs y hy
    rcases List.mem_append.mp hs with z | z
    · exact h.below s z y hy
    · simp at z; subst z; exact hy
  have hsorted : (c.mgr ++ [({ epoch := ep, commit := e.idnum, ts := e.ts, saved := c.g } : Snap)]).Pairwise
      (fun a b => ∀ x ∈ a.saved.consumed, x ∈ b.saved.consumed) := by
    apply List.pairwise_append.mpr
    refine ⟨h.sorted, List.pairwise_singleton _ _, ?_⟩
    intro a ha b hb
    simp at hb; subst hb
    exact h.below a ha
  refine ⟨⟨?_, ?_⟩, fun y hy => Or.inl (hg ▸ hy)⟩
  · intro s hs y hy
    rw [hm] at hs
    rw [hg]
    exact hq s (List.mem_of_mem_drop hs) y hy
  · rw [hm]
    exact hsorted.sublist (List.drop_sublist _ _)

theorem cstep_rollbackTo (x : Nat) (c c1 : Cl) (ep : Nat) (h : ConsMono c) (hr : rollbackTo c ep = some c1) : CStep x c c1 := by
  unfold rollbackTo at hr
  split at hr
  · cases hr
  · rename_i i hi
    split at hr
    · cases hr
    · rename_i s rest hd
      cases hr
      have hs : s ∈ c.mgr := List.mem_of_mem_drop (by rw [hd]; simp)
      have hsplit : c.mgr = c.mgr.take i ++ s :: rest := by rw [← hd, List.take_append_drop]
      have hsorted := h.sorted
      rw [hsplit] at hsorted
      obtain ⟨h1, _, h3⟩ := List.pairwise_append.mp hsorted
      exact ⟨⟨fun t ht => h3 t ht s List.mem_cons_self, h1⟩, fun y hy => Or.inl (h.below s hs y hy)⟩

theorem mergeCommit_consumed (mp : Nat) (g : GState) (e : Ev) : (mergeCommit mp g e).consumed = g.consumed := by
  unfold mergeCommit
  split
  · rename_i b sw _
    cases b <;> rfl
  · rfl

theorem updLast_consumed (g : GState) (m t : Nat) : (updLast g m t).consumed = g.consumed := by
  unfold updLast
  split
  · rfl
  · split <;> rfl

theorem ensureSecret_consumed (g : GState) : (ensureSecret g).consumed = g.consumed :=
  (ensureSecret_fields g).2.2.2.2.2.2.2.2.2.2.1

theorem cstep_notBetterResult (x : Nat) (c : Cl) (e : Ev) (h : ConsMono c) : CStep x c (notBetterResult c e).1 := by
  unfold notBetterResult
  split
  · split
    · exact cstep_same x c _ h rfl rfl
    · exact cstep_same x c _ h rfl rfl
  · exact cstep_same x c _ h rfl rfl

theorem cstep_ownMessage (x : Nat) (c : Cl) (e : Ev) (h : ConsMono c) : CStep x c (ownMessage c e).1 := by
  unfold ownMessage
  repeat' split
  all_goals exact cstep_same x c _ h rfl rfl

theorem cstep_processCommit (x : Nat) (c : Cl) (e : Ev) (b : Body) (sw : List Nat) (h : ConsMono c) :
    CStep x c (processCommit c e b sw).1 := by
  unfold processCommit
  split
  · exact cstep_same x c _ h rfl rfl
  · dsimp only
    split
    · exact cstep_mgrCreate_then x c (epochOf c.g.path) e _ h rfl
        (by show (mergeCommit _ _ e).consumed = _
            rw [mergeCommit_consumed]; rfl)
    · exact cstep_mgrCreate_then x c (epochOf c.g.path) e _ h rfl
        (by show (ensureSecret (mergeCommit _ _ e)).consumed = _
            rw [ensureSecret_consumed, mergeCommit_consumed]; rfl)

theorem cstep_wrongEpochCommit (x : Nat) (retry : Cl → Option (Cl × Res)) (c : Cl) (e : Ev) (ee : Nat) (h : ConsMono c)
    (hretry : ∀ c1 r, ConsMono c1 → retry c1 = some r → CStep x c1 r.1) : CStep x c (wrongEpochCommit retry c e ee).1 := by
  unfold wrongEpochCommit
  split
  · split
    · rename_i c1 hr
      split
      · rename_i r hrr
        have h1 := cstep_rollbackTo x c c1 ee h hr
        exact h1.trans (hretry c1 r h1.inv hrr)
      · exact cstep_notBetterResult x c e h
    · exact cstep_notBetterResult x c e h
  · exact cstep_notBetterResult x c e h

/-- the state with `x` consumed -/
theorem cstep_consume (x : Nat) (c : Cl) (h : ConsMono c) :
    CStep x c { c with g := { c.g with consumed := x :: c.g.consumed } } :=
  cstep_grow x c _ h rfl (fun _ hy => List.mem_cons_of_mem _ hy) (fun y hy => by
    rcases List.mem_cons.mp hy with z | z
    · exact Or.inr z
    · exact Or.inl z)

theorem cstep_step1 (retry : Cl → Option (Cl × Res)) (nx : Nat) (c : Cl) (e : Ev) (h : ConsMono c)
    (hretry : ∀ c1 r, ConsMono c1 → retry c1 = some r → CStep e.cipher c1 r.1) :
    CStep e.cipher c (step1 retry nx c e).1 := by
  have hw : CStep e.cipher c (withSecret c) := cstep_same _ c _ h rfl (ensureSecret_consumed c.g)
  unfold step1
  split
  · exact cstep_same _ c _ h rfl rfl
  · split
    · exact cstep_same _ c _ h rfl rfl
    simp only
    split
    · exact hw.trans (cstep_same _ _ _ hw.inv rfl rfl)
    · split
      · -- commit
        split
        · exact hw.trans (cstep_wrongEpochCommit _ retry _ e _ hw.inv hretry)
        · split
          · split
            · refine hw.trans (cstep_mgrCreate_then _ (withSecret c) (epochOf (withSecret c).g.path) e _ hw.inv rfl ?_)
              show (ensureSecret (mergeCommit _ _ _)).consumed = _
              rw [ensureSecret_consumed, mergeCommit_consumed]; rfl
            · exact hw.trans (cstep_ownMessage _ _ e hw.inv)
          · split
            · exact hw.trans (cstep_same _ _ _ hw.inv rfl rfl)
            · have h1 := cstep_consume e.cipher (withSecret c) hw.inv
              exact hw.trans (h1.trans (cstep_processCommit _ _ e _ _ h1.inv))
      · -- leave
        split
        · exact hw.trans (cstep_same _ _ _ hw.inv rfl rfl)
        · split
          · exact hw.trans (cstep_ownMessage _ _ e hw.inv)
          · split
            · exact hw.trans (cstep_same _ _ _ hw.inv rfl rfl)
            · have h1 := cstep_consume e.cipher (withSecret c) hw.inv
              split
              · refine hw.trans (h1.trans (cstep_same _ _ _ h1.inv rfl ?_))
                show (ensureSecret _).consumed = _
                rw [ensureSecret_consumed]
              · exact hw.trans (h1.trans (cstep_same _ _ _ h1.inv rfl rfl))
      · -- app
        split
        · exact hw.trans (cstep_same _ _ _ hw.inv rfl rfl)
        · split
          · exact hw.trans (cstep_same _ _ _ hw.inv rfl rfl)
          · split
            · exact hw.trans (cstep_ownMessage _ _ e hw.inv)
            · split
              · exact hw.trans (cstep_same _ _ _ hw.inv rfl rfl)
              · have h1 := cstep_consume e.cipher (withSecret c) hw.inv
                refine hw.trans (h1.trans (cstep_same _ _ _ h1.inv rfl ?_))
                unfold storeApp
                show (updLast _ _ _).consumed = _
                rw [updLast_consumed]

theorem cstep_deliverOnce (retry : Cl → Option (Cl × Res)) (nx : Nat) (c : Cl) (e : Ev) (h : ConsMono c)
    (hretry : ∀ c1 r, ConsMono c1 → retry c1 = some r → CStep e.cipher c1 r.1) :
    CStep e.cipher c (deliverOnce retry nx c e).1 := by
  unfold deliverOnce
  split
  · split
    · exact cstep_refl _ c h
    · exact cstep_step1 retry nx c e h hretry
  · exact cstep_step1 retry nx c e h hretry

/-- **frame of `process_message` on the consumed ratchet generations**: for every state whose snapshots
    are consistent (`ConsMono`), every event and every fuel, the consumed list grows by at most the
    event's ciphertext, and the invariant is kept -/
theorem cstep_deliverN (fuel nx : Nat) (c : Cl) (e : Ev) (h : ConsMono c) : CStep e.cipher c (deliverN fuel nx c e).1 := by
  induction fuel generalizing c with
  | zero => exact cstep_deliverOnce _ nx c e h (by intro c1 r _ hr; cases hr)
  | succ f ih =>
    apply cstep_deliverOnce _ nx c e h
    intro c1 r hc1 hr
    cases hr
    exact ih c1 hc1

theorem consMono_init (id : Nat) (p : Bool) (r : Nat) (ms as : List Nat) (name : Nat) : ConsMono (initCl id p r ms as name) where
  below := by intro s hs; simp [initCl] at hs
  sorted := by simp [initCl]

theorem consMono_of (c c' : Cl) (h : ConsMono c) (hm : c'.mgr = c.mgr) (hg : c'.g.consumed = c.g.consumed) : ConsMono c' :=
  (cstep_same 0 c c' h hm hg).inv

/-- the other operations of the client do not touch consumed lists -/
theorem consMono_send (c : Cl) (n ts idn mid mts tok : Nat) (h : ConsMono c) : ConsMono (send c n ts idn mid mts tok).1 := by
  unfold send
  repeat' split
  all_goals first
    | exact h
    | (apply consMono_of c _ h
       · rfl
       · show (updLast _ _ _).consumed = _
         rw [updLast_consumed, ensureSecret_consumed])

theorem consMono_stageCommit (c : Cl) (n ts idn : Nat) (b : Body) (na : Bool) (h : ConsMono c) :
    ConsMono (stageCommit c n ts idn b na).1 := by
  unfold stageCommit
  repeat' split
  all_goals first
    | exact h
    | (apply consMono_of c _ h
       · rfl
       · show (ensureSecret _).consumed = _
         rw [ensureSecret_consumed])

theorem consMono_updateData (c : Cl) (n ts idn : Nat) (u : DataUpd) (h : ConsMono c) : ConsMono (updateData c n ts idn u).1 := by
  unfold updateData
  repeat' split
  all_goals first
    | exact h
    | exact consMono_stageCommit c n ts idn _ _ h

theorem consMono_removeMembers (c : Cl) (n ts idn : Nat) (who : List Nat) (h : ConsMono c) :
    ConsMono (removeMembers c n ts idn who).1 := by
  unfold removeMembers
  repeat' split
  all_goals first
    | exact h
    | exact consMono_stageCommit c n ts idn _ _ h

theorem consMono_addMembers (c : Cl) (n ts idn : Nat) (who : List Nat) (h : ConsMono c) :
    ConsMono (addMembers c n ts idn who).1 := by
  unfold addMembers
  repeat' split
  all_goals first
    | exact h
    | exact consMono_stageCommit c n ts idn _ _ h

/-- a joiner starts with an empty snapshot queue -/
theorem consMono_join (c : Cl) (g : GState) (h : ConsMono c) : ConsMono (join c g) := by
  unfold join
  split
  · exact h
  · exact ⟨fun s hs => absurd hs (List.not_mem_nil), List.Pairwise.nil⟩

theorem consMono_leave (c : Cl) (n ts idn : Nat) (h : ConsMono c) : ConsMono (leave c n ts idn).1 := by
  unfold leave
  repeat' split
  all_goals first
    | exact h
    | (apply consMono_of c _ h
       · rfl
       · show (ensureSecret _).consumed = _
         rw [ensureSecret_consumed])

theorem consMono_merge (c : Cl) (h : ConsMono c) : ConsMono (merge c).1 := by
  unfold merge
  repeat' split
  all_goals first
    | exact h
    | (apply consMono_of c _ h
       · rfl
       · show (mergeCommit _ _ _).consumed = _
         rw [mergeCommit_consumed])
    | (apply consMono_of c _ h <;> rfl)

theorem consMono_clear (c : Cl) (h : ConsMono c) : ConsMono (clear c).1 := by
  unfold clear
  split
  · exact h
  · apply consMono_of c _ h <;> rfl

theorem consMono_restart (c : Cl) (h : ConsMono c) : ConsMono (restart c).1 := by
  unfold restart
  split
  · refine ⟨?_, ?_⟩
    · intro s hs
      simp only [List.mem_map] at hs
      obtain ⟨t, ht, rfl⟩ := hs
      exact h.below t ht
    · exact List.Pairwise.map _ (fun a b hab => hab) h.sorted
  · exact h

/-! ## decidable forms of the event conditions (for closed examples) -/

instance (w : Ev) (S : List Ev) : Decidable (IsMin w S) := by unfold IsMin; infer_instance
instance (S l : List Ev) : Decidable (Covers S l) := by unfold Covers; infer_instance

instance decLevelWise : ∀ (Ls : List Level) (ls : List (List Ev)), Decidable (LevelWise Ls ls)
  | [], [] => isTrue trivial
  | [], _ :: _ => isFalse (fun h => h)
  | _ :: _, [] => isFalse (fun h => h)
  | L :: Ls, l :: ls => by
    unfold LevelWise
    exact @instDecidableAnd _ _ _ (decLevelWise Ls ls)

instance (p : Path) (S : List Ev) (e : Ev) : Decidable (StalePath p S e) := by unfold StalePath; infer_instance

instance decLevelWiseS (all : List Ev) : ∀ (p : Path) (Ls : List Level) (ls : List (List Ev)), Decidable (LevelWiseS all p Ls ls)
  | _, [], [] => isTrue trivial
  | _, [], _ :: _ => isFalse (fun h => h)
  | _, _ :: _, [] => isFalse (fun h => h)
  | p, L :: Ls, l :: ls => by
    unfold LevelWiseS
    have := decLevelWiseS all (p ++ [L.1.cipher]) Ls ls
    infer_instance

/-- a commit by an admin, or a pure self-update -/
def authCommit (admins : List Nat) (e : Ev) : Bool :=
  match e.kind with
  | .commit b sw => admins.contains e.sender || isPureSelfUpdate b sw
  | _ => false

theorem authCommit_kind {admins : List Nat} {e : Ev} (h : authCommit admins e = true) :
    ∃ b sw, e.kind = .commit b sw ∧ (admins.contains e.sender || isPureSelfUpdate b sw) = true := by
  unfold authCommit at h
  split at h
  · rename_i b sw hk; exact ⟨b, sw, hk, h⟩
  · cases h

/-- the id is not rotated and `me` is not removed (decidable forms of `keepsId` / `keepsMe`) -/
def keepsIdB (nid : Nat) (e : Ev) : Bool :=
  match e.kind with
  | .commit (.setData d) _ => d.nid == nid
  | _ => true

def keepsMeB (me : Nat) (e : Ev) : Bool :=
  match e.kind with
  | .commit b sw => !(removesMe me b sw)
  | _ => true

theorem keepsIdB_spec {nid : Nat} {e : Ev} (h : keepsIdB nid e = true) :
    ∀ d sw, e.kind = .commit (.setData d) sw → d.nid = nid := by
  intro d sw hk
  simpa [keepsIdB, hk] using h

theorem keepsMeB_spec {me : Nat} {e : Ev} (h : keepsMeB me e = true) :
    ∀ b sw, e.kind = .commit b sw → removesMe me b sw = false := by
  intro b sw hk
  simpa [keepsMeB, hk] using h

theorem levelEv_of_dec (id : Nat) (k : Core) (S : List Ev)
    (h1 : ∀ e ∈ S, e.path = k.1) (h2 : ∀ e ∈ S, authCommit k.2.2.admins e = true) (h3 : ∀ e ∈ S, e.sender ≠ id)
    (h4 : ∀ e ∈ S, e.ts ≠ 0)
    (h5 : ∀ e1 ∈ S, ∀ e2 ∈ S, e1 ≠ e2 → e1.n ≠ e2.n ∧ (e1.ts, e1.idnum) ≠ (e2.ts, e2.idnum) ∧ e1.cipher ≠ e2.cipher)
    (h6 : ∀ e ∈ S, e.tag = k.2.2.nid ∧ keepsIdB k.2.2.nid e = true ∧ keepsMeB id e = true) :
    LevelEv id k S :=
  ⟨h1, fun e he => authCommit_kind (h2 e he), h3, h4, h5, fun e he => (h6 e he).1,
   fun e he => keepsIdB_spec (h6 e he).2.1, fun e he => keepsMeB_spec (h6 e he).2.2⟩

theorem siblings_of_dec (c : Cl) (S : List Ev) (hn : c.g.recNid = c.g.nid)
    (h1 : ∀ e ∈ S, e.path = c.g.path) (h2 : ∀ e ∈ S, authCommit c.g.admins e = true) (h3 : ∀ e ∈ S, e.sender ≠ c.id)
    (h4 : ∀ e ∈ S, e.ts ≠ 0)
    (h5 : ∀ e1 ∈ S, ∀ e2 ∈ S, e1 ≠ e2 → e1.n ≠ e2.n ∧ (e1.ts, e1.idnum) ≠ (e2.ts, e2.idnum) ∧ e1.cipher ≠ e2.cipher)
    (h6 : ∀ e ∈ S, e.tag = c.g.nid ∧ keepsIdB c.g.nid e = true ∧ keepsMeB c.id e = true)
    (h7 : ∀ e ∈ S, getRec c e.n = none ∧ e.cipher ∉ c.g.consumed) : Siblings c S :=
  siblings_of_levelEv c S hn (levelEv_of_dec c.id (core c.g) S h1 h2 h3 h4 h5 h6) h7

end MdkVerif.Chain
