import MdkVerif.Model.Client
import MdkVerif.Proofs.Client
import MdkVerif.Proofs.Store
import MdkVerif.Proofs.Fork
import MdkVerif.Proofs.ForkInv
import MdkVerif.Props.C01Fork
/-
  MdkVerif.Proofs.Chain — lemmas for lifting the single-fork theorems of C01 to many clients and to
  chains of forks (`Props/C01Chain.lean`).

  §A  frame lemmas for `deliver`, for EVERY state / event / fuel.  This is the only section that
      unfolds `step1` / `deliverOnce` / the handlers of Model.Client; everything after it goes through
      the statements of Proofs/Fork.lean (`rel_run`, `rel2_run`, `CForm`, …) and of §A.
  §B  the child state as a function of the parent group state (`childOfG`), chains of children
      (`chainG`), the core of a group state (path, members, admins, name).
  §C  one fork level for a client in any role (`AtFork`), with everything the simulation knows exposed.
  §D  the induction over the levels of a chain.
  §E  many clients.
-/
namespace MdkVerif.Chain
open MdkVerif MdkVerif.Client MdkVerif.Fork MdkVerif.Props.C01Fork
open MdkVerif.Store (alookup_ainsert_self alookup_ainsert_ne)

/-- delivering a list of events, one after the other -/
def run (nx : Nat) (c : Cl) (l : List Ev) : Cl := l.foldl (fun c e => (deliver c e nx).1) c

@[simp] theorem run_nil (nx : Nat) (c : Cl) : run nx c [] = c := rfl
@[simp] theorem run_cons (nx : Nat) (c : Cl) (e : Ev) (l : List Ev) : run nx c (e :: l) = run nx (deliver c e nx).1 l := rfl
theorem run_append (nx : Nat) (c : Cl) (l1 l2 : List Ev) : run nx c (l1 ++ l2) = run nx (run nx c l1) l2 := by
  simp [run, List.foldl_append]

/-! ## §A  frame lemmas (the section that unfolds the step functions of Model.Client)

  `Frame ep n c c'`: as far as the configuration of the client and the dedup record of event number
  `n` go, `c'` differs from `c` at most by re-markings of a rollback to epoch `ep` (`rbRec ep`, which
  never creates or deletes a record).  Delivering `e` is a `Frame (epochOf e.path) n` for every
  `n ≠ e.n`. -/

structure Frame (ep n : Nat) (c c' : Cl) : Prop where
  id : c'.id = c.id
  persistent : c'.persistent = c.persistent
  retention : c'.retention = c.retention
  maxPast : c'.maxPast = c.maxPast
  hasGroup : c'.hasGroup = c.hasGroup
  /-- every property of the record of `n` that survives a rollback re-marking survives the step -/
  recs : ∀ P : Option Rec → Prop, (∀ o, P o → P (o.map (rbRec ep))) → P (getRec c n) → P (getRec c' n)

theorem frame_refl (ep n : Nat) (c : Cl) : Frame ep n c c := ⟨rfl, rfl, rfl, rfl, rfl, fun _ _ h => h⟩

theorem Frame.trans {ep n : Nat} {a b c : Cl} (h1 : Frame ep n a b) (h2 : Frame ep n b c) : Frame ep n a c :=
  ⟨h2.id.trans h1.id, h2.persistent.trans h1.persistent, h2.retention.trans h1.retention,
   h2.maxPast.trans h1.maxPast, h2.hasGroup.trans h1.hasGroup, fun P hP h => h2.recs P hP (h1.recs P hP h)⟩

/-- a step that keeps the configuration and the record table -/
theorem frame_struct (ep n : Nat) (c c' : Cl) (h1 : c'.id = c.id) (h2 : c'.persistent = c.persistent)
    (h3 : c'.retention = c.retention) (h4 : c'.maxPast = c.maxPast) (h5 : c'.hasGroup = c.hasGroup)
    (h6 : c'.recs = c.recs) : Frame ep n c c' :=
  ⟨h1, h2, h3, h4, h5, fun P _ h => by simpa only [getRec, h6] using h⟩

theorem Frame.setRec {ep n : Nat} {c x : Cl} (h : Frame ep n c x) (m : Nat) (r : Rec) (hm : n ≠ m) :
    Frame ep n c (setRec x m r) :=
  h.trans ⟨rfl, rfl, rfl, rfl, rfl, fun P _ hp => by
    have : getRec (Client.setRec x m r) n = getRec x n := by
      simp only [getRec, Client.setRec]; exact alookup_ainsert_ne _ _ _ _ hm
    rw [this]; exact hp⟩

theorem Frame.recordFailure {ep n : Nat} {c x : Cl} (h : Frame ep n c x) (m : Nat) (b : Bool) (e : Option Nat) (hm : n ≠ m) :
    Frame ep n c (recordFailure x m b e) := h.setRec m _ hm

theorem frame_rollbackTo (n : Nat) (c c1 : Cl) (ep : Nat) (hr : rollbackTo c ep = some c1) : Frame ep n c c1 := by
  unfold rollbackTo at hr
  split at hr
  · cases hr
  · split at hr
    · cases hr
    · cases hr
      refine ⟨rfl, rfl, rfl, rfl, rfl, ?_⟩
      intro P hP h
      simp only [getRec] at h ⊢
      rw [alookup_map_key _ rbRec2 (by intro p; obtain ⟨k', r⟩ := p; exact ite_pair _ _ _ _),
        alookup_map_key _ (rbRec1 ep) (by intro p; obtain ⟨k', r⟩ := p; exact ite_pair _ _ _ _)]
      have := hP _ h
      cases hx : alookup n c.recs <;> simpa [hx, rbRec] using this

/-- `setRec` on a client that kept configuration and records -/
theorem frame_setRec_struct (ep n : Nat) (c x : Cl) (m : Nat) (r : Rec) (hm : n ≠ m) (h1 : x.id = c.id)
    (h2 : x.persistent = c.persistent) (h3 : x.retention = c.retention) (h4 : x.maxPast = c.maxPast)
    (h5 : x.hasGroup = c.hasGroup) (h6 : x.recs = c.recs) : Frame ep n c (setRec x m r) :=
  (frame_struct ep n c x h1 h2 h3 h4 h5 h6).setRec m r hm

theorem Frame.trans' {ep n : Nat} {a b c : Cl} (h2 : Frame ep n b c) (h1 : Frame ep n a b) : Frame ep n a c := h1.trans h2

theorem frame_returnOwnCommit (ep n : Nat) (c : Cl) : Frame ep n c (returnOwnCommit c).1 := by
  apply frame_struct <;> rfl

theorem frame_failUnprocessable (ep n : Nat) (c : Cl) (e : Ev) (hn : n ≠ e.n) : Frame ep n c (failUnprocessable c e).1 := by
  show Frame ep n c (recordFailure c e.n true (some c.g.recEpoch))
  exact (frame_refl ep n c).recordFailure _ _ _ hn

theorem frame_notBetterResult (ep n : Nat) (c : Cl) (e : Ev) (hn : n ≠ e.n) : Frame ep n c (notBetterResult c e).1 := by
  unfold notBetterResult
  split
  · split
    · exact frame_returnOwnCommit ep n c
    · exact frame_failUnprocessable ep n c e hn
  · exact frame_failUnprocessable ep n c e hn

theorem frame_ownMessage (ep n : Nat) (c : Cl) (e : Ev) (hn : n ≠ e.n) : Frame ep n c (ownMessage c e).1 := by
  unfold ownMessage
  repeat' split
  all_goals first
    | exact frame_refl ep n c
    | exact frame_returnOwnCommit ep n c
    | (dsimp only; apply frame_setRec_struct <;> first | rfl | exact hn)

theorem frame_storeApp (ep n : Nat) (c : Cl) (e : Ev) (m t k : Nat) (hn : n ≠ e.n) : Frame ep n c (storeApp c e m t k).1 := by
  unfold storeApp
  dsimp only
  apply frame_setRec_struct <;> first | rfl | exact hn

theorem frame_processCommit (ep n : Nat) (c : Cl) (e : Ev) (b : Body) (sw : List Nat) (hn : n ≠ e.n) :
    Frame ep n c (processCommit c e b sw).1 := by
  unfold processCommit
  split
  · exact frame_failUnprocessable ep n c e hn
  · dsimp only
    apply frame_setRec_struct <;> first | rfl | exact hn

theorem frame_wrongEpochCommit (n : Nat) (retry : Cl → Option (Cl × Res)) (c : Cl) (e : Ev) (ee : Nat) (hn : n ≠ e.n)
    (hretry : ∀ c1 r, retry c1 = some r → Frame ee n c1 r.1) : Frame ee n c (wrongEpochCommit retry c e ee).1 := by
  unfold wrongEpochCommit
  split
  · split
    · rename_i c1 hr
      split
      · rename_i r hrr
        exact (frame_rollbackTo n c c1 ee hr).trans (hretry c1 r hrr)
      · exact frame_notBetterResult ee n c e hn
    · exact frame_notBetterResult ee n c e hn
  · exact frame_notBetterResult ee n c e hn

theorem frame_step1 (n : Nat) (retry : Cl → Option (Cl × Res)) (nx : Nat) (c : Cl) (e : Ev) (hn : n ≠ e.n)
    (hretry : ∀ c1 r, retry c1 = some r → Frame (epochOf e.path) n c1 r.1) :
    Frame (epochOf e.path) n c (step1 retry nx c e).1 := by
  have hw : Frame (epochOf e.path) n c (withSecret c) := by apply frame_struct <;> rfl
  unfold step1
  split
  · show Frame _ n c (recordFailure c e.n false none)
    exact (frame_refl _ n c).recordFailure _ _ _ hn
  · simp only
    split
    · show Frame _ n c (recordFailure (withSecret c) e.n true none)
      exact hw.recordFailure _ _ _ hn
    · split
      · -- commit
        split
        · exact hw.trans (frame_wrongEpochCommit n retry _ e _ hn hretry)
        · split
          · split
            · refine hw.trans ?_
              apply frame_setRec_struct <;> first | rfl | exact hn
            · exact hw.trans (frame_ownMessage _ n _ e hn)
          · split
            · exact hw.trans (frame_failUnprocessable _ n _ e hn)
            · refine Frame.trans' (frame_processCommit _ n _ e _ _ hn) (hw.trans ?_)
              apply frame_struct <;> rfl
      · -- leave
        split
        · exact hw.trans (frame_failUnprocessable _ n _ e hn)
        · split
          · exact hw.trans (frame_ownMessage _ n _ e hn)
          · split
            · exact hw.trans (frame_failUnprocessable _ n _ e hn)
            · split
              · refine hw.trans ?_
                apply frame_setRec_struct <;> first | rfl | exact hn
              · refine hw.trans ?_
                apply frame_setRec_struct <;> first | rfl | exact hn
      · -- app
        split
        · exact hw.trans (frame_failUnprocessable _ n _ e hn)
        · split
          · exact hw.trans (frame_failUnprocessable _ n _ e hn)
          · split
            · exact hw.trans (frame_ownMessage _ n _ e hn)
            · split
              · exact hw.trans (frame_failUnprocessable _ n _ e hn)
              · refine Frame.trans' (frame_storeApp _ n _ e _ _ _ hn) (hw.trans ?_)
                apply frame_struct <;> rfl

theorem frame_deliverOnce (n : Nat) (retry : Cl → Option (Cl × Res)) (nx : Nat) (c : Cl) (e : Ev) (hn : n ≠ e.n)
    (hretry : ∀ c1 r, retry c1 = some r → Frame (epochOf e.path) n c1 r.1) :
    Frame (epochOf e.path) n c (deliverOnce retry nx c e).1 := by
  unfold deliverOnce
  split
  · split
    · exact frame_refl _ n c
    · exact frame_step1 n retry nx c e hn hretry
  · exact frame_step1 n retry nx c e hn hretry

/-- **frame of `process_message`**, every state, event and fuel: the configuration (`id`, `persistent`,
    `retention`, `maxPast`, `hasGroup`) never changes, and the dedup record of every OTHER event number
    is created by nothing and changed by nothing except the re-marking of a rollback to `e`'s epoch -/
theorem frame_deliverN (fuel nx : Nat) (c : Cl) (e : Ev) (n : Nat) (hn : n ≠ e.n) :
    Frame (epochOf e.path) n c (deliverN fuel nx c e).1 := by
  induction fuel generalizing c with
  | zero => exact frame_deliverOnce n _ nx c e hn (by intro c1 r hr; cases hr)
  | succ f ih =>
    apply frame_deliverOnce n _ nx c e hn
    intro c1 r hr
    cases hr
    exact ih c1

theorem frame_deliver (nx : Nat) (c : Cl) (e : Ev) (n : Nat) (hn : n ≠ e.n) :
    Frame (epochOf e.path) n c (deliver c e nx).1 := frame_deliverN 3 nx c e n hn

/-- the configuration part alone needs no side condition (take an event number that differs from `e.n`) -/
theorem deliver_config (nx : Nat) (c : Cl) (e : Ev) :
    (deliver c e nx).1.id = c.id ∧ (deliver c e nx).1.persistent = c.persistent ∧
    (deliver c e nx).1.retention = c.retention ∧ (deliver c e nx).1.maxPast = c.maxPast ∧
    (deliver c e nx).1.hasGroup = c.hasGroup := by
  have h := frame_deliver nx c e (e.n + 1) (by omega)
  exact ⟨h.id, h.persistent, h.retention, h.maxPast, h.hasGroup⟩

/-- an unseen event number stays unseen unless it is the delivered one -/
theorem deliver_unseen (nx : Nat) (c : Cl) (e : Ev) (n : Nat) (hn : n ≠ e.n) (h : getRec c n = none) :
    getRec (deliver c e nx).1 n = none :=
  (frame_deliver nx c e n hn).recs (· = none) (fun o ho => by rw [ho]; rfl) h

/-- a record is fixed by every rollback re-marking to an epoch `≥ K` -/
def StableRec (K : Nat) (r : Rec) : Prop := ∀ ep, K ≤ ep → rbRec ep r = r

theorem StableRec.mono {K K' : Nat} {r : Rec} (h : StableRec K r) (hk : K ≤ K') : StableRec K' r :=
  fun ep hep => h ep (Nat.le_trans hk hep)

/-- a stable record of another event number is untouched -/
theorem deliver_keeps (nx : Nat) (c : Cl) (e : Ev) (n : Nat) (r : Rec) (hn : n ≠ e.n) (h : getRec c n = some r)
    (hs : rbRec (epochOf e.path) r = r) : getRec (deliver c e nx).1 n = some r :=
  (frame_deliver nx c e n hn).recs (· = some r) (fun o ho => by rw [ho]; simp [hs]) h

theorem frame_run (nx : Nat) (ep n : Nat) (l : List Ev) : ∀ (c : Cl), (∀ e ∈ l, epochOf e.path = ep ∧ n ≠ e.n) →
    Frame ep n c (run nx c l) := by
  induction l with
  | nil => intro c _; exact frame_refl ep n c
  | cons e t ih =>
    intro c h
    obtain ⟨h1, h2⟩ := h e List.mem_cons_self
    rw [run_cons]
    exact (h1 ▸ frame_deliver nx c e n h2).trans (ih _ (fun x hx => h x (List.mem_cons_of_mem _ hx)))

end MdkVerif.Chain
