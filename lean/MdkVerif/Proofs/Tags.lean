import MdkVerif.Model.Tags
import MdkVerif.Proofs.Codec
/-
  Helper lemmas for Props/C15 (tags, hex, from_raw inversion).
-/
namespace MdkVerif.Codec
open List

/-! ### `from_raw` inversion -/

theorem optFixed_ok (n : Nat) (e : DecErr) (b : Bytes) (o : Option Bytes) (h : optFixed n e b = .ok o) :
    (∀ c, o = some c → c.length = n) ∧ (b.length = 0 ∨ b.length = n) := by
  unfold optFixed at h
  by_cases h1 : b.isEmpty = true
  · rw [if_pos h1] at h; cases h
    have : b = [] := by simpa using h1
    subst this; simp
  · rw [if_neg h1] at h
    by_cases h2 : b.length = n
    · rw [if_pos h2] at h; cases h
      exact ⟨fun c hc => by cases hc; exact h2, Or.inr h2⟩
    · rw [if_neg h2] at h; cases h

theorem fromRaw_inv (env : Env) (raw : Raw) (x : Ext) (h : fromRaw env raw = .ok x) :
    raw.version ≠ 0 ∧ x.version = raw.version ∧
    optFixed 32 .hashLen raw.ih = .ok x.ih ∧ optFixed 32 .keyLen raw.ik = .ok x.ik ∧
    optFixed 12 .nonceLen raw.inn = .ok x.inn ∧ optFixed 32 .uploadLen raw.iu = .ok x.iu := by
  unfold fromRaw at h
  by_cases hv : raw.version = 0
  · rw [if_pos hv] at h; cases h
  · rw [if_neg hv] at h
    cases h0 : relaysFrom env raw.relays [] with
    | error e => simp [h0] at h
    | ok rl =>
    cases h1 : optFixed 32 .hashLen raw.ih with
    | error e => simp [h0, h1] at h
    | ok a1 =>
    cases h2 : optFixed 32 .keyLen raw.ik with
    | error e => simp [h0, h1, h2] at h
    | ok a2 =>
    cases h3 : optFixed 12 .nonceLen raw.inn with
    | error e => simp [h0, h1, h2, h3] at h
    | ok a3 =>
    cases h4 : optFixed 32 .uploadLen raw.iu with
    | error e => simp [h0, h1, h2, h3, h4] at h
    | ok a4 =>
      simp only [h0, h1, h2, h3, h4] at h
      by_cases u1 : env.utf8 raw.name = false
      · rw [if_pos u1] at h; cases h
      · rw [if_neg u1] at h
        by_cases u2 : env.utf8 raw.desc = false
        · rw [if_pos u2] at h; cases h
        · rw [if_neg u2] at h
          cases h
          exact ⟨hv, rfl, rfl, rfl, rfl, rfl⟩

theorem fromRaw_ok_version (env : Env) (raw : Raw) (x : Ext) (h : fromRaw env raw = .ok x) : x.version ≠ 0 := by
  obtain ⟨h1, h2, _⟩ := fromRaw_inv env raw x h
  rw [h2]; exact h1

theorem fromRaw_ok_lengths (env : Env) (raw : Raw) (x : Ext) (h : fromRaw env raw = .ok x) :
    (∀ b, x.ih = some b → b.length = 32) ∧ (∀ b, x.ik = some b → b.length = 32) ∧
    (∀ b, x.inn = some b → b.length = 12) ∧ (∀ b, x.iu = some b → b.length = 32) := by
  obtain ⟨_, _, h1, h2, h3, h4⟩ := fromRaw_inv env raw x h
  exact ⟨(optFixed_ok _ _ _ _ h1).1, (optFixed_ok _ _ _ _ h2).1, (optFixed_ok _ _ _ _ h3).1, (optFixed_ok _ _ _ _ h4).1⟩

theorem fromRaw_bad_len (env : Env) (raw : Raw) (x : Ext)
    (hbad : (raw.ih.length ≠ 0 ∧ raw.ih.length ≠ 32) ∨ (raw.ik.length ≠ 0 ∧ raw.ik.length ≠ 32) ∨
            (raw.inn.length ≠ 0 ∧ raw.inn.length ≠ 12) ∨ (raw.iu.length ≠ 0 ∧ raw.iu.length ≠ 32)) :
    fromRaw env raw ≠ .ok x := by
  intro h
  obtain ⟨_, _, h1, h2, h3, h4⟩ := fromRaw_inv env raw x h
  have a1 := (optFixed_ok _ _ _ _ h1).2
  have a2 := (optFixed_ok _ _ _ _ h2).2
  have a3 := (optFixed_ok _ _ _ _ h3).2
  have a4 := (optFixed_ok _ _ _ _ h4).2
  omega

/-! ### hex -/

theorem hexVal_hexDigit (n : Nat) (h : n < 16) : hexVal (hexDigit n) = some n := by
  unfold hexDigit hexVal
  by_cases c : n < 10
  · rw [if_pos c, if_pos (by omega)]; congr 1; omega
  · rw [if_neg c, if_neg (by omega), if_pos (by omega)]; congr 1; omega

theorem hexDec_hexEnc (b : Bytes) (hb : isBytes b = true) : hexDec (hexEnc b) = some b := by
  induction b with
  | nil => rfl
  | cons x xs ih =>
    simp only [isBytes, List.all_cons, Bool.and_eq_true, decide_eq_true_eq] at hb
    have hx := hb.1
    have ih' := ih (by simpa [isBytes] using hb.2)
    have h1 := hexVal_hexDigit (x / 16) (by omega)
    have h2 := hexVal_hexDigit (x % 16) (by omega)
    have h3 : x / 16 * 16 + x % 16 = x := by omega
    simp [hexEnc, hexDec, h1, h2, ih', h3]

theorem hexEnc_length (b : Bytes) : (hexEnc b).length = 2 * b.length := by
  induction b with
  | nil => rfl
  | cons x xs ih => simp [hexEnc, ih]; omega

theorem hexDec_length : ∀ (s b : Bytes), hexDec s = some b → s.length = 2 * b.length
  | [], b, h => by simp [hexDec] at h; subst h; rfl
  | [_], b, h => by simp [hexDec] at h
  | a :: c :: r, b, h => by
    unfold hexDec at h
    cases h1 : hexVal a with
    | none => simp [h1] at h
    | some x =>
      cases h2 : hexVal c with
      | none => simp [h1, h2] at h
      | some y =>
        cases h3 : hexDec r with
        | none => simp [h1, h2, h3] at h
        | some t =>
          simp [h1, h2, h3] at h
          subst h
          have := hexDec_length r t h3
          simp [this]; omega

end MdkVerif.Codec

namespace MdkVerif.Tags
open MdkVerif.Codec List

theorem extractGid_ok (tags : List Tag) (g : Bytes) (h : extractGid tags = .ok g) :
    g.length = 32 ∧ ∃ t v, tags.filter (fun t => t.name == .h) = [t] ∧ t.content = some v ∧
      v.length = 64 ∧ hexDec v = some g := by
  unfold extractGid at h
  match hf : tags.filter (fun t => t.name == .h), h with
  | [], h => simp [hf] at h
  | _ :: _ :: _, h => simp [hf] at h
  | [t], h =>
    simp only [hf] at h
    cases hc : t.content with
    | none => simp [hc] at h
    | some v =>
      simp only [hc] at h
      by_cases hl : v.length ≠ 64
      · rw [if_pos hl] at h; cases h
      · rw [if_neg hl] at h
        cases hd : hexDec v with
        | none => simp [hd] at h
        | some b =>
          simp only [hd] at h
          by_cases hb : b.length = 32
          · rw [if_pos hb] at h; cases h
            exact ⟨hb, t, v, hf, hc, by omega, hd⟩
          · rw [if_neg hb] at h; cases h

end MdkVerif.Tags

namespace MdkVerif.Tags
open MdkVerif.Codec List

/-! ### key-package tag validators -/

theorem isHexU16_iff (v : Bytes) :
    isHexU16 v = true ↔ ∃ c d e f, v = [48, 120, c, d, e, f] ∧ isHexDigit c = true ∧ isHexDigit d = true ∧
      isHexDigit e = true ∧ isHexDigit f = true := by
  constructor
  · intro h
    match v, h with
    | [a, b, c, d, e, f], h =>
      simp only [isHexU16, Bool.and_eq_true, beq_iff_eq] at h
      obtain ⟨⟨⟨⟨⟨rfl, rfl⟩, h1⟩, h2⟩, h3⟩, h4⟩ := h
      exact ⟨c, d, e, f, rfl, h1, h2, h3, h4⟩
  · rintro ⟨c, d, e, f, rfl, h1, h2, h3, h4⟩
    simp [isHexU16, h1, h2, h3, h4]

theorem lowerAscii_eq_digit (c k : Nat) (hk : 48 ≤ k ∧ k ≤ 57) (h : lowerAscii c = k) : c = k := by
  unfold lowerAscii at h
  split at h <;> omega

theorem csOk_iff (t : Tag) : csOk t = true ↔ t.content = some Generated.kpCiphersuiteTag := by
  have hcs : Generated.kpCiphersuiteTag = [48, 120, 48, 48, 48, 49] := by decide
  constructor
  · intro h
    unfold csOk at h
    cases hc : t.content with
    | none => simp [hc] at h
    | some v =>
      simp only [hc, Bool.and_eq_true, beq_iff_eq] at h
      obtain ⟨c, d, e, f, rfl, _⟩ := (isHexU16_iff v).mp h.1
      have h2 := h.2
      rw [hcs] at h2
      simp only [lower, List.map_cons, List.map_nil, List.cons.injEq, and_true] at h2
      obtain ⟨_, _, hc', hd, he, hf⟩ := h2
      have e1 : lowerAscii 48 = 48 := by decide
      have e2 : lowerAscii 49 = 49 := by decide
      rw [e1] at hc' hd he; rw [e2] at hf
      rw [lowerAscii_eq_digit c 48 (by omega) hc', lowerAscii_eq_digit d 48 (by omega) hd,
          lowerAscii_eq_digit e 48 (by omega) he, lowerAscii_eq_digit f 49 (by omega) hf, hcs]
  · intro h
    unfold csOk
    rw [h]
    decide

theorem extOk_iff (t : Tag) :
    extOk t = true ↔ t.vals ≠ [] ∧ (∀ v ∈ t.vals, isHexU16 v = true) ∧
      ∀ r ∈ Generated.kpRequiredExtensionTags, ∃ v ∈ t.vals, lower v = r := by
  unfold extOk
  simp only [Bool.and_eq_true, Bool.not_eq_true', List.isEmpty_eq_false_iff, List.all_eq_true,
    List.contains_iff_mem, List.mem_map, and_assoc]

theorem relaysOk_iff (env : Env) (t : Tag) :
    relaysOk env t = true ↔ t.vals ≠ [] ∧ ∀ v ∈ t.vals, (env.relayParse v).isSome = true := by
  unfold relaysOk
  simp only [Bool.and_eq_true, Bool.not_eq_true', List.isEmpty_eq_false_iff, List.all_eq_true]

theorem iOk_iff (t : Tag) :
    iOk t = true ↔ ∃ v, t.vals = [v] ∧ v ≠ [] ∧ (hexDec v).isSome = true := by
  unfold iOk
  constructor
  · intro h
    match hv : t.vals, h with
    | [v], h =>
      simp only [Bool.and_eq_true, Bool.not_eq_true', List.isEmpty_eq_false_iff] at h
      exact ⟨v, rfl, h.1, h.2⟩
  · rintro ⟨v, hv, h1, h2⟩
    simp [hv, h1, h2]

/-- the explicit acceptance predicate of `validate_key_package_tags` -/
structure KpTagsSpec (env : Env) (tags : List Tag) : Prop where
  /-- the first `mls_protocol_version` tag carries exactly "1.0" -/
  pv : ∃ t, firstTag .protoVer tags = some t ∧ t.content = some Generated.kpProtocolVersion
  /-- the first `mls_ciphersuite` tag carries exactly "0x0001" (the case-insensitive comparison in the
      source cannot accept anything else: the prefix `0x` is matched exactly and the digits have no case) -/
  cs : ∃ t, firstTag .ciphersuite tags = some t ∧ t.content = some Generated.kpCiphersuiteTag
  /-- the first `mls_extensions` tag: ≥ 1 value, all of the form 0xHHHH, containing every required one
      up to the case of the hex digits -/
  ext : ∃ t, firstTag .extensions tags = some t ∧ t.vals ≠ [] ∧ (∀ v ∈ t.vals, isHexU16 v = true) ∧
          ∀ r ∈ Generated.kpRequiredExtensionTags, ∃ v ∈ t.vals, lower v = r
  /-- the first `relays` tag: ≥ 1 value, every value a relay URL -/
  relays : ∃ t, firstTag .relays tags = some t ∧ t.vals ≠ [] ∧ ∀ v ∈ t.vals, (env.relayParse v).isSome = true
  /-- the first `i` tag: exactly one value, non-empty, hex -/
  i : ∃ t v, firstTag .i tags = some t ∧ t.vals = [v] ∧ v ≠ [] ∧ (hexDec v).isSome = true

theorem kpTagsOk_iff (env : Env) (tags : List Tag) : kpTagsOk env tags = true ↔ KpTagsSpec env tags := by
  unfold kpTagsOk
  constructor
  · intro h
    cases h1 : firstTag .protoVer tags with
    | none => simp [h1] at h
    | some pv =>
    cases h2 : firstTag .ciphersuite tags with
    | none => simp [h1, h2] at h
    | some cs =>
    cases h3 : firstTag .extensions tags with
    | none => simp [h1, h2, h3] at h
    | some ext =>
    cases h4 : firstTag .relays tags with
    | none => simp [h1, h2, h3, h4] at h
    | some rl =>
    cases h5 : firstTag .i tags with
    | none => simp [h1, h2, h3, h4, h5] at h
    | some it =>
      simp only [h1, h2, h3, h4, h5, Bool.and_eq_true] at h
      obtain ⟨⟨⟨⟨a, b⟩, c⟩, d⟩, e⟩ := h
      have a' : pv.content = some Generated.kpProtocolVersion := by simpa [pvOk] using a
      obtain ⟨v, e1, e2, e3⟩ := (iOk_iff it).mp e
      exact ⟨⟨pv, h1, a'⟩, ⟨cs, h2, (csOk_iff cs).mp b⟩, ⟨ext, h3, (extOk_iff ext).mp c⟩,
             ⟨rl, h4, (relaysOk_iff env rl).mp d⟩, ⟨it, v, h5, e1, e2, e3⟩⟩
  · rintro ⟨⟨pv, h1, a⟩, ⟨cs, h2, b⟩, ⟨ext, h3, c⟩, ⟨rl, h4, d⟩, ⟨it, v, h5, e⟩⟩
    have a' : pvOk pv = true := by simp [pvOk, a]
    simp only [h1, h2, h3, h4, h5, a', (csOk_iff cs).mpr b, (extOk_iff ext).mpr c,
      (relaysOk_iff env rl).mpr d, (iOk_iff it).mpr ⟨v, e⟩, Bool.and_self]

theorem parseKp_ok_iff (env : Env) (ev : KpEvent) :
    parseKp env ev = .ok ↔
      ev.kind = Generated.kindMlsKeyPackage ∧ kpTagsOk env ev.tags = true ∧ hasBase64Encoding ev.tags = true ∧
      ev.content = .ok ∧ ev.credIdentity.length = 32 ∧ ev.credIdentity = ev.author ∧
      iTagBytes ev.tags = some ev.kpRef := by
  unfold parseKp
  by_cases h1 : ev.kind ≠ Generated.kindMlsKeyPackage
  · rw [if_pos h1]; constructor
    · intro h; cases h
    · intro h; exact absurd h.1 h1
  · rw [if_neg h1]
    have h1' : ev.kind = Generated.kindMlsKeyPackage := by simpa using h1
    by_cases h2 : kpTagsOk env ev.tags = false
    · rw [if_pos h2]; constructor
      · intro h; cases h
      · intro h; rw [h.2.1] at h2; cases h2
    · rw [if_neg h2]
      have h2' : kpTagsOk env ev.tags = true := by simpa using h2
      by_cases h3 : hasBase64Encoding ev.tags = false
      · rw [if_pos h3]; constructor
        · intro h; cases h
        · intro h; rw [h.2.2.1] at h3; cases h3
      · rw [if_neg h3]
        have h3' : hasBase64Encoding ev.tags = true := by simpa using h3
        have hexact : Generated.kpDeserializeExact = true := by decide
        have hkc : kpContent ev.content = .ok ↔ ev.content = .ok := by
          cases ev.content <;> simp [kpContent, hexact]
        cases hc : kpContent ev.content with
        | notBase64 => simp [← hkc, hc]
        | badMls => simp [← hkc, hc]
        | trailing => simp [← hkc, hc]
        | ok =>
          have hc' : ev.content = .ok := hkc.mp hc
          simp only
          by_cases h4 : ev.credIdentity.length ≠ 32
          · rw [if_pos h4]; constructor
            · intro h; cases h
            · intro h; exact absurd h.2.2.2.2.1 h4
          · rw [if_neg h4]
            have h4' : ev.credIdentity.length = 32 := by simpa using h4
            by_cases h5 : ev.credIdentity ≠ ev.author
            · rw [if_pos h5]; constructor
              · intro h; cases h
              · intro h; exact absurd h.2.2.2.2.2.1 h5
            · rw [if_neg h5]
              have h5' : ev.credIdentity = ev.author := by simpa using h5
              cases h6 : iTagBytes ev.tags with
              | none => simp
              | some b =>
                simp only
                by_cases h7 : b = ev.kpRef
                · rw [if_pos h7]; simp [h1', h2', h3', h5', h7, hc']; rw [← h5']; exact h4'
                · rw [if_neg h7]; constructor
                  · intro h; cases h
                  · intro h; have := h.2.2.2.2.2.2; simp at this; exact absurd this h7

/-! ### welcome rumors -/

theorem wScan_eq (env : Env) : ∀ (tags : List Tag) (r e c : Bool),
    wScan env tags (r, e, c) =
      if tags.any (wTagBad env) then none
      else some (r || tags.any wSetsRelays, e || tags.any wSetsE, c || tags.any wSetsEnc) := by
  intro tags
  induction tags with
  | nil => intro r e c; simp [wScan]
  | cons t ts ih =>
    intro r e c
    unfold wScan
    by_cases hb : wTagBad env t = true
    · simp [hb]
    · have hb' : wTagBad env t = false := by simpa using hb
      simp only [hb', Bool.false_eq_true, if_false, ih, List.any_cons, Bool.false_or, Bool.or_assoc]

theorem wTagBad_false_iff (env : Env) (t : Tag) :
    wTagBad env t = false ↔
      (t.name = .relays → ∀ v ∈ t.vals, (env.relayParse v).isSome = true) ∧
      (t.name = .client → ∃ v, t.content = some v ∧ v ≠ []) ∧
      (t.name = .encoding → t.content = some Generated.encodingTagValue) := by
  unfold wTagBad
  cases hn : t.name <;> simp
  · -- relays
    cases hv : t.vals with
    | nil => simp
    | cons a as => simp
  · -- client
    cases hc : t.content with
    | none => simp
    | some v => simp

end MdkVerif.Tags

namespace MdkVerif.Tags
open MdkVerif.Codec List


/-! ### imeta -/

theorem splitKV_kv (k v : Bytes) (h : ∀ c ∈ k, c ≠ 32) : splitKV (kv k v) = some (k, v) := by
  induction k with
  | nil => simp [kv, splitKV]
  | cons c cs ih =>
    have hc : c ≠ 32 := h c (by simp)
    have := ih (fun x hx => h x (by simp [hx]))
    simp only [kv] at this ⊢
    simp [splitKV, hc, this]

theorem item_url (acc : ImetaAcc) (v : Bytes) : imetaItem acc (kv kUrl v) = some { acc with url := some v } := by
  have hs := splitKV_kv kUrl v (by decide)
  simp [imetaItem, hs]

theorem item_m (acc : ImetaAcc) (v c : Bytes) (h : validateMime v = some c) :
    imetaItem acc (kv kM v) = some { acc with mime := some c } := by
  have hs := splitKV_kv kM v (by decide)
  have n1 : kM ≠ kUrl := by decide
  simp [imetaItem, hs, n1, h]

theorem item_x (acc : ImetaAcc) (b : Bytes) (hb : isBytes b = true) (hl : b.length = 32) :
    imetaItem acc (kv kX (hexEnc b)) = some { acc with hash := some b } := by
  have hs := splitKV_kv kX (hexEnc b) (by decide)
  have n1 : kX ≠ kUrl := by decide
  have n2 : kX ≠ kM := by decide
  simp [imetaItem, hs, n1, n2, hexDec_hexEnc b hb, hl]

theorem item_n (acc : ImetaAcc) (b : Bytes) (hb : isBytes b = true) (hl : b.length = 12) :
    imetaItem acc (kv kN (hexEnc b)) = some { acc with nonce := some b } := by
  have hs := splitKV_kv kN (hexEnc b) (by decide)
  have n1 : kN ≠ kUrl := by decide
  have n2 : kN ≠ kM := by decide
  have n3 : kN ≠ kX := by decide
  simp [imetaItem, hs, n1, n2, n3, hexDec_hexEnc b hb, hl]

theorem item_dim (acc : ImetaAcc) (v : Bytes) (d : Nat × Nat) (h : parseDim v = some d) :
    imetaItem acc (kv kDim v) = some { acc with dims := some d } := by
  have hs := splitKV_kv kDim v (by decide)
  have n1 : kDim ≠ kUrl := by decide
  have n2 : kDim ≠ kM := by decide
  have n3 : kDim ≠ kX := by decide
  have n4 : kDim ≠ kN := by decide
  simp [imetaItem, hs, n1, n2, n3, n4, h]

theorem item_filename (acc : ImetaAcc) (v : Bytes) (h : filenameOk v = true) :
    imetaItem acc (kv kFilename v) = some { acc with filename := some v } := by
  have hs := splitKV_kv kFilename v (by decide)
  have n1 : kFilename ≠ kUrl := by decide
  have n2 : kFilename ≠ kM := by decide
  have n3 : kFilename ≠ kX := by decide
  have n4 : kFilename ≠ kN := by decide
  have n5 : kFilename ≠ kDim := by decide
  simp [imetaItem, hs, n1, n2, n3, n4, n5, h]

theorem item_v (acc : ImetaAcc) (v : Bytes) : imetaItem acc (kv kV v) = some { acc with version := some v } := by
  have hs := splitKV_kv kV v (by decide)
  have n1 : kV ≠ kUrl := by decide
  have n2 : kV ≠ kM := by decide
  have n3 : kV ≠ kX := by decide
  have n4 : kV ≠ kN := by decide
  have n5 : kV ≠ kDim := by decide
  have n6 : kV ≠ kFilename := by decide
  simp [imetaItem, hs, n1, n2, n3, n4, n5, n6]

theorem item_blurhash (acc : ImetaAcc) (v : Bytes) : imetaItem acc (kv kBlurhash v) = some acc := by
  have hs := splitKV_kv kBlurhash v (by decide)
  have n1 : kBlurhash ≠ kUrl := by decide
  have n2 : kBlurhash ≠ kM := by decide
  have n3 : kBlurhash ≠ kX := by decide
  have n4 : kBlurhash ≠ kN := by decide
  have n5 : kBlurhash ≠ kDim := by decide
  have n6 : kBlurhash ≠ kFilename := by decide
  have n7 : kBlurhash ≠ kV := by decide
  simp [imetaItem, hs, n1, n2, n3, n4, n5, n6, n7]

/-- parsing a created tag gives back the media reference -/
theorem imetaParse_create (u : Upload) (url : Bytes)
    (hm : validateMime u.mime = some u.mime) (hf : filenameOk u.filename = true)
    (hx : isBytes u.hash = true ∧ u.hash.length = 32) (hn : isBytes u.nonce = true ∧ u.nonce.length = 12)
    (hd : ∀ w h, u.dims = some (w, h) → parseDim (showNat w ++ 120 :: showNat h) = some (w, h)) :
    imetaParse (imetaCreate u url) = .ok (mediaRefOf u url) := by
  have hver : Generated.defaultSchemeVersion ∈ Generated.supportedSchemeVersions := by decide
  cases hdim : u.dims with
  | none =>
    cases hb : u.blurhash with
    | none =>
      simp [imetaParse, imetaCreate, hdim, hb, imetaLoop, item_url, item_m _ _ _ hm, item_filename _ _ hf,
        item_x _ _ hx.1 hx.2, item_n _ _ hn.1 hn.2, item_v, hver, mediaRefOf]
    | some bl =>
      simp [imetaParse, imetaCreate, hdim, hb, imetaLoop, item_url, item_m _ _ _ hm, item_filename _ _ hf,
        item_x _ _ hx.1 hx.2, item_n _ _ hn.1 hn.2, item_v, item_blurhash, hver, mediaRefOf]
  | some d =>
    obtain ⟨w, h⟩ := d
    have hd' := hd w h hdim
    cases hb : u.blurhash with
    | none =>
      simp [imetaParse, imetaCreate, hdim, hb, imetaLoop, item_url, item_m _ _ _ hm, item_filename _ _ hf,
        item_x _ _ hx.1 hx.2, item_n _ _ hn.1 hn.2, item_v, item_dim _ _ _ hd', hver, mediaRefOf]
    | some bl =>
      simp [imetaParse, imetaCreate, hdim, hb, imetaLoop, item_url, item_m _ _ _ hm, item_filename _ _ hf,
        item_x _ _ hx.1 hx.2, item_n _ _ hn.1 hn.2, item_v, item_dim _ _ _ hd', item_blurhash, hver, mediaRefOf]


/-! ### decimal print / parse -/


def isDig (c : Nat) : Prop := 48 ≤ c ∧ c ≤ 57

theorem digitsRev_digits : ∀ (fuel n : Nat), ∀ c ∈ digitsRev fuel n, isDig c := by
  intro fuel
  induction fuel with
  | zero => intro n c hc; simp [digitsRev] at hc
  | succ f ih =>
    intro n c hc
    unfold digitsRev at hc
    by_cases h : n < 10
    · rw [if_pos h] at hc; simp at hc; subst hc; unfold isDig; omega
    · rw [if_neg h] at hc
      simp only [List.mem_cons] at hc
      rcases hc with rfl | hc
      · unfold isDig; omega
      · exact ih _ c hc

def valRev : Bytes → Nat
  | [] => 0
  | d :: ds => (d - 48) + 10 * valRev ds

theorem valRev_digitsRev : ∀ (fuel n : Nat), n < fuel → valRev (digitsRev fuel n) = n := by
  intro fuel
  induction fuel with
  | zero => intro n h; omega
  | succ f ih =>
    intro n h
    unfold digitsRev
    by_cases c : n < 10
    · rw [if_pos c]; simp [valRev]
    · rw [if_neg c]
      have := ih (n / 10) (by omega)
      simp [valRev, this]; omega

theorem digitsRev_ne_nil (fuel n : Nat) : digitsRev (fuel + 1) n ≠ [] := by
  unfold digitsRev; split <;> simp

theorem readDigits_append : ∀ (a b : Bytes) (acc : Nat),
    readDigits (a ++ b) acc = (readDigits a acc).bind (fun x => readDigits b x) := by
  intro a
  induction a with
  | nil => intro b acc; simp [readDigits]
  | cons c cs ih =>
    intro b acc
    simp only [List.cons_append, readDigits]
    split
    · exact ih b _
    · rfl

theorem readDigits_reverse : ∀ (l : Bytes), (∀ c ∈ l, isDig c) → readDigits l.reverse 0 = some (valRev l) := by
  intro l
  induction l with
  | nil => intro _; simp [readDigits, valRev]
  | cons d ds ih =>
    intro h
    have hd : isDig d := h d (by simp)
    have := ih (fun c hc => h c (by simp [hc]))
    rw [List.reverse_cons, readDigits_append, this]
    unfold isDig at hd
    simp [readDigits, hd, valRev]; omega

theorem showNat_digits (n : Nat) : ∀ c ∈ showNat n, isDig c := by
  intro c hc
  unfold showNat at hc
  exact digitsRev_digits _ _ c (by simpa using hc)

theorem readU32_showNat (n : Nat) (h : n < 4294967296) : readU32 (showNat n) = some n := by
  have hd := digitsRev_digits (n + 1) n
  have hne : showNat n ≠ [] := by
    unfold showNat; simp [digitsRev_ne_nil]
  have hread : readDigits (showNat n) 0 = some n := by
    unfold showNat
    rw [readDigits_reverse _ hd, valRev_digitsRev _ _ (by omega)]
  match hs : showNat n with
  | [] => exact absurd hs hne
  | c :: r =>
    have hc : isDig c := showNat_digits n c (by rw [hs]; simp)
    have hne43 : c ≠ 43 := by unfold isDig at hc; omega
    have hsp : stripPlus (c :: r) = c :: r := by
      unfold stripPlus
      split
      · next heq => simp at heq; exact absurd heq.1 hne43
      · rfl
    rw [hs] at hread
    simp [readU32, hsp, hread, h]

theorem splitX_nox : ∀ (b : Bytes), (∀ c ∈ b, c ≠ 120) → splitX b = [b] := by
  intro b
  induction b with
  | nil => intro _; rfl
  | cons c cs ih =>
    intro h
    have := ih (fun x hx => h x (by simp [hx]))
    have hc : c ≠ 120 := h c (by simp)
    simp [splitX, this, hc]

theorem splitX_one : ∀ (a b : Bytes), (∀ c ∈ a, c ≠ 120) → (∀ c ∈ b, c ≠ 120) →
    splitX (a ++ 120 :: b) = [a, b] := by
  intro a
  induction a with
  | nil => intro b _ hb; simp [splitX, splitX_nox b hb]
  | cons c cs ih =>
    intro b ha hb
    have := ih b (fun x hx => ha x (by simp [hx])) hb
    have hc : c ≠ 120 := ha c (by simp)
    simp [splitX, this, hc]

theorem parseDim_show (w h : Nat) (hw : w < 4294967296) (hh : h < 4294967296) :
    parseDim (showNat w ++ 120 :: showNat h) = some (w, h) := by
  have d1 : ∀ c ∈ showNat w, c ≠ 120 := fun c hc => by have := showNat_digits w c hc; unfold isDig at this; omega
  have d2 : ∀ c ∈ showNat h, c ≠ 120 := fun c hc => by have := showNat_digits h c hc; unfold isDig at this; omega
  simp [parseDim, splitX_one _ _ d1 d2, readU32_showNat w hw, readU32_showNat h hh]


/-! ### imeta loop invariant -/


/-- every field the parser has collected so far comes from an item of the tag and passed its check -/
structure ImetaInv (all : List Bytes) (acc : ImetaAcc) : Prop where
  url : ∀ u, acc.url = some u → ∃ it ∈ all, splitKV it = some (kUrl, u)
  mime : ∀ m, acc.mime = some m → ∃ it ∈ all, ∃ raw, splitKV it = some (kM, raw) ∧ validateMime raw = some m
  filename : ∀ f, acc.filename = some f → filenameOk f = true ∧ ∃ it ∈ all, splitKV it = some (kFilename, f)
  hash : ∀ h, acc.hash = some h → h.length = 32 ∧ ∃ it ∈ all, ∃ v, splitKV it = some (kX, v) ∧ hexDec v = some h
  nonce : ∀ n, acc.nonce = some n → n.length = 12 ∧ ∃ it ∈ all, ∃ v, splitKV it = some (kN, v) ∧ hexDec v = some n
  version : ∀ v, acc.version = some v → ∃ it ∈ all, splitKV it = some (kV, v)

theorem imetaInv_empty (all : List Bytes) : ImetaInv all {} := by
  constructor <;> intro _ h <;> simp at h

theorem imetaItem_inv (all : List Bytes) (acc acc' : ImetaAcc) (it : Bytes) (hit : it ∈ all)
    (hinv : ImetaInv all acc) (h : imetaItem acc it = some acc') : ImetaInv all acc' := by
  unfold imetaItem at h
  cases hs : splitKV it with
  | none => simp [hs] at h; subst h; exact hinv
  | some kvp =>
    obtain ⟨k, v⟩ := kvp
    simp only [hs] at h
    by_cases c1 : k = kUrl
    · rw [if_pos c1] at h; cases h; subst c1
      exact ⟨fun u hu => by simp at hu; subst hu; exact ⟨it, hit, hs⟩,
             hinv.mime, hinv.filename, hinv.hash, hinv.nonce, hinv.version⟩
    · rw [if_neg c1] at h
      by_cases c2 : k = kM
      · rw [if_pos c2] at h; subst c2
        cases hm : validateMime v with
        | none => simp [hm] at h
        | some c =>
          simp only [hm] at h; cases h
          exact ⟨hinv.url, fun m hmm => by simp at hmm; subst hmm; exact ⟨it, hit, v, hs, hm⟩,
                 hinv.filename, hinv.hash, hinv.nonce, hinv.version⟩
      · rw [if_neg c2] at h
        by_cases c3 : k = kX
        · rw [if_pos c3] at h; subst c3
          cases hd : hexDec v with
          | none => simp [hd] at h
          | some b =>
            simp only [hd] at h
            by_cases hl : b.length = 32
            · rw [if_pos hl] at h; cases h
              exact ⟨hinv.url, hinv.mime, hinv.filename,
                     fun x hx => by simp at hx; subst hx; exact ⟨hl, it, hit, v, hs, hd⟩, hinv.nonce, hinv.version⟩
            · rw [if_neg hl] at h; cases h
        · rw [if_neg c3] at h
          by_cases c4 : k = kN
          · rw [if_pos c4] at h; subst c4
            cases hd : hexDec v with
            | none => simp [hd] at h
            | some b =>
              simp only [hd] at h
              by_cases hl : b.length = 12
              · rw [if_pos hl] at h; cases h
                exact ⟨hinv.url, hinv.mime, hinv.filename, hinv.hash,
                       fun x hx => by simp at hx; subst hx; exact ⟨hl, it, hit, v, hs, hd⟩, hinv.version⟩
              · rw [if_neg hl] at h; cases h
          · rw [if_neg c4] at h
            by_cases c5 : k = kDim
            · rw [if_pos c5] at h
              cases hp : parseDim v with
              | none => simp [hp] at h; subst h; exact hinv
              | some d =>
                simp only [hp] at h; cases h
                exact ⟨hinv.url, hinv.mime, hinv.filename, hinv.hash, hinv.nonce, hinv.version⟩
            · rw [if_neg c5] at h
              by_cases c6 : k = kFilename
              · rw [if_pos c6] at h; subst c6
                by_cases hf : filenameOk v = true
                · rw [if_pos hf] at h; cases h
                  exact ⟨hinv.url, hinv.mime, fun f hff => by simp at hff; subst hff; exact ⟨hf, it, hit, hs⟩,
                         hinv.hash, hinv.nonce, hinv.version⟩
                · rw [if_neg hf] at h; cases h
              · rw [if_neg c6] at h
                by_cases c7 : k = kV
                · rw [if_pos c7] at h; cases h; subst c7
                  exact ⟨hinv.url, hinv.mime, hinv.filename, hinv.hash, hinv.nonce,
                         fun x hx => by simp at hx; subst hx; exact ⟨it, hit, hs⟩⟩
                · rw [if_neg c7] at h; cases h; exact hinv

theorem imetaLoop_inv (all : List Bytes) : ∀ (l : List Bytes) (acc acc' : ImetaAcc), (∀ it ∈ l, it ∈ all) →
    ImetaInv all acc → imetaLoop l acc = some acc' → ImetaInv all acc' := by
  intro l
  induction l with
  | nil => intro acc acc' _ hinv h; simp [imetaLoop] at h; subst h; exact hinv
  | cons it r ih =>
    intro acc acc' hsub hinv h
    unfold imetaLoop at h
    cases hi : imetaItem acc it with
    | none => simp [hi] at h
    | some a =>
      simp only [hi] at h
      exact ih a acc' (fun x hx => hsub x (by simp [hx]))
        (imetaItem_inv all acc a it (hsub it (by simp)) hinv hi) h

/-- what an accepted imeta tag must contain -/
theorem imetaParse_ok (t : Tag) (r : MediaRef) (h : imetaParse t = .ok r) :
    t.name = .imeta ∧ 6 ≤ t.vals.length ∧ r.version ∈ Generated.supportedSchemeVersions ∧
    r.hash.length = 32 ∧ r.nonce.length = 12 ∧ filenameOk r.filename = true ∧
    (∃ it ∈ t.vals, splitKV it = some (kUrl, r.url)) ∧
    (∃ it ∈ t.vals, ∃ raw, splitKV it = some (kM, raw) ∧ validateMime raw = some r.mime) ∧
    (∃ it ∈ t.vals, splitKV it = some (kFilename, r.filename)) ∧
    (∃ it ∈ t.vals, ∃ v, splitKV it = some (kX, v) ∧ hexDec v = some r.hash) ∧
    (∃ it ∈ t.vals, ∃ v, splitKV it = some (kN, v) ∧ hexDec v = some r.nonce) ∧
    (∃ it ∈ t.vals, splitKV it = some (kV, r.version)) := by
  unfold imetaParse at h
  by_cases hn : t.name ≠ .imeta
  · rw [if_pos hn] at h; cases h
  · rw [if_neg hn] at h
    by_cases hl : t.vals.length + 1 < 7
    · rw [if_pos hl] at h; cases h
    · rw [if_neg hl] at h
      cases hloop : imetaLoop t.vals {} with
      | none => simp [hloop] at h
      | some acc =>
        have inv := imetaLoop_inv t.vals t.vals {} acc (fun _ hx => hx) (imetaInv_empty _) hloop
        simp only [hloop] at h
        cases h1 : acc.url with
        | none => simp [h1] at h
        | some url =>
        cases h2 : acc.mime with
        | none => simp [h1, h2] at h
        | some mime =>
        cases h3 : acc.hash with
        | none => simp [h1, h2, h3] at h
        | some hash =>
        cases h4 : acc.filename with
        | none => simp [h1, h2, h3, h4] at h
        | some filename =>
        cases h5 : acc.version with
        | none => simp [h1, h2, h3, h4, h5] at h
        | some version =>
          simp only [h1, h2, h3, h4, h5] at h
          by_cases hv : (!(Generated.supportedSchemeVersions.contains version)) = true
          · rw [if_pos hv] at h; cases h
          · rw [if_neg hv] at h
            cases h6 : acc.nonce with
            | none => simp [h6] at h
            | some nonce =>
              simp only [h6] at h
              cases h
              have hv' : version ∈ Generated.supportedSchemeVersions := by simpa using hv
              exact ⟨by simpa using hn, by omega, hv', (inv.hash hash h3).1, (inv.nonce nonce h6).1,
                     (inv.filename filename h4).1, inv.url url h1, inv.mime mime h2, (inv.filename filename h4).2,
                     (inv.hash hash h3).2, (inv.nonce nonce h6).2, inv.version version h5⟩


end MdkVerif.Tags
