import MdkVerif.Model.Tags
import MdkVerif.Proofs.Codec
/-
  Helper lemmas for Props/C15 (tags, hex, from_raw inversion).
-/
namespace MdkVerif.Codec
open List

/-! ### `from_raw` inversion -/

theorem optFixed_ok (n : Nat) (e : DecErr) (b : Bytes) (o : Option Bytes) (h : optFixed n e b = .ok o) :
    (∀ c, o = some c → c.length = n) ∧ (b.length = 0 ∨ b.length = n) := by
  unfold optFixed at h
  by_cases h1 : b.isEmpty = true
  · rw [if_pos h1] at h; cases h
    have : b = [] := by simpa using h1
    subst this; simp
  · rw [if_neg h1] at h
    by_cases h2 : b.length = n
    · rw [if_pos h2] at h; cases h
      exact ⟨fun c hc => by cases hc; exact h2, Or.inr h2⟩
    · rw [if_neg h2] at h; cases h

theorem fromRaw_inv (env : Env) (raw : Raw) (x : Ext) (h : fromRaw env raw = .ok x) :
    raw.version ≠ 0 ∧ x.version = raw.version ∧
    optFixed 32 .hashLen raw.ih = .ok x.ih ∧ optFixed 32 .keyLen raw.ik = .ok x.ik ∧
    optFixed 12 .nonceLen raw.inn = .ok x.inn ∧ optFixed 32 .uploadLen raw.iu = .ok x.iu := by
  unfold fromRaw at h
  by_cases hv : raw.version = 0
  · rw [if_pos hv] at h; cases h
  · rw [if_neg hv] at h
    cases h0 : relaysFrom env raw.relays [] with
    | error e => simp [h0] at h
    | ok rl =>
    cases h1 : optFixed 32 .hashLen raw.ih with
    | error e => simp [h0, h1] at h
    | ok a1 =>
    cases h2 : optFixed 32 .keyLen raw.ik with
    | error e => simp [h0, h1, h2] at h
    | ok a2 =>
    cases h3 : optFixed 12 .nonceLen raw.inn with
    | error e => simp [h0, h1, h2, h3] at h
    | ok a3 =>
    cases h4 : optFixed 32 .uploadLen raw.iu with
    | error e => simp [h0, h1, h2, h3, h4] at h
    | ok a4 =>
      simp only [h0, h1, h2, h3, h4] at h
      by_cases u1 : env.utf8 raw.name = false
      · rw [if_pos u1] at h; cases h
      · rw [if_neg u1] at h
        by_cases u2 : env.utf8 raw.desc = false
        · rw [if_pos u2] at h; cases h
        · rw [if_neg u2] at h
          cases h
          exact ⟨hv, rfl, rfl, rfl, rfl, rfl⟩

theorem fromRaw_ok_version (env : Env) (raw : Raw) (x : Ext) (h : fromRaw env raw = .ok x) : x.version ≠ 0 := by
  obtain ⟨h1, h2, _⟩ := fromRaw_inv env raw x h
  rw [h2]; exact h1

theorem fromRaw_ok_lengths (env : Env) (raw : Raw) (x : Ext) (h : fromRaw env raw = .ok x) :
    (∀ b, x.ih = some b → b.length = 32) ∧ (∀ b, x.ik = some b → b.length = 32) ∧
    (∀ b, x.inn = some b → b.length = 12) ∧ (∀ b, x.iu = some b → b.length = 32) := by
  obtain ⟨_, _, h1, h2, h3, h4⟩ := fromRaw_inv env raw x h
  exact ⟨(optFixed_ok _ _ _ _ h1).1, (optFixed_ok _ _ _ _ h2).1, (optFixed_ok _ _ _ _ h3).1, (optFixed_ok _ _ _ _ h4).1⟩

theorem fromRaw_bad_len (env : Env) (raw : Raw) (x : Ext)
    (hbad : (raw.ih.length ≠ 0 ∧ raw.ih.length ≠ 32) ∨ (raw.ik.length ≠ 0 ∧ raw.ik.length ≠ 32) ∨
            (raw.inn.length ≠ 0 ∧ raw.inn.length ≠ 12) ∨ (raw.iu.length ≠ 0 ∧ raw.iu.length ≠ 32)) :
    fromRaw env raw ≠ .ok x := by
  intro h
  obtain ⟨_, _, h1, h2, h3, h4⟩ := fromRaw_inv env raw x h
  have a1 := (optFixed_ok _ _ _ _ h1).2
  have a2 := (optFixed_ok _ _ _ _ h2).2
  have a3 := (optFixed_ok _ _ _ _ h3).2
  have a4 := (optFixed_ok _ _ _ _ h4).2
  omega

/-! ### hex -/

theorem hexVal_hexDigit (n : Nat) (h : n < 16) : hexVal (hexDigit n) = some n := by
  unfold hexDigit hexVal
  by_cases c : n < 10
  · rw [if_pos c, if_pos (by omega)]; congr 1; omega
  · rw [if_neg c, if_neg (by omega), if_pos (by omega)]; congr 1; omega

theorem hexDec_hexEnc (b : Bytes) (hb : isBytes b = true) : hexDec (hexEnc b) = some b := by
  induction b with
  | nil => rfl
  | cons x xs ih =>
    simp only [isBytes, List.all_cons, Bool.and_eq_true, decide_eq_true_eq] at hb
    have hx := hb.1
    have ih' := ih (by simpa [isBytes] using hb.2)
    have h1 := hexVal_hexDigit (x / 16) (by omega)
    have h2 := hexVal_hexDigit (x % 16) (by omega)
    have h3 : x / 16 * 16 + x % 16 = x := by omega
    simp [hexEnc, hexDec, h1, h2, ih', h3]

theorem hexEnc_length (b : Bytes) : (hexEnc b).length = 2 * b.length := by
  induction b with
  | nil => rfl
  | cons x xs ih => simp [hexEnc, ih]; omega

theorem hexDec_length : ∀ (s b : Bytes), hexDec s = some b → s.length = 2 * b.length
  | [], b, h => by simp [hexDec] at h; subst h; rfl
  | [_], b, h => by simp [hexDec] at h
  | a :: c :: r, b, h => by
    unfold hexDec at h
    cases h1 : hexVal a with
    | none => simp [h1] at h
    | some x =>
      cases h2 : hexVal c with
      | none => simp [h1, h2] at h
      | some y =>
        cases h3 : hexDec r with
        | none => simp [h1, h2, h3] at h
        | some t =>
          simp [h1, h2, h3] at h
          subst h
          have := hexDec_length r t h3
          simp [this]; omega

end MdkVerif.Codec

namespace MdkVerif.Tags
open MdkVerif.Codec List

theorem extractGid_ok (tags : List Tag) (g : Bytes) (h : extractGid tags = .ok g) :
    g.length = 32 ∧ ∃ t v, tags.filter (fun t => t.name == .h) = [t] ∧ t.content = some v ∧
      v.length = 64 ∧ hexDec v = some g := by
  unfold extractGid at h
  match hf : tags.filter (fun t => t.name == .h), h with
  | [], h => simp [hf] at h
  | _ :: _ :: _, h => simp [hf] at h
  | [t], h =>
    simp only [hf] at h
    cases hc : t.content with
    | none => simp [hc] at h
    | some v =>
      simp only [hc] at h
      by_cases hl : v.length ≠ 64
      · rw [if_pos hl] at h; cases h
      · rw [if_neg hl] at h
        cases hd : hexDec v with
        | none => simp [hd] at h
        | some b =>
          simp only [hd] at h
          by_cases hb : b.length = 32
          · rw [if_pos hb] at h; cases h
            exact ⟨hb, t, v, hf, hc, by omega, hd⟩
          · rw [if_neg hb] at h; cases h

end MdkVerif.Tags

namespace MdkVerif.Tags
open MdkVerif.Codec List

/-! ### key-package tag validators -/

theorem isHexU16_iff (v : Bytes) :
    isHexU16 v = true ↔ ∃ c d e f, v = [48, 120, c, d, e, f] ∧ isHexDigit c = true ∧ isHexDigit d = true ∧
      isHexDigit e = true ∧ isHexDigit f = true := by
  constructor
  · intro h
    match v, h with
    | [a, b, c, d, e, f], h =>
      simp only [isHexU16, Bool.and_eq_true, beq_iff_eq] at h
      obtain ⟨⟨⟨⟨⟨rfl, rfl⟩, h1⟩, h2⟩, h3⟩, h4⟩ := h
      exact ⟨c, d, e, f, rfl, h1, h2, h3, h4⟩
  · rintro ⟨c, d, e, f, rfl, h1, h2, h3, h4⟩
    simp [isHexU16, h1, h2, h3, h4]

theorem lowerAscii_eq_digit (c k : Nat) (hk : 48 ≤ k ∧ k ≤ 57) (h : lowerAscii c = k) : c = k := by
  unfold lowerAscii at h
  split at h <;> omega

theorem csOk_iff (t : Tag) : csOk t = true ↔ t.content = some Generated.kpCiphersuiteTag := by
  have hcs : Generated.kpCiphersuiteTag = [48, 120, 48, 48, 48, 49] := by decide
  constructor
  · intro h
    unfold csOk at h
    cases hc : t.content with
    | none => simp [hc] at h
    | some v =>
      simp only [hc, Bool.and_eq_true, beq_iff_eq] at h
      obtain ⟨c, d, e, f, rfl, _⟩ := (isHexU16_iff v).mp h.1
      have h2 := h.2
      rw [hcs] at h2
      simp only [lower, List.map_cons, List.map_nil, List.cons.injEq, and_true] at h2
      obtain ⟨_, _, hc', hd, he, hf⟩ := h2
      have e1 : lowerAscii 48 = 48 := by decide
      have e2 : lowerAscii 49 = 49 := by decide
      rw [e1] at hc' hd he; rw [e2] at hf
      rw [lowerAscii_eq_digit c 48 (by omega) hc', lowerAscii_eq_digit d 48 (by omega) hd,
          lowerAscii_eq_digit e 48 (by omega) he, lowerAscii_eq_digit f 49 (by omega) hf, hcs]
  · intro h
    unfold csOk
    rw [h]
    decide

theorem extOk_iff (t : Tag) :
    extOk t = true ↔ t.vals ≠ [] ∧ (∀ v ∈ t.vals, isHexU16 v = true) ∧
      ∀ r ∈ Generated.kpRequiredExtensionTags, ∃ v ∈ t.vals, lower v = r := by
  unfold extOk
  simp only [Bool.and_eq_true, Bool.not_eq_true', List.isEmpty_eq_false_iff, List.all_eq_true,
    List.contains_iff_mem, List.mem_map, and_assoc]

theorem relaysOk_iff (env : Env) (t : Tag) :
    relaysOk env t = true ↔ t.vals ≠ [] ∧ ∀ v ∈ t.vals, (env.relayParse v).isSome = true := by
  unfold relaysOk
  simp only [Bool.and_eq_true, Bool.not_eq_true', List.isEmpty_eq_false_iff, List.all_eq_true]

theorem iOk_iff (t : Tag) :
    iOk t = true ↔ ∃ v, t.vals = [v] ∧ v ≠ [] ∧ (hexDec v).isSome = true := by
  unfold iOk
  constructor
  · intro h
    match hv : t.vals, h with
    | [v], h =>
      simp only [Bool.and_eq_true, Bool.not_eq_true', List.isEmpty_eq_false_iff] at h
      exact ⟨v, rfl, h.1, h.2⟩
  · rintro ⟨v, hv, h1, h2⟩
    simp [hv, h1, h2]

/-- the explicit acceptance predicate of `validate_key_package_tags` -/
structure KpTagsSpec (env : Env) (tags : List Tag) : Prop where
  /-- the first `mls_protocol_version` tag carries exactly "1.0" -/
  pv : ∃ t, firstTag .protoVer tags = some t ∧ t.content = some Generated.kpProtocolVersion
  /-- the first `mls_ciphersuite` tag carries exactly "0x0001" (the case-insensitive comparison in the
      source cannot accept anything else: the prefix `0x` is matched exactly and the digits have no case) -/
  cs : ∃ t, firstTag .ciphersuite tags = some t ∧ t.content = some Generated.kpCiphersuiteTag
  /-- the first `mls_extensions` tag: ≥ 1 value, all of the form 0xHHHH, containing every required one
      up to the case of the hex digits -/
  ext : ∃ t, firstTag .extensions tags = some t ∧ t.vals ≠ [] ∧ (∀ v ∈ t.vals, isHexU16 v = true) ∧
          ∀ r ∈ Generated.kpRequiredExtensionTags, ∃ v ∈ t.vals, lower v = r
  /-- the first `relays` tag: ≥ 1 value, every value a relay URL -/
  relays : ∃ t, firstTag .relays tags = some t ∧ t.vals ≠ [] ∧ ∀ v ∈ t.vals, (env.relayParse v).isSome = true
  /-- the first `i` tag: exactly one value, non-empty, hex -/
  i : ∃ t v, firstTag .i tags = some t ∧ t.vals = [v] ∧ v ≠ [] ∧ (hexDec v).isSome = true

theorem kpTagsOk_iff (env : Env) (tags : List Tag) : kpTagsOk env tags = true ↔ KpTagsSpec env tags := by
  unfold kpTagsOk
  constructor
  · intro h
    cases h1 : firstTag .protoVer tags with
    | none => simp [h1] at h
    | some pv =>
    cases h2 : firstTag .ciphersuite tags with
    | none => simp [h1, h2] at h
    | some cs =>
    cases h3 : firstTag .extensions tags with
    | none => simp [h1, h2, h3] at h
    | some ext =>
    cases h4 : firstTag .relays tags with
    | none => simp [h1, h2, h3, h4] at h
    | some rl =>
    cases h5 : firstTag .i tags with
    | none => simp [h1, h2, h3, h4, h5] at h
    | some it =>
      simp only [h1, h2, h3, h4, h5, Bool.and_eq_true] at h
      obtain ⟨⟨⟨⟨a, b⟩, c⟩, d⟩, e⟩ := h
      have a' : pv.content = some Generated.kpProtocolVersion := by simpa [pvOk] using a
      obtain ⟨v, e1, e2, e3⟩ := (iOk_iff it).mp e
      exact ⟨⟨pv, h1, a'⟩, ⟨cs, h2, (csOk_iff cs).mp b⟩, ⟨ext, h3, (extOk_iff ext).mp c⟩,
             ⟨rl, h4, (relaysOk_iff env rl).mp d⟩, ⟨it, v, h5, e1, e2, e3⟩⟩
  · rintro ⟨⟨pv, h1, a⟩, ⟨cs, h2, b⟩, ⟨ext, h3, c⟩, ⟨rl, h4, d⟩, ⟨it, v, h5, e⟩⟩
    have a' : pvOk pv = true := by simp [pvOk, a]
    simp only [h1, h2, h3, h4, h5, a', (csOk_iff cs).mpr b, (extOk_iff ext).mpr c,
      (relaysOk_iff env rl).mpr d, (iOk_iff it).mpr ⟨v, e⟩, Bool.and_self]

theorem parseKp_ok_iff (env : Env) (ev : KpEvent) :
    parseKp env ev = .ok ↔
      ev.kind = Generated.kindMlsKeyPackage ∧ kpTagsOk env ev.tags = true ∧ hasBase64Encoding ev.tags = true ∧
      ev.content = .ok ∧ ev.credIdentity.length = 32 ∧ ev.credIdentity = ev.author ∧
      iTagBytes ev.tags = some ev.kpRef := by
  unfold parseKp
  by_cases h1 : ev.kind ≠ Generated.kindMlsKeyPackage
  · rw [if_pos h1]; constructor
    · intro h; cases h
    · intro h; exact absurd h.1 h1
  · rw [if_neg h1]
    have h1' : ev.kind = Generated.kindMlsKeyPackage := by simpa using h1
    by_cases h2 : kpTagsOk env ev.tags = false
    · rw [if_pos h2]; constructor
      · intro h; cases h
      · intro h; rw [h.2.1] at h2; cases h2
    · rw [if_neg h2]
      have h2' : kpTagsOk env ev.tags = true := by simpa using h2
      by_cases h3 : hasBase64Encoding ev.tags = false
      · rw [if_pos h3]; constructor
        · intro h; cases h
        · intro h; rw [h.2.2.1] at h3; cases h3
      · rw [if_neg h3]
        have h3' : hasBase64Encoding ev.tags = true := by simpa using h3
        cases hc : ev.content with
        | notBase64 => simp
        | badMls => simp
        | ok =>
          simp only
          by_cases h4 : ev.credIdentity.length ≠ 32
          · rw [if_pos h4]; constructor
            · intro h; cases h
            · intro h; exact absurd h.2.2.2.2.1 h4
          · rw [if_neg h4]
            have h4' : ev.credIdentity.length = 32 := by simpa using h4
            by_cases h5 : ev.credIdentity ≠ ev.author
            · rw [if_pos h5]; constructor
              · intro h; cases h
              · intro h; exact absurd h.2.2.2.2.2.1 h5
            · rw [if_neg h5]
              have h5' : ev.credIdentity = ev.author := by simpa using h5
              cases h6 : iTagBytes ev.tags with
              | none => simp
              | some b =>
                simp only
                by_cases h7 : b = ev.kpRef
                · rw [if_pos h7]; simp [h1', h2', h3', h5', h7]; rw [← h5']; exact h4'
                · rw [if_neg h7]; constructor
                  · intro h; cases h
                  · intro h; have := h.2.2.2.2.2.2; simp at this; exact absurd this h7

/-! ### welcome rumors -/

theorem wScan_eq (env : Env) : ∀ (tags : List Tag) (r e c : Bool),
    wScan env tags (r, e, c) =
      if tags.any (wTagBad env) then none
      else some (r || tags.any wSetsRelays, e || tags.any wSetsE, c || tags.any wSetsEnc) := by
  intro tags
  induction tags with
  | nil => intro r e c; simp [wScan]
  | cons t ts ih =>
    intro r e c
    unfold wScan
    by_cases hb : wTagBad env t = true
    · simp [hb]
    · have hb' : wTagBad env t = false := by simpa using hb
      simp only [hb', Bool.false_eq_true, if_false, ih, List.any_cons, Bool.false_or, Bool.or_assoc]

theorem wTagBad_false_iff (env : Env) (t : Tag) :
    wTagBad env t = false ↔
      (t.name = .relays → ∀ v ∈ t.vals, (env.relayParse v).isSome = true) ∧
      (t.name = .client → ∃ v, t.content = some v ∧ v ≠ []) ∧
      (t.name = .encoding → t.content = some Generated.encodingTagValue) := by
  unfold wTagBad
  cases hn : t.name <;> simp
  · -- relays
    cases hv : t.vals with
    | nil => simp
    | cons a as => simp
  · -- client
    cases hc : t.content with
    | none => simp
    | some v => simp

end MdkVerif.Tags
