import MdkVerif.Model.Tags
import MdkVerif.Proofs.Codec
/-
  Helper lemmas for Props/C15 (tags, hex, from_raw inversion).
-/
namespace MdkVerif.Codec
open List

/-! ### `from_raw` inversion -/

theorem optFixed_ok (n : Nat) (e : DecErr) (b : Bytes) (o : Option Bytes) (h : optFixed n e b = .ok o) :
    (∀ c, o = some c → c.length = n) ∧ (b.length = 0 ∨ b.length = n) := by
  unfold optFixed at h
  by_cases h1 : b.isEmpty = true
  · rw [if_pos h1] at h; cases h
    have : b = [] := by simpa using h1
    subst this; simp
  · rw [if_neg h1] at h
    by_cases h2 : b.length = n
    · rw [if_pos h2] at h; cases h
      exact ⟨fun c hc => by cases hc; exact h2, Or.inr h2⟩
    · rw [if_neg h2] at h; cases h

theorem fromRaw_inv (env : Env) (raw : Raw) (x : Ext) (h : fromRaw env raw = .ok x) :
    raw.version ≠ 0 ∧ x.version = raw.version ∧
    optFixed 32 .hashLen raw.ih = .ok x.ih ∧ optFixed 32 .keyLen raw.ik = .ok x.ik ∧
    optFixed 12 .nonceLen raw.inn = .ok x.inn ∧ optFixed 32 .uploadLen raw.iu = .ok x.iu := by
  unfold fromRaw at h
  by_cases hv : raw.version = 0
  · rw [if_pos hv] at h; cases h
  · rw [if_neg hv] at h
    cases h0 : relaysFrom env raw.relays [] with
    | error e => simp [h0] at h
    | ok rl =>
    cases h1 : optFixed 32 .hashLen raw.ih with
    | error e => simp [h0, h1] at h
    | ok a1 =>
    cases h2 : optFixed 32 .keyLen raw.ik with
    | error e => simp [h0, h1, h2] at h
    | ok a2 =>
    cases h3 : optFixed 12 .nonceLen raw.inn with
    | error e => simp [h0, h1, h2, h3] at h
    | ok a3 =>
    cases h4 : optFixed 32 .uploadLen raw.iu with
    | error e => simp [h0, h1, h2, h3, h4] at h
    | ok a4 =>
      simp only [h0, h1, h2, h3, h4] at h
      by_cases u1 : env.utf8 raw.name = false
      · rw [if_pos u1] at h; cases h
      · rw [if_neg u1] at h
        by_cases u2 : env.utf8 raw.desc = false
        · rw [if_pos u2] at h; cases h
        · rw [if_neg u2] at h
          cases h
          exact ⟨hv, rfl, rfl, rfl, rfl, rfl⟩

theorem fromRaw_ok_version (env : Env) (raw : Raw) (x : Ext) (h : fromRaw env raw = .ok x) : x.version ≠ 0 := by
  obtain ⟨h1, h2, _⟩ := fromRaw_inv env raw x h
  rw [h2]; exact h1

theorem fromRaw_ok_lengths (env : Env) (raw : Raw) (x : Ext) (h : fromRaw env raw = .ok x) :
    (∀ b, x.ih = some b → b.length = 32) ∧ (∀ b, x.ik = some b → b.length = 32) ∧
    (∀ b, x.inn = some b → b.length = 12) ∧ (∀ b, x.iu = some b → b.length = 32) := by
  obtain ⟨_, _, h1, h2, h3, h4⟩ := fromRaw_inv env raw x h
  exact ⟨(optFixed_ok _ _ _ _ h1).1, (optFixed_ok _ _ _ _ h2).1, (optFixed_ok _ _ _ _ h3).1, (optFixed_ok _ _ _ _ h4).1⟩

theorem fromRaw_bad_len (env : Env) (raw : Raw) (x : Ext)
    (hbad : (raw.ih.length ≠ 0 ∧ raw.ih.length ≠ 32) ∨ (raw.ik.length ≠ 0 ∧ raw.ik.length ≠ 32) ∨
            (raw.inn.length ≠ 0 ∧ raw.inn.length ≠ 12) ∨ (raw.iu.length ≠ 0 ∧ raw.iu.length ≠ 32)) :
    fromRaw env raw ≠ .ok x := by
  intro h
  obtain ⟨_, _, h1, h2, h3, h4⟩ := fromRaw_inv env raw x h
  have a1 := (optFixed_ok _ _ _ _ h1).2
  have a2 := (optFixed_ok _ _ _ _ h2).2
  have a3 := (optFixed_ok _ _ _ _ h3).2
  have a4 := (optFixed_ok _ _ _ _ h4).2
  omega

/-! ### hex -/

theorem hexVal_hexDigit (n : Nat) (h : n < 16) : hexVal (hexDigit n) = some n := by
  unfold hexDigit hexVal
  by_cases c : n < 10
  · rw [if_pos c, if_pos (by omega)]; congr 1; omega
  · rw [if_neg c, if_neg (by omega), if_pos (by omega)]; congr 1; omega

theorem hexDec_hexEnc (b : Bytes) (hb : isBytes b = true) : hexDec (hexEnc b) = some b := by
  induction b with
  | nil => rfl
  | cons x xs ih =>
    simp only [isBytes, List.all_cons, Bool.and_eq_true, decide_eq_true_eq] at hb
    have hx := hb.1
    have ih' := ih (by simpa [isBytes] using hb.2)
    have h1 := hexVal_hexDigit (x / 16) (by omega)
    have h2 := hexVal_hexDigit (x % 16) (by omega)
    have h3 : x / 16 * 16 + x % 16 = x := by omega
    simp [hexEnc, hexDec, h1, h2, ih', h3]

theorem hexEnc_length (b : Bytes) : (hexEnc b).length = 2 * b.length := by
  induction b with
  | nil => rfl
  | cons x xs ih => simp [hexEnc, ih]; omega

theorem hexDec_length : ∀ (s b : Bytes), hexDec s = some b → s.length = 2 * b.length
  | [], b, h => by simp [hexDec] at h; subst h; rfl
  | [_], b, h => by simp [hexDec] at h
  | a :: c :: r, b, h => by
    unfold hexDec at h
    cases h1 : hexVal a with
    | none => simp [h1] at h
    | some x =>
      cases h2 : hexVal c with
      | none => simp [h1, h2] at h
      | some y =>
        cases h3 : hexDec r with
        | none => simp [h1, h2, h3] at h
        | some t =>
          simp [h1, h2, h3] at h
          subst h
          have := hexDec_length r t h3
          simp [this]; omega

end MdkVerif.Codec

namespace MdkVerif.Tags
open MdkVerif.Codec List

theorem extractGid_ok (tags : List Tag) (g : Bytes) (h : extractGid tags = .ok g) :
    g.length = 32 ∧ ∃ t v, tags.filter (fun t => t.name == .h) = [t] ∧ t.content = some v ∧
      v.length = 64 ∧ hexDec v = some g := by
  unfold extractGid at h
  match hf : tags.filter (fun t => t.name == .h), h with
  | [], h => simp [hf] at h
  | _ :: _ :: _, h => simp [hf] at h
  | [t], h =>
    simp only [hf] at h
    cases hc : t.content with
    | none => simp [hc] at h
    | some v =>
      simp only [hc] at h
      by_cases hl : v.length ≠ 64
      · rw [if_pos hl] at h; cases h
      · rw [if_neg hl] at h
        cases hd : hexDec v with
        | none => simp [hd] at h
        | some b =>
          simp only [hd] at h
          by_cases hb : b.length = 32
          · rw [if_pos hb] at h; cases h
            exact ⟨hb, t, v, hf, hc, by omega, hd⟩
          · rw [if_neg hb] at h; cases h

end MdkVerif.Tags
