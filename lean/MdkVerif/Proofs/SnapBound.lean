import MdkVerif.Model.Snapshots
import MdkVerif.Proofs.Store
import MdkVerif.Proofs.Sort
import MdkVerif.Proofs.Refine
/-
  MdkVerif.Proofs.SnapBound — lemmas for the bound on STORED snapshots (C20): the names stored for a
  group are duplicate-free and contained in the manager's queue of that group.
-/
namespace MdkVerif.Snapshots
open MdkVerif MdkVerif.Store List

/-- the snapshot names stored for group `g` -/
def namesOf (l : List Snap) (g : Nat) : List Nat := (l.filter (·.gid == g)).map (·.name)

/-! ## core list lemmas -/

/-- a duplicate-free list contained in another is no longer than it -/
theorem nodup_subset_length {l l' : List Nat} (hn : l.Nodup) (hs : ∀ x ∈ l, x ∈ l') : l.length ≤ l'.length := by
  induction l generalizing l' with
  | nil => simp
  | cons a t ih =>
    have ha : a ∈ l' := hs a (List.mem_cons_self)
    have hnt := (List.nodup_cons.mp hn)
    have : t.length ≤ (l'.erase a).length := by
      apply ih hnt.2
      intro x hx
      have hxa : x ≠ a := fun e => hnt.1 (e ▸ hx)
      exact (List.mem_erase_of_ne hxa).mpr (hs x (List.mem_cons_of_mem _ hx))
    rw [List.length_erase_of_mem ha] at this
    have hpos : 0 < l'.length := List.length_pos_of_mem ha
    simp only [List.length_cons]
    omega

theorem namesOf_append (l : List Snap) (p : Snap) (g : Nat) :
    namesOf (l ++ [p]) g = namesOf l g ++ (if p.gid == g then [p.name] else []) := by
  simp only [namesOf, List.filter_append, List.map_append]
  by_cases c : (p.gid == g) = true <;> simp [c]

theorem namesOf_dropSnap (l : List Snap) (gid n g : Nat) :
    namesOf (dropSnap gid n l) g = if g = gid then (namesOf l g).filter (· != n) else namesOf l g := by
  simp only [namesOf, dropSnap, List.filter_filter]
  by_cases cg : g = gid
  · subst cg
    simp only [if_true, List.filter_map, List.filter_filter]
    congr 1
    apply List.filter_congr
    intro a _
    by_cases c1 : (a.gid == g) = true <;> by_cases c2 : (a.name == n) = true <;> simp [c1, c2, bne]
  · simp only [cg, if_false]
    congr 1
    apply List.filter_congr
    intro a _
    by_cases c1 : a.gid = g
    · have : ¬ a.gid = gid := by rw [c1]; exact cg
      simp [c1, cg]
    · simp [c1]

theorem namesOf_filter_sublist (l : List Snap) (f : Snap → Bool) (g : Nat) :
    (namesOf (l.filter f) g).Sublist (namesOf l g) := by
  simp only [namesOf]
  apply List.Sublist.map
  rw [List.filter_filter]
  have : (l.filter (fun a => a.gid == g && f a)) = (l.filter (·.gid == g)).filter f := by
    rw [List.filter_filter]; congr 1; funext a; exact Bool.and_comm _ _
  rw [this]
  exact List.filter_sublist

theorem mem_filter_ne {l : List Nat} {n x : Nat} : x ∈ l.filter (· != n) ↔ x ∈ l ∧ x ≠ n := by
  simp [List.mem_filter]

/-! ## `releaseAll` -/

theorem releaseAll_backend (s : Store) (g : Nat) (old : List Meta) : (releaseAll s g old).backend = s.backend := by
  induction old generalizing s with
  | nil => rfl
  | cons e t ih => simp only [releaseAll, List.foldl_cons] at ih ⊢; rw [ih]; rfl

/-- releasing touches only the snapshot table … -/
theorem releaseAll_snaps (s : Store) (g : Nat) (old : List Meta) (g' : Nat) :
    namesOf (releaseAll s g old).snaps g' =
      if g' = g then (namesOf s.snaps g').filter (fun n => !(old.map (·.name)).contains n) else namesOf s.snaps g' := by
  induction old generalizing s with
  | nil =>
    by_cases c : g' = g
    · simp only [releaseAll, List.foldl_nil, c, if_true, List.map_nil, List.contains_nil, Bool.not_false]
      exact (List.filter_eq_self.mpr (fun _ _ => rfl)).symm
    · simp [releaseAll, c]
  | cons e t ih =>
    simp only [releaseAll, List.foldl_cons] at ih ⊢
    rw [ih]
    simp only [snapRelease, namesOf_dropSnap]
    by_cases c : g' = g
    · simp only [c, if_true, List.filter_filter]
      apply List.filter_congr
      intro x _
      by_cases cx : x = e.name <;> simp [cx]
    · simp [c]

theorem mem_releaseAll (s : Store) (g : Nat) (old : List Meta) (x : Nat) :
    x ∈ namesOf (releaseAll s g old).snaps g ↔ x ∈ namesOf s.snaps g ∧ x ∉ old.map (·.name) := by
  rw [releaseAll_snaps]; simp [List.mem_filter]

theorem releaseAll_nodup (s : Store) (g : Nat) (old : List Meta) (g' : Nat) (h : (namesOf s.snaps g').Nodup) :
    (namesOf (releaseAll s g old).snaps g').Nodup := by
  rw [releaseAll_snaps]
  split
  · exact h.sublist List.filter_sublist
  · exact h

/-! ## how the store operations used by the manager change the stored names -/

theorem snapCreate_names (s s' : Store) (g n ts : Nat) (h : snapCreate s g n ts = some s')
    (hnd : ∀ g', (namesOf s.snaps g').Nodup) :
    s'.backend = s.backend ∧ (∀ g', (namesOf s'.snaps g').Nodup) ∧
    (∀ x ∈ namesOf s'.snaps g, x ∈ namesOf s.snaps g ∨ x = n) ∧
    ∀ g', g' ≠ g → namesOf s'.snaps g' = namesOf s.snaps g' := by
  have hp : (takeSnap s g n ts).gid = g ∧ (takeSnap s g n ts).name = n := ⟨rfl, rfl⟩
  -- the shape every storing branch has
  have key : ∀ s1 : Store, s1.backend = s.backend → s1.snaps = dropSnap g n s.snaps ++ [takeSnap s g n ts] →
      s1.backend = s.backend ∧ (∀ g', (namesOf s1.snaps g').Nodup) ∧
      (∀ x ∈ namesOf s1.snaps g, x ∈ namesOf s.snaps g ∨ x = n) ∧
      ∀ g', g' ≠ g → namesOf s1.snaps g' = namesOf s.snaps g' := by
    intro s1 hb hs
    refine ⟨hb, ?_, ?_, ?_⟩
    · intro g'
      rw [hs, namesOf_append, namesOf_dropSnap]
      by_cases c : g' = g
      · subst c
        simp only [if_true, hp.1, beq_self_eq_true, hp.2]
        apply List.nodup_append.mpr
        refine ⟨(hnd g').sublist List.filter_sublist, by simp, ?_⟩
        intro a ha b hb' e
        simp only [List.mem_singleton] at hb'
        have := (mem_filter_ne.mp ha).2
        exact this (e.trans hb')
      · have : ((takeSnap s g n ts).gid == g') = false := by simp [hp.1]; exact fun e => c e.symm
        simp only [c, if_false, this, Bool.false_eq_true, List.append_nil]
        exact hnd g'
    · intro x hx
      rw [hs, namesOf_append, namesOf_dropSnap] at hx
      simp only [if_true, hp.1, beq_self_eq_true, hp.2, List.mem_append, List.mem_singleton] at hx
      rcases hx with hx | hx
      · exact Or.inl (mem_filter_ne.mp hx).1
      · exact Or.inr hx
    · intro g' c
      have : ((takeSnap s g n ts).gid == g') = false := by simp [hp.1]; exact fun e => c e.symm
      rw [hs, namesOf_append, namesOf_dropSnap]
      simp [c, this]
  unfold snapCreate at h
  simp only at h
  by_cases hb : s.backend = .mem
  · simp only [hb, Option.some.injEq] at h
    subst h
    exact key _ hb.symm rfl
  · have hb' : s.backend = .sql := by
      cases hx : s.backend with
      | mem => exact absurd hx hb
      | sql => rfl
    simp only [hb'] at h
    split at h
    · cases h
      exact ⟨rfl, hnd, fun x hx => Or.inl hx, fun _ _ => rfl⟩
    · split at h
      · cases h
      · split at h
        · split at h
          · cases h; exact key _ hb'.symm rfl
          · cases h
        · rename_i hnf
          cases h
          apply key _ hb'.symm
          have : findSnap s g n = none := by
            cases hf : findSnap s g n with
            | none => rfl
            | some x => simp [hf] at hnf
          simp only
          rw [dropSnap_not_found _ _ _ (by simpa [findSnap] using this)]

theorem restoreFrom_snaps (s s' : Store) (p : Snap) (h : restoreFrom s p = some s') :
    s'.snaps = dropSnap p.gid p.name s.snaps ∧ s'.backend = s.backend := by
  unfold restoreFrom at h
  simp only at h
  by_cases hb : s.backend = .mem
  · simp only [hb] at h
    cases hpg : p.group with
    | none => simp only [hpg, Option.some.injEq] at h; subst h; exact ⟨rfl, hb.symm⟩
    | some g => simp only [hpg, Option.some.injEq] at h; subst h; exact ⟨rfl, hb.symm⟩
  · have hb' : s.backend = .sql := by
      cases hx : s.backend with
      | mem => exact absurd hx hb
      | sql => rfl
    simp only [hb'] at h
    cases hpg : p.group with
    | none => simp [hpg] at h
    | some g =>
      simp only [hpg] at h
      split at h
      · cases h
      · cases h; exact ⟨rfl, hb'.symm⟩

theorem saveGroup_backend (s s' : Store) (g : Group) (h : saveGroup s g = some s') : s'.backend = s.backend := by
  unfold saveGroup at h
  repeat' split at h
  all_goals (cases h <;> rfl)

/-! ## the invariant -/

/-- the manager knows about group `g`'s stored snapshots: always on memory, after hydration on SQLite -/
def covered (m : Mgr) (g : Nat) : Prop := m.store.backend = .mem ∨ g ∈ m.hydrated

structure SInv (r : Nat) (m : Mgr) : Prop where
  ret : m.retention = r
  nodup : ∀ g, (namesOf m.store.snaps g).Nodup
  sub : ∀ g, covered m g → ∀ n ∈ namesOf m.store.snaps g, n ∈ (m.queue g).map (·.name)
  unc : ∀ g, ¬ covered m g → m.queue g = [] ∧ (namesOf m.store.snaps g).length ≤ r
  bnd : ∀ g, (m.queue g).length ≤ r

/-- hence: at most `r` snapshots are stored for any group -/
theorem SInv.stored_le {r : Nat} {m : Mgr} (h : SInv r m) (g : Nat) : (namesOf m.store.snaps g).length ≤ r := by
  by_cases c : covered m g
  · have := nodup_subset_length (h.nodup g) (h.sub g c)
    rw [List.length_map] at this
    exact Nat.le_trans this (h.bnd g)
  · exact (h.unc g c).2

theorem trim_facts (r : Nat) (s : Store) (g : Nat) (q : List Meta)
    (hnd : ∀ g', (namesOf s.snaps g').Nodup) (hsub : ∀ n ∈ namesOf s.snaps g, n ∈ q.map (·.name)) :
    (∀ g', (namesOf (trim r s g q).1.snaps g').Nodup) ∧
    (∀ n ∈ namesOf (trim r s g q).1.snaps g, n ∈ (trim r s g q).2.map (·.name)) ∧
    (∀ g', g' ≠ g → namesOf (trim r s g q).1.snaps g' = namesOf s.snaps g') ∧
    (trim r s g q).1.backend = s.backend ∧ (trim r s g q).2.length ≤ r := by
  simp only [trim]
  refine ⟨fun g' => releaseAll_nodup _ _ _ _ (hnd g'), ?_, ?_, releaseAll_backend _ _ _, by simp; omega⟩
  · intro n hn
    obtain ⟨h1, h2⟩ := (mem_releaseAll _ _ _ _).mp hn
    have := hsub n h1
    rw [← List.take_append_drop (q.length - r) q, List.map_append, List.mem_append] at this
    rcases this with x | x
    · exact absurd x h2
    · exact x
  · intro g' c
    rw [releaseAll_snaps]; simp [c]

theorem queue_setQueue_self' (m : Mgr) (g : Nat) (q : List Meta) : (m.setQueue g q).queue g = q := by
  simp [Mgr.queue, Mgr.setQueue, alookup_ainsert_self]

/-- re-establishing the invariant after the manager rewrote group `g`'s queue and snapshots -/
theorem sinv_update (r : Nat) (m0 m' : Mgr) (g : Nat) (q' : List Meta) (h0 : SInv r m0)
    (hret : m'.retention = r) (hq : m'.queues = ainsert g q' m0.queues)
    (hback : m'.store.backend = m0.store.backend)
    (hhyd : m'.hydrated = m0.hydrated ∨ m'.hydrated = g :: m0.hydrated)
    (hcov : covered m' g)
    (hnd : ∀ g', (namesOf m'.store.snaps g').Nodup)
    (hsub : ∀ n ∈ namesOf m'.store.snaps g, n ∈ q'.map (·.name))
    (hoth : ∀ g', g' ≠ g → namesOf m'.store.snaps g' = namesOf m0.store.snaps g')
    (hlen : q'.length ≤ r) : SInv r m' := by
  have hqg : m'.queue g = q' := by simp [Mgr.queue, hq, alookup_ainsert_self]
  have hqo : ∀ g', g' ≠ g → m'.queue g' = m0.queue g' := by
    intro g' c; simp [Mgr.queue, hq, alookup_ainsert_ne _ _ _ _ c]
  have hco : ∀ g', g' ≠ g → (covered m' g' ↔ covered m0 g') := by
    intro g' c
    simp only [covered, hback]
    rcases hhyd with e | e
    · rw [e]
    · rw [e]; simp [c]
  refine ⟨hret, hnd, ?_, ?_, ?_⟩
  · intro g' hc n hn
    by_cases c : g' = g
    · subst c; rw [hqg]; exact hsub n hn
    · rw [hqo g' c]; rw [hoth g' c] at hn
      exact h0.sub g' ((hco g' c).mp hc) n hn
  · intro g' hc
    by_cases c : g' = g
    · subst c; exact absurd hcov hc
    · rw [hqo g' c, hoth g' c]
      exact h0.unc g' (fun x => hc ((hco g' c).mpr x))
  · intro g'
    by_cases c : g' = g
    · subst c; rw [hqg]; exact hlen
    · rw [hqo g' c]; exact h0.bnd g'

/-! ## every manager operation keeps the invariant -/

theorem sinv_mk (r : Nat) (m0 : Mgr) (g : Nat) (q' : List Meta) (st : Store) (hyd : List Nat) (h0 : SInv r m0)
    (hback : st.backend = m0.store.backend)
    (hhyd : hyd = m0.hydrated ∨ hyd = g :: m0.hydrated)
    (hcov : st.backend = .mem ∨ g ∈ hyd)
    (hnd : ∀ g', (namesOf st.snaps g').Nodup)
    (hsub : ∀ n ∈ namesOf st.snaps g, n ∈ q'.map (·.name))
    (hoth : ∀ g', g' ≠ g → namesOf st.snaps g' = namesOf m0.store.snaps g')
    (hlen : q'.length ≤ r) :
    SInv r { retention := m0.retention, queues := ainsert g q' m0.queues, hydrated := hyd, store := st } :=
  sinv_update r m0 _ g q' h0 h0.ret rfl hback hhyd hcov hnd hsub hoth hlen

theorem mem_snapListRaw (s : Store) (g n : Nat) :
    n ∈ ((snapListRaw s g).map (fun p => parseName p.1)).map (·.name) ↔ n ∈ namesOf s.snaps g := by
  simp only [List.map_map, snapListRaw, namesOf]
  have hp := (sortBy_perm (fun (a b : Nat × Nat) => decide (a.2 ≤ b.2))
    ((s.snaps.filter (·.gid == g)).map (fun p => (p.name, p.createdAt))))
  constructor
  · intro h
    obtain ⟨x, hx, rfl⟩ := List.mem_map.mp h
    have := hp.mem_iff.mp hx
    obtain ⟨p, hpm, rfl⟩ := List.mem_map.mp this
    exact List.mem_map.mpr ⟨p, hpm, rfl⟩
  · intro h
    obtain ⟨p, hpm, rfl⟩ := List.mem_map.mp h
    exact List.mem_map.mpr ⟨(p.name, p.createdAt), hp.mem_iff.mpr (List.mem_map.mpr ⟨p, hpm, rfl⟩), rfl⟩

theorem hydrate_sinv (r : Nat) (m : Mgr) (g : Nat) (h : SInv r m) : SInv r (hydrate m g) ∧ covered (hydrate m g) g := by
  unfold hydrate
  by_cases hb : m.store.backend = .mem
  · simp only [hb]; exact ⟨h, Or.inl hb⟩
  · have hb' : m.store.backend = .sql := by
      cases hx : m.store.backend with
      | mem => exact absurd hx hb
      | sql => rfl
    simp only [hb']
    by_cases hh : g ∈ m.hydrated
    · simp only [hh, if_true]; exact ⟨h, Or.inr hh⟩
    · simp only [hh, if_false]
      obtain ⟨t1, t2, t3, t4, t5⟩ := trim_facts m.retention m.store g
        (m.queue g ++ (snapListRaw m.store g).map (fun p => parseName p.1)) h.nodup
        (by intro n hn; rw [List.map_append, List.mem_append]; exact Or.inr ((mem_snapListRaw _ _ _).mpr hn))
      refine ⟨?_, Or.inr List.mem_cons_self⟩
      exact sinv_mk r m g _ _ _ h t4 (Or.inr rfl) (Or.inr List.mem_cons_self) t1 t2 t3 (by rw [← h.ret]; exact t5)

theorem create_sinv (r : Nat) (m : Mgr) (g e c t k : Nat) (h : SInv r m) : SInv r (create m g e c t k).1 := by
  obtain ⟨h1, hc1⟩ := hydrate_sinv r m g h
  unfold create
  simp only
  cases hs : snapCreate (hydrate m g).store g (mkName e c) k with
  | none => exact h1
  | some s' =>
    simp only
    obtain ⟨sb, snd', ssub, soth⟩ := snapCreate_names _ _ _ _ _ hs h1.nodup
    obtain ⟨t1, t2, t3, t4, t5⟩ := trim_facts (hydrate m g).retention s' g
      ((hydrate m g).queue g ++ [{ epoch := e, commit := c, ts := t, name := mkName e c }]) snd'
      (by
        intro n hn
        rw [List.map_append, List.mem_append]
        rcases ssub n hn with x | x
        · exact Or.inl (h1.sub g hc1 n x)
        · exact Or.inr (by simp [x]))
    have hcov : (trim (hydrate m g).retention s' g ((hydrate m g).queue g ++ [{ epoch := e, commit := c, ts := t, name := mkName e c }])).1.backend = .mem ∨ g ∈ (hydrate m g).hydrated := by
      rcases hc1 with x | x
      · exact Or.inl (by rw [t4, sb]; exact x)
      · exact Or.inr x
    exact sinv_mk r (hydrate m g) g _ _ _ h1 (t4.trans sb) (Or.inl rfl) hcov t1 t2
      (fun g' cg => by rw [t3 g' cg, soth g' cg]) (by rw [← h1.ret]; exact t5)

theorem isBetter_sinv (r : Nat) (m : Mgr) (g e t c : Nat) (h : SInv r m) : SInv r (isBetter m g e t c).1 := by
  have hh := (hydrate_sinv r m g h).1
  unfold isBetter
  simp only
  split
  · exact hh
  · split
    · exact hh
    · split
      · exact hh
      · split <;> exact hh

theorem mem_of_findIdx_drop {q : List Meta} {i : Nat} {x : Meta} {later : List Meta} (hd : q.drop i = x :: later) (n : Nat)
    (hn : n ∈ q.map (·.name)) : n ∈ (q.take i).map (·.name) ∨ n = x.name ∨ n ∈ later.map (·.name) := by
  rw [← List.take_append_drop i q, hd, List.map_append, List.mem_append, List.map_cons, List.mem_cons] at hn
  exact hn

theorem rollback_sinv (r : Nat) (m : Mgr) (g e : Nat) (h : SInv r m) : SInv r (rollback m g e).1 := by
  obtain ⟨h1, hc1⟩ := hydrate_sinv r m g h
  unfold rollback
  simp only
  split
  · exact h1
  · rename_i i hi
    split
    · exact h1
    · rename_i x later hd
      cases hs : snapRollback (hydrate m g).store g x.name with
      | none => exact h1
      | some s' =>
        simp only
        -- what the store-level rollback did to the snapshot table
        have hsn : s'.snaps = dropSnap g x.name (hydrate m g).store.snaps ∧ s'.backend = (hydrate m g).store.backend := by
          simp only [snapRollback] at hs
          cases hf : findSnap (hydrate m g).store g x.name with
          | none => simp [hf] at hs
          | some p =>
            rw [hf] at hs
            obtain ⟨_, hpg, hpn⟩ := findSnap_spec hf
            have := restoreFrom_snaps _ _ _ hs
            rw [hpg, hpn] at this
            exact this
        have hcov : (releaseAll s' g later).backend = .mem ∨ g ∈ (hydrate m g).hydrated := by
          rcases hc1 with y | y
          · exact Or.inl (by rw [releaseAll_backend, hsn.2]; exact y)
          · exact Or.inr y
        refine sinv_mk r (hydrate m g) g _ _ _ h1 (by rw [releaseAll_backend, hsn.2]) (Or.inl rfl) hcov ?_ ?_ ?_ ?_
        · intro g'
          apply releaseAll_nodup
          rw [hsn.1, namesOf_dropSnap]
          split
          · exact (h1.nodup g').sublist List.filter_sublist
          · exact h1.nodup g'
        · intro n hn
          obtain ⟨a1, a2⟩ := (mem_releaseAll _ _ _ _).mp hn
          rw [hsn.1, namesOf_dropSnap] at a1
          simp only [if_true] at a1
          obtain ⟨b1, b2⟩ := mem_filter_ne.mp a1
          rcases mem_of_findIdx_drop hd n (h1.sub g hc1 n b1) with y | y | y
          · exact y
          · exact absurd y b2
          · exact absurd y a2
        · intro g' cg
          rw [releaseAll_snaps, hsn.1, namesOf_dropSnap]
          simp [cg]
        · simp only [List.length_take]
          exact Nat.le_trans (Nat.min_le_right _ _) (h1.bnd g)

theorem restart_sinv (r : Nat) (m : Mgr) (now ttl : Nat) (h : SInv r m) : SInv r (restart m now ttl) := by
  unfold restart
  by_cases hb : m.store.backend = .mem
  · simp only [hb]; exact h
  · have hb' : m.store.backend = .sql := by
      cases hx : m.store.backend with
      | mem => exact absurd hx hb
      | sql => rfl
    simp only [hb']
    have hnc : ∀ g, ¬ covered ({ m with queues := [], hydrated := [], store := (snapPrune m.store (now - ttl)).1 } : Mgr) g := by
      intro g hc
      rcases hc with y | y
      · simp only [snapPrune] at y; rw [hb'] at y; cases y
      · cases y
    have hsl : ∀ g, (namesOf (snapPrune m.store (now - ttl)).1.snaps g).Sublist (namesOf m.store.snaps g) := by
      intro g; simp only [snapPrune]; exact namesOf_filter_sublist _ _ _
    refine ⟨h.ret, fun g => (h.nodup g).sublist (hsl g), fun g hc => absurd hc (hnc g), ?_, ?_⟩
    · intro g _
      refine ⟨by simp [Mgr.queue, alookup], ?_⟩
      exact Nat.le_trans (hsl g).length_le (h.stored_le g)
    · intro g; simp [Mgr.queue, alookup]

theorem step_sinv (r : Nat) (m : Mgr) (op : Op) (h : SInv r m) : SInv r (step m op).1 := by
  cases op with
  | create g e c t k => exact create_sinv r m g e c t k h
  | better g e t c => exact isBetter_sinv r m g e t c h
  | rollback g e => exact rollback_sinv r m g e h
  | restart now ttl => exact restart_sinv r m now ttl h
  | list g => exact h
  | saveGroup g n =>
    simp only [step]
    split
    · rename_i s' hs
      have e1 := saveGroup_snaps _ _ _ hs
      have e2 := saveGroup_backend _ _ _ hs
      exact ⟨h.ret, by simp only [e1]; exact h.nodup,
        fun g' hc => by simp only [e1]; exact h.sub g' (by rcases hc with y | y; exact Or.inl (by rw [← e2]; exact y); exact Or.inr y),
        fun g' hc => by
          simp only [e1]
          exact h.unc g' (fun x => hc (by rcases x with y | y; exact Or.inl (by show s'.backend = _; rw [e2]; exact y); exact Or.inr y)),
        h.bnd⟩
    · exact h

theorem init_sinv (b : Backend) (r : Nat) : SInv r (init b r) where
  ret := rfl
  nodup := fun _ => List.nodup_nil
  sub := fun _ _ n hn => by simp [init, Store.empty, namesOf] at hn
  unc := fun _ _ => ⟨rfl, Nat.zero_le _⟩
  bnd := fun _ => Nat.zero_le _

theorem run_sinv (r : Nat) (ops : List Op) : ∀ m : Mgr, SInv r m → SInv r (run m ops) := by
  induction ops with
  | nil => intro m h; exact h
  | cons o os ih => intro m h; exact ih _ (step_sinv r m o h)


end MdkVerif.Snapshots
