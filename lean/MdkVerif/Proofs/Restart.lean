import MdkVerif.Model.Client
import MdkVerif.Proofs.Client
/-
  MdkVerif.Proofs.Restart — groundwork for the C11 partial theorem ("a restart is invisible to a
  delivery that is not a better competitor"): `eraseTs` (what a restart does to a persistent client)
  commutes with every handler of `process_message` that does not compare timestamps, and with
  `processCommit` / the wrong-epoch handler when the MIP-03 comparison says "not better".
  The two-sided analysis over all branches of `step1` / `deliverN` and the lift to histories is in
  `Proofs/RestartSim.lean` (relation `Sim`; `Props/C11.lean: restart_invisible_step`, `restart_invisible_partial`).
-/
namespace MdkVerif.Client
open MdkVerif

/-- forget the manager's timestamps (what a restart does to a persistent client) -/
def eraseTs (c : Cl) : Cl := { c with mgr := c.mgr.map (fun s => { s with ts := 0 }) }

@[simp] theorem eraseTs_g (c : Cl) : (eraseTs c).g = c.g := rfl
@[simp] theorem eraseTs_id (c : Cl) : (eraseTs c).id = c.id := rfl
@[simp] theorem eraseTs_hasGroup (c : Cl) : (eraseTs c).hasGroup = c.hasGroup := rfl
@[simp] theorem eraseTs_msgs (c : Cl) : (eraseTs c).msgs = c.msgs := rfl
@[simp] theorem eraseTs_maxPast (c : Cl) : (eraseTs c).maxPast = c.maxPast := rfl
@[simp] theorem eraseTs_getRec (c : Cl) (n : Nat) : getRec (eraseTs c) n = getRec c n := rfl
theorem eraseTs_withSecret (c : Cl) : withSecret (eraseTs c) = eraseTs (withSecret c) := rfl
theorem eraseTs_setRec (c : Cl) (n : Nat) (r : Rec) : setRec (eraseTs c) n r = eraseTs (setRec c n r) := rfl
theorem eraseTs_recordFailure (c : Cl) (n : Nat) (b : Bool) (e : Option Nat) :
    recordFailure (eraseTs c) n b e = eraseTs (recordFailure c n b e) := rfl
theorem eraseTs_idem (c : Cl) : eraseTs (eraseTs c) = eraseTs c := by
  simp [eraseTs, List.map_map, Function.comp_def]

theorem eraseTs_isBetter (c : Cl) (ee : Nat) (e : Ev) : isBetter (eraseTs c) ee e = false := by
  unfold isBetter eraseTs
  cases h : (c.mgr.map (fun s => { s with ts := 0 })).find? (·.epoch == ee) with
  | none => rfl
  | some s =>
    have := List.mem_of_find?_eq_some h
    simp only [List.mem_map] at this
    obtain ⟨t, _, rfl⟩ := this
    simp

theorem eraseTs_ownMessage (c : Cl) (e : Ev) :
    ownMessage (eraseTs c) e = (eraseTs (ownMessage c e).1, (ownMessage c e).2) := by
  unfold ownMessage
  simp only [eraseTs_getRec, eraseTs_msgs]
  repeat' split
  all_goals rfl

theorem eraseTs_failUnprocessable (c : Cl) (e : Ev) :
    failUnprocessable (eraseTs c) e = (eraseTs (failUnprocessable c e).1, (failUnprocessable c e).2) := rfl

theorem eraseTs_returnOwnCommit (c : Cl) : returnOwnCommit (eraseTs c) = (eraseTs (returnOwnCommit c).1, (returnOwnCommit c).2) := rfl

theorem eraseTs_notBetterResult (c : Cl) (e : Ev) :
    notBetterResult (eraseTs c) e = (eraseTs (notBetterResult c e).1, (notBetterResult c e).2) := by
  unfold notBetterResult
  simp only [eraseTs_getRec]
  repeat' split
  all_goals rfl

theorem eraseTs_storeApp (c : Cl) (e : Ev) (m t k : Nat) :
    storeApp (eraseTs c) e m t k = (eraseTs (storeApp c e m t k).1, (storeApp c e m t k).2) := rfl

theorem eraseTs_mgrCreate (c : Cl) (ep : Nat) (e : Ev) : eraseTs (mgrCreate (eraseTs c) ep e) = eraseTs (mgrCreate c ep e) := by
  simp only [mgrCreate, eraseTs, List.map_drop, List.map_append, List.map_map, List.length_append, List.length_map,
    List.map_cons, List.map_nil, Function.comp_def]

theorem eraseTs_processCommit (c : Cl) (e : Ev) (b : Body) (sw : List Nat) :
    eraseTs (processCommit (eraseTs c) e b sw).1 = eraseTs (processCommit c e b sw).1 ∧
    (processCommit (eraseTs c) e b sw).2 = (processCommit c e b sw).2 := by
  unfold processCommit
  simp only [eraseTs_g, eraseTs_maxPast, eraseTs_id]
  by_cases hc : (!(isAdmin c.g e.sender || isPureSelfUpdate b sw)) = true
  · simp only [hc, if_true]
    exact ⟨by rw [eraseTs_recordFailure, eraseTs_idem], trivial⟩
  · simp only [hc, Bool.false_eq_true, if_false]
    have := eraseTs_mgrCreate c (epochOf c.g.path) e
    by_cases hm : removesMe c.id b sw = true
    · simp only [hm, if_true]
      refine ⟨?_, trivial⟩
      simp only [mgrCreate, eraseTs, setRec, Cl.mk.injEq] at this ⊢
      simp_all
    · simp only [hm, Bool.false_eq_true, if_false]
      refine ⟨?_, trivial⟩
      simp only [mgrCreate, eraseTs, setRec, Cl.mk.injEq] at this ⊢
      simp_all

theorem eraseTs_wrongEpoch (retry retry' : Cl → Option (Cl × Res)) (c : Cl) (e : Ev) (ee : Nat)
    (hnb : isBetter c ee e = false) :
    wrongEpochCommit retry (eraseTs c) e ee = (eraseTs (wrongEpochCommit retry' c e ee).1, (wrongEpochCommit retry' c e ee).2) := by
  simp only [wrongEpochCommit, eraseTs_isBetter, hnb, Bool.false_eq_true, if_false]
  exact eraseTs_notBetterResult c e


end MdkVerif.Client
