import MdkVerif.Model.Store
import MdkVerif.Proofs.Store
import MdkVerif.Proofs.Sort
/-
  MdkVerif.Proofs.Refine — the memory-backend store and the SQLite-backend store simulate each other
  (C10): definitions of the simulation relation `Agree`, of the "within both backends' limits"
  predicate `WL`, and the per-operation lemmas behind `Props.C10.step_agree`.
-/
namespace MdkVerif.Store
open MdkVerif List

/-- group ids and nostr group ids are pairwise distinct -/
def GInv (l : List Group) : Prop := l.Pairwise (fun a b => a.gid ≠ b.gid ∧ a.nid ≠ b.nid)

/-- a stored snapshot holds the record of the group it was taken for -/
def SnapOK (p : Snap) : Prop := ∃ g, p.group = some g ∧ g.gid = p.gid

/-- the simulation relation between a memory store `m` and a SQLite store `q`: all tables equal
    (relay sets as lookups: memory drops an empty set, SQLite keeps no rows — both read as `[]`),
    memory's by-nostr-id index consistent with the record list, ids unique, snapshots well formed -/
structure Agree (m q : Store) : Prop where
  bm : m.backend = .mem
  bq : q.backend = .sql
  groups : m.groups = q.groups
  secrets : m.secrets = q.secrets
  msgs : m.msgs = q.msgs
  pms : m.pms = q.pms
  welcomes : m.welcomes = q.welcomes
  pws : m.pws = q.pws
  mls : m.mls = q.mls
  snaps : m.snaps = q.snaps
  relays : ∀ g, (alookup g m.relays).getD [] = (alookup g q.relays).getD []
  idx : ∀ nid, alookup nid m.byNid = m.groups.find? (·.nid == nid)
  ginv : GInv m.groups
  sinv : ∀ p ∈ m.snaps, SnapOK p

/-- a group record within both backends' limits -/
def groupWL (g : Group) : Bool :=
  decide (g.nameLen ≤ nameLimit .mem) && decide (g.nameLen ≤ nameLimit .sql) &&
  decide (g.descLen ≤ descLimit .mem) && decide (g.descLen ≤ descLimit .sql) &&
  decide (g.admins ≤ Generated.memMaxAdminsPerGroup)

/-- within both backends' documented limits and outside the two known differences
    (`snapshot-of-missing-group`, `restore-nostr-id-collision`) -/
def WL (s : Store) : Op → Bool
  | .saveGroup g => groupWL g
  | .saveMessage m => decide (m.contentLen ≤ Generated.sqlMaxMessageContentSize)
  | .messages _ _ _ _ => decide (s.msgs.length < two63)
  | .pendingWelcomes _ _ => decide (s.welcomes.length < two63)
  | .updLast gid _ _ _ =>
    match findGroup s gid with
    | none => true
    | some g => groupWL g
  | .replaceRelays _ rs =>
    decide ((sortBy natLt rs.eraseDups).length ≤ Generated.memMaxRelaysPerGroup) &&
    !(sortBy natLt rs.eraseDups).any (fun r => decide (relayLen r > Generated.memMaxRelayUrlLength))
  | .saveWelcome w =>
    decide (w.relays ≤ Generated.memMaxRelaysPerWelcome) &&
    !(decide (w.relays > 0) && decide (w.relayLen > Generated.memMaxRelayUrlLength)) &&
    decide (w.admins ≤ Generated.memMaxAdminsPerWelcome) &&
    decide (w.nameLen ≤ Generated.sqlMaxGroupNameLength) && decide (w.descLen ≤ Generated.sqlMaxGroupDescriptionLength)
  | .snapCreate gid _ _ => (findGroup s gid).isSome
  | .snapRollback gid name =>
    match findSnap s gid name with
    | none => true
    | some p =>
      match p.group with
      | none => true
      | some g => !s.groups.any (fun h => h.nid == g.nid && h.gid != gid)
  | _ => true

/-! ## list lemmas: unique ids, `replaceGroup`, the by-nostr-id index -/

theorem opt_ext {α : Type} (a b : Option α) (h : ∀ x, a = some x ↔ b = some x) : a = b := by
  cases a with
  | none =>
    cases b with
    | none => rfl
    | some y => exact absurd ((h y).mpr rfl) (by simp)
  | some x => exact ((h x).mp rfl).symm

theorem ginv_eq_of_gid {l : List Group} (h : GInv l) {x y : Group} (hx : x ∈ l) (hy : y ∈ l) (e : x.gid = y.gid) : x = y := by
  induction l with
  | nil => cases hx
  | cons a t ih =>
    have ha := (List.pairwise_cons.mp h).1
    have ht := (List.pairwise_cons.mp h).2
    rcases List.mem_cons.mp hx with rfl | hx' <;> rcases List.mem_cons.mp hy with rfl | hy'
    · rfl
    · exact absurd e (ha y hy').1
    · exact absurd e.symm (ha x hx').1
    · exact ih ht hx' hy'

theorem ginv_eq_of_nid {l : List Group} (h : GInv l) {x y : Group} (hx : x ∈ l) (hy : y ∈ l) (e : x.nid = y.nid) : x = y := by
  induction l with
  | nil => cases hx
  | cons a t ih =>
    have ha := (List.pairwise_cons.mp h).1
    have ht := (List.pairwise_cons.mp h).2
    rcases List.mem_cons.mp hx with rfl | hx' <;> rcases List.mem_cons.mp hy with rfl | hy'
    · rfl
    · exact absurd e (ha y hy').2
    · exact absurd e.symm (ha x hx').2
    · exact ih ht hx' hy'

theorem find_nid_iff {l : List Group} (h : GInv l) (nid : Nat) (x : Group) :
    l.find? (·.nid == nid) = some x ↔ x ∈ l ∧ x.nid = nid := by
  constructor
  · intro hf
    exact ⟨List.mem_of_find?_eq_some hf, by simpa using List.find?_some hf⟩
  · rintro ⟨hx, hn⟩
    cases hf : l.find? (·.nid == nid) with
    | none =>
      have := List.find?_eq_none.mp hf x hx
      simp [hn] at this
    | some y =>
      have hy := List.mem_of_find?_eq_some hf
      have hyn : y.nid = nid := by simpa using List.find?_some hf
      rw [ginv_eq_of_nid h hy hx (hyn.trans hn.symm)]

theorem find_gid_iff {l : List Group} (h : GInv l) (k : Nat) (x : Group) :
    l.find? (·.gid == k) = some x ↔ x ∈ l ∧ x.gid = k := by
  constructor
  · intro hf
    exact ⟨List.mem_of_find?_eq_some hf, by simpa using List.find?_some hf⟩
  · rintro ⟨hx, hn⟩
    cases hf : l.find? (·.gid == k) with
    | none =>
      have := List.find?_eq_none.mp hf x hx
      simp [hn] at this
    | some y =>
      have hy := List.mem_of_find?_eq_some hf
      have hyn : y.gid = k := by simpa using List.find?_some hf
      rw [ginv_eq_of_gid h hy hx (hyn.trans hn.symm)]

theorem mem_replaceGroup {l : List Group} (h : GInv l) (g x : Group) :
    x ∈ replaceGroup g l ↔ x = g ∨ (x ∈ l ∧ x.gid ≠ g.gid) := by
  induction l with
  | nil => simp [replaceGroup]
  | cons a t ih =>
    have ha := (List.pairwise_cons.mp h).1
    have ht := (List.pairwise_cons.mp h).2
    by_cases c : a.gid = g.gid
    · simp only [replaceGroup, c, beq_self_eq_true, if_true, List.mem_cons]
      constructor
      · rintro (rfl | hx)
        · exact Or.inl rfl
        · exact Or.inr ⟨Or.inr hx, fun e => (ha x hx).1 (c.trans e.symm)⟩
      · rintro (rfl | ⟨hx | hx, hne⟩)
        · exact Or.inl rfl
        · subst hx; exact absurd c hne
        · exact Or.inr hx
    · have c' : (a.gid == g.gid) = false := by simpa using c
      simp only [replaceGroup, c', Bool.false_eq_true, if_false, List.mem_cons, ih ht]
      constructor
      · rintro (rfl | rfl | ⟨hx, hne⟩)
        · exact Or.inr ⟨Or.inl rfl, c⟩
        · exact Or.inl rfl
        · exact Or.inr ⟨Or.inr hx, hne⟩
      · rintro (rfl | ⟨rfl | hx, hne⟩)
        · exact Or.inr (Or.inl rfl)
        · exact Or.inl rfl
        · exact Or.inr (Or.inr ⟨hx, hne⟩)

theorem ginv_replaceGroup {l : List Group} (h : GInv l) (g : Group)
    (hfree : ∀ x ∈ l, x.nid = g.nid → x.gid = g.gid) : GInv (replaceGroup g l) := by
  induction l with
  | nil => simp [replaceGroup, GInv]
  | cons a t ih =>
    have ha := (List.pairwise_cons.mp h).1
    have ht := (List.pairwise_cons.mp h).2
    by_cases c : a.gid = g.gid
    · simp only [replaceGroup, c, beq_self_eq_true, if_true]
      refine List.pairwise_cons.mpr ⟨?_, ht⟩
      intro x hx
      refine ⟨fun e => (ha x hx).1 (c.trans e), fun e => ?_⟩
      exact (ha x hx).1 (c.trans (hfree x (List.mem_cons_of_mem _ hx) e.symm).symm)
    · have c' : (a.gid == g.gid) = false := by simpa using c
      simp only [replaceGroup, c', Bool.false_eq_true, if_false]
      refine List.pairwise_cons.mpr ⟨?_, ih ht (fun x hx => hfree x (List.mem_cons_of_mem _ hx))⟩
      intro x hx
      rcases (mem_replaceGroup ht g x).mp hx with rfl | ⟨hx', _⟩
      · exact ⟨c, fun e => c (hfree a (List.mem_cons_self) e)⟩
      · exact ha x hx'

/-- the nostr id `g.nid` is held by no other group: the refusal test of the two backends -/
theorem any_iff_lookup {l : List Group} (h : GInv l) (g : Group) :
    l.any (fun x => x.nid == g.nid && x.gid != g.gid) = true ↔
      ∃ o, l.find? (·.nid == g.nid) = some o ∧ o.gid ≠ g.gid := by
  simp only [List.any_eq_true, Bool.and_eq_true, beq_iff_eq, bne_iff_ne]
  constructor
  · rintro ⟨x, hx, hn, hg⟩
    exact ⟨x, (find_nid_iff h _ x).mpr ⟨hx, hn⟩, hg⟩
  · rintro ⟨o, hf, hg⟩
    obtain ⟨ho, hn⟩ := (find_nid_iff h _ o).mp hf
    exact ⟨o, ho, hn, hg⟩

/-- updating the index as the memory backend does keeps it consistent with the record list -/
theorem idx_update {l : List Group} {byNid X : List (Nat × Group)} (g : Group) (hinv : GInv l)
    (hidx : ∀ nid, alookup nid byNid = l.find? (·.nid == nid))
    (hfree : ∀ x ∈ l, x.nid = g.nid → x.gid = g.gid)
    (hX : ∀ nid, nid ≠ g.nid → alookup nid X =
        match l.find? (·.gid == g.gid) with
        | some o => if o.nid = nid then none else alookup nid byNid
        | none => alookup nid byNid) :
    ∀ nid, alookup nid (ainsert g.nid g X) = (replaceGroup g l).find? (·.nid == nid) := by
  intro nid
  have hinv' := ginv_replaceGroup hinv g hfree
  by_cases c : nid = g.nid
  · subst c
    rw [alookup_ainsert_self]
    exact ((find_nid_iff hinv' _ g).mpr ⟨(mem_replaceGroup hinv g g).mpr (Or.inl rfl), rfl⟩).symm
  · rw [alookup_ainsert_ne _ _ _ _ c, hX nid c]
    apply opt_ext
    intro x
    rw [find_nid_iff hinv', mem_replaceGroup hinv]
    cases hold : l.find? (·.gid == g.gid) with
    | none =>
      simp only [hidx, find_nid_iff hinv]
      constructor
      · rintro ⟨hx, hn⟩
        refine ⟨Or.inr ⟨hx, fun e => ?_⟩, hn⟩
        have := (find_gid_iff hinv g.gid x).mpr ⟨hx, e⟩
        rw [hold] at this; cases this
      · rintro ⟨rfl | ⟨hx, _⟩, hn⟩
        · exact absurd hn.symm c
        · exact ⟨hx, hn⟩
    | some o =>
      obtain ⟨ho, hog⟩ := (find_gid_iff hinv g.gid o).mp hold
      by_cases e : o.nid = nid
      · simp only [e, if_true]
        constructor
        · intro hc; cases hc
        · rintro ⟨rfl | ⟨hx, hne⟩, hn⟩
          · exact absurd hn.symm c
          · have : x = o := ginv_eq_of_nid hinv hx ho (hn.trans e.symm)
            subst this; exact absurd hog hne
      · simp only [e, if_false, hidx, find_nid_iff hinv]
        constructor
        · rintro ⟨hx, hn⟩
          refine ⟨Or.inr ⟨hx, fun eg => ?_⟩, hn⟩
          have : x = o := ginv_eq_of_gid hinv hx ho (eg.trans hog.symm)
          subst this; exact e hn
        · rintro ⟨rfl | ⟨hx, _⟩, hn⟩
          · exact absurd hn.symm c
          · exact ⟨hx, hn⟩

/-! ## the simulation, operation by operation -/

theorem agree_of (m q m' q' : Store) (h : Agree m q)
    (hb : m'.backend = m.backend) (hbq : q'.backend = q.backend)
    (hg : m'.groups = m.groups) (hgq : q'.groups = q.groups) (hbn : m'.byNid = m.byNid)
    (hr : m'.relays = m.relays) (hrq : q'.relays = q.relays)
    (h1 : m'.secrets = q'.secrets) (h2 : m'.msgs = q'.msgs) (h3 : m'.pms = q'.pms) (h4 : m'.welcomes = q'.welcomes)
    (h5 : m'.pws = q'.pws) (h6 : m'.mls = q'.mls) (h7 : m'.snaps = q'.snaps) (h8 : ∀ p ∈ m'.snaps, SnapOK p) : Agree m' q' :=
  { bm := hb.trans h.bm, bq := hbq.trans h.bq, groups := by rw [hg, hgq, h.groups], secrets := h1, msgs := h2, pms := h3,
    welcomes := h4, pws := h5, mls := h6, snaps := h7, relays := by rw [hr, hrq]; exact h.relays,
    idx := by rw [hbn, hg]; exact h.idx, ginv := by rw [hg]; exact h.ginv, sinv := h8 }

theorem okErr_agree (m q : Store) (om oq : Option Store) (h : Agree m q)
    (hn : om.isSome = oq.isSome) (hs : ∀ a b, om = some a → oq = some b → Agree a b) :
    (okErr om m).2 = (okErr oq q).2 ∧ Agree (okErr om m).1 (okErr oq q).1 := by
  cases om with
  | none =>
    cases oq with
    | none => exact ⟨rfl, h⟩
    | some b => simp at hn
  | some a =>
    cases oq with
    | none => simp at hn
    | some b => exact ⟨rfl, hs a b rfl rfl⟩

theorem step_easy (m q : Store) (h : Agree m q) (op : Op)
    (hop : match op with
      | .saveGroup _ | .findGroupNostr _ | .messages _ _ _ _ | .saveMessage _ | .updLast _ _ _ _ | .relays _
      | .replaceRelays _ _ | .saveWelcome _ | .pendingWelcomes _ _ | .snapCreate _ _ _ | .snapRollback _ _
      | .snapPrune _ | .dump | .findEpochByTag _ _ _ => False
      | _ => True) :
    (step m op).2 = (step q op).2 ∧ Agree (step m op).1 (step q op).1 := by
  have hs := h.sinv
  have e1 := h.groups; have e2 := h.secrets; have e3 := h.msgs; have e4 := h.pms; have e5 := h.welcomes
  have e6 := h.pws; have e7 := h.mls; have e8 := h.snaps
  have hs' : ∀ p ∈ q.snaps, SnapOK p := by rw [← e8]; exact hs
  cases op <;> simp only at hop
  case markRetryable w =>
    simp only [step]
    apply okErr_agree m q _ _ h
    · simp only [markRetryable, findPm, e4]
      cases find? (fun x => x.wrapper == w) q.pms with
      | none => rfl
      | some p => by_cases c : p.state == 3 <;> simp [c]
    · intro a b ha hb
      simp only [markRetryable, findPm, e4] at ha hb
      cases hf : find? (fun x => x.wrapper == w) q.pms with
      | none => simp [hf] at ha
      | some p =>
        simp only [hf] at ha hb
        by_cases c : (p.state == 3) = true
        · simp only [c, if_true, Option.some.injEq] at ha hb
          subst ha; subst hb
          apply agree_of m q _ _ h <;> first | rfl | assumption | simp [e4]
        · simp [c] at ha
  case saveSecret g e v =>
    simp only [step]
    apply okErr_agree m q _ _ h
    · simp only [saveSecret, findGroup, e1]
      by_cases c : (find? (fun x => x.gid == g) q.groups).isNone = true <;> simp [c]
    · intro a b ha hb
      simp only [saveSecret, findGroup, e1] at ha hb
      by_cases c : (find? (fun x => x.gid == g) q.groups).isNone = true
      · simp [c] at ha
      · simp only [c, Bool.false_eq_true, if_false, Option.some.injEq] at ha hb
        subst ha; subst hb
        apply agree_of m q _ _ h <;> first | rfl | assumption | exact e1.symm | simp [e2]
  all_goals (
    refine ⟨?_, ?_⟩
    · simp [step, findGroup, findMessage, lastMessage, listing, groupMsgs, savePm, findPm, invalMsgs, invalPms, findInvalMsgs,
        findInvalPms, failedRetry, getSecret, findWelcome, savePw, findPw, mlsWrite, mlsRead,
        mlsDelete, snapRelease, snapList, e1, e2, e3, e4, e5, e6, e7, e8]
    · apply agree_of m q _ _ h <;> first
        | rfl
        | assumption
        | (simp [step, savePm, invalMsgs, invalPms, savePw, mlsWrite, mlsDelete, snapRelease, e1, e2, e3, e4, e5, e6, e7, e8]; done)
        | (simp only [step, snapRelease, dropSnap, e8]; intro p hp; exact hs' p (List.mem_filter.mp hp).1)
        | (simp only [step, savePm, invalMsgs, invalPms, savePw, mlsWrite, mlsDelete]; exact hs))

/-- memory's index update in `save_group` -/
def memIdx (m : Store) (g : Group) : List (Nat × Group) :=
  ainsert g.nid g (match findGroup m g.gid with
    | some old => if old.nid != g.nid then aerase old.nid m.byNid else m.byNid
    | none => m.byNid)

theorem saveGroup_mem_eq (m : Store) (g : Group) (hb : m.backend = .mem) (hw : groupWL g = true) :
    saveGroup m g =
      if (∃ o, alookup g.nid m.byNid = some o ∧ o.gid ≠ g.gid) then none
      else some { m with groups := replaceGroup g m.groups, byNid := memIdx m g } := by
  simp only [groupWL, Bool.and_eq_true, decide_eq_true_eq] at hw
  obtain ⟨⟨⟨⟨h1, _⟩, h3⟩, _⟩, h5⟩ := hw
  simp only [nameLimit, descLimit] at h1 h3
  have n1 : ¬ g.nameLen > nameLimit .mem := by simp only [nameLimit]; omega
  have n2 : ¬ g.descLen > descLimit .mem := by simp only [descLimit]; omega
  have n3 : (Backend.mem == Backend.mem && decide (g.admins > Generated.memMaxAdminsPerGroup)) = false := by
    simp; omega
  unfold saveGroup
  simp only [hb]
  simp only [n1, n2, n3, if_false, Bool.false_eq_true, memIdx]
  cases hl : alookup g.nid m.byNid with
  | none =>
    have : ¬ ∃ o, (none : Option Group) = some o ∧ o.gid ≠ g.gid := by simp
    rw [if_neg this]
    rfl
  | some o =>
    by_cases c : o.gid = g.gid
    · have : ¬ ∃ o', some o = some o' ∧ o'.gid ≠ g.gid := by
        rintro ⟨o', e, hne⟩; cases e; exact hne c
      have c2 : (o.gid != g.gid) = false := by simp [c]
      rw [if_neg this]; simp only [c2, Bool.false_eq_true, if_false]; rfl
    · have : ∃ o', some o = some o' ∧ o'.gid ≠ g.gid := ⟨o, rfl, c⟩
      have c2 : (o.gid != g.gid) = true := by simp [c]
      rw [if_pos this]; simp only [c2, if_true] <;> rfl

theorem saveGroup_sql_eq (q : Store) (g : Group) (hb : q.backend = .sql) (hw : groupWL g = true) :
    saveGroup q g =
      if q.groups.any (fun h => h.nid == g.nid && h.gid != g.gid) then none
      else some { q with groups := replaceGroup g q.groups } := by
  simp only [groupWL, Bool.and_eq_true, decide_eq_true_eq] at hw
  obtain ⟨⟨⟨⟨_, h2⟩, _⟩, h4⟩, _⟩ := hw
  simp only [nameLimit, descLimit] at h2 h4
  have n1 : ¬ g.nameLen > nameLimit .sql := by simp only [nameLimit]; omega
  have n2 : ¬ g.descLen > descLimit .sql := by simp only [descLimit]; omega
  unfold saveGroup
  simp only [hb]
  simp only [n1, n2, if_false]
  simp

theorem saveGroup_agree (m q : Store) (h : Agree m q) (g : Group) (hw : groupWL g = true) :
    (saveGroup m g).isSome = (saveGroup q g).isSome ∧
    ∀ a b, saveGroup m g = some a → saveGroup q g = some b → Agree a b := by
  rw [saveGroup_mem_eq m g h.bm hw, saveGroup_sql_eq q g h.bq hw]
  have hany := any_iff_lookup h.ginv g
  have hcond : (∃ o, alookup g.nid m.byNid = some o ∧ o.gid ≠ g.gid) ↔
      q.groups.any (fun x => x.nid == g.nid && x.gid != g.gid) = true := by
    rw [← h.groups, hany, h.idx]
  by_cases c : q.groups.any (fun x => x.nid == g.nid && x.gid != g.gid) = true
  · have c' := hcond.mpr c
    simp [c, c']
  · have c' : ¬ (∃ o, alookup g.nid m.byNid = some o ∧ o.gid ≠ g.gid) := fun x => c (hcond.mp x)
    simp only [c, c', if_false, Bool.false_eq_true]
    refine ⟨rfl, ?_⟩
    intro a b ha hb
    cases ha; cases hb
    have hfree : ∀ x ∈ m.groups, x.nid = g.nid → x.gid = g.gid := by
      intro x hx hn
      by_cases e : x.gid = g.gid
      · exact e
      · exfalso; apply c; rw [← h.groups]
        simp only [List.any_eq_true, Bool.and_eq_true, beq_iff_eq, bne_iff_ne]
        exact ⟨x, hx, hn, e⟩
    exact { bm := h.bm, bq := h.bq, groups := by simp [h.groups], secrets := h.secrets, msgs := h.msgs, pms := h.pms,
            welcomes := h.welcomes, pws := h.pws, mls := h.mls, snaps := h.snaps, relays := h.relays,
            idx := by
              apply idx_update g h.ginv h.idx hfree
              intro nid hn
              simp only [findGroup]
              cases hold : m.groups.find? (·.gid == g.gid) with
              | none => rfl
              | some o =>
                by_cases e : o.nid = g.nid
                · have : ¬ g.nid = nid := fun x => hn x.symm
                  simp [e, this]
                · by_cases e2 : o.nid = nid
                  · subst e2; simp [e, alookup_aerase_self]
                  · simp [e, e2, alookup_aerase_ne _ _ _ (fun x => e2 x.symm)]
            ginv := ginv_replaceGroup h.ginv g hfree, sinv := h.sinv }


theorem agree_same (m q : Store) (h : Agree m q) (x y : String) (e : x = y) :
    ((m, x) : Store × String).2 = ((q, y) : Store × String).2 ∧ Agree ((m, x) : Store × String).1 ((q, y) : Store × String).1 := ⟨e, h⟩

theorem findGroup_eq (m q : Store) (h : Agree m q) (g : Nat) : findGroup m g = findGroup q g := by
  simp [findGroup, h.groups]

theorem findGroupNostr_agree (m q : Store) (h : Agree m q) (nid : Nat) : findGroupNostr m nid = findGroupNostr q nid := by
  simp only [findGroupNostr, h.bm, h.bq, h.idx, h.groups]

theorem messages_agree (m q : Store) (h : Agree m q) (gid : Nat) (limit offset sort : Option Nat)
    (hphys : q.msgs.length < two63) :
    messages m gid limit offset sort = messages q gid limit offset sort := by
  have hm := h.bm; have hq := h.bq; have hmsg := h.msgs
  have hsat : Generated.memPageSaturates = true := by decide
  have hcl : Generated.sqlOffsetClamped = true := by decide
  have hl : listing m gid (sort.getD 0) = listing q gid (sort.getD 0) := by simp [listing, groupMsgs, hmsg]
  have hfg : findGroup m gid = findGroup q gid := findGroup_eq m q h gid
  have hlen : (listing q gid (sort.getD 0)).length < two63 := by
    have : (listing q gid (sort.getD 0)).length = (groupMsgs q gid).length := (sortBy_perm _ _).length_eq
    rw [this]
    exact Nat.lt_of_le_of_lt (List.length_filter_le _ _) hphys
  unfold messages
  simp only [hm, hq, hfg, hl, hsat, hcl]
  split
  · rfl
  · split
    · rfl
    · simp only [Bool.not_true, Bool.false_and, Bool.false_eq_true, if_false, if_true]
      by_cases he : (groupMsgs m gid).isEmpty = true
      · have hn : groupMsgs q gid = [] := by
          have : groupMsgs m gid = [] := by simpa using he
          simpa [groupMsgs, hmsg] using this
        simp [he, page, listing, hn, sortBy]
      · simp only [he, Bool.false_eq_true, if_false]
        by_cases ho : offset.getD 0 ≥ two63
        · simp only [ho, if_true]
          have h1 : (listing q gid (sort.getD 0)).length ≤ two63 - 1 := by omega
          have h2 : (listing q gid (sort.getD 0)).length ≤ offset.getD 0 := by omega
          simp [page, List.drop_eq_nil_of_le h1, List.drop_eq_nil_of_le h2]
        · simp [ho]

theorem pendingWelcomes_agree (m q : Store) (h : Agree m q) (limit offset : Option Nat)
    (hphys : q.welcomes.length < two63) :
    pendingWelcomes m limit offset = pendingWelcomes q limit offset := by
  have hcl : Generated.sqlOffsetClamped = true := by decide
  unfold pendingWelcomes
  simp only [h.bm, h.bq, h.welcomes, hcl]
  split
  · rfl
  · have hlen : (sortBy welcomeBefore (q.welcomes.filter (·.state == 0))).length < two63 := by
      rw [(sortBy_perm _ _).length_eq]
      exact Nat.lt_of_le_of_lt (List.length_filter_le _ _) hphys
    by_cases ho : offset.getD 0 ≥ two63
    · have h1 : (sortBy welcomeBefore (q.welcomes.filter (·.state == 0))).length ≤ two63 - 1 := by omega
      have h2 : (sortBy welcomeBefore (q.welcomes.filter (·.state == 0))).length ≤ offset.getD 0 := by omega
      simp [ho, page, List.drop_eq_nil_of_le h1, List.drop_eq_nil_of_le h2]
    · simp [ho]


theorem takeSnap_agree (m q : Store) (h : Agree m q) (gid name ts : Nat) : takeSnap m gid name ts = takeSnap q gid name ts := by
  simp only [takeSnap, findGroup_eq m q h, h.relays gid, groupSecrets, groupMls, h.secrets, h.mls]

theorem snapOK_takeSnap (s : Store) (gid name ts : Nat) (hg : (findGroup s gid).isSome) : SnapOK (takeSnap s gid name ts) := by
  cases hf : findGroup s gid with
  | none => simp [hf] at hg
  | some g => exact ⟨g, by simp [takeSnap, hf], findGroup_gid hf⟩

theorem dropSnap_not_found (l : List Snap) (gid name : Nat)
    (h : l.find? (fun p => p.gid == gid && p.name == name) = none) : dropSnap gid name l = l := by
  simp only [dropSnap, List.filter_eq_self]
  intro p hp
  have := List.find?_eq_none.mp h p hp
  cases hx : (p.gid == gid && p.name == name) with
  | false => rfl
  | true => exact absurd hx this

theorem snapCreate_agree (m q : Store) (h : Agree m q) (gid name ts : Nat) (hg : (findGroup m gid).isSome) :
    (snapCreate m gid name ts).isSome = (snapCreate q gid name ts).isSome ∧
    ∀ a b, snapCreate m gid name ts = some a → snapCreate q gid name ts = some b → Agree a b := by
  have hre : Generated.sqlSnapshotRetakeReplaces = true := by decide
  have hp := takeSnap_agree m q h gid name ts
  have hgq : (findGroup q gid).isSome := by rw [← findGroup_eq m q h]; exact hg
  have hrows : ((takeSnap q gid name ts).rows == 0) = false := by
    have : (takeSnap q gid name ts).group.isSome = true := by simpa [takeSnap] using hgq
    simp [Snap.rows, this]
  have hnone : (takeSnap q gid name ts).group.isNone = false := by
    have : (takeSnap q gid name ts).group.isSome = true := by simpa [takeSnap] using hgq
    cases hx : (takeSnap q gid name ts).group with
    | none => rw [hx] at this; cases this
    | some _ => rfl
  have hq : snapCreate q gid name ts = some { q with snaps := dropSnap gid name q.snaps ++ [takeSnap q gid name ts] } := by
    cases hf : findSnap q gid name with
    | some x => simp [snapCreate, h.bq, hrows, hnone, hre, hf]
    | none =>
      have : dropSnap gid name q.snaps = q.snaps := dropSnap_not_found _ _ _ (by simpa [findSnap] using hf)
      simp [snapCreate, h.bq, hrows, hnone, hre, hf, this]
  have hm : snapCreate m gid name ts = some { m with snaps := dropSnap gid name m.snaps ++ [takeSnap m gid name ts] } := by
    simp only [snapCreate, h.bm]
  rw [hm, hq]
  refine ⟨rfl, ?_⟩
  intro a b ha hb
  cases ha; cases hb
  apply agree_of m q _ _ h <;> first | rfl | exact h.secrets | exact h.msgs | exact h.pms | exact h.welcomes | exact h.pws | exact h.mls | skip
  · simp only [h.snaps, hp]
  · intro p hp'
    simp only [List.mem_append, List.mem_singleton] at hp'
    rcases hp' with hp' | rfl
    · exact h.sinv p (List.mem_filter.mp hp').1
    · exact snapOK_takeSnap m gid name ts hg

/-- relay lookups after the two backends' restore -/
theorem restore_relays (rm rq : List (Nat × List Nat)) (hr : ∀ g, (alookup g rm).getD [] = (alookup g rq).getD [])
    (gid : Nat) (rs : List Nat) (k : Nat) :
    (alookup k (if rs.isEmpty then aerase gid rm else ainsert gid rs (aerase gid rm))).getD [] =
    (alookup k (ainsert gid rs (aerase gid rq))).getD [] := by
  by_cases c : k = gid
  · subst c
    by_cases e : rs.isEmpty = true
    · have : rs = [] := by simpa using e
      simp [e, alookup_aerase_self, alookup_ainsert_self, this]
    · simp [e, alookup_ainsert_self]
  · by_cases e : rs.isEmpty = true
    · simp [e, alookup_aerase_ne _ _ _ c, alookup_ainsert_ne _ _ _ _ c, hr k]
    · simp [e, alookup_aerase_ne _ _ _ c, alookup_ainsert_ne _ _ _ _ c, hr k]

theorem restore_agree (m q : Store) (h : Agree m q) (p : Snap) (hp : p ∈ m.snaps)
    (hw : ∀ g, p.group = some g → m.groups.any (fun x => x.nid == g.nid && x.gid != p.gid) = false) :
    (restoreFrom m p).isSome = (restoreFrom q p).isSome ∧
    ∀ a b, restoreFrom m p = some a → restoreFrom q p = some b → Agree a b := by
  have hcas : Generated.sqlRestoreCascadesMessages = false := by decide
  obtain ⟨g, hpg, hgg⟩ := h.sinv p hp
  have hno := hw g hpg
  have hnoq : q.groups.any (fun x => x.nid == g.nid && x.gid != p.gid) = false := by rw [← h.groups]; exact hno
  have hfree : ∀ x ∈ m.groups, x.nid = g.nid → x.gid = g.gid := by
    intro x hx hn
    by_cases e : x.gid = g.gid
    · exact e
    · exfalso
      have : m.groups.any (fun x => x.nid == g.nid && x.gid != p.gid) = true := by
        simp only [List.any_eq_true, Bool.and_eq_true, beq_iff_eq, bne_iff_ne]
        exact ⟨x, hx, hn, by rw [← hgg]; exact e⟩
      rw [hno] at this; cases this
  have hq : restoreFrom q p = some { q with groups := replaceGroup g q.groups, relays := ainsert p.gid p.relays (aerase p.gid q.relays), secrets := q.secrets.filter (·.1 != p.gid) ++ p.secrets.map (fun kv => (p.gid, kv.1, kv.2)), mls := q.mls.filter (·.1 != p.gid) ++ p.mls.map (fun kv => (p.gid, kv.1, kv.2)), snaps := dropSnap p.gid p.name q.snaps } := by
    simp only [restoreFrom, h.bq, hpg, hnoq, hcas, Bool.false_eq_true, if_false]
  have hm : restoreFrom m p = some { m with groups := replaceGroup g m.groups, byNid := ainsert g.nid g (match findGroup m p.gid with | some old => aerase old.nid m.byNid | none => m.byNid), relays := if p.relays.isEmpty then aerase p.gid m.relays else ainsert p.gid p.relays (aerase p.gid m.relays), secrets := m.secrets.filter (·.1 != p.gid) ++ p.secrets.map (fun kv => (p.gid, kv.1, kv.2)), mls := m.mls.filter (·.1 != p.gid) ++ p.mls.map (fun kv => (p.gid, kv.1, kv.2)), snaps := dropSnap p.gid p.name m.snaps } := by
    simp only [restoreFrom, h.bm, hpg]
    rfl
  rw [hm, hq]
  refine ⟨rfl, ?_⟩
  intro a b ha hb
  cases ha; cases hb
  exact { bm := h.bm, bq := h.bq, groups := by simp [h.groups], secrets := by simp [h.secrets], msgs := h.msgs, pms := h.pms,
          welcomes := h.welcomes, pws := h.pws, mls := by simp [h.mls], snaps := by simp [h.snaps],
          relays := fun k => restore_relays m.relays q.relays h.relays p.gid p.relays k,
          idx := by
            apply idx_update g h.ginv h.idx hfree
            intro nid hn
            simp only [findGroup, ← hgg]
            cases hold : m.groups.find? (·.gid == g.gid) with
            | none => rfl
            | some o =>
              by_cases e2 : o.nid = nid
              · subst e2; simp [alookup_aerase_self]
              · simp [e2, alookup_aerase_ne _ _ _ (fun x => e2 x.symm)]
          ginv := ginv_replaceGroup h.ginv g hfree,
          sinv := fun x hx => h.sinv x (List.mem_filter.mp hx).1 }


theorem saveMessage_agree (m q : Store) (h : Agree m q) (x : Msg) (hw : x.contentLen ≤ Generated.sqlMaxMessageContentSize) :
    (saveMessage m x).isSome = (saveMessage q x).isSome ∧
    ∀ a b, saveMessage m x = some a → saveMessage q x = some b → Agree a b := by
  have n1 : ¬ x.contentLen > Generated.sqlMaxMessageContentSize := by omega
  have hf := findGroup_eq m q h x.gid
  simp only [saveMessage, h.bm, h.bq, n1, hf]
  by_cases c : (findGroup q x.gid).isNone = true
  · simp [c]
  · simp only [c]
    refine ⟨by simp, ?_⟩
    intro a b ha hb
    simp at ha hb
    subst ha; subst hb
    apply agree_of m q _ _ h <;> first | rfl | exact h.bm.symm | exact h.bq.symm | exact h.secrets | exact h.pms | exact h.welcomes | exact h.pws | exact h.mls | exact h.snaps | exact h.sinv | simp [h.msgs]

theorem saveWelcome_agree (m q : Store) (h : Agree m q) (w : Welcome)
    (hw : (decide (w.relays ≤ Generated.memMaxRelaysPerWelcome) &&
      !(decide (w.relays > 0) && decide (w.relayLen > Generated.memMaxRelayUrlLength)) &&
      decide (w.admins ≤ Generated.memMaxAdminsPerWelcome) &&
      decide (w.nameLen ≤ Generated.sqlMaxGroupNameLength) && decide (w.descLen ≤ Generated.sqlMaxGroupDescriptionLength)) = true) :
    (saveWelcome m w).isSome = (saveWelcome q w).isSome ∧
    ∀ a b, saveWelcome m w = some a → saveWelcome q w = some b → Agree a b := by
  simp only [Bool.and_eq_true, decide_eq_true_eq, Bool.not_eq_true'] at hw
  obtain ⟨⟨⟨⟨h1, h2⟩, h3⟩, h4⟩, h5⟩ := hw
  have n1 : ¬ w.relays > Generated.memMaxRelaysPerWelcome := by omega
  have n3 : ¬ w.admins > Generated.memMaxAdminsPerWelcome := by omega
  have n4 : ¬ w.nameLen > Generated.sqlMaxGroupNameLength := by omega
  have n5 : ¬ w.descLen > Generated.sqlMaxGroupDescriptionLength := by omega
  simp only [saveWelcome, h.bm, h.bq, n1, h2, n3, n4, n5, if_false, Bool.false_eq_true]
  refine ⟨rfl, ?_⟩
  intro a b ha hb
  cases ha; cases hb
  apply agree_of m q _ _ h <;> first | rfl | exact h.bm.symm | exact h.bq.symm | exact h.secrets | exact h.pms | exact h.msgs | exact h.pws | exact h.mls | exact h.snaps | exact h.sinv | simp [h.welcomes]

theorem replaceRelays_agree (m q : Store) (h : Agree m q) (gid : Nat) (rs : List Nat)
    (hw : (decide ((sortBy natLt rs.eraseDups).length ≤ Generated.memMaxRelaysPerGroup) &&
      !(sortBy natLt rs.eraseDups).any (fun r => decide (relayLen r > Generated.memMaxRelayUrlLength))) = true) :
    (replaceRelays m gid rs).isSome = (replaceRelays q gid rs).isSome ∧
    ∀ a b, replaceRelays m gid rs = some a → replaceRelays q gid rs = some b → Agree a b := by
  simp only [Bool.and_eq_true, decide_eq_true_eq, Bool.not_eq_true'] at hw
  obtain ⟨h1, h2⟩ := hw
  have n1 : ¬ (sortBy natLt rs.eraseDups).length > Generated.memMaxRelaysPerGroup := by omega
  have hf := findGroup_eq m q h gid
  simp only [replaceRelays, h.bm, h.bq, n1, h2, hf, decide_false, Bool.and_false, Bool.false_eq_true, if_false]
  by_cases c : (findGroup q gid).isNone = true
  · simp [c]
  · simp only [c]
    refine ⟨by simp, ?_⟩
    intro a b ha hb
    simp at ha hb
    subst ha; subst hb
    exact { bm := rfl, bq := rfl, groups := h.groups, secrets := h.secrets, msgs := h.msgs, pms := h.pms,
            welcomes := h.welcomes, pws := h.pws, mls := h.mls, snaps := h.snaps,
            relays := by
              intro k
              by_cases e : k = gid
              · subst e; simp [alookup_ainsert_self]
              · simp [alookup_ainsert_ne _ _ _ _ e, h.relays k]
            idx := h.idx, ginv := h.ginv, sinv := h.sinv }

theorem dumpStr_agree (m q : Store) (h : Agree m q) : dumpStr m = dumpStr q := by
  have hfun : (fun (g : Group) =>
      g.show ++ "r" ++ natList ((alookup g.gid m.relays).getD []) ++
      "s" ++ listShow (fun (p : Nat × Nat) => s!"{p.1}:{p.2}") (sortBy pairLt (groupSecrets m g.gid)) ++
      "n" ++ optShow Group.show ((findGroupNostr m g.nid)) ++
      "M" ++ listShow Msg.show (listing m g.gid 0) ++
      "S" ++ listShow (fun (p : Nat × Nat) => s!"{p.1}@{p.2}") (snapList m g.gid)) =
    (fun (g : Group) =>
      g.show ++ "r" ++ natList ((alookup g.gid q.relays).getD []) ++
      "s" ++ listShow (fun (p : Nat × Nat) => s!"{p.1}:{p.2}") (sortBy pairLt (groupSecrets q g.gid)) ++
      "n" ++ optShow Group.show ((findGroupNostr q g.nid)) ++
      "M" ++ listShow Msg.show (listing q g.gid 0) ++
      "S" ++ listShow (fun (p : Nat × Nat) => s!"{p.1}@{p.2}") (snapList q g.gid)) := by
    funext g
    rw [h.relays g.gid, findGroupNostr_agree m q h g.nid]
    simp only [groupSecrets, listing, groupMsgs, snapList, h.secrets, h.msgs, h.snaps]
  have hfn : findGroupNostr m = findGroupNostr q := funext (findGroupNostr_agree m q h)
  simp only [dumpStr, hfun, h.groups, h.pms, h.welcomes, h.pws, h.mls]
  simp only [hfn]


theorem step_agree' (m q : Store) (h : Agree m q) (op : Op) (hw : WL m op = true) :
    (step m op).2 = (step q op).2 ∧ Agree (step m op).1 (step q op).1 := by
  cases op
  case saveGroup g =>
    obtain ⟨h1, h2⟩ := saveGroup_agree m q h g hw
    exact okErr_agree m q _ _ h h1 h2
  case findGroupNostr nid =>
    simp only [step, findGroupNostr_agree m q h nid]; first | exact ⟨rfl, h⟩ | exact ⟨trivial, h⟩ | exact h
  case messages g l o so =>
    have hp : q.msgs.length < two63 := by rw [← h.msgs]; simpa [WL] using hw
    simp only [step, messages_agree m q h g l o so hp]; first | exact ⟨rfl, h⟩ | exact ⟨trivial, h⟩ | exact h
  case saveMessage x =>
    obtain ⟨h1, h2⟩ := saveMessage_agree m q h x (by simpa [WL] using hw)
    exact okErr_agree m q _ _ h h1 h2
  case updLast g c p i =>
    simp only [step, updLastOp, findGroup_eq m q h g]
    cases hf : findGroup q g with
    | none => exact ⟨rfl, h⟩
    | some gr =>
      simp only []
      have hwl : groupWL (updLast gr (c, p, i)) = true := by
        have : groupWL gr = true := by simpa [WL, findGroup_eq m q h g, hf] using hw
        simp only [updLast]; split <;> simpa [groupWL] using this
      obtain ⟨h1, h2⟩ := saveGroup_agree m q h (updLast gr (c, p, i)) hwl
      cases hm : saveGroup m (updLast gr (c, p, i)) with
      | none =>
        cases hq : saveGroup q (updLast gr (c, p, i)) with
        | none => simp only []; exact ⟨trivial, h⟩
        | some b => rw [hm, hq] at h1; simp at h1
      | some a =>
        cases hq : saveGroup q (updLast gr (c, p, i)) with
        | none => rw [hm, hq] at h1; simp at h1
        | some b => simp only []; exact ⟨trivial, h2 a b hm hq⟩
  case findEpochByTag g t mo =>
    have hfl : Generated.sqlTagSearchCaseInsensitive = false := by decide
    simp only [step, findEpochByTag, h.msgs, h.bm, h.bq, hfl]
    exact ⟨by simp, h⟩
  case relays g =>
    simp only [step, relaysOf, findGroup_eq m q h g, h.relays g]; first | exact ⟨rfl, h⟩ | exact ⟨trivial, h⟩ | exact h
  case replaceRelays g rs =>
    obtain ⟨h1, h2⟩ := replaceRelays_agree m q h g rs (by simpa [WL] using hw)
    exact okErr_agree m q _ _ h h1 h2
  case saveWelcome w =>
    obtain ⟨h1, h2⟩ := saveWelcome_agree m q h w (by simpa [WL] using hw)
    exact okErr_agree m q _ _ h h1 h2
  case pendingWelcomes l o =>
    have hp : q.welcomes.length < two63 := by rw [← h.welcomes]; simpa [WL] using hw
    simp only [step, pendingWelcomes_agree m q h l o hp]; first | exact ⟨rfl, h⟩ | exact ⟨trivial, h⟩ | exact h
  case snapCreate g n t =>
    obtain ⟨h1, h2⟩ := snapCreate_agree m q h g n t (by simpa [WL] using hw)
    exact okErr_agree m q _ _ h h1 h2
  case snapRollback g n =>
    simp only [step, snapRollback]
    have hfs : findSnap m g n = findSnap q g n := by simp [findSnap, h.snaps]
    cases hf : findSnap q g n with
    | none => rw [hfs, hf]; first | exact ⟨rfl, h⟩ | exact ⟨trivial, h⟩ | exact h
    | some p =>
      rw [hfs, hf]
      have hfm : findSnap m g n = some p := by rw [hfs, hf]
      obtain ⟨hmem, hpg, _⟩ := findSnap_spec hfm
      have hcond : ∀ gr, p.group = some gr → m.groups.any (fun x => x.nid == gr.nid && x.gid != p.gid) = false := by
        intro gr hgr
        simp only [WL, hfm, hgr] at hw
        rw [hpg]; simpa using hw
      obtain ⟨h1, h2⟩ := restore_agree m q h p hmem hcond
      exact okErr_agree m q _ _ h h1 h2
  case snapPrune t =>
    have hfl : Generated.sqlPruneCountsRows = false := by decide
    refine ⟨?_, ?_⟩
    · simp [step, snapPrune, h.bm, h.bq, hfl, h.snaps]
    · apply agree_of m q _ _ h <;> first | rfl | exact h.secrets | exact h.pms | exact h.msgs | exact h.welcomes | exact h.pws | exact h.mls | skip
      · simp [step, snapPrune, h.snaps]
      · intro p hp
        simp only [step, snapPrune] at hp
        exact h.sinv p (List.mem_filter.mp hp).1
  case dump =>
    simp only [step, dumpStr_agree m q h]; first | exact ⟨rfl, h⟩ | exact ⟨trivial, h⟩ | exact h
  all_goals exact step_easy m q h _ trivial

theorem agree_empty : Agree (Store.empty .mem) (Store.empty .sql) :=
  { bm := rfl, bq := rfl, groups := rfl, secrets := rfl, msgs := rfl, pms := rfl, welcomes := rfl, pws := rfl, mls := rfl,
    snaps := rfl, relays := fun _ => rfl, idx := fun _ => rfl, ginv := List.Pairwise.nil,
    sinv := fun _ hp => by cases hp }

/-- every operation of a history is within `WL` at the (memory) state it is issued in -/
def WLrun (s : Store) : List Op → Bool
  | [] => true
  | o :: os => WL s o && WLrun (step s o).1 os

/-- run a history, collecting the observations -/
def observe (acc : Store × List String) (ops : List Op) : Store × List String :=
  ops.foldl (fun (acc : Store × List String) o => let r := step acc.1 o; (r.1, acc.2 ++ [r.2])) acc

theorem observe_agree (ops : List Op) : ∀ (m q : Store) (acc : List String), Agree m q → WLrun m ops = true →
    (observe (m, acc) ops).2 = (observe (q, acc) ops).2 ∧ Agree (observe (m, acc) ops).1 (observe (q, acc) ops).1 := by
  induction ops with
  | nil => intro m q acc h _; exact ⟨rfl, h⟩
  | cons o os ih =>
    intro m q acc h hw
    simp only [WLrun, Bool.and_eq_true] at hw
    obtain ⟨e, h'⟩ := step_agree' m q h o hw.1
    simp only [observe, List.foldl_cons]
    rw [← e]
    exact ih _ _ _ h' hw.2

end MdkVerif.Store
