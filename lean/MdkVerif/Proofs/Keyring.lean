import MdkVerif.Model.Keyring
import MdkVerif.Model.OpenMatrix
/-
  Proofs.Keyring — inductive invariants of the two interleaving models of `Model.Keyring`.
-/
namespace MdkVerif.Keyring

/-! ## `get_or_create_db_key` -/

/-- does the caller hold (or need to hold) KEY_GENERATION_LOCK at this program counter? -/
def Pc.inCs : Pc → Bool
  | .locked => true
  | .gen => true
  | .store _ => true
  | _ => false

/-- is the caller past the re-read that found no entry? -/
def Pc.sawNone : Pc → Bool
  | .gen => true
  | .store _ => true
  | _ => false

/-- invariant that holds for EVERY schedule, including `delete_db_key` events -/
structure Inv (s : St) : Prop where
  lockOwner : ∀ t, (s.pc t).inCs = true → s.lock = some t
  sawNone : ∀ t, (s.pc t).sawNone = true → s.ring = none
  storesBound : s.stores ≤ s.deletes + (if s.ring.isSome then 1 else 0)
  poisonFree : s.poisoned = true → s.lock = none

theorem inv_init (r : Option Nat) (p : Bool) : Inv (init r p) := by
  constructor <;> simp [init, Pc.inCs, Pc.sawNone]

/-- closes the `poisonFree` part of a step case: the lock became free, or lock and flag are unchanged -/
local macro "poison_tac" h:ident : tactic =>
  `(tactic| first | (intro _; simp [setPc, log]; done) | (simpa [setPc, log] using $h))

/-- at most one caller is inside the locked section -/
theorem Inv.cs_unique {s : St} (h : Inv s) {t u : Nat}
    (ht : (s.pc t).inCs = true) (hu : (s.pc u).inCs = true) : t = u := by
  have a := h.lockOwner t ht; have b := h.lockOwner u hu
  rw [a] at b; exact Option.some.inj b

private theorem sawNone_inCs {p : Pc} (h : p.sawNone = true) : p.inCs = true := by
  cases p <;> simp_all [Pc.sawNone, Pc.inCs]

theorem inv_stepThread (s : St) (t fresh : Nat) (ok : Bool) (h : Inv s) : Inv (stepThread true s t fresh ok) := by
  obtain ⟨h1, h2, h3, h4⟩ := h
  unfold stepThread
  split
  · -- start
    rename_i hp
    have hn : ∀ u, (s.pc u).inCs = true → u ≠ t := by
      intro u hu e; subst e; simp [hp, Pc.inCs] at hu
    split
    · split
      · refine ⟨?_, ?_, ?_, ?_⟩
        · intro u hu
          by_cases e : u = t
          · subst e; simp [setPc, Pc.inCs] at hu
          · simp [setPc, e] at hu; simpa [setPc, log] using h1 u hu
        · intro u hu
          by_cases e : u = t
          · subst e; simp [setPc, Pc.sawNone] at hu
          · simp [setPc, e] at hu; simpa [setPc, log] using h2 u hu
        · exact h3
        · poison_tac h4
      · refine ⟨?_, ?_, ?_, ?_⟩
        · intro u hu
          by_cases e : u = t
          · subst e; simp [setPc, Pc.inCs] at hu
          · simp [setPc, e] at hu; simpa [setPc, log] using h1 u hu
        · intro u hu
          by_cases e : u = t
          · subst e; simp [setPc, Pc.sawNone] at hu
          · simp [setPc, e] at hu; simpa [setPc, log] using h2 u hu
        · exact h3
        · poison_tac h4
    · refine ⟨?_, ?_, ?_, ?_⟩
      · intro u hu
        by_cases e : u = t
        · subst e; simp [setPc, Pc.inCs] at hu
        · simp [setPc, e] at hu; simpa [setPc, log] using h1 u hu
      · intro u hu
        by_cases e : u = t
        · subst e; simp [setPc, Pc.sawNone] at hu
        · simp [setPc, e] at hu; simpa [setPc, log] using h2 u hu
      · exact h3
      · poison_tac h4
  · -- wantLock
    rename_i hp
    split
    · rename_i hl
      split
      · -- poisoned: fails closed
        simp only [if_true]
        refine ⟨?_, ?_, ?_, ?_⟩
        · intro u hu
          by_cases e : u = t
          · subst e; simp [setPc, Pc.inCs] at hu
          · simp [setPc, e] at hu; simpa [setPc, log] using h1 u hu
        · intro u hu
          by_cases e : u = t
          · subst e; simp [setPc, Pc.sawNone] at hu
          · simp [setPc, e] at hu; simpa [setPc, log] using h2 u hu
        · exact h3
        · poison_tac h4
      · rename_i hq
        refine ⟨?_, ?_, ?_, ?_⟩
        · intro u hu
          by_cases e : u = t
          · subst e; simp [setPc, log]
          · simp [setPc, e] at hu
            have := h1 u hu; rw [hl] at this; cases this
        · intro u hu
          by_cases e : u = t
          · subst e; simp [setPc, Pc.sawNone] at hu
          · simp [setPc, e] at hu; simpa [setPc, log] using h2 u hu
        · exact h3
        · intro hq'; simp [setPc, log] at hq'; exact absurd hq' hq
    · exact ⟨h1, h2, h3, h4⟩
  · -- locked
    rename_i hp
    have hl : s.lock = some t := h1 t (by simp [hp, Pc.inCs])
    have huniq : ∀ u, (s.pc u).inCs = true → u = t := by
      intro u hu; have := h1 u hu; rw [hl] at this; exact (Option.some.inj this).symm
    split
    · split
      · refine ⟨?_, ?_, ?_, ?_⟩
        · intro u hu
          by_cases e : u = t
          · subst e; simp [setPc, Pc.inCs] at hu
          · simp [setPc, e] at hu; exact absurd (huniq u hu) e
        · intro u hu
          by_cases e : u = t
          · subst e; simp [setPc, Pc.sawNone] at hu
          · simp [setPc, e] at hu; exact absurd (huniq u (sawNone_inCs hu)) e
        · exact h3
        · poison_tac h4
      · rename_i hr
        refine ⟨?_, ?_, ?_, ?_⟩
        · intro u hu
          by_cases e : u = t
          · subst e; simpa [setPc, log] using hl
          · simp [setPc, e] at hu; exact absurd (huniq u hu) e
        · intro u hu
          simpa [setPc, log] using hr
        · exact h3
        · poison_tac h4
    · refine ⟨?_, ?_, ?_, ?_⟩
      · intro u hu
        by_cases e : u = t
        · subst e; simp [setPc, Pc.inCs] at hu
        · simp [setPc, e] at hu; exact absurd (huniq u hu) e
      · intro u hu
        by_cases e : u = t
        · subst e; simp [setPc, Pc.sawNone] at hu
        · simp [setPc, e] at hu; exact absurd (huniq u (sawNone_inCs hu)) e
      · exact h3
      · poison_tac h4
  · -- gen
    rename_i hp
    have hl : s.lock = some t := h1 t (by simp [hp, Pc.inCs])
    have hr : s.ring = none := h2 t (by simp [hp, Pc.sawNone])
    have huniq : ∀ u, (s.pc u).inCs = true → u = t := by
      intro u hu; have := h1 u hu; rw [hl] at this; exact (Option.some.inj this).symm
    split
    · refine ⟨?_, ?_, ?_, ?_⟩
      · intro u hu
        by_cases e : u = t
        · subst e; simpa [setPc, log] using hl
        · simp [setPc, e] at hu; exact absurd (huniq u hu) e
      · intro u hu
        simpa [setPc, log] using hr
      · exact h3
      · poison_tac h4
    · refine ⟨?_, ?_, ?_, ?_⟩
      · intro u hu
        by_cases e : u = t
        · subst e; simp [setPc, Pc.inCs] at hu
        · simp [setPc, e] at hu; exact absurd (huniq u hu) e
      · intro u hu
        by_cases e : u = t
        · subst e; simp [setPc, Pc.sawNone] at hu
        · simp [setPc, e] at hu; exact absurd (huniq u (sawNone_inCs hu)) e
      · exact h3
      · poison_tac h4
  · -- store k
    rename_i k hp
    have hl : s.lock = some t := h1 t (by simp [hp, Pc.inCs])
    have hr : s.ring = none := h2 t (by simp [hp, Pc.sawNone])
    have huniq : ∀ u, (s.pc u).inCs = true → u = t := by
      intro u hu; have := h1 u hu; rw [hl] at this; exact (Option.some.inj this).symm
    split
    · refine ⟨?_, ?_, ?_, ?_⟩
      · intro u hu
        by_cases e : u = t
        · subst e; simp [setPc, Pc.inCs] at hu
        · simp [setPc, e] at hu; exact absurd (huniq u hu) e
      · intro u hu
        by_cases e : u = t
        · subst e; simp [setPc, Pc.sawNone] at hu
        · simp [setPc, e] at hu; exact absurd (huniq u (sawNone_inCs hu)) e
      · simp [hr] at h3; simp [setPc, log]; omega
      · poison_tac h4
    · refine ⟨?_, ?_, ?_, ?_⟩
      · intro u hu
        by_cases e : u = t
        · subst e; simp [setPc, Pc.inCs] at hu
        · simp [setPc, e] at hu; exact absurd (huniq u hu) e
      · intro u hu
        by_cases e : u = t
        · subst e; simp [setPc, Pc.sawNone] at hu
        · simp [setPc, e] at hu; exact absurd (huniq u (sawNone_inCs hu)) e
      · exact h3
      · poison_tac h4
  · exact ⟨h1, h2, h3, h4⟩
  · exact ⟨h1, h2, h3, h4⟩

theorem inv_panicThread (s : St) (t : Nat) (h : Inv s) : Inv (panicThread s t) := by
  obtain ⟨h1, h2, h3, h4⟩ := h
  unfold panicThread
  split
  · exact ⟨h1, h2, h3, h4⟩
  · exact ⟨h1, h2, h3, h4⟩
  · split
    · rename_i hl
      refine ⟨?_, ?_, ?_, ?_⟩
      · intro u hu
        by_cases e : u = t
        · subst e; simp [setPc, Pc.inCs] at hu
        · simp [setPc, e] at hu
          have := h1 u hu; rw [hl] at this; exact absurd (Option.some.inj this).symm e
      · intro u hu
        by_cases e : u = t
        · subst e; simp [setPc, Pc.sawNone] at hu
        · simp [setPc, e] at hu; simpa [setPc] using h2 u hu
      · exact h3
      · intro _; simp [setPc]
    · refine ⟨?_, ?_, ?_, ?_⟩
      · intro u hu
        by_cases e : u = t
        · subst e; simp [setPc, Pc.inCs] at hu
        · simp [setPc, e] at hu; simpa [setPc] using h1 u hu
      · intro u hu
        by_cases e : u = t
        · subst e; simp [setPc, Pc.sawNone] at hu
        · simp [setPc, e] at hu; simpa [setPc] using h2 u hu
      · exact h3
      · simpa [setPc] using h4

theorem inv_step (s : St) (e : Ev) (h : Inv s) : Inv (step true s e) := by
  cases e with
  | step t fresh ok => exact inv_stepThread s t fresh ok h
  | delete =>
    obtain ⟨h1, h2, h3, h4⟩ := h
    simp only [step]
    split
    · rename_i k hr
      refine ⟨h1, ?_, ?_, h4⟩
      · intro u _; rfl
      · simp [hr] at h3; simp; omega
    · exact ⟨h1, h2, h3, h4⟩
  | panic t => exact inv_panicThread s t h

theorem inv_run (s : St) (sched : List Ev) (h : Inv s) : Inv (run true s sched) := by
  induction sched generalizing s with
  | nil => exact h
  | cons e es ih => exact ih _ (inv_step s e h)

theorem run_append (fc : Bool) (s : St) (a b : List Ev) : run fc s (a ++ b) = run fc (run fc s a) b := by
  induction a generalizing s with
  | nil => rfl
  | cons e es ih => simp [run, ih]

/-- invariant of the delete-free schedules, relative to the initial keyring content `r0` -/
structure InvN (r0 : Option Nat) (s : St) : Prop where
  base : Inv s
  noDel : s.deletes = 0
  doneKey : ∀ t k, s.pc t = .done k → s.ring = some k
  keep : ∀ k0, r0 = some k0 → s.ring = some k0 ∧ s.stores = 0

theorem invN_init (r : Option Nat) (p : Bool) : InvN r (init r p) := by
  refine ⟨inv_init r p, rfl, ?_, ?_⟩
  · intro t k h; simp [init] at h
  · intro k0 h; simp [init, h]

theorem stepThread_pc_other (fc : Bool) (s : St) (t fresh : Nat) (ok : Bool) (u : Nat) (h : u ≠ t) :
    (stepThread fc s t fresh ok).pc u = s.pc u := by
  cases hp : s.pc t <;> cases ok <;> cases hr : s.ring <;> cases hl : s.lock <;> cases hq : s.poisoned <;>
    cases fc <;> simp [stepThread, hp, hr, hl, hq, setPc, log, h]

theorem stepThread_deletes (fc : Bool) (s : St) (t fresh : Nat) (ok : Bool) :
    (stepThread fc s t fresh ok).deletes = s.deletes := by
  cases hp : s.pc t <;> cases ok <;> cases hr : s.ring <;> cases hl : s.lock <;> cases hq : s.poisoned <;>
    cases fc <;> simp [stepThread, hp, hr, hl, hq, setPc, log]

/-- no protocol step touches the poison flag: only a panic sets it, nothing clears it -/
theorem stepThread_poisoned (fc : Bool) (s : St) (t fresh : Nat) (ok : Bool) :
    (stepThread fc s t fresh ok).poisoned = s.poisoned := by
  cases hp : s.pc t <;> cases ok <;> cases hr : s.ring <;> cases hl : s.lock <;> cases hq : s.poisoned <;>
    cases fc <;> simp [stepThread, hp, hr, hl, hq, setPc, log]

/-- the keyring changes only in a successful store step -/
theorem stepThread_ring (fc : Bool) (s : St) (t fresh : Nat) (ok : Bool) :
    ((stepThread fc s t fresh ok).ring = s.ring ∧ (stepThread fc s t fresh ok).stores = s.stores) ∨
    (∃ k, s.pc t = .store k ∧ (stepThread fc s t fresh ok).ring = some k ∧
      (stepThread fc s t fresh ok).pc t = .done k) := by
  cases hp : s.pc t <;> cases ok <;> cases hr : s.ring <;> cases hl : s.lock <;> cases hq : s.poisoned <;>
    cases fc <;> simp [stepThread, hp, hr, hl, hq, setPc, log]

/-- a caller is `done k` after a step only if it was before, or it just read / stored `k` -/
theorem stepThread_done (fc : Bool) (s : St) (t fresh : Nat) (ok : Bool) (k : Nat)
    (h : (stepThread fc s t fresh ok).pc t = .done k) :
    s.pc t = .done k ∨ (stepThread fc s t fresh ok).ring = some k := by
  cases hp : s.pc t <;> cases ok <;> cases hr : s.ring <;> cases hl : s.lock <;> cases hq : s.poisoned <;>
    cases fc <;> simp_all [stepThread, setPc, log]

/-- a panic touches neither the keyring nor the counters -/
theorem panicThread_frame (s : St) (t : Nat) :
    (panicThread s t).ring = s.ring ∧ (panicThread s t).stores = s.stores ∧
    (panicThread s t).deletes = s.deletes := by
  unfold panicThread
  split
  · exact ⟨rfl, rfl, rfl⟩
  · exact ⟨rfl, rfl, rfl⟩
  · split <;> exact ⟨rfl, rfl, rfl⟩

theorem panicThread_pc_other (s : St) (t u : Nat) (h : u ≠ t) : (panicThread s t).pc u = s.pc u := by
  unfold panicThread
  split
  · rfl
  · rfl
  · split <;> simp [setPc, h]

/-- a panic never makes anybody `done` -/
theorem panicThread_done (s : St) (t u k : Nat) (h : (panicThread s t).pc u = .done k) : s.pc u = .done k := by
  by_cases e : u = t
  · subst e
    unfold panicThread at h
    split at h
    · exact h
    · exact h
    · split at h <;> simp [setPc] at h
  · rwa [panicThread_pc_other s t u e] at h

/-- a panic only sets the flag, and only when the panicking caller holds the lock -/
theorem panicThread_poisoned (s : St) (t : Nat) :
    (panicThread s t).poisoned = s.poisoned ∨ ((panicThread s t).poisoned = true ∧ s.lock = some t) := by
  unfold panicThread
  split
  · exact .inl rfl
  · exact .inl rfl
  · split
    · rename_i hl; exact .inr ⟨by simp [setPc], hl⟩
    · exact .inl (by simp [setPc])

theorem panicThread_poisoned_mono (s : St) (t : Nat) (h : s.poisoned = true) : (panicThread s t).poisoned = true := by
  rcases panicThread_poisoned s t with h1 | h1
  · rw [h1]; exact h
  · exact h1.1

theorem step_poisoned_mono (fc : Bool) (s : St) (e : Ev) (h : s.poisoned = true) : (step fc s e).poisoned = true := by
  cases e with
  | step t fresh ok => simp only [step]; rw [stepThread_poisoned]; exact h
  | delete => simp only [step]; split <;> exact h
  | panic t => exact panicThread_poisoned_mono s t h

theorem run_poisoned_mono (fc : Bool) (s : St) (sched : List Ev) (h : s.poisoned = true) :
    (run fc s sched).poisoned = true := by
  induction sched generalizing s with
  | nil => exact h
  | cons e es ih => exact ih _ (step_poisoned_mono fc s e h)

/-- the flag is set only by a panic of the caller that holds the lock -/
theorem step_poisons (fc : Bool) (s : St) (e : Ev) (h0 : s.poisoned = false) (h : (step fc s e).poisoned = true) :
    ∃ t, e = .panic t ∧ s.lock = some t := by
  cases e with
  | step t fresh ok => simp only [step] at h; rw [stepThread_poisoned, h0] at h; cases h
  | delete =>
    simp only [step] at h
    split at h <;> (have h' : s.poisoned = true := h; rw [h0] at h'; cases h')
  | panic t =>
    rcases panicThread_poisoned s t with h1 | h1
    · simp only [step] at h; rw [h1, h0] at h; cases h
    · exact ⟨t, rfl, h1.2⟩

theorem run_poisons (fc : Bool) (s : St) (sched : List Ev) (h0 : s.poisoned = false)
    (h : (run fc s sched).poisoned = true) :
    ∃ pre t post, sched = pre ++ .panic t :: post ∧ (run fc s pre).lock = some t := by
  induction sched generalizing s with
  | nil => simp only [run] at h; rw [h0] at h; cases h
  | cons e es ih =>
    cases hq : (step fc s e).poisoned with
    | true =>
      obtain ⟨t, he, hl⟩ := step_poisons fc s e h0 hq
      exact ⟨[], t, es, by simp [he], hl⟩
    | false =>
      obtain ⟨pre, t, post, h1, h2⟩ := ih (step fc s e) hq h
      exact ⟨e :: pre, t, post, by simp [h1], h2⟩

/-- without panics the flag never changes -/
theorem run_no_panic_poisoned (fc : Bool) (s : St) (sched : List Ev) (hnp : sched.all (fun e => !e.isPanic) = true) :
    (run fc s sched).poisoned = s.poisoned := by
  induction sched generalizing s with
  | nil => rfl
  | cons e es ih =>
    simp only [List.all_cons, Bool.and_eq_true] at hnp
    simp only [run]
    rw [ih _ hnp.2]
    cases e with
    | step t fresh ok => exact stepThread_poisoned fc s t fresh ok
    | delete => simp only [step]; split <;> rfl
    | panic t => simp [Ev.isPanic] at hnp

/-- with the fail-closed rule the lock is held only by a caller inside the locked section (the guard
    is released on every way out, a panic included) -/
def LockHeld (s : St) : Prop := ∀ t, s.lock = some t → (s.pc t).inCs = true

theorem lockHeld_stepThread (s : St) (t fresh : Nat) (ok : Bool) (hi : Inv s) (h : LockHeld s) :
    LockHeld (stepThread true s t fresh ok) := by
  intro u hu
  have hcs := hi.lockOwner
  by_cases e : u = t
  · subst e
    have := h u
    cases hp : s.pc u <;> cases ok <;> cases hr : s.ring <;> cases hl : s.lock <;> cases hq : s.poisoned <;>
      simp_all [stepThread, setPc, log, Pc.inCs]
  · rw [stepThread_pc_other true s t fresh ok u e]
    have hl : s.lock = some u := by
      have ht := hcs t
      cases hp : s.pc t <;> cases ok <;> cases hr : s.ring <;> cases hl : s.lock <;> cases hq : s.poisoned <;>
        simp_all [stepThread, setPc, log, Pc.inCs]
    exact h u hl

theorem panicThread_eq (s : St) (t : Nat) :
    panicThread s t = s ∨
    (s.lock = some t ∧ panicThread s t = setPc { s with lock := none, poisoned := true } t .failed) ∨
    (s.lock ≠ some t ∧ panicThread s t = setPc s t .failed) := by
  unfold panicThread
  split
  · exact .inl rfl
  · exact .inl rfl
  · split
    · rename_i hl; exact .inr (.inl ⟨hl, rfl⟩)
    · rename_i hl; exact .inr (.inr ⟨hl, rfl⟩)

theorem lockHeld_panicThread (s : St) (t : Nat) (h : LockHeld s) : LockHeld (panicThread s t) := by
  intro u hu
  rcases panicThread_eq s t with h1 | ⟨_, h1⟩ | ⟨hl, h1⟩
  · rw [h1] at hu ⊢; exact h u hu
  · rw [h1] at hu; simp [setPc] at hu
  · rw [h1] at hu ⊢
    have hu' : s.lock = some u := by simpa [setPc] using hu
    have hne : u ≠ t := by intro e; subst e; exact hl hu'
    simp only [setPc, hne, if_false]; exact h u hu'

theorem lockHeld_step (s : St) (e : Ev) (hi : Inv s) (h : LockHeld s) : LockHeld (step true s e) := by
  cases e with
  | step t fresh ok => exact lockHeld_stepThread s t fresh ok hi h
  | delete => simp only [step]; split <;> exact h
  | panic t => exact lockHeld_panicThread s t h

theorem lockHeld_run (s : St) (sched : List Ev) (hi : Inv s) (h : LockHeld s) : LockHeld (run true s sched) := by
  induction sched generalizing s with
  | nil => exact h
  | cons e es ih => exact ih _ (inv_step s e hi) (lockHeld_step s e hi h)

theorem lockHeld_init (r : Option Nat) (p : Bool) : LockHeld (init r p) := by
  intro t h; simp [init] at h

/-! ### once the lock is poisoned (fail-closed rule) nothing is ever stored again -/

/-- what a poisoned state `s` may still become, relative to the state `s0` it was poisoned in -/
structure Frozen (s0 s : St) : Prop where
  inv : Inv s
  poisoned : s.poisoned = true
  stores : s.stores = s0.stores
  ring : s.ring = s0.ring ∨ s.ring = none
  ringKeep : s.deletes = s0.deletes → s.ring = s0.ring
  deletes : s0.deletes ≤ s.deletes
  done : ∀ t k, s.pc t = .done k → s0.pc t = .done k ∨ s0.ring = some k

theorem frozen_refl (s : St) (hi : Inv s) (hp : s.poisoned = true) : Frozen s s :=
  ⟨hi, hp, rfl, .inl rfl, fun _ => rfl, Nat.le_refl _, fun _ _ h => .inl h⟩

/-- a protocol step in a poisoned state (fail-closed rule): nothing stored, keyring untouched, and
    whoever returns `Ok k` read `k` from the keyring -/
theorem stepThread_when_poisoned (s : St) (t fresh : Nat) (ok : Bool) (hi : Inv s) (hp : s.poisoned = true) :
    (stepThread true s t fresh ok).stores = s.stores ∧ (stepThread true s t fresh ok).ring = s.ring ∧
    ∀ k, (stepThread true s t fresh ok).pc t = .done k → s.pc t = .done k ∨ s.ring = some k := by
  have hl : s.lock = none := hi.poisonFree hp
  have hcs := hi.lockOwner t
  cases hpc : s.pc t <;> cases ok <;> cases hr : s.ring <;>
    simp_all [stepThread, setPc, log, Pc.inCs]

theorem frozen_step (s0 s : St) (e : Ev) (h : Frozen s0 s) : Frozen s0 (step true s e) := by
  obtain ⟨hi, hp, hs, hr, hrk, hd, hdone⟩ := h
  refine ⟨inv_step s e hi, step_poisoned_mono true s e hp, ?_, ?_, ?_, ?_, ?_⟩
  · cases e with
    | step t fresh ok => simp only [step]; rw [(stepThread_when_poisoned s t fresh ok hi hp).1]; exact hs
    | delete => simp only [step]; split <;> exact hs
    | panic t => simp only [step]; rw [(panicThread_frame s t).2.1]; exact hs
  · cases e with
    | step t fresh ok => simp only [step]; rw [(stepThread_when_poisoned s t fresh ok hi hp).2.1]; exact hr
    | delete => simp only [step]; split
                · exact .inr rfl
                · exact hr
    | panic t => simp only [step]; rw [(panicThread_frame s t).1]; exact hr
  · cases e with
    | step t fresh ok =>
      simp only [step]; rw [(stepThread_when_poisoned s t fresh ok hi hp).2.1, stepThread_deletes]; exact hrk
    | delete =>
      simp only [step]; split
      · intro hc; simp at hc; omega
      · exact hrk
    | panic t => simp only [step]; rw [(panicThread_frame s t).1, (panicThread_frame s t).2.2]; exact hrk
  · cases e with
    | step t fresh ok => simp only [step]; rw [stepThread_deletes]; exact hd
    | delete => simp only [step]; split
                · simp; omega
                · exact hd
    | panic t => simp only [step]; rw [(panicThread_frame s t).2.2]; exact hd
  · intro u k hu
    cases e with
    | step t fresh ok =>
      simp only [step] at hu
      by_cases e : u = t
      · subst e
        rcases (stepThread_when_poisoned s u fresh ok hi hp).2.2 k hu with h1 | h1
        · exact hdone u k h1
        · rcases hr with h2 | h2
          · exact .inr (by rw [← h2]; exact h1)
          · rw [h2] at h1; cases h1
      · rw [stepThread_pc_other true s t fresh ok u e] at hu; exact hdone u k hu
    | delete =>
      simp only [step] at hu
      split at hu <;> exact hdone u k hu
    | panic t => exact hdone u k (panicThread_done s t u k hu)

theorem frozen_run (s0 s : St) (sched : List Ev) (h : Frozen s0 s) : Frozen s0 (run true s sched) := by
  induction sched generalizing s with
  | nil => exact h
  | cons e es ih => exact ih _ (frozen_step s0 s e h)

/-- deletes are counted: a delete-free schedule leaves the counter alone -/
theorem run_noDelete_deletes (fc : Bool) (s : St) (sched : List Ev) (hnd : noDelete sched = true) :
    (run fc s sched).deletes = s.deletes := by
  induction sched generalizing s with
  | nil => rfl
  | cons e es ih =>
    simp only [noDelete, List.all_cons, Bool.and_eq_true] at hnd
    simp only [run]
    rw [ih _ (by simpa [noDelete] using hnd.2)]
    cases e with
    | step t fresh ok => exact stepThread_deletes fc s t fresh ok
    | delete => simp [Ev.isDelete] at hnd
    | panic t => exact (panicThread_frame s t).2.2

theorem invN_stepThread (r0 : Option Nat) (s : St) (t fresh : Nat) (ok : Bool) (h : InvN r0 s) :
    InvN r0 (stepThread true s t fresh ok) := by
  obtain ⟨hb, hd, hk, hkeep⟩ := h
  have hb' := inv_stepThread s t fresh ok hb
  refine ⟨hb', ?_, ?_, ?_⟩
  · rw [stepThread_deletes]; exact hd
  · intro u k hu
    by_cases e : u = t
    · subst e
      rcases stepThread_done true s u fresh ok k hu with h1 | h1
      · rcases stepThread_ring true s u fresh ok with ⟨h2, _⟩ | ⟨k', h2, _, _⟩
        · rw [h2]; exact hk u k h1
        · rw [h1] at h2; cases h2
      · exact h1
    · rw [stepThread_pc_other true s t fresh ok u e] at hu
      rcases stepThread_ring true s t fresh ok with ⟨h2, _⟩ | ⟨k', h2, _, _⟩
      · rw [h2]; exact hk u k hu
      · have hr : s.ring = none := hb.sawNone t (by simp [h2, Pc.sawNone])
        have := hk u k hu; rw [hr] at this; cases this
  · intro k0 hr0
    obtain ⟨hring, hst⟩ := hkeep k0 hr0
    rcases stepThread_ring true s t fresh ok with ⟨h2, h3⟩ | ⟨k', h2, _, _⟩
    · rw [h2, h3]; exact ⟨hring, hst⟩
    · have hr : s.ring = none := hb.sawNone t (by simp [h2, Pc.sawNone])
      rw [hr] at hring; cases hring

theorem invN_panicThread (r0 : Option Nat) (s : St) (t : Nat) (h : InvN r0 s) : InvN r0 (panicThread s t) := by
  obtain ⟨hb, hd, hk, hkeep⟩ := h
  obtain ⟨f1, f2, f3⟩ := panicThread_frame s t
  refine ⟨inv_panicThread s t hb, by rw [f3]; exact hd, ?_, ?_⟩
  · intro u k hu; rw [f1]; exact hk u k (panicThread_done s t u k hu)
  · intro k0 hr0; rw [f1, f2]; exact hkeep k0 hr0

theorem invN_run (r0 : Option Nat) (s : St) (sched : List Ev) (hnd : noDelete sched = true) (h : InvN r0 s) :
    InvN r0 (run true s sched) := by
  induction sched generalizing s with
  | nil => exact h
  | cons e es ih =>
    simp only [noDelete, List.all_cons, Bool.and_eq_true] at hnd
    cases e with
    | step t fresh ok => exact ih _ (by simpa [noDelete] using hnd.2) (invN_stepThread r0 s t fresh ok h)
    | delete => simp [Ev.isDelete] at hnd
    | panic t => exact ih _ (by simpa [noDelete] using hnd.2) (invN_panicThread r0 s t h)

/-! ## concurrent `MdkSqliteStorage::new` -/

/-- without deletes an entry, once present, stays -/
theorem stepThread_ring_some (s : St) (t fresh : Nat) (ok : Bool) (h : Inv s) (k : Nat)
    (hr : s.ring = some k) : (stepThread true s t fresh ok).ring = some k := by
  rcases stepThread_ring true s t fresh ok with ⟨h2, _⟩ | ⟨k', h2, _, _⟩
  · rw [h2]; exact hr
  · have : s.ring = none := h.sawNone t (by simp [h2, Pc.sawNone])
    rw [this] at hr; cases hr

/-- with a working keyring a protocol step returns `Err` only because the lock is poisoned -/
theorem stepThread_failed_why (s : St) (t fresh : Nat) (h : (stepThread true s t fresh true).pc t = .failed) :
    s.pc t = .failed ∨ s.poisoned = true := by
  cases hp : s.pc t <;> cases hr : s.ring <;> cases hl : s.lock <;> cases hq : s.poisoned <;>
    simp_all [stepThread, setPc, log]

/-- the key a caller has committed to, if any -/
def NPc.key : NPc → Option Nat
  | .opening k => some k
  | .ok k => some k
  | _ => none

structure NInv (s : NSt) : Prop where
  base : InvN none s.k
  keyIsRing : ∀ t k, (s.pc t).key = some k → s.k.ring = some k
  fileKey : ∀ k, s.file = .enc k → s.k.ring = some k
  noWrongKey : ∀ t, s.pc t ≠ .err .wrongKey
  /-- `Error::Keyring` is returned only when KEY_GENERATION_LOCK is poisoned -/
  keyringErr : ∀ t, s.pc t = .err .keyring → s.k.poisoned = true
  /-- `get_or_create_db_key` fails only by a panic of this call or because the lock is poisoned -/
  failedWhy : ∀ t, s.k.pc t = .failed → s.pc t = .panicked ∨ s.k.poisoned = true
  /-- a caller that has opened did so on a file that is (now) encrypted under its key -/
  okFile : ∀ t k, s.pc t = .ok k → s.file = .enc k

theorem ninv_init (p : Bool) : NInv (ninit p) := by
  refine ⟨invN_init none p, ?_, ?_, ?_, ?_, ?_, ?_⟩ <;> simp [ninit, NPc.key, init]

/-- moving caller `t` to `p`, the file becoming `f`: what has to be checked -/
theorem NInv.move {s : NSt} (h : NInv s) (t : Nat) (p : NPc) (f : NFile)
    (hkey : ∀ k, p.key = some k → s.k.ring = some k)
    (hfile : ∀ k, f = .enc k → s.k.ring = some k)
    (hw : p ≠ .err .wrongKey)
    (he : p = .err .keyring → s.k.poisoned = true)
    (hf : s.k.pc t = .failed → p = .panicked ∨ s.k.poisoned = true)
    (hok : ∀ k, p = .ok k → f = .enc k)
    (hothers : ∀ u k, u ≠ t → s.pc u = .ok k → f = .enc k) :
    NInv (nset { s with file := f } t p) := by
  obtain ⟨hb, hk, hfk, hwk, hke, hfw, hof⟩ := h
  refine ⟨hb, ?_, hfile, ?_, ?_, ?_, ?_⟩
  · intro u k hu
    by_cases e : u = t
    · subst e; simp [nset] at hu; exact hkey k hu
    · simp [nset, e] at hu; exact hk u k hu
  · intro u; by_cases e : u = t
    · subst e; simpa [nset] using hw
    · simp [nset, e]; exact hwk u
  · intro u; by_cases e : u = t
    · subst e; simpa [nset] using he
    · simp [nset, e]; exact hke u
  · intro u; by_cases e : u = t
    · subst e; simpa [nset] using hf
    · simp [nset, e]; exact hfw u
  · intro u k; by_cases e : u = t
    · subst e; simpa [nset] using hok k
    · simp [nset, e]; exact hothers u k e

/-- … the file staying as it is -/
theorem NInv.move' {s : NSt} (h : NInv s) (t : Nat) (p : NPc)
    (hkey : ∀ k, p.key = some k → s.k.ring = some k)
    (hw : p ≠ .err .wrongKey)
    (he : p = .err .keyring → s.k.poisoned = true)
    (hf : s.k.pc t = .failed → p = .panicked ∨ s.k.poisoned = true)
    (hok : ∀ k, p = .ok k → s.file = .enc k) :
    NInv (nset s t p) :=
  h.move t p s.file hkey h.fileKey hw he hf hok (fun u k _ hu => h.okFile u k hu)

/-- a caller that is not `panicked` and whose keyring call failed: the lock is poisoned -/
theorem NInv.failed_poisoned {s : NSt} (h : NInv s) (t : Nat) (hp : s.pc t ≠ .panicked)
    (hf : s.k.pc t = .failed) : s.k.poisoned = true := by
  rcases h.failedWhy t hf with h1 | h1
  · exact absurd h1 hp
  · exact h1

theorem ninv_step (s : NSt) (t fresh : Nat) (h : NInv s) : NInv (nstep true s t fresh) := by
  unfold nstep
  split
  · -- pre
    rename_i hp
    have hnp : s.pc t ≠ .panicked := by rw [hp]; simp
    split
    · rename_i hfile
      refine h.move t .kr .empty (by simp [NPc.key]) (by simp) (by simp) (by simp)
        (fun hf => .inr (h.failed_poisoned t hnp hf)) (by simp) ?_
      intro u k _ hu; have := h.okFile u k hu; rw [hfile] at this; cases this
    · exact h.move' t .chk (by simp [NPc.key]) (by simp) (by simp)
        (fun hf => .inr (h.failed_poisoned t hnp hf)) (by simp)
  · -- kr
    rename_i hp
    have hnp : s.pc t ≠ .panicked := by rw [hp]; simp
    split
    · rename_i k hd
      have hr : s.k.ring = some k := h.base.doneKey t k hd
      exact h.move' t (.opening k) (by intro k' hk'; simp [NPc.key] at hk'; subst hk'; exact hr) (by simp) (by simp)
        (fun hf => .inr (h.failed_poisoned t hnp hf)) (by simp)
    · rename_i hd
      exact h.move' t (.err .keyring) (by simp [NPc.key]) (by simp) (fun _ => h.failed_poisoned t hnp hd)
        (fun hf => .inr (h.failed_poisoned t hnp hf)) (by simp)
    · obtain ⟨hb, hk, hf, hw, he, hfw, hof⟩ := h
      refine ⟨invN_stepThread none s.k t fresh true hb, ?_, ?_, hw, ?_, ?_, hof⟩
      · intro u k hu
        exact stepThread_ring_some s.k t fresh true hb.base k (hk u k hu)
      · intro k hk'
        exact stepThread_ring_some s.k t fresh true hb.base k (hf k hk')
      · intro u hu; show (stepThread true s.k t fresh true).poisoned = true
        rw [stepThread_poisoned]; exact he u hu
      · intro u hu
        show s.pc u = .panicked ∨ (stepThread true s.k t fresh true).poisoned = true
        rw [stepThread_poisoned]
        by_cases e : u = t
        · subst e
          rcases stepThread_failed_why s.k u fresh hu with h1 | h1
          · exact hfw u h1
          · exact .inr h1
        · have hu' : (stepThread true s.k t fresh true).pc u = .failed := hu
          rw [stepThread_pc_other true s.k t fresh true u e] at hu'; exact hfw u hu'
  · -- chk
    rename_i hp
    have hnp : s.pc t ≠ .panicked := by rw [hp]; simp
    split
    · rename_i k hr
      exact h.move' t (.opening k) (by intro k' hk'; simp [NPc.key] at hk'; subst hk'; exact hr) (by simp) (by simp)
        (fun hf => .inr (h.failed_poisoned t hnp hf)) (by simp)
    · exact h.move' t .probe (by simp [NPc.key]) (by simp) (by simp)
        (fun hf => .inr (h.failed_poisoned t hnp hf)) (by simp)
  · -- probe
    rename_i hp
    have hnp : s.pc t ≠ .panicked := by rw [hp]; simp
    split
    · exact h.move' t (.err .keyMissing) (by simp [NPc.key]) (by simp) (by simp)
        (fun hf => .inr (h.failed_poisoned t hnp hf)) (by simp)
    · exact h.move' t (.err .unencrypted) (by simp [NPc.key]) (by simp) (by simp)
        (fun hf => .inr (h.failed_poisoned t hnp hf)) (by simp)
  · -- opening k
    rename_i k hp
    have hnp : s.pc t ≠ .panicked := by rw [hp]; simp
    have hr : s.k.ring = some k := h.keyIsRing t k (by simp [hp, NPc.key])
    split
    · rename_i k' hfile
      have hr' := h.fileKey k' hfile
      have hkk : k = k' := by rw [hr] at hr'; exact Option.some.inj hr'
      simp only [hkk, if_true]
      exact h.move' t (.ok k') (by intro k'' hk''; simp [NPc.key] at hk''; subst hk''; exact hr') (by simp) (by simp)
        (fun hf => .inr (h.failed_poisoned t hnp hf)) (by intro k'' hk''; simp at hk''; subst hk''; exact hfile)
    · rename_i hfile
      refine h.move t (.ok k) (.enc k) (by intro k'' hk''; simp [NPc.key] at hk''; subst hk''; exact hr)
        (by intro k'' hk''; simp at hk''; subst hk''; exact hr) (by simp) (by simp)
        (fun hf => .inr (h.failed_poisoned t hnp hf)) (by intro k'' hk''; simp at hk''; subst hk''; rfl) ?_
      intro u k'' _ hu; exact absurd (h.okFile u k'' hu) (hfile k'')
  · exact h
  · exact h
  · exact h

theorem ninv_panic (s : NSt) (t : Nat) (h : NInv s) : NInv (npanic s t) := by
  unfold npanic
  split
  · exact h
  · exact h
  · exact h
  · -- inside get_or_create_db_key
    obtain ⟨hb, hk, hf, hw, he, hfw, hof⟩ := h
    obtain ⟨f1, _, _⟩ := panicThread_frame s.k t
    refine ⟨invN_panicThread none s.k t hb, ?_, ?_, ?_, ?_, ?_, ?_⟩
    · intro u k hu
      by_cases e : u = t
      · subst e; simp [nset, NPc.key] at hu
      · simp [nset, e] at hu; simp only [nset]; rw [f1]; exact hk u k hu
    · intro k hk'; simp only [nset] at hk' ⊢; rw [f1]; exact hf k hk'
    · intro u; by_cases e : u = t
      · subst e; simp [nset]
      · simp [nset, e]; exact hw u
    · intro u hu
      by_cases e : u = t
      · subst e; simp [nset] at hu
      · simp [nset, e] at hu; simp only [nset]; exact panicThread_poisoned_mono s.k t (he u hu)
    · intro u hu
      by_cases e : u = t
      · subst e; simp [nset]
      · simp only [nset] at hu ⊢
        rw [panicThread_pc_other s.k t u e] at hu
        simp [e]
        rcases hfw u hu with h1 | h1
        · exact .inl h1
        · exact .inr (panicThread_poisoned_mono s.k t h1)
    · intro u k hu
      by_cases e : u = t
      · subst e; simp [nset] at hu
      · simp [nset, e] at hu; simpa [nset] using hof u k hu
  · exact h.move' t .panicked (by simp [NPc.key]) (by simp) (by simp) (fun _ => .inl rfl) (by simp)

theorem ninv_stepEv (s : NSt) (e : NEv) (h : NInv s) : NInv (nstepEv true s e) := by
  cases e with
  | step t f => exact ninv_step s t f h
  | panic t => exact ninv_panic s t h

theorem ninv_run (s : NSt) (sched : List NEv) (h : NInv s) : NInv (nrun true s sched) := by
  induction sched generalizing s with
  | nil => exact h
  | cons e es ih => exact ih _ (ninv_stepEv s e h)

theorem nrun_append (fc : Bool) (s : NSt) (a b : List NEv) : nrun fc s (a ++ b) = nrun fc (nrun fc s a) b := by
  induction a generalizing s with
  | nil => rfl
  | cons e es ih => simp [nrun, ih]

/-- the poison flag of a `new` run changes only by a panic -/
theorem nrun_no_panic_poisoned (fc : Bool) (s : NSt) (sched : List NEv)
    (hnp : sched.all (fun e => !e.isPanic) = true) : (nrun fc s sched).k.poisoned = s.k.poisoned := by
  induction sched generalizing s with
  | nil => rfl
  | cons e es ih =>
    simp only [List.all_cons, Bool.and_eq_true] at hnp
    simp only [nrun]
    rw [ih _ hnp.2]
    cases e with
    | panic t => simp [NEv.isPanic] at hnp
    | step t f =>
      simp only [nstepEv, nstep]
      split
      · split <;> rfl
      · split
        · rfl
        · rfl
        · exact stepThread_poisoned fc s.k t f true
      · split <;> rfl
      · split <;> rfl
      · split
        · split <;> rfl
        · rfl
      · rfl
      · rfl
      · rfl

/-- a step of a `new` call leaves the keyring part alone or is one step of it -/
theorem nstepEv_k (fc : Bool) (s : NSt) (e : NEv) :
    (nstepEv fc s e).k = s.k ∨ ∃ ev, (nstepEv fc s e).k = step fc s.k ev := by
  cases e with
  | step t f =>
    simp only [nstepEv, nstep]
    split
    · split <;> exact .inl rfl
    · split
      · exact .inl rfl
      · exact .inl rfl
      · exact .inr ⟨.step t f true, rfl⟩
    · split <;> exact .inl rfl
    · split <;> exact .inl rfl
    · split
      · split <;> exact .inl rfl
      · exact .inl rfl
    · exact .inl rfl
    · exact .inl rfl
    · exact .inl rfl
  | panic t =>
    simp only [nstepEv, npanic]
    split
    · exact .inl rfl
    · exact .inl rfl
    · exact .inl rfl
    · exact .inr ⟨.panic t, rfl⟩
    · exact .inl rfl

theorem nfrozen_run (s0 : St) (s : NSt) (sched : List NEv) (h : Frozen s0 s.k) :
    Frozen s0 (nrun true s sched).k := by
  induction sched generalizing s with
  | nil => exact h
  | cons e es ih =>
    apply ih
    rcases nstepEv_k true s e with h1 | ⟨ev, h1⟩
    · rw [h1]; exact h
    · rw [h1]; exact frozen_step s0 s.k ev h

/-- after the creator has finished: the file is encrypted under `f`, the keyring holds `f`, and every
    caller is before its keyring read, or holds `f`, or has panicked -/
structure NDone (f : Nat) (s : NSt) : Prop where
  file : s.file = .enc f
  ring : s.k.ring = some f
  pcs : ∀ u, s.pc u = .pre ∨ s.pc u = .chk ∨ s.pc u = .opening f ∨ s.pc u = .ok f ∨ s.pc u = .panicked

theorem ndone_step (fc : Bool) (f : Nat) (s : NSt) (e : NEv) (h : NDone f s) : NDone f (nstepEv fc s e) := by
  obtain ⟨hf, hr, hp⟩ := h
  have keep : ∀ (t : Nat) (p : NPc), (p = .pre ∨ p = .chk ∨ p = .opening f ∨ p = .ok f ∨ p = .panicked) →
      NDone f (nset s t p) := by
    intro t p hpp
    refine ⟨by simpa [nset] using hf, by simpa [nset] using hr, ?_⟩
    intro u; by_cases e : u = t
    · subst e; simpa [nset] using hpp
    · simpa [nset, e] using hp u
  cases e with
  | step t fresh =>
    simp only [nstepEv]
    rcases hp t with h0 | h0 | h0 | h0 | h0
    · have : nstep fc s t fresh = nset s t .chk := by simp [nstep, h0, hf]
      rw [this]; exact keep _ _ (by simp)
    · have : nstep fc s t fresh = nset s t (.opening f) := by simp [nstep, h0, hr]
      rw [this]; exact keep _ _ (by simp)
    · have : nstep fc s t fresh = nset s t (.ok f) := by simp [nstep, h0, hf]
      rw [this]; exact keep _ _ (by simp)
    · have : nstep fc s t fresh = s := by simp [nstep, h0]
      rw [this]; exact ⟨hf, hr, hp⟩
    · have : nstep fc s t fresh = s := by simp [nstep, h0]
      rw [this]; exact ⟨hf, hr, hp⟩
  | panic t =>
    simp only [nstepEv]
    rcases hp t with h0 | h0 | h0 | h0 | h0
    · have : npanic s t = nset s t .panicked := by simp [npanic, h0]
      rw [this]; exact keep _ _ (by simp)
    · have : npanic s t = nset s t .panicked := by simp [npanic, h0]
      rw [this]; exact keep _ _ (by simp)
    · have : npanic s t = nset s t .panicked := by simp [npanic, h0]
      rw [this]; exact keep _ _ (by simp)
    · have : npanic s t = s := by simp [npanic, h0]
      rw [this]; exact ⟨hf, hr, hp⟩
    · have : npanic s t = s := by simp [npanic, h0]
      rw [this]; exact ⟨hf, hr, hp⟩

theorem ndone_run (fc : Bool) (f : Nat) (s : NSt) (sched : List NEv) (h : NDone f s) : NDone f (nrun fc s sched) := by
  induction sched generalizing s with
  | nil => exact h
  | cons e es ih => exact ih _ (ndone_step fc f s e h)

/-- eight steps of a lone creator (lock not poisoned): precreate, read, lock, read, generate, store,
    return, open -/
theorem creator_prefix_done (fc : Bool) (t f : Nat) :
    NDone f (nrun fc ninit (List.replicate 8 (.step t f))) := by
  refine ⟨?_, ?_, ?_⟩
  · simp [List.replicate, nrun, nstepEv, nstep, ninit, nset, init, stepThread, setPc, log]
  · simp [List.replicate, nrun, nstepEv, nstep, ninit, nset, init, stepThread, setPc, log]
  · intro u
    by_cases e : u = t
    · subst e; simp [List.replicate, nrun, nstepEv, nstep, ninit, nset, init, stepThread, setPc, log]
    · simp [List.replicate, nrun, nstepEv, nstep, ninit, nset, init, stepThread, setPc, log, e]

end MdkVerif.Keyring

/-! ## projections of the constructor logic (`Model.OpenMatrix`) -/
namespace MdkVerif.OpenMatrix

theorem sqlOpen_some_ok (f f' : FileSt) (k d : Nat) (h : sqlOpen f (some k) = .ok (f', d)) (hs : f ≠ .special) :
    f' = .enc k d := by
  cases f <;> simp [sqlOpen] at h hs ⊢
  · exact h.1.symm ▸ h.2 ▸ rfl
  · exact h.1.symm ▸ h.2 ▸ rfl
  · rename_i k' d'
    split at h
    · rename_i e; simp at h; subst e; exact h.1.symm ▸ h.2 ▸ rfl
    · simp at h

theorem sqlOpen_special (f f' : FileSt) (key : Option Key) (d : Nat) (h : sqlOpen f key = .ok (f', d)) :
    f' = .special ↔ f = .special := by
  cases key <;> cases f <;> simp [sqlOpen] at h ⊢ <;> (try (obtain ⟨h1, _⟩ := h; subst h1; simp))
  rename_i k k' d'
  split at h <;> simp at h
  obtain ⟨h1, _⟩ := h; subst h1; simp

/-- `new_internal_skip_precreate` touches neither the keyring nor the directory -/
theorem finishOpen_keeps (w : World) (key : Option Key) :
    (finishOpen w key).1.stores = w.stores ∧ (finishOpen w key).1.ring = w.ring ∧ (finishOpen w key).1.dir = w.dir := by
  unfold finishOpen
  split
  · simp
  · split <;> simp

theorem finishOpen_opened (w : World) (key key' : Option Key) (d : Nat) (hs : w.file ≠ .special)
    (h : (finishOpen w key).2 = .opened key' d) :
    key' = key ∧ (finishOpen w key).1.fmode = mode600 ∧ (∀ k, key = some k → (finishOpen w key).1.file = .enc k d) := by
  unfold finishOpen at h ⊢
  split at h
  · simp at h
  · rename_i f d' heq
    have hsp := sqlOpen_special w.file f key d' heq
    split at h
    · exact absurd (hsp.mp rfl) hs
    · rename_i hne
      simp at h
      refine ⟨h.1.symm, rfl, ?_⟩
      intro k hk; subst hk
      have := sqlOpen_some_ok w.file f k d' heq hs
      simp [this, h.2]

theorem precreate_keeps (w : World) :
    (precreate w).1.stores = w.stores ∧ (precreate w).1.ring = w.ring ∧
    ((precreate w).1.file = .special ↔ w.file = .special) ∧
    (w.file ≠ .special → (precreate w).1.dir = some (w.dir.getD mode700) ∧ (precreate w).1.file ≠ .missing) ∧
    (w.file = .special → (precreate w).1 = w) ∧
    (fileExists w.file = true → (precreate w).2 = .existed ∧ (precreate w).1.file = w.file) ∧
    (w.file = .missing → (precreate w).2 = .created ∧ (precreate w).1.file = .empty) := by
  obtain ⟨file, ring, fmode, dir, stores⟩ := w
  cases file <;> cases dir <;> simp [precreate, fileExists]

theorem getOrCreate_keeps (w : World) (fresh : Key) :
    (getOrCreate w fresh).1.file = w.file ∧ (getOrCreate w fresh).1.dir = w.dir ∧ (getOrCreate w fresh).1.fmode = w.fmode ∧
    w.stores ≤ (getOrCreate w fresh).1.stores ∧ (getOrCreate w fresh).1.stores ≤ w.stores + 1 := by
  obtain ⟨file, ring, fmode, dir, stores⟩ := w
  cases ring <;> simp [getOrCreate, getDbKey]

/-- a successful `finishOpen` on a real path: 0600, directory untouched, and with a key the file is a
    database under that key -/
theorem finishOpen_ok (w : World) (key key' : Option Key) (d : Nat) (hs : w.file ≠ .special)
    (h : (finishOpen w key).2 = .opened key' d) :
    key' = key ∧ (finishOpen w key).1.fmode = mode600 ∧ (finishOpen w key).1.dir = w.dir ∧
    (∀ k, key = some k → (finishOpen w key).1.file = .enc k d) :=
  let ⟨a, b, c⟩ := finishOpen_opened w key key' d hs h
  ⟨a, b, (finishOpen_keeps w key).2.2, c⟩

/-- every successful constructor call on a real path, through whichever branch -/
theorem openDb_opened (w : World) (c : Ctor) (fresh : Nat) (key : Option Key) (d : Nat)
    (hs : w.file ≠ .special) (ho : (openDb w c fresh).2 = .opened key d) :
    (openDb w c fresh).1.fmode = mode600 ∧ (openDb w c fresh).1.dir = some (w.dir.getD mode700) ∧
    (c ≠ .unenc → ∃ k, key = some k ∧ (openDb w c fresh).1.file = .enc k d) := by
  have hp := precreate_keeps w
  have hps : (precreate w).1.file ≠ .special := fun h => hs (hp.2.2.1.mp h)
  have hdir : (precreate w).1.dir = some (w.dir.getD mode700) := (hp.2.2.2.1 hs).1
  cases c with
  | unenc =>
    simp only [openDb, ctorUnenc] at ho ⊢
    obtain ⟨_, h2, h3, _⟩ := finishOpen_ok (precreate w).1 none key d hps ho
    exact ⟨h2, by rw [h3, hdir], fun h => absurd rfl h⟩
  | withKey k =>
    simp only [openDb, ctorWithKey] at ho ⊢
    split at ho
    · simp at ho
    · rename_i hcond
      simp only [hcond]
      obtain ⟨h1, h2, h3, h4⟩ := finishOpen_ok (precreate w).1 (some k) key d hps ho
      exact ⟨by simpa using h2, by simpa [hdir] using h3, fun _ => ⟨k, h1, by simpa using h4 k rfl⟩⟩
  | new =>
    simp only [openDb, ctorNew] at ho ⊢
    cases hpw : precreate w with
    | mk w1 pr =>
      rw [hpw] at hps ho hdir; simp only at hps hdir
      have fin : ∀ (w2 : World) (k : Key), w2.file = w1.file → w2.dir = w1.dir →
          (finishOpen w2 (some k)).2 = .opened key d →
          (finishOpen w2 (some k)).1.fmode = mode600 ∧ (finishOpen w2 (some k)).1.dir = some (w.dir.getD mode700) ∧
          (Ctor.new ≠ .unenc → ∃ k', key = some k' ∧ (finishOpen w2 (some k)).1.file = .enc k' d) := by
        intro w2 k hf hd hfo
        have hps2 : w2.file ≠ .special := by rw [hf]; exact hps
        obtain ⟨h1, h2, h3, h4⟩ := finishOpen_ok w2 (some k) key d hps2 hfo
        exact ⟨h2, by rw [h3, hd, hdir], fun _ => ⟨k, h1, h4 k rfl⟩⟩
      cases pr with
      | existed =>
        simp only at ho ⊢
        cases hg : getDbKey w1.ring with
        | error e => rw [hg] at ho; simp at ho
        | ok o =>
          rw [hg] at ho
          cases o with
          | none => simp only at ho; split at ho <;> simp at ho
          | some k => simp only at ho ⊢; exact fin w1 k rfl rfl ho
      | created =>
        simp only at ho ⊢
        have hg := getOrCreate_keeps w1 fresh
        cases hgo : getOrCreate w1 fresh with
        | mk w2 r =>
          rw [hgo] at ho hg; simp only at ho hg ⊢
          cases r with
          | error e => simp at ho
          | ok k => simp only at ho ⊢; exact fin w2 k hg.1 hg.2.1 ho
      | skipped =>
        simp only at ho ⊢
        have hg := getOrCreate_keeps w1 fresh
        cases hgo : getOrCreate w1 fresh with
        | mk w2 r =>
          rw [hgo] at ho hg; simp only at ho hg ⊢
          cases r with
          | error e => simp at ho
          | ok k => simp only at ho ⊢; exact fin w2 k hg.1 hg.2.1 ho

theorem isOpened_iff (o : Outcome) : o.isOpened = true ↔ ∃ key d, o = .opened key d := by
  cases o <;> simp [Outcome.isOpened]

theorem sqlOpen_not_missing (f f' : FileSt) (key : Option Key) (d : Nat) (h : sqlOpen f key = .ok (f', d)) :
    f' ≠ .missing := by
  cases key <;> cases f <;> simp [sqlOpen] at h <;> (try (obtain ⟨h1, _⟩ := h; subst h1; simp))
  rename_i k k' d'
  split at h <;> simp at h
  obtain ⟨h1, _⟩ := h; subst h1; simp

theorem finishOpen_file (w : World) (key : Option Key) (hs : w.file ≠ .special) (hm : w.file ≠ .missing) :
    (finishOpen w key).1.file ≠ .special ∧ (finishOpen w key).1.file ≠ .missing := by
  unfold finishOpen
  split
  · exact ⟨hs, hm⟩
  · rename_i f d heq
    have h1 := sqlOpen_special w.file f key d heq
    have h2 := sqlOpen_not_missing w.file f key d heq
    split
    · exact absurd (h1.mp rfl) hs
    · exact ⟨fun h => hs (h1.mp h), h2⟩

/-- what ANY constructor call, whatever its outcome, does to the bookkeeping -/
theorem openDb_frame (w : World) (c : Ctor) (fresh : Nat) :
    (openDb w c fresh).1.stores ≤ w.stores + 1 ∧
    (fileExists w.file = true → (openDb w c fresh).1.stores = w.stores) ∧
    (w.file ≠ .special → (openDb w c fresh).1.file ≠ .special ∧ (openDb w c fresh).1.file ≠ .missing) := by
  have hp := precreate_keeps w
  obtain ⟨hps, hpr, hpsp, hpn, hpspec, hpex, hpmiss⟩ := hp
  have hfo : ∀ key, w.file ≠ .special →
      (finishOpen (precreate w).1 key).1.file ≠ .special ∧ (finishOpen (precreate w).1 key).1.file ≠ .missing :=
    fun key hs => finishOpen_file _ key (fun h => hs (hpsp.mp h)) (hpn hs).2
  cases c with
  | unenc =>
    simp only [openDb, ctorUnenc]
    have hk := finishOpen_keeps (precreate w).1 none
    exact ⟨by rw [hk.1, hps]; omega, fun _ => by rw [hk.1, hps], hfo none⟩
  | withKey k =>
    simp only [openDb, ctorWithKey]
    split
    · rename_i hcond
      refine ⟨by show w.stores ≤ w.stores + 1; omega, fun _ => rfl, fun hs => ⟨hs, ?_⟩⟩
      intro hmiss
      have hmiss' : w.file = .missing := hmiss
      simp [hmiss', fileExists] at hcond
    · have hk := finishOpen_keeps (precreate w).1 (some k)
      exact ⟨by rw [hk.1, hps]; omega, fun _ => by rw [hk.1, hps], hfo (some k)⟩
  | new =>
    simp only [openDb, ctorNew]
    cases hpw : precreate w with
    | mk w1 pr =>
      rw [hpw] at hps hpr hpsp hpn hpex hpmiss hfo; simp only at hps hpr hpsp hpn hpex hpmiss hfo
      cases pr with
      | existed =>
        simp only
        cases hg : getDbKey w1.ring with
        | error e => exact ⟨by simp [hps], fun _ => by simp [hps], fun hs => ⟨fun h => hs (hpsp.mp h), (hpn hs).2⟩⟩
        | ok o =>
          cases o with
          | none =>
            simp only
            split <;> exact ⟨by simp [hps], fun _ => by simp [hps], fun hs => ⟨fun h => hs (hpsp.mp h), (hpn hs).2⟩⟩
          | some k =>
            simp only
            have hk := finishOpen_keeps w1 (some k)
            exact ⟨by rw [hk.1, hps]; omega, fun _ => by rw [hk.1, hps], hfo (some k)⟩
      | created =>
        simp only
        have hne : fileExists w.file = true → False := by
          intro h; have := (hpex h).1; cases this
        have hg := getOrCreate_keeps w1 fresh
        cases hgo : getOrCreate w1 fresh with
        | mk w2 r =>
          rw [hgo] at hg; simp only at hg ⊢
          have hw2 : w.file ≠ .special → w2.file ≠ .special ∧ w2.file ≠ .missing := by
            intro hs; rw [hg.1]; exact ⟨fun h => hs (hpsp.mp h), (hpn hs).2⟩
          cases r with
          | error e => exact ⟨by simp; omega, fun h => absurd h (by simpa using hne), hw2⟩
          | ok k =>
            simp only
            have hk := finishOpen_keeps w2 (some k)
            exact ⟨by rw [hk.1]; omega, fun h => absurd h (by simpa using hne),
              fun hs => finishOpen_file w2 (some k) (hw2 hs).1 (hw2 hs).2⟩
      | skipped =>
        simp only
        have hne : fileExists w.file = true → False := by
          intro h; have := (hpex h).1; cases this
        have hg := getOrCreate_keeps w1 fresh
        cases hgo : getOrCreate w1 fresh with
        | mk w2 r =>
          rw [hgo] at hg; simp only at hg ⊢
          have hw2 : w.file ≠ .special → w2.file ≠ .special ∧ w2.file ≠ .missing := by
            intro hs; rw [hg.1]; exact ⟨fun h => hs (hpsp.mp h), (hpn hs).2⟩
          cases r with
          | error e => exact ⟨by simp; omega, fun h => absurd h (by simpa using hne), hw2⟩
          | ok k =>
            simp only
            have hk := finishOpen_keeps w2 (some k)
            exact ⟨by rw [hk.1]; omega, fun h => absurd h (by simpa using hne),
              fun hs => finishOpen_file w2 (some k) (hw2 hs).1 (hw2 hs).2⟩

theorem runOpens_stores_le_one (w : World) (h : List (Ctor × Key))
    (hw : w.file ≠ .special ∧ (w.file = .missing → w.stores = 0) ∧ w.stores ≤ 1) :
    (runOpens w h).stores ≤ 1 := by
  induction h generalizing w with
  | nil => exact hw.2.2
  | cons e es ih =>
    obtain ⟨c, f⟩ := e
    apply ih
    obtain ⟨h1, h2, h3⟩ := hw
    obtain ⟨f1, f2, f3⟩ := openDb_frame w c f
    refine ⟨(f3 h1).1, fun hm => absurd hm (f3 h1).2, ?_⟩
    by_cases hm : w.file = .missing
    · have := h2 hm; omega
    · have he : fileExists w.file = true := by
        revert hm h1; cases w.file <;> simp [fileExists]
      rw [f2 he]; exact h3

end MdkVerif.OpenMatrix
