import MdkVerif.Model.Keyring
import MdkVerif.Model.OpenMatrix
/-
  Proofs.Keyring — inductive invariants of the two interleaving models of `Model.Keyring`.
-/
namespace MdkVerif.Keyring

/-! ## `get_or_create_db_key` -/

/-- does the caller hold (or need to hold) KEY_GENERATION_LOCK at this program counter? -/
def Pc.inCs : Pc → Bool
  | .locked => true
  | .gen => true
  | .store _ => true
  | _ => false

/-- is the caller past the re-read that found no entry? -/
def Pc.sawNone : Pc → Bool
  | .gen => true
  | .store _ => true
  | _ => false

/-- invariant that holds for EVERY schedule, including `delete_db_key` events -/
structure Inv (s : St) : Prop where
  lockOwner : ∀ t, (s.pc t).inCs = true → s.lock = some t
  sawNone : ∀ t, (s.pc t).sawNone = true → s.ring = none
  storesBound : s.stores ≤ s.deletes + (if s.ring.isSome then 1 else 0)

theorem inv_init (r : Option Nat) : Inv (init r) := by
  constructor <;> simp [init, Pc.inCs, Pc.sawNone]

/-- at most one caller is inside the locked section -/
theorem Inv.cs_unique {s : St} (h : Inv s) {t u : Nat}
    (ht : (s.pc t).inCs = true) (hu : (s.pc u).inCs = true) : t = u := by
  have a := h.lockOwner t ht; have b := h.lockOwner u hu
  rw [a] at b; exact Option.some.inj b

private theorem sawNone_inCs {p : Pc} (h : p.sawNone = true) : p.inCs = true := by
  cases p <;> simp_all [Pc.sawNone, Pc.inCs]

theorem inv_stepThread (s : St) (t fresh : Nat) (ok : Bool) (h : Inv s) : Inv (stepThread s t fresh ok) := by
  obtain ⟨h1, h2, h3⟩ := h
  unfold stepThread
  split
  · -- start
    rename_i hp
    have hn : ∀ u, (s.pc u).inCs = true → u ≠ t := by
      intro u hu e; subst e; simp [hp, Pc.inCs] at hu
    split
    · split
      · refine ⟨?_, ?_, ?_⟩
        · intro u hu
          by_cases e : u = t
          · subst e; simp [setPc, Pc.inCs] at hu
          · simp [setPc, e] at hu; simpa [setPc, log] using h1 u hu
        · intro u hu
          by_cases e : u = t
          · subst e; simp [setPc, Pc.sawNone] at hu
          · simp [setPc, e] at hu; simpa [setPc, log] using h2 u hu
        · exact h3
      · refine ⟨?_, ?_, ?_⟩
        · intro u hu
          by_cases e : u = t
          · subst e; simp [setPc, Pc.inCs] at hu
          · simp [setPc, e] at hu; simpa [setPc, log] using h1 u hu
        · intro u hu
          by_cases e : u = t
          · subst e; simp [setPc, Pc.sawNone] at hu
          · simp [setPc, e] at hu; simpa [setPc, log] using h2 u hu
        · exact h3
    · refine ⟨?_, ?_, ?_⟩
      · intro u hu
        by_cases e : u = t
        · subst e; simp [setPc, Pc.inCs] at hu
        · simp [setPc, e] at hu; simpa [setPc, log] using h1 u hu
      · intro u hu
        by_cases e : u = t
        · subst e; simp [setPc, Pc.sawNone] at hu
        · simp [setPc, e] at hu; simpa [setPc, log] using h2 u hu
      · exact h3
  · -- wantLock
    rename_i hp
    split
    · rename_i hl
      refine ⟨?_, ?_, ?_⟩
      · intro u hu
        by_cases e : u = t
        · subst e; simp [setPc, log]
        · simp [setPc, e] at hu
          have := h1 u hu; rw [hl] at this; cases this
      · intro u hu
        by_cases e : u = t
        · subst e; simp [setPc, Pc.sawNone] at hu
        · simp [setPc, e] at hu; simpa [setPc, log] using h2 u hu
      · exact h3
    · exact ⟨h1, h2, h3⟩
  · -- locked
    rename_i hp
    have hl : s.lock = some t := h1 t (by simp [hp, Pc.inCs])
    have huniq : ∀ u, (s.pc u).inCs = true → u = t := by
      intro u hu; have := h1 u hu; rw [hl] at this; exact (Option.some.inj this).symm
    split
    · split
      · refine ⟨?_, ?_, ?_⟩
        · intro u hu
          by_cases e : u = t
          · subst e; simp [setPc, Pc.inCs] at hu
          · simp [setPc, e] at hu; exact absurd (huniq u hu) e
        · intro u hu
          by_cases e : u = t
          · subst e; simp [setPc, Pc.sawNone] at hu
          · simp [setPc, e] at hu; exact absurd (huniq u (sawNone_inCs hu)) e
        · exact h3
      · rename_i hr
        refine ⟨?_, ?_, ?_⟩
        · intro u hu
          by_cases e : u = t
          · subst e; simpa [setPc, log] using hl
          · simp [setPc, e] at hu; exact absurd (huniq u hu) e
        · intro u hu
          simpa [setPc, log] using hr
        · exact h3
    · refine ⟨?_, ?_, ?_⟩
      · intro u hu
        by_cases e : u = t
        · subst e; simp [setPc, Pc.inCs] at hu
        · simp [setPc, e] at hu; exact absurd (huniq u hu) e
      · intro u hu
        by_cases e : u = t
        · subst e; simp [setPc, Pc.sawNone] at hu
        · simp [setPc, e] at hu; exact absurd (huniq u (sawNone_inCs hu)) e
      · exact h3
  · -- gen
    rename_i hp
    have hl : s.lock = some t := h1 t (by simp [hp, Pc.inCs])
    have hr : s.ring = none := h2 t (by simp [hp, Pc.sawNone])
    have huniq : ∀ u, (s.pc u).inCs = true → u = t := by
      intro u hu; have := h1 u hu; rw [hl] at this; exact (Option.some.inj this).symm
    split
    · refine ⟨?_, ?_, ?_⟩
      · intro u hu
        by_cases e : u = t
        · subst e; simpa [setPc, log] using hl
        · simp [setPc, e] at hu; exact absurd (huniq u hu) e
      · intro u hu
        simpa [setPc, log] using hr
      · exact h3
    · refine ⟨?_, ?_, ?_⟩
      · intro u hu
        by_cases e : u = t
        · subst e; simp [setPc, Pc.inCs] at hu
        · simp [setPc, e] at hu; exact absurd (huniq u hu) e
      · intro u hu
        by_cases e : u = t
        · subst e; simp [setPc, Pc.sawNone] at hu
        · simp [setPc, e] at hu; exact absurd (huniq u (sawNone_inCs hu)) e
      · exact h3
  · -- store k
    rename_i k hp
    have hl : s.lock = some t := h1 t (by simp [hp, Pc.inCs])
    have hr : s.ring = none := h2 t (by simp [hp, Pc.sawNone])
    have huniq : ∀ u, (s.pc u).inCs = true → u = t := by
      intro u hu; have := h1 u hu; rw [hl] at this; exact (Option.some.inj this).symm
    split
    · refine ⟨?_, ?_, ?_⟩
      · intro u hu
        by_cases e : u = t
        · subst e; simp [setPc, Pc.inCs] at hu
        · simp [setPc, e] at hu; exact absurd (huniq u hu) e
      · intro u hu
        by_cases e : u = t
        · subst e; simp [setPc, Pc.sawNone] at hu
        · simp [setPc, e] at hu; exact absurd (huniq u (sawNone_inCs hu)) e
      · simp [hr] at h3; simp [setPc, log]; omega
    · refine ⟨?_, ?_, ?_⟩
      · intro u hu
        by_cases e : u = t
        · subst e; simp [setPc, Pc.inCs] at hu
        · simp [setPc, e] at hu; exact absurd (huniq u hu) e
      · intro u hu
        by_cases e : u = t
        · subst e; simp [setPc, Pc.sawNone] at hu
        · simp [setPc, e] at hu; exact absurd (huniq u (sawNone_inCs hu)) e
      · exact h3
  · exact ⟨h1, h2, h3⟩
  · exact ⟨h1, h2, h3⟩

theorem inv_step (s : St) (e : Ev) (h : Inv s) : Inv (step s e) := by
  cases e with
  | step t fresh ok => exact inv_stepThread s t fresh ok h
  | delete =>
    obtain ⟨h1, h2, h3⟩ := h
    simp only [step]
    split
    · rename_i k hr
      refine ⟨h1, ?_, ?_⟩
      · intro u _; rfl
      · simp [hr] at h3; simp; omega
    · exact ⟨h1, h2, h3⟩

theorem inv_run (s : St) (sched : List Ev) (h : Inv s) : Inv (run s sched) := by
  induction sched generalizing s with
  | nil => exact h
  | cons e es ih => exact ih _ (inv_step s e h)

/-- invariant of the delete-free schedules, relative to the initial keyring content `r0` -/
structure InvN (r0 : Option Nat) (s : St) : Prop where
  base : Inv s
  noDel : s.deletes = 0
  doneKey : ∀ t k, s.pc t = .done k → s.ring = some k
  keep : ∀ k0, r0 = some k0 → s.ring = some k0 ∧ s.stores = 0

theorem invN_init (r : Option Nat) : InvN r (init r) := by
  refine ⟨inv_init r, rfl, ?_, ?_⟩
  · intro t k h; simp [init] at h
  · intro k0 h; simp [init, h]

theorem stepThread_pc_other (s : St) (t fresh : Nat) (ok : Bool) (u : Nat) (h : u ≠ t) :
    (stepThread s t fresh ok).pc u = s.pc u := by
  cases hp : s.pc t <;> cases ok <;> cases hr : s.ring <;> cases hl : s.lock <;>
    simp [stepThread, hp, hr, hl, setPc, log, h]

theorem stepThread_deletes (s : St) (t fresh : Nat) (ok : Bool) :
    (stepThread s t fresh ok).deletes = s.deletes := by
  cases hp : s.pc t <;> cases ok <;> cases hr : s.ring <;> cases hl : s.lock <;>
    simp [stepThread, hp, hr, hl, setPc, log]

/-- the keyring changes only in a successful store step -/
theorem stepThread_ring (s : St) (t fresh : Nat) (ok : Bool) :
    ((stepThread s t fresh ok).ring = s.ring ∧ (stepThread s t fresh ok).stores = s.stores) ∨
    (∃ k, s.pc t = .store k ∧ (stepThread s t fresh ok).ring = some k ∧
      (stepThread s t fresh ok).pc t = .done k) := by
  cases hp : s.pc t <;> cases ok <;> cases hr : s.ring <;> cases hl : s.lock <;>
    simp [stepThread, hp, hr, hl, setPc, log]

/-- a caller is `done k` after a step only if it was before, or it just read / stored `k` -/
theorem stepThread_done (s : St) (t fresh : Nat) (ok : Bool) (k : Nat)
    (h : (stepThread s t fresh ok).pc t = .done k) :
    s.pc t = .done k ∨ (stepThread s t fresh ok).ring = some k := by
  cases hp : s.pc t <;> cases ok <;> cases hr : s.ring <;> cases hl : s.lock <;>
    simp_all [stepThread, setPc, log]

theorem invN_stepThread (r0 : Option Nat) (s : St) (t fresh : Nat) (ok : Bool) (h : InvN r0 s) :
    InvN r0 (stepThread s t fresh ok) := by
  obtain ⟨hb, hd, hk, hkeep⟩ := h
  have hb' := inv_stepThread s t fresh ok hb
  refine ⟨hb', ?_, ?_, ?_⟩
  · rw [stepThread_deletes]; exact hd
  · intro u k hu
    by_cases e : u = t
    · subst e
      rcases stepThread_done s u fresh ok k hu with h1 | h1
      · rcases stepThread_ring s u fresh ok with ⟨h2, _⟩ | ⟨k', h2, _, _⟩
        · rw [h2]; exact hk u k h1
        · rw [h1] at h2; cases h2
      · exact h1
    · rw [stepThread_pc_other s t fresh ok u e] at hu
      rcases stepThread_ring s t fresh ok with ⟨h2, _⟩ | ⟨k', h2, _, _⟩
      · rw [h2]; exact hk u k hu
      · have hr : s.ring = none := hb.sawNone t (by simp [h2, Pc.sawNone])
        have := hk u k hu; rw [hr] at this; cases this
  · intro k0 hr0
    obtain ⟨hring, hst⟩ := hkeep k0 hr0
    rcases stepThread_ring s t fresh ok with ⟨h2, h3⟩ | ⟨k', h2, _, _⟩
    · rw [h2, h3]; exact ⟨hring, hst⟩
    · have hr : s.ring = none := hb.sawNone t (by simp [h2, Pc.sawNone])
      rw [hr] at hring; cases hring

theorem invN_run (r0 : Option Nat) (s : St) (sched : List Ev) (hnd : noDelete sched = true) (h : InvN r0 s) :
    InvN r0 (run s sched) := by
  induction sched generalizing s with
  | nil => exact h
  | cons e es ih =>
    simp only [noDelete, List.all_cons, Bool.and_eq_true] at hnd
    cases e with
    | step t fresh ok => exact ih _ (by simpa [noDelete] using hnd.2) (invN_stepThread r0 s t fresh ok h)
    | delete => simp [Ev.isDelete] at hnd

/-! ## concurrent `MdkSqliteStorage::new` -/

/-- without deletes an entry, once present, stays -/
theorem stepThread_ring_some (s : St) (t fresh : Nat) (ok : Bool) (h : Inv s) (k : Nat)
    (hr : s.ring = some k) : (stepThread s t fresh ok).ring = some k := by
  rcases stepThread_ring s t fresh ok with ⟨h2, _⟩ | ⟨k', h2, _, _⟩
  · rw [h2]; exact hr
  · have : s.ring = none := h.sawNone t (by simp [h2, Pc.sawNone])
    rw [this] at hr; cases hr

/-- the key a caller has committed to, if any -/
def NPc.key : NPc → Option Nat
  | .opening k => some k
  | .ok k => some k
  | _ => none

structure NInv (s : NSt) : Prop where
  base : InvN none s.k
  keyIsRing : ∀ t k, (s.pc t).key = some k → s.k.ring = some k
  fileKey : ∀ k, s.file = .enc k → s.k.ring = some k
  noWrongKey : ∀ t, s.pc t ≠ .err .wrongKey
  noKeyringErr : ∀ t, s.pc t ≠ .err .keyring
  notFailed : ∀ t, s.k.pc t ≠ .failed

theorem ninv_init : NInv ninit := by
  refine ⟨invN_init none, ?_, ?_, ?_, ?_, ?_⟩ <;> simp [ninit, NPc.key, init]

theorem stepThread_not_failed (s : St) (t fresh : Nat) (u : Nat) (h : ∀ u, s.pc u ≠ .failed) :
    (stepThread s t fresh true).pc u ≠ .failed := by
  by_cases e : u = t
  · subst e
    have := h u
    cases hp : s.pc u <;> cases hr : s.ring <;> cases hl : s.lock <;>
      simp_all [stepThread, setPc, log]
  · rw [stepThread_pc_other s t fresh true u e]; exact h u

theorem ninv_step (s : NSt) (t fresh : Nat) (h : NInv s) : NInv (nstep s t fresh) := by
  obtain ⟨hb, hk, hf, hw, he, hnf⟩ := h
  have other : ∀ (p : NPc) (s' : NSt) (u : Nat), u ≠ t → (nset s' t p).pc u = s'.pc u := by
    intro p s' u e; simp [nset, e]
  unfold nstep
  split
  · -- pre
    rename_i hp
    split
    · refine ⟨hb, ?_, ?_, ?_, ?_, hnf⟩
      · intro u k hu
        by_cases e : u = t
        · subst e; simp [nset, NPc.key] at hu
        · simp [nset, e] at hu; exact hk u k hu
      · intro k hk'; simp [nset] at hk'
      · intro u; by_cases e : u = t
        · subst e; simp [nset]
        · simp [nset, e]; exact hw u
      · intro u; by_cases e : u = t
        · subst e; simp [nset]
        · simp [nset, e]; exact he u
    · refine ⟨hb, ?_, hf, ?_, ?_, hnf⟩
      · intro u k hu
        by_cases e : u = t
        · subst e; simp [nset, NPc.key] at hu
        · simp [nset, e] at hu; exact hk u k hu
      · intro u; by_cases e : u = t
        · subst e; simp [nset]
        · simp [nset, e]; exact hw u
      · intro u; by_cases e : u = t
        · subst e; simp [nset]
        · simp [nset, e]; exact he u
  · -- kr
    rename_i hp
    split
    · rename_i k hd
      have hr : s.k.ring = some k := hb.doneKey t k hd
      refine ⟨hb, ?_, hf, ?_, ?_, hnf⟩
      · intro u k' hu
        by_cases e : u = t
        · subst e; simp [nset, NPc.key] at hu; subst hu; exact hr
        · simp [nset, e] at hu; exact hk u k' hu
      · intro u; by_cases e : u = t
        · subst e; simp [nset]
        · simp [nset, e]; exact hw u
      · intro u; by_cases e : u = t
        · subst e; simp [nset]
        · simp [nset, e]; exact he u
    · rename_i hd; exact absurd hd (hnf t)
    · refine ⟨invN_stepThread none s.k t fresh true hb, ?_, ?_, hw, he, ?_⟩
      · intro u k hu
        exact stepThread_ring_some s.k t fresh true hb.base k (hk u k hu)
      · intro k hk'
        exact stepThread_ring_some s.k t fresh true hb.base k (hf k hk')
      · intro u; exact stepThread_not_failed s.k t fresh u hnf
  · -- chk
    split
    · rename_i k hr
      refine ⟨hb, ?_, hf, ?_, ?_, hnf⟩
      · intro u k' hu
        by_cases e : u = t
        · subst e; simp [nset, NPc.key] at hu; subst hu; exact hr
        · simp [nset, e] at hu; exact hk u k' hu
      · intro u; by_cases e : u = t
        · subst e; simp [nset]
        · simp [nset, e]; exact hw u
      · intro u; by_cases e : u = t
        · subst e; simp [nset]
        · simp [nset, e]; exact he u
    · refine ⟨hb, ?_, hf, ?_, ?_, hnf⟩
      · intro u k' hu
        by_cases e : u = t
        · subst e; simp [nset, NPc.key] at hu
        · simp [nset, e] at hu; exact hk u k' hu
      · intro u; by_cases e : u = t
        · subst e; simp [nset]
        · simp [nset, e]; exact hw u
      · intro u; by_cases e : u = t
        · subst e; simp [nset]
        · simp [nset, e]; exact he u
  · -- probe
    split
    · refine ⟨hb, ?_, hf, ?_, ?_, hnf⟩
      · intro u k' hu
        by_cases e : u = t
        · subst e; simp [nset, NPc.key] at hu
        · simp [nset, e] at hu; exact hk u k' hu
      · intro u; by_cases e : u = t
        · subst e; simp [nset]
        · simp [nset, e]; exact hw u
      · intro u; by_cases e : u = t
        · subst e; simp [nset]
        · simp [nset, e]; exact he u
    · refine ⟨hb, ?_, hf, ?_, ?_, hnf⟩
      · intro u k' hu
        by_cases e : u = t
        · subst e; simp [nset, NPc.key] at hu
        · simp [nset, e] at hu; exact hk u k' hu
      · intro u; by_cases e : u = t
        · subst e; simp [nset]
        · simp [nset, e]; exact hw u
      · intro u; by_cases e : u = t
        · subst e; simp [nset]
        · simp [nset, e]; exact he u
  · -- opening k
    rename_i k hp
    have hr : s.k.ring = some k := hk t k (by simp [hp, NPc.key])
    split
    · rename_i k' hfile
      have hr' := hf k' hfile
      have hkk : k = k' := by rw [hr] at hr'; exact Option.some.inj hr'
      simp only [hkk, if_true]
      refine ⟨hb, ?_, hf, ?_, ?_, hnf⟩
      · intro u k'' hu
        by_cases e : u = t
        · subst e; simp [nset, NPc.key] at hu; subst hu; exact hr'
        · simp [nset, e] at hu; exact hk u k'' hu
      · intro u; by_cases e : u = t
        · subst e; simp [nset]
        · simp [nset, e]; exact hw u
      · intro u; by_cases e : u = t
        · subst e; simp [nset]
        · simp [nset, e]; exact he u
    · refine ⟨hb, ?_, ?_, ?_, ?_, hnf⟩
      · intro u k'' hu
        by_cases e : u = t
        · subst e; simp [nset, NPc.key] at hu; subst hu; exact hr
        · simp [nset, e] at hu; exact hk u k'' hu
      · intro k'' hk''; simp [nset] at hk''; subst hk''; exact hr
      · intro u; by_cases e : u = t
        · subst e; simp [nset]
        · simp [nset, e]; exact hw u
      · intro u; by_cases e : u = t
        · subst e; simp [nset]
        · simp [nset, e]; exact he u
  · exact ⟨hb, hk, hf, hw, he, hnf⟩
  · exact ⟨hb, hk, hf, hw, he, hnf⟩

theorem ninv_run (s : NSt) (sched : List (Nat × Nat)) (h : NInv s) : NInv (nrun s sched) := by
  induction sched generalizing s with
  | nil => exact h
  | cons e es ih => obtain ⟨t, f⟩ := e; exact ih _ (ninv_step s t f h)

/-- a caller that opened did so on a file that is (now) encrypted under its key -/
def NOkFile (s : NSt) : Prop := ∀ t k, s.pc t = .ok k → s.file = .enc k

theorem nokfile_step (s : NSt) (t fresh : Nat) (h : NOkFile s) : NOkFile (nstep s t fresh) := by
  intro u k hu
  unfold nstep at hu ⊢
  split at hu
  · split at hu
    · rename_i hfile
      by_cases e : u = t
      · subst e; simp [nset] at hu
      · simp [nset, e] at hu; have := h u k hu; rw [hfile] at this; cases this
    · by_cases e : u = t
      · subst e; simp [nset] at hu
      · simp [nset, e] at hu; simpa [nset] using h u k hu
  · split at hu
    · by_cases e : u = t
      · subst e; simp [nset] at hu
      · simp [nset, e] at hu; simpa [nset] using h u k hu
    · by_cases e : u = t
      · subst e; simp [nset] at hu
      · simp [nset, e] at hu; simpa [nset] using h u k hu
    · exact h u k hu
  · split at hu
    · by_cases e : u = t
      · subst e; simp [nset] at hu
      · simp [nset, e] at hu; simpa [nset] using h u k hu
    · by_cases e : u = t
      · subst e; simp [nset] at hu
      · simp [nset, e] at hu; simpa [nset] using h u k hu
  · split at hu
    · by_cases e : u = t
      · subst e; simp [nset] at hu
      · simp [nset, e] at hu; simpa [nset] using h u k hu
    · by_cases e : u = t
      · subst e; simp [nset] at hu
      · simp [nset, e] at hu; simpa [nset] using h u k hu
  · rename_i k0 hp
    split at hu
    · rename_i k' hfile
      by_cases hkk : k0 = k'
      · simp only [hkk, if_true] at hu ⊢
        by_cases e : u = t
        · subst e; simp [nset] at hu; subst hu; simpa [nset] using hfile
        · simp [nset, e] at hu; simpa [nset] using h u k hu
      · simp only [hkk, if_false] at hu ⊢
        by_cases e : u = t
        · subst e; simp [nset] at hu
        · simp [nset, e] at hu; simpa [nset] using h u k hu
    · rename_i hfile
      by_cases e : u = t
      · subst e; simp [nset] at hu; subst hu; simp [nset]
      · simp [nset, e] at hu
        have := h u k hu
        exact absurd this (by intro hc; exact hfile k hc)
  · exact h u k hu
  · exact h u k hu

theorem nokfile_run (s : NSt) (sched : List (Nat × Nat)) (h : NOkFile s) : NOkFile (nrun s sched) := by
  induction sched generalizing s with
  | nil => exact h
  | cons e es ih => obtain ⟨t, f⟩ := e; exact ih _ (nokfile_step s t f h)

theorem nokfile_init : NOkFile ninit := by intro t k h; simp [ninit] at h

theorem nrun_append (s : NSt) (a b : List (Nat × Nat)) : nrun s (a ++ b) = nrun (nrun s a) b := by
  induction a generalizing s with
  | nil => rfl
  | cons e es ih => obtain ⟨t, f⟩ := e; simp [nrun, ih]

/-- after the creator has finished: the file is encrypted under `f`, the keyring holds `f`, and every
    caller is before its keyring read, or holds `f` -/
structure NDone (f : Nat) (s : NSt) : Prop where
  file : s.file = .enc f
  ring : s.k.ring = some f
  pcs : ∀ u, s.pc u = .pre ∨ s.pc u = .chk ∨ s.pc u = .opening f ∨ s.pc u = .ok f

theorem ndone_step (f : Nat) (s : NSt) (t fresh : Nat) (h : NDone f s) : NDone f (nstep s t fresh) := by
  obtain ⟨hf, hr, hp⟩ := h
  have keep : ∀ (p : NPc), (p = .pre ∨ p = .chk ∨ p = .opening f ∨ p = .ok f) →
      NDone f (nset s t p) := by
    intro p hpp
    refine ⟨by simpa [nset] using hf, by simpa [nset] using hr, ?_⟩
    intro u; by_cases e : u = t
    · subst e; simpa [nset] using hpp
    · simpa [nset, e] using hp u
  rcases hp t with h0 | h0 | h0 | h0
  · have : nstep s t fresh = nset s t .chk := by simp [nstep, h0, hf]
    rw [this]; exact keep _ (by simp)
  · have : nstep s t fresh = nset s t (.opening f) := by simp [nstep, h0, hr]
    rw [this]; exact keep _ (by simp)
  · have : nstep s t fresh = nset s t (.ok f) := by simp [nstep, h0, hf]
    rw [this]; exact keep _ (by simp)
  · have : nstep s t fresh = s := by simp [nstep, h0]
    rw [this]; exact ⟨hf, hr, hp⟩

theorem ndone_run (f : Nat) (s : NSt) (sched : List (Nat × Nat)) (h : NDone f s) : NDone f (nrun s sched) := by
  induction sched generalizing s with
  | nil => exact h
  | cons e es ih => obtain ⟨t, fr⟩ := e; exact ih _ (ndone_step f s t fr h)

/-- eight steps of a lone creator: precreate, read, lock, read, generate, store, return, open -/
theorem creator_prefix_done (t f : Nat) : NDone f (nrun ninit (List.replicate 8 (t, f))) := by
  refine ⟨?_, ?_, ?_⟩
  · simp [List.replicate, nrun, nstep, ninit, nset, init, stepThread, setPc, log]
  · simp [List.replicate, nrun, nstep, ninit, nset, init, stepThread, setPc, log]
  · intro u
    by_cases e : u = t
    · subst e; simp [List.replicate, nrun, nstep, ninit, nset, init, stepThread, setPc, log]
    · simp [List.replicate, nrun, nstep, ninit, nset, init, stepThread, setPc, log, e]

end MdkVerif.Keyring

/-! ## projections of the constructor logic (`Model.OpenMatrix`) -/
namespace MdkVerif.OpenMatrix

theorem sqlOpen_some_ok (f f' : FileSt) (k d : Nat) (h : sqlOpen f (some k) = .ok (f', d)) (hs : f ≠ .special) :
    f' = .enc k d := by
  cases f <;> simp [sqlOpen] at h hs ⊢
  · exact h.1.symm ▸ h.2 ▸ rfl
  · exact h.1.symm ▸ h.2 ▸ rfl
  · rename_i k' d'
    split at h
    · rename_i e; simp at h; subst e; exact h.1.symm ▸ h.2 ▸ rfl
    · simp at h

theorem sqlOpen_special (f f' : FileSt) (key : Option Key) (d : Nat) (h : sqlOpen f key = .ok (f', d)) :
    f' = .special ↔ f = .special := by
  cases key <;> cases f <;> simp [sqlOpen] at h ⊢ <;> (try (obtain ⟨h1, _⟩ := h; subst h1; simp))
  rename_i k k' d'
  split at h <;> simp at h
  obtain ⟨h1, _⟩ := h; subst h1; simp

/-- `new_internal_skip_precreate` touches neither the keyring nor the directory -/
theorem finishOpen_keeps (w : World) (key : Option Key) :
    (finishOpen w key).1.stores = w.stores ∧ (finishOpen w key).1.ring = w.ring ∧ (finishOpen w key).1.dir = w.dir := by
  unfold finishOpen
  split
  · simp
  · split <;> simp

theorem finishOpen_opened (w : World) (key key' : Option Key) (d : Nat) (hs : w.file ≠ .special)
    (h : (finishOpen w key).2 = .opened key' d) :
    key' = key ∧ (finishOpen w key).1.fmode = mode600 ∧ (∀ k, key = some k → (finishOpen w key).1.file = .enc k d) := by
  unfold finishOpen at h ⊢
  split at h
  · simp at h
  · rename_i f d' heq
    have hsp := sqlOpen_special w.file f key d' heq
    split at h
    · exact absurd (hsp.mp rfl) hs
    · rename_i hne
      simp at h
      refine ⟨h.1.symm, rfl, ?_⟩
      intro k hk; subst hk
      have := sqlOpen_some_ok w.file f k d' heq hs
      simp [this, h.2]

theorem precreate_keeps (w : World) :
    (precreate w).1.stores = w.stores ∧ (precreate w).1.ring = w.ring ∧
    ((precreate w).1.file = .special ↔ w.file = .special) ∧
    (w.file ≠ .special → (precreate w).1.dir = some (w.dir.getD mode700) ∧ (precreate w).1.file ≠ .missing) ∧
    (w.file = .special → (precreate w).1 = w) ∧
    (fileExists w.file = true → (precreate w).2 = .existed ∧ (precreate w).1.file = w.file) ∧
    (w.file = .missing → (precreate w).2 = .created ∧ (precreate w).1.file = .empty) := by
  obtain ⟨file, ring, fmode, dir, stores⟩ := w
  cases file <;> cases dir <;> simp [precreate, fileExists]

theorem getOrCreate_keeps (w : World) (fresh : Key) :
    (getOrCreate w fresh).1.file = w.file ∧ (getOrCreate w fresh).1.dir = w.dir ∧ (getOrCreate w fresh).1.fmode = w.fmode ∧
    w.stores ≤ (getOrCreate w fresh).1.stores ∧ (getOrCreate w fresh).1.stores ≤ w.stores + 1 := by
  obtain ⟨file, ring, fmode, dir, stores⟩ := w
  cases ring <;> simp [getOrCreate, getDbKey]

/-- a successful `finishOpen` on a real path: 0600, directory untouched, and with a key the file is a
    database under that key -/
theorem finishOpen_ok (w : World) (key key' : Option Key) (d : Nat) (hs : w.file ≠ .special)
    (h : (finishOpen w key).2 = .opened key' d) :
    key' = key ∧ (finishOpen w key).1.fmode = mode600 ∧ (finishOpen w key).1.dir = w.dir ∧
    (∀ k, key = some k → (finishOpen w key).1.file = .enc k d) :=
  let ⟨a, b, c⟩ := finishOpen_opened w key key' d hs h
  ⟨a, b, (finishOpen_keeps w key).2.2, c⟩

/-- every successful constructor call on a real path, through whichever branch -/
theorem openDb_opened (w : World) (c : Ctor) (fresh : Nat) (key : Option Key) (d : Nat)
    (hs : w.file ≠ .special) (ho : (openDb w c fresh).2 = .opened key d) :
    (openDb w c fresh).1.fmode = mode600 ∧ (openDb w c fresh).1.dir = some (w.dir.getD mode700) ∧
    (c ≠ .unenc → ∃ k, key = some k ∧ (openDb w c fresh).1.file = .enc k d) := by
  have hp := precreate_keeps w
  have hps : (precreate w).1.file ≠ .special := fun h => hs (hp.2.2.1.mp h)
  have hdir : (precreate w).1.dir = some (w.dir.getD mode700) := (hp.2.2.2.1 hs).1
  cases c with
  | unenc =>
    simp only [openDb, ctorUnenc] at ho ⊢
    obtain ⟨_, h2, h3, _⟩ := finishOpen_ok (precreate w).1 none key d hps ho
    exact ⟨h2, by rw [h3, hdir], fun h => absurd rfl h⟩
  | withKey k =>
    simp only [openDb, ctorWithKey] at ho ⊢
    split at ho
    · simp at ho
    · rename_i hcond
      simp only [hcond]
      obtain ⟨h1, h2, h3, h4⟩ := finishOpen_ok (precreate w).1 (some k) key d hps ho
      exact ⟨by simpa using h2, by simpa [hdir] using h3, fun _ => ⟨k, h1, by simpa using h4 k rfl⟩⟩
  | new =>
    simp only [openDb, ctorNew] at ho ⊢
    cases hpw : precreate w with
    | mk w1 pr =>
      rw [hpw] at hps ho hdir; simp only at hps hdir
      have fin : ∀ (w2 : World) (k : Key), w2.file = w1.file → w2.dir = w1.dir →
          (finishOpen w2 (some k)).2 = .opened key d →
          (finishOpen w2 (some k)).1.fmode = mode600 ∧ (finishOpen w2 (some k)).1.dir = some (w.dir.getD mode700) ∧
          (Ctor.new ≠ .unenc → ∃ k', key = some k' ∧ (finishOpen w2 (some k)).1.file = .enc k' d) := by
        intro w2 k hf hd hfo
        have hps2 : w2.file ≠ .special := by rw [hf]; exact hps
        obtain ⟨h1, h2, h3, h4⟩ := finishOpen_ok w2 (some k) key d hps2 hfo
        exact ⟨h2, by rw [h3, hd, hdir], fun _ => ⟨k, h1, h4 k rfl⟩⟩
      cases pr with
      | existed =>
        simp only at ho ⊢
        cases hg : getDbKey w1.ring with
        | error e => rw [hg] at ho; simp at ho
        | ok o =>
          rw [hg] at ho
          cases o with
          | none => simp only at ho; split at ho <;> simp at ho
          | some k => simp only at ho ⊢; exact fin w1 k rfl rfl ho
      | created =>
        simp only at ho ⊢
        have hg := getOrCreate_keeps w1 fresh
        cases hgo : getOrCreate w1 fresh with
        | mk w2 r =>
          rw [hgo] at ho hg; simp only at ho hg ⊢
          cases r with
          | error e => simp at ho
          | ok k => simp only at ho ⊢; exact fin w2 k hg.1 hg.2.1 ho
      | skipped =>
        simp only at ho ⊢
        have hg := getOrCreate_keeps w1 fresh
        cases hgo : getOrCreate w1 fresh with
        | mk w2 r =>
          rw [hgo] at ho hg; simp only at ho hg ⊢
          cases r with
          | error e => simp at ho
          | ok k => simp only at ho ⊢; exact fin w2 k hg.1 hg.2.1 ho

theorem isOpened_iff (o : Outcome) : o.isOpened = true ↔ ∃ key d, o = .opened key d := by
  cases o <;> simp [Outcome.isOpened]

theorem sqlOpen_not_missing (f f' : FileSt) (key : Option Key) (d : Nat) (h : sqlOpen f key = .ok (f', d)) :
    f' ≠ .missing := by
  cases key <;> cases f <;> simp [sqlOpen] at h <;> (try (obtain ⟨h1, _⟩ := h; subst h1; simp))
  rename_i k k' d'
  split at h <;> simp at h
  obtain ⟨h1, _⟩ := h; subst h1; simp

theorem finishOpen_file (w : World) (key : Option Key) (hs : w.file ≠ .special) (hm : w.file ≠ .missing) :
    (finishOpen w key).1.file ≠ .special ∧ (finishOpen w key).1.file ≠ .missing := by
  unfold finishOpen
  split
  · exact ⟨hs, hm⟩
  · rename_i f d heq
    have h1 := sqlOpen_special w.file f key d heq
    have h2 := sqlOpen_not_missing w.file f key d heq
    split
    · exact absurd (h1.mp rfl) hs
    · exact ⟨fun h => hs (h1.mp h), h2⟩

/-- what ANY constructor call, whatever its outcome, does to the bookkeeping -/
theorem openDb_frame (w : World) (c : Ctor) (fresh : Nat) :
    (openDb w c fresh).1.stores ≤ w.stores + 1 ∧
    (fileExists w.file = true → (openDb w c fresh).1.stores = w.stores) ∧
    (w.file ≠ .special → (openDb w c fresh).1.file ≠ .special ∧ (openDb w c fresh).1.file ≠ .missing) := by
  have hp := precreate_keeps w
  obtain ⟨hps, hpr, hpsp, hpn, hpspec, hpex, hpmiss⟩ := hp
  have hfo : ∀ key, w.file ≠ .special →
      (finishOpen (precreate w).1 key).1.file ≠ .special ∧ (finishOpen (precreate w).1 key).1.file ≠ .missing :=
    fun key hs => finishOpen_file _ key (fun h => hs (hpsp.mp h)) (hpn hs).2
  cases c with
  | unenc =>
    simp only [openDb, ctorUnenc]
    have hk := finishOpen_keeps (precreate w).1 none
    exact ⟨by rw [hk.1, hps]; omega, fun _ => by rw [hk.1, hps], hfo none⟩
  | withKey k =>
    simp only [openDb, ctorWithKey]
    split
    · rename_i hcond
      refine ⟨by show w.stores ≤ w.stores + 1; omega, fun _ => rfl, fun hs => ⟨hs, ?_⟩⟩
      intro hmiss
      have hmiss' : w.file = .missing := hmiss
      simp [hmiss', fileExists] at hcond
    · have hk := finishOpen_keeps (precreate w).1 (some k)
      exact ⟨by rw [hk.1, hps]; omega, fun _ => by rw [hk.1, hps], hfo (some k)⟩
  | new =>
    simp only [openDb, ctorNew]
    cases hpw : precreate w with
    | mk w1 pr =>
      rw [hpw] at hps hpr hpsp hpn hpex hpmiss hfo; simp only at hps hpr hpsp hpn hpex hpmiss hfo
      cases pr with
      | existed =>
        simp only
        cases hg : getDbKey w1.ring with
        | error e => exact ⟨by simp [hps], fun _ => by simp [hps], fun hs => ⟨fun h => hs (hpsp.mp h), (hpn hs).2⟩⟩
        | ok o =>
          cases o with
          | none =>
            simp only
            split <;> exact ⟨by simp [hps], fun _ => by simp [hps], fun hs => ⟨fun h => hs (hpsp.mp h), (hpn hs).2⟩⟩
          | some k =>
            simp only
            have hk := finishOpen_keeps w1 (some k)
            exact ⟨by rw [hk.1, hps]; omega, fun _ => by rw [hk.1, hps], hfo (some k)⟩
      | created =>
        simp only
        have hne : fileExists w.file = true → False := by
          intro h; have := (hpex h).1; cases this
        have hg := getOrCreate_keeps w1 fresh
        cases hgo : getOrCreate w1 fresh with
        | mk w2 r =>
          rw [hgo] at hg; simp only at hg ⊢
          have hw2 : w.file ≠ .special → w2.file ≠ .special ∧ w2.file ≠ .missing := by
            intro hs; rw [hg.1]; exact ⟨fun h => hs (hpsp.mp h), (hpn hs).2⟩
          cases r with
          | error e => exact ⟨by simp; omega, fun h => absurd h (by simpa using hne), hw2⟩
          | ok k =>
            simp only
            have hk := finishOpen_keeps w2 (some k)
            exact ⟨by rw [hk.1]; omega, fun h => absurd h (by simpa using hne),
              fun hs => finishOpen_file w2 (some k) (hw2 hs).1 (hw2 hs).2⟩
      | skipped =>
        simp only
        have hne : fileExists w.file = true → False := by
          intro h; have := (hpex h).1; cases this
        have hg := getOrCreate_keeps w1 fresh
        cases hgo : getOrCreate w1 fresh with
        | mk w2 r =>
          rw [hgo] at hg; simp only at hg ⊢
          have hw2 : w.file ≠ .special → w2.file ≠ .special ∧ w2.file ≠ .missing := by
            intro hs; rw [hg.1]; exact ⟨fun h => hs (hpsp.mp h), (hpn hs).2⟩
          cases r with
          | error e => exact ⟨by simp; omega, fun h => absurd h (by simpa using hne), hw2⟩
          | ok k =>
            simp only
            have hk := finishOpen_keeps w2 (some k)
            exact ⟨by rw [hk.1]; omega, fun h => absurd h (by simpa using hne),
              fun hs => finishOpen_file w2 (some k) (hw2 hs).1 (hw2 hs).2⟩

theorem runOpens_stores_le_one (w : World) (h : List (Ctor × Key))
    (hw : w.file ≠ .special ∧ (w.file = .missing → w.stores = 0) ∧ w.stores ≤ 1) :
    (runOpens w h).stores ≤ 1 := by
  induction h generalizing w with
  | nil => exact hw.2.2
  | cons e es ih =>
    obtain ⟨c, f⟩ := e
    apply ih
    obtain ⟨h1, h2, h3⟩ := hw
    obtain ⟨f1, f2, f3⟩ := openDb_frame w c f
    refine ⟨(f3 h1).1, fun hm => absurd hm (f3 h1).2, ?_⟩
    by_cases hm : w.file = .missing
    · have := h2 hm; omega
    · have he : fileExists w.file = true := by
        revert hm h1; cases w.file <;> simp [fileExists]
      rw [f2 he]; exact h3

end MdkVerif.OpenMatrix
