import MdkVerif.Model.Crash
namespace MdkVerif.Crash
variable {δ : Type}

theorem run_append (d : Db δ) (a b : List (Stmt δ)) : run d (a ++ b) = run (run d a) b := by
  simp [run, List.foldl_append]

theorem run_reads (d : Db δ) (n : Nat) : run d (List.replicate n .read) = d := by
  induction n with
  | zero => rfl
  | succ n ih => simp only [List.replicate_succ, run, List.foldl_cons, step] at ih ⊢; exact ih

/-- inside an open transaction data statements only touch the working copy -/
theorem run_execs_open (c w : δ) (n : Nat) (body : List (δ → δ)) :
    run { committed := c, work := some w, depth := n } (body.map .exec) =
      { committed := c, work := some (effect body w), depth := n } := by
  induction body generalizing w with
  | nil => rfl
  | cons f fs ih => simp only [List.map_cons, run, List.foldl_cons, step, effect] at ih ⊢; exact ih (f w)

theorem take_execs_committed (c w : δ) (n j : Nat) (body : List (δ → δ)) :
    (run { committed := c, work := some w, depth := n } ((body.map Stmt.exec).take j)).committed = c := by
  rw [← List.map_take, run_execs_open]

/-- prefix of `pre ++ rest` -/
theorem take_append_cases {α : Type} (k : Nat) (a b : List α) :
    (a ++ b).take k = a.take k ∨ ∃ j, (a ++ b).take k = a ++ b.take j := by
  by_cases h : k ≤ a.length
  · left; rw [List.take_append_of_le_length h]
  · right; exact ⟨k - a.length, by rw [List.take_append, List.take_of_length_le (by omega)]⟩

theorem bracket_atomic (opn cls : Stmt δ) (d0 : δ) (reads : Nat) (body : List (δ → δ))
    (hopen : step (Db.fresh d0) opn = { committed := d0, work := some d0, depth := 1 })
    (hclose : ∀ w, step { committed := d0, work := some w, depth := 1 } cls = { committed := w, work := none, depth := 0 })
    (k : Nat) :
    let call := List.replicate reads Stmt.read ++ ([opn] ++ body.map .exec ++ [cls])
    crashAt k call d0 = d0 ∨ (crashAt k call d0 = effect body d0 ∧ call.length ≤ k) := by
  intro call
  simp only [crashAt, call]
  rcases take_append_cases k (List.replicate reads Stmt.read) ([opn] ++ body.map .exec ++ [cls]) with h | ⟨j, h⟩
  · left
    rw [h, List.take_replicate, run_reads]; rfl
  · rw [h, run_append, run_reads]
    rcases take_append_cases j ([opn] ++ body.map Stmt.exec) [cls] with h2 | ⟨i, h2⟩
    · left
      rw [h2]
      rcases take_append_cases j [opn] (body.map Stmt.exec) with h3 | ⟨m, h3⟩
      · rw [h3]
        cases j with
        | zero => rfl
        | succ j' => simp [run, hopen]
      · rw [h3, run_append]
        simp only [run, List.foldl_cons, List.foldl_nil, hopen]
        exact take_execs_committed d0 d0 1 m body
    · rw [h2, run_append, run_append]
      simp only [run, List.foldl_cons, List.foldl_nil, hopen]
      have := run_execs_open d0 d0 1 body
      simp only [run] at this
      rw [this]
      cases i with
      | zero => left; rfl
      | succ i' =>
        right
        refine ⟨by simp [hclose], ?_⟩
        -- the whole call was executed
        have hl := congrArg List.length h
        have hl2 := congrArg List.length h2
        simp only [List.length_append, List.length_take, List.length_cons, List.length_nil, List.length_map,
          List.length_replicate] at hl hl2 ⊢
        omega

theorem complete_bracket (opn cls : Stmt δ) (d0 : δ) (reads : Nat) (body : List (δ → δ))
    (hopen : step (Db.fresh d0) opn = { committed := d0, work := some d0, depth := 1 })
    (hclose : ∀ w, step { committed := d0, work := some w, depth := 1 } cls = { committed := w, work := none, depth := 0 }) :
    complete (List.replicate reads Stmt.read ++ ([opn] ++ body.map .exec ++ [cls])) d0 = effect body d0 := by
  simp only [complete, run_append, run_reads]
  simp only [run, List.foldl_cons, List.foldl_nil, hopen]
  have := run_execs_open d0 d0 1 body
  simp only [run] at this
  rw [this, hclose]

end MdkVerif.Crash
