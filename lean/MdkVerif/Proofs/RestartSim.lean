import MdkVerif.Model.Client
import MdkVerif.Proofs.Client
import MdkVerif.Props.C08
/-
  MdkVerif.Proofs.RestartSim — C11 lifted to histories.

  `Sim c c'` relates the client of a run WITHOUT restarts (`c`) to the client of the same run WITH restarts
  inserted anywhere (`c'`): every field is equal except the snapshot manager, whose entries agree in epoch,
  commit id and saved state, and whose timestamp in the restarted run is either the real one or 0 (hydrated).

  Every client operation is a simulation for `Sim` (same result, relation preserved).  The only operation that
  needs a hypothesis is `deliver`, and only when it reaches the MIP-03 comparison of `ProcessMessageWrongEpoch`
  and the restart-free run judges the candidate better: then the restarted run must judge it better as well
  (`isBetter` is monotone in the timestamps: zeroing can only turn `true` into `false`: `isBetter_mono`).
-/
namespace MdkVerif.Client
open MdkVerif

/-! ## the relation -/

/-- entries of the two managers: equal but for the timestamp, which may be 0 (hydrated) in the restarted run -/
def SnapRel (s s' : Snap) : Prop :=
  s'.epoch = s.epoch ∧ s'.commit = s.commit ∧ s'.saved = s.saved ∧ (s'.ts = s.ts ∨ s'.ts = 0)

/-- pointwise `SnapRel` (core Lean has no `List.Forall₂`) -/
inductive MgrRel : List Snap → List Snap → Prop
  | nil : MgrRel [] []
  | cons {s s' : Snap} {m m' : List Snap} : SnapRel s s' → MgrRel m m' → MgrRel (s :: m) (s' :: m')

theorem SnapRel.refl (s : Snap) : SnapRel s s := ⟨rfl, rfl, rfl, Or.inl rfl⟩

theorem MgrRel.refl : ∀ m : List Snap, MgrRel m m
  | [] => .nil
  | s :: m => .cons (SnapRel.refl s) (MgrRel.refl m)

theorem MgrRel.length_eq {m m' : List Snap} (h : MgrRel m m') : m'.length = m.length := by
  induction h with
  | nil => rfl
  | cons _ _ ih => simp [ih]

theorem MgrRel.append {a a' b b' : List Snap} (h1 : MgrRel a a') (h2 : MgrRel b b') : MgrRel (a ++ b) (a' ++ b') := by
  induction h1 with
  | nil => exact h2
  | cons hs _ ih => exact .cons hs ih

theorem MgrRel.drop {m m' : List Snap} (h : MgrRel m m') : ∀ k, MgrRel (m.drop k) (m'.drop k) := by
  induction h with
  | nil => intro k; simp; exact .nil
  | cons hs hm ih =>
    intro k
    cases k with
    | zero => exact .cons hs hm
    | succ k => simpa using ih k

theorem MgrRel.take {m m' : List Snap} (h : MgrRel m m') : ∀ k, MgrRel (m.take k) (m'.take k) := by
  induction h with
  | nil => intro k; simp; exact .nil
  | cons hs hm ih =>
    intro k
    cases k with
    | zero => exact .nil
    | succ k => simpa using .cons hs (ih k)

/-- hydration on the restarted side keeps the relation -/
theorem MgrRel.zero {m m' : List Snap} (h : MgrRel m m') : MgrRel m (m'.map (fun s => { s with ts := 0 })) := by
  induction h with
  | nil => exact .nil
  | cons hs _ ih => exact .cons ⟨hs.1, hs.2.1, hs.2.2.1, Or.inr rfl⟩ ih

theorem MgrRel.zero_both {m m' : List Snap} (h : MgrRel m m') :
    MgrRel (m.map (fun s => { s with ts := 0 })) (m'.map (fun s => { s with ts := 0 })) := by
  induction h with
  | nil => exact .nil
  | cons hs _ ih => exact .cons ⟨hs.1, hs.2.1, hs.2.2.1, Or.inl rfl⟩ ih

theorem MgrRel.findIdx_eq {m m' : List Snap} (h : MgrRel m m') (ep : Nat) : findIdx m' ep = findIdx m ep := by
  induction h with
  | nil => rfl
  | cons hs _ ih => simp only [findIdx, hs.1, ih]

/-- the entry of an epoch: absent in both managers, or present and related -/
theorem MgrRel.find_rel {m m' : List Snap} (h : MgrRel m m') (ep : Nat) :
    (m.find? (·.epoch == ep) = none ∧ m'.find? (·.epoch == ep) = none) ∨
    ∃ s s', m.find? (·.epoch == ep) = some s ∧ m'.find? (·.epoch == ep) = some s' ∧ SnapRel s s' := by
  induction h with
  | nil => left; exact ⟨rfl, rfl⟩
  | @cons s s' m m' hs _ ih =>
    by_cases he : (s.epoch == ep) = true
    · right
      refine ⟨s, s', ?_, ?_, hs⟩
      · simp [List.find?, he]
      · have : (s'.epoch == ep) = true := by rw [hs.1]; exact he
        simp [List.find?, this]
    · have he' : (s'.epoch == ep) = false := by rw [hs.1]; simpa using he
      have he2 : (s.epoch == ep) = false := by simpa using he
      simp only [List.find?, he', he2]
      exact ih

/-- the snapshot of the epoch is hydrated (its timestamp is 0) -/
def hydratedAt (c : Cl) (ep : Nat) : Bool :=
  match c.mgr.find? (·.epoch == ep) with
  | some s => s.ts == 0
  | none => false

/-- **monotonicity**: a candidate the restarted run judges better is judged better by the restart-free run -/
theorem isBetter_mono (c c' : Cl) (h : MgrRel c.mgr c'.mgr) (ee : Nat) (e : Ev) :
    isBetter c' ee e = true → isBetter c ee e = true := by
  unfold isBetter
  rcases h.find_rel ee with ⟨h1, h2⟩ | ⟨s, s', h1, h2, hs⟩
  · rw [h1, h2]; exact id
  · rw [h1, h2]
    obtain ⟨_, hc, _, ht | ht⟩ := hs
    · simp only [ht, hc]; exact id
    · simp [ht]

/-- the restarted run judges a candidate better exactly when the restart-free run does and the snapshot it is
    compared with still has its timestamp (was taken after the last restart) -/
theorem isBetter_sim_iff (c c' : Cl) (h : MgrRel c.mgr c'.mgr) (ee : Nat) (e : Ev) :
    isBetter c' ee e = true ↔ (isBetter c ee e = true ∧ hydratedAt c' ee = false) := by
  unfold isBetter hydratedAt
  rcases h.find_rel ee with ⟨h1, h2⟩ | ⟨s, s', h1, h2, hs⟩
  · rw [h1, h2]; simp
  · rw [h1, h2]
    obtain ⟨_, hc, _, ht | ht⟩ := hs
    · simp only [ht, hc]
      by_cases h0 : (s.ts == 0) = true
      · simp [h0]
      · simp [h0]
    · simp [ht]

/-- after a rollback to an epoch the manager holds no snapshot of that epoch any more: the re-processing
    never compares again -/
theorem find_take_findIdx (m : List Snap) (ep i : Nat) (h : findIdx m ep = some i) :
    (m.take i).find? (·.epoch == ep) = none := by
  induction m generalizing i with
  | nil => simp [findIdx] at h
  | cons s t ih =>
    unfold findIdx at h
    by_cases he : (s.epoch == ep) = true
    · simp only [he, if_true, Option.some.injEq] at h
      subst h; rfl
    · simp only [he, Bool.false_eq_true, if_false, Option.map_eq_some_iff] at h
      obtain ⟨j, hj, rfl⟩ := h
      have he2 : (s.epoch == ep) = false := by simpa using he
      simp only [List.take_succ_cons, List.find?, he2]
      exact ih j hj

theorem isBetter_after_rollback (c c1 : Cl) (ee : Nat) (e : Ev) (h : rollbackTo c ee = some c1) :
    isBetter c1 ee e = false := by
  unfold rollbackTo at h
  cases hi : findIdx c.mgr ee with
  | none => simp [hi] at h
  | some i =>
    simp only [hi] at h
    cases hd : c.mgr.drop i with
    | nil => simp [hd] at h
    | cons s t =>
      simp only [hd, Option.some.injEq] at h
      subst h
      simp only [isBetter, find_take_findIdx c.mgr ee i hi]

/-! ## clients -/

def withMgr (c : Cl) (m : List Snap) : Cl := { c with mgr := m }

/-- restart-free client `c`, restarted client `c'`: equal except for hydrated timestamps in the manager -/
def Sim (c c' : Cl) : Prop := ∃ m', c' = withMgr c m' ∧ MgrRel c.mgr m'

/-- results equal, states related -/
def SimRes (p p' : Cl × Res) : Prop := Sim p.1 p'.1 ∧ p'.2 = p.2

theorem Sim.refl (c : Cl) : Sim c c := ⟨c.mgr, rfl, MgrRel.refl _⟩

theorem Sim.mgr {c c' : Cl} (h : Sim c c') : MgrRel c.mgr c'.mgr := by
  obtain ⟨m', rfl, hm⟩ := h; exact hm

theorem Sim.g {c c' : Cl} (h : Sim c c') : c'.g = c.g := by obtain ⟨m', rfl, _⟩ := h; rfl
theorem Sim.msgs {c c' : Cl} (h : Sim c c') : c'.msgs = c.msgs := by obtain ⟨m', rfl, _⟩ := h; rfl
theorem Sim.recs {c c' : Cl} (h : Sim c c') : c'.recs = c.recs := by obtain ⟨m', rfl, _⟩ := h; rfl
theorem Sim.hasGroup {c c' : Cl} (h : Sim c c') : c'.hasGroup = c.hasGroup := by obtain ⟨m', rfl, _⟩ := h; rfl
theorem Sim.id {c c' : Cl} (h : Sim c c') : c'.id = c.id := by obtain ⟨m', rfl, _⟩ := h; rfl
theorem Sim.persistent {c c' : Cl} (h : Sim c c') : c'.persistent = c.persistent := by obtain ⟨m', rfl, _⟩ := h; rfl
theorem Sim.retention {c c' : Cl} (h : Sim c c') : c'.retention = c.retention := by obtain ⟨m', rfl, _⟩ := h; rfl
theorem Sim.maxPast {c c' : Cl} (h : Sim c c') : c'.maxPast = c.maxPast := by obtain ⟨m', rfl, _⟩ := h; rfl
theorem Sim.proj {c c' : Cl} (h : Sim c c') : proj c' = proj c := by obtain ⟨m', rfl, _⟩ := h; rfl

/-- the managers hold snapshots of the same epochs, of the same commits, with the same saved states -/
theorem MgrRel.map_eq {m m' : List Snap} (h : MgrRel m m') :
    m'.map (fun s => (s.epoch, s.commit, s.saved)) = m.map (fun s => (s.epoch, s.commit, s.saved)) := by
  induction h with
  | nil => rfl
  | cons hs _ ih => simp [hs.1, hs.2.1, hs.2.2.1, ih]

theorem simRes_ite {A : Prop} [Decidable A] {x y x' y' : Cl × Res}
    (h1 : A → SimRes x x') (h2 : ¬A → SimRes y y') : SimRes (if A then x else y) (if A then x' else y') := by
  by_cases h : A
  · simp only [h, if_true]; exact h1 h
  · simp only [h, if_false]; exact h2 h

/-! ## building blocks -/

theorem simRes_mk {a a' : Cl} {r : Res} (h : Sim a a') : SimRes (a, r) (a', r) := ⟨h, rfl⟩

theorem MgrRel.eq_nil {m' : List Snap} (h : MgrRel [] m') : m' = [] := by cases h; rfl

theorem MgrRel.cons_inv {s : Snap} {t m' : List Snap} (h : MgrRel (s :: t) m') :
    ∃ s' t', m' = s' :: t' ∧ SnapRel s s' ∧ MgrRel t t' := by
  cases h with
  | cons hs ht => exact ⟨_, _, rfl, hs, ht⟩

theorem sim_recordFailure {c c' : Cl} (h : Sim c c') (n : Nat) (b : Bool) (ep : Option Nat) :
    Sim (recordFailure c n b ep) (recordFailure c' n b ep) := by
  obtain ⟨m', rfl, hm⟩ := h; exact ⟨m', rfl, hm⟩

theorem sim_withSecret {c c' : Cl} (h : Sim c c') : Sim (withSecret c) (withSecret c') := by
  obtain ⟨m', rfl, hm⟩ := h; exact ⟨m', rfl, hm⟩

theorem sim_failUnprocessable {c c' : Cl} (h : Sim c c') (e : Ev) :
    SimRes (failUnprocessable c e) (failUnprocessable c' e) := by
  obtain ⟨m', rfl, hm⟩ := h; exact ⟨⟨m', rfl, hm⟩, rfl⟩

theorem sim_returnOwnCommit {c c' : Cl} (h : Sim c c') : SimRes (returnOwnCommit c) (returnOwnCommit c') := by
  obtain ⟨m', rfl, hm⟩ := h; exact ⟨⟨m', rfl, hm⟩, rfl⟩

theorem sim_storeApp {c c' : Cl} (h : Sim c c') (e : Ev) (mid t k : Nat) :
    SimRes (storeApp c e mid t k) (storeApp c' e mid t k) := by
  obtain ⟨m', rfl, hm⟩ := h; exact ⟨⟨m', rfl, hm⟩, rfl⟩

theorem sim_ownMessage {c c' : Cl} (h : Sim c c') (e : Ev) : SimRes (ownMessage c e) (ownMessage c' e) := by
  obtain ⟨m', rfl, hm⟩ := h
  have hr : getRec (withMgr c m') e.n = getRec c e.n := rfl
  have hmsgs : (withMgr c m').msgs = c.msgs := rfl
  unfold ownMessage
  rw [hr, hmsgs]
  repeat' split
  all_goals first
    | exact ⟨⟨m', rfl, hm⟩, rfl⟩
    | exact sim_returnOwnCommit ⟨m', rfl, hm⟩

theorem sim_notBetterResult {c c' : Cl} (h : Sim c c') (e : Ev) : SimRes (notBetterResult c e) (notBetterResult c' e) := by
  have hr : getRec c' e.n = getRec c e.n := by obtain ⟨m', rfl, _⟩ := h; rfl
  unfold notBetterResult
  rw [hr]
  repeat' split
  all_goals first
    | exact sim_returnOwnCommit h
    | exact sim_failUnprocessable h e

theorem sim_mgrCreate {c c' : Cl} (h : Sim c c') (ep : Nat) (e : Ev) : Sim (mgrCreate c ep e) (mgrCreate c' ep e) := by
  obtain ⟨m', rfl, hm⟩ := h
  refine ⟨(mgrCreate (withMgr c m') ep e).mgr, rfl, ?_⟩
  have hl := hm.length_eq
  simp only [mgrCreate, withMgr, List.length_append, hl]
  exact (hm.append (.cons (SnapRel.refl _) .nil)).drop _

/-- replacing the group state by the same value on both sides -/
theorem sim_setG {c c' : Cl} (h : Sim c c') (g : GState) : Sim { c with g := g } { c' with g := g } := by
  obtain ⟨m', rfl, hm⟩ := h; exact ⟨m', rfl, hm⟩

theorem sim_setRec {c c' : Cl} (h : Sim c c') (n : Nat) (r : Rec) : Sim (setRec c n r) (setRec c' n r) := by
  obtain ⟨m', rfl, hm⟩ := h; exact ⟨m', rfl, hm⟩

theorem sim_processCommit {c c' : Cl} (h : Sim c c') (e : Ev) (b : Body) (sw : List Nat) :
    SimRes (processCommit c e b sw) (processCommit c' e b sw) := by
  have hg := h.g
  have hid := h.id
  have hmp := h.maxPast
  have hc := sim_mgrCreate h (epochOf c.g.path) e
  have hcg : (mgrCreate c' (epochOf c.g.path) e).g = (mgrCreate c (epochOf c.g.path) e).g := hc.g
  unfold processCommit
  rw [hg, hid, hmp]
  dsimp only
  rw [hcg]
  refine simRes_ite (fun _ => simRes_mk (sim_recordFailure h _ _ _)) (fun _ => ?_)
  refine simRes_ite (fun _ => simRes_mk ?_) (fun _ => simRes_mk ?_)
  · exact sim_setRec (sim_setG hc _) _ _
  · exact sim_setRec (sim_setG hc _) _ _

theorem sim_rollbackTo_none {c c' : Cl} (h : Sim c c') (ep : Nat) (hn : rollbackTo c ep = none) : rollbackTo c' ep = none := by
  obtain ⟨m', rfl, hm⟩ := h
  unfold rollbackTo at hn ⊢
  have hi : findIdx (withMgr c m').mgr ep = findIdx c.mgr ep := hm.findIdx_eq ep
  rw [hi]
  cases hx : findIdx c.mgr ep with
  | none => rfl
  | some i =>
    simp only [hx] at hn ⊢
    have hd : MgrRel (c.mgr.drop i) ((withMgr c m').mgr.drop i) := hm.drop i
    cases hd1 : c.mgr.drop i with
    | nil =>
      rw [hd1] at hd
      rw [hd.eq_nil]
    | cons s t => simp [hd1] at hn

theorem sim_rollbackTo_some {c c' c1 : Cl} (h : Sim c c') (ep : Nat) (hs : rollbackTo c ep = some c1) :
    ∃ c1', rollbackTo c' ep = some c1' ∧ Sim c1 c1' := by
  obtain ⟨m', rfl, hm⟩ := h
  unfold rollbackTo at hs ⊢
  have hi : findIdx (withMgr c m').mgr ep = findIdx c.mgr ep := hm.findIdx_eq ep
  rw [hi]
  cases hx : findIdx c.mgr ep with
  | none => simp [hx] at hs
  | some i =>
    simp only [hx] at hs ⊢
    have hd : MgrRel (c.mgr.drop i) ((withMgr c m').mgr.drop i) := hm.drop i
    cases hd1 : c.mgr.drop i with
    | nil => simp [hd1] at hs
    | cons s t =>
      rw [hd1] at hd
      simp only [hd1, Option.some.injEq] at hs
      obtain ⟨s', t', hd2, hss, _⟩ := hd.cons_inv
      rw [hd2]
      refine ⟨_, rfl, ?_⟩
      subst hs
      refine ⟨m'.take i, ?_, hm.take i⟩
      simp only [withMgr, hss.2.2.1]

theorem sim_wrongEpochCommit (retry retry' : Cl → Option (Cl × Res)) {c c' : Cl} (h : Sim c c') (e : Ev) (ee : Nat)
    (hb : isBetter c ee e = true → isBetter c' ee e = true)
    (hretry : ∀ c1 c1', Sim c1 c1' → isBetter c1 ee e = false →
      (retry c1 = none ∧ retry' c1' = none) ∨ ∃ r r', retry c1 = some r ∧ retry' c1' = some r' ∧ SimRes r r') :
    SimRes (wrongEpochCommit retry c e ee) (wrongEpochCommit retry' c' e ee) := by
  unfold wrongEpochCommit
  by_cases hbt : isBetter c ee e = true
  · rw [hbt, hb hbt]
    simp only [if_true]
    cases hr : rollbackTo c ee with
    | none =>
      rw [sim_rollbackTo_none h ee hr]
      exact sim_notBetterResult h e
    | some c1 =>
      obtain ⟨c1', hr', hs1⟩ := sim_rollbackTo_some h ee hr
      rw [hr']
      simp only []
      rcases hretry c1 c1' hs1 (isBetter_after_rollback c c1 ee e hr) with ⟨h1, h2⟩ | ⟨r, r', h1, h2, hrr⟩
      · rw [h1, h2]; exact sim_notBetterResult h e
      · rw [h1, h2]; exact hrr
  · have hf : isBetter c ee e = false := by simpa using hbt
    have hf' : isBetter c' ee e = false := by
      cases hx : isBetter c' ee e with
      | false => rfl
      | true => rw [isBetter_mono c c' h.mgr ee e hx] at hf; cases hf
    rw [hf, hf']
    simp only [Bool.false_eq_true, if_false]
    exact sim_notBetterResult h e

/-! ## `process_message` -/

/-- what the re-processing after a rollback must satisfy (it runs on a state without a snapshot of the epoch) -/
def RetryRel (retry retry' : Cl → Option (Cl × Res)) (ee : Nat) (e : Ev) : Prop :=
  ∀ c1 c1', Sim c1 c1' → isBetter c1 ee e = false →
    (retry c1 = none ∧ retry' c1' = none) ∨ ∃ r r', retry c1 = some r ∧ retry' c1' = some r' ∧ SimRes r r'

theorem sim_step1 (retry retry' : Cl → Option (Cl × Res)) (nx : Nat) {c c' : Cl} (h : Sim c c') (e : Ev)
    (hb : ∀ b sw, e.kind = .commit b sw → routes c e = true → c.g.active = true → outerOpens (withSecret c).g e = true →
          epochOf e.path ≠ epochOf c.g.path →
          isBetter c (epochOf e.path) e = true → isBetter c' (epochOf e.path) e = true)
    (hretry : RetryRel retry retry' (epochOf e.path) e) :
    SimRes (step1 retry nx c e) (step1 retry' nx c' e) := by
  obtain ⟨m', rfl, hm⟩ := h
  have h : Sim c (withMgr c m') := ⟨m', rfl, hm⟩
  have hw := sim_withSecret h
  unfold step1
  refine simRes_ite (fun _ => simRes_mk (sim_recordFailure h _ _ _)) (fun hr => ?_)
  refine simRes_ite (fun _ => simRes_mk (sim_recordFailure h _ _ _)) (fun ha => ?_)
  dsimp only
  refine simRes_ite (fun _ => simRes_mk (sim_recordFailure hw _ _ _)) (fun ho => ?_)
  have hr' : routes c e = true := by simpa using hr
  have ha' : c.g.active = true := by simpa using ha
  have ho' : outerOpens (withSecret c).g e = true := by simpa using ho
  cases hk : e.kind with
  | commit b sw =>
    dsimp only
    refine simRes_ite (fun hne => ?_) (fun _ => ?_)
    · have hne' : epochOf e.path ≠ epochOf c.g.path := by simpa using hne
      exact sim_wrongEpochCommit retry retry' hw e _ (hb b sw hk hr' ha' ho' hne') hretry
    · refine simRes_ite (fun _ => ?_) (fun _ => ?_)
      · have hp : (withSecret (withMgr c m')).g.pending = (withSecret c).g.pending := rfl
        rw [hp]
        cases (withSecret c).g.pending with
        | some p => exact simRes_mk (sim_setRec (sim_setG (sim_mgrCreate hw _ e) _) _ _)
        | none => exact sim_ownMessage hw e
      · refine simRes_ite (fun _ => sim_failUnprocessable hw e) (fun _ => ?_)
        exact sim_processCommit (sim_setG hw _) e b sw
  | leave =>
    dsimp only
    refine simRes_ite (fun _ => sim_failUnprocessable hw e) (fun _ => ?_)
    refine simRes_ite (fun _ => sim_ownMessage hw e) (fun _ => ?_)
    refine simRes_ite (fun _ => sim_failUnprocessable hw e) (fun _ => ?_)
    refine simRes_ite (fun _ => simRes_mk (sim_setRec (sim_setG hw _) _ _)) (fun _ => simRes_mk (sim_setRec (sim_setG hw _) _ _))
  | app mid msgTs tok =>
    dsimp only
    refine simRes_ite (fun _ => sim_failUnprocessable hw e) (fun _ => ?_)
    refine simRes_ite (fun _ => sim_failUnprocessable hw e) (fun _ => ?_)
    refine simRes_ite (fun _ => sim_ownMessage hw e) (fun _ => ?_)
    refine simRes_ite (fun _ => sim_failUnprocessable hw e) (fun _ => ?_)
    exact sim_storeApp (sim_setG hw _) e mid msgTs tok

/-- the delivery is not stopped by the dedup check, reaches the MIP-03 comparison of `ProcessMessageWrongEpoch`
    (a commit of another epoch than the receiver's whose wrapper opens) and the candidate is judged better than
    the snapshot of its epoch: the client rolls back for it -/
def winsAt (c : Cl) (e : Ev) : Bool :=
  (match getRec c e.n with
   | some r => !(r.state == 3 || r.state == 4)
   | none => true) &&
  routes c e && c.g.active && outerOpens (withSecret c).g e &&
  (match e.kind with
   | .commit _ _ => epochOf e.path != epochOf c.g.path
   | _ => false) &&
  isBetter c (epochOf e.path) e

/-- the hypothesis of one delivery: a candidate that wins in the restart-free run wins in the restarted run -/
def DeliverOk (c c' : Cl) (e : Ev) : Prop := winsAt c e = true → isBetter c' (epochOf e.path) e = true

theorem sim_deliverOnce (retry retry' : Cl → Option (Cl × Res)) (nx : Nat) {c c' : Cl} (h : Sim c c') (e : Ev)
    (hb : DeliverOk c c' e) (hretry : RetryRel retry retry' (epochOf e.path) e) :
    SimRes (deliverOnce retry nx c e) (deliverOnce retry' nx c' e) := by
  have hrec : getRec c' e.n = getRec c e.n := by obtain ⟨m', rfl, _⟩ := h; rfl
  have hroutes : routes c' e = routes c e := by obtain ⟨m', rfl, _⟩ := h; rfl
  unfold deliverOnce
  rw [hrec]
  cases hr : getRec c e.n with
  | none =>
    dsimp only
    refine sim_step1 retry retry' nx h e ?_ hretry
    intro b sw hk h1 h2 h3 h4 h5
    apply hb
    have h4' : (epochOf e.path != epochOf c.g.path) = true := by simpa using h4
    simp [winsAt, hr, hk, h1, h2, h3, h4', h5]
  | some r =>
    dsimp only
    refine simRes_ite (fun _ => ?_) (fun hs => ?_)
    · rw [hroutes]; exact simRes_mk h
    · refine sim_step1 retry retry' nx h e ?_ hretry
      intro b sw hk h1 h2 h3 h4 h5
      apply hb
      have h4' : (epochOf e.path != epochOf c.g.path) = true := by simpa using h4
      have hs' : (r.state == 3 || r.state == 4) = false := by simpa using hs
      simp [winsAt, hr, hk, h1, h2, h3, h4', h5, hs']

/-- `process_message` with its re-processing, every fuel -/
theorem sim_deliverN (f nx : Nat) {c c' : Cl} (h : Sim c c') (e : Ev) (hb : DeliverOk c c' e) :
    SimRes (deliverN f nx c e) (deliverN f nx c' e) := by
  induction f generalizing c c' with
  | zero =>
    exact sim_deliverOnce _ _ nx h e hb (fun _ _ _ _ => Or.inl ⟨rfl, rfl⟩)
  | succ f ih =>
    refine sim_deliverOnce _ _ nx h e hb ?_
    intro c1 c1' h1 hnb
    refine Or.inr ⟨_, _, rfl, rfl, ih h1 ?_⟩
    intro hw
    have : isBetter c1 (epochOf e.path) e = true := by
      simp only [winsAt, Bool.and_eq_true] at hw
      exact hw.2
    rw [hnb] at this; cases this

theorem sim_deliver {c c' : Cl} (h : Sim c c') (e : Ev) (nx : Nat) (hb : DeliverOk c c' e) :
    SimRes (deliver c e nx) (deliver c' e nx) := sim_deliverN 3 nx h e hb

/-! ## the local operations: no hypothesis -/

theorem sim_send {c c' : Cl} (h : Sim c c') (n ts idn mid mts tok : Nat) :
    SimRes (send c n ts idn mid mts tok) (send c' n ts idn mid mts tok) := by
  obtain ⟨m', rfl, hm⟩ := h
  have h : Sim c (withMgr c m') := ⟨m', rfl, hm⟩
  unfold send
  refine simRes_ite (fun _ => simRes_mk h) (fun _ => ?_)
  refine simRes_ite (fun _ => simRes_mk h) (fun _ => ?_)
  refine simRes_ite (fun _ => simRes_mk h) (fun _ => ?_)
  exact ⟨⟨m', rfl, hm⟩, rfl⟩

theorem sim_stageCommit {c c' : Cl} (h : Sim c c') (n ts idn : Nat) (b : Body) (na : Bool) :
    SimRes (stageCommit c n ts idn b na) (stageCommit c' n ts idn b na) := by
  obtain ⟨m', rfl, hm⟩ := h
  have h : Sim c (withMgr c m') := ⟨m', rfl, hm⟩
  unfold stageCommit
  refine simRes_ite (fun _ => simRes_mk h) (fun _ => ?_)
  refine simRes_ite (fun _ => simRes_mk h) (fun _ => ?_)
  refine simRes_ite (fun _ => simRes_mk h) (fun _ => ?_)
  refine simRes_ite (fun _ => simRes_mk h) (fun _ => ?_)
  exact ⟨⟨m', rfl, hm⟩, rfl⟩

theorem sim_updateData {c c' : Cl} (h : Sim c c') (n ts idn : Nat) (u : DataUpd) :
    SimRes (updateData c n ts idn u) (updateData c' n ts idn u) := by
  have hs := fun b => sim_stageCommit h n ts idn b true
  obtain ⟨m', rfl, hm⟩ := h
  have h : Sim c (withMgr c m') := ⟨m', rfl, hm⟩
  unfold updateData
  refine simRes_ite (fun _ => simRes_mk h) (fun _ => ?_)
  refine simRes_ite (fun _ => simRes_mk h) (fun _ => ?_)
  exact hs _

theorem sim_removeMembers {c c' : Cl} (h : Sim c c') (n ts idn : Nat) (who : List Nat) :
    SimRes (removeMembers c n ts idn who) (removeMembers c' n ts idn who) := by
  have hs := fun b => sim_stageCommit h n ts idn b true
  obtain ⟨m', rfl, hm⟩ := h
  have h : Sim c (withMgr c m') := ⟨m', rfl, hm⟩
  unfold removeMembers
  refine simRes_ite (fun _ => simRes_mk h) (fun _ => ?_)
  refine simRes_ite (fun _ => simRes_mk h) (fun _ => ?_)
  refine simRes_ite (fun _ => simRes_mk h) (fun _ => ?_)
  refine simRes_ite (fun _ => simRes_mk h) (fun _ => ?_)
  exact hs _

theorem sim_addMembers {c c' : Cl} (h : Sim c c') (n ts idn : Nat) (who : List Nat) :
    SimRes (addMembers c n ts idn who) (addMembers c' n ts idn who) := by
  have hs := fun b => sim_stageCommit h n ts idn b true
  obtain ⟨m', rfl, hm⟩ := h
  have h : Sim c (withMgr c m') := ⟨m', rfl, hm⟩
  unfold addMembers
  refine simRes_ite (fun _ => simRes_mk h) (fun _ => ?_)
  refine simRes_ite (fun _ => simRes_mk h) (fun _ => ?_)
  refine simRes_ite (fun _ => simRes_mk h) (fun _ => ?_)
  refine simRes_ite (fun _ => simRes_mk h) (fun _ => ?_)
  refine simRes_ite (fun _ => simRes_mk h) (fun _ => ?_)
  exact hs _

theorem sim_leave {c c' : Cl} (h : Sim c c') (n ts idn : Nat) : SimRes (leave c n ts idn) (leave c' n ts idn) := by
  obtain ⟨m', rfl, hm⟩ := h
  have h : Sim c (withMgr c m') := ⟨m', rfl, hm⟩
  unfold leave
  refine simRes_ite (fun _ => simRes_mk h) (fun _ => ?_)
  refine simRes_ite (fun _ => simRes_mk h) (fun _ => ?_)
  refine simRes_ite (fun _ => simRes_mk h) (fun _ => ?_)
  exact ⟨⟨m', rfl, hm⟩, rfl⟩

theorem sim_merge {c c' : Cl} (h : Sim c c') : SimRes (merge c) (merge c') := by
  obtain ⟨m', rfl, hm⟩ := h
  have h : Sim c (withMgr c m') := ⟨m', rfl, hm⟩
  unfold merge
  refine simRes_ite (fun _ => simRes_mk h) (fun _ => ?_)
  refine simRes_ite (fun _ => simRes_mk h) (fun _ => ?_)
  have hp : (withMgr c m').g.pending = c.g.pending := rfl
  rw [hp]
  cases c.g.pending with
  | some p => exact ⟨⟨m', rfl, hm⟩, rfl⟩
  | none => exact ⟨⟨m', rfl, hm⟩, rfl⟩

theorem sim_clear {c c' : Cl} (h : Sim c c') : SimRes (clear c) (clear c') := by
  obtain ⟨m', rfl, hm⟩ := h
  have h : Sim c (withMgr c m') := ⟨m', rfl, hm⟩
  unfold clear
  exact simRes_ite (fun _ => simRes_mk h) (fun _ => ⟨⟨m', rfl, hm⟩, rfl⟩)

theorem sim_join {c c' : Cl} (h : Sim c c') (g : GState) : Sim (join c g) (join c' g) := by
  obtain ⟨m', rfl, hm⟩ := h
  unfold join
  have hh : (withMgr c m').hasGroup = c.hasGroup := rfl
  rw [hh]
  split
  · exact ⟨m', rfl, hm⟩
  · exact ⟨[], rfl, .nil⟩

/-- a restart of the restarted run alone keeps the relation -/
theorem sim_restart_right {c c' : Cl} (h : Sim c c') : Sim c (restart c').1 := by
  obtain ⟨m', rfl, hm⟩ := h
  unfold restart
  split
  · exact ⟨_, rfl, hm.zero⟩
  · exact ⟨m', rfl, hm⟩

/-- … and so does a restart of both -/
theorem sim_restart {c c' : Cl} (h : Sim c c') : SimRes (restart c) (restart c') := by
  obtain ⟨m', rfl, hm⟩ := h
  unfold restart
  have hp : (withMgr c m').persistent = c.persistent := rfl
  rw [hp]
  refine simRes_ite (fun _ => simRes_mk ⟨_, rfl, ?_⟩) (fun _ => simRes_mk ⟨m', rfl, hm⟩)
  exact hm.zero_both

/-! ## histories -/

open MdkVerif.Props.C08 (COp)

def isRestart : COp → Bool
  | .restart => true
  | _ => false

/-- one API call with its result (`C08.cstep` with the result kept: `rstep_fst`) -/
def rstep (c : Cl) : COp → Cl × Res
  | .deliver e nx => deliver c e nx
  | .send n ts idn mid mts tok => send c n ts idn mid mts tok
  | .stage n ts idn b na => stageCommit c n ts idn b na
  | .data n ts idn u => updateData c n ts idn u
  | .remove n ts idn who => removeMembers c n ts idn who
  | .add n ts idn who => addMembers c n ts idn who
  | .join mp g e => (join c (welcomeState mp g e), .ok)
  | .leave n ts idn => leave c n ts idn
  | .merge => merge c
  | .clear => clear c
  | .restart => restart c

theorem rstep_fst (c : Cl) (o : COp) : (rstep c o).1 = MdkVerif.Props.C08.cstep c o := by cases o <;> rfl

/-- a history: the final client and the results of all calls but the restarts -/
def run (c : Cl) : List COp → Cl × List Res
  | [] => (c, [])
  | o :: os => ((run (rstep c o).1 os).1, if isRestart o then (run (rstep c o).1 os).2 else (rstep c o).2 :: (run (rstep c o).1 os).2)

/-- the same history without its restarts -/
def strip (ops : List COp) : List COp := ops.filter (fun o => !isRestart o)

theorem run_fst (c : Cl) (ops : List COp) : (run c ops).1 = ops.foldl MdkVerif.Props.C08.cstep c := by
  induction ops generalizing c with
  | nil => rfl
  | cons o os ih => simp only [run, List.foldl, ih, rstep_fst]

/-- the call rolls back for a candidate in the restart-free run (`c`) while the snapshot it is compared with is
    hydrated in the restarted run (`c'`): taken before the last restart -/
def staleWin (c c' : Cl) : COp → Bool
  | .deliver e _ => winsAt c e && hydratedAt c' (epochOf e.path)
  | _ => false

/-- no call of the history (`c`: restart-free run, `c'`: run with the restarts) is a stale win -/
def noStaleWin : Cl → Cl → List COp → Bool
  | _, _, [] => true
  | c, c', o :: os =>
    if isRestart o then noStaleWin c (restart c').1 os
    else !staleWin c c' o && noStaleWin (rstep c o).1 (rstep c' o).1 os

/-- the call does not roll back for a better competitor -/
def quietStep (c : Cl) : COp → Bool
  | .deliver e _ => !winsAt c e
  | _ => true

/-- no delivery of the run is judged better against a snapshot -/
def quietRun : Cl → List COp → Bool
  | _, [] => true
  | c, o :: os => quietStep c o && quietRun (rstep c o).1 os

theorem sim_rstep {c c' : Cl} (h : Sim c c') (o : COp) (hs : staleWin c c' o = false) : SimRes (rstep c o) (rstep c' o) := by
  cases o with
  | deliver e nx =>
    refine sim_deliver h e nx ?_
    intro hw
    simp only [staleWin, hw, Bool.true_and] at hs
    refine (isBetter_sim_iff c c' h.mgr _ e).2 ⟨?_, hs⟩
    simp only [winsAt, Bool.and_eq_true] at hw
    exact hw.2
  | send n ts idn mid mts tok => exact sim_send h n ts idn mid mts tok
  | stage n ts idn b na => exact sim_stageCommit h n ts idn b na
  | data n ts idn u => exact sim_updateData h n ts idn u
  | remove n ts idn who => exact sim_removeMembers h n ts idn who
  | add n ts idn who => exact sim_addMembers h n ts idn who
  | join mp g e => exact simRes_mk (sim_join h _)
  | leave n ts idn => exact sim_leave h n ts idn
  | merge => exact sim_merge h
  | clear => exact sim_clear h
  | restart => exact sim_restart h

theorem rstep_restart (c : Cl) (o : COp) (h : isRestart o = true) : rstep c o = restart c := by
  cases o <;> first | rfl | cases h

/-- **the simulation, for histories**: related clients, the restarted one runs `ops`, the other `ops` without the
    restarts; unless a call is a stale win they end related and every call answered the same -/
theorem run_sim (ops : List COp) {c c' : Cl} (h : Sim c c') (hq : noStaleWin c c' ops = true) :
    Sim (run c (strip ops)).1 (run c' ops).1 ∧ (run c' ops).2 = (run c (strip ops)).2 := by
  induction ops generalizing c c' with
  | nil => exact ⟨h, rfl⟩
  | cons o os ih =>
    by_cases hr : isRestart o = true
    · have hst : strip (o :: os) = strip os := by simp [strip, List.filter, hr]
      simp only [noStaleWin, hr, if_true] at hq
      rw [hst]
      simp only [run, hr, if_true, rstep_restart c' o hr]
      exact ih (sim_restart_right h) hq
    · have hr' : isRestart o = false := by simpa using hr
      have hst : strip (o :: os) = o :: strip os := by simp [strip, List.filter, hr']
      simp only [noStaleWin, hr', Bool.false_eq_true, if_false, Bool.and_eq_true, Bool.not_eq_true'] at hq
      rw [hst]
      simp only [run, hr', Bool.false_eq_true, if_false]
      obtain ⟨hs1, hs2⟩ := sim_rstep h o hq.1
      obtain ⟨i1, i2⟩ := ih hs1 hq.2
      exact ⟨i1, by rw [hs2, i2]⟩

/-- a snapshot that wins has a timestamp: on one and the same client no win is stale -/
theorem staleWin_self (c : Cl) (o : COp) : staleWin c c o = false := by
  cases o with
  | deliver e nx =>
    simp only [staleWin]
    cases hw : winsAt c e with
    | false => rfl
    | true =>
      simp only [winsAt, Bool.and_eq_true] at hw
      have := (isBetter_sim_iff c c (MgrRel.refl _) _ e).1 hw.2
      simp [this.2]
  | _ => rfl

/-- a quiet call is no stale win, whatever the restarted client looks like -/
theorem staleWin_of_quiet (c c' : Cl) (o : COp) (h : quietStep c o = true) : staleWin c c' o = false := by
  cases o with
  | deliver e nx =>
    simp only [quietStep, Bool.not_eq_true'] at h
    simp [staleWin, h]
  | _ => rfl

theorem noStaleWin_of_quiet (ops : List COp) (c c' : Cl) (h : quietRun c (strip ops) = true) : noStaleWin c c' ops = true := by
  induction ops generalizing c c' with
  | nil => rfl
  | cons o os ih =>
    by_cases hr : isRestart o = true
    · have hst : strip (o :: os) = strip os := by simp [strip, List.filter, hr]
      rw [hst] at h
      simp only [noStaleWin, hr, if_true]
      exact ih c _ h
    · have hr' : isRestart o = false := by simpa using hr
      have hst : strip (o :: os) = o :: strip os := by simp [strip, List.filter, hr']
      rw [hst] at h
      simp only [quietRun, Bool.and_eq_true] at h
      simp only [noStaleWin, hr', Bool.false_eq_true, if_false, Bool.and_eq_true, Bool.not_eq_true']
      exact ⟨staleWin_of_quiet c c' o h.1, ih _ _ h.2⟩

theorem strip_noRestart (ops : List COp) (h : ∀ o ∈ ops, isRestart o = false) : strip ops = ops := by
  simp only [strip, List.filter_eq_self]
  intro o ho; simp [h o ho]

theorem run_append (c : Cl) (a b : List COp) :
    run c (a ++ b) = ((run (run c a).1 b).1, (run c a).2 ++ (run (run c a).1 b).2) := by
  induction a generalizing c with
  | nil => rfl
  | cons o os ih =>
    simp only [List.cons_append, run, ih]
    split <;> rfl

/-- up to the first restart the two runs are one and the same: nothing is asked of those calls -/
theorem noStaleWin_prefix (pre post : List COp) (c : Cl) (h : ∀ o ∈ pre, isRestart o = false) :
    noStaleWin c c (pre ++ post) = noStaleWin (run c pre).1 (run c pre).1 post := by
  induction pre generalizing c with
  | nil => rfl
  | cons o os ih =>
    have hr : isRestart o = false := h o (List.mem_cons_self ..)
    simp only [List.cons_append, noStaleWin, hr, Bool.false_eq_true, if_false, staleWin_self, Bool.not_false, Bool.true_and, run]
    exact ih _ (fun x hx => h x (List.mem_cons_of_mem _ hx))

end MdkVerif.Client
