import MdkVerif.Model.Client
import MdkVerif.Proofs.Client
import MdkVerif.Proofs.Store
import MdkVerif.Proofs.Fork
import MdkVerif.Proofs.ForkInv
import MdkVerif.Proofs.Chain
import MdkVerif.Props.C01Fork
/-
  MdkVerif.Proofs.ChainMsg — lemmas for the history-level theorems about application messages
  (`Props/C02Chain.lean`), on top of the chain theorems of C01 (`Proofs/Chain.lean`).

  §A  the message table: lookup by message id (`findRow`), the re-marking of a rollback (`rbRow`), uniqueness.
  §B  frame of `process_message` on the message table, for EVERY state / event / fuel (`MTrans`, `mtrans_deliverN`):
      a delivery only (a) upserts a row — the row of the delivered application message (foreign sender), or the row
      the event's own dedup record names (own event) — or (b) re-marks rows with epoch > k at a rollback to k.
  §C  which handler runs on an application message (`step1_app_store`, `step1_app_dup`), and what it leaves.
  §D  one slot: a list of application messages created in the client's current state, any order, any repetition,
      stale events interleaved (`SlotInv`, `slot_run`).
  §E  one fork level and the message table (`level_rows`), the induction over levels and slots (`MsgDone`).
  §F  messages of a losing branch: an invariant of EVERY schedule of foreign events (`LInv`, `linv_deliverN`).

  The lemmas that unfold definitions of Model/Client.lean: §B `mtrans_*` (step1, deliverOnce, the handlers,
  rollbackTo), `midNone_*`; §C `step1_app_*`; §F `lstep_*`.  The rest uses statements only.
-/
namespace MdkVerif.ChainMsg
open MdkVerif MdkVerif.Client MdkVerif.Fork MdkVerif.Chain MdkVerif.Props.C01Fork
open MdkVerif.Store (alookup_ainsert_self alookup_ainsert_ne)

/-! ## §A  the message table -/

/-- the stored row of a message id (`get_message` by id) -/
def findRow (m : Nat) (l : List MsgRow) : Option MsgRow := l.find? (·.mid == m)

/-- what a rollback to epoch `k` does to a row (`invalidate_messages_after_epoch`) -/
def rbRow (k : Nat) (r : MsgRow) : MsgRow := if r.epoch > k then { r with state := 3 } else r

/-- message ids are unique in the table (the same predicate as `Props.C02.RowsUnique`) -/
def Uniq (l : List MsgRow) : Prop := l.Pairwise (fun a b => a.mid ≠ b.mid)

/-- the message id an application-message event carries -/
def appMid (e : Ev) : Option Nat :=
  match e.kind with
  | .app mid _ _ => some mid
  | _ => none

/-- the row `process_application_message` files for the event `e` at a receiver whose epoch is `ep` -/
def rowOf (ep : Nat) (e : Ev) : Option MsgRow :=
  match e.kind with
  | .app mid ts tok => some { mid := mid, author := e.sender, state := 1, epoch := ep, wrapper := e.n, msgTs := ts, tok := tok }
  | _ => none

theorem appMid_kind {e : Ev} {m : Nat} (h : appMid e = some m) : ∃ ts tok, e.kind = .app m ts tok := by
  unfold appMid at h
  split at h
  · rename_i mid ts tok hk
    cases h; exact ⟨ts, tok, hk⟩
  · cases h

theorem appMid_of_kind {e : Ev} {m ts tok : Nat} (h : e.kind = .app m ts tok) : appMid e = some m := by
  simp [appMid, h]

@[simp] theorem rbRow_mid (k : Nat) (r : MsgRow) : (rbRow k r).mid = r.mid := by
  unfold rbRow; split <;> rfl

theorem rbRow_le {k : Nat} {r : MsgRow} (h : r.epoch ≤ k) : rbRow k r = r := by
  unfold rbRow; rw [if_neg (by omega)]

theorem rbRow_gt {k : Nat} {r : MsgRow} (h : r.epoch > k) : (rbRow k r).state = 3 := by
  unfold rbRow; rw [if_pos h]

theorem findRow_map_rbRow (k m : Nat) (l : List MsgRow) : findRow m (l.map (rbRow k)) = (findRow m l).map (rbRow k) := by
  induction l with
  | nil => rfl
  | cons a t ih =>
    simp only [findRow, List.map_cons, List.find?_cons, rbRow_mid] at ih ⊢
    split
    · rfl
    · exact ih

theorem findRow_upsert_self (r : MsgRow) (l : List MsgRow) : findRow r.mid (upsertRow r l) = some r := by
  induction l with
  | nil => simp [upsertRow, findRow]
  | cons a t ih =>
    by_cases c : (a.mid == r.mid) = true
    · simp [upsertRow, c, findRow]
    · have c' : (a.mid == r.mid) = false := by simpa using c
      simp only [upsertRow, c', Bool.false_eq_true, if_false, findRow, List.find?_cons] at ih ⊢
      exact ih

theorem findRow_upsert_ne (r : MsgRow) (m : Nat) (l : List MsgRow) (h : m ≠ r.mid) : findRow m (upsertRow r l) = findRow m l := by
  induction l with
  | nil =>
    have : (r.mid == m) = false := by simpa using Ne.symm h
    simp [upsertRow, findRow, this]
  | cons a t ih =>
    by_cases c : (a.mid == r.mid) = true
    · have ce : a.mid = r.mid := by simpa using c
      have h1 : (a.mid == m) = false := by rw [ce]; simpa using Ne.symm h
      have h2 : (r.mid == m) = false := by simpa using Ne.symm h
      simp [upsertRow, c, findRow, h1, h2]
    · have c' : (a.mid == r.mid) = false := by simpa using c
      simp only [upsertRow, c', Bool.false_eq_true, if_false, findRow, List.find?_cons] at ih ⊢
      split
      · rfl
      · exact ih

theorem findRow_mid {m : Nat} {l : List MsgRow} {r : MsgRow} (h : findRow m l = some r) : r.mid = m ∧ r ∈ l := by
  have h1 := List.find?_some h
  exact ⟨by simpa using h1, List.mem_of_find?_eq_some h⟩

theorem mem_upsertRow (r x : MsgRow) (l : List MsgRow) (h : x ∈ upsertRow r l) : x = r ∨ x ∈ l := by
  induction l with
  | nil => simp [upsertRow] at h; exact Or.inl h
  | cons a t ih =>
    by_cases c : (a.mid == r.mid) = true
    · simp only [upsertRow, c, if_true, List.mem_cons] at h
      rcases h with h | h
      · exact Or.inl h
      · exact Or.inr (List.mem_cons_of_mem _ h)
    · have c' : (a.mid == r.mid) = false := by simpa using c
      simp only [upsertRow, c', Bool.false_eq_true, if_false, List.mem_cons] at h
      rcases h with h | h
      · exact Or.inr (by simp [h])
      · rcases ih h with h | h
        · exact Or.inl h
        · exact Or.inr (List.mem_cons_of_mem _ h)

theorem uniq_upsertRow (r : MsgRow) (l : List MsgRow) (h : Uniq l) : Uniq (upsertRow r l) := by
  induction l with
  | nil => simp [upsertRow, Uniq]
  | cons a t ih =>
    have ht := List.pairwise_cons.mp h
    by_cases c : (a.mid == r.mid) = true
    · have ce : a.mid = r.mid := by simpa using c
      simp only [upsertRow, c, if_true]
      exact List.pairwise_cons.mpr ⟨fun x hx => by rw [← ce]; exact ht.1 x hx, ht.2⟩
    · have c' : (a.mid == r.mid) = false := by simpa using c
      simp only [upsertRow, c', Bool.false_eq_true, if_false]
      refine List.pairwise_cons.mpr ⟨?_, ih ht.2⟩
      intro x hx
      rcases mem_upsertRow r x t hx with rfl | hx
      · simpa using c'
      · exact ht.1 x hx

theorem uniq_map_rbRow (k : Nat) (l : List MsgRow) (h : Uniq l) : Uniq (l.map (rbRow k)) := by
  unfold Uniq at h ⊢
  rw [List.pairwise_map]
  exact h.imp (by intro a b hab; simpa using hab)

/-- with unique ids, the row found is the ONLY row of that id: "stored exactly once" -/
theorem uniq_filter {m : Nat} {l : List MsgRow} {r : MsgRow} (hu : Uniq l) (h : findRow m l = some r) :
    l.filter (·.mid == m) = [r] := by
  induction l with
  | nil => cases h
  | cons a t ih =>
    have ht := List.pairwise_cons.mp hu
    simp only [findRow, List.find?_cons] at h
    by_cases c : (a.mid == m) = true
    · simp only [c, Option.some.injEq] at h
      subst h
      have hm : a.mid = m := by simpa using c
      have : t.filter (·.mid == m) = [] := by
        apply List.filter_eq_nil_iff.mpr
        intro x hx
        have := ht.1 x hx
        rw [hm] at this
        simpa using Ne.symm this
      simp [c, this]
    · have c' : (a.mid == m) = false := by simpa using c
      simp only [c'] at h
      simp only [List.filter_cons, c', Bool.false_eq_true, if_false]
      exact ih ht.2 h

theorem filter_nil_of_findRow_none {m : Nat} {l : List MsgRow} (h : findRow m l = none) : l.filter (·.mid == m) = [] := by
  apply List.filter_eq_nil_iff.mpr
  intro x hx
  exact List.find?_eq_none.mp h x hx

/-! ## §B  frame of `process_message` on the message table -/

/-- how the message table may change: by re-markings of a rollback to `ep` and by upserts of rows satisfying `ok` -/
inductive MTrans (ep : Nat) (ok : MsgRow → Prop) : List MsgRow → List MsgRow → Prop where
  | refl (l : List MsgRow) : MTrans ep ok l l
  | remark (l : List MsgRow) : MTrans ep ok l (l.map (rbRow ep))
  | upsert (l : List MsgRow) (r : MsgRow) (h : ok r) : MTrans ep ok l (upsertRow r l)
  | trans {a b c : List MsgRow} : MTrans ep ok a b → MTrans ep ok b c → MTrans ep ok a c

theorem MTrans.of_eq {ep : Nat} {ok : MsgRow → Prop} {a b : List MsgRow} (h : b = a) : MTrans ep ok a b := by subst h; exact .refl _

theorem MTrans.mono {ep : Nat} {ok ok' : MsgRow → Prop} {a b : List MsgRow} (h : MTrans ep ok a b) (hk : ∀ r, ok r → ok' r) :
    MTrans ep ok' a b := by
  induction h with
  | refl l => exact .refl l
  | remark l => exact .remark l
  | upsert l r h => exact .upsert l r (hk r h)
  | trans _ _ ih1 ih2 => exact .trans ih1 ih2

theorem MTrans.uniq {ep : Nat} {ok : MsgRow → Prop} {a b : List MsgRow} (h : MTrans ep ok a b) (hu : Uniq a) : Uniq b := by
  induction h with
  | refl l => exact hu
  | remark l => exact uniq_map_rbRow ep l hu
  | upsert l r _ => exact uniq_upsertRow r l hu
  | trans _ _ ih1 ih2 => exact ih2 (ih1 hu)

/-- the row of a message id that no upsert touches changes at most by the re-marking -/
theorem MTrans.frame {ep : Nat} {ok : MsgRow → Prop} {a b : List MsgRow} (h : MTrans ep ok a b) (m : Nat)
    (hm : ∀ r, ok r → r.mid ≠ m) (P : Option MsgRow → Prop) (hP : ∀ o, P o → P (o.map (rbRow ep))) :
    P (findRow m a) → P (findRow m b) := by
  induction h with
  | refl l => exact id
  | remark l => intro hp; rw [findRow_map_rbRow]; exact hP _ hp
  | upsert l r hr => intro hp; rw [findRow_upsert_ne r m l (Ne.symm (hm r hr))]; exact hp
  | trans _ _ ih1 ih2 => exact fun hp => ih2 (ih1 hp)

/-- without upserts no row appears, and a row changes at most its state: to invalidated, and only if its epoch tag is
    later than `ep` -/
theorem MTrans.rows_noupsert {ep : Nat} {a b : List MsgRow} (h : MTrans ep (fun _ => False) a b) :
    ∀ x ∈ b, ∃ y ∈ a, x = y ∨ (x = { y with state := 3 } ∧ y.epoch > ep) := by
  induction h with
  | refl l => exact fun x hx => ⟨x, hx, Or.inl rfl⟩
  | remark l =>
    intro x hx
    obtain ⟨y, hy, rfl⟩ := List.mem_map.mp hx
    refine ⟨y, hy, ?_⟩
    unfold rbRow
    split
    · rename_i hgt; exact Or.inr ⟨rfl, hgt⟩
    · exact Or.inl rfl
  | upsert l r hr => exact hr.elim
  | trans _ _ ih1 ih2 =>
    intro x hx
    obtain ⟨y, hy, hxy⟩ := ih2 x hx
    obtain ⟨z, hz, hyz⟩ := ih1 y hy
    refine ⟨z, hz, ?_⟩
    rcases hxy with rfl | ⟨rfl, hgt⟩
    · exact hyz
    · rcases hyz with rfl | ⟨rfl, hgt'⟩
      · exact Or.inr ⟨rfl, hgt⟩
      · exact Or.inr ⟨rfl, hgt'⟩

/-- the message id in the dedup record of event number `n` -/
def recMid (c : Cl) (n : Nat) : Option Nat := (getRec c n).bind (·.mid)

/-- the rows a delivery of `e` to the client `id` may upsert: the row of the application message `e` carries (foreign
    sender: `process_application_message`), or the row named by the event's own dedup record `om` (own event:
    the `CannotDecryptOwnMessage` path confirms the cached copy) -/
def OkRow (id : Nat) (e : Ev) (om : Option Nat) (r : MsgRow) : Prop :=
  (e.sender ≠ id ∧ appMid e = some r.mid) ∨ (e.sender = id ∧ om = some r.mid)

theorem rbRec_mid (ep : Nat) (r : Rec) : (rbRec ep r).mid = r.mid := by
  unfold rbRec rbRec2 rbRec1
  repeat' split
  all_goals rfl

theorem recMid_rollbackTo (c c1 : Cl) (ep n : Nat) (hr : rollbackTo c ep = some c1) : recMid c1 n = recMid c n :=
  (frame_rollbackTo n c c1 ep hr).recs (fun o => o.bind (·.mid) = recMid c n)
    (fun o ho => by cases o with
      | none => exact ho
      | some r => simpa [rbRec_mid] using ho) rfl

theorem msgs_rollbackTo (c c1 : Cl) (ep : Nat) (hr : rollbackTo c ep = some c1) : c1.msgs = c.msgs.map (rbRow ep) := by
  unfold rollbackTo at hr
  split at hr
  · cases hr
  · split at hr
    · cases hr
    · cases hr; rfl

theorem mtrans_ownMessage (ep : Nat) (c : Cl) (e : Ev) (hs : e.sender = c.id) :
    MTrans ep (OkRow c.id e (recMid c e.n)) c.msgs (ownMessage c e).1.msgs := by
  unfold ownMessage
  cases hr : getRec c e.n with
  | none => exact .refl _
  | some r =>
    have hom : recMid c e.n = r.mid := by simp [recMid, hr]
    simp only
    split
    · cases hm : r.mid with
      | none => exact .refl _
      | some mid =>
        simp only
        cases hf : c.msgs.find? (·.mid == mid) with
        | none => exact .refl _
        | some row =>
          have hrm : row.mid = mid := by simpa using List.find?_some hf
          exact .upsert _ _ (Or.inr ⟨hs, by rw [hom, hm]; simp [hrm]⟩)
    · split
      · cases hm : r.mid with
        | none => exact .refl _
        | some mid =>
          simp only [Option.bind_some]
          cases hf : c.msgs.find? (·.mid == mid) with
          | none => exact .refl _
          | some row =>
            have hrm : row.mid = mid := by simpa using List.find?_some hf
            exact .upsert _ _ (Or.inr ⟨hs, by rw [hom, hm]; simp [hrm]⟩)
      · split
        · exact .refl _
        · exact .refl _

theorem mtrans_notBetterResult (ep : Nat) (ok : MsgRow → Prop) (c : Cl) (e : Ev) :
    MTrans ep ok c.msgs (notBetterResult c e).1.msgs := by
  unfold notBetterResult
  split
  · split
    · exact .refl _
    · exact .refl _
  · exact .refl _

theorem mtrans_processCommit (ep : Nat) (ok : MsgRow → Prop) (c : Cl) (e : Ev) (b : Body) (sw : List Nat) :
    MTrans ep ok c.msgs (processCommit c e b sw).1.msgs := by
  unfold processCommit
  split
  · exact .refl _
  · dsimp only
    split
    · exact .refl _
    · exact .refl _

theorem mtrans_wrongEpochCommit (ok : MsgRow → Prop) (retry : Cl → Option (Cl × Res)) (c : Cl) (e : Ev) (ee : Nat)
    (hretry : ∀ c1 r, c1.id = c.id → recMid c1 e.n = recMid c e.n → retry c1 = some r → MTrans ee ok c1.msgs r.1.msgs) :
    MTrans ee ok c.msgs (wrongEpochCommit retry c e ee).1.msgs := by
  unfold wrongEpochCommit
  split
  · split
    · rename_i c1 hr
      split
      · rename_i r hrr
        have h1 : MTrans ee ok c.msgs c1.msgs := by rw [msgs_rollbackTo c c1 ee hr]; exact .remark _
        exact h1.trans (hretry c1 r (frame_rollbackTo 0 c c1 ee hr).id (recMid_rollbackTo c c1 ee e.n hr) hrr)
      · exact mtrans_notBetterResult ee ok c e
    · exact mtrans_notBetterResult ee ok c e
  · exact mtrans_notBetterResult ee ok c e

theorem mtrans_step1 (retry : Cl → Option (Cl × Res)) (nx : Nat) (c : Cl) (e : Ev)
    (hretry : ∀ c1 r, c1.id = c.id → recMid c1 e.n = recMid c e.n → retry c1 = some r →
      MTrans (epochOf e.path) (OkRow c.id e (recMid c e.n)) c1.msgs r.1.msgs) :
    MTrans (epochOf e.path) (OkRow c.id e (recMid c e.n)) c.msgs (step1 retry nx c e).1.msgs := by
  unfold step1
  split
  · exact .refl _
  · split
    · exact .refl _
    simp only
    split
    · exact .refl _
    · split
      · -- commit
        split
        · exact mtrans_wrongEpochCommit _ retry (withSecret c) e _ hretry
        · split
          · rename_i hown
            split
            · exact .refl _
            · exact mtrans_ownMessage _ (withSecret c) e (by simpa using hown)
          · split
            · exact .refl _
            · exact mtrans_processCommit _ _ (consume (withSecret c) e.cipher) e _ _
      · -- leave
        split
        · exact .refl _
        · split
          · rename_i hown
            exact mtrans_ownMessage _ (withSecret c) e (by simpa using hown)
          · split
            · exact .refl _
            · split
              · exact .refl _
              · exact .refl _
      · -- app
        rename_i mid ts tok hk
        split
        · exact .refl _
        · split
          · exact .refl _
          · split
            · rename_i hown
              exact mtrans_ownMessage _ (withSecret c) e (by simpa using hown)
            · rename_i hfor
              split
              · exact .refl _
              · unfold storeApp
                exact .upsert _ _ (Or.inl ⟨by simpa using hfor, by simp [appMid, hk]⟩)

theorem mtrans_deliverOnce (retry : Cl → Option (Cl × Res)) (nx : Nat) (c : Cl) (e : Ev)
    (hretry : ∀ c1 r, c1.id = c.id → recMid c1 e.n = recMid c e.n → retry c1 = some r →
      MTrans (epochOf e.path) (OkRow c.id e (recMid c e.n)) c1.msgs r.1.msgs) :
    MTrans (epochOf e.path) (OkRow c.id e (recMid c e.n)) c.msgs (deliverOnce retry nx c e).1.msgs := by
  unfold deliverOnce
  split
  · split
    · exact .refl _
    · exact mtrans_step1 retry nx c e hretry
  · exact mtrans_step1 retry nx c e hretry

/-- **frame of `process_message` on the message table**, every state, event and fuel: the table changes only by
    re-markings of a rollback to the event's epoch (rows with a later epoch tag become invalidated) and by upserts of
    the delivered message's own row (or, for an own event, of the row its dedup record names) -/
theorem mtrans_deliverN (fuel nx : Nat) (c : Cl) (e : Ev) :
    MTrans (epochOf e.path) (OkRow c.id e (recMid c e.n)) c.msgs (deliverN fuel nx c e).1.msgs := by
  induction fuel generalizing c with
  | zero => exact mtrans_deliverOnce _ nx c e (by intro c1 r _ _ hr; cases hr)
  | succ f ih =>
    apply mtrans_deliverOnce _ nx c e
    intro c1 r hid hm hr
    cases hr
    have := ih c1
    rw [hid, hm] at this
    exact this

/-! ### the message id named by a dedup record

  An own event re-validates the row its dedup record names.  For the frame of a whole delivery list one needs to know
  that the record of an own event that names NO message (an own commit: `OwnCommit.record`) keeps naming none. -/

theorem recMid_setRec_self (c : Cl) (n : Nat) (r : Rec) : recMid (setRec c n r) n = r.mid := by
  simp [recMid, getRec, setRec, alookup_ainsert_self]

theorem recMid_recordFailure_self (c : Cl) (n : Nat) (b : Bool) (ep : Option Nat) :
    recMid (recordFailure c n b ep) n = recMid c n := by
  unfold recordFailure
  rw [recMid_setRec_self]
  rfl

theorem recMid_ownMessage (c : Cl) (e : Ev) (h : recMid c e.n = none) : recMid (ownMessage c e).1 e.n = none := by
  unfold ownMessage
  cases hr : getRec c e.n with
  | none => exact h
  | some r =>
    have hm : r.mid = none := by simpa [recMid, hr] using h
    simp only [hm]
    split
    · exact h
    · split
      · exact h
      · split
        · exact h
        · exact h

theorem recMid_notBetterResult (c : Cl) (e : Ev) (h : recMid c e.n = none) : recMid (notBetterResult c e).1 e.n = none := by
  unfold notBetterResult
  split
  · split
    · exact h
    · exact (recMid_recordFailure_self c e.n _ _).trans h
  · exact (recMid_recordFailure_self c e.n _ _).trans h

theorem recMid_processCommit (c : Cl) (e : Ev) (b : Body) (sw : List Nat) (h : recMid c e.n = none) :
    recMid (processCommit c e b sw).1 e.n = none := by
  unfold processCommit
  split
  · exact (recMid_recordFailure_self c e.n _ _).trans h
  · dsimp only
    split
    · exact recMid_setRec_self _ _ _
    · exact recMid_setRec_self _ _ _

theorem recMid_wrongEpochCommit (retry : Cl → Option (Cl × Res)) (c : Cl) (e : Ev) (ee : Nat) (h : recMid c e.n = none)
    (hretry : ∀ c1 r, c1.id = c.id → recMid c1 e.n = none → retry c1 = some r → recMid r.1 e.n = none) :
    recMid (wrongEpochCommit retry c e ee).1 e.n = none := by
  unfold wrongEpochCommit
  split
  · split
    · rename_i c1 hr
      split
      · rename_i r hrr
        exact hretry c1 r (frame_rollbackTo 0 c c1 ee hr).id ((recMid_rollbackTo c c1 ee e.n hr).trans h) hrr
      · exact recMid_notBetterResult c e h
    · exact recMid_notBetterResult c e h
  · exact recMid_notBetterResult c e h

theorem recMid_step1 (retry : Cl → Option (Cl × Res)) (nx : Nat) (c : Cl) (e : Ev)
    (hown : e.sender = c.id ∨ appMid e = none) (h : recMid c e.n = none)
    (hretry : ∀ c1 r, c1.id = c.id → recMid c1 e.n = none → retry c1 = some r → recMid r.1 e.n = none) :
    recMid (step1 retry nx c e).1 e.n = none := by
  have hw : recMid (withSecret c) e.n = none := h
  unfold step1
  split
  · exact (recMid_recordFailure_self c e.n _ _).trans h
  · split
    · exact (recMid_recordFailure_self c e.n _ _).trans h
    simp only
    split
    · exact (recMid_recordFailure_self (withSecret c) e.n _ _).trans hw
    · split
      · -- commit
        split
        · exact recMid_wrongEpochCommit retry (withSecret c) e _ hw hretry
        · split
          · split
            · exact recMid_setRec_self _ _ _
            · exact recMid_ownMessage (withSecret c) e hw
          · split
            · exact (recMid_recordFailure_self (withSecret c) e.n _ _).trans hw
            · exact recMid_processCommit (consume (withSecret c) e.cipher) e _ _ hw
      · -- leave
        split
        · exact (recMid_recordFailure_self (withSecret c) e.n _ _).trans hw
        · split
          · exact recMid_ownMessage (withSecret c) e hw
          · split
            · exact (recMid_recordFailure_self (withSecret c) e.n _ _).trans hw
            · split
              · exact recMid_setRec_self _ _ _
              · exact recMid_setRec_self _ _ _
      · -- app
        rename_i mid ts tok hk
        split
        · exact (recMid_recordFailure_self (withSecret c) e.n _ _).trans hw
        · split
          · exact (recMid_recordFailure_self (withSecret c) e.n _ _).trans hw
          · split
            · exact recMid_ownMessage (withSecret c) e hw
            · rename_i hfor
              rcases hown with x | x
              · exact absurd x (by simpa using hfor)
              · simp [appMid, hk] at x

theorem recMid_deliverOnce (retry : Cl → Option (Cl × Res)) (nx : Nat) (c : Cl) (e : Ev)
    (hown : e.sender = c.id ∨ appMid e = none) (h : recMid c e.n = none)
    (hretry : ∀ c1 r, c1.id = c.id → recMid c1 e.n = none → retry c1 = some r → recMid r.1 e.n = none) :
    recMid (deliverOnce retry nx c e).1 e.n = none := by
  unfold deliverOnce
  split
  · split
    · exact h
    · exact recMid_step1 retry nx c e hown h hretry
  · exact recMid_step1 retry nx c e hown h hretry

/-- a dedup record that names no message keeps naming none, whatever is delivered — except a foreign application message
    under the record's own event number (which files its message id there) -/
theorem recMid_deliverN (fuel nx : Nat) (c : Cl) (e : Ev) (n : Nat)
    (hown : e.n = n → e.sender = c.id ∨ appMid e = none) (h : recMid c n = none) :
    recMid (deliverN fuel nx c e).1 n = none := by
  by_cases hn : n = e.n
  · subst hn
    have hown' := hown rfl
    clear hown
    induction fuel generalizing c with
    | zero => exact recMid_deliverOnce _ nx c e hown' h (by intro c1 r _ _ hr; cases hr)
    | succ f ih =>
      apply recMid_deliverOnce _ nx c e hown' h
      intro c1 r hid hm hr
      cases hr
      exact ih c1 hm (by rw [hid]; exact hown')
  · exact (frame_deliverN fuel nx c e n hn).recs (fun o => o.bind (·.mid) = none)
      (fun o ho => by cases o with
        | none => exact ho
        | some r => simpa [rbRec_mid] using ho) h

/-! ## §C  `process_message` on an application message: which handler runs -/

/-- a foreign application message of the current or a retained past epoch, routed, opened by the outer layer, its
    ratchet generation unused: `process_application_message` stores it -/
theorem step1_app_store (retry : Cl → Option (Cl × Res)) (nx : Nat) (c : Cl) (e : Ev) (mid ts tok : Nat)
    (hg : routes c e = true) (hact : c.g.active = true) (ho : outerOpens (withSecret c).g e = true)
    (hk : e.kind = .app mid ts tok) (hle : epochOf e.path ≤ epochOf c.g.path)
    (hpast : epochOf e.path < epochOf c.g.path → c.g.past.contains e.path = true)
    (hf : (e.sender == c.id) = false) (hc : e.cipher ∉ c.g.consumed) :
    step1 retry nx c e = storeApp (consume (withSecret c) e.cipher) e mid ts tok := by
  have h1 : ¬ epochOf c.g.path < epochOf e.path := by omega
  have h2 : ¬ (epochOf e.path < epochOf c.g.path ∧ ¬ e.path ∈ c.g.past) := by
    intro ⟨a, b⟩; exact b (by simpa using hpast a)
  unfold step1
  simp only [consume]
  simp [hg, hact, ho, hk, hf, hc]
  rw [if_neg h1, if_neg h2]

/-- … and when its ratchet generation was used already (a second offer): Unprocessable, a Failed record, nothing else -/
theorem step1_app_dup (retry : Cl → Option (Cl × Res)) (nx : Nat) (c : Cl) (e : Ev) (mid ts tok : Nat)
    (hg : routes c e = true) (hact : c.g.active = true) (ho : outerOpens (withSecret c).g e = true)
    (hk : e.kind = .app mid ts tok) (hle : epochOf e.path ≤ epochOf c.g.path)
    (hpast : epochOf e.path < epochOf c.g.path → c.g.past.contains e.path = true)
    (hf : (e.sender == c.id) = false) (hc : e.cipher ∈ c.g.consumed) :
    step1 retry nx c e = failUnprocessable (withSecret c) e := by
  have h1 : ¬ epochOf c.g.path < epochOf e.path := by omega
  have h2 : ¬ (epochOf e.path < epochOf c.g.path ∧ ¬ e.path ∈ c.g.past) := by
    intro ⟨a, b⟩; exact b (by simpa using hpast a)
  unfold step1
  simp [hg, hact, ho, hk, hf, hc]

/-- the dedup record of event number `n` does not block re-processing (absent, or neither Failed nor EpochInvalidated) -/
def NotBlocked (c : Cl) (n : Nat) : Prop := ∀ r, getRec c n = some r → r.state ≠ 3 ∧ r.state ≠ 4

theorem notBlocked_of_none {c : Cl} {n : Nat} (h : getRec c n = none) : NotBlocked c n := by
  intro r hr; rw [h] at hr; cases hr

theorem deliverOnce_notBlocked (retry : Cl → Option (Cl × Res)) (nx : Nat) (c : Cl) (e : Ev) (h : NotBlocked c e.n) :
    deliverOnce retry nx c e = step1 retry nx c e := by
  unfold deliverOnce
  cases hr : getRec c e.n with
  | none => rfl
  | some r =>
    obtain ⟨h3, h4⟩ := h r hr
    simp [h3, h4]

theorem updLast_eq (g : GState) (m t : Nat) : ∃ l, updLast g m t = { g with last := l } := by
  unfold updLast
  split
  · exact ⟨_, rfl⟩
  · split
    · exact ⟨_, rfl⟩
    · exact ⟨g.last, rfl⟩

theorem core_ensureSecret (g : GState) : core (ensureSecret g) = core g := by
  simp [core, dataOf]

theorem outerOpens_congr (g g' : GState) (e : Ev) (hp : g'.path = g.path) (hs : g'.secrets = g.secrets) :
    outerOpens g' e = outerOpens g e := by
  unfold outerOpens; rw [hp, hs]

theorem ensureSecret_fix (g : GState) (h : alookup (epochOf g.path) g.secrets ≠ none) : ensureSecret g = g := by
  cases hq : alookup (epochOf g.path) g.secrets with
  | none => exact absurd hq h
  | some q => exact ensureSecret_of_some g q hq

theorem ensureSecret_has (g : GState) : alookup (epochOf g.path) (ensureSecret g).secrets ≠ none := by
  cases hq : alookup (epochOf g.path) g.secrets with
  | none => rw [ensureSecret_of_none g hq]; simp [alookup_ainsert_self]
  | some q => rw [ensureSecret_of_some g q hq, hq]; simp

/-- what a stored application message leaves: the row upserted, the ratchet generation consumed, the current epoch's
    exporter secret cached, the last-message pointer possibly moved, the event's dedup record Processed — and nothing else -/
structure AppStored (c : Cl) (e : Ev) (row : MsgRow) (c' : Cl) : Prop where
  id : c'.id = c.id
  persistent : c'.persistent = c.persistent
  retention : c'.retention = c.retention
  maxPast : c'.maxPast = c.maxPast
  hasGroup : c'.hasGroup = c.hasGroup
  mgr : c'.mgr = c.mgr
  msgs : c'.msgs = upsertRow row c.msgs
  g : ∃ l, c'.g = { ensureSecret c.g with consumed := e.cipher :: c.g.consumed, last := l }
  recs : ∀ n, n ≠ e.n → getRec c' n = getRec c n
  record : getRec c' e.n = some { state := 1, epoch := some (epochOf c.g.path), hasGroup := true, mid := some row.mid }

namespace AppStored
variable {c c' : Cl} {e : Ev} {row : MsgRow}

theorem path (h : AppStored c e row c') : c'.g.path = c.g.path := by
  obtain ⟨l, hl⟩ := h.g; rw [hl]; exact ensureSecret_path c.g
theorem core (h : AppStored c e row c') : Chain.core c'.g = Chain.core c.g := by
  obtain ⟨l, hl⟩ := h.g; rw [hl]; exact core_ensureSecret c.g
theorem active (h : AppStored c e row c') : c'.g.active = c.g.active := by
  obtain ⟨l, hl⟩ := h.g; rw [hl]; exact ensureSecret_active c.g
theorem recNid (h : AppStored c e row c') : c'.g.recNid = c.g.recNid := by
  obtain ⟨l, hl⟩ := h.g; rw [hl]; exact ensureSecret_recNid c.g
theorem nid (h : AppStored c e row c') : c'.g.nid = c.g.nid := by
  obtain ⟨l, hl⟩ := h.g; rw [hl]; exact ensureSecret_nid c.g
theorem past (h : AppStored c e row c') : c'.g.past = c.g.past := by
  obtain ⟨l, hl⟩ := h.g; rw [hl]; exact (ensureSecret_fields c.g).2.2.2.2.2.2.2.2.2.2.2
theorem secrets (h : AppStored c e row c') : c'.g.secrets = (ensureSecret c.g).secrets := by
  obtain ⟨l, hl⟩ := h.g; rw [hl]
theorem consumed (h : AppStored c e row c') : c'.g.consumed = e.cipher :: c.g.consumed := by
  obtain ⟨l, hl⟩ := h.g; rw [hl]
theorem fix (h : AppStored c e row c') : ensureSecret c'.g = c'.g := by
  apply ensureSecret_fix
  rw [h.path, h.secrets]
  exact ensureSecret_has c.g
theorem secretsOK (h : AppStored c e row c') (hs : SecretsOK c.g) : SecretsOK c'.g := by
  intro ep q hq
  rw [h.secrets] at hq
  rw [h.path]
  have := secretsOK_ensure c.g hs ep q hq
  rwa [ensureSecret_path] at this

end AppStored

theorem storeApp_stored (c : Cl) (e : Ev) (mid ts tok : Nat) :
    AppStored c e { mid := mid, author := e.sender, state := 1, epoch := epochOf c.g.path, wrapper := e.n, msgTs := ts, tok := tok }
      (storeApp (consume (withSecret c) e.cipher) e mid ts tok).1 := by
  obtain ⟨l, hl⟩ := updLast_eq (consume (withSecret c) e.cipher).g mid ts
  refine ⟨rfl, rfl, rfl, rfl, rfl, rfl, ?_, ⟨l, ?_⟩, ?_, ?_⟩
  · show upsertRow _ c.msgs = _
    simp only [consume, withSecret_path]
  · show updLast (consume (withSecret c) e.cipher).g mid ts = _
    rw [hl]
    simp only [consume, withSecret, ensureSecret_consumed]
  · intro n hn
    simp only [storeApp, getRec, setRec]
    exact alookup_ainsert_ne _ _ _ _ hn
  · simp only [storeApp, getRec, setRec, consume, withSecret_path]
    exact alookup_ainsert_self _ _ _

/-- **a fresh application message is stored** (every fuel): the hypotheses name exactly the tests of
    `process_message` — not blocked by its dedup record, routed by its `h` tag, the group active, the outer layer opens
    it, created in the current epoch or a retained past one, by somebody else, its ratchet generation unused -/
theorem deliverN_app_store (fuel nx : Nat) (c : Cl) (e : Ev) (mid ts tok : Nat)
    (hnb : NotBlocked c e.n) (hg : routes c e = true) (hact : c.g.active = true)
    (ho : outerOpens (ensureSecret c.g) e = true)
    (hk : e.kind = .app mid ts tok) (hle : epochOf e.path ≤ epochOf c.g.path)
    (hpast : epochOf e.path < epochOf c.g.path → c.g.past.contains e.path = true)
    (hf : e.sender ≠ c.id) (hc : e.cipher ∉ c.g.consumed) :
    deliverN fuel nx c e = storeApp (consume (withSecret c) e.cipher) e mid ts tok := by
  obtain ⟨retry, hd⟩ := deliverN_once fuel nx c e
  rw [hd, deliverOnce_notBlocked retry nx c e hnb,
    step1_app_store retry nx c e mid ts tok hg hact ho hk hle hpast (by simpa using hf) hc]

/-- a second offer of a stored application message: Unprocessable; it only overwrites its own dedup record (Failed)
    and caches the exporter secret; a blocked one changes nothing at all -/
theorem deliverN_app_dup (fuel nx : Nat) (c : Cl) (e : Ev) (mid ts tok : Nat)
    (hg : routes c e = true) (hact : c.g.active = true)
    (ho : outerOpens (ensureSecret c.g) e = true)
    (hk : e.kind = .app mid ts tok) (hle : epochOf e.path ≤ epochOf c.g.path)
    (hpast : epochOf e.path < epochOf c.g.path → c.g.past.contains e.path = true)
    (hf : e.sender ≠ c.id) (hc : e.cipher ∈ c.g.consumed) :
    (deliverN fuel nx c e).2 = .unprocessable ∧ Quiet e.n c (deliverN fuel nx c e).1 := by
  obtain ⟨retry, hd⟩ := deliverN_once fuel nx c e
  rw [hd]
  by_cases hnb : NotBlocked c e.n
  · rw [deliverOnce_notBlocked retry nx c e hnb,
      step1_app_dup retry nx c e mid ts tok hg hact ho hk hle hpast (by simpa using hf) hc]
    refine ⟨rfl, rfl, rfl, rfl, rfl, rfl, Or.inr rfl, rfl, rfl, ?_⟩
    intro m hm
    simp only [failUnprocessable, getRec, recordFailure, setRec]
    exact alookup_ainsert_ne _ _ _ _ hm
  · unfold NotBlocked at hnb
    cases hr : getRec c e.n with
    | none => exact absurd (fun r h => by rw [hr] at h; cases h) hnb
    | some r =>
      have h34 : r.state = 3 ∨ r.state = 4 := by
        by_cases h3 : r.state = 3
        · exact Or.inl h3
        · by_cases h4 : r.state = 4
          · exact Or.inr h4
          · exact absurd (fun r' h => by rw [hr] at h; cases h; exact ⟨h3, h4⟩) hnb
      constructor
      · unfold deliverOnce
        rcases h34 with h | h <;> simp [hr, h, hg]
      · rw [deliverOnce_blocked retry nx c e r hr h34]
        exact quiet_refl _ c

/-! ## §D  one slot: application messages created in the client's current state -/

/-- the conditions on the messages of one slot that mention only the EVENTS and the core `k` of the state they were
    created in: application messages created in the state with path `k.1`, by others than the receiver `id`, published
    under that state's nostr group id, with pairwise distinct event numbers, ciphertexts and message ids -/
structure SlotEv (id : Nat) (k : Core) (M : List Ev) : Prop where
  kind : ∀ e ∈ M, (appMid e).isSome = true
  path : ∀ e ∈ M, e.path = k.1
  foreign : ∀ e ∈ M, e.sender ≠ id
  tag : ∀ e ∈ M, e.tag = k.2.2.nid
  distinct : ∀ e1 ∈ M, ∀ e2 ∈ M, e1 ≠ e2 → e1.n ≠ e2.n ∧ e1.cipher ≠ e2.cipher ∧ appMid e1 ≠ appMid e2

/-- an event that is stale for the whole slot: created in a state that is not a prefix of the client's path (a message or
    a commit of a branch that lost, for instance), with an event number of its own -/
def StaleSlot (p : Path) (M : List Ev) (x : Ev) : Prop := ¬ x.path <+: p ∧ ∀ e ∈ M, x.n ≠ e.n

theorem rowOf_some {ep : Nat} {e : Ev} (h : (appMid e).isSome = true) :
    ∃ mid ts tok, e.kind = .app mid ts tok ∧
      rowOf ep e = some { mid := mid, author := e.sender, state := 1, epoch := ep, wrapper := e.n, msgTs := ts, tok := tok } := by
  cases hk : e.kind with
  | app mid ts tok => exact ⟨mid, ts, tok, rfl, by simp [rowOf, hk]⟩
  | commit b sw => simp [appMid, hk] at h
  | leave => simp [appMid, hk] at h

theorem rowOf_mid {ep : Nat} {e : Ev} {row : MsgRow} (h : rowOf ep e = some row) : appMid e = some row.mid := by
  unfold rowOf at h
  split at h
  · rename_i mid ts tok hk
    cases h; simp [appMid, hk]
  · cases h

theorem ready_ensure {c c' : Cl} (h : Ready c) (hg : c'.hasGroup = c.hasGroup) (hr : c'.retention = c.retention)
    (hm : c'.mgr = c.mgr) (hgg : c'.g = c.g ∨ c'.g = ensureSecret c.g) : Ready c' := by
  rcases hgg with x | x
  · exact ⟨hg ▸ h.hasGroup, x ▸ h.act, hr ▸ h.ret, x ▸ h.sec, fun s hs => by rw [x]; exact h.below s (hm ▸ hs), x ▸ h.nid⟩
  · refine ⟨hg ▸ h.hasGroup, by rw [x, ensureSecret_active]; exact h.act, hr ▸ h.ret, by rw [x]; exact secretsOK_ensure _ h.sec,
      fun s hs => by rw [x, ensureSecret_path]; exact h.below s (hm ▸ hs), by rw [x, ensureSecret_recNid, ensureSecret_nid]; exact h.nid⟩

/-- what the client looks like inside a slot, after the delivery list `dl`, relative to its state `c0` at the start of the
    slot: same configuration, snapshots, MLS state and group data; consumed generations and dedup records grew only by
    the delivered events; every delivered message of the slot has its row; no other row was touched -/
structure SlotInv (c0 : Cl) (M : List Ev) (dl : List Ev) (c : Cl) : Prop where
  id : c.id = c0.id
  persistent : c.persistent = c0.persistent
  retention : c.retention = c0.retention
  maxPast : c.maxPast = c0.maxPast
  mgr : c.mgr = c0.mgr
  ready : Ready c
  path : c.g.path = c0.g.path
  core : core c.g = core c0.g
  cons : ∀ x ∈ c.g.consumed, x ∈ c0.g.consumed ∨ ∃ e ∈ dl, e ∈ M ∧ e.cipher = x
  recs : ∀ n, (∀ e ∈ dl, n ≠ e.n) → getRec c n = getRec c0 n
  rows : ∀ m, (∀ e ∈ dl, e ∈ M → appMid e ≠ some m) → findRow m c.msgs = findRow m c0.msgs
  done : ∀ e ∈ dl, e ∈ M → ∀ row, rowOf (epochOf c0.g.path) e = some row →
    findRow row.mid c.msgs = some row ∧ e.cipher ∈ c.g.consumed
  uniq : Uniq c.msgs
  dlOK : ∀ e ∈ dl, e ∈ M ∨ StaleSlot c0.g.path M e

theorem slotInv_init (c0 : Cl) (M : List Ev) (hr : Ready c0) (hu : Uniq c0.msgs) : SlotInv c0 M [] c0 :=
  ⟨rfl, rfl, rfl, rfl, rfl, hr, rfl, rfl, fun _ hx => Or.inl hx, fun _ _ => rfl, fun _ _ => rfl,
   fun e he => (by cases he), hu, fun e he => (by cases he)⟩

theorem slotInv_quiet {c0 c c' : Cl} {M dl : List Ev} {x : Ev} (h : SlotInv c0 M dl c) (hq : Quiet x.n c c')
    (hpers : c'.persistent = c.persistent) (hx : x ∈ M → x ∈ dl) (hok : x ∈ M ∨ StaleSlot c0.g.path M x) :
    SlotInv c0 M (dl ++ [x]) c' := by
  have hmem : ∀ e, e ∈ dl → e ∈ dl ++ [x] := fun e he => List.mem_append_left _ he
  have hpath : c'.g.path = c.g.path := by
    rcases hq.g with y | y <;> rw [y]
    exact ensureSecret_path _
  have hcore : core c'.g = core c.g := by
    rcases hq.g with y | y <;> rw [y]
    exact core_ensureSecret _
  refine ⟨hq.id.trans h.id, hpers.trans h.persistent, hq.retention.trans h.retention, hq.maxPast.trans h.maxPast,
    hq.mgr.trans h.mgr, ready_ensure h.ready hq.hasGroup hq.retention hq.mgr hq.g, hpath.trans h.path, hcore.trans h.core,
    ?_, ?_, ?_, ?_, hq.msgs ▸ h.uniq, ?_⟩
  rotate_right
  · intro e he
    rcases List.mem_append.mp he with y | y
    · exact h.dlOK e y
    · simp only [List.mem_singleton] at y; subst y; exact hok
  · intro y hy
    rw [hq.consumed] at hy
    rcases h.cons y hy with z | ⟨e, he, z⟩
    · exact Or.inl z
    · exact Or.inr ⟨e, hmem e he, z⟩
  · intro n hn
    rw [hq.recs n (hn x (by simp))]
    exact h.recs n (fun e he => hn e (hmem e he))
  · intro m hm
    rw [hq.msgs]
    exact h.rows m (fun e he => hm e (hmem e he))
  · intro e he heM row hrow
    rw [hq.msgs, hq.consumed]
    rcases List.mem_append.mp he with y | y
    · exact h.done e y heM row hrow
    · simp only [List.mem_singleton] at y
      subst y
      exact h.done e (hx heM) heM row hrow

/-- what a slot assumes of the client's state at its start -/
structure SlotBase (c0 : Cl) (M : List Ev) : Prop where
  ev : SlotEv c0.id (core c0.g) M
  fresh : ∀ e ∈ M, getRec c0 e.n = none ∧ e.cipher ∉ c0.g.consumed

theorem slot_step (c0 : Cl) (M dl : List Ev) (c : Cl) (x : Ev) (nx : Nat) (hb : SlotBase c0 M) (h : SlotInv c0 M dl c)
    (hx : x ∈ M ∨ StaleSlot c0.g.path M x) : SlotInv c0 M (dl ++ [x]) (deliver c x nx).1 := by
  have hpers := (deliver_config nx c x).2.1
  rcases hx with hxM | hst
  · obtain ⟨mid, ts, tok, hk, hrow⟩ := rowOf_some (ep := epochOf c0.g.path) (hb.ev.kind x hxM)
    have hbase : Base c := base_of c h.ready.hasGroup h.ready.act h.ready.ret h.ready.sec h.ready.below.noFork
    have hpath : x.path = c.g.path := (hb.ev.path x hxM).trans h.path.symm
    have ho : outerOpens (ensureSecret c.g) x = true := outerOpens_parent c hbase x hpath
    have hnid : c.g.nid = c0.g.nid := congrArg (fun k : Core => k.2.2.nid) h.core
    have hroutes : routes c x = true := by
      have : x.tag = c.g.recNid := by rw [h.ready.nid, hnid]; exact hb.ev.tag x hxM
      simp [routes, h.ready.hasGroup, this]
    have hfor : x.sender ≠ c.id := by rw [h.id]; exact hb.ev.foreign x hxM
    have hle : epochOf x.path ≤ epochOf c.g.path := by rw [hpath]; exact Nat.le_refl _
    have hpast : epochOf x.path < epochOf c.g.path → c.g.past.contains x.path = true := by
      rw [hpath]; intro a; exact absurd a (Nat.lt_irrefl _)
    by_cases hd : x ∈ dl
    · obtain ⟨_, hq⟩ := deliverN_app_dup 3 nx c x mid ts tok hroutes h.ready.act ho hk hle hpast hfor (h.done x hd hxM _ hrow).2
      exact slotInv_quiet h hq hpers (fun _ => hd) (Or.inl hxM)
    · have hnum : ∀ e ∈ dl, x.n ≠ e.n := by
        intro e he
        rcases h.dlOK e he with y | y
        · exact (hb.ev.distinct x hxM e y (fun z => hd (z ▸ he))).1
        · exact (y.2 x hxM).symm
      have hn : getRec c x.n = none := by rw [h.recs x.n hnum]; exact (hb.fresh x hxM).1
      have hc : x.cipher ∉ c.g.consumed := by
        intro z
        rcases h.cons _ z with y | ⟨e, he, heM, y⟩
        · exact (hb.fresh x hxM).2 y
        · by_cases hex : x = e
          · exact hd (hex ▸ he)
          · exact (hb.ev.distinct x hxM e heM hex).2.1 y.symm
      have hs := storeApp_stored c x mid ts tok
      rw [← deliverN_app_store 3 nx c x mid ts tok (notBlocked_of_none hn) hroutes h.ready.act ho hk hle hpast hfor hc] at hs
      rw [h.path] at hs
      change AppStored c x _ (deliver c x nx).1 at hs
      have hmem : ∀ e, e ∈ dl → e ∈ dl ++ [x] := fun e he => List.mem_append_left _ he
      have hmid : appMid x = some mid := appMid_of_kind hk
      refine ⟨hs.id.trans h.id, hpers.trans h.persistent, hs.retention.trans h.retention, hs.maxPast.trans h.maxPast,
        hs.mgr.trans h.mgr,
        ⟨hs.hasGroup ▸ h.ready.hasGroup, hs.active ▸ h.ready.act, hs.retention ▸ h.ready.ret, hs.secretsOK h.ready.sec,
          fun s hm => by rw [hs.path]; exact h.ready.below s (hs.mgr ▸ hm), by rw [hs.recNid, hs.nid]; exact h.ready.nid⟩,
        hs.path.trans h.path, hs.core.trans h.core, ?_, ?_, ?_, ?_, by rw [hs.msgs]; exact uniq_upsertRow _ _ h.uniq, ?_⟩
      · intro y hy
        rw [hs.consumed] at hy
        rcases List.mem_cons.mp hy with z | z
        · exact Or.inr ⟨x, by simp, hxM, z.symm⟩
        · rcases h.cons y z with w | ⟨e, he, heM, w⟩
          · exact Or.inl w
          · exact Or.inr ⟨e, hmem e he, heM, w⟩
      · intro n hn'
        rw [hs.recs n (hn' x (by simp))]
        exact h.recs n (fun e he => hn' e (hmem e he))
      · intro m hm
        have : m ≠ mid := fun z => hm x (by simp) hxM (by rw [hmid, z])
        rw [hs.msgs, findRow_upsert_ne _ m _ this]
        exact h.rows m (fun e he => hm e (hmem e he))
      · intro e he heM row hr
        rcases List.mem_append.mp he with y | y
        · have hex : e ≠ x := fun z => hd (z ▸ y)
          have hmm : row.mid ≠ mid := by
            have h1 := (hb.ev.distinct e heM x hxM hex).2.2
            rw [rowOf_mid hr, hmid] at h1
            exact fun z => h1 (by rw [z])
          obtain ⟨d1, d2⟩ := h.done e y heM row hr
          rw [hs.msgs, findRow_upsert_ne _ _ _ hmm, hs.consumed]
          exact ⟨d1, List.mem_cons_of_mem _ d2⟩
        · simp only [List.mem_singleton] at y
          subst y
          rw [hrow] at hr
          cases hr
          rw [hs.msgs, hs.consumed]
          exact ⟨findRow_upsert_self _ _, by simp⟩
      · intro e he
        rcases List.mem_append.mp he with y | y
        · exact h.dlOK e y
        · simp only [List.mem_singleton] at y; subst y; exact Or.inl hxM
  · have hq : Quiet x.n c (deliver c x nx).1 :=
      quiet_stale 3 nx c x (secretsOK_ensure _ h.ready.sec) (by rw [h.path]; exact hst.1)
    exact slotInv_quiet h hq hpers (fun hxM => absurd rfl (hst.2 x hxM)) (Or.inr hst)

/-- **one slot**: any list over the slot's messages and stale events — any order, any repetition — leaves every
    delivered message of the slot stored exactly as sent, and touches nothing else -/
theorem slot_run (c0 : Cl) (M : List Ev) (nx : Nat) (hb : SlotBase c0 M) (l : List Ev) :
    ∀ (dl : List Ev) (c : Cl), SlotInv c0 M dl c → (∀ e ∈ l, e ∈ M ∨ StaleSlot c0.g.path M e) →
      SlotInv c0 M (dl ++ l) (run nx c l) := by
  induction l with
  | nil => intro dl c h _; simpa using h
  | cons x t ih =>
    intro dl c h hl
    have := ih (dl ++ [x]) _ (slot_step c0 M dl c x nx hb h (hl x List.mem_cons_self))
      (fun e he => hl e (List.mem_cons_of_mem _ he))
    rw [run_cons]
    simpa using this

end MdkVerif.ChainMsg
