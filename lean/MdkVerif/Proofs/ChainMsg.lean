import MdkVerif.Model.Client
import MdkVerif.Proofs.Client
import MdkVerif.Proofs.Store
import MdkVerif.Proofs.Fork
import MdkVerif.Proofs.ForkInv
import MdkVerif.Proofs.Chain
import MdkVerif.Props.C01Fork
/-
  MdkVerif.Proofs.ChainMsg — lemmas for the history-level theorems about application messages
  (`Props/C02Chain.lean`), on top of the chain theorems of C01 (`Proofs/Chain.lean`).

  §A  the message table: lookup by message id (`findRow`), the re-marking of a rollback (`rbRow`), uniqueness.
  §B  frame of `process_message` on the message table, for EVERY state / event / fuel (`MTrans`, `mtrans_deliverN`):
      a delivery only (a) upserts a row — the row of the delivered application message (foreign sender), or the row
      the event's own dedup record names (own event) — or (b) re-marks rows with epoch > k at a rollback to k.
  §C  which handler runs on an application message (`step1_app_store`, `step1_app_dup`), and what it leaves.
  §D  one slot: a list of application messages created in the client's current state, any order, any repetition,
      stale events interleaved (`SlotInv`, `slot_run`).
  §E  one fork level and the message table (`level_rows`), retained past states along a chain (`Retained`), the induction
      over levels and slots (`MsgDone`).
  §F  messages of a losing branch: an invariant of EVERY schedule of foreign events (`LInv`, `linv_deliverN`).

  The lemmas that unfold definitions of Model/Client.lean: §B `mtrans_*` (step1, deliverOnce, the handlers,
  rollbackTo), `midNone_*`; §C `step1_app_*`; §F `lstep_*`.  The rest uses statements only.
-/
namespace MdkVerif.ChainMsg
open MdkVerif MdkVerif.Client MdkVerif.Fork MdkVerif.Chain MdkVerif.Props.C01Fork
open MdkVerif.Store (alookup_ainsert_self alookup_ainsert_ne)

/-! ## §A  the message table -/

/-- the stored row of a message id (`get_message` by id) -/
def findRow (m : Nat) (l : List MsgRow) : Option MsgRow := l.find? (·.mid == m)

/-- what a rollback to epoch `k` does to a row (`invalidate_messages_after_epoch`) -/
def rbRow (k : Nat) (r : MsgRow) : MsgRow := if r.epoch > k then { r with state := 3 } else r

/-- message ids are unique in the table (the same predicate as `Props.C02.RowsUnique`) -/
def Uniq (l : List MsgRow) : Prop := l.Pairwise (fun a b => a.mid ≠ b.mid)

/-- the message id an application-message event carries -/
def appMid (e : Ev) : Option Nat :=
  match e.kind with
  | .app mid _ _ => some mid
  | _ => none

/-- the row `process_application_message` files for the event `e` at a receiver whose epoch is `ep` -/
def rowOf (ep : Nat) (e : Ev) : Option MsgRow :=
  match e.kind with
  | .app mid ts tok => some { mid := mid, author := e.sender, state := 1, epoch := ep, wrapper := e.n, msgTs := ts, tok := tok }
  | _ => none

theorem appMid_kind {e : Ev} {m : Nat} (h : appMid e = some m) : ∃ ts tok, e.kind = .app m ts tok := by
  unfold appMid at h
  split at h
  · rename_i mid ts tok hk
    cases h; exact ⟨ts, tok, hk⟩
  · cases h

theorem appMid_of_kind {e : Ev} {m ts tok : Nat} (h : e.kind = .app m ts tok) : appMid e = some m := by
  simp [appMid, h]

@[simp] theorem rbRow_mid (k : Nat) (r : MsgRow) : (rbRow k r).mid = r.mid := by
  unfold rbRow; split <;> rfl

theorem rbRow_le {k : Nat} {r : MsgRow} (h : r.epoch ≤ k) : rbRow k r = r := by
  unfold rbRow; rw [if_neg (by omega)]

theorem rbRow_gt {k : Nat} {r : MsgRow} (h : r.epoch > k) : (rbRow k r).state = 3 := by
  unfold rbRow; rw [if_pos h]

theorem findRow_map_rbRow (k m : Nat) (l : List MsgRow) : findRow m (l.map (rbRow k)) = (findRow m l).map (rbRow k) := by
  induction l with
  | nil => rfl
  | cons a t ih =>
    simp only [findRow, List.map_cons, List.find?_cons, rbRow_mid] at ih ⊢
    split
    · rfl
    · exact ih

theorem findRow_upsert_self (r : MsgRow) (l : List MsgRow) : findRow r.mid (upsertRow r l) = some r := by
  induction l with
  | nil => simp [upsertRow, findRow]
  | cons a t ih =>
    by_cases c : (a.mid == r.mid) = true
    · simp [upsertRow, c, findRow]
    · have c' : (a.mid == r.mid) = false := by simpa using c
      simp only [upsertRow, c', Bool.false_eq_true, if_false, findRow, List.find?_cons] at ih ⊢
      exact ih

theorem findRow_upsert_ne (r : MsgRow) (m : Nat) (l : List MsgRow) (h : m ≠ r.mid) : findRow m (upsertRow r l) = findRow m l := by
  induction l with
  | nil =>
    have : (r.mid == m) = false := by simpa using Ne.symm h
    simp [upsertRow, findRow, this]
  | cons a t ih =>
    by_cases c : (a.mid == r.mid) = true
    · have ce : a.mid = r.mid := by simpa using c
      have h1 : (a.mid == m) = false := by rw [ce]; simpa using Ne.symm h
      have h2 : (r.mid == m) = false := by simpa using Ne.symm h
      simp [upsertRow, c, findRow, h1, h2]
    · have c' : (a.mid == r.mid) = false := by simpa using c
      simp only [upsertRow, c', Bool.false_eq_true, if_false, findRow, List.find?_cons] at ih ⊢
      split
      · rfl
      · exact ih

theorem findRow_mid {m : Nat} {l : List MsgRow} {r : MsgRow} (h : findRow m l = some r) : r.mid = m ∧ r ∈ l := by
  have h1 := List.find?_some h
  exact ⟨by simpa using h1, List.mem_of_find?_eq_some h⟩

theorem mem_upsertRow (r x : MsgRow) (l : List MsgRow) (h : x ∈ upsertRow r l) : x = r ∨ x ∈ l := by
  induction l with
  | nil => simp [upsertRow] at h; exact Or.inl h
  | cons a t ih =>
    by_cases c : (a.mid == r.mid) = true
    · simp only [upsertRow, c, if_true, List.mem_cons] at h
      rcases h with h | h
      · exact Or.inl h
      · exact Or.inr (List.mem_cons_of_mem _ h)
    · have c' : (a.mid == r.mid) = false := by simpa using c
      simp only [upsertRow, c', Bool.false_eq_true, if_false, List.mem_cons] at h
      rcases h with h | h
      · exact Or.inr (by simp [h])
      · rcases ih h with h | h
        · exact Or.inl h
        · exact Or.inr (List.mem_cons_of_mem _ h)

theorem uniq_upsertRow (r : MsgRow) (l : List MsgRow) (h : Uniq l) : Uniq (upsertRow r l) := by
  induction l with
  | nil => simp [upsertRow, Uniq]
  | cons a t ih =>
    have ht := List.pairwise_cons.mp h
    by_cases c : (a.mid == r.mid) = true
    · have ce : a.mid = r.mid := by simpa using c
      simp only [upsertRow, c, if_true]
      exact List.pairwise_cons.mpr ⟨fun x hx => by rw [← ce]; exact ht.1 x hx, ht.2⟩
    · have c' : (a.mid == r.mid) = false := by simpa using c
      simp only [upsertRow, c', Bool.false_eq_true, if_false]
      refine List.pairwise_cons.mpr ⟨?_, ih ht.2⟩
      intro x hx
      rcases mem_upsertRow r x t hx with rfl | hx
      · simpa using c'
      · exact ht.1 x hx

theorem uniq_map_rbRow (k : Nat) (l : List MsgRow) (h : Uniq l) : Uniq (l.map (rbRow k)) := by
  unfold Uniq at h ⊢
  rw [List.pairwise_map]
  exact h.imp (by intro a b hab; simpa using hab)

/-- with unique ids, the row found is the ONLY row of that id: "stored exactly once" -/
theorem uniq_filter {m : Nat} {l : List MsgRow} {r : MsgRow} (hu : Uniq l) (h : findRow m l = some r) :
    l.filter (·.mid == m) = [r] := by
  induction l with
  | nil => cases h
  | cons a t ih =>
    have ht := List.pairwise_cons.mp hu
    simp only [findRow, List.find?_cons] at h
    by_cases c : (a.mid == m) = true
    · simp only [c, Option.some.injEq] at h
      subst h
      have hm : a.mid = m := by simpa using c
      have : t.filter (·.mid == m) = [] := by
        apply List.filter_eq_nil_iff.mpr
        intro x hx
        have := ht.1 x hx
        rw [hm] at this
        simpa using Ne.symm this
      simp [c, this]
    · have c' : (a.mid == m) = false := by simpa using c
      simp only [c'] at h
      simp only [List.filter_cons, c', Bool.false_eq_true, if_false]
      exact ih ht.2 h

theorem filter_nil_of_findRow_none {m : Nat} {l : List MsgRow} (h : findRow m l = none) : l.filter (·.mid == m) = [] := by
  apply List.filter_eq_nil_iff.mpr
  intro x hx
  exact List.find?_eq_none.mp h x hx

/-! ## §B  frame of `process_message` on the message table -/

/-- how the message table may change: by re-markings of a rollback to `ep` and by upserts of rows satisfying `ok` -/
inductive MTrans (ep : Nat) (ok : MsgRow → Prop) : List MsgRow → List MsgRow → Prop where
  | refl (l : List MsgRow) : MTrans ep ok l l
  | remark (l : List MsgRow) : MTrans ep ok l (l.map (rbRow ep))
  | upsert (l : List MsgRow) (r : MsgRow) (h : ok r) : MTrans ep ok l (upsertRow r l)
  | trans {a b c : List MsgRow} : MTrans ep ok a b → MTrans ep ok b c → MTrans ep ok a c

theorem MTrans.of_eq {ep : Nat} {ok : MsgRow → Prop} {a b : List MsgRow} (h : b = a) : MTrans ep ok a b := by subst h; exact .refl _

theorem MTrans.mono {ep : Nat} {ok ok' : MsgRow → Prop} {a b : List MsgRow} (h : MTrans ep ok a b) (hk : ∀ r, ok r → ok' r) :
    MTrans ep ok' a b := by
  induction h with
  | refl l => exact .refl l
  | remark l => exact .remark l
  | upsert l r h => exact .upsert l r (hk r h)
  | trans _ _ ih1 ih2 => exact .trans ih1 ih2

theorem MTrans.uniq {ep : Nat} {ok : MsgRow → Prop} {a b : List MsgRow} (h : MTrans ep ok a b) (hu : Uniq a) : Uniq b := by
  induction h with
  | refl l => exact hu
  | remark l => exact uniq_map_rbRow ep l hu
  | upsert l r _ => exact uniq_upsertRow r l hu
  | trans _ _ ih1 ih2 => exact ih2 (ih1 hu)

/-- the row of a message id that no upsert touches changes at most by the re-marking -/
theorem MTrans.frame {ep : Nat} {ok : MsgRow → Prop} {a b : List MsgRow} (h : MTrans ep ok a b) (m : Nat)
    (hm : ∀ r, ok r → r.mid ≠ m) (P : Option MsgRow → Prop) (hP : ∀ o, P o → P (o.map (rbRow ep))) :
    P (findRow m a) → P (findRow m b) := by
  induction h with
  | refl l => exact id
  | remark l => intro hp; rw [findRow_map_rbRow]; exact hP _ hp
  | upsert l r hr => intro hp; rw [findRow_upsert_ne r m l (Ne.symm (hm r hr))]; exact hp
  | trans _ _ ih1 ih2 => exact fun hp => ih2 (ih1 hp)

/-- without upserts no row appears, and a row changes at most its state: to invalidated, and only if its epoch tag is
    later than `ep` -/
theorem MTrans.rows_noupsert {ep : Nat} {a b : List MsgRow} (h : MTrans ep (fun _ => False) a b) :
    ∀ x ∈ b, ∃ y ∈ a, x = y ∨ (x = { y with state := 3 } ∧ y.epoch > ep) := by
  induction h with
  | refl l => exact fun x hx => ⟨x, hx, Or.inl rfl⟩
  | remark l =>
    intro x hx
    obtain ⟨y, hy, rfl⟩ := List.mem_map.mp hx
    refine ⟨y, hy, ?_⟩
    unfold rbRow
    split
    · rename_i hgt; exact Or.inr ⟨rfl, hgt⟩
    · exact Or.inl rfl
  | upsert l r hr => exact hr.elim
  | trans _ _ ih1 ih2 =>
    intro x hx
    obtain ⟨y, hy, hxy⟩ := ih2 x hx
    obtain ⟨z, hz, hyz⟩ := ih1 y hy
    refine ⟨z, hz, ?_⟩
    rcases hxy with rfl | ⟨rfl, hgt⟩
    · exact hyz
    · rcases hyz with rfl | ⟨rfl, hgt'⟩
      · exact Or.inr ⟨rfl, hgt⟩
      · exact Or.inr ⟨rfl, hgt'⟩

/-- the message id in the dedup record of event number `n` -/
def recMid (c : Cl) (n : Nat) : Option Nat := (getRec c n).bind (·.mid)

/-- the rows a delivery of `e` to the client `id` may upsert: the row of the application message `e` carries (foreign
    sender: `process_application_message`), or the row named by the event's own dedup record `om` (own event:
    the `CannotDecryptOwnMessage` path confirms the cached copy) -/
def OkRow (id : Nat) (e : Ev) (om : Option Nat) (r : MsgRow) : Prop :=
  (e.sender ≠ id ∧ appMid e = some r.mid) ∨ (e.sender = id ∧ om = some r.mid)

theorem rbRec_mid (ep : Nat) (r : Rec) : (rbRec ep r).mid = r.mid := by
  unfold rbRec rbRec2 rbRec1
  repeat' split
  all_goals rfl

theorem recMid_rollbackTo (c c1 : Cl) (ep n : Nat) (hr : rollbackTo c ep = some c1) : recMid c1 n = recMid c n :=
  (frame_rollbackTo n c c1 ep hr).recs (fun o => o.bind (·.mid) = recMid c n)
    (fun o ho => by cases o with
      | none => exact ho
      | some r => simpa [rbRec_mid] using ho) rfl

theorem msgs_rollbackTo (c c1 : Cl) (ep : Nat) (hr : rollbackTo c ep = some c1) : c1.msgs = c.msgs.map (rbRow ep) := by
  unfold rollbackTo at hr
  split at hr
  · cases hr
  · split at hr
    · cases hr
    · cases hr; rfl

theorem mtrans_ownMessage (ep : Nat) (c : Cl) (e : Ev) (hs : e.sender = c.id) :
    MTrans ep (OkRow c.id e (recMid c e.n)) c.msgs (ownMessage c e).1.msgs := by
  unfold ownMessage
  cases hr : getRec c e.n with
  | none => exact .refl _
  | some r =>
    have hom : recMid c e.n = r.mid := by simp [recMid, hr]
    simp only
    split
    · cases hm : r.mid with
      | none => exact .refl _
      | some mid =>
        simp only
        cases hf : c.msgs.find? (·.mid == mid) with
        | none => exact .refl _
        | some row =>
          have hrm : row.mid = mid := by simpa using List.find?_some hf
          exact .upsert _ _ (Or.inr ⟨hs, by rw [hom, hm]; simp [hrm]⟩)
    · split
      · cases hm : r.mid with
        | none => exact .refl _
        | some mid =>
          simp only [Option.bind_some]
          cases hf : c.msgs.find? (·.mid == mid) with
          | none => exact .refl _
          | some row =>
            have hrm : row.mid = mid := by simpa using List.find?_some hf
            exact .upsert _ _ (Or.inr ⟨hs, by rw [hom, hm]; simp [hrm]⟩)
      · split
        · exact .refl _
        · exact .refl _

theorem mtrans_notBetterResult (ep : Nat) (ok : MsgRow → Prop) (c : Cl) (e : Ev) :
    MTrans ep ok c.msgs (notBetterResult c e).1.msgs := by
  unfold notBetterResult
  split
  · split
    · exact .refl _
    · exact .refl _
  · exact .refl _

theorem mtrans_processCommit (ep : Nat) (ok : MsgRow → Prop) (c : Cl) (e : Ev) (b : Body) (sw : List Nat) :
    MTrans ep ok c.msgs (processCommit c e b sw).1.msgs := by
  unfold processCommit
  split
  · exact .refl _
  · dsimp only
    split
    · exact .refl _
    · exact .refl _

theorem mtrans_wrongEpochCommit (ok : MsgRow → Prop) (retry : Cl → Option (Cl × Res)) (c : Cl) (e : Ev) (ee : Nat)
    (hretry : ∀ c1 r, c1.id = c.id → recMid c1 e.n = recMid c e.n → retry c1 = some r → MTrans ee ok c1.msgs r.1.msgs) :
    MTrans ee ok c.msgs (wrongEpochCommit retry c e ee).1.msgs := by
  unfold wrongEpochCommit
  split
  · split
    · rename_i c1 hr
      split
      · rename_i r hrr
        have h1 : MTrans ee ok c.msgs c1.msgs := by rw [msgs_rollbackTo c c1 ee hr]; exact .remark _
        exact h1.trans (hretry c1 r (frame_rollbackTo 0 c c1 ee hr).id (recMid_rollbackTo c c1 ee e.n hr) hrr)
      · exact mtrans_notBetterResult ee ok c e
    · exact mtrans_notBetterResult ee ok c e
  · exact mtrans_notBetterResult ee ok c e

theorem mtrans_step1 (retry : Cl → Option (Cl × Res)) (nx : Nat) (c : Cl) (e : Ev)
    (hretry : ∀ c1 r, c1.id = c.id → recMid c1 e.n = recMid c e.n → retry c1 = some r →
      MTrans (epochOf e.path) (OkRow c.id e (recMid c e.n)) c1.msgs r.1.msgs) :
    MTrans (epochOf e.path) (OkRow c.id e (recMid c e.n)) c.msgs (step1 retry nx c e).1.msgs := by
  unfold step1
  split
  · exact .refl _
  · split
    · exact .refl _
    simp only
    split
    · exact .refl _
    · split
      · -- commit
        split
        · exact mtrans_wrongEpochCommit _ retry (withSecret c) e _ hretry
        · split
          · rename_i hown
            split
            · exact .refl _
            · exact mtrans_ownMessage _ (withSecret c) e (by simpa using hown)
          · split
            · exact .refl _
            · exact mtrans_processCommit _ _ (consume (withSecret c) e.cipher) e _ _
      · -- leave
        split
        · exact .refl _
        · split
          · rename_i hown
            exact mtrans_ownMessage _ (withSecret c) e (by simpa using hown)
          · split
            · exact .refl _
            · split
              · exact .refl _
              · exact .refl _
      · -- app
        rename_i mid ts tok hk
        split
        · exact .refl _
        · split
          · exact .refl _
          · split
            · rename_i hown
              exact mtrans_ownMessage _ (withSecret c) e (by simpa using hown)
            · rename_i hfor
              split
              · exact .refl _
              · unfold storeApp
                exact .upsert _ _ (Or.inl ⟨by simpa using hfor, by simp [appMid, hk]⟩)

theorem mtrans_deliverOnce (retry : Cl → Option (Cl × Res)) (nx : Nat) (c : Cl) (e : Ev)
    (hretry : ∀ c1 r, c1.id = c.id → recMid c1 e.n = recMid c e.n → retry c1 = some r →
      MTrans (epochOf e.path) (OkRow c.id e (recMid c e.n)) c1.msgs r.1.msgs) :
    MTrans (epochOf e.path) (OkRow c.id e (recMid c e.n)) c.msgs (deliverOnce retry nx c e).1.msgs := by
  unfold deliverOnce
  split
  · split
    · exact .refl _
    · exact mtrans_step1 retry nx c e hretry
  · exact mtrans_step1 retry nx c e hretry

/-- **frame of `process_message` on the message table**, every state, event and fuel: the table changes only by
    re-markings of a rollback to the event's epoch (rows with a later epoch tag become invalidated) and by upserts of
    the delivered message's own row (or, for an own event, of the row its dedup record names) -/
theorem mtrans_deliverN (fuel nx : Nat) (c : Cl) (e : Ev) :
    MTrans (epochOf e.path) (OkRow c.id e (recMid c e.n)) c.msgs (deliverN fuel nx c e).1.msgs := by
  induction fuel generalizing c with
  | zero => exact mtrans_deliverOnce _ nx c e (by intro c1 r _ _ hr; cases hr)
  | succ f ih =>
    apply mtrans_deliverOnce _ nx c e
    intro c1 r hid hm hr
    cases hr
    have := ih c1
    rw [hid, hm] at this
    exact this

/-! ### the message id named by a dedup record

  An own event re-validates the row its dedup record names.  For the frame of a whole delivery list one needs to know
  that the record of an own event that names NO message (an own commit: `OwnCommit.record`) keeps naming none. -/

theorem recMid_setRec_self (c : Cl) (n : Nat) (r : Rec) : recMid (setRec c n r) n = r.mid := by
  simp [recMid, getRec, setRec, alookup_ainsert_self]

theorem recMid_recordFailure_self (c : Cl) (n : Nat) (b : Bool) (ep : Option Nat) :
    recMid (recordFailure c n b ep) n = recMid c n := by
  unfold recordFailure
  rw [recMid_setRec_self]
  rfl

theorem recMid_ownMessage (c : Cl) (e : Ev) (h : recMid c e.n = none) : recMid (ownMessage c e).1 e.n = none := by
  unfold ownMessage
  cases hr : getRec c e.n with
  | none => exact h
  | some r =>
    have hm : r.mid = none := by simpa [recMid, hr] using h
    simp only [hm]
    split
    · exact h
    · split
      · exact h
      · split
        · exact h
        · exact h

theorem recMid_notBetterResult (c : Cl) (e : Ev) (h : recMid c e.n = none) : recMid (notBetterResult c e).1 e.n = none := by
  unfold notBetterResult
  split
  · split
    · exact h
    · exact (recMid_recordFailure_self c e.n _ _).trans h
  · exact (recMid_recordFailure_self c e.n _ _).trans h

theorem recMid_processCommit (c : Cl) (e : Ev) (b : Body) (sw : List Nat) (h : recMid c e.n = none) :
    recMid (processCommit c e b sw).1 e.n = none := by
  unfold processCommit
  split
  · exact (recMid_recordFailure_self c e.n _ _).trans h
  · dsimp only
    split
    · exact recMid_setRec_self _ _ _
    · exact recMid_setRec_self _ _ _

theorem recMid_wrongEpochCommit (retry : Cl → Option (Cl × Res)) (c : Cl) (e : Ev) (ee : Nat) (h : recMid c e.n = none)
    (hretry : ∀ c1 r, c1.id = c.id → recMid c1 e.n = none → retry c1 = some r → recMid r.1 e.n = none) :
    recMid (wrongEpochCommit retry c e ee).1 e.n = none := by
  unfold wrongEpochCommit
  split
  · split
    · rename_i c1 hr
      split
      · rename_i r hrr
        exact hretry c1 r (frame_rollbackTo 0 c c1 ee hr).id ((recMid_rollbackTo c c1 ee e.n hr).trans h) hrr
      · exact recMid_notBetterResult c e h
    · exact recMid_notBetterResult c e h
  · exact recMid_notBetterResult c e h

theorem recMid_step1 (retry : Cl → Option (Cl × Res)) (nx : Nat) (c : Cl) (e : Ev)
    (hown : e.sender = c.id ∨ appMid e = none) (h : recMid c e.n = none)
    (hretry : ∀ c1 r, c1.id = c.id → recMid c1 e.n = none → retry c1 = some r → recMid r.1 e.n = none) :
    recMid (step1 retry nx c e).1 e.n = none := by
  have hw : recMid (withSecret c) e.n = none := h
  unfold step1
  split
  · exact (recMid_recordFailure_self c e.n _ _).trans h
  · split
    · exact (recMid_recordFailure_self c e.n _ _).trans h
    simp only
    split
    · exact (recMid_recordFailure_self (withSecret c) e.n _ _).trans hw
    · split
      · -- commit
        split
        · exact recMid_wrongEpochCommit retry (withSecret c) e _ hw hretry
        · split
          · split
            · exact recMid_setRec_self _ _ _
            · exact recMid_ownMessage (withSecret c) e hw
          · split
            · exact (recMid_recordFailure_self (withSecret c) e.n _ _).trans hw
            · exact recMid_processCommit (consume (withSecret c) e.cipher) e _ _ hw
      · -- leave
        split
        · exact (recMid_recordFailure_self (withSecret c) e.n _ _).trans hw
        · split
          · exact recMid_ownMessage (withSecret c) e hw
          · split
            · exact (recMid_recordFailure_self (withSecret c) e.n _ _).trans hw
            · split
              · exact recMid_setRec_self _ _ _
              · exact recMid_setRec_self _ _ _
      · -- app
        rename_i mid ts tok hk
        split
        · exact (recMid_recordFailure_self (withSecret c) e.n _ _).trans hw
        · split
          · exact (recMid_recordFailure_self (withSecret c) e.n _ _).trans hw
          · split
            · exact recMid_ownMessage (withSecret c) e hw
            · rename_i hfor
              rcases hown with x | x
              · exact absurd x (by simpa using hfor)
              · simp [appMid, hk] at x

theorem recMid_deliverOnce (retry : Cl → Option (Cl × Res)) (nx : Nat) (c : Cl) (e : Ev)
    (hown : e.sender = c.id ∨ appMid e = none) (h : recMid c e.n = none)
    (hretry : ∀ c1 r, c1.id = c.id → recMid c1 e.n = none → retry c1 = some r → recMid r.1 e.n = none) :
    recMid (deliverOnce retry nx c e).1 e.n = none := by
  unfold deliverOnce
  split
  · split
    · exact h
    · exact recMid_step1 retry nx c e hown h hretry
  · exact recMid_step1 retry nx c e hown h hretry

/-- a dedup record that names no message keeps naming none, whatever is delivered — except a foreign application message
    under the record's own event number (which files its message id there) -/
theorem recMid_deliverN (fuel nx : Nat) (c : Cl) (e : Ev) (n : Nat)
    (hown : e.n = n → e.sender = c.id ∨ appMid e = none) (h : recMid c n = none) :
    recMid (deliverN fuel nx c e).1 n = none := by
  by_cases hn : n = e.n
  · subst hn
    have hown' := hown rfl
    clear hown
    induction fuel generalizing c with
    | zero => exact recMid_deliverOnce _ nx c e hown' h (by intro c1 r _ _ hr; cases hr)
    | succ f ih =>
      apply recMid_deliverOnce _ nx c e hown' h
      intro c1 r hid hm hr
      cases hr
      exact ih c1 hm (by rw [hid]; exact hown')
  · exact (frame_deliverN fuel nx c e n hn).recs (fun o => o.bind (·.mid) = none)
      (fun o ho => by cases o with
        | none => exact ho
        | some r => simpa [rbRec_mid] using ho) h

/-! ## §C  `process_message` on an application message: which handler runs -/

/-- a foreign application message of the current or a retained past epoch, routed, opened by the outer layer, its
    ratchet generation unused: `process_application_message` stores it -/
theorem step1_app_store (retry : Cl → Option (Cl × Res)) (nx : Nat) (c : Cl) (e : Ev) (mid ts tok : Nat)
    (hg : routes c e = true) (hact : c.g.active = true) (ho : outerOpens (withSecret c).g e = true)
    (hk : e.kind = .app mid ts tok) (hle : epochOf e.path ≤ epochOf c.g.path)
    (hpast : epochOf e.path < epochOf c.g.path → c.g.past.contains e.path = true)
    (hf : (e.sender == c.id) = false) (hc : e.cipher ∉ c.g.consumed) :
    step1 retry nx c e = storeApp (consume (withSecret c) e.cipher) e mid ts tok := by
  have h1 : ¬ epochOf c.g.path < epochOf e.path := by omega
  have h2 : ¬ (epochOf e.path < epochOf c.g.path ∧ ¬ e.path ∈ c.g.past) := by
    intro ⟨a, b⟩; exact b (by simpa using hpast a)
  unfold step1
  simp only [consume]
  simp [hg, hact, ho, hk, hf, hc]
  rw [if_neg h1, if_neg h2]

/-- … and when its ratchet generation was used already (a second offer): Unprocessable, a Failed record, nothing else -/
theorem step1_app_dup (retry : Cl → Option (Cl × Res)) (nx : Nat) (c : Cl) (e : Ev) (mid ts tok : Nat)
    (hg : routes c e = true) (hact : c.g.active = true) (ho : outerOpens (withSecret c).g e = true)
    (hk : e.kind = .app mid ts tok) (_hle : epochOf e.path ≤ epochOf c.g.path)
    (_hpast : epochOf e.path < epochOf c.g.path → c.g.past.contains e.path = true)
    (hf : (e.sender == c.id) = false) (hc : e.cipher ∈ c.g.consumed) :
    step1 retry nx c e = failUnprocessable (withSecret c) e := by
  unfold step1
  simp [hg, hact, ho, hk, hf, hc]

/-- the client's own application message coming back from the relay: `CannotDecryptOwnMessage`, handled from the records -/
theorem step1_app_own (retry : Cl → Option (Cl × Res)) (nx : Nat) (c : Cl) (e : Ev) (mid ts tok : Nat)
    (hg : routes c e = true) (hact : c.g.active = true) (ho : outerOpens (withSecret c).g e = true)
    (hk : e.kind = .app mid ts tok) (hle : epochOf e.path ≤ epochOf c.g.path)
    (hpast : epochOf e.path < epochOf c.g.path → c.g.past.contains e.path = true)
    (hf : (e.sender == c.id) = true) :
    step1 retry nx c e = ownMessage (withSecret c) e := by
  have h1 : ¬ epochOf c.g.path < epochOf e.path := by omega
  have h2 : ¬ (epochOf e.path < epochOf c.g.path ∧ ¬ e.path ∈ c.g.past) := by
    intro ⟨a, b⟩; exact b (by simpa using hpast a)
  have hf' : e.sender = c.id := by simpa using hf
  unfold step1
  simp [hg, hact, ho, hk, hf']
  rw [if_neg h1, if_neg h2]

/-- the dedup record of event number `n` does not block re-processing (absent, or neither Failed nor EpochInvalidated) -/
def NotBlocked (c : Cl) (n : Nat) : Prop := ∀ r, getRec c n = some r → r.state ≠ 3 ∧ r.state ≠ 4

theorem notBlocked_of_none {c : Cl} {n : Nat} (h : getRec c n = none) : NotBlocked c n := by
  intro r hr; rw [h] at hr; cases hr

theorem deliverOnce_notBlocked (retry : Cl → Option (Cl × Res)) (nx : Nat) (c : Cl) (e : Ev) (h : NotBlocked c e.n) :
    deliverOnce retry nx c e = step1 retry nx c e := by
  unfold deliverOnce
  cases hr : getRec c e.n with
  | none => rfl
  | some r =>
    obtain ⟨h3, h4⟩ := h r hr
    simp [h3, h4]

theorem updLast_eq (g : GState) (m t : Nat) : ∃ l, updLast g m t = { g with last := l } := by
  unfold updLast
  split
  · exact ⟨_, rfl⟩
  · split
    · exact ⟨_, rfl⟩
    · exact ⟨g.last, rfl⟩

theorem core_ensureSecret (g : GState) : core (ensureSecret g) = core g := by
  simp [core, dataOf]

theorem outerOpens_congr (g g' : GState) (e : Ev) (hp : g'.path = g.path) (hs : g'.secrets = g.secrets) :
    outerOpens g' e = outerOpens g e := by
  unfold outerOpens; rw [hp, hs]

theorem ensureSecret_fix (g : GState) (h : alookup (epochOf g.path) g.secrets ≠ none) : ensureSecret g = g := by
  cases hq : alookup (epochOf g.path) g.secrets with
  | none => exact absurd hq h
  | some q => exact ensureSecret_of_some g q hq

theorem ensureSecret_has (g : GState) : alookup (epochOf g.path) (ensureSecret g).secrets ≠ none := by
  cases hq : alookup (epochOf g.path) g.secrets with
  | none => rw [ensureSecret_of_none g hq]; simp [alookup_ainsert_self]
  | some q => rw [ensureSecret_of_some g q hq, hq]; simp

/-- what a stored application message leaves: the row upserted, the ratchet generation consumed, the current epoch's
    exporter secret cached, the last-message pointer possibly moved, the event's dedup record Processed — and nothing else -/
structure AppStored (c : Cl) (e : Ev) (row : MsgRow) (c' : Cl) : Prop where
  id : c'.id = c.id
  persistent : c'.persistent = c.persistent
  retention : c'.retention = c.retention
  maxPast : c'.maxPast = c.maxPast
  hasGroup : c'.hasGroup = c.hasGroup
  mgr : c'.mgr = c.mgr
  msgs : c'.msgs = upsertRow row c.msgs
  g : ∃ l, c'.g = { ensureSecret c.g with consumed := e.cipher :: c.g.consumed, last := l }
  recs : ∀ n, n ≠ e.n → getRec c' n = getRec c n
  record : getRec c' e.n = some { state := 1, epoch := some (epochOf c.g.path), hasGroup := true, mid := some row.mid }

namespace AppStored
variable {c c' : Cl} {e : Ev} {row : MsgRow}

theorem path (h : AppStored c e row c') : c'.g.path = c.g.path := by
  obtain ⟨l, hl⟩ := h.g; rw [hl]; exact ensureSecret_path c.g
theorem core (h : AppStored c e row c') : Chain.core c'.g = Chain.core c.g := by
  obtain ⟨l, hl⟩ := h.g; rw [hl]; exact core_ensureSecret c.g
theorem active (h : AppStored c e row c') : c'.g.active = c.g.active := by
  obtain ⟨l, hl⟩ := h.g; rw [hl]; exact ensureSecret_active c.g
theorem recNid (h : AppStored c e row c') : c'.g.recNid = c.g.recNid := by
  obtain ⟨l, hl⟩ := h.g; rw [hl]; exact ensureSecret_recNid c.g
theorem nid (h : AppStored c e row c') : c'.g.nid = c.g.nid := by
  obtain ⟨l, hl⟩ := h.g; rw [hl]; exact ensureSecret_nid c.g
theorem past (h : AppStored c e row c') : c'.g.past = c.g.past := by
  obtain ⟨l, hl⟩ := h.g; rw [hl]; exact (ensureSecret_fields c.g).2.2.2.2.2.2.2.2.2.2.2
theorem secrets (h : AppStored c e row c') : c'.g.secrets = (ensureSecret c.g).secrets := by
  obtain ⟨l, hl⟩ := h.g; rw [hl]
theorem consumed (h : AppStored c e row c') : c'.g.consumed = e.cipher :: c.g.consumed := by
  obtain ⟨l, hl⟩ := h.g; rw [hl]
theorem fix (h : AppStored c e row c') : ensureSecret c'.g = c'.g := by
  apply ensureSecret_fix
  rw [h.path, h.secrets]
  exact ensureSecret_has c.g
theorem secretsOK (h : AppStored c e row c') (hs : SecretsOK c.g) : SecretsOK c'.g := by
  intro ep q hq
  rw [h.secrets] at hq
  rw [h.path]
  have := secretsOK_ensure c.g hs ep q hq
  rwa [ensureSecret_path] at this

theorem ready (h : AppStored c e row c') (hr : Ready c) : Ready c' :=
  ⟨h.hasGroup ▸ hr.hasGroup, h.active ▸ hr.act, h.retention ▸ hr.ret, h.secretsOK hr.sec,
   fun s hm => by rw [h.path]; exact hr.below s (h.mgr ▸ hm), by rw [h.recNid, h.nid]; exact hr.nid⟩

/-- events with other numbers and ciphertexts stay unseen and unconsumed -/
theorem keepsFresh (h : AppStored c e row c') (E : List Ev)
    (hf : ∀ x ∈ E, getRec c x.n = none ∧ x.cipher ∉ c.g.consumed) (hd : ∀ x ∈ E, x.n ≠ e.n ∧ x.cipher ≠ e.cipher) :
    ∀ x ∈ E, getRec c' x.n = none ∧ x.cipher ∉ c'.g.consumed := by
  intro x hx
  refine ⟨by rw [h.recs x.n (hd x hx).1]; exact (hf x hx).1, ?_⟩
  rw [h.consumed]
  intro hm
  rcases List.mem_cons.mp hm with y | y
  · exact (hd x hx).2 y
  · exact (hf x hx).2 y

end AppStored

theorem storeApp_stored (c : Cl) (e : Ev) (mid ts tok : Nat) :
    AppStored c e { mid := mid, author := e.sender, state := 1, epoch := epochOf c.g.path, wrapper := e.n, msgTs := ts, tok := tok }
      (storeApp (consume (withSecret c) e.cipher) e mid ts tok).1 := by
  obtain ⟨l, hl⟩ := updLast_eq (consume (withSecret c) e.cipher).g mid ts
  refine ⟨rfl, rfl, rfl, rfl, rfl, rfl, ?_, ⟨l, ?_⟩, ?_, ?_⟩
  · show upsertRow _ c.msgs = _
    simp only [consume, withSecret_path]
  · show updLast (consume (withSecret c) e.cipher).g mid ts = _
    rw [hl]
    simp only [consume, withSecret, ensureSecret_consumed]
  · intro n hn
    simp only [storeApp, getRec, setRec]
    exact alookup_ainsert_ne _ _ _ _ hn
  · simp only [storeApp, getRec, setRec, consume, withSecret_path]
    exact alookup_ainsert_self _ _ _

/-- **a fresh application message is stored** (every fuel): the hypotheses name exactly the tests of
    `process_message` — not blocked by its dedup record, routed by its `h` tag, the group active, the outer layer opens
    it, created in the current epoch or a retained past one, by somebody else, its ratchet generation unused -/
theorem deliverN_app_store (fuel nx : Nat) (c : Cl) (e : Ev) (mid ts tok : Nat)
    (hnb : NotBlocked c e.n) (hg : routes c e = true) (hact : c.g.active = true)
    (ho : outerOpens (ensureSecret c.g) e = true)
    (hk : e.kind = .app mid ts tok) (hle : epochOf e.path ≤ epochOf c.g.path)
    (hpast : epochOf e.path < epochOf c.g.path → c.g.past.contains e.path = true)
    (hf : e.sender ≠ c.id) (hc : e.cipher ∉ c.g.consumed) :
    deliverN fuel nx c e = storeApp (consume (withSecret c) e.cipher) e mid ts tok := by
  obtain ⟨retry, hd⟩ := deliverN_once fuel nx c e
  rw [hd, deliverOnce_notBlocked retry nx c e hnb,
    step1_app_store retry nx c e mid ts tok hg hact ho hk hle hpast (by simpa using hf) hc]

/-- a second offer of a stored application message: Unprocessable; it only overwrites its own dedup record (Failed)
    and caches the exporter secret; a blocked one changes nothing at all -/
theorem deliverN_app_dup (fuel nx : Nat) (c : Cl) (e : Ev) (mid ts tok : Nat)
    (hg : routes c e = true) (hact : c.g.active = true)
    (ho : outerOpens (ensureSecret c.g) e = true)
    (hk : e.kind = .app mid ts tok) (hle : epochOf e.path ≤ epochOf c.g.path)
    (hpast : epochOf e.path < epochOf c.g.path → c.g.past.contains e.path = true)
    (hf : e.sender ≠ c.id) (hc : e.cipher ∈ c.g.consumed) :
    (deliverN fuel nx c e).2 = .unprocessable ∧ Quiet e.n c (deliverN fuel nx c e).1 := by
  obtain ⟨retry, hd⟩ := deliverN_once fuel nx c e
  rw [hd]
  by_cases hnb : NotBlocked c e.n
  · rw [deliverOnce_notBlocked retry nx c e hnb,
      step1_app_dup retry nx c e mid ts tok hg hact ho hk hle hpast (by simpa using hf) hc]
    refine ⟨rfl, rfl, rfl, rfl, rfl, rfl, Or.inr rfl, rfl, rfl, ?_⟩
    intro m hm
    simp only [failUnprocessable, getRec, recordFailure, setRec]
    exact alookup_ainsert_ne _ _ _ _ hm
  · unfold NotBlocked at hnb
    cases hr : getRec c e.n with
    | none => exact absurd (fun r h => by rw [hr] at h; cases h) hnb
    | some r =>
      have h34 : r.state = 3 ∨ r.state = 4 := by
        by_cases h3 : r.state = 3
        · exact Or.inl h3
        · by_cases h4 : r.state = 4
          · exact Or.inr h4
          · exact absurd (fun r' h => by rw [hr] at h; cases h; exact ⟨h3, h4⟩) hnb
      constructor
      · unfold deliverOnce
        rcases h34 with h | h <;> simp [hr, h, hg]
      · rw [deliverOnce_blocked retry nx c e r hr h34]
        exact quiet_refl _ c

/-- the outer layer opens an event created in the client's current state (the stored exporter secrets follow the path) -/
theorem outerOpens_current (g : GState) (e : Ev) (hs : SecretsOK g) (hp : e.path = g.path) :
    outerOpens (ensureSecret g) e = true := by
  have : alookup (epochOf g.path) (ensureSecret g).secrets = some g.path := by
    cases hq : alookup (epochOf g.path) g.secrets with
    | none => rw [ensureSecret_of_none g hq]; simp [alookup_ainsert_self]
    | some q =>
      rw [ensureSecret_of_some g q hq, hq]
      obtain ⟨h1, h2⟩ := hs _ q hq
      have : q.length = g.path.length := by simp only [epochOf] at h1; omega
      rw [h2.eq_of_length this]
  unfold outerOpens
  simp only [ensureSecret_path, this, hp]
  simp

/-! ### the sender's own copy (`create_message`, then the event coming back) -/

theorem send_eq (c : Cl) (n ts idn mid mts tok : Nat) (hg : c.hasGroup = true) (ha : c.g.active = true) (hp : c.g.props = []) :
    send c n ts idn mid mts tok =
      (setRec { c with g := updLast (ensureSecret c.g) mid mts,
                       msgs := upsertRow { mid := mid, author := c.id, state := 0, epoch := epochOf (ensureSecret c.g).path, wrapper := n, msgTs := mts, tok := tok } c.msgs } n
          { state := 0, epoch := some (epochOf (ensureSecret c.g).path), hasGroup := true, mid := some mid },
       .ev { n := n, ts := ts, idnum := idn, cipher := n, sender := c.id, path := (ensureSecret c.g).path, kind := .app mid mts tok, tag := (ensureSecret c.g).recNid }) := by
  unfold send
  simp only [hg, ha, hp, Bool.not_true, Bool.false_eq_true, if_false, List.isEmpty_nil]

/-- the client right after `create_message` -/
def sent (c : Cl) (n mid mts tok : Nat) : Cl :=
  setRec { c with g := updLast (ensureSecret c.g) mid mts,
                  msgs := upsertRow { mid := mid, author := c.id, state := 0, epoch := epochOf (ensureSecret c.g).path, wrapper := n, msgTs := mts, tok := tok } c.msgs } n
    { state := 0, epoch := some (epochOf (ensureSecret c.g).path), hasGroup := true, mid := some mid }

def sentEv (c : Cl) (n ts idn mid mts tok : Nat) : Ev :=
  { n := n, ts := ts, idnum := idn, cipher := n, sender := c.id, path := (ensureSecret c.g).path, kind := .app mid mts tok, tag := (ensureSecret c.g).recNid }

theorem own_step (c : Cl) (n ts idn mid mts tok nx : Nat) (hg : c.hasGroup = true) (ha : c.g.active = true) (hsec : SecretsOK c.g) :
    deliver (sent c n mid mts tok) (sentEv c n ts idn mid mts tok) nx = ownMessage (withSecret (sent c n mid mts tok)) (sentEv c n ts idn mid mts tok) := by
  obtain ⟨l, hl⟩ := updLast_eq (ensureSecret c.g) mid mts
  have hg1 : (sent c n mid mts tok).g = { ensureSecret c.g with last := l } := hl
  have hrec : getRec (sent c n mid mts tok) n = some { state := 0, epoch := some (epochOf (ensureSecret c.g).path), hasGroup := true, mid := some mid } := by
    simp only [sent, getRec, setRec]; exact alookup_ainsert_self _ _ _
  have hsec1 : SecretsOK (sent c n mid mts tok).g := by rw [hg1]; exact secretsOK_ensure _ hsec
  have hroutes : routes (sent c n mid mts tok) (sentEv c n ts idn mid mts tok) = true := by
    have h1 : (sent c n mid mts tok).hasGroup = true := hg
    have h2 : (sentEv c n ts idn mid mts tok).tag = (sent c n mid mts tok).g.recNid := by rw [hg1]; rfl
    simp [routes, h1, h2]
  have hopen : outerOpens (withSecret (sent c n mid mts tok)).g (sentEv c n ts idn mid mts tok) = true :=
    outerOpens_current _ _ hsec1 (by rw [hg1]; rfl)
  have hnb : NotBlocked (sent c n mid mts tok) (sentEv c n ts idn mid mts tok).n := by
    intro r hr
    have : (sentEv c n ts idn mid mts tok).n = n := rfl
    rw [this, hrec] at hr; cases hr; exact ⟨by simp, by simp⟩
  have hpath : (sentEv c n ts idn mid mts tok).path = (sent c n mid mts tok).g.path := by rw [hg1]; rfl
  obtain ⟨retry, hd⟩ := deliverN_once 3 nx (sent c n mid mts tok) (sentEv c n ts idn mid mts tok)
  show deliverN 3 nx _ _ = _
  rw [hd, deliverOnce_notBlocked retry nx _ _ hnb,
    step1_app_own retry nx _ _ mid mts tok hroutes (by rw [hg1]; simpa using ha) hopen rfl
      (by rw [hpath]; exact Nat.le_refl _) (by rw [hpath]; intro a; exact absurd a (Nat.lt_irrefl _))
      (by show (c.id == c.id) = true; simp)]

theorem own_result (c : Cl) (n ts idn mid mts tok : Nat) :
    ownMessage (withSecret (sent c n mid mts tok)) (sentEv c n ts idn mid mts tok) =
      (setRec { withSecret (sent c n mid mts tok) with
          msgs := upsertRow { mid := mid, author := c.id, state := 1, epoch := epochOf (ensureSecret c.g).path, wrapper := n, msgTs := mts, tok := tok } (sent c n mid mts tok).msgs } n
        { state := 1, epoch := some (epochOf (ensureSecret c.g).path), hasGroup := true, mid := some mid }, .app mid) := by
  have hrec : getRec (withSecret (sent c n mid mts tok)) (sentEv c n ts idn mid mts tok).n =
      some { state := 0, epoch := some (epochOf (ensureSecret c.g).path), hasGroup := true, mid := some mid } := by
    simp only [sent, sentEv, getRec, setRec]; exact alookup_ainsert_self _ _ _
  have hf : (withSecret (sent c n mid mts tok)).msgs.find? (·.mid == mid) =
      some { mid := mid, author := c.id, state := 0, epoch := epochOf (ensureSecret c.g).path, wrapper := n, msgTs := mts, tok := tok } :=
    findRow_upsert_self { mid := mid, author := c.id, state := 0, epoch := epochOf (ensureSecret c.g).path, wrapper := n, msgTs := mts, tok := tok } c.msgs
  unfold ownMessage
  rw [hrec]
  simp only [beq_self_eq_true, if_true, hf]
  rfl


/-! ## §D  one slot: application messages created in the client's current state -/

/-- the conditions on the messages of one slot that mention only the EVENTS and the core `k` of the state they were
    created in: application messages created in the state with path `k.1`, by others than the receiver `id`, published
    under that state's nostr group id, with pairwise distinct event numbers, ciphertexts and message ids -/
structure SlotEv (id : Nat) (k : Core) (M : List Ev) : Prop where
  kind : ∀ e ∈ M, (appMid e).isSome = true
  path : ∀ e ∈ M, e.path = k.1
  foreign : ∀ e ∈ M, e.sender ≠ id
  tag : ∀ e ∈ M, e.tag = k.2.2.nid
  distinct : ∀ e1 ∈ M, ∀ e2 ∈ M, e1 ≠ e2 → e1.n ≠ e2.n ∧ e1.cipher ≠ e2.cipher ∧ appMid e1 ≠ appMid e2

/-- an event that is stale for the whole slot: created in a state that is not a prefix of the client's path (a message or
    a commit of a branch that lost, for instance), with an event number of its own -/
def StaleSlot (p : Path) (M : List Ev) (x : Ev) : Prop := ¬ x.path <+: p ∧ ∀ e ∈ M, x.n ≠ e.n

theorem rowOf_some {ep : Nat} {e : Ev} (h : (appMid e).isSome = true) :
    ∃ mid ts tok, e.kind = .app mid ts tok ∧
      rowOf ep e = some { mid := mid, author := e.sender, state := 1, epoch := ep, wrapper := e.n, msgTs := ts, tok := tok } := by
  cases hk : e.kind with
  | app mid ts tok => exact ⟨mid, ts, tok, rfl, by simp [rowOf, hk]⟩
  | commit b sw => simp [appMid, hk] at h
  | leave => simp [appMid, hk] at h

theorem rowOf_mid {ep : Nat} {e : Ev} {row : MsgRow} (h : rowOf ep e = some row) : appMid e = some row.mid := by
  unfold rowOf at h
  split at h
  · rename_i mid ts tok hk
    cases h; simp [appMid, hk]
  · cases h

theorem ready_ensure {c c' : Cl} (h : Ready c) (hg : c'.hasGroup = c.hasGroup) (hr : c'.retention = c.retention)
    (hm : c'.mgr = c.mgr) (hgg : c'.g = c.g ∨ c'.g = ensureSecret c.g) : Ready c' := by
  rcases hgg with x | x
  · exact ⟨hg ▸ h.hasGroup, x ▸ h.act, hr ▸ h.ret, x ▸ h.sec, fun s hs => by rw [x]; exact h.below s (hm ▸ hs), x ▸ h.nid⟩
  · refine ⟨hg ▸ h.hasGroup, by rw [x, ensureSecret_active]; exact h.act, hr ▸ h.ret, by rw [x]; exact secretsOK_ensure _ h.sec,
      fun s hs => by rw [x, ensureSecret_path]; exact h.below s (hm ▸ hs), by rw [x, ensureSecret_recNid, ensureSecret_nid]; exact h.nid⟩

/-- what no delivery inside a slot changes of the group state: the MLS path, the retained past states, the stored exporter
    secrets (up to caching the current one), the id in force -/
structure GKeep (g0 g : GState) : Prop where
  path : g.path = g0.path
  past : g.past = g0.past
  secrets : (ensureSecret g).secrets = (ensureSecret g0).secrets
  recNid : g.recNid = g0.recNid

theorem gkeep_refl (g : GState) : GKeep g g := ⟨rfl, rfl, rfl, rfl⟩

theorem GKeep.trans {g0 g1 g2 : GState} (h1 : GKeep g0 g1) (h2 : GKeep g1 g2) : GKeep g0 g2 :=
  ⟨h2.path.trans h1.path, h2.past.trans h1.past, h2.secrets.trans h1.secrets, h2.recNid.trans h1.recNid⟩

theorem gkeep_quiet {n : Nat} {c c' : Cl} (hq : Quiet n c c') : GKeep c.g c'.g := by
  rcases hq.g with x | x <;> rw [x]
  · exact gkeep_refl _
  · exact ⟨ensureSecret_path _, (ensureSecret_fields c.g).2.2.2.2.2.2.2.2.2.2.2, by rw [ensureSecret_idem], ensureSecret_recNid _⟩

theorem gkeep_stored {c c' : Cl} {e : Ev} {row : MsgRow} (hs : AppStored c e row c') : GKeep c.g c'.g :=
  ⟨hs.path, hs.past, by rw [hs.fix]; exact hs.secrets, hs.recNid⟩

/-- what the client looks like inside a slot, after the delivery list `dl`, relative to its state `c0` at the start of the
    slot: same configuration, snapshots, MLS state and group data; consumed generations and dedup records grew only by
    the delivered events; every delivered message of the slot has its row; no other row was touched -/
structure SlotInv (c0 : Cl) (M : List Ev) (dl : List Ev) (c : Cl) : Prop where
  id : c.id = c0.id
  persistent : c.persistent = c0.persistent
  retention : c.retention = c0.retention
  maxPast : c.maxPast = c0.maxPast
  mgr : c.mgr = c0.mgr
  ready : Ready c
  path : c.g.path = c0.g.path
  core : core c.g = core c0.g
  cons : ∀ x ∈ c.g.consumed, x ∈ c0.g.consumed ∨ ∃ e ∈ dl, e ∈ M ∧ e.cipher = x
  recs : ∀ n, (∀ e ∈ dl, n ≠ e.n) → getRec c n = getRec c0 n
  rows : ∀ m, (∀ e ∈ dl, e ∈ M → appMid e ≠ some m) → findRow m c.msgs = findRow m c0.msgs
  done : ∀ e ∈ dl, e ∈ M → ∀ row, rowOf (epochOf c0.g.path) e = some row →
    findRow row.mid c.msgs = some row ∧ e.cipher ∈ c.g.consumed
  uniq : Uniq c.msgs
  dlOK : ∀ e ∈ dl, e ∈ M ∨ StaleSlot c0.g.path M e
  gk : GKeep c0.g c.g

theorem slotInv_init (c0 : Cl) (M : List Ev) (hr : Ready c0) (hu : Uniq c0.msgs) : SlotInv c0 M [] c0 :=
  ⟨rfl, rfl, rfl, rfl, rfl, hr, rfl, rfl, fun _ hx => Or.inl hx, fun _ _ => rfl, fun _ _ => rfl,
   fun e he => (by cases he), hu, fun e he => (by cases he), gkeep_refl _⟩

theorem slotInv_quiet {c0 c c' : Cl} {M dl : List Ev} {x : Ev} (h : SlotInv c0 M dl c) (hq : Quiet x.n c c')
    (hpers : c'.persistent = c.persistent) (hx : x ∈ M → x ∈ dl) (hok : x ∈ M ∨ StaleSlot c0.g.path M x) :
    SlotInv c0 M (dl ++ [x]) c' := by
  have hmem : ∀ e, e ∈ dl → e ∈ dl ++ [x] := fun e he => List.mem_append_left _ he
  have hpath : c'.g.path = c.g.path := by
    rcases hq.g with y | y <;> rw [y]
    exact ensureSecret_path _
  have hcore : core c'.g = core c.g := by
    rcases hq.g with y | y <;> rw [y]
    exact core_ensureSecret _
  refine ⟨hq.id.trans h.id, hpers.trans h.persistent, hq.retention.trans h.retention, hq.maxPast.trans h.maxPast,
    hq.mgr.trans h.mgr, ready_ensure h.ready hq.hasGroup hq.retention hq.mgr hq.g, hpath.trans h.path, hcore.trans h.core,
    ?_, ?_, ?_, ?_, hq.msgs ▸ h.uniq, ?_, h.gk.trans (gkeep_quiet hq)⟩
  rotate_right
  · intro e he
    rcases List.mem_append.mp he with y | y
    · exact h.dlOK e y
    · simp only [List.mem_singleton] at y; subst y; exact hok
  · intro y hy
    rw [hq.consumed] at hy
    rcases h.cons y hy with z | ⟨e, he, z⟩
    · exact Or.inl z
    · exact Or.inr ⟨e, hmem e he, z⟩
  · intro n hn
    rw [hq.recs n (hn x (by simp))]
    exact h.recs n (fun e he => hn e (hmem e he))
  · intro m hm
    rw [hq.msgs]
    exact h.rows m (fun e he => hm e (hmem e he))
  · intro e he heM row hrow
    rw [hq.msgs, hq.consumed]
    rcases List.mem_append.mp he with y | y
    · exact h.done e y heM row hrow
    · simp only [List.mem_singleton] at y
      subst y
      exact h.done e (hx heM) heM row hrow

/-- what a slot assumes of the client's state at its start -/
structure SlotBase (c0 : Cl) (M : List Ev) : Prop where
  ev : SlotEv c0.id (core c0.g) M
  fresh : ∀ e ∈ M, getRec c0 e.n = none ∧ e.cipher ∉ c0.g.consumed

theorem slot_step (c0 : Cl) (M dl : List Ev) (c : Cl) (x : Ev) (nx : Nat) (hb : SlotBase c0 M) (h : SlotInv c0 M dl c)
    (hx : x ∈ M ∨ StaleSlot c0.g.path M x) : SlotInv c0 M (dl ++ [x]) (deliver c x nx).1 := by
  have hpers := (deliver_config nx c x).2.1
  rcases hx with hxM | hst
  · obtain ⟨mid, ts, tok, hk, hrow⟩ := rowOf_some (ep := epochOf c0.g.path) (hb.ev.kind x hxM)
    have hbase : Base c := base_of c h.ready.hasGroup h.ready.act h.ready.ret h.ready.sec h.ready.below.noFork
    have hpath : x.path = c.g.path := (hb.ev.path x hxM).trans h.path.symm
    have ho : outerOpens (ensureSecret c.g) x = true := outerOpens_parent c hbase x hpath
    have hnid : c.g.nid = c0.g.nid := congrArg (fun k : Core => k.2.2.nid) h.core
    have hroutes : routes c x = true := by
      have : x.tag = c.g.recNid := by rw [h.ready.nid, hnid]; exact hb.ev.tag x hxM
      simp [routes, h.ready.hasGroup, this]
    have hfor : x.sender ≠ c.id := by rw [h.id]; exact hb.ev.foreign x hxM
    have hle : epochOf x.path ≤ epochOf c.g.path := by rw [hpath]; exact Nat.le_refl _
    have hpast : epochOf x.path < epochOf c.g.path → c.g.past.contains x.path = true := by
      rw [hpath]; intro a; exact absurd a (Nat.lt_irrefl _)
    by_cases hd : x ∈ dl
    · obtain ⟨_, hq⟩ := deliverN_app_dup 3 nx c x mid ts tok hroutes h.ready.act ho hk hle hpast hfor (h.done x hd hxM _ hrow).2
      exact slotInv_quiet h hq hpers (fun _ => hd) (Or.inl hxM)
    · have hnum : ∀ e ∈ dl, x.n ≠ e.n := by
        intro e he
        rcases h.dlOK e he with y | y
        · exact (hb.ev.distinct x hxM e y (fun z => hd (z ▸ he))).1
        · exact (y.2 x hxM).symm
      have hn : getRec c x.n = none := by rw [h.recs x.n hnum]; exact (hb.fresh x hxM).1
      have hc : x.cipher ∉ c.g.consumed := by
        intro z
        rcases h.cons _ z with y | ⟨e, he, heM, y⟩
        · exact (hb.fresh x hxM).2 y
        · by_cases hex : x = e
          · exact hd (hex ▸ he)
          · exact (hb.ev.distinct x hxM e heM hex).2.1 y.symm
      have hs := storeApp_stored c x mid ts tok
      rw [← deliverN_app_store 3 nx c x mid ts tok (notBlocked_of_none hn) hroutes h.ready.act ho hk hle hpast hfor hc] at hs
      rw [h.path] at hs
      change AppStored c x _ (deliver c x nx).1 at hs
      have hmem : ∀ e, e ∈ dl → e ∈ dl ++ [x] := fun e he => List.mem_append_left _ he
      have hmid : appMid x = some mid := appMid_of_kind hk
      refine ⟨hs.id.trans h.id, hpers.trans h.persistent, hs.retention.trans h.retention, hs.maxPast.trans h.maxPast,
        hs.mgr.trans h.mgr,
        ⟨hs.hasGroup ▸ h.ready.hasGroup, hs.active ▸ h.ready.act, hs.retention ▸ h.ready.ret, hs.secretsOK h.ready.sec,
          fun s hm => by rw [hs.path]; exact h.ready.below s (hs.mgr ▸ hm), by rw [hs.recNid, hs.nid]; exact h.ready.nid⟩,
        hs.path.trans h.path, hs.core.trans h.core, ?_, ?_, ?_, ?_, by rw [hs.msgs]; exact uniq_upsertRow _ _ h.uniq, ?_,
        h.gk.trans (gkeep_stored hs)⟩
      · intro y hy
        rw [hs.consumed] at hy
        rcases List.mem_cons.mp hy with z | z
        · exact Or.inr ⟨x, by simp, hxM, z.symm⟩
        · rcases h.cons y z with w | ⟨e, he, heM, w⟩
          · exact Or.inl w
          · exact Or.inr ⟨e, hmem e he, heM, w⟩
      · intro n hn'
        rw [hs.recs n (hn' x (by simp))]
        exact h.recs n (fun e he => hn' e (hmem e he))
      · intro m hm
        have : m ≠ mid := fun z => hm x (by simp) hxM (by rw [hmid, z])
        rw [hs.msgs, findRow_upsert_ne _ m _ this]
        exact h.rows m (fun e he => hm e (hmem e he))
      · intro e he heM row hr
        rcases List.mem_append.mp he with y | y
        · have hex : e ≠ x := fun z => hd (z ▸ y)
          have hmm : row.mid ≠ mid := by
            have h1 := (hb.ev.distinct e heM x hxM hex).2.2
            rw [rowOf_mid hr, hmid] at h1
            exact fun z => h1 (by rw [z])
          obtain ⟨d1, d2⟩ := h.done e y heM row hr
          rw [hs.msgs, findRow_upsert_ne _ _ _ hmm, hs.consumed]
          exact ⟨d1, List.mem_cons_of_mem _ d2⟩
        · simp only [List.mem_singleton] at y
          subst y
          rw [hrow] at hr
          cases hr
          rw [hs.msgs, hs.consumed]
          exact ⟨findRow_upsert_self _ _, by simp⟩
      · intro e he
        rcases List.mem_append.mp he with y | y
        · exact h.dlOK e y
        · simp only [List.mem_singleton] at y; subst y; exact Or.inl hxM
  · have hq : Quiet x.n c (deliver c x nx).1 :=
      quiet_stale 3 nx c x (secretsOK_ensure _ h.ready.sec) (by rw [h.path]; exact hst.1)
    exact slotInv_quiet h hq hpers (fun hxM => absurd rfl (hst.2 x hxM)) (Or.inr hst)

/-- **one slot**: any list over the slot's messages and stale events — any order, any repetition — leaves every
    delivered message of the slot stored exactly as sent, and touches nothing else -/
theorem slot_run (c0 : Cl) (M : List Ev) (nx : Nat) (hb : SlotBase c0 M) (l : List Ev) :
    ∀ (dl : List Ev) (c : Cl), SlotInv c0 M dl c → (∀ e ∈ l, e ∈ M ∨ StaleSlot c0.g.path M e) →
      SlotInv c0 M (dl ++ l) (run nx c l) := by
  induction l with
  | nil => intro dl c h _; simpa using h
  | cons x t ih =>
    intro dl c h hl
    have := ih (dl ++ [x]) _ (slot_step c0 M dl c x nx hb h (hl x List.mem_cons_self))
      (fun e he => hl e (List.mem_cons_of_mem _ he))
    rw [run_cons]
    simpa using this

/-! ## §E  one fork level and the message table -/

/-- a run of events that are all stale for the client: only exporter-secret caching and their own records -/
theorem stale_only_run (nx : Nat) (c : Cl) (hs : SecretsOK c.g) (l : List Ev) :
    ∀ c1 : Cl, (c1.g = c.g ∨ c1.g = ensureSecret c.g) → c1.id = c.id → (∀ e ∈ l, ¬ e.path <+: c.g.path) →
      ((run nx c1 l).g = c.g ∨ (run nx c1 l).g = ensureSecret c.g) ∧ (run nx c1 l).id = c.id := by
  induction l with
  | nil => intro c1 h1 h2 _; exact ⟨h1, h2⟩
  | cons e t ih =>
    intro c1 h1 h2 hl
    rw [run_cons]
    have hp : c1.g.path = c.g.path := by rcases h1 with x | x <;> rw [x]; exact ensureSecret_path _
    have hsec : SecretsOK (ensureSecret c1.g) := by
      rcases h1 with x | x <;> rw [x]
      · exact secretsOK_ensure _ hs
      · rw [ensureSecret_idem]; exact secretsOK_ensure _ hs
    have hq := quiet_stale 3 nx c1 e hsec (by rw [hp]; exact hl e List.mem_cons_self)
    refine ih _ ?_ (hq.id.trans h2) (fun x hx => hl x (List.mem_cons_of_mem _ hx))
    have hg' : (deliver c1 e nx).1.g = c1.g ∨ (deliver c1 e nx).1.g = ensureSecret c1.g := hq.g
    rcases hg' with y | y <;> rcases h1 with x | x
    · exact Or.inl (y.trans x)
    · exact Or.inr (y.trans x)
    · exact Or.inr (y.trans (by rw [x]))
    · exact Or.inr (y.trans (by rw [x, ensureSecret_idem]))

/-- inside a fork level (after any prefix of a delivery list over the fork's commits and stale events) the client is at
    the parent state or at the child of one of the fork's commits, its identity unchanged, its stored secrets following
    its path -/
theorem level_prefix_state (c : Cl) (T l : List Ev) (nx : Nat) (hat : AtFork c T)
    (hl : ∀ e ∈ l, e ∈ T ∨ StaleAt c T e) :
    (run nx c l).id = c.id ∧ SecretsOK (ensureSecret (run nx c l).g) ∧
    ((run nx c l).g.path = c.g.path ∨ ∃ a ∈ T, (run nx c l).g.path = c.g.path ++ [a.cipher]) := by
  by_cases hne : ∃ e ∈ l, e ∈ T
  · obtain ⟨w, _, hwT, _, hd⟩ := fork_level_mixed c T l nx hat hl hne
    exact ⟨hd.form.id, secretsOK_ensure _ (hd.secrets (atFork_secrets hat)), Or.inr ⟨w, hwT, hd.path⟩⟩
  · have hall : ∀ e ∈ l, ¬ e.path <+: c.g.path := by
      intro e he
      rcases hl e he with x | x
      · exact absurd ⟨e, he, x⟩ hne
      · exact x.parent
    obtain ⟨h1, h2⟩ := stale_only_run nx c (atFork_secrets hat) l c (Or.inl rfl) rfl hall
    refine ⟨h2, ?_, Or.inl ?_⟩
    · rcases h1 with x | x <;> rw [x]
      · exact secretsOK_ensure _ (atFork_secrets hat)
      · rw [ensureSecret_idem]; exact secretsOK_ensure _ (atFork_secrets hat)
    · rcases h1 with x | x <;> rw [x]
      exact ensureSecret_path _

/-- the dedup record of every own commit of the fork names no message (there is at most one: the committer's) -/
def OwnRec (id : Nat) (T : List Ev) (c1 : Cl) : Prop := ∀ o ∈ T, o.sender = id → recMid c1 o.n = none

theorem ownRec_atFork {c : Cl} {T : List Ev} (hat : AtFork c T) : OwnRec c.id T c := by
  cases hat with
  | bystander _ _ _ _ _ _ hS => intro o ho hs; exact absurd hs (hS.foreign o ho)
  | committer o S _ _ _ _ _ _ ho hS _ hT =>
    intro o' ho' hs
    rcases List.mem_cons.mp ((hT o').mp ho') with rfl | x
    · simp [recMid, ho.record]
    · exact absurd hs (hS.foreign o' x)

theorem appMid_commit {e : Ev} (h : ∃ b sw, e.kind = .commit b sw) : appMid e = none := by
  obtain ⟨b, sw, hk⟩ := h
  simp [appMid, hk]

/-- **the message table through one fork level** (any role, any delivery list over the fork's commits, stale events
    interleaved): nothing is upserted; rows change at most by the re-marking of a rollback to the PARENT epoch -/
theorem level_rows (c : Cl) (T : List Ev) (nx : Nat) (hat : AtFork c T) (l2 : List Ev) :
    ∀ l1 : List Ev, (∀ e ∈ l1 ++ l2, e ∈ T ∨ StaleAt c T e) → OwnRec c.id T (run nx c l1) →
      MTrans (epochOf c.g.path) (fun _ => False) (run nx c l1).msgs (run nx c (l1 ++ l2)).msgs := by
  induction l2 with
  | nil => intro l1 _ _; rw [List.append_nil]; exact .refl _
  | cons e t ih =>
    intro l1 hl hown
    have hl1 : ∀ x ∈ l1, x ∈ T ∨ StaleAt c T x := fun x hx => hl x (List.mem_append_left _ hx)
    obtain ⟨hid, hsec, hpath⟩ := level_prefix_state c T l1 nx hat hl1
    have hrun : run nx c (l1 ++ [e]) = (deliver (run nx c l1) e nx).1 := by rw [run_append]; rfl
    have key : MTrans (epochOf c.g.path) (fun _ => False) (run nx c l1).msgs (run nx c (l1 ++ [e])).msgs ∧
        OwnRec c.id T (run nx c (l1 ++ [e])) := by
      rw [hrun]
      rcases hl e (by simp) with heT | hst
      · have hm := mtrans_deliverN 3 nx (run nx c l1) e
        rw [atFork_paths hat e heT, hid] at hm
        constructor
        · refine hm.mono ?_
          intro r hr
          rcases hr with ⟨_, h2⟩ | ⟨h1, h2⟩
          · rw [appMid_commit (atFork_kind hat e heT)] at h2; cases h2
          · rw [hown e heT h1] at h2; cases h2
        · intro o ho hs
          exact recMid_deliverN 3 nx _ e o.n (fun _ => Or.inr (appMid_commit (atFork_kind hat e heT))) (hown o ho hs)
      · have hq : Quiet e.n (run nx c l1) (deliver (run nx c l1) e nx).1 := by
          apply quiet_stale 3 nx _ e hsec
          rcases hpath with x | ⟨a, ha, x⟩ <;> rw [x]
          · exact hst.parent
          · exact not_prefix_child hst.parent (hst.child a ha)
        constructor
        · exact .of_eq hq.msgs
        · intro o ho hs
          have : recMid (deliver (run nx c l1) e nx).1 o.n = recMid (run nx c l1) o.n := by
            unfold recMid; rw [hq.recs o.n (fun x => hst.num o ho x.symm)]
          rw [this]; exact hown o ho hs
    have := ih (l1 ++ [e]) (by simpa using hl) key.2
    rw [List.append_assoc] at this
    exact key.1.trans this

theorem rowOf_epoch {ep : Nat} {e : Ev} {row : MsgRow} (h : rowOf ep e = some row) : row.epoch = ep := by
  unfold rowOf at h
  split at h
  · cases h; rfl
  · cases h

/-- the events are unseen and their ratchet generations unused -/
def Fresh (c : Cl) (E : List Ev) : Prop := ∀ e ∈ E, getRec c e.n = none ∧ e.cipher ∉ c.g.consumed

/-- what a client has done after one fork level (delivery list `l`) followed by the slot of the messages `M` created
    in the winner's state (delivery list `m`) -/
structure LevelSlotDone (c : Cl) (w : Ev) (T M l m : List Ev) (c2 : Cl) : Prop where
  path : c2.g.path = c.g.path ++ [w.cipher]
  core : core c2.g = coreStep (core c.g) w
  id : c2.id = c.id
  persistent : c2.persistent = c.persistent
  retention : c2.retention = c.retention
  maxPast : c2.maxPast = c.maxPast
  ready : Ready c2
  uniq : Uniq c2.msgs
  /-- every delivered message of the slot is stored as sent, under the epoch of the winner's state -/
  stored : ∀ e ∈ m, e ∈ M → ∀ row, rowOf (epochOf c.g.path + 1) e = some row → findRow row.mid c2.msgs = some row
  /-- the row of any other message id changed at most by the re-marking of a rollback to the PARENT epoch -/
  kept : ∀ mid, (∀ e ∈ M, appMid e ≠ some mid) → ∀ P : Option MsgRow → Prop,
    (∀ o, P o → P (o.map (rbRow (epochOf c.g.path)))) → P (findRow mid c.msgs) → P (findRow mid c2.msgs)
  unseen : ∀ n, getRec c n = none → (∀ e ∈ l ++ m, n ≠ e.n) → getRec c2 n = none
  cons : ∀ x ∈ c2.g.consumed, x ∈ c.g.consumed ∨ (∃ e ∈ T, e.cipher = x) ∨ (∃ e ∈ M, e.cipher = x)
  /-- the retained past states, the stored exporter secrets and the id in force after the level and its slot -/
  past : c2.g.past = (c.g.path :: c.g.past).take c.maxPast
  secrets : (ensureSecret c2.g).secrets = secretsAfter (c.g.path ++ [w.cipher]) (secretsAfter c.g.path c.g.secrets)
  sec0 : alookup (epochOf c.g.path) (secretsAfter c.g.path c.g.secrets) = some c.g.path
  recNid : c2.g.recNid = c.g.recNid

theorem secretsAfter_idem (p : Path) (S : List (Nat × Path)) : secretsAfter p (secretsAfter p S) = secretsAfter p S := by
  unfold secretsAfter
  cases h : alookup (epochOf p) S with
  | some q => simp [h]
  | none => simp [alookup_ainsert_self]

/-- **one level and its slot**: a client at the fork `T` in either role, the level's delivery list `l` (all of `T`, any
    order, any repetition, stale events interleaved), then any list `m` over the messages `M` created in the state the
    MIP-03 winner `w` leads to (any order, any repetition, stale events interleaved) -/
theorem msg_level_slot (nx : Nat) (c : Cl) (w : Ev) (T M l m : List Ev) (hat : AtFork c T) (hbelow : Below c)
    (hu : Uniq c.msgs) (hmin : IsMin w T) (hl : ∀ e ∈ l, e ∈ T ∨ StaleAt c T e) (hcov : ∀ e ∈ T, e ∈ l)
    (hM : SlotEv c.id (coreStep (core c.g) w) M) (hfresh : Fresh c M)
    (hlM : ∀ e1 ∈ l, ∀ e2 ∈ M, e1.n ≠ e2.n) (hTM : ∀ e1 ∈ T, ∀ e2 ∈ M, e1.cipher ≠ e2.cipher)
    (hm : ∀ e ∈ m, e ∈ M ∨ StaleSlot (c.g.path ++ [w.cipher]) M e) :
    LevelSlotDone c w T M l m (run nx (run nx c l) m) := by
  obtain ⟨w', _, hw'T, hmin', hd⟩ := fork_level_mixed c T l nx hat hl ⟨w, hcov w hmin.1, hmin.1⟩
  have hw : w = w' := isMin_unique hmin ⟨hw'T, fun e he => hmin' e (hcov e he) he⟩
  subst hw
  have hsec : SecretsOK c.g := atFork_secrets hat
  have hready1 : Ready (run nx c l) :=
    ⟨hd.form.hg, hd.active, by rw [hd.form.ret]; exact hd.base.ret, hd.secrets hsec, hd.below hbelow, hd.recNid⟩
  have hrows : MTrans (epochOf c.g.path) (fun _ => False) c.msgs (run nx c l).msgs := by
    have := level_rows c T nx hat l [] (by simpa using hl) (ownRec_atFork hat)
    simpa using this
  have hu1 : Uniq (run nx c l).msgs := hrows.uniq hu
  have hb : SlotBase (run nx c l) M := by
    refine ⟨by rw [hd.form.id, hd.core]; exact hM, ?_⟩
    intro e he
    constructor
    · exact (hd.frame e.n (fun x hx => (hlM x hx e he).symm)).recs (· = none) (fun o ho => by rw [ho]; rfl) (hfresh e he).1
    · intro hx
      rcases hd.cons _ hx with y | ⟨e', he', y⟩
      · exact (hfresh e he).2 y
      · exact hTM e' he' e he y
  have hslot := slot_run (run nx c l) M nx hb m [] _ (slotInv_init _ M hready1 hu1) (by rw [hd.path]; exact hm)
  rw [List.nil_append] at hslot
  refine ⟨hslot.path.trans hd.path, hslot.core.trans hd.core, hslot.id.trans hd.form.id,
    hslot.persistent.trans (run_persistent nx l c), hslot.retention.trans hd.form.ret, hslot.maxPast.trans hd.form.mp,
    hslot.ready, hslot.uniq, ?_, ?_, ?_, ?_, ?_, ?_, ?_, hslot.gk.recNid.trans hd.keptId⟩
  rotate_left 4
  · obtain ⟨b, sw, hk⟩ := hd.com.kind
    have := (wc_fields hd.g).2.2.2.2.2.2.2.2.2.2.2.2.1
    rw [childOfG_commit c.maxPast c.g w b sw hk] at this
    rw [hslot.gk.past, this]
  · obtain ⟨b, sw, hk⟩ := hd.com.kind
    have := (wc_fields hd.g).2.2.2.2.2.2.2.2.2.2.2.1
    rw [childOfG_commit c.maxPast c.g w b sw hk] at this
    rw [hslot.gk.secrets, ensureSecret_eq, hd.path, this]
    exact secretsAfter_idem _ _
  · have := gP_sec0 c hd.base
    rw [gP, ensureSecret_eq] at this
    exact this
  · intro e he heM row hr
    rw [← hd.epoch] at hr
    exact (hslot.done e he heM row hr).1
  · intro mid hmid P hP hp
    rw [hslot.rows mid (fun e _ heM => hmid e heM)]
    exact hrows.frame mid (fun r hr => hr.elim) P hP hp
  · intro n hn hne
    rw [hslot.recs n (fun e he => hne e (List.mem_append_right _ he))]
    exact (hd.frame n (fun e he => hne e (List.mem_append_left _ he))).recs (· = none) (fun o ho => by rw [ho]; rfl) hn
  · intro x hx
    rcases hslot.cons x hx with y | ⟨e, _, heM, y⟩
    · rcases hd.cons x y with z | z
      · exact Or.inl z
      · exact Or.inr (Or.inl z)
    · exact Or.inr (Or.inr ⟨e, heM, y⟩)

/-! ### retained past states (the past-epoch window along a chain) -/

/-- the state with path `q`, `d ≥ 1` epochs back, is a retained past state of `g` (at position `d - 1` of `past`, the most
    recent first) whose exporter secret is stored -/
structure Retained (g : GState) (q : Path) (d : Nat) : Prop where
  pos : 1 ≤ d
  past : g.past[d - 1]? = some q
  secret : alookup (epochOf q) (ensureSecret g).secrets = some q
  epoch : epochOf q + d = epochOf g.path

theorem Retained.contains {g : GState} {q : Path} {d : Nat} (h : Retained g q d) : g.past.contains q = true := by
  have := List.mem_of_getElem? h.past
  simpa using this

/-- the outer layer opens an event of a retained past state at most `DEFAULT_EPOCH_LOOKBACK = 5` epochs back -/
theorem outerOpens_retained {g : GState} {q : Path} {d : Nat} (h : Retained g q d) (hd : d ≤ 5) (e : Ev) (hp : e.path = q) :
    outerOpens (ensureSecret g) e = true := by
  have hpos := h.pos
  have hep := h.epoch
  simp only [outerOpens, Bool.or_eq_true, List.any_eq_true]
  right
  refine ⟨d - 1, by simp; omega, ?_⟩
  have e1 : d - 1 + 1 = d := by omega
  have e2 : epochOf (ensureSecret g).path - d = epochOf q := by rw [ensureSecret_path]; omega
  rw [e1, e2, h.secret, hp]
  simp
  omega

theorem retained_step {c c2 : Cl} {w : Ev} {T M l m : List Ev} (h1 : LevelSlotDone c w T M l m c2) :
    (∀ q d, Retained c.g q d → d + 1 ≤ c.maxPast → Retained c2.g q (d + 1)) ∧
    (1 ≤ c.maxPast → Retained c2.g c.g.path 1) := by
  have hpath : epochOf c2.g.path = epochOf c.g.path + 1 := by rw [h1.path, epochOf_snoc]
  constructor
  · intro q d hr hd
    have hpos := hr.pos
    refine ⟨by omega, ?_, ?_, by rw [hpath]; have := hr.epoch; omega⟩
    · rw [h1.past, List.getElem?_take]
      have : d + 1 - 1 < c.maxPast := by omega
      rw [if_pos this]
      have e1 : d + 1 - 1 = (d - 1) + 1 := by omega
      rw [e1, List.getElem?_cons_succ]
      exact hr.past
    · rw [h1.secrets, alookup_secretsAfter_ne _ _ _ (by rw [epochOf_snoc]; have := hr.epoch; omega)]
      have := hr.secret
      rw [ensureSecret_eq] at this
      exact this
  · intro hmp
    refine ⟨Nat.le_refl _, ?_, ?_, by rw [hpath]⟩
    · rw [h1.past, List.getElem?_take]
      simp
      omega
    · rw [h1.secrets, alookup_secretsAfter_ne _ _ _ (by rw [epochOf_snoc]; omega)]
      exact h1.sec0

/-! ### chains of levels with their slots -/

/-- the conditions on the messages of all slots of a chain, on the EVENTS and the core of the start state only: slot k
    holds application messages created in the state the winners of levels 1..k lead to (`SlotEv`), event numbers and
    ciphertexts differ from those of every commit of the chain from level k on and of every message of a later slot,
    message ids differ from those of the later slots -/
def SlotsEv (id : Nat) : Core → List Level → List (List Ev) → Prop
  | _, [], [] => True
  | k, L :: Ls, M :: Ms =>
      SlotEv id (coreStep k L.1) M ∧
      (∀ a ∈ L.2, ∀ b ∈ M ++ Ms.flatten, a.n ≠ b.n ∧ a.cipher ≠ b.cipher) ∧
      (∀ a ∈ M, ∀ b ∈ evs Ls ++ Ms.flatten, a.n ≠ b.n ∧ a.cipher ≠ b.cipher) ∧
      (∀ a ∈ M, ∀ b ∈ Ms.flatten, appMid a ≠ appMid b) ∧
      SlotsEv id (coreStep k L.1) Ls Ms
  | _, _, _ => False

/-- a schedule: per level the delivery list of the level (`.1`: every commit of the level at least once, any order, any
    repetition, events that are stale for the level interleaved) followed by the delivery list of its slot (`.2`: messages
    of the slot — any of them, any order, any repetition — and events that are stale for the winner's state).  Stale
    events carry event numbers different from those of `all`. -/
def MLevelWise (all : List Ev) : Path → List Level → List (List Ev) → List (List Ev × List Ev) → Prop
  | _, [], [], [] => True
  | p, L :: Ls, M :: Ms, lm :: rest =>
      (∀ e ∈ lm.1, e ∈ L.2 ∨ (StalePath p L.2 e ∧ ∀ a ∈ all, e.n ≠ a.n)) ∧ (∀ e ∈ L.2, e ∈ lm.1) ∧
      (∀ e ∈ lm.2, e ∈ M ∨ (¬ e.path <+: p ++ [L.1.cipher] ∧ ∀ a ∈ all, e.n ≠ a.n)) ∧
      MLevelWise all (p ++ [L.1.cipher]) Ls Ms rest
  | _, _, _, _ => False

/-- the whole delivery list of a schedule -/
def flat (sched : List (List Ev × List Ev)) : List Ev := sched.flatMap (fun p => p.1 ++ p.2)

@[simp] theorem flat_nil : flat [] = [] := rfl
@[simp] theorem flat_cons (lm : List Ev × List Ev) (rest : List (List Ev × List Ev)) :
    flat (lm :: rest) = lm.1 ++ (lm.2 ++ flat rest) := by simp [flat]

/-- what a client has done after a schedule over a chain with slots -/
structure MsgDone (c : Cl) (Ls : List Level) (Ms : List (List Ev)) (sched : List (List Ev × List Ev)) (c' : Cl) : Prop where
  path : c'.g.path = c.g.path ++ Ls.map (·.1.cipher)
  core : core c'.g = (Ls.map (·.1)).foldl coreStep (core c.g)
  id : c'.id = c.id
  persistent : c'.persistent = c.persistent
  retention : c'.retention = c.retention
  maxPast : c'.maxPast = c.maxPast
  ready : Ready c'
  uniq : Uniq c'.msgs
  /-- every message of slot k that was delivered in slot k has its row: the sender's data, Processed, epoch tag = the
      epoch of the state it was created in -/
  stored : ∀ k lm M, sched[k]? = some lm → Ms[k]? = some M → ∀ e ∈ lm.2, e ∈ M → ∀ row,
    rowOf (epochOf c.g.path + k + 1) e = some row → findRow row.mid c'.msgs = some row
  /-- message ids that belong to no slot: no row appears, and a row filed under an epoch up to the start epoch stays as it is -/
  kept : ∀ mid, (∀ e ∈ Ms.flatten, appMid e ≠ some mid) →
    (findRow mid c.msgs = none → findRow mid c'.msgs = none) ∧
    (∀ row, findRow mid c.msgs = some row → row.epoch ≤ epochOf c.g.path → findRow mid c'.msgs = some row)
  recNid : c'.g.recNid = c.g.recNid
  unseen : ∀ n, getRec c n = none → (∀ e ∈ flat sched, n ≠ e.n) → getRec c' n = none
  cons : ∀ x ∈ c'.g.consumed, x ∈ c.g.consumed ∨ ∃ e ∈ evs Ls ++ Ms.flatten, e.cipher = x
  /-- a retained past state stays retained as long as it is at most `max_past_epochs` back -/
  retained : ∀ q d, Retained c.g q d → d + Ls.length ≤ c.maxPast → Retained c'.g q (d + Ls.length)
  /-- the states the client went through are retained: the state after level k, `d` epochs back (k + d = number of levels) -/
  own : ∀ k d, k + d = Ls.length → 1 ≤ d → d ≤ c.maxPast →
    Retained c'.g (c.g.path ++ (Ls.map (·.1.cipher)).take k) d

theorem msgDone_nil (c : Cl) (hr : Ready c) (hu : Uniq c.msgs) : MsgDone c [] [] [] c :=
  ⟨by simp, rfl, rfl, rfl, rfl, rfl, hr, hu, fun k lm M h => by simp at h, fun _ _ => ⟨id, fun _ h _ => h⟩, rfl,
   fun _ h _ => h, fun _ h => Or.inl h, fun _ _ h _ => h, fun k d h1 h2 _ => by simp at h1; omega⟩

/-- a level with its slot followed by the rest of the chain -/
theorem msgDone_cons {c c2 c' : Cl} {w : Ev} {T M l m : List Ev} {Ls : List Level} {Ms : List (List Ev)}
    {rest : List (List Ev × List Ev)} (h1 : LevelSlotDone c w T M l m c2) (h2 : MsgDone c2 Ls Ms rest c')
    (hmids : ∀ a ∈ M, ∀ b ∈ Ms.flatten, appMid a ≠ appMid b) :
    MsgDone c ((w, T) :: Ls) (M :: Ms) ((l, m) :: rest) c' := by
  have hep : epochOf c2.g.path = epochOf c.g.path + 1 := by rw [h1.path, epochOf_snoc]
  refine ⟨?_, ?_, h2.id.trans h1.id, h2.persistent.trans h1.persistent, h2.retention.trans h1.retention,
    h2.maxPast.trans h1.maxPast, h2.ready, h2.uniq, ?_, ?_, h2.recNid.trans h1.recNid, ?_, ?_, ?_, ?_⟩
  rotate_left 4
  · intro n hn hne
    refine h2.unseen n (h1.unseen n hn (fun e he => hne e ?_)) (fun e he => hne e ?_)
    · rw [flat_cons]
      rcases List.mem_append.mp he with x | x
      · exact List.mem_append_left _ x
      · exact List.mem_append_right _ (List.mem_append_left _ x)
    · rw [flat_cons]
      exact List.mem_append_right _ (List.mem_append_right _ he)
  · intro x hx
    rcases h2.cons x hx with y | ⟨e, he, y⟩
    · rcases h1.cons x y with z | ⟨e, he, z⟩ | ⟨e, he, z⟩
      · exact Or.inl z
      · exact Or.inr ⟨e, by simp [he], z⟩
      · exact Or.inr ⟨e, by simp [he], z⟩
    · refine Or.inr ⟨e, ?_, y⟩
      rcases List.mem_append.mp he with z | z
      · simp [z]
      · simp [z]
  · intro q d hr hd
    simp only [List.length_cons] at hd
    have r1 := (retained_step h1).1 q d hr (by omega)
    have r2 := h2.retained q (d + 1) r1 (by rw [h1.maxPast]; omega)
    have : d + 1 + Ls.length = d + (((w, T) :: Ls).length) := by simp only [List.length_cons]; omega
    rw [this] at r2
    exact r2
  · intro k d hkd hd1 hdm
    simp only [List.length_cons] at hkd
    cases k with
    | zero =>
      have r1 := (retained_step h1).2 (by omega)
      have r2 := h2.retained c.g.path 1 r1 (by rw [h1.maxPast]; omega)
      have : 1 + Ls.length = d := by omega
      rw [this] at r2
      simpa using r2
    | succ k' =>
      have r2 := h2.own k' d (by omega) hd1 (by rw [h1.maxPast]; exact hdm)
      rw [h1.path] at r2
      simpa [List.take_succ_cons] using r2
  · rw [h2.path, h1.path]; simp
  · rw [h2.core, h1.core]; rfl
  · intro k lm M' hk hM' e he heM row hr
    cases k with
    | zero =>
      simp only [List.getElem?_cons_zero, Option.some.injEq] at hk hM'
      subst hk; subst hM'
      have hfound := h1.stored e he heM row (by simpa using hr)
      have hmid := rowOf_mid hr
      refine (h2.kept row.mid ?_).2 row hfound ?_
      · intro b hb hbm
        exact hmids e heM b hb (by rw [hmid, hbm])
      · rw [rowOf_epoch hr, hep]; omega
    | succ k' =>
      simp only [List.getElem?_cons_succ] at hk hM'
      refine h2.stored k' lm M' hk hM' e he heM row ?_
      rw [hep]
      have : epochOf c.g.path + 1 + k' + 1 = epochOf c.g.path + (k' + 1) + 1 := by omega
      rw [this]; exact hr
  · intro mid hmid
    have hM : ∀ e ∈ M, appMid e ≠ some mid := fun e he => hmid e (by simp [he])
    have hMs : ∀ e ∈ Ms.flatten, appMid e ≠ some mid := fun e he => hmid e (by
      simp only [List.flatten_cons, List.mem_append]; exact Or.inr he)
    constructor
    · intro hn
      exact (h2.kept mid hMs).1 (h1.kept mid hM (· = none) (fun o ho => by rw [ho]; rfl) hn)
    · intro row hrow hle
      have : findRow mid c2.msgs = some row :=
        h1.kept mid hM (· = some row) (fun o ho => by rw [ho]; simp [rbRow_le hle]) hrow
      exact (h2.kept mid hMs).2 row this (by rw [hep]; omega)

theorem fresh_mono {c : Cl} {E E' : List Ev} (h : Fresh c E) (hs : ∀ e ∈ E', e ∈ E) : Fresh c E' :=
  fun e he => h e (hs e he)

/-- one level (any role) with its slot, then the rest of the chain as given by `ih` -/
theorem msg_chain_step (nx : Nat) (all : List Ev) (c : Cl) (w : Ev) (T M : List Ev) (Ls : List Level) (Ms : List (List Ev))
    (lm : List Ev × List Ev) (rest : List (List Ev × List Ev))
    (hat : AtFork c T) (hbelow : Below c) (hu : Uniq c.msgs) (hmin : IsMin w T)
    (hcross : ∀ e1 ∈ T, ∀ e2 ∈ evs Ls, e1.n ≠ e2.n ∧ e1.cipher ≠ e2.cipher)
    (hch : ChainEv c.id (coreStep (core c.g) w) Ls)
    (hms : SlotsEv c.id (core c.g) ((w, T) :: Ls) (M :: Ms))
    (hall : ∀ e ∈ T ++ evs Ls ++ (M :: Ms).flatten, e ∈ all)
    (hfresh : Fresh c (evs Ls ++ (M :: Ms).flatten))
    (hw : MLevelWise all c.g.path ((w, T) :: Ls) (M :: Ms) (lm :: rest))
    (ih : ∀ c2 : Cl, Ready c2 → Uniq c2.msgs → c2.g.path = c.g.path ++ [w.cipher] → ChainEv c2.id (core c2.g) Ls →
      SlotsEv c2.id (core c2.g) Ls Ms → Fresh c2 (evs Ls ++ Ms.flatten) → MsgDone c2 Ls Ms rest (run nx c2 (flat rest))) :
    MsgDone c ((w, T) :: Ls) (M :: Ms) (lm :: rest) (run nx c (flat (lm :: rest))) := by
  obtain ⟨l, m⟩ := lm
  obtain ⟨hl, hcov, hm, _⟩ := hw
  obtain ⟨hM, hTM, hMF, hmids, hms'⟩ := hms
  have hTall : ∀ a ∈ T, a ∈ all := fun a ha => hall a (by simp [ha])
  have hMall : ∀ a ∈ M, a ∈ all := fun a ha => hall a (by simp [ha])
  have hFall : ∀ a ∈ evs Ls ++ Ms.flatten, a ∈ all := by
    intro a ha
    rcases List.mem_append.mp ha with x | x
    · exact hall a (by simp [x])
    · exact hall a (by simp [x])
  have hlS : ∀ e ∈ l, e ∈ T ∨ StaleAt c T e := fun e he => (hl e he).imp id (staleAt_of_path hTall)
  have hmS : ∀ e ∈ m, e ∈ M ∨ StaleSlot (c.g.path ++ [w.cipher]) M e :=
    fun e he => (hm e he).imp id (fun x => ⟨x.1, fun a ha => x.2 a (hMall a ha)⟩)
  have h1 := msg_level_slot nx c w T M l m hat hbelow hu hmin hlS hcov hM
    (fresh_mono hfresh (fun e he => by simp [he]))
    (by
      intro e1 h1 e2 h2
      rcases hl e1 h1 with x | x
      · exact (hTM e1 x e2 (by simp [h2])).1
      · exact x.2 e2 (hMall e2 h2))
    (fun e1 h1 e2 h2 => (hTM e1 h1 e2 (by simp [h2])).2) hmS
  -- the future events are still unseen and unconsumed
  have hfresh2 : Fresh (run nx (run nx c l) m) (evs Ls ++ Ms.flatten) := by
    intro e he
    have hef := hfresh e (by
      rcases List.mem_append.mp he with x | x
      · simp [x]
      · simp [x])
    have hTe : ∀ a ∈ T, a.n ≠ e.n ∧ a.cipher ≠ e.cipher := by
      intro a ha
      rcases List.mem_append.mp he with x | x
      · exact hcross a ha e x
      · exact hTM a ha e (by simp [x])
    constructor
    · apply h1.unseen e.n hef.1
      intro x hx
      rcases List.mem_append.mp hx with y | y
      · rcases hl x y with z | z
        · exact (hTe x z).1.symm
        · exact (z.2 e (hFall e he)).symm
      · rcases hm x y with z | z
        · exact (hMF x z e he).1.symm
        · exact (z.2 e (hFall e he)).symm
    · intro hx
      rcases h1.cons _ hx with y | ⟨a, ha, y⟩ | ⟨a, ha, y⟩
      · exact hef.2 y
      · exact (hTe a ha).2 y
      · exact (hMF a ha e he).2 y
  have h2 := ih _ h1.ready h1.uniq h1.path (by rw [h1.id, h1.core]; exact hch) (by rw [h1.id, h1.core]; exact hms') hfresh2
  have hrun : run nx c (flat ((l, m) :: rest)) = run nx (run nx (run nx c l) m) (flat rest) := by
    rw [flat_cons, run_append, run_append]
  rw [hrun]
  exact msgDone_cons h1 h2 hmids

/-- **chain of forks with message slots, bystander**: induction over the levels -/
theorem msg_chain_rest (nx : Nat) (all : List Ev) (Ls : List Level) : ∀ (c : Cl) (Ms : List (List Ev))
    (sched : List (List Ev × List Ev)), Ready c → Uniq c.msgs → ChainEv c.id (core c.g) Ls → SlotsEv c.id (core c.g) Ls Ms →
    (∀ e ∈ evs Ls ++ Ms.flatten, e ∈ all) → Fresh c (evs Ls ++ Ms.flatten) → MLevelWise all c.g.path Ls Ms sched →
    MsgDone c Ls Ms sched (run nx c (flat sched)) := by
  induction Ls with
  | nil =>
    intro c Ms sched hr hu _ hms _ _ hw
    cases Ms with
    | nil =>
      cases sched with
      | nil => exact msgDone_nil c hr hu
      | cons _ _ => cases hw
    | cons _ _ => cases hms
  | cons L Ls ih =>
    intro c Ms sched hr hu hch hms hall hfresh hw
    obtain ⟨w, T⟩ := L
    cases Ms with
    | nil => cases hms
    | cons M Ms =>
      cases sched with
      | nil => cases hw
      | cons lm rest =>
        obtain ⟨hlev, hmin, hcross, hch'⟩ := hch
        have hS : Siblings c T := siblings_of_levelEv c T hr.nid hlev (fun e he => hfresh e (by simp [he]))
        have hall' : ∀ e ∈ T ++ evs Ls ++ (M :: Ms).flatten, e ∈ all := by
          intro e he; apply hall e
          simpa [List.append_assoc] using he
        refine msg_chain_step nx all c w T M Ls Ms lm rest
          (.bystander hr.hasGroup hr.act hr.ret hr.sec hr.below.noFork hr.nid hS) hr.below hu hmin hcross hch' hms hall'
          (fresh_mono hfresh (fun e he => by
            rcases List.mem_append.mp he with x | x
            · simp [x]
            · exact List.mem_append_right _ x)) hw ?_
        intro c2 hr2 hu2 hp2 hch2 hms2 hf2
        exact ih c2 Ms rest hr2 hu2 hch2 hms2
          (fun e he => hall e (by
            rcases List.mem_append.mp he with x | x
            · simp [x]
            · simp [x])) hf2 (hp2 ▸ hw.2.2.2)

/-- **chain of forks with message slots, first level in any role** (bystander or committer), later levels as a bystander -/
theorem msg_chain_run (nx : Nat) (all : List Ev) (c : Cl) (w : Ev) (T : List Ev) (rest : List Level) (Ms : List (List Ev))
    (sched : List (List Ev × List Ev)) (hat : AtFork c T) (hbelow : Below c) (hu : Uniq c.msgs) (hmin : IsMin w T)
    (hcross : ∀ e1 ∈ T, ∀ e2 ∈ evs rest, e1.n ≠ e2.n ∧ e1.cipher ≠ e2.cipher)
    (hch : ChainEv c.id (coreStep (core c.g) w) rest)
    (hms : SlotsEv c.id (core c.g) ((w, T) :: rest) Ms)
    (hall : ∀ e ∈ T ++ evs rest ++ Ms.flatten, e ∈ all)
    (hfresh : Fresh c (evs rest ++ Ms.flatten))
    (hw : MLevelWise all c.g.path ((w, T) :: rest) Ms sched) :
    MsgDone c ((w, T) :: rest) Ms sched (run nx c (flat sched)) := by
  cases Ms with
  | nil => cases hms
  | cons M Ms =>
    cases sched with
    | nil => cases hw
    | cons lm rest' =>
      refine msg_chain_step nx all c w T M rest Ms lm rest' hat hbelow hu hmin hcross hch hms hall hfresh hw ?_
      intro c2 hr2 hu2 hp2 hch2 hms2 hf2
      exact msg_chain_rest nx all rest c2 Ms rest' hr2 hu2 hch2 hms2
        (fun e he => hall e (by
          rcases List.mem_append.mp he with x | x
          · simp [x]
          · simp [x])) hf2 (hp2 ▸ hw.2.2.2)

/-! ## §F  messages of a losing branch: an invariant of every schedule of foreign events

  `P` is the MLS path of a fork's parent state, `w` the ciphertext of the commit the client ends on, `LM` the message
  ids of messages created on OTHER branches of that fork.  Whatever foreign events are delivered, in whatever order:
  a row with an id of `LM` that is not invalidated carries an epoch tag later than the parent's, and while such a row
  exists the client is not on the branch through `w` — because the only way from another branch of the fork to that
  branch is a rollback to the parent epoch or below, which invalidates the row. -/

/-- snapshots hold earlier states of the branch the client is on -/
structure PrefInv (c : Cl) : Prop where
  below : ∀ s ∈ c.mgr, s.saved.path <+: c.g.path
  sorted : c.mgr.Pairwise (fun a b => a.saved.path <+: b.saved.path)

structure RowInv (P : Path) (w : Nat) (LM : Nat → Prop) (c : Cl) : Prop where
  /-- a row that is not invalidated was filed under an epoch the client has not rolled back beyond -/
  bound : ∀ r ∈ c.msgs, r.state ≠ 3 → r.epoch ≤ epochOf c.g.path
  losing : ∀ r ∈ c.msgs, LM r.mid → r.state ≠ 3 → epochOf P < r.epoch ∧ ¬ (P ++ [w]) <+: c.g.path

def LI (P : Path) (w : Nat) (LM : Nat → Prop) (c : Cl) : Prop := PrefInv c ∧ RowInv P w LM c

/-- every application message that carries an id of `LM` was created on a branch through another child of `P` than `w` -/
def LosingEv (P : Path) (w : Nat) (LM : Nat → Prop) (e : Ev) : Prop :=
  ∀ m, appMid e = some m → LM m → ∃ a, a ≠ w ∧ (P ++ [a]) <+: e.path

theorem li_same {P : Path} {w : Nat} {LM : Nat → Prop} {c c' : Cl} (h : LI P w LM c) (hp : c'.g.path = c.g.path)
    (hm : c'.mgr = c.mgr) (hmsgs : c'.msgs = c.msgs) : LI P w LM c' :=
  ⟨⟨fun s hs => by rw [hp]; exact h.1.below s (hm ▸ hs), hm ▸ h.1.sorted⟩,
   ⟨fun r hr => by rw [hp]; exact h.2.bound r (hmsgs ▸ hr), fun r hr => by rw [hp]; exact h.2.losing r (hmsgs ▸ hr)⟩⟩

theorem prefix_snoc_cases {p q : Path} {x y : Nat} (h : p ++ [x] <+: q ++ [y]) : (p = q ∧ x = y) ∨ p ++ [x] <+: q := by
  rcases List.prefix_concat_iff.mp h with z | z
  · left
    have := List.append_inj' z rfl
    exact ⟨this.1, by simpa using this.2⟩
  · exact Or.inr z

theorem two_children {P q : Path} {a w : Nat} (h1 : P ++ [a] <+: q) (h2 : P ++ [w] <+: q) : a = w := by
  obtain ⟨t1, rfl⟩ := h1
  obtain ⟨t2, h2⟩ := h2
  simp only [List.append_assoc, List.append_cancel_left_eq, List.singleton_append, List.cons.injEq] at h2
  exact h2.1.symm

/-- snapshot the current state, then move one commit on -/
theorem li_extend {P : Path} {w : Nat} {LM : Nat → Prop} {c c' : Cl} (h : LI P w LM c) (e : Ev) (x : Nat)
    (hm : c'.mgr = (mgrCreate c (epochOf c.g.path) e).mgr) (hmsgs : c'.msgs = c.msgs) (hp : c'.g.path = c.g.path ++ [x]) :
    LI P w LM c' := by
  have hq : ∀ s ∈ c.mgr ++ [({ epoch := epochOf c.g.path, commit := e.idnum, ts := e.ts, saved := c.g } : Snap)],
      s.saved.path <+: c.g.path := by
    intro s hs
    rcases List.mem_append.mp hs with z | z
    · exact h.1.below s z
    · simp at z; subst z; exact List.prefix_refl _
  have hsorted : (c.mgr ++ [({ epoch := epochOf c.g.path, commit := e.idnum, ts := e.ts, saved := c.g } : Snap)]).Pairwise
      (fun a b => a.saved.path <+: b.saved.path) := by
    apply List.pairwise_append.mpr
    refine ⟨h.1.sorted, List.pairwise_singleton _ _, ?_⟩
    intro a ha b hb
    simp at hb; subst hb
    exact h.1.below a ha
  refine ⟨⟨?_, ?_⟩, ⟨?_, ?_⟩⟩
  · intro s hs
    rw [hm] at hs
    rw [hp]
    exact (hq s (List.mem_of_mem_drop hs)).trans (List.prefix_append _ _)
  · rw [hm]
    exact hsorted.sublist (List.drop_sublist _ _)
  · intro r hr hv
    rw [hp, epochOf_snoc]
    exact Nat.le_succ_of_le (h.2.bound r (hmsgs ▸ hr) hv)
  · intro r hr hl hv
    obtain ⟨h1, h2⟩ := h.2.losing r (hmsgs ▸ hr) hl hv
    refine ⟨h1, ?_⟩
    rw [hp]
    intro hx
    rcases prefix_snoc_cases hx with ⟨z, _⟩ | z
    · have := h.2.bound r (hmsgs ▸ hr) hv
      rw [← z] at this
      omega
    · exact h2 z

theorem li_rollbackTo {P : Path} {w : Nat} {LM : Nat → Prop} (c c1 : Cl) (ep : Nat) (hh : HInv c) (h : LI P w LM c)
    (hr : rollbackTo c ep = some c1) : LI P w LM c1 := by
  unfold rollbackTo at hr
  split at hr
  · cases hr
  · rename_i i hi
    split at hr
    · cases hr
    · rename_i s rest hd
      cases hr
      have hs : s ∈ c.mgr := List.mem_of_mem_drop (by rw [hd]; simp)
      have hsplit : c.mgr = c.mgr.take i ++ s :: rest := by rw [← hd, List.take_append_drop]
      have hsorted := h.1.sorted
      rw [hsplit] at hsorted
      obtain ⟨h1, _, h3⟩ := List.pairwise_append.mp hsorted
      have hsep : s.epoch = ep := by
        obtain ⟨s', hs1, hs2⟩ := findIdx_spec c.mgr ep i hi
        rw [hd] at hs1
        have : s = s' := by simpa using congrArg List.head? hs1
        rw [this]; exact hs2
      have hsp : epochOf s.saved.path = ep := by rw [← (hh.saved s hs).2.2]; exact hsep
      have hrow : ∀ r' ∈ c.msgs.map (fun m => if m.epoch > ep then { m with state := 3 } else m), r'.state ≠ 3 →
          r' ∈ c.msgs ∧ r'.epoch ≤ ep := by
        intro r' hr' hv
        obtain ⟨r, hr, rfl⟩ := List.mem_map.mp hr'
        by_cases hgt : r.epoch > ep
        · simp [hgt] at hv
        · simp only [hgt, if_false] at hv ⊢
          exact ⟨hr, by omega⟩
      refine ⟨⟨fun t ht => h3 t ht s List.mem_cons_self, h1⟩, ⟨?_, ?_⟩⟩
      · intro r' hr' hv
        show r'.epoch ≤ epochOf s.saved.path
        rw [hsp]; exact (hrow r' hr' hv).2
      · intro r' hr' hl hv
        obtain ⟨hm, _⟩ := hrow r' hr' hv
        obtain ⟨a1, a2⟩ := h.2.losing r' hm hl hv
        exact ⟨a1, fun hx => a2 (hx.trans (h.1.below s hs))⟩

theorem li_notBetterResult {P : Path} {w : Nat} {LM : Nat → Prop} (c : Cl) (e : Ev) (h : LI P w LM c) :
    LI P w LM (notBetterResult c e).1 := by
  unfold notBetterResult
  split
  · split
    · exact li_same h rfl rfl rfl
    · exact li_same h rfl rfl rfl
  · exact li_same h rfl rfl rfl

theorem li_processCommit {P : Path} {w : Nat} {LM : Nat → Prop} (c : Cl) (e : Ev) (b : Body) (sw : List Nat)
    (hk : e.kind = .commit b sw) (h : LI P w LM c) : LI P w LM (processCommit c e b sw).1 := by
  have hp : (mergeCommit c.maxPast c.g e).path = c.g.path ++ [e.cipher] := (mergeCommit_path _ _ _ b sw hk).1
  unfold processCommit
  split
  · exact li_same h rfl rfl rfl
  · dsimp only
    split
    · exact li_extend h e e.cipher rfl rfl hp
    · exact li_extend h e e.cipher rfl rfl (by
        show (syncRec (ensureSecret (mergeCommit c.maxPast c.g e))).path = _
        simp only [syncRec, ensureSecret_path]; exact hp)

theorem li_wrongEpochCommit {P : Path} {w : Nat} {LM : Nat → Prop} (retry : Cl → Option (Cl × Res)) (c : Cl) (e : Ev)
    (ee : Nat) (hh : HInv c) (h : LI P w LM c)
    (hretry : ∀ c1 r, HInv c1 → LI P w LM c1 → c1.id = c.id → retry c1 = some r → LI P w LM r.1) :
    LI P w LM (wrongEpochCommit retry c e ee).1 := by
  unfold wrongEpochCommit
  split
  · split
    · rename_i c1 hr
      split
      · rename_i r hrr
        exact hretry c1 r (hinv_rollbackTo c c1 ee hh hr) (li_rollbackTo c c1 ee hh h hr) (frame_rollbackTo 0 c c1 ee hr).id hrr
      · exact li_notBetterResult c e h
    · exact li_notBetterResult c e h
  · exact li_notBetterResult c e h

theorem li_storeApp {P : Path} {w : Nat} {LM : Nat → Prop} (c : Cl) (e : Ev) (mid ts tok : Nat) (h : LI P w LM c)
    (hpath : e.path <+: c.g.path) (hlose : LM mid → ∃ a, a ≠ w ∧ (P ++ [a]) <+: e.path) :
    LI P w LM (storeApp c e mid ts tok).1 := by
  obtain ⟨l, hl⟩ := updLast_eq c.g mid ts
  have hp : (storeApp c e mid ts tok).1.g.path = c.g.path := by
    show (updLast c.g mid ts).path = _
    rw [hl]
  refine ⟨⟨fun s hs => by rw [hp]; exact h.1.below s hs, h.1.sorted⟩, ⟨?_, ?_⟩⟩
  · intro r hr hv
    rw [hp]
    rcases mem_upsertRow _ r c.msgs hr with rfl | x
    · exact Nat.le_refl _
    · exact h.2.bound r x hv
  · intro r hr hlm hv
    rw [hp]
    rcases mem_upsertRow _ r c.msgs hr with rfl | x
    · obtain ⟨a, ha, hpa⟩ := hlose hlm
      have hpa' : P ++ [a] <+: c.g.path := hpa.trans hpath
      refine ⟨?_, fun hx => ha (two_children hpa' hx)⟩
      show epochOf P < epochOf c.g.path
      have := hpa'.length_le
      simp only [List.length_append, List.length_singleton] at this
      simp only [epochOf]; omega
    · exact h.2.losing r x hlm hv

theorem li_step1 {P : Path} {w : Nat} {LM : Nat → Prop} (retry : Cl → Option (Cl × Res)) (nx : Nat) (c : Cl) (e : Ev)
    (hf : e.sender ≠ c.id) (hlose : LosingEv P w LM e) (hh : HInv c) (h : LI P w LM c)
    (hretry : ∀ c1 r, HInv c1 → LI P w LM c1 → c1.id = c.id → retry c1 = some r → LI P w LM r.1) :
    LI P w LM (step1 retry nx c e).1 := by
  have hhw := hinv_withSecret c hh
  have hw : LI P w LM (withSecret c) := li_same h (ensureSecret_path _) rfl rfl
  have hfb : (e.sender == c.id) = false := by simpa using hf
  unfold step1
  split
  · exact li_same h rfl rfl rfl
  · split
    · exact li_same h rfl rfl rfl
    simp only
    split
    · exact li_same hw rfl rfl rfl
    · rename_i hopen
      split
      · -- commit
        rename_i b sw hk
        split
        · exact li_wrongEpochCommit retry _ e _ hhw hw hretry
        · split
          · rename_i hown; simp [hfb] at hown
          · split
            · exact li_same hw rfl rfl rfl
            · exact li_processCommit (consume (withSecret c) e.cipher) e _ _ hk (li_same hw rfl rfl rfl)
      · -- leave
        split
        · exact li_same hw rfl rfl rfl
        · split
          · rename_i hown; simp [hfb] at hown
          · split
            · exact li_same hw rfl rfl rfl
            · split
              · exact li_same hw (by simp only [setRec, ensureSecret_path]) rfl rfl
              · exact li_same hw rfl rfl rfl
      · -- app
        rename_i mid ts tok hk
        split
        · exact li_same hw rfl rfl rfl
        · split
          · exact li_same hw rfl rfl rfl
          · split
            · rename_i hown; simp [hfb] at hown
            · split
              · exact li_same hw rfl rfl rfl
              · have hpre : e.path <+: (withSecret c).g.path := by
                  apply Classical.byContradiction
                  intro hn
                  have := outerOpens_stale (withSecret c).g e hhw.sec hn
                  rw [this] at hopen
                  simp at hopen
                exact li_storeApp (consume (withSecret c) e.cipher) e mid ts tok (li_same hw rfl rfl rfl) hpre
                  (fun hm => hlose mid (appMid_of_kind hk) hm)

theorem li_deliverOnce {P : Path} {w : Nat} {LM : Nat → Prop} (retry : Cl → Option (Cl × Res)) (nx : Nat) (c : Cl) (e : Ev)
    (hf : e.sender ≠ c.id) (hlose : LosingEv P w LM e) (hh : HInv c) (h : LI P w LM c)
    (hretry : ∀ c1 r, HInv c1 → LI P w LM c1 → c1.id = c.id → retry c1 = some r → LI P w LM r.1) :
    LI P w LM (deliverOnce retry nx c e).1 := by
  unfold deliverOnce
  split
  · split
    · exact h
    · exact li_step1 retry nx c e hf hlose hh h hretry
  · exact li_step1 retry nx c e hf hlose hh h hretry

/-- the invariant is kept by every delivery of a foreign event, for every state, event and fuel -/
theorem li_deliverN {P : Path} {w : Nat} {LM : Nat → Prop} (fuel nx : Nat) (c : Cl) (e : Ev)
    (hf : e.sender ≠ c.id) (hlose : LosingEv P w LM e) (hh : HInv c) (h : LI P w LM c) :
    LI P w LM (deliverN fuel nx c e).1 := by
  induction fuel generalizing c with
  | zero => exact li_deliverOnce _ nx c e hf hlose hh h (by intro c1 r _ _ _ hr; cases hr)
  | succ f ih =>
    apply li_deliverOnce _ nx c e hf hlose hh h
    intro c1 r hh1 h1 hid hr
    cases hr
    exact ih c1 (by rw [hid]; exact hf) hh1 h1

theorem li_run {P : Path} {w : Nat} {LM : Nat → Prop} (nx : Nat) (l : List Ev) : ∀ c : Cl,
    (∀ e ∈ l, e.sender ≠ c.id ∧ LosingEv P w LM e) → HInv c → LI P w LM c →
    HInv (run nx c l) ∧ LI P w LM (run nx c l) := by
  induction l with
  | nil => intro c _ hh h; exact ⟨hh, h⟩
  | cons e t ih =>
    intro c hl hh h
    obtain ⟨hf, hlose⟩ := hl e List.mem_cons_self
    rw [run_cons]
    refine ih _ ?_ (hinv_deliverN 3 nx c e hh) (li_deliverN 3 nx c e hf hlose hh h)
    intro x hx
    rw [(deliver_config nx c e).1]
    exact hl x (List.mem_cons_of_mem _ hx)

/-! ## decidable forms of the event conditions (for closed examples) -/

instance (id : Nat) (k : Core) (M : List Ev) : Decidable (SlotEv id k M) :=
  decidable_of_iff
    ((∀ e ∈ M, (appMid e).isSome = true) ∧ (∀ e ∈ M, e.path = k.1) ∧ (∀ e ∈ M, e.sender ≠ id) ∧ (∀ e ∈ M, e.tag = k.2.2.nid) ∧
      (∀ e1 ∈ M, ∀ e2 ∈ M, e1 ≠ e2 → e1.n ≠ e2.n ∧ e1.cipher ≠ e2.cipher ∧ appMid e1 ≠ appMid e2))
    ⟨fun ⟨a, b, c, d, e⟩ => ⟨a, b, c, d, e⟩, fun h => ⟨h.kind, h.path, h.foreign, h.tag, h.distinct⟩⟩

instance decSlotsEv (id : Nat) : ∀ (k : Core) (Ls : List Level) (Ms : List (List Ev)), Decidable (SlotsEv id k Ls Ms)
  | _, [], [] => isTrue trivial
  | _, [], _ :: _ => isFalse (fun h => h)
  | _, _ :: _, [] => isFalse (fun h => h)
  | k, L :: Ls, M :: Ms => by
    unfold SlotsEv
    have := decSlotsEv id (coreStep k L.1) Ls Ms
    infer_instance

instance decMLevelWise (all : List Ev) : ∀ (p : Path) (Ls : List Level) (Ms : List (List Ev)) (sched : List (List Ev × List Ev)),
    Decidable (MLevelWise all p Ls Ms sched)
  | _, [], [], [] => isTrue trivial
  | _, [], [], _ :: _ => isFalse (fun h => h)
  | _, [], _ :: _, _ => isFalse (fun h => h)
  | _, _ :: _, [], _ => isFalse (fun h => h)
  | _, _ :: _, _ :: _, [] => isFalse (fun h => h)
  | p, L :: Ls, M :: Ms, lm :: rest => by
    unfold MLevelWise
    have := decMLevelWise all (p ++ [L.1.cipher]) Ls Ms rest
    infer_instance

instance (c : Cl) (E : List Ev) : Decidable (Fresh c E) := by unfold Fresh; infer_instance
instance (l : List MsgRow) : Decidable (Uniq l) := by unfold Uniq; infer_instance

end MdkVerif.ChainMsg
