import MdkVerif.Model.Welcome
import MdkVerif.Proofs.Welcome
/-
  Proofs.WelcomeNid — the nostr group id (routing key of kind-445 events) in the invitation model:
  the invariant "no two records of one client carry the same nostr group id" (`NidInv`; for the memory
  backend together with the consistency of its by-id index), that `save_group` refuses a record whose id
  another record holds (`saveGroup_collision`), and that every storage write the invitation state machine
  and the modelled group traffic perform preserves the invariant.
-/
namespace MdkVerif.Welcome
open MdkVerif MdkVerif.Store

theorem alookup_aerase {α : Type} (k k' : Nat) (l : List (Nat × α)) :
    alookup k (aerase k' l) = if k = k' then none else alookup k l := by
  induction l with
  | nil => simp [aerase, alookup]
  | cons p t ih =>
    obtain ⟨a, b⟩ := p
    unfold aerase at ih ⊢
    by_cases h1 : a = k'
    · subst h1
      simp only [List.filter, bne_self_eq_false]
      rw [ih]
      by_cases h2 : k = a
      · simp [h2]
      · have : ¬ a = k := fun e => h2 e.symm
        simp [alookup, h2, this]
    · have hb : (a != k') = true := by simp [h1]
      simp only [List.filter, hb, alookup]
      by_cases h2 : a = k
      · subst h2; simp [h1]
      · simp only [h2, if_false]; exact ih

theorem findGroup_gid (s : Store) (a : Nat) (g : Group) (h : findGroup s a = some g) : g.gid = a := by
  have := List.find?_some h; simpa using this

theorem findGroup_mem (s : Store) (a : Nat) (g : Group) (h : findGroup s a = some g) : g ∈ s.groups :=
  List.mem_of_find?_eq_some h

/-- no two records share a nostr group id; on the memory backend every record is what the by-id index
    answers for its id -/
structure NidInv (s : Store) : Prop where
  uniq : ∀ a b ga gb, findGroup s a = some ga → findGroup s b = some gb → ga.nid = gb.nid → a = b
  idx : s.backend = .mem → ∀ a ga, findGroup s a = some ga → alookup ga.nid s.byNid = some ga
  nodup : s.groups.Pairwise (fun x y => x.gid ≠ y.gid)

theorem nidInv_empty (b : Backend) : NidInv (Store.empty b) :=
  ⟨fun a _ ga _ h => by simp [findGroup, Store.empty] at h, fun _ a ga h => by simp [findGroup, Store.empty] at h,
   by simp [Store.empty]⟩

theorem mem_replaceGroup (g x : Group) (l : List Group) (h : x ∈ replaceGroup g l) : x = g ∨ x ∈ l := by
  induction l with
  | nil => simp [replaceGroup] at h; exact Or.inl h
  | cons a t ih =>
    simp only [replaceGroup] at h
    split at h
    · rcases List.mem_cons.mp h with e | e
      · exact Or.inl e
      · exact Or.inr (List.mem_cons_of_mem _ e)
    · rcases List.mem_cons.mp h with e | e
      · exact Or.inr (e ▸ List.mem_cons_self ..)
      · rcases ih e with e' | e'
        · exact Or.inl e'
        · exact Or.inr (List.mem_cons_of_mem _ e')

theorem pairwise_replaceGroup (g : Group) (l : List Group) (h : l.Pairwise (fun x y => x.gid ≠ y.gid)) :
    (replaceGroup g l).Pairwise (fun x y => x.gid ≠ y.gid) := by
  induction l with
  | nil => simp [replaceGroup]
  | cons a t ih =>
    rw [List.pairwise_cons] at h
    obtain ⟨h1, h2⟩ := h
    simp only [replaceGroup]
    split
    · rename_i e
      have e' : a.gid = g.gid := by simpa using e
      rw [List.pairwise_cons]
      exact ⟨fun y hy => by rw [← e']; exact h1 y hy, h2⟩
    · rename_i e
      have e' : a.gid ≠ g.gid := by simpa using e
      rw [List.pairwise_cons]
      refine ⟨?_, ih h2⟩
      intro y hy
      rcases mem_replaceGroup g y t hy with rfl | hy'
      · exact e'
      · exact h1 y hy'

theorem find_of_pairwise (l : List Group) (h : l.Pairwise (fun x y => x.gid ≠ y.gid)) (x : Group) (hx : x ∈ l) :
    l.find? (·.gid == x.gid) = some x := by
  induction l with
  | nil => cases hx
  | cons a t ih =>
    rw [List.pairwise_cons] at h
    obtain ⟨h1, h2⟩ := h
    rcases List.mem_cons.mp hx with rfl | hx'
    · simp [List.find?]
    · have : a.gid ≠ x.gid := h1 x hx'
      simp only [List.find?]
      have hb : (a.gid == x.gid) = false := by simp [this]
      rw [hb]
      exact ih h2 hx'

theorem saveGroup_groups (s s' : Store) (g : Group) (h : saveGroup s g = some s') : s'.groups = replaceGroup g s.groups := by
  unfold saveGroup at h
  split at h; · cases h
  split at h; · cases h
  split at h; · cases h
  split at h
  · split at h
    · split at h
      · cases h
      · cases h; rfl
    · cases h; rfl
  · split at h
    · cases h
    · cases h; rfl

theorem nidInv_of_eq (s s' : Store) (h1 : s'.groups = s.groups) (h2 : s'.byNid = s.byNid) (h3 : s'.backend = s.backend)
    (h : NidInv s) : NidInv s' := by
  have fg : ∀ a, findGroup s' a = findGroup s a := fun a => by simp [findGroup, h1]
  refine ⟨?_, ?_, h1 ▸ h.nodup⟩
  · intro a b ga gb ha hb; rw [fg] at ha hb; exact h.uniq a b ga gb ha hb
  · intro hm a ga ha; rw [fg] at ha; rw [h2]; exact h.idx (h3 ▸ hm) a ga ha

/-- the nostr group id `nid` is carried by the record of a group other than `gid` -/
def HeldByOther (s : Store) (nid gid : Nat) : Prop :=
  ∃ h y, findGroup s h = some y ∧ y.nid = nid ∧ h ≠ gid

/-- **the uniqueness rule of `save_group`, both backends**: a record whose nostr group id is carried by
    another group's record is refused (and the store is unchanged: `none`) -/
theorem saveGroup_collision (s : Store) (g : Group) (hinv : NidInv s) (hc : HeldByOther s g.nid g.gid) :
    saveGroup s g = none := by
  obtain ⟨h, y, hy, hn, hne⟩ := hc
  have hyg : y.gid = h := findGroup_gid s h y hy
  have hne' : y.gid ≠ g.gid := by rw [hyg]; exact hne
  unfold saveGroup
  split; · rfl
  split; · rfl
  split; · rfl
  split
  · rename_i hb
    have hidx := hinv.idx hb h y hy
    rw [hn] at hidx
    simp [hidx, hne']
  · have hmem := findGroup_mem s h y hy
    have : s.groups.any (fun x => x.nid == g.nid && x.gid != g.gid) = true := by
      rw [List.any_eq_true]
      exact ⟨y, hmem, by simp [hn, hne']⟩
    simp [this]

theorem saveGroup_byNid_sql (s s' : Store) (g : Group) (hb : s.backend = .sql) (h : saveGroup s g = some s') :
    s'.byNid = s.byNid := by
  unfold saveGroup at h
  split at h; · cases h
  split at h; · cases h
  split at h; · cases h
  split at h
  · rename_i hm; rw [hb] at hm; cases hm
  · split at h
    · cases h
    · cases h; rfl

/-- a successful `save_group` keeps the invariant -/
theorem saveGroup_nidInv (s s' : Store) (g : Group) (hinv : NidInv s) (h : saveGroup s g = some s') : NidInv s' := by
  obtain ⟨hf, _, _, _, _, hbk⟩ := saveGroup_frame s s' g h
  -- no other record carries g.nid
  have hfree : ∀ b y, findGroup s b = some y → y.nid = g.nid → b = g.gid := by
    intro b y hy hn
    apply Classical.byContradiction
    intro hne
    have := saveGroup_collision s g hinv ⟨b, y, hy, hn, hne⟩
    rw [this] at h; cases h
  refine ⟨?_, ?_, by rw [saveGroup_groups s s' g h]; exact pairwise_replaceGroup g _ hinv.nodup⟩
  · intro a b ga gb ha hb hn
    rw [hf] at ha hb
    by_cases ea : g.gid = a <;> by_cases eb : g.gid = b
    · rw [← ea, ← eb]
    · rw [if_pos ea] at ha; rw [if_neg eb] at hb
      cases ha
      exact absurd (hfree b gb hb hn.symm).symm eb
    · rw [if_neg ea] at ha; rw [if_pos eb] at hb
      cases hb
      exact absurd (hfree a ga ha hn).symm ea
    · rw [if_neg ea] at ha; rw [if_neg eb] at hb
      exact hinv.uniq a b ga gb ha hb hn
  · intro hm a ga ha
    rw [hbk] at hm
    have hidx := hinv.idx hm
    rw [hf] at ha
    -- the new by-id index
    have hby : ∃ B, s'.byNid = ainsert g.nid g B ∧
        (B = s.byNid ∨ ∃ old, findGroup s g.gid = some old ∧ old.nid ≠ g.nid ∧ B = aerase old.nid s.byNid) := by
      unfold saveGroup at h
      split at h; · cases h
      split at h; · cases h
      split at h; · cases h
      split at h
      · have key : ∀ B0 : List (Nat × Group),
            B0 = (match findGroup s g.gid with
              | some old => if old.nid != g.nid then aerase old.nid s.byNid else s.byNid
              | none => s.byNid) →
            (B0 = s.byNid ∨ ∃ old, findGroup s g.gid = some old ∧ old.nid ≠ g.nid ∧ B0 = aerase old.nid s.byNid) := by
          intro B0 hB
          cases hfo : findGroup s g.gid with
          | none => rw [hfo] at hB; exact Or.inl hB
          | some old =>
            rw [hfo] at hB
            by_cases e : old.nid = g.nid
            · simp [e] at hB; exact Or.inl hB
            · simp [e] at hB; exact Or.inr ⟨old, rfl, e, hB⟩
        split at h
        · split at h
          · cases h
          · cases h; exact ⟨_, rfl, key _ rfl⟩
        · cases h; exact ⟨_, rfl, key _ rfl⟩
      · rename_i hnm
        rw [hm] at hnm; cases hnm
    obtain ⟨B, hB, hcase⟩ := hby
    rw [hB, alookup_ainsert]
    by_cases ea : g.gid = a
    · simp only [ea, if_true] at ha; cases ha; simp
    · simp only [ea, if_false] at ha
      have hne : ga.nid ≠ g.nid := fun e => ea (hfree a ga ha e).symm
      simp only [hne, if_false]
      rcases hcase with rfl | ⟨old, hold, _, rfl⟩
      · exact hidx a ga ha
      · rw [alookup_aerase]
        have : ga.nid ≠ old.nid := fun e => ea (hinv.uniq a g.gid ga old ha hold e).symm
        simp only [this, if_false]
        exact hidx a ga ha

theorem replaceRelays_nidInv (s s' : Store) (gid : Nat) (rs : List Nat) (hinv : NidInv s)
    (h : replaceRelays s gid rs = some s') : NidInv s' := by
  unfold replaceRelays at h
  simp only at h
  split at h; · cases h
  split at h; · cases h
  split at h; · cases h
  cases h
  exact nidInv_of_eq s _ rfl rfl rfl hinv

theorem saveWelcome_nidInv (s s' : Store) (x : Store.Welcome) (hinv : NidInv s) (h : saveWelcome s x = some s') :
    NidInv s' := by
  unfold saveWelcome at h
  split at h
  · split at h; · cases h
    split at h; · cases h
    split at h; · cases h
    cases h; exact nidInv_of_eq s _ rfl rfl rfl hinv
  · split at h; · cases h
    split at h; · cases h
    cases h; exact nidInv_of_eq s _ rfl rfl rfl hinv

theorem savePw_nidInv (s : Store) (p : PW) (hinv : NidInv s) : NidInv (savePw s p) :=
  nidInv_of_eq s _ rfl rfl rfl hinv

theorem saveMessage_nidInv (s s' : Store) (m : Msg) (hinv : NidInv s) (h : saveMessage s m = some s') : NidInv s' := by
  unfold saveMessage at h
  split at h; · cases h
  split at h; · cases h
  cases h; exact nidInv_of_eq s _ rfl rfl rfl hinv

/-- **routing**: under the invariant the store answers the nostr group id of every record with that record's
    group — `find_group_by_nostr_group_id`, the first step of `process_message`, cannot hand an event of group `a`
    to another group (memory: the by-id index; SQLite: the query by the UNIQUE column) -/
theorem nidInv_routes (s : Store) (hinv : NidInv s) (a : Nat) (g : Group) (h : findGroup s a = some g) :
    ∃ x, findGroupNostr s g.nid = some x ∧ x.gid = a := by
  unfold findGroupNostr
  cases hb : s.backend with
  | mem => exact ⟨g, hinv.idx hb a g h, findGroup_gid s a g h⟩
  | sql =>
    simp only
    have hmem := findGroup_mem s a g h
    cases hf : s.groups.find? (fun x => x.nid == g.nid) with
    | none =>
      have := List.find?_eq_none.mp hf g hmem
      simp at this
    | some x =>
      have hx : x ∈ s.groups := List.mem_of_find?_eq_some hf
      have hxn : x.nid = g.nid := by have := List.find?_some hf; simpa using this
      have hfx : findGroup s x.gid = some x := find_of_pairwise s.groups hinv.nodup x hx
      exact ⟨x, rfl, hinv.uniq x.gid a x g hfx h hxn⟩

/-! ### the client operations keep the invariant -/

theorem processFresh_nidInv (c : Client) (wr rid : Nat) (m : Invite) (h : NidInv c.store) :
    NidInv (processFresh c wr m rid).1.store := by
  unfold processFresh
  split
  · exact savePw_nidInv _ _ h
  · split
    · exact h
    · rename_i s1 hs1
      have h1 := saveGroup_nidInv _ _ _ h hs1
      split
      · exact h1
      · rename_i s2 hs2
        have h2 := replaceRelays_nidInv _ _ _ _ h1 hs2
        split
        · exact h2
        · rename_i s3 hs3
          exact savePw_nidInv _ _ (saveWelcome_nidInv _ _ _ h2 hs3)

theorem process_nidInv (c : Client) (wr : Nat) (m : Invite) (h : NidInv c.store) : NidInv (process c wr m).1.store := by
  unfold process
  split
  · exact h
  · split
    · exact h
    · split
      · split
        · exact h
        · split
          · split <;> exact h
          · exact h
      · split
        · exact savePw_nidInv _ _ h
        · exact processFresh_nidInv c wr _ m h

theorem accept_nidInv (c : Client) (m : Invite) (h : NidInv c.store) : NidInv (accept c m).1.store := by
  unfold accept
  split
  · exact h
  · split
    · exact h
    · split
      · exact savePw_nidInv _ _ h
      · simp only
        split
        · exact h
        · rename_i s1 hs1
          have h1 := saveWelcome_nidInv _ _ _ h hs1
          split
          · exact h1
          · split
            · exact h1
            · rename_i s2 hs2
              have h2 := saveGroup_nidInv _ _ _ h1 hs2
              split
              · exact h2
              · rename_i s3 hs3
                exact replaceRelays_nidInv _ _ _ _ h2 hs3

theorem decline_nidInv (c : Client) (m : Invite) (h : NidInv c.store) : NidInv (decline c m).1.store := by
  unfold decline
  split
  · exact h
  · split
    · exact h
    · split
      · exact savePw_nidInv _ _ h
      · split
        · exact h
        · rename_i s1 hs1
          have h1 := saveWelcome_nidInv _ _ _ h hs1
          split
          · exact h1
          · split
            · exact h1
            · rename_i s2 hs2
              exact saveGroup_nidInv _ _ _ h1 hs2

theorem saveSecret_nidInv (s s' : Store) (gid epoch v : Nat) (hinv : NidInv s) (h : saveSecret s gid epoch v = some s') :
    NidInv s' := by
  unfold saveSecret at h
  split at h; · cases h
  cases h; exact nidInv_of_eq s _ rfl rfl rfl hinv

theorem exporterSecret_nidInv (c : Client) (gid : Nat) (h : NidInv c.store) : NidInv (exporterSecret c gid).1.store := by
  unfold exporterSecret
  split
  · exact h
  · split
    · exact h
    · exact h
    · split
      · exact h
      · rename_i s1 hs1; exact saveSecret_nidInv _ _ _ _ _ h hs1

/-- `exporter_secret` touches the secret cache only -/
theorem exporterSecret_frame (c : Client) (gid : Nat) :
    (exporterSecret c gid).1.mls = c.mls ∧ (exporterSecret c gid).1.store.groups = c.store.groups ∧
    (exporterSecret c gid).1.store.byNid = c.store.byNid ∧ (exporterSecret c gid).1.store.backend = c.store.backend := by
  unfold exporterSecret
  split
  · exact ⟨rfl, rfl, rfl, rfl⟩
  · split
    · exact ⟨rfl, rfl, rfl, rfl⟩
    · exact ⟨rfl, rfl, rfl, rfl⟩
    · split
      · exact ⟨rfl, rfl, rfl, rfl⟩
      · rename_i s1 hs1
        unfold saveSecret at hs1
        split at hs1; · cases hs1
        cases hs1; exact ⟨rfl, rfl, rfl, rfl⟩

theorem routeEvent_nidInv (c : Client) (nid : Nat) (h : NidInv c.store) : NidInv (routeEvent c nid).1.store := by
  unfold routeEvent
  split
  · exact h
  · split
    · exact h
    · exact exporterSecret_nidInv c _ h

theorem storeProbe_nidInv (c : Client) (gid seq : Nat) (h : NidInv c.store) : NidInv (storeProbe c gid seq).store := by
  unfold storeProbe
  split
  · exact h
  · simp only
    split
    · exact h
    · rename_i s1 hs1
      have h1 := saveMessage_nidInv _ _ _ h hs1
      split
      · exact h1
      · rename_i s2 hs2; exact saveGroup_nidInv _ _ _ h1 hs2

theorem deliverCommit_nidInv (c : Client) (k : Commit) (h : NidInv c.store) : NidInv (deliverCommit c k).1.store := by
  have hr := routeEvent_nidInv c k.nid h
  unfold deliverCommit
  split
  · rename_i c1 heq; rw [heq] at hr; exact hr
  · rename_i c1 g st sec heq
    rw [heq] at hr
    simp only at hr
    split
    · exact hr
    · split
      · exact hr
      · split
        · exact hr
        · split
          · simp only
            split
            · exact hr
            · rename_i s1 hs1; exact saveGroup_nidInv _ _ _ hr hs1
          · simp only
            have h2 : NidInv (exporterSecret { c1 with mls := ainsert k.gid { tok := k.toTok, epoch := k.toEpoch, members := k.members } c1.mls } k.gid).1.store :=
              exporterSecret_nidInv _ _ hr
            split
            · exact h2
            · rename_i s1 hs1; exact saveGroup_nidInv _ _ _ h2 hs1

theorem deliverApp_nidInv (c : Client) (gid nid tok seq : Nat) (h : NidInv c.store) :
    NidInv (deliverApp c gid nid tok seq).1.store := by
  have hr := routeEvent_nidInv c nid h
  unfold deliverApp
  split
  · rename_i c1 heq; rw [heq] at hr; exact hr
  · rename_i c1 g st sec heq
    rw [heq] at hr
    simp only at hr
    split
    · exact storeProbe_nidInv c1 gid seq hr
    · exact hr

end MdkVerif.Welcome
