import MdkVerif.Model.Client
import MdkVerif.Proofs.Client
import MdkVerif.Proofs.Store
/-
  MdkVerif.Proofs.ForkInv — the hypotheses of the single-fork theorems are invariants of the client
  model: stored exporter secrets follow the MLS path (DESIGN `secrets_follow_path`), and the snapshot
  manager's entries are strictly older than the current epoch (so no snapshot of the current epoch
  exists), for the current state and for every state saved in a snapshot.  Preserved by every
  operation of the client, including rollback and re-processing.
-/
namespace MdkVerif.Client
open MdkVerif
open MdkVerif.Store (alookup_ainsert_self alookup_ainsert_ne)

/-- every stored exporter secret is the secret of a prefix of the current path, under that prefix's epoch -/
def SecOK (g : GState) : Prop := ∀ ep q, alookup ep g.secrets = some q → ep = epochOf q ∧ q <+: g.path

/-- a pending (staged) commit is a commit event -/
def PendOK (g : GState) : Prop := ∀ p, g.pending = some p → ∃ b sw, p.kind = .commit b sw

structure HInv (c : Cl) : Prop where
  sec : SecOK c.g
  pend : PendOK c.g
  saved : ∀ s ∈ c.mgr, SecOK s.saved ∧ PendOK s.saved ∧ s.epoch = epochOf s.saved.path
  sorted : c.mgr.Pairwise (fun a b => a.epoch < b.epoch)
  below : ∀ s ∈ c.mgr, s.epoch < epochOf c.g.path

theorem secOK_mono (g g' : GState) (hs : g'.secrets = g.secrets) (hp : g.path <+: g'.path) (h : SecOK g) : SecOK g' := by
  intro ep q hq
  rw [hs] at hq
  obtain ⟨h1, h2⟩ := h ep q hq
  exact ⟨h1, h2.trans hp⟩

theorem secOK_ensure (g : GState) (h : SecOK g) : SecOK (ensureSecret g) := by
  unfold ensureSecret
  split
  · exact h
  · intro ep q hq
    simp only at hq ⊢
    by_cases c : ep = epochOf g.path
    · subst c
      rw [alookup_ainsert_self] at hq
      cases hq
      exact ⟨rfl, List.prefix_refl _⟩
    · rw [alookup_ainsert_ne _ _ _ _ c] at hq
      exact h ep q hq

theorem mergeCommit_secrets_path (mp : Nat) (g : GState) (e : Ev) :
    (mergeCommit mp g e).secrets = g.secrets ∧ g.path <+: (mergeCommit mp g e).path ∧
    epochOf g.path ≤ epochOf (mergeCommit mp g e).path := by
  unfold mergeCommit
  split
  · rename_i b sw _
    cases b <;> simp [applyBody, epochOf]
  · exact ⟨rfl, List.prefix_refl _, Nat.le_refl _⟩

theorem secOK_merge (mp : Nat) (g : GState) (e : Ev) (h : SecOK g) : SecOK (mergeCommit mp g e) :=
  secOK_mono g _ (mergeCommit_secrets_path mp g e).1 (mergeCommit_secrets_path mp g e).2.1 h

theorem secOK_syncRec (g : GState) (h : SecOK g) : SecOK (syncRec g) := secOK_mono g _ rfl (List.prefix_refl _) h

theorem secOK_updLast (g : GState) (m t : Nat) (h : SecOK g) : SecOK (updLast g m t) := by
  unfold updLast
  split
  · exact secOK_mono g _ rfl (List.prefix_refl _) h
  · split
    · exact secOK_mono g _ rfl (List.prefix_refl _) h
    · exact h

theorem pendOK_of_eq (g g' : GState) (he : g'.pending = g.pending) (h : PendOK g) : PendOK g' := by
  intro p hp; rw [he] at hp; exact h p hp

theorem pendOK_none (g : GState) (he : g.pending = none) : PendOK g := by
  intro p hp; rw [he] at hp; cases hp

theorem pendOK_ensure (g : GState) (h : PendOK g) : PendOK (ensureSecret g) :=
  pendOK_of_eq g _ (ensureSecret_fields g).2.2.2.2.2.1 h

theorem pendOK_merge (mp : Nat) (g : GState) (e : Ev) (h : PendOK g) : PendOK (mergeCommit mp g e) := by
  unfold mergeCommit
  split
  · exact pendOK_none _ rfl
  · exact h

theorem pendOK_updLast (g : GState) (m t : Nat) (h : PendOK g) : PendOK (updLast g m t) := by
  unfold updLast
  split
  · exact pendOK_of_eq g _ rfl h
  · split
    · exact pendOK_of_eq g _ rfl h
    · exact h

theorem hinv_setRec (c : Cl) (n : Nat) (r : Rec) (h : HInv c) : HInv (setRec c n r) := ⟨h.sec, h.pend, h.saved, h.sorted, h.below⟩
theorem hinv_recordFailure (c : Cl) (n : Nat) (b : Bool) (e : Option Nat) (h : HInv c) : HInv (recordFailure c n b e) :=
  ⟨h.sec, h.pend, h.saved, h.sorted, h.below⟩

theorem hinv_g (c : Cl) (g' : GState) (h : HInv c) (hs : SecOK g') (hpd : PendOK g') (hp : epochOf c.g.path ≤ epochOf g'.path) :
    HInv { c with g := g' } :=
  ⟨hs, hpd, h.saved, h.sorted, fun s hm => Nat.lt_of_lt_of_le (h.below s hm) hp⟩

theorem hinv_withSecret (c : Cl) (h : HInv c) : HInv (withSecret c) :=
  hinv_g c _ h (secOK_ensure _ h.sec) (pendOK_ensure _ h.pend) (by rw [ensureSecret_path]; exact Nat.le_refl _)

/-- snapshot, then move to a state one or more epochs later -/
theorem hinv_mgrCreate_then (c : Cl) (e : Ev) (g' : GState) (h : HInv c) (hs : SecOK g') (hpd : PendOK g')
    (hp : epochOf c.g.path < epochOf g'.path) :
    HInv { mgrCreate c (epochOf c.g.path) e with g := g' } := by
  have hq : ∀ s ∈ c.mgr ++ [({ epoch := epochOf c.g.path, commit := e.idnum, ts := e.ts, saved := c.g } : Snap)],
      (SecOK s.saved ∧ PendOK s.saved ∧ s.epoch = epochOf s.saved.path) ∧ s.epoch < epochOf g'.path := by
    intro s hm
    rcases List.mem_append.mp hm with x | x
    · exact ⟨h.saved s x, Nat.lt_trans (h.below s x) hp⟩
    · simp at x; subst x; exact ⟨⟨h.sec, h.pend, rfl⟩, hp⟩
  have hsorted : (c.mgr ++ [({ epoch := epochOf c.g.path, commit := e.idnum, ts := e.ts, saved := c.g } : Snap)]).Pairwise
      (fun a b => a.epoch < b.epoch) := by
    apply List.pairwise_append.mpr
    refine ⟨h.sorted, List.pairwise_singleton _ _, ?_⟩
    intro a ha b hb
    simp at hb; subst hb
    exact h.below a ha
  refine ⟨hs, hpd, ?_, ?_, ?_⟩
  · intro s hm
    exact (hq s (List.mem_of_mem_drop hm)).1
  · exact hsorted.sublist (List.drop_sublist _ _)
  · intro s hm
    exact (hq s (List.mem_of_mem_drop hm)).2

theorem findIdx_spec (q : List Snap) (ep i : Nat) (h : findIdx q ep = some i) :
    ∃ s, q.drop i = s :: q.drop (i + 1) ∧ s.epoch = ep := by
  induction q generalizing i with
  | nil => simp [findIdx] at h
  | cons x t ih =>
    simp only [findIdx] at h
    by_cases c : (x.epoch == ep) = true
    · simp only [c, if_true, Option.some.injEq] at h
      subst h
      exact ⟨x, by simp, by simpa using c⟩
    · have c' : (x.epoch == ep) = false := by simpa using c
      simp only [c', Bool.false_eq_true, if_false] at h
      cases hj : findIdx t ep with
      | none => simp [hj] at h
      | some j =>
        simp only [hj, Option.map_some, Option.some.injEq] at h
        subst h
        obtain ⟨s, hs1, hs2⟩ := ih j hj
        exact ⟨s, by simpa using hs1, hs2⟩

theorem hinv_rollbackTo (c c1 : Cl) (ep : Nat) (h : HInv c) (hr : rollbackTo c ep = some c1) : HInv c1 := by
  unfold rollbackTo at hr
  split at hr
  · cases hr
  · rename_i i hi
    split at hr
    · cases hr
    · rename_i s rest hd
      cases hr
      have hs : s ∈ c.mgr := List.mem_of_mem_drop (by rw [hd]; simp)
      have hsplit : c.mgr = c.mgr.take i ++ s :: rest := by rw [← hd, List.take_append_drop]
      have hsorted := h.sorted
      rw [hsplit] at hsorted
      obtain ⟨h1, _, h3⟩ := List.pairwise_append.mp hsorted
      refine ⟨(h.saved s hs).1, (h.saved s hs).2.1, fun t ht => h.saved t (List.mem_of_mem_take ht), h1, ?_⟩
      intro t ht
      have := h3 t ht s List.mem_cons_self
      rw [(h.saved s hs).2.2] at this
      exact this

theorem hinv_returnOwnCommit (c : Cl) (h : HInv c) : HInv (returnOwnCommit c).1 :=
  hinv_g c _ h (secOK_syncRec _ h.sec) (pendOK_of_eq c.g _ rfl h.pend) (Nat.le_refl _)

theorem hinv_failUnprocessable (c : Cl) (e : Ev) (h : HInv c) : HInv (failUnprocessable c e).1 :=
  hinv_recordFailure c e.n true (some c.g.recEpoch) h

theorem hinv_notBetterResult (c : Cl) (e : Ev) (h : HInv c) : HInv (notBetterResult c e).1 := by
  unfold notBetterResult
  split
  · split
    · exact hinv_returnOwnCommit c h
    · exact hinv_failUnprocessable c e h
  · exact hinv_failUnprocessable c e h

theorem hinv_msgs (c : Cl) (ms : List MsgRow) (h : HInv c) : HInv { c with msgs := ms } := ⟨h.sec, h.pend, h.saved, h.sorted, h.below⟩

theorem hinv_ownMessage (c : Cl) (e : Ev) (h : HInv c) : HInv (ownMessage c e).1 := by
  unfold ownMessage
  repeat' split
  all_goals first | exact h | exact hinv_returnOwnCommit c h | exact hinv_setRec _ _ _ (hinv_msgs c _ h)

theorem hinv_storeApp (c : Cl) (e : Ev) (m t k : Nat) (h : HInv c) : HInv (storeApp c e m t k).1 := by
  unfold storeApp
  apply hinv_setRec
  exact ⟨secOK_updLast _ _ _ h.sec, pendOK_updLast _ _ _ h.pend, h.saved, h.sorted, fun s hs => by
    have : (updLast c.g m t).path = c.g.path := by unfold updLast; split <;> (try split) <;> rfl
    simp only [this]; exact h.below s hs⟩

theorem epoch_merge_lt (mp : Nat) (g : GState) (e : Ev) (b : Body) (sw : List Nat) (hk : e.kind = .commit b sw) :
    epochOf g.path < epochOf (syncRec (ensureSecret (mergeCommit mp g e))).path := by
  have : (mergeCommit mp g e).path = g.path ++ [e.cipher] := by
    unfold mergeCommit; rw [hk]
  simp only [syncRec, ensureSecret_path, this, epochOf, List.length_append, List.length_singleton]
  omega

theorem hinv_processCommit (c : Cl) (e : Ev) (b : Body) (sw : List Nat) (hk : e.kind = .commit b sw) (h : HInv c) :
    HInv (processCommit c e b sw).1 := by
  unfold processCommit
  split
  · exact hinv_recordFailure c e.n true (some c.g.recEpoch) h
  · split
    · -- eviction: the commit is merged (the path moves on), nothing else is touched
      apply hinv_setRec
      have hp : (mergeCommit c.maxPast c.g e).path = c.g.path ++ [e.cipher] := by
        unfold mergeCommit; rw [hk]
      exact hinv_mgrCreate_then c e _ h
        (secOK_mono (mergeCommit c.maxPast c.g e) _ rfl (List.prefix_refl _) (secOK_merge _ _ _ h.sec))
        (pendOK_of_eq (mergeCommit c.maxPast c.g e) _ rfl (pendOK_merge _ _ _ h.pend))
        (by show epochOf c.g.path < epochOf (mergeCommit c.maxPast c.g e).path
            rw [hp]; simp only [epochOf, List.length_append, List.length_singleton]; omega)
    · apply hinv_setRec
      exact hinv_mgrCreate_then c e _ h (secOK_syncRec _ (secOK_ensure _ (secOK_merge _ _ _ h.sec)))
        (pendOK_of_eq _ _ rfl (pendOK_ensure _ (pendOK_merge _ _ _ h.pend))) (epoch_merge_lt _ _ _ b sw hk)

theorem hinv_wrongEpochCommit (retry : Cl → Option (Cl × Res)) (c : Cl) (e : Ev) (ee : Nat) (h : HInv c)
    (hretry : ∀ c1 r, HInv c1 → retry c1 = some r → HInv r.1) : HInv (wrongEpochCommit retry c e ee).1 := by
  unfold wrongEpochCommit
  split
  · split
    · rename_i c1 hr
      split
      · rename_i r hrr
        exact hretry c1 r (hinv_rollbackTo c c1 ee h hr) hrr
      · exact hinv_notBetterResult c e h
    · exact hinv_notBetterResult c e h
  · exact hinv_notBetterResult c e h

theorem hinv_step1 (retry : Cl → Option (Cl × Res)) (nx : Nat) (c : Cl) (e : Ev) (h : HInv c)
    (hretry : ∀ c1 r, HInv c1 → retry c1 = some r → HInv r.1) : HInv (step1 retry nx c e).1 := by
  have hw := hinv_withSecret c h
  unfold step1
  split
  · exact hinv_recordFailure c e.n false none h
  · split
    · exact hinv_recordFailure c e.n true none h
    · simp only
      split
      · exact hinv_recordFailure (withSecret c) e.n true none hw
      · split
        · -- commit
          rename_i b sw hk
          split
          · exact hinv_wrongEpochCommit retry _ e _ hw hretry
          · split
            · split
              · rename_i p hp
                apply hinv_setRec
                -- OwnCommitPending: snapshot, then merge the pending commit (a commit event: `PendOK`)
                obtain ⟨pb, psw, hpk⟩ := hw.pend p hp
                have := hinv_mgrCreate_then (withSecret c) e
                  (syncRec (ensureSecret (mergeCommit (withSecret c).maxPast (withSecret c).g p))) hw
                  (secOK_syncRec _ (secOK_ensure _ (secOK_merge _ _ _ hw.sec)))
                  (pendOK_of_eq _ _ rfl (pendOK_ensure _ (pendOK_merge _ _ _ hw.pend))) (epoch_merge_lt _ _ _ pb psw hpk)
                exact this
              · exact hinv_ownMessage _ e hw
            · split
              · exact hinv_failUnprocessable _ e hw
              · exact hinv_processCommit _ e _ _ hk
                  (hinv_g _ _ hw (secOK_mono (withSecret c).g _ rfl (List.prefix_refl _) hw.sec)
                    (pendOK_of_eq (withSecret c).g _ rfl hw.pend) (Nat.le_refl _))
        · -- leave
          split
          · exact hinv_failUnprocessable _ e hw
          · split
            · exact hinv_ownMessage _ e hw
            · split
              · exact hinv_failUnprocessable _ e hw
              · split
                · apply hinv_setRec
                  apply hinv_g _ _ hw
                  · apply secOK_ensure
                    exact secOK_mono (withSecret c).g _ rfl (List.prefix_refl _) hw.sec
                  · apply pendOK_ensure
                    intro p hp
                    simp only [Option.some.injEq] at hp
                    subst hp
                    exact ⟨_, _, rfl⟩
                  · rw [ensureSecret_path]; exact Nat.le_refl _
                · apply hinv_setRec
                  exact hinv_g _ _ hw (secOK_mono (withSecret c).g _ rfl (List.prefix_refl _) hw.sec)
                    (pendOK_of_eq (withSecret c).g _ rfl hw.pend) (Nat.le_refl _)
        · -- app
          split
          · exact hinv_failUnprocessable _ e hw
          · split
            · exact hinv_failUnprocessable _ e hw
            · split
              · exact hinv_ownMessage _ e hw
              · split
                · exact hinv_failUnprocessable _ e hw
                · apply hinv_storeApp
                  exact hinv_g _ _ hw (secOK_mono (withSecret c).g _ rfl (List.prefix_refl _) hw.sec)
                    (pendOK_of_eq (withSecret c).g _ rfl hw.pend) (Nat.le_refl _)

theorem hinv_deliverOnce (retry : Cl → Option (Cl × Res)) (nx : Nat) (c : Cl) (e : Ev) (h : HInv c)
    (hretry : ∀ c1 r, HInv c1 → retry c1 = some r → HInv r.1) : HInv (deliverOnce retry nx c e).1 := by
  unfold deliverOnce
  split
  · split
    · exact h
    · exact hinv_step1 retry nx c e h hretry
  · exact hinv_step1 retry nx c e h hretry

theorem hinv_deliverN (fuel nx : Nat) (c : Cl) (e : Ev) (h : HInv c) : HInv (deliverN fuel nx c e).1 := by
  induction fuel generalizing c with
  | zero => exact hinv_deliverOnce _ nx c e h (by intro c1 r _ hr; cases hr)
  | succ f ih =>
    apply hinv_deliverOnce _ nx c e h
    intro c1 r hc1 hr
    cases hr
    exact ih c1 hc1

theorem hinv_send (c : Cl) (n ts idn mid mts tok : Nat) (h : HInv c) : HInv (send c n ts idn mid mts tok).1 := by
  unfold send
  split
  · exact h
  · split
    · exact h
    · split
      · exact h
      · apply hinv_setRec
        have hp : (updLast (ensureSecret c.g) mid mts).path = c.g.path := by
          unfold updLast; split <;> (try split) <;> simp
        exact ⟨secOK_updLast _ _ _ (secOK_ensure _ h.sec), pendOK_updLast _ _ _ (pendOK_ensure _ h.pend), h.saved, h.sorted,
          fun s hs => by simp only [hp]; exact h.below s hs⟩

theorem hinv_stageCommit (c : Cl) (n ts idn : Nat) (b : Body) (na : Bool) (h : HInv c) : HInv (stageCommit c n ts idn b na).1 := by
  unfold stageCommit
  repeat' split
  all_goals first
    | exact h
    | (apply hinv_setRec
       refine hinv_g c _ h (secOK_mono (ensureSecret c.g) _ rfl (List.prefix_refl _) (secOK_ensure _ h.sec)) ?_ (by simp [Nat.le_refl])
       intro p hp
       simp only [Option.some.injEq] at hp
       subst hp
       exact ⟨_, _, rfl⟩)

theorem hinv_updateData (c : Cl) (n ts idn : Nat) (u : DataUpd) (h : HInv c) : HInv (updateData c n ts idn u).1 := by
  unfold updateData
  repeat' split
  all_goals first | exact h | exact hinv_stageCommit c n ts idn _ true h

theorem hinv_removeMembers (c : Cl) (n ts idn : Nat) (who : List Nat) (h : HInv c) : HInv (removeMembers c n ts idn who).1 := by
  unfold removeMembers
  repeat' split
  all_goals first | exact h | exact hinv_stageCommit c n ts idn _ true h

theorem hinv_addMembers (c : Cl) (n ts idn : Nat) (who : List Nat) (h : HInv c) : HInv (addMembers c n ts idn who).1 := by
  unfold addMembers
  repeat' split
  all_goals first | exact h | exact hinv_stageCommit c n ts idn _ true h

theorem hinv_join (c : Cl) (mp : Nat) (g : GState) (e : Ev) (h : HInv c) : HInv (join c (welcomeState mp g e)) := by
  unfold join
  split
  · exact h
  · exact {
      sec := by intro ep q hq; simp [welcomeState, joinState, syncRec, alookup] at hq
      pend := pendOK_none _ (by simp [welcomeState, joinState])
      saved := by intro s hs; simp at hs
      sorted := List.Pairwise.nil
      below := by intro s hs; simp at hs }

theorem hinv_leave (c : Cl) (n ts idn : Nat) (h : HInv c) : HInv (leave c n ts idn).1 := by
  unfold leave
  split
  · exact h
  · split
    · exact h
    · split
      · exact h
      · apply hinv_setRec
        exact hinv_g c _ h (secOK_mono (ensureSecret c.g) _ rfl (List.prefix_refl _) (secOK_ensure _ h.sec))
          (pendOK_of_eq (ensureSecret c.g) _ rfl (pendOK_ensure _ h.pend)) (by simp [Nat.le_refl])

theorem hinv_merge (c : Cl) (h : HInv c) : HInv (merge c).1 := by
  unfold merge
  split
  · exact h
  · split
    · exact h
    · split
      · exact hinv_g c _ h (secOK_syncRec _ (secOK_merge _ _ _ h.sec)) (pendOK_of_eq _ _ rfl (pendOK_merge _ _ _ h.pend))
          (mergeCommit_secrets_path _ _ _).2.2
      · exact hinv_g c _ h (secOK_syncRec _ h.sec) (pendOK_of_eq c.g _ rfl h.pend) (Nat.le_refl _)

theorem hinv_clear (c : Cl) (h : HInv c) : HInv (clear c).1 := by
  unfold clear
  split
  · exact h
  · exact hinv_g c _ h (secOK_mono c.g _ rfl (List.prefix_refl _) h.sec) (pendOK_none _ rfl) (Nat.le_refl _)

theorem hinv_restart (c : Cl) (h : HInv c) : HInv (restart c).1 := by
  unfold restart
  split
  · refine ⟨h.sec, h.pend, ?_, ?_, ?_⟩
    · intro s hs
      simp only [List.mem_map] at hs
      obtain ⟨t, ht, rfl⟩ := hs
      exact h.saved t ht
    · exact List.Pairwise.map _ (fun a b hab => hab) h.sorted
    · intro s hs
      simp only [List.mem_map] at hs
      obtain ⟨t, ht, rfl⟩ := hs
      exact h.below t ht
  · exact h

theorem hinv_init (id : Nat) (p : Bool) (r : Nat) (ms as : List Nat) (name : Nat) : HInv (initCl id p r ms as name) where
  sec := by intro ep q hq; simp [initCl, initG, alookup] at hq
  pend := pendOK_none _ rfl
  saved := by intro s hs; simp [initCl] at hs
  sorted := by simp [initCl]
  below := by intro s hs; simp [initCl] at hs

end MdkVerif.Client
