import MdkVerif.Model.Store
/- helper lemmas about the store model's association lists, row filters and group lists -/
namespace MdkVerif.Store
open MdkVerif List

theorem alookup_ainsert_self {α : Type} (k : Nat) (v : α) (l : List (Nat × α)) :
    alookup k (ainsert k v l) = some v := by
  induction l with
  | nil => simp [ainsert, alookup]
  | cons h t ih =>
    obtain ⟨k', v'⟩ := h
    by_cases c : k' = k
    · simp [ainsert, alookup, c]
    · simp [ainsert, alookup, c, ih]

theorem alookup_ainsert_ne {α : Type} (k k2 : Nat) (v : α) (l : List (Nat × α)) (h : k2 ≠ k) :
    alookup k2 (ainsert k v l) = alookup k2 l := by
  induction l with
  | nil => simp [ainsert, alookup, Ne.symm h]
  | cons hd t ih =>
    obtain ⟨k', v'⟩ := hd
    by_cases c : k' = k
    · subst c; simp [ainsert, alookup, Ne.symm h]
    · by_cases c2 : k' = k2
      · subst c2; simp [ainsert, alookup, c]
      · simp [ainsert, alookup, c, c2, ih]

theorem alookup_aerase_self {α : Type} (k : Nat) (l : List (Nat × α)) : alookup k (aerase k l) = none := by
  induction l with
  | nil => simp [aerase, alookup]
  | cons hd t ih =>
    obtain ⟨k', v'⟩ := hd
    simp only [aerase] at ih ⊢
    by_cases c : k' = k
    · subst c; simpa [List.filter_cons] using ih
    · simp [List.filter_cons, c, alookup, ih]

theorem alookup_aerase_ne {α : Type} (k k2 : Nat) (l : List (Nat × α)) (h : k2 ≠ k) :
    alookup k2 (aerase k l) = alookup k2 l := by
  induction l with
  | nil => simp [aerase, alookup]
  | cons hd t ih =>
    obtain ⟨k', v'⟩ := hd
    simp only [aerase] at ih ⊢
    by_cases c : k' = k
    · subst c; simp [List.filter_cons, alookup, Ne.symm h, ih]
    · by_cases c2 : k' = k2
      · subst c2; simp [List.filter_cons, c, alookup]
      · simp [List.filter_cons, c, alookup, c2, ih]

theorem find_replaceGroup_self (g : Group) (l : List Group) :
    (replaceGroup g l).find? (·.gid == g.gid) = some g := by
  induction l with
  | nil => simp [replaceGroup]
  | cons h t ih =>
    by_cases c : h.gid = g.gid
    · simp [replaceGroup, c]
    · simp [replaceGroup, c, ih]

theorem find_replaceGroup_ne (g : Group) (l : List Group) (k : Nat) (hk : k ≠ g.gid) :
    (replaceGroup g l).find? (·.gid == k) = l.find? (·.gid == k) := by
  induction l with
  | nil => simp [replaceGroup, Ne.symm hk]
  | cons h t ih =>
    by_cases c : h.gid = g.gid
    · have : ¬ h.gid = k := by omega
      simp [replaceGroup, c, Ne.symm hk, this]
    · by_cases c2 : h.gid = k
      · subst c2; simp [replaceGroup, c]
      · simp [replaceGroup, c, c2, ih]

theorem find_filter_ne_self (l : List Group) (gid : Nat) :
    (l.filter (·.gid != gid)).find? (·.gid == gid) = none := by
  apply List.find?_eq_none.mpr; intro a ha; simp at ha; simp [ha.2]

theorem find_filter_ne_other (l : List Group) (gid k : Nat) (hk : k ≠ gid) :
    (l.filter (·.gid != gid)).find? (·.gid == k) = l.find? (·.gid == k) := by
  induction l with
  | nil => simp
  | cons h t ih =>
    by_cases c : h.gid = gid
    · subst c
      have : (h.gid == k) = false := by simp; omega
      simp [List.filter_cons, ih, List.find?_cons, this]
    · by_cases c2 : h.gid = k
      · subst c2; simp [List.filter_cons, c]
      · simp [List.filter_cons, c, c2, ih]

theorem rows_restore_self (rows : List (Nat × Nat × Nat)) (gid : Nat) (kv : List (Nat × Nat)) :
    ((rows.filter (·.1 != gid) ++ kv.map (fun x => (gid, x.1, x.2))).filter (·.1 == gid)).map (·.2) = kv := by
  rw [List.filter_append]
  have h1 : (rows.filter (·.1 != gid)).filter (·.1 == gid) = [] := by
    rw [List.filter_filter]; apply List.filter_eq_nil_iff.mpr; intro a _; simp
  have h2 : (kv.map (fun x => (gid, x.1, x.2))).filter (·.1 == gid) = kv.map (fun x => (gid, x.1, x.2)) := by
    apply List.filter_eq_self.mpr; intro a ha; simp at ha; obtain ⟨_, _, _, rfl⟩ := ha; simp
  rw [h1, h2]; simp [Function.comp_def]

theorem rows_restore_ne (rows : List (Nat × Nat × Nat)) (gid k : Nat) (kv : List (Nat × Nat)) (hk : k ≠ gid) :
    ((rows.filter (·.1 != gid) ++ kv.map (fun x => (gid, x.1, x.2))).filter (·.1 == k)) = rows.filter (·.1 == k) := by
  rw [List.filter_append]
  have h2 : (kv.map (fun x => (gid, x.1, x.2))).filter (·.1 == k) = [] := by
    apply List.filter_eq_nil_iff.mpr; intro a ha; simp at ha; obtain ⟨_, _, _, rfl⟩ := ha; simp; omega
  rw [h2, List.append_nil, List.filter_filter]
  apply List.filter_congr; intro a _
  by_cases c : a.1 = k <;> simp [c]; omega

theorem findGroup_gid {s : Store} {gid : Nat} {g : Group} (h : findGroup s gid = some g) : g.gid = gid := by
  unfold findGroup at h
  have := List.find?_some h
  simpa using this

theorem findSnap_spec {s : Store} {gid name : Nat} {p : Snap} (h : findSnap s gid name = some p) :
    p ∈ s.snaps ∧ p.gid = gid ∧ p.name = name := by
  unfold findSnap at h
  have h1 := List.find?_some h
  have h2 := List.mem_of_find?_eq_some h
  simp at h1
  exact ⟨h2, h1.1, h1.2⟩

theorem okErr_snaps (o : Option Store) (s : Store) (h : ∀ s', o = some s' → s'.snaps = s.snaps) :
    (okErr o s).1.snaps = s.snaps := by
  cases o with
  | none => rfl
  | some s' => exact h s' rfl

theorem saveGroup_snaps (s s' : Store) (g : Group) (h : saveGroup s g = some s') : s'.snaps = s.snaps := by
  unfold saveGroup at h
  repeat' split at h
  all_goals (cases h <;> rfl)
theorem saveMessage_snaps (s s' : Store) (m : Msg) (h : saveMessage s m = some s') : s'.snaps = s.snaps := by
  unfold saveMessage at h
  repeat' split at h
  all_goals (cases h <;> rfl)
theorem markRetryable_snaps (s s' : Store) (w : Nat) (h : markRetryable s w = some s') : s'.snaps = s.snaps := by
  unfold markRetryable at h
  repeat' split at h
  all_goals (cases h <;> rfl)
theorem replaceRelays_snaps (s s' : Store) (g : Nat) (rs : List Nat) (h : replaceRelays s g rs = some s') : s'.snaps = s.snaps := by
  unfold replaceRelays at h
  dsimp only at h
  repeat' split at h
  all_goals (cases h <;> rfl)
theorem saveSecret_snaps (s s' : Store) (g e v : Nat) (h : saveSecret s g e v = some s') : s'.snaps = s.snaps := by
  unfold saveSecret at h
  repeat' split at h
  all_goals (cases h <;> rfl)
theorem saveWelcome_snaps (s s' : Store) (w : Welcome) (h : saveWelcome s w = some s') : s'.snaps = s.snaps := by
  unfold saveWelcome at h
  repeat' split at h
  all_goals (cases h <;> rfl)
theorem updLastOp_snaps (s : Store) (g : Nat) (k : Nat × Nat × Nat) : (updLastOp s g k).1.snaps = s.snaps := by
  unfold updLastOp
  split
  · rfl
  · split
    · rename_i h; exact saveGroup_snaps _ _ _ h
    · rfl

/-- non-snapshot operations never touch the snapshot table -/
theorem step_snaps (s : Store) (op : Op) :
    (step s op).1.snaps = s.snaps ∨
    (∃ gid name ts, op = .snapCreate gid name ts) ∨ (∃ gid name, op = .snapRollback gid name) ∨
    (∃ gid name, op = .snapRelease gid name) ∨ (∃ t, op = .snapPrune t) := by
  cases op <;> simp only [step]
  case saveGroup g => exact Or.inl (okErr_snaps _ _ (fun s' h => saveGroup_snaps s s' g h))
  case saveMessage m => exact Or.inl (okErr_snaps _ _ (fun s' h => saveMessage_snaps s s' m h))
  case markRetryable w => exact Or.inl (okErr_snaps _ _ (fun s' h => markRetryable_snaps s s' w h))
  case replaceRelays g rs => exact Or.inl (okErr_snaps _ _ (fun s' h => replaceRelays_snaps s s' g rs h))
  case saveSecret g e v => exact Or.inl (okErr_snaps _ _ (fun s' h => saveSecret_snaps s s' g e v h))
  case saveWelcome w => exact Or.inl (okErr_snaps _ _ (fun s' h => saveWelcome_snaps s s' w h))
  case updLast g c p i => exact Or.inl (updLastOp_snaps s g _)
  case snapCreate g n t => exact Or.inr (Or.inl ⟨g, n, t, rfl⟩)
  case snapRollback g n => exact Or.inr (Or.inr (Or.inl ⟨g, n, rfl⟩))
  case snapRelease g n => exact Or.inr (Or.inr (Or.inr (Or.inl ⟨g, n, rfl⟩)))
  case snapPrune t => exact Or.inr (Or.inr (Or.inr (Or.inr ⟨t, rfl⟩)))
  all_goals first | exact Or.inl rfl | exact Or.inl trivial | simp

end MdkVerif.Store
