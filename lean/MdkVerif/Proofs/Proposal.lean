import MdkVerif.Model.Client
import MdkVerif.Model.Proposal
import MdkVerif.Proofs.Client
/- helper lemmas about Model.Proposal: what each building block does to the proposal store; the invariant
   "only members' own requests to leave are queued" over all client operations; agreement with Model.Client -/
namespace MdkVerif.Proposal
open MdkVerif MdkVerif.Client

/-! ### field lemmas -/

@[simp] theorem ensureSecret_xq (g : GState) : (ensureSecret g).xq = g.xq := by
  unfold ensureSecret; split <;> simp
@[simp] theorem ensureSecret_pending' (g : GState) : (ensureSecret g).pending = g.pending := (ensureSecret_fields g).2.2.2.2.2.1
@[simp] theorem withSecret_xq (c : Cl) : (withSecret c).g.xq = c.g.xq := ensureSecret_xq c.g
@[simp] theorem updLast_xq (g : GState) (m t : Nat) : (updLast g m t).xq = g.xq := by
  unfold updLast; split; · rfl
  · split <;> rfl
@[simp] theorem updLast_props (g : GState) (m t : Nat) : (updLast g m t).props = g.props := by
  unfold updLast; split; · rfl
  · split <;> rfl
@[simp] theorem updLast_pending (g : GState) (m t : Nat) : (updLast g m t).pending = g.pending := by
  unfold updLast; split; · rfl
  · split <;> rfl

theorem applyX_nil (m : List Nat) : applyX m [] = m := by
  simp [applyX, xTargets, xAdds]

/-- a merged commit empties the store and the pending commit; anything else leaves the state alone -/
theorem mergeCommitP_store (mp : Nat) (g : GState) (e : Ev) :
    ((mergeCommitP mp g e).xq = [] ∧ (mergeCommitP mp g e).props = [] ∧ (mergeCommitP mp g e).pending = none) ∨
    mergeCommitP mp g e = g := by
  unfold mergeCommitP mergeCommit
  cases e.kind <;> simp

@[simp] theorem mergeCommitP_active (mp : Nat) (g : GState) (e : Ev) : (mergeCommitP mp g e).active = g.active := by
  unfold mergeCommitP mergeCommit
  cases e.kind with
  | commit b sw => cases b <;> simp [applyBody]
  | app a b c => simp
  | leave => simp

theorem mergeCommitP_eq (mp : Nat) (g : GState) (e : Ev) (h : e.sweptX = []) : mergeCommitP mp g e = mergeCommit mp g e := by
  unfold mergeCommitP
  cases hk : e.kind <;> simp [h, applyX_nil]

/-! ### "only members' own requests to leave are queued" -/

/-- `L`: the members that have asked to leave (sent a Remove proposal for their own leaf).  Nothing but leaves of such
    members is queued, and a staged own commit references nothing else -/
def SelfOnly (L : Nat → Prop) (g : GState) : Prop :=
  g.xq = [] ∧ (∀ m ∈ g.props, L m) ∧
  ∀ e, g.pending = some e → e.sweptX = [] ∧ ∀ b sw, e.kind = .commit b sw → ∀ m ∈ sw, L m

/-- … now and in every state a rollback can restore -/
def PropsSelfOnly (L : Nat → Prop) (c : Cl) : Prop := SelfOnly L c.g ∧ ∀ s ∈ c.mgr, SelfOnly L s.saved

theorem selfOnly_of_eq {L : Nat → Prop} (g g' : GState) (h : SelfOnly L g)
    (h1 : g'.xq = g.xq) (h2 : g'.props = g.props) (h3 : g'.pending = g.pending) : SelfOnly L g' := by
  unfold SelfOnly at *; rw [h1, h2, h3]; exact h

theorem selfOnly_ensureSecret {L : Nat → Prop} (g : GState) (h : SelfOnly L g) : SelfOnly L (ensureSecret g) :=
  selfOnly_of_eq g _ h (by simp) (by simp) (by simp)

theorem selfOnly_syncRec {L : Nat → Prop} (g : GState) (h : SelfOnly L g) : SelfOnly L (syncRec g) :=
  selfOnly_of_eq g _ h rfl rfl rfl

theorem selfOnly_updLast {L : Nat → Prop} (g : GState) (m t : Nat) (h : SelfOnly L g) : SelfOnly L (updLast g m t) :=
  selfOnly_of_eq g _ h (by simp) (by simp) (by simp)

theorem selfOnly_cleared {L : Nat → Prop} (g : GState) (h1 : g.xq = []) (h2 : g.props = []) (h3 : g.pending = none) : SelfOnly L g := by
  refine ⟨h1, ?_, ?_⟩
  · intro m hm; rw [h2] at hm; cases hm
  · intro e he; rw [h3] at he; cases he

theorem selfOnly_mergeCommitP {L : Nat → Prop} (mp : Nat) (g : GState) (e : Ev) (h : SelfOnly L g) :
    SelfOnly L (mergeCommitP mp g e) := by
  rcases mergeCommitP_store mp g e with ⟨h1, h2, h3⟩ | h0
  · exact selfOnly_cleared _ h1 h2 h3
  · rw [h0]; exact h

theorem pso_setRec {L : Nat → Prop} (c : Cl) (n : Nat) (r : Rec) (h : PropsSelfOnly L c) : PropsSelfOnly L (setRec c n r) := h
theorem pso_recordFailure {L : Nat → Prop} (c : Cl) (n : Nat) (b : Bool) (e : Option Nat) (h : PropsSelfOnly L c) :
    PropsSelfOnly L (recordFailure c n b e) := h
theorem pso_withSecret {L : Nat → Prop} (c : Cl) (h : PropsSelfOnly L c) : PropsSelfOnly L (withSecret c) :=
  ⟨selfOnly_ensureSecret c.g h.1, h.2⟩

theorem pso_mgrCreate {L : Nat → Prop} (c : Cl) (ep : Nat) (e : Ev) (h : PropsSelfOnly L c) : PropsSelfOnly L (mgrCreate c ep e) := by
  refine ⟨h.1, ?_⟩
  intro s hs'
  simp only [mgrCreate] at hs'
  have := List.mem_of_mem_drop hs'
  rcases List.mem_append.mp this with hm | hm
  · exact h.2 s hm
  · simp at hm; subst hm; exact h.1

theorem pso_rollbackTo {L : Nat → Prop} (c c1 : Cl) (ep : Nat) (h : PropsSelfOnly L c) (hr : rollbackTo c ep = some c1) :
    PropsSelfOnly L c1 := by
  unfold rollbackTo at hr
  split at hr
  · cases hr
  · rename_i i _
    split at hr
    · cases hr
    · rename_i s rest hd
      cases hr
      have hs : s ∈ c.mgr := List.mem_of_mem_drop (by rw [hd]; simp)
      exact ⟨h.2 s hs, fun t ht => h.2 t (List.mem_of_mem_take ht)⟩

theorem pso_returnOwnCommit {L : Nat → Prop} (c : Cl) (h : PropsSelfOnly L c) : PropsSelfOnly L (returnOwnCommit c).1 :=
  ⟨selfOnly_syncRec c.g h.1, h.2⟩

theorem pso_failUnprocessable {L : Nat → Prop} (c : Cl) (e : Ev) (h : PropsSelfOnly L c) : PropsSelfOnly L (failUnprocessable c e).1 := h

theorem pso_notBetterResult {L : Nat → Prop} (c : Cl) (e : Ev) (h : PropsSelfOnly L c) : PropsSelfOnly L (notBetterResult c e).1 := by
  unfold notBetterResult
  split
  · split
    · exact pso_returnOwnCommit c h
    · exact h
  · exact h

theorem pso_ownMessage {L : Nat → Prop} (c : Cl) (e : Ev) (h : PropsSelfOnly L c) : PropsSelfOnly L (ownMessage c e).1 := by
  unfold ownMessage
  repeat' split
  all_goals first | exact h | exact pso_returnOwnCommit c h | exact ⟨h.1, h.2⟩

theorem pso_storeApp {L : Nat → Prop} (c : Cl) (e : Ev) (m t k : Nat) (h : PropsSelfOnly L c) : PropsSelfOnly L (storeApp c e m t k).1 :=
  ⟨selfOnly_updLast c.g m t h.1, h.2⟩

/-- consuming a ratchet generation does not touch the store -/
def consumeG (c : Cl) (x : Nat) : Cl := { c with g := { c.g with consumed := x :: c.g.consumed } }
theorem pso_consume {L : Nat → Prop} (c : Cl) (x : Nat) (h : PropsSelfOnly L c) : PropsSelfOnly L (consumeG c x) :=
  ⟨selfOnly_of_eq c.g _ h.1 rfl rfl rfl, h.2⟩

theorem pso_processCommitP {L : Nat → Prop} (c : Cl) (e : Ev) (b : Body) (sw : List Nat) (h : PropsSelfOnly L c) :
    PropsSelfOnly L (processCommitP c e b sw).1 := by
  have hm := pso_mgrCreate c (epochOf c.g.path) e h
  have hg : (mgrCreate c (epochOf c.g.path) e).g = c.g := rfl
  have hmerge : SelfOnly L (mergeCommitP c.maxPast c.g e) := selfOnly_mergeCommitP _ _ _ h.1
  unfold processCommitP
  split
  · exact h
  · simp only [hg]
    split
    · refine ⟨?_, hm.2⟩
      show SelfOnly L { mergeCommitP c.maxPast c.g e with active := false, props := c.g.props, xq := c.g.xq }
      refine ⟨h.1.1, h.1.2.1, ?_⟩
      intro e' he'
      have he2 : (mergeCommitP c.maxPast c.g e).pending = some e' := he'
      exact hmerge.2.2 e' he2
    · exact ⟨selfOnly_syncRec _ (selfOnly_ensureSecret _ hmerge), hm.2⟩

theorem pso_wrongEpochCommit {L : Nat → Prop} (retry : Cl → Option (Cl × Res)) (c : Cl) (e : Ev) (ee : Nat) (h : PropsSelfOnly L c)
    (hretry : ∀ c1 r, PropsSelfOnly L c1 → retry c1 = some r → PropsSelfOnly L r.1) : PropsSelfOnly L (wrongEpochCommit retry c e ee).1 := by
  unfold wrongEpochCommit
  split
  · split
    · rename_i c1 hr
      split
      · rename_i r hrr
        exact hretry c1 r (pso_rollbackTo c c1 ee h hr) hrr
      · exact pso_notBetterResult c e h
    · exact pso_notBetterResult c e h
  · exact pso_notBetterResult c e h

/-- a proposal that mdk's own API can have produced, or that `process_proposal` does not store as somebody else's request:
    NOT a Remove of another member, NOT an Add -/
def Honest (x : PEv) : Prop := ∀ p, x.prop = some p → (∀ t, p = .remove t → t = x.e.sender) ∧ ∀ w, p ≠ .add w

/-- … and a Remove of the sender itself comes from somebody who has asked to leave -/
def LeaverIn (L : Nat → Prop) (x : PEv) : Prop := propKind x = some (.remove x.e.sender) → L x.e.sender

theorem selfOnly_storeLeave {L : Nat → Prop} (g : GState) (s : Nat) (h : SelfOnly L g) (hs : L s) :
    SelfOnly L (storeProp g s (.remove s)) := by
  simp only [storeProp, beq_self_eq_true, if_true]
  refine ⟨h.1, ?_, h.2.2⟩
  intro m hm
  have : m ∈ s :: g.props := by simpa using hm
  rcases List.mem_cons.mp this with rfl | hm'
  · exact hs
  · exact h.2.1 m hm'

theorem pso_processProposal {L : Nat → Prop} (nx : Nat) (c : Cl) (e : Ev) (p : PK) (h : PropsSelfOnly L c)
    (hh : (∀ t, p = .remove t → t = e.sender ∧ L e.sender) ∧ ∀ w, p ≠ .add w) : PropsSelfOnly L (processProposal nx c e p).1 := by
  unfold processProposal
  cases p with
  | update => exact h
  | gce => exact h
  | other => exact h
  | add w => exact absurd rfl (hh.2 w)
  | remove t =>
    obtain ⟨ht, hL⟩ := hh.1 t rfl
    subst ht
    have hst := selfOnly_storeLeave c.g e.sender h.1 hL
    simp only
    split
    · split
      · split <;> exact ⟨hst, h.2⟩
      · refine ⟨?_, h.2⟩
        show SelfOnly L (ensureSecret { storeProp c.g e.sender (.remove e.sender) with pending := some (autoCommitEv c (storeProp c.g e.sender (.remove e.sender)) nx) })
        apply selfOnly_ensureSecret
        refine ⟨hst.1, hst.2.1, ?_⟩
        intro e' he'
        have : e' = autoCommitEv c (storeProp c.g e.sender (.remove e.sender)) nx := by
          have := he'; simp at this; exact this.symm
        subst this
        refine ⟨hst.1, ?_⟩
        intro b sw hk m hm
        simp only [autoCommitEv, Kind.commit.injEq] at hk
        obtain ⟨_, rfl⟩ := hk
        exact hst.2.1 m hm
    · exact ⟨hst, h.2⟩

theorem propKind_honest {L : Nat → Prop} (x : PEv) (p : PK) (hx : Honest x) (hl : LeaverIn L x) (hp : propKind x = some p) :
    (∀ t, p = .remove t → t = x.e.sender ∧ L x.e.sender) ∧ ∀ w, p ≠ .add w := by
  unfold propKind at hp
  cases hpr : x.prop with
  | some q =>
    rw [hpr] at hp
    have : q = p := by simpa using hp
    subst this
    refine ⟨?_, (hx q hpr).2⟩
    intro t ht
    have hts := (hx q hpr).1 t ht
    subst hts
    refine ⟨rfl, hl ?_⟩
    unfold propKind; rw [hpr, ht]
  | none =>
    rw [hpr] at hp
    cases hk : x.e.kind with
    | leave =>
      rw [hk] at hp
      have : PK.remove x.e.sender = p := by simpa using hp
      subst this
      refine ⟨?_, by intro w hw; cases hw⟩
      intro t ht
      have : x.e.sender = t := by simpa using ht
      subst this
      refine ⟨rfl, hl ?_⟩
      unfold propKind; rw [hpr, hk]
    | app a b c' => rw [hk] at hp; cases hp
    | commit b sw => rw [hk] at hp; cases hp

theorem pso_step1P {L : Nat → Prop} (retry : Cl → Option (Cl × Res)) (nx : Nat) (c : Cl) (x : PEv) (h : PropsSelfOnly L c)
    (hx : Honest x) (hl : LeaverIn L x)
    (hretry : ∀ c1 r, PropsSelfOnly L c1 → retry c1 = some r → PropsSelfOnly L r.1) : PropsSelfOnly L (step1P retry nx c x).1 := by
  have hw := pso_withSecret c h
  unfold step1P
  simp only
  split
  · exact h
  · split
    · exact h
    · split
      · exact hw
      · split
        · rename_i p hp
          split
          · exact hw
          · split
            · exact pso_ownMessage _ _ hw
            · split
              · exact hw
              · exact pso_processProposal nx _ _ p (pso_consume (withSecret c) x.e.cipher hw) (propKind_honest x p hx hl hp)
        · split
          · -- commit
            split
            · exact pso_wrongEpochCommit retry _ _ _ hw hretry
            · split
              · split
                · have hm := pso_mgrCreate (withSecret c) (epochOf (withSecret c).g.path) x.e hw
                  exact ⟨selfOnly_syncRec _ (selfOnly_ensureSecret _ (selfOnly_mergeCommitP _ _ _ hw.1)), hm.2⟩
                · exact pso_ownMessage _ _ hw
              · split
                · exact hw
                · split
                  · exact pso_consume (withSecret c) x.e.cipher hw
                  · exact pso_processCommitP _ _ _ _ (pso_consume (withSecret c) x.e.cipher hw)
          · exact hw
          · -- app
            split
            · exact hw
            · split
              · exact hw
              · split
                · exact pso_ownMessage _ _ hw
                · split
                  · exact hw
                  · exact pso_storeApp _ _ _ _ _ (pso_consume (withSecret c) x.e.cipher hw)

theorem pso_deliverOnceP {L : Nat → Prop} (retry : Cl → Option (Cl × Res)) (nx : Nat) (c : Cl) (x : PEv) (h : PropsSelfOnly L c)
    (hx : Honest x) (hl : LeaverIn L x)
    (hretry : ∀ c1 r, PropsSelfOnly L c1 → retry c1 = some r → PropsSelfOnly L r.1) : PropsSelfOnly L (deliverOnceP retry nx c x).1 := by
  unfold deliverOnceP
  split
  · split
    · exact h
    · exact pso_step1P retry nx c x h hx hl hretry
  · exact pso_step1P retry nx c x h hx hl hretry

theorem pso_deliverNP {L : Nat → Prop} (fuel nx : Nat) (c : Cl) (x : PEv) (h : PropsSelfOnly L c) (hx : Honest x) (hl : LeaverIn L x) :
    PropsSelfOnly L (deliverNP fuel nx c x).1 := by
  induction fuel generalizing c with
  | zero => exact pso_deliverOnceP _ nx c x h hx hl (by intro c1 r _ hr; cases hr)
  | succ f ih =>
    apply pso_deliverOnceP _ nx c x h hx hl
    intro c1 r h1 hr
    have : r = deliverNP f nx c1 x := by simpa using hr.symm
    subst this
    exact ih c1 h1

/-! ### local operations -/

theorem pso_send {L : Nat → Prop} (c : Cl) (n ts idn mid mts tok : Nat) (h : PropsSelfOnly L c) : PropsSelfOnly L (send c n ts idn mid mts tok).1 := by
  unfold send
  split
  · exact h
  · split
    · exact h
    · split
      · exact h
      · exact ⟨selfOnly_updLast _ _ _ (selfOnly_ensureSecret _ h.1), h.2⟩

theorem pso_sendP {L : Nat → Prop} (c : Cl) (n ts idn mid mts tok : Nat) (h : PropsSelfOnly L c) : PropsSelfOnly L (sendP c n ts idn mid mts tok).1 := by
  unfold sendP
  split
  · exact h
  · split
    · exact h
    · split
      · exact h
      · exact pso_send c n ts idn mid mts tok h

/-- what a commit staged by the client's own operation references: exactly the queued leaves, nothing foreign -/
theorem stageCommitP_ev {L : Nat → Prop} (c : Cl) (n ts idn : Nat) (b : Body) (na : Bool) (e : Ev) (h : PropsSelfOnly L c)
    (hr : (stageCommitP c n ts idn b na).2 = .ev e) :
    e.kind = .commit b c.g.props ∧ e.sweptX = [] ∧ (∀ m ∈ c.g.props, L m) ∧ e.sender = c.id ∧ c.g.pending = none := by
  unfold stageCommitP at hr
  split at hr
  · cases hr
  · split at hr
    · cases hr
    · split at hr
      · cases hr
      · split at hr
        · cases hr
        · rename_i _ _ _ hp
          simp only at hr
          split at hr
          · cases hr
          · injection hr with hr; subst hr
            refine ⟨by simp, by simpa using h.1.1, h.1.2.1, rfl, ?_⟩
            cases hpc : c.g.pending with
            | none => rfl
            | some pe => rw [hpc] at hp; simp at hp

theorem pso_stageCommitP {L : Nat → Prop} (c : Cl) (n ts idn : Nat) (b : Body) (na : Bool) (h : PropsSelfOnly L c) :
    PropsSelfOnly L (stageCommitP c n ts idn b na).1 := by
  unfold stageCommitP
  split
  · exact h
  · split
    · exact h
    · split
      · exact h
      · split
        · exact h
        · have hst : SelfOnly L { ensureSecret c.g with pending := some { n := n, ts := ts, idnum := idn, cipher := n, sender := c.id, path := (ensureSecret c.g).path, kind := .commit b (ensureSecret c.g).props, tag := (ensureSecret c.g).recNid, sweptX := (ensureSecret c.g).xq } } := by
            refine ⟨by simpa using h.1.1, by simpa using h.1.2.1, ?_⟩
            intro e' he'
            injection he' with he'
            subst he'
            refine ⟨by simpa using h.1.1, ?_⟩
            intro b' sw hk m hm
            simp only [Kind.commit.injEq] at hk
            obtain ⟨_, rfl⟩ := hk
            exact h.1.2.1 m (by simpa using hm)
          simp only
          split
          · exact ⟨hst, h.2⟩
          · exact ⟨hst, h.2⟩

theorem pso_updateDataP {L : Nat → Prop} (c : Cl) (n ts idn : Nat) (u : DataUpd) (h : PropsSelfOnly L c) : PropsSelfOnly L (updateDataP c n ts idn u).1 := by
  unfold updateDataP
  split
  · exact h
  · split
    · exact h
    · exact pso_stageCommitP c n ts idn _ true h

theorem pso_removeMembersP {L : Nat → Prop} (c : Cl) (n ts idn : Nat) (who : List Nat) (h : PropsSelfOnly L c) : PropsSelfOnly L (removeMembersP c n ts idn who).1 := by
  unfold removeMembersP
  repeat' split
  all_goals first | exact h | exact pso_stageCommitP c n ts idn _ true h

theorem pso_addMembersP {L : Nat → Prop} (c : Cl) (n ts idn : Nat) (who : List Nat) (h : PropsSelfOnly L c) : PropsSelfOnly L (addMembersP c n ts idn who).1 := by
  unfold addMembersP
  repeat' split
  all_goals first | exact h | exact pso_stageCommitP c n ts idn _ true h

theorem pso_leave {L : Nat → Prop} (c : Cl) (n ts idn : Nat) (h : PropsSelfOnly L c) (hl : L c.id) : PropsSelfOnly L (leave c n ts idn).1 := by
  unfold leave
  split
  · exact h
  · split
    · exact h
    · split
      · exact h
      · refine ⟨?_, h.2⟩
        have he := selfOnly_ensureSecret c.g h.1
        show SelfOnly L { ensureSecret c.g with props := (c.id :: (ensureSecret c.g).props).eraseDups }
        refine ⟨he.1, ?_, he.2.2⟩
        intro m hm
        have : m ∈ c.id :: (ensureSecret c.g).props := by simpa using hm
        rcases List.mem_cons.mp this with rfl | hm'
        · exact hl
        · exact he.2.1 m hm'

theorem pso_mergeP {L : Nat → Prop} (c : Cl) (h : PropsSelfOnly L c) : PropsSelfOnly L (mergeP c).1 := by
  unfold mergeP
  split
  · exact h
  · split
    · exact h
    · split
      · exact ⟨selfOnly_syncRec _ (selfOnly_mergeCommitP _ _ _ h.1), h.2⟩
      · exact ⟨selfOnly_syncRec _ h.1, h.2⟩

theorem pso_clear {L : Nat → Prop} (c : Cl) (h : PropsSelfOnly L c) : PropsSelfOnly L (clear c).1 := by
  unfold clear
  split
  · exact h
  · refine ⟨⟨h.1.1, h.1.2.1, ?_⟩, h.2⟩
    intro e he; cases he

theorem pso_restart {L : Nat → Prop} (c : Cl) (h : PropsSelfOnly L c) : PropsSelfOnly L (restart c).1 := by
  unfold restart
  split
  · refine ⟨h.1, ?_⟩
    intro s hs
    simp only [List.mem_map] at hs
    obtain ⟨s0, hs0, rfl⟩ := hs
    exact h.2 s0 hs0
  · exact h

theorem pso_join {L : Nat → Prop} (c : Cl) (g : GState) (h : PropsSelfOnly L c) (hg : SelfOnly L g) : PropsSelfOnly L (join c g) := by
  unfold join
  split
  · exact h
  · exact ⟨hg, by intro s hs; cases hs⟩

theorem selfOnly_welcomeStateP {L : Nat → Prop} (mp : Nat) (g : GState) (e : Ev) : SelfOnly L (welcomeStateP mp g e) :=
  selfOnly_cleared _ rfl rfl rfl

theorem pso_init {L : Nat → Prop} (id : Nat) (p : Bool) (r : Nat) (ms as : List Nat) (name : Nat) : PropsSelfOnly L (initCl id p r ms as name) :=
  ⟨selfOnly_cleared _ rfl rfl rfl, by intro s hs; cases hs⟩

/-! ### agreement with `Model.Client`: on events that reference no queued proposal and are not proposals, and at clients
    whose staged commits reference nothing foreign, `Model.Proposal` IS `Model.Client` -/

/-- staged own commits — now and in every state a rollback can restore — reference nothing foreign -/
def PendClean (c : Cl) : Prop :=
  (∀ e, c.g.pending = some e → e.sweptX = []) ∧ ∀ s ∈ c.mgr, ∀ e, s.saved.pending = some e → e.sweptX = []

/-- an application message, or a commit that references no queued proposal and does not remove the receiver `me` -/
def OldKind (me : Nat) (e : Ev) : Prop :=
  e.sweptX = [] ∧ match e.kind with
    | .app _ _ _ => True
    | .commit b sw => sw = [] ∧ removesMe me b [] = false
    | .leave => False

theorem pendClean_withSecret (c : Cl) (h : PendClean c) : PendClean (withSecret c) :=
  ⟨by intro e he; exact h.1 e (by simpa [withSecret] using he), h.2⟩

theorem pendClean_rollbackTo (c c1 : Cl) (ep : Nat) (h : PendClean c) (hr : rollbackTo c ep = some c1) : PendClean c1 ∧ c1.id = c.id := by
  unfold rollbackTo at hr
  split at hr
  · cases hr
  · rename_i i _
    split at hr
    · cases hr
    · rename_i s rest hd
      cases hr
      have hs : s ∈ c.mgr := List.mem_of_mem_drop (by rw [hd]; simp)
      exact ⟨⟨h.2 s hs, fun t ht => h.2 t (List.mem_of_mem_take ht)⟩, rfl⟩

theorem wrongEpochCommit_congr (r1 r2 : Cl → Option (Cl × Res)) (c : Cl) (e : Ev) (ee : Nat)
    (h : ∀ c1, rollbackTo c ee = some c1 → r1 c1 = r2 c1) : wrongEpochCommit r1 c e ee = wrongEpochCommit r2 c e ee := by
  unfold wrongEpochCommit
  split
  · split
    · rename_i c1 hr
      rw [h c1 hr]
    · rfl
  · rfl

theorem processCommitP_eq (c : Cl) (e : Ev) (b : Body) (hx : e.sweptX = []) (hme : removesMe c.id b [] = false) :
    processCommitP c e b [] = processCommit c e b [] := by
  unfold processCommitP processCommit
  have h1 : isPureSelfUpdateP b [] e.sweptX = isPureSelfUpdate b [] := by simp [isPureSelfUpdateP, hx]
  have h2 : removesMeP c.id b [] e.sweptX = false := by simp [removesMeP, hx, hme, xTargets]
  have h3 : ∀ g, mergeCommitP c.maxPast g e = mergeCommit c.maxPast g e := fun g => mergeCommitP_eq _ g e hx
  simp only [h1, h2, h3, hme]
  rfl

theorem step1P_agrees (r1 r2 : Cl → Option (Cl × Res)) (nx : Nat) (c : Cl) (e : Ev) (hc : PendClean c) (hk : OldKind c.id e)
    (hr : ∀ c1, PendClean c1 → c1.id = c.id → r1 c1 = r2 c1) : step1P r1 nx c { e := e } = step1 r2 nx c e := by
  obtain ⟨hx, hkind⟩ := hk
  have hw := pendClean_withSecret c hc
  unfold step1P step1
  simp only
  split
  · rfl
  · split
    · rfl
    · split
      · rfl
      · cases hk : e.kind with
        | leave => rw [hk] at hkind; exact absurd hkind (by simp)
        | app m t k => simp only [propKind, hk]
        | commit b sw =>
          rw [hk] at hkind
          obtain ⟨hsw, hme⟩ := hkind
          subst hsw
          simp only [propKind, hk]
          split
          · apply wrongEpochCommit_congr
            intro c1 h1
            obtain ⟨hp1, hid1⟩ := pendClean_rollbackTo _ c1 _ hw h1
            exact hr c1 hp1 (by rw [hid1]; rfl)
          · split
            · cases hpc : (withSecret c).g.pending with
              | none => rfl
              | some pc =>
                have : pc.sweptX = [] := hw.1 pc hpc
                simp only [mgrCreate, mergeCommitP_eq _ _ pc this]
            · split
              · rfl
              · have hh : holdsRefs (withSecret c).g [] e.sweptX = true := by simp [holdsRefs, hx]
                simp only [hh, Bool.not_true, Bool.false_eq_true, if_false]
                exact processCommitP_eq _ e b hx hme

/-- **`Model.Proposal` agrees with `Model.Client`** — for every client whose staged commits reference nothing foreign, every
    application message and every commit that references no queued proposal and does not remove the receiver, every fuel:
    `deliverNP` and `deliverN` give the same result and the same state (through rollbacks and re-processing) -/
theorem deliverNP_agrees (fuel nx : Nat) (c : Cl) (e : Ev) (hc : PendClean c) (hk : OldKind c.id e) :
    deliverNP fuel nx c { e := e } = deliverN fuel nx c e := by
  induction fuel generalizing c with
  | zero =>
    simp only [deliverNP, deliverN, deliverOnceP, deliverOnce]
    rw [step1P_agrees (fun _ => none) (fun _ => none) nx c e hc hk (fun _ _ _ => rfl)]
    rfl
  | succ f ih =>
    simp only [deliverNP, deliverN, deliverOnceP, deliverOnce]
    rw [step1P_agrees (fun c1 => some (deliverNP f nx c1 { e := e })) (fun c1 => some (deliverN f nx c1 e)) nx c e hc hk
      (fun c1 h1 hid => by rw [ih c1 h1 (by rw [hid]; exact hk)])]
    rfl

/-- a member's own leave at a receiver that is NOT an admin: queued exactly as `Model.Client` says -/
theorem step1P_leave_nonadmin (r1 r2 : Cl → Option (Cl × Res)) (nx : Nat) (c : Cl) (e : Ev) (hk : e.kind = .leave)
    (hna : isAdmin c.g c.id = false) : step1P r1 nx c { e := e } = step1 r2 nx c e := by
  have ha : isAdmin (withSecret c).g (withSecret c).id = false := by simpa [isAdmin] using hna
  unfold step1P step1
  simp only [propKind, hk]
  split
  · rfl
  · split
    · rfl
    · split
      · rfl
      · split
        · rfl
        · split
          · rfl
          · split
            · rfl
            · have ha' : isAdmin (withSecret c).g c.id = false := ha
              simp [processProposal, storeProp, isAdmin] at ha' ⊢
              simp [isAdmin, ha']

/-- the local operations: with nothing foreign queued (and no own removal queued) they are `Model.Client`'s -/
theorem stageCommitP_agrees (c : Cl) (n ts idn : Nat) (b : Body) (na : Bool) (hx : c.g.xq = []) (hs : c.g.props.contains c.id = false) :
    stageCommitP c n ts idn b na = stageCommit c n ts idn b na := by
  have hs' : c.id ∉ c.g.props := by simpa using hs
  have hsr : storeRemoves c.g c.id = false := by simp [storeRemoves, hs', hx, xTargets]
  have hw : welcomeRefused b [] = false := by simp [welcomeRefused, xAdds]
  unfold stageCommitP stageCommit
  simp only [hsr, Bool.or_false, ensureSecret_xq, hx, hw, Bool.false_eq_true, if_false]

theorem sendP_agrees (c : Cl) (n ts idn mid mts tok : Nat) (hx : c.g.xq = []) : sendP c n ts idn mid mts tok = send c n ts idn mid mts tok := by
  unfold sendP send
  simp only [storeEmpty, hx, List.isEmpty_nil, Bool.and_true]
  repeat' split
  all_goals first | rfl | (rename_i h1 h2; simp_all)

theorem mergeP_agrees (c : Cl) (h : PendClean c) : mergeP c = merge c := by
  unfold mergeP merge
  split
  · rfl
  · split
    · rfl
    · cases hp : c.g.pending with
      | none => rfl
      | some p => simp only [mergeCommitP_eq _ _ p (h.1 p hp)]

/-! ### `Proposal(UpdateGroupResult)` comes out of `process_proposal` only -/

theorem ownMessage_res (c : Cl) (e ne : Ev) : (ownMessage c e).2 ≠ .proposalCommitted ne := by
  unfold ownMessage
  repeat' split
  all_goals (intro h; simp [returnOwnCommit] at h)

theorem notBetterResult_res (c : Cl) (e ne : Ev) : (notBetterResult c e).2 ≠ .proposalCommitted ne := by
  unfold notBetterResult
  repeat' split
  all_goals (intro h; simp [returnOwnCommit, failUnprocessable] at h)

theorem processCommitP_res (c : Cl) (e : Ev) (b : Body) (sw : List Nat) (ne : Ev) : (processCommitP c e b sw).2 ≠ .proposalCommitted ne := by
  unfold processCommitP
  repeat' split
  all_goals (intro h; simp at h)

/-- one pass: `Proposal(UpdateGroupResult)` comes out of `process_proposal` only -/
theorem step1P_committed (retry : Cl → Option (Cl × Res)) (nx : Nat) (c : Cl) (x : PEv) (ne : Ev)
    (hretry : ∀ c1 r, retry c1 = some r → r.2 = .proposalCommitted ne → propKind x ≠ none)
    (h : (step1P retry nx c x).2 = .proposalCommitted ne) :
    ∃ p, propKind x = some p ∧ c.g.active = true ∧
      (processProposal nx { withSecret c with g := { (withSecret c).g with consumed := x.e.cipher :: (withSecret c).g.consumed } } x.e p).2 = .proposalCommitted ne := by
  unfold step1P at h
  simp only at h
  split at h
  · simp at h
  · split at h
    · simp at h
    · rename_i _ hact
      split at h
      · simp at h
      · split at h
        · rename_i p hp
          split at h
          · simp [failUnprocessable] at h
          · split at h
            · exact absurd h (ownMessage_res _ _ _)
            · split at h
              · simp [failUnprocessable] at h
              · exact ⟨p, hp, by simpa using hact, h⟩
        · rename_i hp
          split at h
          · -- a commit: whatever comes back from the re-processing is the same (non-proposal) event's result
            split at h
            · unfold wrongEpochCommit at h
              split at h
              · split at h
                · split at h
                  · rename_i c1 _ _ r hr
                    exact absurd hp (hretry c1 r hr h)
                  · exact absurd h (notBetterResult_res _ _ _)
                · exact absurd h (notBetterResult_res _ _ _)
              · exact absurd h (notBetterResult_res _ _ _)
            · split at h
              · split at h
                · simp at h
                · exact absurd h (ownMessage_res _ _ _)
              · split at h
                · simp [failUnprocessable] at h
                · split at h
                  · simp [failUnprocessable] at h
                  · exact absurd h (processCommitP_res _ _ _ _ _)
          · simp [failUnprocessable] at h
          · split at h
            · simp [failUnprocessable] at h
            · split at h
              · simp [failUnprocessable] at h
              · split at h
                · exact absurd h (ownMessage_res _ _ _)
                · split at h
                  · simp [failUnprocessable] at h
                  · simp [storeApp] at h


end MdkVerif.Proposal
