import MdkVerif.Model.Client
import MdkVerif.Proofs.Client
import MdkVerif.Proofs.Store
import MdkVerif.Proofs.RestartSim
import MdkVerif.Props.C08
/-
  MdkVerif.Proofs.Insert — C07 / C06 lifted to histories: INSERTING a delivery that "changes nothing" (a re-delivery
  of a handled event, a refused event) into any operation sequence.

  One such delivery leaves the observable projection `proj` alone (`C07.redeliver_frame`, `C06.refuse_frame_partial`)
  but it may touch three parts of the client that `proj` does not show:
    (a) the exporter-secret cache — `exporter_secret()` stores the CURRENT epoch's secret as a side effect of trying it;
    (b) the dedup record of the delivered event number (a `Failed` record is written or rewritten);
    (c) the consumed ratchet generations — a commit refused by the authorisation check (`NonAdmin`) was decrypted first.
  `Eqv S W X c c'` says: `c'` is `c` up to exactly that —
    * secrets: equal, or no own commit is pending and the tables are equal once the current epoch's secret is ensured
      (every operation that reads the table ensures it first; the only one that changes the epoch without ensuring,
      `merge_pending_commit`, needs a pending commit, and staging one ensures);
    * records: equal per event number, except numbers in `S` whose record in `c'` is `Stuck` (Failed / EpochInvalidated
      with an epoch: blocked by the dedup check for ever) and numbers in `W` (anything);
    * consumed generations: equal as sets outside the ciphertexts `X`;
    * snapshots: same epochs, commits, timestamps, saved states related in the same way.
  Every client operation is a simulation for `Eqv` (equal results, relation kept), deliveries provided the event
  number's records agree, its number is not in `W` and its ciphertext not in `X`.
-/
namespace MdkVerif.Client.Ins
open MdkVerif MdkVerif.Client
open MdkVerif.Store (alookup_ainsert_self alookup_ainsert_ne)

/-! ## the exporter-secret table -/

/-- `exporter_secret()` on the raw table: store the secret of the state `p` under its epoch number unless one is stored -/
def ens (p : Path) (s : List (Nat × Path)) : List (Nat × Path) :=
  match alookup (epochOf p) s with
  | some _ => s
  | none => ainsert (epochOf p) p s

theorem ensureSecret_eq (g : GState) : ensureSecret g = { g with secrets := ens g.path g.secrets } := by
  unfold ensureSecret ens
  split <;> rename_i h <;> simp only [h]

theorem ensureSecret_secrets (g : GState) : (ensureSecret g).secrets = ens g.path g.secrets := by
  rw [ensureSecret_eq]

theorem ens_idem (p : Path) (s : List (Nat × Path)) : ens p (ens p s) = ens p s := by
  unfold ens
  cases h : alookup (epochOf p) s with
  | some v => simp only [h]
  | none => simp only [alookup_ainsert_self]

/-- the current epoch's secret is stored -/
def HasCur (g : GState) : Prop := (alookup (epochOf g.path) g.secrets).isSome = true

instance (g : GState) : Decidable (HasCur g) := by unfold HasCur; infer_instance

theorem ens_of_hasCur (p : Path) (s : List (Nat × Path)) (h : (alookup (epochOf p) s).isSome = true) : ens p s = s := by
  unfold ens
  cases hh : alookup (epochOf p) s with
  | some v => rfl
  | none => rw [hh] at h; cases h

theorem hasCur_ensureSecret (g : GState) : HasCur (ensureSecret g) := by
  unfold HasCur ensureSecret
  cases h : alookup (epochOf g.path) g.secrets with
  | some v => simp [h]
  | none => simp [alookup_ainsert_self]

/-- the secret tables of two runs: equal, or — no commit pending — equal after `exporter_secret()` -/
def SecRel (p : Path) (pend : Option Ev) (s s' : List (Nat × Path)) : Prop :=
  s' = s ∨ (pend = none ∧ ens p s' = ens p s)

theorem SecRel.refl (p : Path) (pend : Option Ev) (s : List (Nat × Path)) : SecRel p pend s s := Or.inl rfl

theorem SecRel.symm {p : Path} {pend : Option Ev} {s s' : List (Nat × Path)} (h : SecRel p pend s s') : SecRel p pend s' s := by
  rcases h with h | ⟨h1, h2⟩
  · exact Or.inl h.symm
  · exact Or.inr ⟨h1, h2.symm⟩

theorem SecRel.trans {p : Path} {pend : Option Ev} {s s' s'' : List (Nat × Path)}
    (h : SecRel p pend s s') (h' : SecRel p pend s' s'') : SecRel p pend s s'' := by
  rcases h with h | ⟨h1, h2⟩
  · subst h; exact h'
  · rcases h' with h' | ⟨_, h2'⟩
    · subst h'; exact Or.inr ⟨h1, h2⟩
    · exact Or.inr ⟨h1, h2'.trans h2⟩

theorem SecRel.ens_eq {p : Path} {pend : Option Ev} {s s' : List (Nat × Path)} (h : SecRel p pend s s') : ens p s' = ens p s := by
  rcases h with h | ⟨_, h2⟩
  · rw [h]
  · exact h2

/-- after `exporter_secret()` on one side only -/
theorem SecRel.ens_right {p : Path} {pend : Option Ev} {s : List (Nat × Path)}
    (h : pend.isSome = true → (alookup (epochOf p) s).isSome = true) : SecRel p pend s (ens p s) := by
  cases hp : pend with
  | none => exact Or.inr ⟨rfl, ens_idem p s⟩
  | some e => exact Or.inl (ens_of_hasCur p s (h (by simp [hp])))

/-! ## consumed generations, dedup records -/

/-- the consumed lists agree, as sets, outside the ciphertexts `X` -/
def ConsRel (X : List Nat) (k k' : List Nat) : Prop := ∀ x, x ∉ X → k'.contains x = k.contains x

theorem ConsRel.refl (X : List Nat) (k : List Nat) : ConsRel X k k := fun _ _ => rfl
theorem ConsRel.symm {X k k' : List Nat} (h : ConsRel X k k') : ConsRel X k' k := fun x hx => (h x hx).symm
theorem ConsRel.trans {X k k' k'' : List Nat} (h : ConsRel X k k') (h' : ConsRel X k' k'') : ConsRel X k k'' :=
  fun x hx => (h' x hx).trans (h x hx)
theorem ConsRel.mono {X X' k k' : List Nat} (h : ConsRel X k k') (hX : ∀ x, x ∈ X → x ∈ X') : ConsRel X' k k' :=
  fun x hx => h x (fun hm => hx (hX x hm))
theorem ConsRel.cons {X k k' : List Nat} (h : ConsRel X k k') (y : Nat) : ConsRel X (y :: k) (y :: k') := by
  intro x hx
  simp only [List.contains_cons, h x hx]
/-- one side consumed a ciphertext of `X` -/
theorem ConsRel.cons_right {X k k' : List Nat} (h : ConsRel X k k') (y : Nat) (hy : y ∈ X) : ConsRel X k (y :: k') := by
  intro x hx
  have : (x == y) = false := by
    cases hxy : x == y with
    | false => rfl
    | true => exact absurd (by rw [beq_iff_eq.mp hxy]; exact hy) hx
  simp only [List.contains_cons, this, Bool.false_or, h x hx]

/-- a record that blocks its event for ever: Failed / EpochInvalidated with an epoch (a rollback can turn Failed into
    EpochInvalidated, never into Retryable) -/
def Stuck (o : Option Rec) : Prop := ∃ r, o = some r ∧ (r.state = 3 ∨ r.state = 4) ∧ r.epoch.isSome = true

/-- records of the two runs, per event number -/
def RecRel (S W : List Nat) (r r' : List (Nat × Rec)) : Prop :=
  ∀ n, alookup n r' = alookup n r ∨ (n ∈ S ∧ Stuck (alookup n r')) ∨ n ∈ W

theorem RecRel.refl (S W : List Nat) (r : List (Nat × Rec)) : RecRel S W r r := fun _ => Or.inl rfl

theorem RecRel.trans {S W : List Nat} {r r' r'' : List (Nat × Rec)} (h : RecRel S W r r') (h' : RecRel S W r' r'') :
    RecRel S W r r'' := by
  intro n
  rcases h' n with e2 | ⟨hs, hst⟩ | hw
  · rcases h n with e1 | ⟨hs, hst⟩ | hw
    · exact Or.inl (e2.trans e1)
    · exact Or.inr (Or.inl ⟨hs, by rw [e2]; exact hst⟩)
    · exact Or.inr (Or.inr hw)
  · exact Or.inr (Or.inl ⟨hs, hst⟩)
  · exact Or.inr (Or.inr hw)

theorem RecRel.mono {S W S' W' : List Nat} {r r' : List (Nat × Rec)} (h : RecRel S W r r')
    (hS : ∀ x, x ∈ S → x ∈ S') (hW : ∀ x, x ∈ W → x ∈ W') : RecRel S' W' r r' := by
  intro n
  rcases h n with e | ⟨hs, hst⟩ | hw
  · exact Or.inl e
  · exact Or.inr (Or.inl ⟨hS n hs, hst⟩)
  · exact Or.inr (Or.inr (hW n hw))

theorem alookup_map_key {α : Type} (f : Nat × α → Nat × α) (F : α → α) (hF : ∀ p, f p = (p.1, F p.2)) (n : Nat)
    (l : List (Nat × α)) : alookup n (l.map f) = (alookup n l).map F := by
  induction l with
  | nil => rfl
  | cons h t ih =>
    obtain ⟨k, v⟩ := h
    simp only [List.map_cons, hF]
    by_cases c : k = n <;> simp [alookup, c, ih]

theorem ite_pair' {α : Type} (c : Prop) [Decidable c] (p : Nat × α) (a : α) :
    (if c then (p.1, a) else p) = (p.1, if c then a else p.2) := by split <;> rfl

theorem alookup_ainsert (k n : Nat) (v : Rec) (l : List (Nat × Rec)) :
    alookup n (ainsert k v l) = if n = k then some v else alookup n l := by
  by_cases h : n = k
  · subst h; simp [alookup_ainsert_self]
  · simp [h, alookup_ainsert_ne _ _ _ _ h]

/-- both runs write the same record under `k` -/
theorem RecRel.ainsert {S W : List Nat} {r r' : List (Nat × Rec)} (h : RecRel S W r r') (k : Nat) (v : Rec) :
    RecRel S W (ainsert k v r) (ainsert k v r') := by
  intro n
  rw [alookup_ainsert, alookup_ainsert]
  by_cases hn : n = k
  · simp [hn]
  · simp only [hn, if_false]; exact h n

/-- the re-marking of records by a rollback (`rollbackTo`), per record: records of later epochs become
    EpochInvalidated, then Failed records without an epoch become Retryable -/
def later (epoch : Nat) (r : Rec) : Bool :=
  match r.epoch with
  | some k => k > epoch
  | none => false
def mark1 (epoch : Nat) (r : Rec) : Rec :=
  if r.hasGroup && later epoch r then { r with state := 4 } else r
def mark2 (r : Rec) : Rec :=
  if r.hasGroup && r.state == 3 && r.epoch.isNone then { r with state := 5 } else r
def rbMark (epoch : Nat) (r : Rec) : Rec := mark2 (mark1 epoch r)

def rbRecs (epoch : Nat) (recs : List (Nat × Rec)) : List (Nat × Rec) :=
  (recs.map (fun (p : Nat × Rec) =>
    let r := p.2
    if r.hasGroup && (match r.epoch with | some k => k > epoch | none => false) then (p.1, { r with state := 4 })
    else p)).map (fun (p : Nat × Rec) =>
    let r := p.2
    if r.hasGroup && r.state == 3 && r.epoch.isNone then (p.1, { r with state := 5 }) else p)

theorem alookup_rbRecs (epoch n : Nat) (recs : List (Nat × Rec)) :
    alookup n (rbRecs epoch recs) = (alookup n recs).map (rbMark epoch) := by
  unfold rbRecs
  rw [alookup_map_key _ mark2 (by intro p; exact ite_pair' _ p _),
      alookup_map_key _ (mark1 epoch) (by intro p; exact ite_pair' _ p _)]
  cases alookup n recs with
  | none => rfl
  | some r => rfl

theorem mark1_epoch (epoch : Nat) (r : Rec) : (mark1 epoch r).epoch = r.epoch := by unfold mark1; split <;> rfl
theorem mark2_epoch (r : Rec) : (mark2 r).epoch = r.epoch := by unfold mark2; split <;> rfl
theorem mark1_state (epoch : Nat) (r : Rec) (h : r.state = 3 ∨ r.state = 4) : (mark1 epoch r).state = 3 ∨ (mark1 epoch r).state = 4 := by
  unfold mark1; split
  · exact Or.inr rfl
  · exact h
theorem mark2_state (r : Rec) (h : r.state = 3 ∨ r.state = 4) (he : r.epoch.isSome = true) : (mark2 r).state = 3 ∨ (mark2 r).state = 4 := by
  unfold mark2
  have hn : r.epoch.isNone = false := by
    cases hh : r.epoch with
    | none => rw [hh] at he; cases he
    | some k => rfl
  simp only [hn, Bool.and_false, Bool.false_eq_true, if_false]
  exact h

theorem stuck_rbMark (epoch : Nat) (o : Option Rec) (h : Stuck o) : Stuck (o.map (rbMark epoch)) := by
  obtain ⟨r, rfl, hs, he⟩ := h
  refine ⟨rbMark epoch r, rfl, ?_, ?_⟩
  · exact mark2_state _ (mark1_state epoch r hs) (by rw [mark1_epoch]; exact he)
  · unfold rbMark; rw [mark2_epoch, mark1_epoch]; exact he

theorem RecRel.rb {S W : List Nat} {r r' : List (Nat × Rec)} (h : RecRel S W r r') (epoch : Nat) :
    RecRel S W (rbRecs epoch r) (rbRecs epoch r') := by
  intro n
  rw [alookup_rbRecs, alookup_rbRecs]
  rcases h n with e | ⟨hs, hst⟩ | hw
  · exact Or.inl (by rw [e])
  · exact Or.inr (Or.inl ⟨hs, stuck_rbMark epoch _ hst⟩)
  · exact Or.inr (Or.inr hw)

/-! ## group states, snapshots, clients -/

/-- `g` with another secret table and another consumed list -/
def wg (g : GState) (s : List (Nat × Path)) (k : List Nat) : GState := { g with secrets := s, consumed := k }

def GRel (X : List Nat) (g g' : GState) : Prop :=
  ∃ s k, g' = wg g s k ∧ SecRel g.path g.pending g.secrets s ∧ ConsRel X g.consumed k

theorem GRel.refl (X : List Nat) (g : GState) : GRel X g g := ⟨g.secrets, g.consumed, rfl, SecRel.refl _ _ _, ConsRel.refl _ _⟩

theorem GRel.symm {X : List Nat} {g g' : GState} (h : GRel X g g') : GRel X g' g := by
  obtain ⟨s, k, rfl, hs, hk⟩ := h
  exact ⟨g.secrets, g.consumed, rfl, hs.symm, hk.symm⟩

theorem GRel.trans {X : List Nat} {g g' g'' : GState} (h : GRel X g g') (h' : GRel X g' g'') : GRel X g g'' := by
  obtain ⟨s, k, rfl, hs, hk⟩ := h
  obtain ⟨s', k', rfl, hs', hk'⟩ := h'
  exact ⟨s', k', rfl, hs.trans hs', hk.trans hk'⟩

theorem GRel.mono {X X' : List Nat} {g g' : GState} (h : GRel X g g') (hX : ∀ x, x ∈ X → x ∈ X') : GRel X' g g' := by
  obtain ⟨s, k, rfl, hs, hk⟩ := h
  exact ⟨s, k, rfl, hs, hk.mono hX⟩

/-- snapshot entries: same epoch, commit, timestamp; saved states related -/
def SRel (X : List Nat) (s s' : Snap) : Prop :=
  s'.epoch = s.epoch ∧ s'.commit = s.commit ∧ s'.ts = s.ts ∧ GRel X s.saved s'.saved

inductive MRel (X : List Nat) : List Snap → List Snap → Prop
  | nil : MRel X [] []
  | cons {s s' : Snap} {m m' : List Snap} : SRel X s s' → MRel X m m' → MRel X (s :: m) (s' :: m')

theorem SRel.refl (X : List Nat) (s : Snap) : SRel X s s := ⟨rfl, rfl, rfl, GRel.refl _ _⟩
theorem SRel.symm {X : List Nat} {s s' : Snap} (h : SRel X s s') : SRel X s' s :=
  ⟨h.1.symm, h.2.1.symm, h.2.2.1.symm, h.2.2.2.symm⟩
theorem SRel.trans {X : List Nat} {s s' s'' : Snap} (h : SRel X s s') (h' : SRel X s' s'') : SRel X s s'' :=
  ⟨h'.1.trans h.1, h'.2.1.trans h.2.1, h'.2.2.1.trans h.2.2.1, h.2.2.2.trans h'.2.2.2⟩
theorem SRel.mono {X X' : List Nat} {s s' : Snap} (h : SRel X s s') (hX : ∀ x, x ∈ X → x ∈ X') : SRel X' s s' :=
  ⟨h.1, h.2.1, h.2.2.1, h.2.2.2.mono hX⟩

theorem MRel.refl (X : List Nat) : ∀ m : List Snap, MRel X m m
  | [] => .nil
  | s :: m => .cons (SRel.refl X s) (MRel.refl X m)

theorem MRel.eq_nil {X : List Nat} {m' : List Snap} (h : MRel X [] m') : m' = [] := by cases h; rfl

theorem MRel.cons_inv {X : List Nat} {s : Snap} {t m' : List Snap} (h : MRel X (s :: t) m') :
    ∃ s' t', m' = s' :: t' ∧ SRel X s s' ∧ MRel X t t' := by
  cases h with
  | cons hs ht => exact ⟨_, _, rfl, hs, ht⟩

theorem MRel.symm {X : List Nat} {m m' : List Snap} (h : MRel X m m') : MRel X m' m := by
  induction h with
  | nil => exact .nil
  | cons hs _ ih => exact .cons hs.symm ih

theorem MRel.trans {X : List Nat} {m m' m'' : List Snap} (h : MRel X m m') (h' : MRel X m' m'') : MRel X m m'' := by
  induction h generalizing m'' with
  | nil => rw [h'.eq_nil]; exact .nil
  | cons hs _ ih =>
    obtain ⟨s'', t'', rfl, hs', ht'⟩ := h'.cons_inv
    exact .cons (hs.trans hs') (ih ht')

theorem MRel.mono {X X' : List Nat} {m m' : List Snap} (h : MRel X m m') (hX : ∀ x, x ∈ X → x ∈ X') : MRel X' m m' := by
  induction h with
  | nil => exact .nil
  | cons hs _ ih => exact .cons (hs.mono hX) ih

theorem MRel.length_eq {X : List Nat} {m m' : List Snap} (h : MRel X m m') : m'.length = m.length := by
  induction h with
  | nil => rfl
  | cons _ _ ih => simp [ih]

theorem MRel.append {X : List Nat} {a a' b b' : List Snap} (h1 : MRel X a a') (h2 : MRel X b b') : MRel X (a ++ b) (a' ++ b') := by
  induction h1 with
  | nil => exact h2
  | cons hs _ ih => exact .cons hs ih

theorem MRel.drop {X : List Nat} {m m' : List Snap} (h : MRel X m m') : ∀ k, MRel X (m.drop k) (m'.drop k) := by
  induction h with
  | nil => intro k; simp; exact .nil
  | cons hs hm ih =>
    intro k
    cases k with
    | zero => exact .cons hs hm
    | succ k => simpa using ih k

theorem MRel.take {X : List Nat} {m m' : List Snap} (h : MRel X m m') : ∀ k, MRel X (m.take k) (m'.take k) := by
  induction h with
  | nil => intro k; simp; exact .nil
  | cons hs hm ih =>
    intro k
    cases k with
    | zero => exact .nil
    | succ k => simpa using .cons hs (ih k)

theorem MRel.zero {X : List Nat} {m m' : List Snap} (h : MRel X m m') :
    MRel X (m.map (fun s => { s with ts := 0 })) (m'.map (fun s => { s with ts := 0 })) := by
  induction h with
  | nil => exact .nil
  | cons hs _ ih => exact .cons ⟨hs.1, hs.2.1, rfl, hs.2.2.2⟩ ih

theorem MRel.findIdx_eq {X : List Nat} {m m' : List Snap} (h : MRel X m m') (ep : Nat) : findIdx m' ep = findIdx m ep := by
  induction h with
  | nil => rfl
  | cons hs _ ih => simp only [findIdx, hs.1, ih]

theorem MRel.find_rel {X : List Nat} {m m' : List Snap} (h : MRel X m m') (ep : Nat) :
    (m.find? (·.epoch == ep) = none ∧ m'.find? (·.epoch == ep) = none) ∨
    ∃ s s', m.find? (·.epoch == ep) = some s ∧ m'.find? (·.epoch == ep) = some s' ∧ SRel X s s' := by
  induction h with
  | nil => left; exact ⟨rfl, rfl⟩
  | @cons s s' m m' hs _ ih =>
    by_cases he : (s.epoch == ep) = true
    · right
      refine ⟨s, s', ?_, ?_, hs⟩
      · simp [List.find?, he]
      · have : (s'.epoch == ep) = true := by rw [hs.1]; exact he
        simp [List.find?, this]
    · have he' : (s'.epoch == ep) = false := by rw [hs.1]; simpa using he
      have he2 : (s.epoch == ep) = false := by simpa using he
      simp only [List.find?, he', he2]
      exact ih

/-- the MIP-03 comparison sees epoch, timestamp and commit id of the snapshot only -/
theorem isBetter_of_mrel {X : List Nat} (c c' : Cl) (h : MRel X c.mgr c'.mgr) (ee : Nat) (e : Ev) :
    isBetter c' ee e = isBetter c ee e := by
  unfold isBetter
  rcases h.find_rel ee with ⟨h1, h2⟩ | ⟨s, s', h1, h2, hs⟩
  · rw [h1, h2]
  · rw [h1, h2]
    obtain ⟨_, hc, ht, _⟩ := hs
    simp only [ht, hc]

/-- `c` with another secret table, consumed list, record table and snapshot queue -/
def wc (c : Cl) (s : List (Nat × Path)) (k : List Nat) (r : List (Nat × Rec)) (m : List Snap) : Cl :=
  { c with g := wg c.g s k, recs := r, mgr := m }

/-- **the relation**: `c'` is `c` up to what deliveries without effect may have touched -/
def Eqv (S W X : List Nat) (c c' : Cl) : Prop :=
  ∃ s k r m, c' = wc c s k r m ∧ SecRel c.g.path c.g.pending c.g.secrets s ∧ ConsRel X c.g.consumed k ∧
    RecRel S W c.recs r ∧ MRel X c.mgr m

theorem Eqv.refl (S W X : List Nat) (c : Cl) : Eqv S W X c c :=
  ⟨c.g.secrets, c.g.consumed, c.recs, c.mgr, rfl, SecRel.refl _ _ _, ConsRel.refl _ _, RecRel.refl _ _ _, MRel.refl _ _⟩

theorem Eqv.trans {S W X : List Nat} {c c' c'' : Cl} (h : Eqv S W X c c') (h' : Eqv S W X c' c'') : Eqv S W X c c'' := by
  obtain ⟨s, k, r, m, rfl, hs, hk, hr, hm⟩ := h
  obtain ⟨s', k', r', m', rfl, hs', hk', hr', hm'⟩ := h'
  exact ⟨s', k', r', m', rfl, hs.trans hs', hk.trans hk', hr.trans hr', hm.trans hm'⟩

theorem Eqv.mono {S W X S' W' X' : List Nat} {c c' : Cl} (h : Eqv S W X c c')
    (hS : ∀ x, x ∈ S → x ∈ S') (hW : ∀ x, x ∈ W → x ∈ W') (hX : ∀ x, x ∈ X → x ∈ X') : Eqv S' W' X' c c' := by
  obtain ⟨s, k, r, m, rfl, hs, hk, hr, hm⟩ := h
  exact ⟨s, k, r, m, rfl, hs, hk.mono hX, hr.mono hS hW, hm.mono hX⟩

/-- the OTHER direction after a one-sided step of the left run: `c1` differs from `c` at most in the record of `n`
    (and secrets / consumed / saved states inside the relation), and the right run's record of `n` is stuck or free -/
theorem Eqv.left_step {S W X : List Nat} {c c' c1 : Cl} {n : Nat} (h : Eqv S W X c c') (h1 : Eqv [] [n] X c c1)
    (hn : (n ∈ S ∧ Stuck (alookup n c'.recs)) ∨ n ∈ W) : Eqv S W X c1 c' := by
  obtain ⟨s, k, r, m, rfl, hs, hk, hr, hm⟩ := h
  obtain ⟨s1, k1, r1, m1, rfl, hs1, hk1, hr1, hm1⟩ := h1
  refine ⟨s, k, r, m, rfl, hs1.symm.trans hs, hk1.symm.trans hk, ?_, hm1.symm.trans hm⟩
  intro x
  rcases hr1 x with e | ⟨hx, _⟩ | hx
  · have e' : alookup x r1 = alookup x c.recs := e
    show alookup x r = alookup x r1 ∨ _
    rw [e']; exact hr x
  · cases hx
  · have : x = n := by simpa using hx
    subst this
    exact Or.inr hn

theorem Eqv.proj {S W X : List Nat} {c c' : Cl} (h : Eqv S W X c c') : proj c' = proj c := by
  obtain ⟨s, k, r, m, rfl, _⟩ := h; rfl
theorem Eqv.msgs {S W X : List Nat} {c c' : Cl} (h : Eqv S W X c c') : c'.msgs = c.msgs := by
  obtain ⟨s, k, r, m, rfl, _⟩ := h; rfl
theorem Eqv.mgr {S W X : List Nat} {c c' : Cl} (h : Eqv S W X c c') : MRel X c.mgr c'.mgr := by
  obtain ⟨s, k, r, m, rfl, _, _, _, hm⟩ := h; exact hm
theorem Eqv.recs {S W X : List Nat} {c c' : Cl} (h : Eqv S W X c c') : RecRel S W c.recs c'.recs := by
  obtain ⟨s, k, r, m, rfl, _, _, hr, _⟩ := h; exact hr
theorem Eqv.cons {S W X : List Nat} {c c' : Cl} (h : Eqv S W X c c') : ConsRel X c.g.consumed c'.g.consumed := by
  obtain ⟨s, k, r, m, rfl, _, hk, _, _⟩ := h; exact hk
theorem Eqv.routes {S W X : List Nat} {c c' : Cl} (h : Eqv S W X c c') (e : Ev) : routes c' e = routes c e := by
  obtain ⟨s, k, r, m, rfl, _⟩ := h; rfl
theorem Eqv.isBetter {S W X : List Nat} {c c' : Cl} (h : Eqv S W X c c') (ee : Nat) (e : Ev) :
    isBetter c' ee e = isBetter c ee e := isBetter_of_mrel c c' h.mgr ee e

/-! ## building blocks: both runs take the same step -/

/-- equal results, related states -/
def ERes (S W X : List Nat) (p p' : Cl × Res) : Prop := Eqv S W X p.1 p'.1 ∧ p'.2 = p.2

theorem eres_mk {S W X : List Nat} {a a' : Cl} {r : Res} (h : Eqv S W X a a') : ERes S W X (a, r) (a', r) := ⟨h, rfl⟩

theorem eres_ite {S W X : List Nat} {A : Prop} [Decidable A] {x y x' y' : Cl × Res}
    (h1 : A → ERes S W X x x') (h2 : ¬A → ERes S W X y y') : ERes S W X (if A then x else y) (if A then x' else y') := by
  by_cases h : A
  · simp only [h, if_true]; exact h1 h
  · simp only [h, if_false]; exact h2 h

/-- `g` with another consumed list -/
def wk (g : GState) (k : List Nat) : GState := { g with consumed := k }

/-- `c` with another consumed list, record table and snapshot queue (the secret tables are EQUAL) -/
def wcs (c : Cl) (k : List Nat) (r : List (Nat × Rec)) (m : List Snap) : Cl := { c with g := wk c.g k, recs := r, mgr := m }

/-- the relation with equal secret tables: what holds after `exporter_secret()` ran in both runs -/
def EqvS (S W X : List Nat) (c c' : Cl) : Prop :=
  ∃ k r m, c' = wcs c k r m ∧ ConsRel X c.g.consumed k ∧ RecRel S W c.recs r ∧ MRel X c.mgr m

theorem EqvS.eqv {S W X : List Nat} {c c' : Cl} (h : EqvS S W X c c') : Eqv S W X c c' := by
  obtain ⟨k, r, m, rfl, hk, hr, hm⟩ := h
  exact ⟨c.g.secrets, k, r, m, rfl, SecRel.refl _ _ _, hk, hr, hm⟩

theorem ensureSecret_wg (g : GState) (s : List (Nat × Path)) (k : List Nat) :
    ensureSecret (wg g s k) = wg (ensureSecret g) (ens g.path s) k := by
  rw [ensureSecret_eq, ensureSecret_eq]; rfl

theorem ensureSecret_wk (g : GState) (k : List Nat) : ensureSecret (wk g k) = wk (ensureSecret g) k := by
  rw [ensureSecret_eq, ensureSecret_eq]; rfl

theorem mergeCommit_wk (mp : Nat) (g : GState) (k : List Nat) (e : Ev) : mergeCommit mp (wk g k) e = wk (mergeCommit mp g e) k := by
  unfold mergeCommit
  cases e.kind with
  | commit b sw => cases b <;> rfl
  | leave => rfl
  | app a b c => rfl

theorem updLast_wk (g : GState) (k : List Nat) (mid t : Nat) : updLast (wk g k) mid t = wk (updLast g mid t) k := by
  unfold updLast
  show (match g.last with | none => _ | some (_, t') => _) = _
  cases g.last with
  | none => rfl
  | some p =>
    obtain ⟨a, t'⟩ := p
    dsimp only
    split <;> rfl

theorem syncRec_wk (g : GState) (k : List Nat) : syncRec (wk g k) = wk (syncRec g) k := rfl

/-- `exporter_secret()` in both runs makes the secret tables equal -/
theorem eqvS_withSecret {S W X : List Nat} {c c' : Cl} (h : Eqv S W X c c') : EqvS S W X (withSecret c) (withSecret c') := by
  obtain ⟨s, k, r, m, rfl, hs, hk, hr, hm⟩ := h
  refine ⟨k, r, m, ?_, by rw [withSecret_consumed]; exact hk, hr, hm⟩
  show ({ wc c s k r m with g := ensureSecret (wg c.g s k) } : Cl) = _
  rw [ensureSecret_wg, hs.ens_eq, ← ensureSecret_secrets]
  rfl

theorem eqv_setRec {S W X : List Nat} {c c' : Cl} (h : Eqv S W X c c') (n : Nat) (v : Rec) :
    Eqv S W X (setRec c n v) (setRec c' n v) := by
  obtain ⟨s, k, r, m, rfl, hs, hk, hr, hm⟩ := h
  exact ⟨s, k, ainsert n v r, m, rfl, hs, hk, hr.ainsert n v, hm⟩

theorem eqvS_setRec {S W X : List Nat} {c c' : Cl} (h : EqvS S W X c c') (n : Nat) (v : Rec) :
    EqvS S W X (setRec c n v) (setRec c' n v) := by
  obtain ⟨k, r, m, rfl, hk, hr, hm⟩ := h
  exact ⟨k, ainsert n v r, m, rfl, hk, hr.ainsert n v, hm⟩

/-- the record `record_failure` writes, from the old one -/
def failRec (old : Option Rec) (hasGroup : Bool) (epoch : Option Nat) : Rec :=
  { state := 3,
    epoch := (match epoch with
      | some e => some e
      | none => old.bind (·.epoch)),
    hasGroup := hasGroup || (old.map (·.hasGroup)).getD false, mid := old.bind (·.mid) }

theorem recordFailure_eq (c : Cl) (n : Nat) (b : Bool) (ep : Option Nat) :
    recordFailure c n b ep = setRec c n (failRec (getRec c n) b ep) := rfl

theorem eqv_recordFailure {S W X : List Nat} {c c' : Cl} (h : Eqv S W X c c') (n : Nat) (hn : getRec c' n = getRec c n)
    (b : Bool) (ep : Option Nat) : Eqv S W X (recordFailure c n b ep) (recordFailure c' n b ep) := by
  rw [recordFailure_eq, recordFailure_eq, hn]; exact eqv_setRec h n _

theorem eqvS_recordFailure {S W X : List Nat} {c c' : Cl} (h : EqvS S W X c c') (n : Nat) (hn : getRec c' n = getRec c n)
    (b : Bool) (ep : Option Nat) : EqvS S W X (recordFailure c n b ep) (recordFailure c' n b ep) := by
  rw [recordFailure_eq, recordFailure_eq, hn]; exact eqvS_setRec h n _

/-- replacing the group state by related ones (same fields but the consumed list) -/
theorem eqvS_setG {S W X : List Nat} {c c' : Cl} (h : EqvS S W X c c') (g : GState) (k : List Nat) (hk : ConsRel X g.consumed k) :
    EqvS S W X { c with g := g } { c' with g := wk g k } := by
  obtain ⟨k0, r, m, rfl, _, hr, hm⟩ := h
  exact ⟨k, r, m, rfl, hk, hr, hm⟩

theorem eqvS_setGM {S W X : List Nat} {c c' : Cl} (h : EqvS S W X c c') (g : GState) (ms : List MsgRow) (k : List Nat)
    (hk : ConsRel X g.consumed k) : EqvS S W X { c with g := g, msgs := ms } { c' with g := wk g k, msgs := ms } := by
  obtain ⟨k0, r, m, rfl, _, hr, hm⟩ := h
  exact ⟨k, r, m, rfl, hk, hr, hm⟩

@[simp] theorem wcs_g (c : Cl) (k : List Nat) (r : List (Nat × Rec)) (m : List Snap) : (wcs c k r m).g = wk c.g k := rfl
@[simp] theorem wcs_msgs (c : Cl) (k : List Nat) (r : List (Nat × Rec)) (m : List Snap) : (wcs c k r m).msgs = c.msgs := rfl
@[simp] theorem wk_path (g : GState) (k : List Nat) : (wk g k).path = g.path := rfl

theorem updLast_consumed (g : GState) (mid t : Nat) : (updLast g mid t).consumed = g.consumed := by
  unfold updLast; split
  · rfl
  · split <;> rfl

theorem EqvS.g {S W X : List Nat} {c c' : Cl} (h : EqvS S W X c c') : ∃ k, c'.g = wk c.g k ∧ ConsRel X c.g.consumed k := by
  obtain ⟨k, r, m, rfl, hk, _, _⟩ := h; exact ⟨k, rfl, hk⟩
theorem EqvS.id {S W X : List Nat} {c c' : Cl} (h : EqvS S W X c c') : c'.id = c.id := by obtain ⟨k, r, m, rfl, _⟩ := h; rfl
theorem EqvS.maxPast {S W X : List Nat} {c c' : Cl} (h : EqvS S W X c c') : c'.maxPast = c.maxPast := by obtain ⟨k, r, m, rfl, _⟩ := h; rfl
theorem EqvS.msgs {S W X : List Nat} {c c' : Cl} (h : EqvS S W X c c') : c'.msgs = c.msgs := by obtain ⟨k, r, m, rfl, _⟩ := h; rfl

theorem eqvS_failUnprocessable {S W X : List Nat} {c c' : Cl} (h : EqvS S W X c c') (e : Ev) (hn : getRec c' e.n = getRec c e.n) :
    ERes S W X (failUnprocessable c e) (failUnprocessable c' e) := by
  obtain ⟨k, hg, _⟩ := h.g
  unfold failUnprocessable
  rw [hg]
  exact eres_mk (eqvS_recordFailure h e.n hn _ _).eqv

theorem eqvS_returnOwnCommit {S W X : List Nat} {c c' : Cl} (h : EqvS S W X c c') :
    ERes S W X (returnOwnCommit c) (returnOwnCommit c') := by
  obtain ⟨k, hg, hk⟩ := h.g
  unfold returnOwnCommit
  rw [hg, syncRec_wk]
  exact eres_mk (eqvS_setG h (syncRec c.g) k hk).eqv

theorem eqvS_storeApp {S W X : List Nat} {c c' : Cl} (h : EqvS S W X c c') (e : Ev) (mid t tok : Nat) :
    ERes S W X (storeApp c e mid t tok) (storeApp c' e mid t tok) := by
  obtain ⟨k, r, m, rfl, hk, hr, hm⟩ := h
  unfold storeApp
  refine eres_mk (EqvS.eqv ?_)
  simp only [wcs_g, updLast_wk, wcs_msgs, wk_path]
  exact eqvS_setRec (eqvS_setGM ⟨k, r, m, rfl, hk, hr, hm⟩ _ _ k (by rw [updLast_consumed]; exact hk)) _ _

theorem eqvS_ownMessage {S W X : List Nat} {c c' : Cl} (h : EqvS S W X c c') (e : Ev) (hn : getRec c' e.n = getRec c e.n) :
    ERes S W X (ownMessage c e) (ownMessage c' e) := by
  have hmsgs := h.msgs
  unfold ownMessage
  rw [hn, hmsgs]
  obtain ⟨k, r, m, rfl, hk, hr, hm⟩ := h
  have h : EqvS S W X c (wcs c k r m) := ⟨k, r, m, rfl, hk, hr, hm⟩
  repeat' split
  all_goals first
    | exact eres_mk h.eqv
    | exact eqvS_returnOwnCommit h
    | exact eres_mk (eqvS_setRec (eqvS_setGM h c.g _ k hk) _ _).eqv

theorem eqvS_notBetterResult {S W X : List Nat} {c c' : Cl} (h : EqvS S W X c c') (e : Ev) (hn : getRec c' e.n = getRec c e.n) :
    ERes S W X (notBetterResult c e) (notBetterResult c' e) := by
  unfold notBetterResult
  rw [hn]
  repeat' split
  all_goals first
    | exact eqvS_returnOwnCommit h
    | exact eqvS_failUnprocessable h e hn

theorem eqvS_mgrCreate {S W X : List Nat} {c c' : Cl} (h : EqvS S W X c c') (ep : Nat) (e : Ev) :
    EqvS S W X (mgrCreate c ep e) (mgrCreate c' ep e) := by
  obtain ⟨k, r, m, rfl, hk, hr, hm⟩ := h
  refine ⟨k, r, (mgrCreate (wcs c k r m) ep e).mgr, rfl, hk, hr, ?_⟩
  have hl := hm.length_eq
  have hsn : SRel X { epoch := ep, commit := e.idnum, ts := e.ts, saved := c.g }
      { epoch := ep, commit := e.idnum, ts := e.ts, saved := wk c.g k } :=
    ⟨rfl, rfl, rfl, ⟨c.g.secrets, k, rfl, SecRel.refl _ _ _, hk⟩⟩
  simp only [mgrCreate, wcs, List.length_append, hl, List.length_cons, List.length_nil]
  exact (hm.append (.cons hsn .nil)).drop _

theorem eqvS_consume {S W X : List Nat} {c c' : Cl} (h : EqvS S W X c c') (x : Nat) :
    EqvS S W X { c with g := { c.g with consumed := x :: c.g.consumed } } { c' with g := { c'.g with consumed := x :: c'.g.consumed } } := by
  obtain ⟨k, r, m, rfl, hk, hr, hm⟩ := h
  exact ⟨x :: k, r, m, rfl, hk.cons x, hr, hm⟩

theorem mergeCommit_consumed (mp : Nat) (g : GState) (e : Ev) : (mergeCommit mp g e).consumed = g.consumed := by
  unfold mergeCommit
  cases e.kind with
  | commit b sw => cases b <;> rfl
  | leave => rfl
  | app a b c => rfl

theorem eqvS_processCommit {S W X : List Nat} {c c' : Cl} (h : EqvS S W X c c') (e : Ev) (b : Body) (sw : List Nat)
    (hn : getRec c' e.n = getRec c e.n) : ERes S W X (processCommit c e b sw) (processCommit c' e b sw) := by
  have hc := eqvS_mgrCreate h (epochOf c.g.path) e
  obtain ⟨k, r, m, rfl, hk, hr, hm⟩ := h
  have h : EqvS S W X c (wcs c k r m) := ⟨k, r, m, rfl, hk, hr, hm⟩
  unfold processCommit
  refine eres_ite (fun _ => eres_mk (eqvS_recordFailure h e.n hn _ _).eqv) (fun _ => ?_)
  dsimp only
  have hg : (mgrCreate (wcs c k r m) (epochOf c.g.path) e).g = wk (mgrCreate c (epochOf c.g.path) e).g k := rfl
  have hp : epochOf (wcs c k r m).g.path = epochOf c.g.path := rfl
  rw [hp, hg, mergeCommit_wk]
  refine eres_ite (fun _ => eres_mk (EqvS.eqv ?_)) (fun _ => eres_mk (EqvS.eqv ?_))
  · exact eqvS_setRec (eqvS_setG hc { mergeCommit c.maxPast (mgrCreate c (epochOf c.g.path) e).g e with active := false } k
      (by show ConsRel X (mergeCommit _ _ _).consumed k; rw [mergeCommit_consumed]; exact hk)) _ _
  · rw [ensureSecret_wk, syncRec_wk]
    exact eqvS_setRec (eqvS_setG hc _ k
      (by show ConsRel X (ensureSecret (mergeCommit _ _ _)).consumed k
          rw [(ensureSecret_fields _).2.2.2.2.2.2.2.2.2.2.1, mergeCommit_consumed]; exact hk)) _ _

/-! ## rollback and the MIP-03 branch -/

theorem eqv_rollbackTo_none {S W X : List Nat} {c c' : Cl} (h : Eqv S W X c c') (ep : Nat) (hn : rollbackTo c ep = none) :
    rollbackTo c' ep = none := by
  obtain ⟨s, k, r, m, rfl, hs, hk, hr, hm⟩ := h
  unfold rollbackTo at hn ⊢
  have hi : findIdx (wc c s k r m).mgr ep = findIdx c.mgr ep := hm.findIdx_eq ep
  rw [hi]
  cases hx : findIdx c.mgr ep with
  | none => rfl
  | some i =>
    simp only [hx] at hn ⊢
    have hd : MRel X (c.mgr.drop i) ((wc c s k r m).mgr.drop i) := hm.drop i
    cases hd1 : c.mgr.drop i with
    | nil =>
      rw [hd1] at hd
      rw [hd.eq_nil]
    | cons s0 t => simp [hd1] at hn

theorem eqv_rollbackTo_some {S W X : List Nat} {c c' c1 : Cl} (h : Eqv S W X c c') (ep : Nat) (hs : rollbackTo c ep = some c1) :
    ∃ c1', rollbackTo c' ep = some c1' ∧ Eqv S W X c1 c1' ∧ ∀ n, getRec c' n = getRec c n → getRec c1' n = getRec c1 n := by
  obtain ⟨s, k, r, m, rfl, hs', hk, hr, hm⟩ := h
  unfold rollbackTo at hs ⊢
  have hi : findIdx (wc c s k r m).mgr ep = findIdx c.mgr ep := hm.findIdx_eq ep
  rw [hi]
  cases hx : findIdx c.mgr ep with
  | none => simp [hx] at hs
  | some i =>
    simp only [hx] at hs ⊢
    have hd : MRel X (c.mgr.drop i) ((wc c s k r m).mgr.drop i) := hm.drop i
    cases hd1 : c.mgr.drop i with
    | nil => simp [hd1] at hs
    | cons s0 t =>
      rw [hd1] at hd
      simp only [hd1, Option.some.injEq] at hs
      obtain ⟨s0', t', hd2, hss, _⟩ := hd.cons_inv
      rw [hd2]
      refine ⟨_, rfl, ?_, ?_⟩
      · subst hs
        obtain ⟨_, _, _, sg, kg, hsaved, hsg, hkg⟩ := hss
        refine ⟨sg, kg, rbRecs ep r, m.take i, ?_, hsg, hkg, hr.rb ep, hm.take i⟩
        rw [hsaved]; rfl
      · subst hs
        intro n hn
        show alookup n (rbRecs ep r) = alookup n (rbRecs ep c.recs)
        rw [alookup_rbRecs, alookup_rbRecs]
        have hn' : alookup n r = alookup n c.recs := hn
        rw [hn']

/-- what the re-processing after a rollback must satisfy -/
def RetryRel (S W X : List Nat) (retry retry' : Cl → Option (Cl × Res)) (n : Nat) : Prop :=
  ∀ c1 c1', Eqv S W X c1 c1' → getRec c1' n = getRec c1 n →
    (retry c1 = none ∧ retry' c1' = none) ∨ ∃ r r', retry c1 = some r ∧ retry' c1' = some r' ∧ ERes S W X r r'

theorem eqvS_wrongEpochCommit {S W X : List Nat} (retry retry' : Cl → Option (Cl × Res)) {c c' : Cl} (h : EqvS S W X c c')
    (e : Ev) (ee : Nat) (hn : getRec c' e.n = getRec c e.n) (hretry : RetryRel S W X retry retry' e.n) :
    ERes S W X (wrongEpochCommit retry c e ee) (wrongEpochCommit retry' c' e ee) := by
  unfold wrongEpochCommit
  rw [h.eqv.isBetter ee e]
  refine eres_ite (fun _ => ?_) (fun _ => eqvS_notBetterResult h e hn)
  cases hr : rollbackTo c ee with
  | none =>
    rw [eqv_rollbackTo_none h.eqv ee hr]
    exact eqvS_notBetterResult h e hn
  | some c1 =>
    obtain ⟨c1', hr', hs1, hn1⟩ := eqv_rollbackTo_some h.eqv ee hr
    rw [hr']
    simp only []
    rcases hretry c1 c1' hs1 (hn1 e.n hn) with ⟨h1, h2⟩ | ⟨r, r', h1, h2, hrr⟩
    · rw [h1, h2]; exact eqvS_notBetterResult h e hn
    · rw [h1, h2]; exact hrr

/-! ## `process_message` -/

theorem eqvS_outerOpens {S W X : List Nat} {c c' : Cl} (h : EqvS S W X c c') (e : Ev) : outerOpens c'.g e = outerOpens c.g e := by
  obtain ⟨k, r, m, rfl, _⟩ := h; rfl

theorem eqvS_consumed {S W X : List Nat} {c c' : Cl} (h : EqvS S W X c c') (x : Nat) (hx : x ∉ X) :
    c'.g.consumed.contains x = c.g.consumed.contains x := by
  obtain ⟨k, r, m, rfl, hk, _⟩ := h; exact hk x hx

/-- the part of `step1` after `exporter_secret()`: both runs hold the same secret table -/
theorem sim_step1 {S W X : List Nat} (retry retry' : Cl → Option (Cl × Res)) (nx : Nat) {c c' : Cl} (h : Eqv S W X c c') (e : Ev)
    (hn : getRec c' e.n = getRec c e.n) (hx : e.cipher ∉ X) (hretry : RetryRel S W X retry retry' e.n) :
    ERes S W X (step1 retry nx c e) (step1 retry' nx c' e) := by
  have hw := eqvS_withSecret h
  have hnw : getRec (withSecret c') e.n = getRec (withSecret c) e.n := hn
  have hro := h.routes e
  have hact : c'.g.active = c.g.active := by obtain ⟨s, k, r, m, rfl, _⟩ := h; rfl
  unfold step1
  rw [hro, hact]
  refine eres_ite (fun _ => eres_mk (eqv_recordFailure h e.n hn _ _)) (fun _ => ?_)
  refine eres_ite (fun _ => eres_mk (eqv_recordFailure h e.n hn _ _)) (fun _ => ?_)
  dsimp only
  generalize withSecret c' = d' at hw hnw ⊢
  generalize withSecret c = d at hw hnw ⊢
  rw [eqvS_outerOpens hw e]
  refine eres_ite (fun _ => eres_mk (eqvS_recordFailure hw e.n hnw _ _).eqv) (fun _ => ?_)
  have hcons := eqvS_consumed hw e.cipher hx
  have hid := hw.id
  obtain ⟨k, r, m, rfl, hk, hr, hm⟩ := hw
  have hw : EqvS S W X d (wcs d k r m) := ⟨k, r, m, rfl, hk, hr, hm⟩
  cases hkind : e.kind with
  | commit b sw =>
    dsimp only
    refine eres_ite (fun _ => eqvS_wrongEpochCommit retry retry' hw e _ hnw hretry) (fun _ => ?_)
    refine eres_ite (fun _ => ?_) (fun _ => ?_)
    · have hp : (wcs d k r m).g.pending = d.g.pending := rfl
      rw [hp]
      cases d.g.pending with
      | some p =>
        dsimp only
        have hg : (mgrCreate (wcs d k r m) (epochOf d.g.path) e).g = wk (mgrCreate d (epochOf d.g.path) e).g k := rfl
        have hpp : epochOf (wcs d k r m).g.path = epochOf d.g.path := rfl
        have hmp : (wcs d k r m).maxPast = d.maxPast := rfl
        rw [hpp, hg, hmp, mergeCommit_wk, ensureSecret_wk, syncRec_wk]
        refine eres_mk (EqvS.eqv ?_)
        exact eqvS_setRec (eqvS_setG (eqvS_mgrCreate hw _ e) _ k
          (by show ConsRel X (ensureSecret (mergeCommit _ _ _)).consumed k
              rw [(ensureSecret_fields _).2.2.2.2.2.2.2.2.2.2.1, mergeCommit_consumed]; exact hk)) _ _
      | none => exact eqvS_ownMessage hw e hnw
    · rw [hcons]
      refine eres_ite (fun _ => eqvS_failUnprocessable hw e hnw) (fun _ => ?_)
      exact eqvS_processCommit (eqvS_consume hw e.cipher) e b sw hnw
  | leave =>
    dsimp only
    refine eres_ite (fun _ => eqvS_failUnprocessable hw e hnw) (fun _ => ?_)
    refine eres_ite (fun _ => eqvS_ownMessage hw e hnw) (fun _ => ?_)
    rw [hcons]
    refine eres_ite (fun _ => eqvS_failUnprocessable hw e hnw) (fun _ => ?_)
    refine eres_ite (fun _ => ?_) (fun _ => ?_)
    · refine eres_mk (EqvS.eqv ?_)
      have hg : ∀ (ne : Ev) (who : List Nat), ensureSecret { ({ (wcs d k r m).g with consumed := e.cipher :: (wcs d k r m).g.consumed } : GState) with props := who, pending := some ne } =
          wk (ensureSecret { ({ d.g with consumed := e.cipher :: d.g.consumed } : GState) with props := who, pending := some ne }) (e.cipher :: k) := by
        intro ne who
        exact ensureSecret_wk { ({ d.g with consumed := e.cipher :: d.g.consumed } : GState) with props := who, pending := some ne } (e.cipher :: k)
      rw [hg]
      exact eqvS_setRec (eqvS_setG hw _ (e.cipher :: k)
        (by rw [(ensureSecret_fields _).2.2.2.2.2.2.2.2.2.2.1]; exact hk.cons e.cipher)) _ _
    · refine eres_mk (EqvS.eqv ?_)
      exact eqvS_setRec (eqvS_setG hw _ (e.cipher :: k) (hk.cons e.cipher)) _ _
  | app mid msgTs tok =>
    dsimp only
    refine eres_ite (fun _ => eqvS_failUnprocessable hw e hnw) (fun _ => ?_)
    refine eres_ite (fun _ => eqvS_failUnprocessable hw e hnw) (fun _ => ?_)
    refine eres_ite (fun _ => eqvS_ownMessage hw e hnw) (fun _ => ?_)
    rw [hcons]
    refine eres_ite (fun _ => eqvS_failUnprocessable hw e hnw) (fun _ => ?_)
    exact eqvS_storeApp (eqvS_consume hw e.cipher) e mid msgTs tok

theorem sim_deliverOnce {S W X : List Nat} (retry retry' : Cl → Option (Cl × Res)) (nx : Nat) {c c' : Cl} (h : Eqv S W X c c') (e : Ev)
    (hn : getRec c' e.n = getRec c e.n) (hx : e.cipher ∉ X) (hretry : RetryRel S W X retry retry' e.n) :
    ERes S W X (deliverOnce retry nx c e) (deliverOnce retry' nx c' e) := by
  unfold deliverOnce
  rw [hn, h.routes e]
  cases hr : getRec c e.n with
  | none => exact sim_step1 retry retry' nx h e hn hx hretry
  | some r =>
    dsimp only
    exact eres_ite (fun _ => eres_mk h) (fun _ => sim_step1 retry retry' nx h e hn hx hretry)

/-- **`process_message` is a simulation**, every fuel: the runs agree on the event number's record, and the ciphertext is
    not one whose consumption differs -/
theorem sim_deliverN {S W X : List Nat} (f nx : Nat) {c c' : Cl} (h : Eqv S W X c c') (e : Ev)
    (hn : getRec c' e.n = getRec c e.n) (hx : e.cipher ∉ X) : ERes S W X (deliverN f nx c e) (deliverN f nx c' e) := by
  induction f generalizing c c' with
  | zero => exact sim_deliverOnce _ _ nx h e hn hx (fun _ _ _ _ => Or.inl ⟨rfl, rfl⟩)
  | succ f ih =>
    refine sim_deliverOnce _ _ nx h e hn hx ?_
    intro c1 c1' h1 hn1
    exact Or.inr ⟨_, _, rfl, rfl, ih h1 hn1⟩

theorem sim_deliver {S W X : List Nat} {c c' : Cl} (h : Eqv S W X c c') (e : Ev) (nx : Nat)
    (hn : getRec c' e.n = getRec c e.n) (hx : e.cipher ∉ X) : ERes S W X (deliver c e nx) (deliver c' e nx) :=
  sim_deliverN 3 nx h e hn hx

/-! ## the local operations: no hypothesis -/

theorem ensureSecret_wc_g {c : Cl} {s : List (Nat × Path)} (k : List Nat) (r : List (Nat × Rec)) (m : List Snap)
    (hs : SecRel c.g.path c.g.pending c.g.secrets s) : ensureSecret (wc c s k r m).g = wk (ensureSecret c.g) k := by
  show ensureSecret (wg c.g s k) = _
  rw [ensureSecret_wg, hs.ens_eq, ← ensureSecret_secrets]; rfl

theorem ensureSecret_consumed (g : GState) : (ensureSecret g).consumed = g.consumed :=
  (ensureSecret_fields g).2.2.2.2.2.2.2.2.2.2.1

theorem sim_send {S W X : List Nat} {c c' : Cl} (h : Eqv S W X c c') (n ts idn mid mts tok : Nat) :
    ERes S W X (send c n ts idn mid mts tok) (send c' n ts idn mid mts tok) := by
  obtain ⟨s, k, r, m, rfl, hs, hk, hr, hm⟩ := h
  have h : Eqv S W X c (wc c s k r m) := ⟨s, k, r, m, rfl, hs, hk, hr, hm⟩
  unfold send
  refine eres_ite (fun _ => eres_mk h) (fun _ => ?_)
  refine eres_ite (fun _ => eres_mk h) (fun _ => ?_)
  refine eres_ite (fun _ => eres_mk h) (fun _ => ?_)
  dsimp only
  rw [ensureSecret_wc_g k r m hs, updLast_wk]
  refine ⟨EqvS.eqv ⟨k, ainsert n _ r, m, rfl, ?_, hr.ainsert _ _, hm⟩, rfl⟩
  show ConsRel X (updLast (ensureSecret c.g) mid mts).consumed k
  rw [updLast_consumed, ensureSecret_consumed]; exact hk

theorem sim_stageCommit {S W X : List Nat} {c c' : Cl} (h : Eqv S W X c c') (n ts idn : Nat) (b : Body) (na : Bool) :
    ERes S W X (stageCommit c n ts idn b na) (stageCommit c' n ts idn b na) := by
  obtain ⟨s, k, r, m, rfl, hs, hk, hr, hm⟩ := h
  have h : Eqv S W X c (wc c s k r m) := ⟨s, k, r, m, rfl, hs, hk, hr, hm⟩
  unfold stageCommit
  refine eres_ite (fun _ => eres_mk h) (fun _ => ?_)
  refine eres_ite (fun _ => eres_mk h) (fun _ => ?_)
  refine eres_ite (fun _ => eres_mk h) (fun _ => ?_)
  refine eres_ite (fun _ => eres_mk h) (fun _ => ?_)
  dsimp only
  rw [ensureSecret_wc_g k r m hs]
  refine ⟨EqvS.eqv ⟨k, ainsert n _ r, m, rfl, ?_, hr.ainsert _ _, hm⟩, rfl⟩
  show ConsRel X (ensureSecret c.g).consumed k
  rw [ensureSecret_consumed]; exact hk

theorem sim_updateData {S W X : List Nat} {c c' : Cl} (h : Eqv S W X c c') (n ts idn : Nat) (u : DataUpd) :
    ERes S W X (updateData c n ts idn u) (updateData c' n ts idn u) := by
  have hs := fun b => sim_stageCommit h n ts idn b true
  obtain ⟨s, k, r, m, rfl, hs', hk, hr, hm⟩ := h
  have h : Eqv S W X c (wc c s k r m) := ⟨s, k, r, m, rfl, hs', hk, hr, hm⟩
  unfold updateData
  refine eres_ite (fun _ => eres_mk h) (fun _ => ?_)
  refine eres_ite (fun _ => eres_mk h) (fun _ => ?_)
  exact hs _

theorem sim_removeMembers {S W X : List Nat} {c c' : Cl} (h : Eqv S W X c c') (n ts idn : Nat) (who : List Nat) :
    ERes S W X (removeMembers c n ts idn who) (removeMembers c' n ts idn who) := by
  have hs := fun b => sim_stageCommit h n ts idn b true
  obtain ⟨s, k, r, m, rfl, hs', hk, hr, hm⟩ := h
  have h : Eqv S W X c (wc c s k r m) := ⟨s, k, r, m, rfl, hs', hk, hr, hm⟩
  unfold removeMembers
  refine eres_ite (fun _ => eres_mk h) (fun _ => ?_)
  refine eres_ite (fun _ => eres_mk h) (fun _ => ?_)
  refine eres_ite (fun _ => eres_mk h) (fun _ => ?_)
  refine eres_ite (fun _ => eres_mk h) (fun _ => ?_)
  exact hs _

theorem sim_addMembers {S W X : List Nat} {c c' : Cl} (h : Eqv S W X c c') (n ts idn : Nat) (who : List Nat) :
    ERes S W X (addMembers c n ts idn who) (addMembers c' n ts idn who) := by
  have hs := fun b => sim_stageCommit h n ts idn b true
  obtain ⟨s, k, r, m, rfl, hs', hk, hr, hm⟩ := h
  have h : Eqv S W X c (wc c s k r m) := ⟨s, k, r, m, rfl, hs', hk, hr, hm⟩
  unfold addMembers
  refine eres_ite (fun _ => eres_mk h) (fun _ => ?_)
  refine eres_ite (fun _ => eres_mk h) (fun _ => ?_)
  refine eres_ite (fun _ => eres_mk h) (fun _ => ?_)
  refine eres_ite (fun _ => eres_mk h) (fun _ => ?_)
  refine eres_ite (fun _ => eres_mk h) (fun _ => ?_)
  exact hs _

theorem sim_leave {S W X : List Nat} {c c' : Cl} (h : Eqv S W X c c') (n ts idn : Nat) :
    ERes S W X (leave c n ts idn) (leave c' n ts idn) := by
  obtain ⟨s, k, r, m, rfl, hs, hk, hr, hm⟩ := h
  have h : Eqv S W X c (wc c s k r m) := ⟨s, k, r, m, rfl, hs, hk, hr, hm⟩
  unfold leave
  refine eres_ite (fun _ => eres_mk h) (fun _ => ?_)
  refine eres_ite (fun _ => eres_mk h) (fun _ => ?_)
  refine eres_ite (fun _ => eres_mk h) (fun _ => ?_)
  dsimp only
  rw [ensureSecret_wc_g k r m hs]
  refine ⟨EqvS.eqv ⟨k, ainsert n _ r, m, rfl, ?_, hr.ainsert _ _, hm⟩, rfl⟩
  show ConsRel X (ensureSecret c.g).consumed k
  rw [ensureSecret_consumed]; exact hk

/-- `merge_pending_commit` changes the epoch WITHOUT `exporter_secret()`: with a commit pending the secret tables are equal
    (that is what the `pending = none` clause of `SecRel` is for), without one only the record is synced -/
theorem sim_merge {S W X : List Nat} {c c' : Cl} (h : Eqv S W X c c') : ERes S W X (merge c) (merge c') := by
  obtain ⟨s, k, r, m, rfl, hs, hk, hr, hm⟩ := h
  have h : Eqv S W X c (wc c s k r m) := ⟨s, k, r, m, rfl, hs, hk, hr, hm⟩
  unfold merge
  refine eres_ite (fun _ => eres_mk h) (fun _ => ?_)
  refine eres_ite (fun _ => eres_mk h) (fun _ => ?_)
  have hp : (wc c s k r m).g.pending = c.g.pending := rfl
  rw [hp]
  cases hpe : c.g.pending with
  | some p =>
    dsimp only
    have hse : s = c.g.secrets := by
      rcases hs with h1 | ⟨h1, _⟩
      · exact h1
      · rw [hpe] at h1; cases h1
    subst hse
    have hg : (wc c c.g.secrets k r m).g = wk c.g k := rfl
    have hmp : (wc c c.g.secrets k r m).maxPast = c.maxPast := rfl
    rw [hg, hmp, mergeCommit_wk, syncRec_wk]
    refine ⟨EqvS.eqv ⟨k, r, m, rfl, ?_, hr, hm⟩, rfl⟩
    show ConsRel X (mergeCommit c.maxPast c.g p).consumed k
    rw [mergeCommit_consumed]; exact hk
  | none =>
    dsimp only
    refine ⟨⟨s, k, r, m, rfl, ?_, hk, hr, hm⟩, rfl⟩
    show SecRel c.g.path c.g.pending c.g.secrets s
    exact hs

theorem sim_clear {S W X : List Nat} {c c' : Cl} (h : Eqv S W X c c') : ERes S W X (clear c) (clear c') := by
  obtain ⟨s, k, r, m, rfl, hs, hk, hr, hm⟩ := h
  have h : Eqv S W X c (wc c s k r m) := ⟨s, k, r, m, rfl, hs, hk, hr, hm⟩
  unfold clear
  refine eres_ite (fun _ => eres_mk h) (fun _ => ?_)
  refine ⟨⟨s, k, r, m, rfl, ?_, hk, hr, hm⟩, rfl⟩
  show SecRel c.g.path none c.g.secrets s
  rcases hs with h1 | ⟨_, h2⟩
  · exact Or.inl h1
  · exact Or.inr ⟨rfl, h2⟩

theorem sim_join {S W X : List Nat} {c c' : Cl} (h : Eqv S W X c c') (g : GState) : Eqv S W X (join c g) (join c' g) := by
  obtain ⟨s, k, r, m, rfl, hs, hk, hr, hm⟩ := h
  unfold join
  have hh : (wc c s k r m).hasGroup = c.hasGroup := rfl
  rw [hh]
  split
  · exact ⟨s, k, r, m, rfl, hs, hk, hr, hm⟩
  · exact ⟨g.secrets, g.consumed, r, [], rfl, SecRel.refl _ _ _, ConsRel.refl _ _, hr, .nil⟩

theorem sim_restart {S W X : List Nat} {c c' : Cl} (h : Eqv S W X c c') : ERes S W X (restart c) (restart c') := by
  obtain ⟨s, k, r, m, rfl, hs, hk, hr, hm⟩ := h
  unfold restart
  have hp : (wc c s k r m).persistent = c.persistent := rfl
  rw [hp]
  refine eres_ite (fun _ => eres_mk ⟨s, k, r, _, rfl, hs, hk, hr, hm.zero⟩) (fun _ => eres_mk ⟨s, k, r, m, rfl, hs, hk, hr, hm⟩)

/-! ## the invariant the one-sided steps need: a pending commit ⇒ the current epoch's secret is stored

  Staging a commit (`self_update`, `update_group_data`, `add_members`, `remove_members`, the admin's auto-commit of a leave)
  calls `exporter_secret()` first; every snapshot is taken of a state in which `exporter_secret()` has just run. -/

def PendOK (g : GState) : Prop := g.pending.isSome = true → HasCur g

instance (g : GState) : Decidable (PendOK g) := by unfold PendOK; infer_instance

def SecInv (c : Cl) : Prop := PendOK c.g ∧ ∀ s ∈ c.mgr, PendOK s.saved

instance (c : Cl) : Decidable (SecInv c) := by unfold SecInv; infer_instance

theorem pendOK_ensure (g : GState) : PendOK (ensureSecret g) := fun _ => hasCur_ensureSecret g

theorem pendOK_congr {g g' : GState} (hp : g'.pending = g.pending) (hpath : g'.path = g.path) (hs : g'.secrets = g.secrets)
    (h : PendOK g) : PendOK g' := by
  unfold PendOK HasCur at *
  rw [hp, hpath, hs]; exact h

theorem pendOK_of_none {g : GState} (h : g.pending = none) : PendOK g := by
  intro hp; rw [h] at hp; cases hp

theorem pendOK_syncRec {g : GState} (h : PendOK g) : PendOK (syncRec g) := pendOK_congr rfl rfl rfl h

theorem pendOK_updLast {g : GState} (mid t : Nat) (h : PendOK g) : PendOK (updLast g mid t) := by
  unfold updLast
  split
  · exact pendOK_congr rfl rfl rfl h
  · split
    · exact pendOK_congr rfl rfl rfl h
    · exact h

theorem pendOK_mergeCommit {g : GState} (mp : Nat) (e : Ev) (h : PendOK g) : PendOK (mergeCommit mp g e) := by
  unfold mergeCommit
  cases e.kind with
  | commit b sw => exact pendOK_of_none rfl
  | leave => exact h
  | app a b c => exact h

theorem secInv_setRec (c : Cl) (n : Nat) (r : Rec) (h : SecInv c) : SecInv (setRec c n r) := h
theorem secInv_recordFailure (c : Cl) (n : Nat) (b : Bool) (e : Option Nat) (h : SecInv c) : SecInv (recordFailure c n b e) := h
theorem secInv_withSecret (c : Cl) (h : SecInv c) : SecInv (withSecret c) := ⟨pendOK_ensure c.g, h.2⟩

theorem secInv_mgrCreate (c : Cl) (ep : Nat) (e : Ev) (h : SecInv c) : SecInv (mgrCreate c ep e) := by
  refine ⟨h.1, ?_⟩
  intro s hs'
  simp only [mgrCreate] at hs'
  have := List.mem_of_mem_drop hs'
  rcases List.mem_append.mp this with hm | hm
  · exact h.2 s hm
  · simp at hm; subst hm; exact h.1

theorem secInv_rollbackTo (c c1 : Cl) (ep : Nat) (h : SecInv c) (hr : rollbackTo c ep = some c1) : SecInv c1 := by
  unfold rollbackTo at hr
  split at hr
  · cases hr
  · rename_i i _
    split at hr
    · cases hr
    · rename_i s rest hd
      cases hr
      have hs : s ∈ c.mgr := List.mem_of_mem_drop (by rw [hd]; simp)
      exact ⟨h.2 s hs, fun t ht => h.2 t (List.mem_of_mem_take ht)⟩

theorem secInv_returnOwnCommit (c : Cl) (h : SecInv c) : SecInv (returnOwnCommit c).1 := ⟨pendOK_syncRec h.1, h.2⟩

theorem secInv_notBetterResult (c : Cl) (e : Ev) (h : SecInv c) : SecInv (notBetterResult c e).1 := by
  unfold notBetterResult
  split
  · split
    · exact secInv_returnOwnCommit c h
    · exact h
  · exact h

theorem secInv_ownMessage (c : Cl) (e : Ev) (h : SecInv c) : SecInv (ownMessage c e).1 := by
  unfold ownMessage
  repeat' split
  all_goals first | exact h | exact secInv_returnOwnCommit c h | exact ⟨h.1, h.2⟩

theorem secInv_storeApp (c : Cl) (e : Ev) (m t k : Nat) (h : SecInv c) : SecInv (storeApp c e m t k).1 :=
  ⟨pendOK_updLast m t h.1, h.2⟩

theorem secInv_processCommit (c : Cl) (e : Ev) (b : Body) (sw : List Nat) (h : SecInv c) : SecInv (processCommit c e b sw).1 := by
  unfold processCommit
  split
  · exact h
  · split
    · exact ⟨pendOK_congr (g := mergeCommit c.maxPast (mgrCreate c (epochOf c.g.path) e).g e) rfl rfl rfl
        (pendOK_mergeCommit _ e h.1), (secInv_mgrCreate c _ e h).2⟩
    · exact ⟨pendOK_syncRec (pendOK_ensure _), (secInv_mgrCreate c _ e h).2⟩

theorem secInv_wrongEpochCommit (retry : Cl → Option (Cl × Res)) (c : Cl) (e : Ev) (ee : Nat) (h : SecInv c)
    (hretry : ∀ c1 r, SecInv c1 → retry c1 = some r → SecInv r.1) : SecInv (wrongEpochCommit retry c e ee).1 := by
  unfold wrongEpochCommit
  split
  · split
    · rename_i c1 hr
      split
      · rename_i r hrr
        exact hretry c1 r (secInv_rollbackTo c c1 ee h hr) hrr
      · exact secInv_notBetterResult c e h
    · exact secInv_notBetterResult c e h
  · exact secInv_notBetterResult c e h

theorem secInv_step1 (retry : Cl → Option (Cl × Res)) (nx : Nat) (c : Cl) (e : Ev) (h : SecInv c)
    (hretry : ∀ c1 r, SecInv c1 → retry c1 = some r → SecInv r.1) : SecInv (step1 retry nx c e).1 := by
  have hw := secInv_withSecret c h
  unfold step1
  split
  · exact h
  · split
    · exact h
    · simp only
      split
      · exact hw
      · split
        · -- commit
          split
          · exact secInv_wrongEpochCommit retry _ e _ hw hretry
          · split
            · split
              · exact ⟨pendOK_syncRec (pendOK_ensure _), (secInv_mgrCreate _ _ e hw).2⟩
              · exact secInv_ownMessage _ e hw
            · split
              · exact hw
              · exact secInv_processCommit _ e _ _ ⟨pendOK_congr rfl rfl rfl hw.1, hw.2⟩
        · -- leave
          split
          · exact hw
          · split
            · exact secInv_ownMessage _ e hw
            · split
              · exact hw
              · split
                · exact ⟨pendOK_ensure _, hw.2⟩
                · exact ⟨pendOK_congr rfl rfl rfl hw.1, hw.2⟩
        · -- app
          split
          · exact hw
          · split
            · exact hw
            · split
              · exact secInv_ownMessage _ e hw
              · split
                · exact hw
                · exact secInv_storeApp _ e _ _ _ ⟨pendOK_congr rfl rfl rfl hw.1, hw.2⟩

theorem secInv_deliverOnce (retry : Cl → Option (Cl × Res)) (nx : Nat) (c : Cl) (e : Ev) (h : SecInv c)
    (hretry : ∀ c1 r, SecInv c1 → retry c1 = some r → SecInv r.1) : SecInv (deliverOnce retry nx c e).1 := by
  unfold deliverOnce
  split
  · split
    · exact h
    · exact secInv_step1 retry nx c e h hretry
  · exact secInv_step1 retry nx c e h hretry

theorem secInv_deliverN (fuel nx : Nat) (c : Cl) (e : Ev) (h : SecInv c) : SecInv (deliverN fuel nx c e).1 := by
  induction fuel generalizing c with
  | zero => exact secInv_deliverOnce _ nx c e h (by intro c1 r _ hr; cases hr)
  | succ f ih =>
    apply secInv_deliverOnce _ nx c e h
    intro c1 r hc1 hr
    cases hr
    exact ih c1 hc1

theorem secInv_send (c : Cl) (n ts idn mid mts tok : Nat) (h : SecInv c) : SecInv (send c n ts idn mid mts tok).1 := by
  unfold send
  repeat' split
  all_goals first | exact h | exact ⟨pendOK_updLast _ _ (pendOK_ensure _), h.2⟩

theorem secInv_stageCommit (c : Cl) (n ts idn : Nat) (b : Body) (na : Bool) (h : SecInv c) : SecInv (stageCommit c n ts idn b na).1 := by
  unfold stageCommit
  repeat' split
  all_goals first | exact h | exact ⟨fun _ => hasCur_ensureSecret c.g, h.2⟩

theorem secInv_updateData (c : Cl) (n ts idn : Nat) (u : DataUpd) (h : SecInv c) : SecInv (updateData c n ts idn u).1 := by
  unfold updateData
  repeat' split
  all_goals first | exact h | exact secInv_stageCommit c n ts idn _ true h

theorem secInv_removeMembers (c : Cl) (n ts idn : Nat) (who : List Nat) (h : SecInv c) : SecInv (removeMembers c n ts idn who).1 := by
  unfold removeMembers
  repeat' split
  all_goals first | exact h | exact secInv_stageCommit c n ts idn _ true h

theorem secInv_addMembers (c : Cl) (n ts idn : Nat) (who : List Nat) (h : SecInv c) : SecInv (addMembers c n ts idn who).1 := by
  unfold addMembers
  repeat' split
  all_goals first | exact h | exact secInv_stageCommit c n ts idn _ true h

theorem secInv_leave (c : Cl) (n ts idn : Nat) (h : SecInv c) : SecInv (leave c n ts idn).1 := by
  unfold leave
  repeat' split
  all_goals first | exact h | exact ⟨fun _ => hasCur_ensureSecret c.g, h.2⟩

theorem secInv_merge (c : Cl) (h : SecInv c) : SecInv (merge c).1 := by
  unfold merge
  split
  · exact h
  · split
    · exact h
    · split
      · exact ⟨pendOK_syncRec (pendOK_mergeCommit _ _ h.1), h.2⟩
      · exact ⟨pendOK_syncRec h.1, h.2⟩

theorem secInv_clear (c : Cl) (h : SecInv c) : SecInv (clear c).1 := by
  unfold clear
  split
  · exact h
  · exact ⟨pendOK_of_none rfl, h.2⟩

theorem secInv_restart (c : Cl) (h : SecInv c) : SecInv (restart c).1 := by
  unfold restart
  split
  · refine ⟨h.1, ?_⟩
    intro s hs
    simp only [List.mem_map] at hs
    obtain ⟨t, ht, rfl⟩ := hs
    exact h.2 t ht
  · exact h

theorem secInv_join (c : Cl) (mp : Nat) (g : GState) (e : Ev) (h : SecInv c) : SecInv (join c (welcomeState mp g e)) := by
  unfold join
  split
  · exact h
  · exact ⟨pendOK_of_none rfl, fun s hs => by cases hs⟩

theorem secInv_init (id : Nat) (p : Bool) (r : Nat) (ms as : List Nat) (name : Nat) : SecInv (initCl id p r ms as name) :=
  ⟨pendOK_of_none rfl, fun s hs => by cases hs⟩

open MdkVerif.Props.C08 (COp)

/-- both invariants the one-sided steps use: the stored record mirrors the MLS state (`C08.Inv`) and `SecInv` -/
def IInv (c : Cl) : Prop := MdkVerif.Props.C08.Inv c ∧ SecInv c

theorem iinv_init (id : Nat) (p : Bool) (r : Nat) (ms as : List Nat) (name : Nat) : IInv (initCl id p r ms as name) :=
  ⟨MdkVerif.Props.C08.inv_init id p r ms as name, secInv_init id p r ms as name⟩

/-- every API call keeps them -/
theorem iinv_rstep (c : Cl) (o : COp) (h : IInv c) : IInv (rstep c o).1 := by
  cases o with
  | deliver e nx => exact ⟨MdkVerif.Props.C08.inv_deliverN 3 nx c e h.1, secInv_deliverN 3 nx c e h.2⟩
  | send n ts idn mid mts tok => exact ⟨MdkVerif.Props.C08.inv_send c n ts idn mid mts tok h.1, secInv_send c n ts idn mid mts tok h.2⟩
  | stage n ts idn b na => exact ⟨MdkVerif.Props.C08.inv_stageCommit c n ts idn b na h.1, secInv_stageCommit c n ts idn b na h.2⟩
  | data n ts idn u => exact ⟨MdkVerif.Props.C08.inv_updateData c n ts idn u h.1, secInv_updateData c n ts idn u h.2⟩
  | remove n ts idn who => exact ⟨MdkVerif.Props.C08.inv_removeMembers c n ts idn who h.1, secInv_removeMembers c n ts idn who h.2⟩
  | add n ts idn who => exact ⟨MdkVerif.Props.C08.inv_addMembers c n ts idn who h.1, secInv_addMembers c n ts idn who h.2⟩
  | join mp g e => exact ⟨MdkVerif.Props.C08.inv_join c mp g e h.1, secInv_join c mp g e h.2⟩
  | leave n ts idn => exact ⟨MdkVerif.Props.C08.inv_leave c n ts idn h.1, secInv_leave c n ts idn h.2⟩
  | merge => exact ⟨MdkVerif.Props.C08.inv_merge c h.1, secInv_merge c h.2⟩
  | clear => exact ⟨MdkVerif.Props.C08.inv_clear c h.1, secInv_clear c h.2⟩
  | restart => exact ⟨MdkVerif.Props.C08.inv_restart c h.1, secInv_restart c h.2⟩

instance (c : Cl) : Decidable (IInv c) := by unfold IInv MdkVerif.Props.C08.Inv; infer_instance

/-! ## one-sided steps: a delivery without effect, in one run only -/

-- `known` (the event has a dedup record that carries an epoch, or a blocking one) is defined next to `handled` in Model/Handled.lean

/-- `c1` is `c` after a delivery of event number `n` that had no effect: inside the relation with the record of `n`
    free — and, if `c` held a record of `n` with an epoch, that record is unchanged or stuck now -/
def Touch (n : Nat) (c c1 : Cl) : Prop :=
  Eqv [] [n] [] c c1 ∧ ∀ r, getRec c n = some r → r.epoch.isSome = true → getRec c1 n = getRec c n ∨ Stuck (getRec c1 n)

theorem touch_refl (n : Nat) (c : Cl) : Touch n c c := ⟨Eqv.refl _ _ _ c, fun _ _ _ => Or.inl rfl⟩

theorem withSecret_eq_wc (c : Cl) : withSecret c = wc c (ens c.g.path c.g.secrets) c.g.consumed c.recs c.mgr := by
  show ({ c with g := ensureSecret c.g } : Cl) = _
  rw [ensureSecret_eq]; rfl

theorem touch_withSecret (n : Nat) (c : Cl) (hp : PendOK c.g) : Touch n c (withSecret c) := by
  refine ⟨⟨ens c.g.path c.g.secrets, c.g.consumed, c.recs, c.mgr, withSecret_eq_wc c, SecRel.ens_right hp, ConsRel.refl _ _,
    RecRel.refl _ _ _, MRel.refl _ _⟩, fun _ _ _ => Or.inl rfl⟩

theorem touch_setRec {n : Nat} {c c1 : Cl} (h : Touch n c c1) (v : Rec)
    (hv : ∀ r, getRec c n = some r → r.epoch.isSome = true → (v.state = 3 ∨ v.state = 4) ∧ v.epoch.isSome = true) :
    Touch n c (setRec c1 n v) := by
  obtain ⟨⟨s, k, r, m, rfl, hs, hk, hr, hm⟩, _⟩ := h
  refine ⟨⟨s, k, ainsert n v r, m, rfl, hs, hk, ?_, hm⟩, ?_⟩
  · intro x
    rw [alookup_ainsert]
    by_cases hx : x = n
    · exact Or.inr (Or.inr (by simp [hx]))
    · simp only [hx, if_false]; exact hr x
  · intro r0 h0 he
    right
    refine ⟨v, ?_, hv r0 h0 he⟩
    show alookup n (ainsert n v r) = some v
    exact alookup_ainsert_self n v r

theorem failRec_stuck (r : Rec) (he : r.epoch.isSome = true) (b : Bool) (ep : Option Nat) :
    ((failRec (some r) b ep).state = 3 ∨ (failRec (some r) b ep).state = 4) ∧ (failRec (some r) b ep).epoch.isSome = true := by
  refine ⟨Or.inl rfl, ?_⟩
  unfold failRec
  cases ep with
  | some x => rfl
  | none => exact he

/-- `record_failure` on a client whose record of `n` is still the original one -/
theorem touch_recordFailure {n : Nat} {c c1 : Cl} (h : Touch n c c1) (hn : getRec c1 n = getRec c n) (b : Bool) (ep : Option Nat) :
    Touch n c (recordFailure c1 n b ep) := by
  rw [recordFailure_eq, hn]
  refine touch_setRec h _ ?_
  intro r h0 he
  rw [h0]; exact failRec_stuck r he b ep

theorem syncRec_of_synced (g : GState) (h : Synced g) : syncRec g = g := by
  cases g
  simp only [Synced] at h
  obtain ⟨h1, h2, h3, h4, h5, h6⟩ := h
  subst h1 h2 h3 h4 h5 h6
  rfl

theorem touch_returnOwnCommit {n : Nat} {c c1 : Cl} (h : Touch n c c1) (hs : Synced c1.g) : Touch n c (returnOwnCommit c1).1 := by
  unfold returnOwnCommit
  rw [syncRec_of_synced _ hs]; exact h

theorem touch_failUnprocessable {n : Nat} {c c1 : Cl} (h : Touch n c c1) (e : Ev) (he : e.n = n) (hn : getRec c1 n = getRec c n) :
    Touch n c (failUnprocessable c1 e).1 := by
  unfold failUnprocessable
  rw [he]; dsimp only; exact touch_recordFailure h hn _ _

theorem touch_notBetterResult {n : Nat} {c c1 : Cl} (h : Touch n c c1) (e : Ev) (he : e.n = n) (hn : getRec c1 n = getRec c n)
    (hs : Synced c1.g) : Touch n c (notBetterResult c1 e).1 := by
  unfold notBetterResult
  split
  · split
    · exact touch_returnOwnCommit h hs
    · exact touch_failUnprocessable h e he hn
  · exact touch_failUnprocessable h e he hn

/-- **one pass over a handled event**: whatever the state, the delivery stays inside `Touch` -/
theorem touch_step1_handled (retry : Cl → Option (Cl × Res)) (nx : Nat) (c : Cl) (e : Ev) (hi : IInv c)
    (hg : routes c e = true) (hh : handledInner c e = true) : Touch e.n c (step1 retry nx c e).1 := by
  have hw : Touch e.n c (withSecret c) := touch_withSecret e.n c hi.2.1
  have hnw : getRec (withSecret c) e.n = getRec c e.n := rfl
  unfold step1
  simp only [hg, Bool.not_true, Bool.false_eq_true, if_false]
  unfold handledInner at hh
  by_cases hact : c.g.active = false
  · simp only [hact, Bool.not_false, if_true]
    exact touch_recordFailure (touch_refl _ _) rfl _ _
  have hact' : c.g.active = true := by simpa using hact
  have hs' : Synced (withSecret c).g := synced_withSecret c (hi.1.1 hact')
  simp only [hact', Bool.not_true, Bool.false_eq_true, if_false]
  split
  · dsimp only; exact touch_recordFailure hw hnw _ _
  · cases hk : e.kind with
    | commit b sw =>
      simp only [hk, Bool.and_eq_true, bne_iff_ne, ne_eq, Bool.not_eq_true'] at hh
      obtain ⟨hne, hnb⟩ := hh
      have h1 : (epochOf e.path != epochOf (withSecret c).g.path) = true := by simp [hne]
      simp only [h1, if_true]
      unfold wrongEpochCommit
      simp only [withSecret_isBetter, hnb, Bool.false_eq_true, if_false]
      exact touch_notBetterResult hw e rfl hnw hs'
    | leave =>
      simp only [hk] at hh
      simp only
      split
      · exact touch_failUnprocessable hw e rfl hnw
      · rcases (Bool.or_eq_true _ _).mp hh with h1 | h1
        · simp only [Bool.and_eq_true, bne_iff_ne, ne_eq] at h1
          have h2 : (e.sender == c.id) = false := by simpa using h1.1
          have hc' : (withSecret c).g.consumed.contains e.cipher = true := by rw [withSecret_consumed]; exact h1.2
          simp only [withSecret_id, h2, Bool.false_eq_true, if_false, hc', if_true]
          exact touch_failUnprocessable hw e rfl hnw
        · simp only [Bool.and_eq_true, beq_iff_eq] at h1
          have he : (e.sender == c.id) = true := by simpa using h1.1
          simp only [withSecret_id, he, if_true]
          unfold ownMessage
          simp only [withSecret_getRec]
          cases hr : getRec c e.n with
          | none => simp [hr] at h1
          | some r =>
            have h1s : r.state = 2 := by simpa [hr] using h1.2
            simp only [h1s]
            exact touch_returnOwnCommit hw hs'
    | app mid mts tok =>
      simp only [hk] at hh
      simp only
      split
      · exact touch_failUnprocessable hw e rfl hnw
      · split
        · exact touch_failUnprocessable hw e rfl hnw
        · rcases (Bool.or_eq_true _ _).mp hh with h1 | h1
          · simp only [Bool.and_eq_true, bne_iff_ne, ne_eq] at h1
            have h2 : (e.sender == c.id) = false := by simpa using h1.1
            have hc' : (withSecret c).g.consumed.contains e.cipher = true := by rw [withSecret_consumed]; exact h1.2
            simp only [withSecret_id, h2, Bool.false_eq_true, if_false, hc', if_true]
            exact touch_failUnprocessable hw e rfl hnw
          · simp only [Bool.and_eq_true, beq_iff_eq] at h1
            have he : (e.sender == c.id) = true := by simpa using h1.1
            simp only [withSecret_id, he, if_true]
            unfold ownMessage
            simp only [withSecret_getRec]
            cases hr : getRec c e.n with
            | none => simp [hr] at h1
            | some r =>
              have h1s : r.state = 1 := by simpa [hr] using h1.2
              simp only [h1s]
              exact hw

/-- **`process_message` on a handled event** (every fuel): the client stays inside `Touch` -/
theorem touch_deliverN_handled (fuel nx : Nat) (c : Cl) (e : Ev) (hi : IInv c) (hh : handled c e = true) :
    Touch e.n c (deliverN fuel nx c e).1 := by
  unfold handled at hh
  have key : ∀ retry, (routes c e = false ∨ handledInner c e = true) → Touch e.n c (step1 retry nx c e).1 := by
    intro retry h
    by_cases hg : routes c e = true
    · rcases h with h | h
      · rw [hg] at h; cases h
      · exact touch_step1_handled retry nx c e hi hg h
    · have hg' : routes c e = false := by simpa using hg
      unfold step1
      simp only [hg', Bool.not_false, if_true]
      exact touch_recordFailure (touch_refl _ _) rfl _ _
  cases hr : getRec c e.n with
  | some r =>
    by_cases hb : (r.state == 3 || r.state == 4) = true
    · cases fuel <;> simp only [deliverN, deliverOnce, hr, hb, if_true] <;> exact touch_refl _ _
    · have hb' : (r.state == 3 || r.state == 4) = false := by simpa using hb
      simp only [hr, hb', Bool.false_or, Bool.or_eq_true, Bool.not_eq_true'] at hh
      cases fuel <;> simp only [deliverN, deliverOnce, hr, hb', Bool.false_eq_true, if_false]
      · exact key _ hh
      · exact key _ hh
  | none =>
    simp only [hr, Bool.false_or, Bool.or_eq_true, Bool.not_eq_true'] at hh
    cases fuel <;> simp only [deliverN, deliverOnce, hr]
    · exact key _ hh
    · exact key _ hh

/-- a record that blocks: the delivery returns at the dedup check, the client is untouched -/
theorem blocked_deliverN' (fuel nx : Nat) (c : Cl) (e : Ev) (r : Rec) (hr : getRec c e.n = some r) (hs : r.state = 3 ∨ r.state = 4) :
    (deliverN fuel nx c e).1 = c := by
  cases fuel <;> simp only [deliverN, deliverOnce, hr] <;> rcases hs with hs | hs <;> simp [hs]

theorem blocked_deliverN (fuel nx : Nat) (c : Cl) (e : Ev) (h : Stuck (getRec c e.n)) : (deliverN fuel nx c e).1 = c := by
  obtain ⟨r, hr, hs, _⟩ := h
  exact blocked_deliverN' fuel nx c e r hr hs

/-! ### a refused delivery (C06): `Err`, `Unprocessable`, `PreviouslyFailed`, `IgnoredProposal` -/

def refusal : Res → Bool
  | .unprocessable | .previouslyFailed | .err _ | .ignored => true
  | _ => false

theorem eqv_right_setRecW {S W X : List Nat} {c c1 : Cl} (h : Eqv S W X c c1) (n : Nat) (v : Rec) (hn : n ∈ W) :
    Eqv S W X c (setRec c1 n v) := by
  obtain ⟨s, k, r, m, rfl, hs, hk, hr, hm⟩ := h
  refine ⟨s, k, ainsert n v r, m, rfl, hs, hk, ?_, hm⟩
  intro x
  rw [alookup_ainsert]
  by_cases hx : x = n
  · exact Or.inr (Or.inr (by rw [hx]; exact hn))
  · simp only [hx, if_false]; exact hr x

theorem eqv_right_consume {S W X : List Nat} {c c1 : Cl} (h : Eqv S W X c c1) (x : Nat) (hx : x ∈ X) :
    Eqv S W X c { c1 with g := { c1.g with consumed := x :: c1.g.consumed } } := by
  obtain ⟨s, k, r, m, rfl, hs, hk, hr, hm⟩ := h
  exact ⟨s, x :: k, r, m, rfl, hs, hk.cons_right x hx, hr, hm⟩

/-- "if this outcome is a refusal, the client is the old one up to secrets / the record of `e.n` / the generation of `e.cipher`" -/
def FrameE (e : Ev) (c : Cl) (r : Cl × Res) : Prop := refusal r.2 = true → Eqv [] [e.n] [e.cipher] c r.1

theorem frameE_recordFailure (e : Ev) (c c1 : Cl) (h : Eqv [] [e.n] [e.cipher] c c1) (b : Bool) (ep : Option Nat) (res : Res) :
    FrameE e c (recordFailure c1 e.n b ep, res) := by
  intro _
  rw [recordFailure_eq]
  exact eqv_right_setRecW h e.n _ (by simp)

theorem frameE_fail (e : Ev) (c c1 : Cl) (h : Eqv [] [e.n] [e.cipher] c c1) : FrameE e c (failUnprocessable c1 e) :=
  frameE_recordFailure e c c1 h _ _ _

theorem frameE_ownMessage (e : Ev) (c c1 : Cl) (h : Eqv [] [e.n] [e.cipher] c c1) : FrameE e c (ownMessage c1 e) := by
  unfold FrameE ownMessage
  repeat' split
  all_goals first
    | (intro _; exact h)
    | (intro hr; simp [refusal] at hr; done)
    | (intro hr; simp [refusal, returnOwnCommit] at hr; done)

theorem frameE_notBetter (e : Ev) (c c1 : Cl) (h : Eqv [] [e.n] [e.cipher] c c1) : FrameE e c (notBetterResult c1 e) := by
  unfold notBetterResult
  split
  · split
    · intro hr; simp [refusal, returnOwnCommit] at hr
    · exact frameE_fail e c c1 h
  · exact frameE_fail e c c1 h

/-- one pass, provided no rollback is triggered: refused ⇒ inside the relation -/
theorem step1_refuse_eqv (retry : Cl → Option (Cl × Res)) (nx : Nat) (c : Cl) (e : Ev) (hp : PendOK c.g)
    (hnb : isBetter c (epochOf e.path) e = false) : FrameE e c (step1 retry nx c e) := by
  have hw : Eqv [] [e.n] [e.cipher] c (withSecret c) := (touch_withSecret e.n c hp).1.mono (fun _ h => h) (fun _ h => h) (fun _ h => by cases h)
  unfold step1
  split
  · exact frameE_recordFailure e c c (Eqv.refl _ _ _ c) _ _ _
  · split
    · exact frameE_recordFailure e c c (Eqv.refl _ _ _ c) _ _ _
    · simp only
      split
      · exact frameE_recordFailure e c _ hw _ _ _
      · split
        · -- commit
          split
          · unfold wrongEpochCommit
            simp only [withSecret_isBetter, hnb, Bool.false_eq_true, if_false]
            exact frameE_notBetter e c _ hw
          · split
            · split
              · intro h; simp [refusal] at h
              · exact frameE_ownMessage e c _ hw
            · split
              · exact frameE_fail e c _ hw
              · unfold processCommit
                split
                · exact frameE_recordFailure e c _ (eqv_right_consume hw e.cipher (by simp)) _ _ _
                · split <;> (intro h; simp [refusal] at h)
        · -- leave
          split
          · exact frameE_fail e c _ hw
          · split
            · exact frameE_ownMessage e c _ hw
            · split
              · exact frameE_fail e c _ hw
              · split <;> (intro h; simp [refusal] at h)
        · -- app
          split
          · exact frameE_fail e c _ hw
          · split
            · exact frameE_fail e c _ hw
            · split
              · exact frameE_ownMessage e c _ hw
              · split
                · exact frameE_fail e c _ hw
                · intro h; simp [refusal, storeApp] at h

/-- **`process_message` refusing an event** (every fuel, no rollback triggered): the client stays inside the relation, with the
    record of `e.n` free and the generation of `e.cipher` possibly consumed (the `NonAdmin` refusal decrypts first) -/
theorem refused_eqv (fuel nx : Nat) (c : Cl) (e : Ev) (hp : PendOK c.g) (hnb : isBetter c (epochOf e.path) e = false)
    (h : refusal (deliverN fuel nx c e).2 = true) : Eqv [] [e.n] [e.cipher] c (deliverN fuel nx c e).1 := by
  have key : ∀ retry, FrameE e c (deliverOnce retry nx c e) := by
    intro retry
    unfold deliverOnce
    split
    · split
      · intro _; exact Eqv.refl _ _ _ c
      · exact step1_refuse_eqv retry nx c e hp hnb
    · exact step1_refuse_eqv retry nx c e hp hnb
  cases fuel with
  | zero => exact key _ h
  | succ f => exact key _ h

/-! ## histories -/

/-- a history: the final client and the results of ALL calls (`rstep` = `C08.cstep` with the result kept) -/
def hist (c : Cl) : List COp → Cl × List Res
  | [] => (c, [])
  | o :: os => ((hist (rstep c o).1 os).1, (rstep c o).2 :: (hist (rstep c o).1 os).2)

theorem hist_fst (c : Cl) (ops : List COp) : (hist c ops).1 = ops.foldl MdkVerif.Props.C08.cstep c := by
  induction ops generalizing c with
  | nil => rfl
  | cons o os ih => simp only [hist, List.foldl, ih, rstep_fst]

theorem hist_append (c : Cl) (a b : List COp) :
    hist c (a ++ b) = ((hist (hist c a).1 b).1, (hist c a).2 ++ (hist (hist c a).1 b).2) := by
  induction a generalizing c with
  | nil => rfl
  | cons o os ih => simp only [List.cons_append, hist, ih]

theorem hist_length (c : Cl) (ops : List COp) : (hist c ops).2.length = ops.length := by
  induction ops generalizing c with
  | nil => rfl
  | cons o os ih => simp only [hist, List.length_cons, ih]

theorem iinv_hist (c : Cl) (ops : List COp) (h : IInv c) : IInv (hist c ops).1 := by
  induction ops generalizing c with
  | nil => exact h
  | cons o os ih => exact ih _ (iinv_rstep c o h)

/-- every state reachable from a created / joined group by API calls satisfies the invariants -/
theorem iinv_reachable (id : Nat) (p : Bool) (r : Nat) (ms as : List Nat) (name : Nat) (ops : List COp) :
    IInv (hist (initCl id p r ms as name) ops).1 := iinv_hist _ ops (iinv_init id p r ms as name)

/-- what a both-sided step needs: a delivery's event number has the same record in both runs, is not in `W`, and its
    ciphertext is not in `X` -/
def StepOk (W X : List Nat) (c c' : Cl) : COp → Prop
  | .deliver e _ => getRec c' e.n = getRec c e.n ∧ e.cipher ∉ X
  | _ => True

/-- **every API call is a simulation** -/
theorem sim_rstep {S W X : List Nat} {c c' : Cl} (h : Eqv S W X c c') (o : COp) (hs : StepOk W X c c' o) :
    ERes S W X (rstep c o) (rstep c' o) := by
  cases o with
  | deliver e nx => exact sim_deliver h e nx hs.1 hs.2
  | send n ts idn mid mts tok => exact sim_send h n ts idn mid mts tok
  | stage n ts idn b na => exact sim_stageCommit h n ts idn b na
  | data n ts idn u => exact sim_updateData h n ts idn u
  | remove n ts idn who => exact sim_removeMembers h n ts idn who
  | add n ts idn who => exact sim_addMembers h n ts idn who
  | join mp g e => exact eres_mk (sim_join h _)
  | leave n ts idn => exact sim_leave h n ts idn
  | merge => exact sim_merge h
  | clear => exact sim_clear h
  | restart => exact sim_restart h

/-- the call is not a delivery of an event number in `W` or of a ciphertext in `X` -/
def avoids (W X : List Nat) : COp → Bool
  | .deliver e _ => !(W.contains e.n) && !(X.contains e.cipher)
  | _ => true

theorem stepOk_of_avoids {W X : List Nat} {c c' : Cl} (h : Eqv [] W X c c') (o : COp) (ha : avoids W X o = true) : StepOk W X c c' o := by
  cases o with
  | deliver e nx =>
    simp only [avoids, Bool.and_eq_true, Bool.not_eq_true', List.contains_eq_mem, decide_eq_false_iff_not] at ha
    refine ⟨?_, ha.2⟩
    rcases h.recs e.n with h1 | ⟨h1, _⟩ | h1
    · exact h1
    · cases h1
    · exact absurd h1 ha.1
  | _ => trivial

/-- **the simulation for histories, free records (C06)**: related clients run the same calls, none of which delivers an
    event number of `W` or a ciphertext of `X`: every call answers the same, the clients stay related -/
theorem hist_sim {W X : List Nat} (ops : List COp) {c c' : Cl} (h : Eqv [] W X c c') (ha : ops.all (avoids W X) = true) :
    Eqv [] W X (hist c ops).1 (hist c' ops).1 ∧ (hist c' ops).2 = (hist c ops).2 := by
  induction ops generalizing c c' with
  | nil => exact ⟨h, rfl⟩
  | cons o os ih =>
    simp only [List.all_cons, Bool.and_eq_true] at ha
    obtain ⟨h1, h2⟩ := sim_rstep h o (stepOk_of_avoids h o ha.1)
    obtain ⟨i1, i2⟩ := ih h1 ha.2
    exact ⟨i1, by simp only [hist, h2, i2]⟩

/-! ### inserted re-deliveries (C07) -/

/-- a history with inserted deliveries marked -/
inductive IOp where
  | orig (o : COp)
  | ins (e : Ev) (nx : Nat)

/-- the call delivers an event number of `S` -/
def touches (S : List Nat) : COp → Bool
  | .deliver e _ => S.contains e.n
  | _ => false

/-- the ORIGINAL history (inserted deliveries left out): final client, and the results of the original calls — but for
    deliveries of an event number that was inserted BEFORE them (their answer may legitimately differ: the inserted call
    may have left a Failed record) -/
def runA (S : List Nat) (c : Cl) : List IOp → Cl × List Res
  | [] => (c, [])
  | .ins e _ :: os => runA (e.n :: S) c os
  | .orig o :: os =>
    ((runA S (rstep c o).1 os).1, if touches S o then (runA S (rstep c o).1 os).2 else (rstep c o).2 :: (runA S (rstep c o).1 os).2)

/-- the history WITH the inserted deliveries: final client, results of the same original calls -/
def runB (S : List Nat) (c : Cl) : List IOp → Cl × List Res
  | [] => (c, [])
  | .ins e nx :: os => runB (e.n :: S) (deliver c e nx).1 os
  | .orig o :: os =>
    ((runB S (rstep c o).1 os).1, if touches S o then (runB S (rstep c o).1 os).2 else (rstep c o).2 :: (runB S (rstep c o).1 os).2)

/-- hypothesis of the insertion theorem, on the ORIGINAL run alone: every inserted event is handled and known where it is
    inserted; every original delivery of an event number inserted before it is of a handled event -/
def okIns (S : List Nat) (c : Cl) : List IOp → Bool
  | [] => true
  | .ins e _ :: os => handled c e && known c e && okIns (e.n :: S) c os
  | .orig o :: os =>
    (match o with
     | .deliver e _ => !(S.contains e.n) || handled c e
     | _ => true) && okIns S (rstep c o).1 os

/-- the event numbers inserted -/
def insNums (S : List Nat) : List IOp → List Nat
  | [] => S
  | .ins e _ :: os => insNums (e.n :: S) os
  | .orig _ :: os => insNums S os

theorem handled_transfer {S : List Nat} {c c' : Cl} (h : Eqv S [] [] c c') (e : Ev) (hn : getRec c' e.n = getRec c e.n) :
    handled c' e = handled c e := by
  have hb := h.isBetter (epochOf e.path) e
  have hro := h.routes e
  have hcons : c'.g.consumed.contains e.cipher = c.g.consumed.contains e.cipher := h.cons e.cipher (by simp)
  have hid : c'.id = c.id := by obtain ⟨s, k, r, m, rfl, _⟩ := h; rfl
  have hp : c'.g.path = c.g.path := by obtain ⟨s, k, r, m, rfl, _⟩ := h; rfl
  unfold handled handledInner
  rw [hn, hro, hb, hcons, hid, hp]

theorem known_transfer {c c' : Cl} (e : Ev) (hn : getRec c' e.n = getRec c e.n) : known c' e = known c e := by
  unfold known; rw [hn]

/-- `Touch` plus `known`: the record of `n` is equal or stuck afterwards — the relation with `n` in `S` -/
theorem touch_eqvS {c c1 : Cl} (e : Ev) (h : Touch e.n c c1) (hk : known c e = true) (hb : ∀ r, getRec c e.n = some r → (r.state = 3 ∨ r.state = 4) → c1 = c) :
    Eqv [e.n] [] [] c c1 := by
  unfold known at hk
  cases hr : getRec c e.n with
  | none => simp [hr] at hk
  | some r0 =>
    simp only [hr, Bool.or_eq_true, beq_iff_eq] at hk
    by_cases hbl : r0.state = 3 ∨ r0.state = 4
    · rw [hb r0 hr hbl]; exact Eqv.refl _ _ _ c
    · have he : r0.epoch.isSome = true := by
        rcases hk with (h1 | h1) | h1
        · exact h1
        · exact absurd (Or.inl h1) hbl
        · exact absurd (Or.inr h1) hbl
      obtain ⟨⟨s, k, r, m, rfl, hs, hkk, hrr, hm⟩, h2⟩ := h
      refine ⟨s, k, r, m, rfl, hs, hkk, ?_, hm⟩
      intro x
      rcases hrr x with h1 | ⟨h1, _⟩ | h1
      · exact Or.inl h1
      · cases h1
      · have hx : x = e.n := by simpa using h1
        subst hx
        rcases h2 r0 hr he with h3 | h3
        · exact Or.inl h3
        · exact Or.inr (Or.inl ⟨by simp, h3⟩)

/-- **one-sided step, right run**: an inserted re-delivery of an event that is handled and known in the ORIGINAL run -/
theorem ins_right {S : List Nat} {c c' : Cl} (h : Eqv S [] [] c c') (hi' : IInv c') (e : Ev) (nx : Nat)
    (hh : handled c e = true) (hk : known c e = true) : Eqv (e.n :: S) [] [] c (deliver c' e nx).1 := by
  have hmono : Eqv (e.n :: S) [] [] c c' := h.mono (fun _ hx => List.mem_cons_of_mem _ hx) (fun _ hx => hx) (fun _ hx => hx)
  by_cases hn : getRec c' e.n = getRec c e.n
  · have hh' : handled c' e = true := by rw [handled_transfer h e hn]; exact hh
    have hk' : known c' e = true := by rw [known_transfer e hn]; exact hk
    have ht := touch_deliverN_handled 3 nx c' e hi' hh'
    have h1 := touch_eqvS e ht hk' (fun r hr hs => blocked_deliverN' 3 nx c' e r hr hs)
    exact hmono.trans (h1.mono (fun _ hx => by rw [List.mem_singleton.mp hx]; exact List.mem_cons_self ..) (fun _ hx => hx) (fun _ hx => hx))
  · rcases h.recs e.n with h1 | ⟨_, h1⟩ | h1
    · exact absurd h1 hn
    · have : (deliver c' e nx).1 = c' := blocked_deliverN 3 nx c' e h1
      rw [this]; exact hmono
    · cases h1

/-- **one-sided step, left run**: the right run is blocked by a stuck record, the left run re-delivers a handled event -/
theorem ins_left {S : List Nat} {c c' : Cl} (h : Eqv S [] [] c c') (hi : IInv c) (e : Ev) (nx : Nat)
    (hn : getRec c' e.n ≠ getRec c e.n) (hh : handled c e = true) :
    Eqv S [] [] (deliver c e nx).1 (deliver c' e nx).1 ∧ e.n ∈ S := by
  rcases h.recs e.n with h1 | ⟨hS, h1⟩ | h1
  · exact absurd h1 hn
  · have : (deliver c' e nx).1 = c' := blocked_deliverN 3 nx c' e h1
    rw [this]
    exact ⟨h.left_step (touch_deliverN_handled 3 nx c e hi hh).1 (Or.inl ⟨hS, h1⟩), hS⟩
  · cases h1

/-- **the insertion theorem (engine)**: related clients (same records but for stuck ones of `S`); the left one runs the original
    history, the right one the history with the inserted re-deliveries; under `okIns` (a condition on the LEFT run alone)
    they end related — same `proj` — and every original call but the later deliveries of inserted event numbers answered
    the same -/
theorem ins_sim (ops : List IOp) {S : List Nat} {c c' : Cl} (h : Eqv S [] [] c c') (hi : IInv c) (hi' : IInv c')
    (hok : okIns S c ops = true) :
    Eqv (insNums S ops) [] [] (runA S c ops).1 (runB S c' ops).1 ∧ (runB S c' ops).2 = (runA S c ops).2 := by
  induction ops generalizing S c c' with
  | nil => exact ⟨h, rfl⟩
  | cons o os ih =>
    cases o with
    | ins e nx =>
      simp only [okIns, Bool.and_eq_true] at hok
      simp only [runA, runB, insNums]
      exact ih (ins_right h hi' e nx hok.1.1 hok.1.2) hi (iinv_rstep c' (.deliver e nx) hi') hok.2
    | orig o =>
      simp only [okIns, Bool.and_eq_true] at hok
      simp only [runA, runB, insNums]
      have hiA := iinv_rstep c o hi
      have hiB := iinv_rstep c' o hi'
      by_cases hs : StepOk [] [] c c' o
      · obtain ⟨h1, h2⟩ := sim_rstep h o hs
        obtain ⟨i1, i2⟩ := ih h1 hiA hiB hok.2
        exact ⟨i1, by rw [h2, i2]⟩
      · cases o with
        | deliver e nx =>
          have hn : getRec c' e.n ≠ getRec c e.n := fun hx => hs ⟨hx, by simp⟩
          have hS : e.n ∈ S := by
            rcases h.recs e.n with h1 | ⟨h1, _⟩ | h1
            · exact absurd h1 hn
            · exact h1
            · cases h1
          have hc : S.contains e.n = true := by simpa using hS
          have hh : handled c e = true := by
            have := hok.1
            simp only [hc, Bool.not_true, Bool.false_or] at this
            exact this
          obtain ⟨h1, _⟩ := ins_left h hi e nx hn hh
          obtain ⟨i1, i2⟩ := ih h1 hiA hiB hok.2
          refine ⟨i1, ?_⟩
          simp only [touches, hc, if_true]
          exact i2
        | _ => exact absurd trivial hs

/-! ### the same in terms of plain histories: `k` re-deliveries inserted after `pre` -/

/-- along the run, every delivery of event number `n` is of a handled event (decidable, on the original run) -/
def laterHandled (n : Nat) (c : Cl) : List COp → Bool
  | [] => true
  | o :: os =>
    (match o with
     | .deliver e _ => e.n != n || handled c e
     | _ => true) && laterHandled n (rstep c o).1 os

/-- the results of the calls of a history other than the deliveries of event number `n` -/
def resExcept (n : Nat) (c : Cl) : List COp → List Res
  | [] => []
  | o :: os => if touches [n] o then resExcept n (rstep c o).1 os else (rstep c o).2 :: resExcept n (rstep c o).1 os

theorem okIns_orig (S : List Nat) (n : Nat) (hS : ∀ x ∈ S, x = n) (c : Cl) (ops : List COp) (h : laterHandled n c ops = true) :
    okIns S c (ops.map .orig) = true := by
  induction ops generalizing c with
  | nil => rfl
  | cons o os ih =>
    simp only [laterHandled, Bool.and_eq_true] at h
    simp only [List.map_cons, okIns, Bool.and_eq_true]
    refine ⟨?_, ih _ h.2⟩
    cases o with
    | deliver e nx =>
      have h1 := h.1
      simp only [Bool.or_eq_true, bne_iff_ne, ne_eq] at h1
      simp only [Bool.or_eq_true, Bool.not_eq_true', List.contains_eq_mem, decide_eq_false_iff_not]
      rcases h1 with h1 | h1
      · left; intro hm; exact h1 (hS _ hm)
      · right; exact h1
    | _ => rfl

theorem replicate_append_cons (k a : Nat) (S : List Nat) : List.replicate k a ++ a :: S = a :: (List.replicate k a ++ S) := by
  induction k with
  | zero => rfl
  | succ k ih => simp only [List.replicate_succ, List.cons_append, ih]

theorem okIns_replicate (S : List Nat) (c : Cl) (e : Ev) (nx k : Nat) (rest : List IOp) (hh : handled c e = true) (hk : known c e = true)
    (hr : okIns (List.replicate k e.n ++ S) c rest = true) : okIns S c (List.replicate k (.ins e nx) ++ rest) = true := by
  induction k generalizing S with
  | zero => simpa using hr
  | succ k ih =>
    simp only [List.replicate_succ, List.cons_append, okIns, hh, hk, Bool.and_self, Bool.true_and]
    apply ih
    rw [replicate_append_cons]; exact hr

theorem runA_orig (S : List Nat) (n : Nat) (hS : ∀ x, x ∈ S ↔ x = n) (c : Cl) (ops : List COp) :
    runA S c (ops.map .orig) = ((hist c ops).1, resExcept n c ops) := by
  induction ops generalizing c with
  | nil => rfl
  | cons o os ih =>
    have ht : touches S o = touches [n] o := by
      cases o with
      | deliver e nx =>
        simp only [touches]
        by_cases hx : e.n = n
        · have : e.n ∈ S := (hS _).2 hx
          simp [hx, (hS n).2 rfl]
        · have : ¬ e.n ∈ S := fun hm => hx ((hS _).1 hm)
          simp [hx, this]
      | _ => rfl
    simp only [List.map_cons, runA, ih, hist, resExcept, ht]

theorem runB_orig (S : List Nat) (c : Cl) (ops : List IOp) (h : ∀ o ∈ ops, ∃ o', o = .orig o') : runB S c ops = runA S c ops := by
  induction ops generalizing c with
  | nil => rfl
  | cons o os ih =>
    obtain ⟨o', rfl⟩ := h o (List.mem_cons_self ..)
    simp only [runA, runB, ih _ (fun x hx => h x (List.mem_cons_of_mem _ hx))]

theorem runA_replicate (S : List Nat) (c : Cl) (e : Ev) (nx k : Nat) (rest : List IOp) :
    runA S c (List.replicate k (.ins e nx) ++ rest) = runA (List.replicate k e.n ++ S) c rest := by
  induction k generalizing S with
  | zero => rfl
  | succ k ih =>
    simp only [List.replicate_succ, List.cons_append, runA]
    rw [ih]
    rw [replicate_append_cons]

theorem runB_replicate (S : List Nat) (c : Cl) (e : Ev) (nx k : Nat) (rest : List IOp) :
    runB S c (List.replicate k (.ins e nx) ++ rest) =
      runB (List.replicate k e.n ++ S) (hist c (List.replicate k (.deliver e nx))).1 rest := by
  induction k generalizing S c with
  | zero => rfl
  | succ k ih =>
    simp only [List.replicate_succ, List.cons_append, runB, hist]
    rw [ih]
    rw [replicate_append_cons]; rfl

/-- **insertion at one place, any number of times** (engine form of C07's history theorem): after any prefix, `k ≥ 1` deliveries
    of an event that is handled and known there; every later delivery of that event number in the original suffix is of a
    handled event.  Then the suffix ends with the same `proj` in both runs and every call of it other than the deliveries of that
    event number answers the same. -/
theorem insert_handled (c : Cl) (hi : IInv c) (suf : List COp) (e : Ev) (nx k : Nat)
    (hh : handled c e = true) (hk : known c e = true) (hl : laterHandled e.n c suf = true) :
    proj (hist (hist c (List.replicate (k + 1) (.deliver e nx))).1 suf).1 = proj (hist c suf).1 ∧
    resExcept e.n (hist c (List.replicate (k + 1) (.deliver e nx))).1 suf = resExcept e.n c suf := by
  have hS : ∀ x, x ∈ List.replicate (k + 1) e.n ++ [] ↔ x = e.n := by
    intro x; simp [List.mem_replicate]
  have hok : okIns [] c (List.replicate (k + 1) (.ins e nx) ++ suf.map .orig) = true :=
    okIns_replicate [] c e nx (k + 1) _ hh hk (okIns_orig _ e.n (fun x hx => (hS x).1 hx) c suf hl)
  obtain ⟨h1, h2⟩ := ins_sim _ (Eqv.refl [] [] [] c) hi hi hok
  rw [runA_replicate, runB_replicate, runA_orig _ e.n hS, runB_orig _ _ _ (by intro o ho; simp only [List.mem_map] at ho; obtain ⟨o', _, rfl⟩ := ho; exact ⟨o', rfl⟩),
    runA_orig _ e.n hS] at h1 h2
  exact ⟨h1.proj, h2⟩

/-- no call of the history delivers event number `n` -/
def noLater (n : Nat) (ops : List COp) : Bool := ops.all (fun o => !touches [n] o)

theorem resExcept_noLater (n : Nat) (c : Cl) (ops : List COp) (h : noLater n ops = true) : resExcept n c ops = (hist c ops).2 := by
  induction ops generalizing c with
  | nil => rfl
  | cons o os ih =>
    simp only [noLater, List.all_cons, Bool.and_eq_true, Bool.not_eq_true'] at h
    simp only [resExcept, h.1, Bool.false_eq_true, if_false, hist]
    rw [ih _ (by simpa [noLater] using h.2)]

theorem laterHandled_noLater (n : Nat) (c : Cl) (ops : List COp) (h : noLater n ops = true) : laterHandled n c ops = true := by
  induction ops generalizing c with
  | nil => rfl
  | cons o os ih =>
    simp only [noLater, List.all_cons, Bool.and_eq_true, Bool.not_eq_true'] at h
    simp only [laterHandled, Bool.and_eq_true]
    refine ⟨?_, ih _ (by simpa [noLater] using h.2)⟩
    cases o with
    | deliver e nx =>
      have h1 := h.1
      simp only [touches, List.contains_cons, List.contains_nil, Bool.or_false, beq_eq_false_iff_ne, ne_eq] at h1
      simp [h1]
    | _ => rfl

/-! ### refused deliveries inserted at one place (C06) -/

/-- the deliveries, one after the other, are all refused and none of them is judged better than an applied commit -/
def refusedSeq (c : Cl) : List (Ev × Nat) → Bool
  | [] => true
  | p :: r => !isBetter c (epochOf p.1.path) p.1 && refusal (deliver c p.1 p.2).2 && refusedSeq (deliver c p.1 p.2).1 r

def asOps (ins : List (Ev × Nat)) : List COp := ins.map (fun p => .deliver p.1 p.2)

theorem refused_seq_eqv {W X : List Nat} {c c' : Cl} (h : Eqv [] W X c c') (hi' : IInv c') (ins : List (Ev × Nat))
    (hr : refusedSeq c' ins = true) :
    Eqv [] (W ++ ins.map (·.1.n)) (X ++ ins.map (·.1.cipher)) c (hist c' (asOps ins)).1 := by
  induction ins generalizing W X c' with
  | nil => simpa [asOps, hist] using h
  | cons p r ih =>
    simp only [refusedSeq, Bool.and_eq_true, Bool.not_eq_true'] at hr
    have h1 := refused_eqv 3 p.2 c' p.1 hi'.2.1 hr.1.1 hr.1.2
    have h2 : Eqv [] (W ++ [p.1.n]) (X ++ [p.1.cipher]) c (deliver c' p.1 p.2).1 :=
      (h.mono (fun _ hx => hx) (fun _ hx => List.mem_append_left _ hx) (fun _ hx => List.mem_append_left _ hx)).trans
        (h1.mono (fun _ hx => hx) (fun _ hx => List.mem_append_right _ hx) (fun _ hx => List.mem_append_right _ hx))
    have := ih h2 (iinv_rstep c' (.deliver p.1 p.2) hi') hr.2
    have hstep : (rstep c' (.deliver p.1 p.2)).1 = (deliver c' p.1 p.2).1 := rfl
    simpa [asOps, hist, List.append_assoc, hstep] using this

/-- **insertion of refused deliveries** (engine form of C06's history theorem) -/
theorem insert_refused (c : Cl) (hi : IInv c) (ins : List (Ev × Nat)) (suf : List COp) (hr : refusedSeq c ins = true)
    (ha : suf.all (avoids (ins.map (·.1.n)) (ins.map (·.1.cipher))) = true) :
    proj (hist c (asOps ins)).1 = proj c ∧
    proj (hist (hist c (asOps ins)).1 suf).1 = proj (hist c suf).1 ∧ (hist (hist c (asOps ins)).1 suf).2 = (hist c suf).2 := by
  have h0 := refused_seq_eqv (Eqv.refl [] [] [] c) hi ins hr
  simp only [List.nil_append] at h0
  obtain ⟨h1, h2⟩ := hist_sim suf h0 ha
  exact ⟨h0.proj, h1.proj, h2⟩

end MdkVerif.Client.Ins
