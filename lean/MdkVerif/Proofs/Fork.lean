import MdkVerif.Model.Client
import MdkVerif.Proofs.Client
import MdkVerif.Proofs.Store
/-
  MdkVerif.Proofs.Fork — lemmas for the single-fork theorem (C01): the abstract fork machine
  (ported from notes/feasibility/Fork.lean, over MIP-03 keys), equations for `process_message` on a
  sibling commit in each situation, and the simulation between the client model and the machine.
-/
namespace MdkVerif.Fork
open MdkVerif MdkVerif.Client
open MdkVerif.Store (alookup_ainsert_self alookup_ainsert_ne)

/-! ## the MIP-03 order on keys (wrapper timestamp, event id) -/

abbrev Key := Nat × Nat

def klt (a b : Key) : Bool := a.1 < b.1 || (a.1 == b.1 && a.2 < b.2)

theorem klt_irrefl (a : Key) : klt a a = false := by simp [klt]
theorem klt_trans {a b c : Key} (h1 : klt a b = true) (h2 : klt b c = true) : klt a c = true := by
  obtain ⟨a1, a2⟩ := a; obtain ⟨b1, b2⟩ := b; obtain ⟨c1, c2⟩ := c
  simp [klt] at *; omega
theorem klt_total {a b : Key} (h : a ≠ b) : klt a b = true ∨ klt b a = true := by
  obtain ⟨a1, a2⟩ := a; obtain ⟨b1, b2⟩ := b
  simp [klt] at *; omega
theorem klt_asymm {a b : Key} (h : klt a b = true) : klt b a = false := by
  obtain ⟨a1, a2⟩ := a; obtain ⟨b1, b2⟩ := b
  simp [klt] at *; omega

/-! ## the abstract fork machine -/

/-- the part of the client that matters at one fork epoch -/
structure FState where
  applied : Option Key     -- sibling currently applied on top of the parent state (snapshot retained)
  blocked : List Key       -- siblings whose record is Failed / EpochInvalidated (the dedup step blocks them)

def fdeliver (c : FState) (s : Key) : FState :=
  if s ∈ c.blocked then c else
  match c.applied with
  | none => { c with applied := some s }
  | some a =>
    if a = s then c
    else if klt s a then { applied := some s, blocked := a :: c.blocked }
    else { c with blocked := s :: c.blocked }

theorem fdeliver_blocked {c : FState} {s : Key} (h : s ∈ c.blocked) : fdeliver c s = c := by
  simp [fdeliver, h]
theorem fdeliver_none {c : FState} {s : Key} (h : ¬ s ∈ c.blocked) (ha : c.applied = none) :
    fdeliver c s = { c with applied := some s } := by
  simp [fdeliver, h, ha]
theorem fdeliver_same {c : FState} {s : Key} (h : ¬ s ∈ c.blocked) (ha : c.applied = some s) :
    fdeliver c s = c := by
  simp [fdeliver, h, ha]
theorem fdeliver_better {c : FState} {s a : Key} (h : ¬ s ∈ c.blocked) (ha : c.applied = some a)
    (e : a ≠ s) (hl : klt s a = true) : fdeliver c s = { applied := some s, blocked := a :: c.blocked } := by
  simp [fdeliver, h, ha, e, hl]
theorem fdeliver_worse {c : FState} {s a : Key} (h : ¬ s ∈ c.blocked) (ha : c.applied = some a)
    (e : a ≠ s) (hl : ¬ klt s a = true) : fdeliver c s = { c with blocked := s :: c.blocked } := by
  simp [fdeliver, h, ha, e, hl]

def frun (c : FState) (l : List Key) : FState := l.foldl fdeliver c

/-- the applied commit is not blocked and beats everything blocked -/
def FInv (c : FState) : Prop :=
  match c.applied with
  | none => c.blocked = []
  | some a => ¬ a ∈ c.blocked ∧ ∀ b ∈ c.blocked, klt a b = true

theorem finv_deliver (c : FState) (s : Key) (h : FInv c) : FInv (fdeliver c s) := by
  unfold fdeliver
  by_cases hb : s ∈ c.blocked
  · simp only [hb, if_true]; exact h
  · simp only [hb, if_false]
    cases ha : c.applied with
    | none => simp [FInv, ha] at h ⊢; simp [h]
    | some a =>
      simp only [FInv, ha] at h
      obtain ⟨h1, h2⟩ := h
      by_cases e : a = s
      · subst e; simp only [if_true]; simp only [FInv, ha]; exact ⟨h1, h2⟩
      · by_cases hl : klt s a = true
        · simp only [e, hl, if_true, if_false, FInv]
          refine ⟨?_, ?_⟩
          · intro hm; simp at hm; rcases hm with hm | hm
            · exact e hm.symm
            · exact hb hm
          · intro b hbm; simp at hbm; rcases hbm with hbm | hbm
            · subst hbm; exact hl
            · exact klt_trans hl (h2 b hbm)
        · simp only [e, hl, if_false, FInv, ha]
          have hl' : klt a s = true := by
            rcases klt_total e with h | h
            · exact h
            · exact absurd h hl
          refine ⟨?_, ?_⟩
          · intro hm; simp at hm; rcases hm with hm | hm
            · exact e hm
            · exact h1 hm
          · intro b hbm; simp at hbm; rcases hbm with hbm | hbm
            · subst hbm; exact hl'
            · exact h2 b hbm

theorem finv_run (c : FState) (l : List Key) (h : FInv c) : FInv (frun c l) := by
  induction l generalizing c with
  | nil => exact h
  | cons s l ih => exact ih _ (finv_deliver c s h)

/-- every delivered key is applied or blocked afterwards -/
theorem frun_covers : ∀ (l : List Key) (c : FState), FInv c → ∀ s ∈ l,
    (frun c l).applied = some s ∨ s ∈ (frun c l).blocked := by
  intro l
  induction l with
  | nil => intro c _ s hs; cases hs
  | cons x l ih =>
    intro c hc s hs
    have hc' := finv_deliver c x hc
    simp only [frun, List.foldl_cons]
    rcases List.mem_cons.mp hs with rfl | hs'
    · have stepKeep : ∀ (c : FState) (y : Key), (c.applied = some s ∨ s ∈ c.blocked) →
          ((fdeliver c y).applied = some s ∨ s ∈ (fdeliver c y).blocked) := by
        intro c y h
        by_cases hb : y ∈ c.blocked
        · rw [fdeliver_blocked hb]; exact h
        · cases ha : c.applied with
          | none =>
            rw [fdeliver_none hb ha]
            rcases h with h | h
            · rw [ha] at h; cases h
            · right; exact h
          | some a =>
            by_cases e : a = y
            · subst e; rw [fdeliver_same hb ha]; exact h
            · by_cases hl : klt y a = true
              · rw [fdeliver_better hb ha e hl]
                rcases h with h | h
                · right; rw [ha] at h; have := Option.some.inj h; subst this; exact List.mem_cons_self
                · right; exact List.mem_cons_of_mem _ h
              · rw [fdeliver_worse hb ha e hl]
                rcases h with h | h
                · left; exact h
                · right; exact List.mem_cons_of_mem _ h
      have now : (fdeliver c s).applied = some s ∨ s ∈ (fdeliver c s).blocked := by
        by_cases hb : s ∈ c.blocked
        · rw [fdeliver_blocked hb]; right; exact hb
        · cases ha : c.applied with
          | none => rw [fdeliver_none hb ha]; left; rfl
          | some a =>
            by_cases e : a = s
            · subst e; rw [fdeliver_same hb ha]; left; exact ha
            · by_cases hl : klt s a = true
              · rw [fdeliver_better hb ha e hl]; left; rfl
              · rw [fdeliver_worse hb ha e hl]; right; exact List.mem_cons_self
      have pers : ∀ (l : List Key) (c : FState), (c.applied = some s ∨ s ∈ c.blocked) →
          ((l.foldl fdeliver c).applied = some s ∨ s ∈ (l.foldl fdeliver c).blocked) := by
        intro l
        induction l with
        | nil => intro c h; exact h
        | cons y l ih2 => intro c h; exact ih2 _ (stepKeep c y h)
      exact pers l _ now
    · exact ih _ hc' s hs'

/-- the applied key is one of the delivered ones -/
theorem frun_applied_mem : ∀ (l : List Key) (c : FState) (a : Key), (frun c l).applied = some a →
    c.applied = some a ∨ a ∈ l := by
  intro l
  induction l with
  | nil => intro c a h; exact Or.inl h
  | cons x l ih =>
    intro c a h
    simp only [frun, List.foldl_cons] at h
    rcases ih (fdeliver c x) a h with h1 | h1
    · by_cases hb : x ∈ c.blocked
      · rw [fdeliver_blocked hb] at h1; exact Or.inl h1
      · cases ha : c.applied with
        | none =>
          rw [fdeliver_none hb ha] at h1
          exact Or.inr (by cases h1; exact List.mem_cons_self)
        | some a' =>
          by_cases e : a' = x
          · subst e; rw [fdeliver_same hb ha, ha] at h1; exact Or.inl h1
          · by_cases hl : klt x a' = true
            · rw [fdeliver_better hb ha e hl] at h1
              exact Or.inr (by cases h1; exact List.mem_cons_self)
            · rw [fdeliver_worse hb ha e hl] at h1
              exact Or.inl (by rw [← ha]; exact h1)
    · exact Or.inr (List.mem_cons_of_mem _ h1)

/-- MIP-03 at one fork: whatever the order and repetition of the deliveries, some delivered key is
    applied, it beats or equals every delivered key, and every other delivered key is blocked -/
theorem single_fork (l : List Key) (hne : l ≠ []) :
    ∃ a, a ∈ l ∧ (frun ⟨none, []⟩ l).applied = some a ∧
      (∀ s ∈ l, a = s ∨ klt a s = true) ∧ (∀ s ∈ l, s ≠ a → s ∈ (frun ⟨none, []⟩ l).blocked) := by
  have h0 : FInv ⟨none, []⟩ := by simp [FInv]
  have hinv := finv_run _ l h0
  obtain ⟨x, hx⟩ := List.exists_mem_of_ne_nil l hne
  have hcov := frun_covers l _ h0
  cases ha : (frun ⟨none, []⟩ l).applied with
  | none =>
    simp only [FInv, ha] at hinv
    rcases hcov x hx with h | h
    · rw [ha] at h; cases h
    · rw [hinv] at h; cases h
  | some a =>
    simp only [FInv, ha] at hinv
    have hmem : a ∈ l := by
      rcases frun_applied_mem l _ a ha with h | h
      · cases h
      · exact h
    refine ⟨a, hmem, rfl, ?_, ?_⟩
    · intro s hs
      rcases hcov s hs with h | h
      · rw [ha] at h; exact Or.inl (Option.some.inj h)
      · exact Or.inr (hinv.2 s h)
    · intro s hs hne'
      rcases hcov s hs with h | h
      · rw [ha] at h; exact absurd (Option.some.inj h).symm hne'
      · exact h

/-! ## building blocks -/

theorem ensureSecret_of_some (g : GState) (q : Path) (h : alookup (epochOf g.path) g.secrets = some q) :
    ensureSecret g = g := by simp [ensureSecret, h]

theorem ensureSecret_of_none (g : GState) (h : alookup (epochOf g.path) g.secrets = none) :
    ensureSecret g = { g with secrets := ainsert (epochOf g.path) g.path g.secrets } := by simp [ensureSecret, h]

theorem ensureSecret_idem (g : GState) : ensureSecret (ensureSecret g) = ensureSecret g := by
  cases h : alookup (epochOf g.path) g.secrets with
  | some q => rw [ensureSecret_of_some g q h, ensureSecret_of_some g q h]
  | none =>
    rw [ensureSecret_of_none g h]
    exact ensureSecret_of_some _ g.path (by simp [alookup_ainsert_self])

theorem epochOf_snoc (p : Path) (n : Nat) : epochOf (p ++ [n]) = epochOf p + 1 := by simp [epochOf]; omega

theorem snoc_beq (p : Path) (n : Nat) : ((p ++ [n]) == p) = false := by
  have : p ++ [n] ≠ p := by
    intro h
    have := congrArg List.length h
    simp at this
  simpa using this

/-- hypotheses on the client at the fork's parent state -/
structure Base (c0 : Cl) : Prop where
  hasGroup : c0.hasGroup = true
  act : c0.g.active = true
  ret : 1 ≤ c0.retention
  sec0 : alookup (epochOf c0.g.path) c0.g.secrets = none ∨ alookup (epochOf c0.g.path) c0.g.secrets = some c0.g.path
  sec1 : alookup (epochOf c0.g.path + 1) c0.g.secrets = none
  mgr : ∀ s ∈ c0.mgr, s.epoch ≠ epochOf c0.g.path

/-- the parent state with the current epoch's exporter secret stored (what a snapshot saves) -/
def gP (c0 : Cl) : GState := ensureSecret c0.g

theorem gP_path (c0 : Cl) : (gP c0).path = c0.g.path := ensureSecret_path _

theorem gP_sec0 (c0 : Cl) (hb : Base c0) : alookup (epochOf c0.g.path) (gP c0).secrets = some c0.g.path := by
  rcases hb.sec0 with h | h
  · rw [gP, ensureSecret_of_none _ h]; simp [alookup_ainsert_self]
  · rw [gP, ensureSecret_of_some _ _ h]; exact h

theorem gP_sec1 (c0 : Cl) (hb : Base c0) : alookup (epochOf c0.g.path + 1) (gP c0).secrets = none := by
  rcases hb.sec0 with h | h
  · rw [gP, ensureSecret_of_none _ h]
    simp only
    rw [alookup_ainsert_ne _ _ _ _ (by omega)]; exact hb.sec1
  · rw [gP, ensureSecret_of_some _ _ h]; exact hb.sec1

/-- a sibling commit at the fork -/
structure Sib (c0 : Cl) (e : Ev) : Prop where
  path : e.path = c0.g.path
  kind : ∃ b sw, e.kind = .commit b sw ∧ (isAdmin c0.g e.sender || isPureSelfUpdate b sw) = true
  foreign : (e.sender == c0.id) = false
  ts : e.ts ≠ 0
  cipher : e.cipher ∉ c0.g.consumed
  tag : e.tag = c0.g.recNid           -- published under the id in force at the parent state
  nid : ∀ b sw, e.kind = .commit b sw → (applyBody (ensureSecret c0.g) b).nid = c0.g.recNid   -- and it does not rotate it
  me : ∀ b sw, e.kind = .commit b sw → removesMe c0.id b sw = false                          -- nor removes the receiver

/-- a commit created in the parent state (foreign sibling or the client's own) -/
structure Com (c0 : Cl) (e : Ev) : Prop where
  path : e.path = c0.g.path
  kind : ∃ b sw, e.kind = .commit b sw
  ts : e.ts ≠ 0
  tag : e.tag = c0.g.recNid
  nid : ∀ b sw, e.kind = .commit b sw → (applyBody (ensureSecret c0.g) b).nid = c0.g.recNid
  me : ∀ b sw, e.kind = .commit b sw → removesMe c0.id b sw = false

theorem Sib.com {c0 : Cl} {e : Ev} (h : Sib c0 e) : Com c0 e :=
  ⟨h.path, by obtain ⟨b, sw, hk, _⟩ := h.kind; exact ⟨b, sw, hk⟩, h.ts, h.tag, h.nid, h.me⟩

/-- the state after applying sibling `a` on the parent state -/
def childG (c0 : Cl) (a : Ev) : GState := syncRec (ensureSecret (mergeCommit c0.maxPast (gP c0) a))

theorem mergeCommit_path (mp : Nat) (g : GState) (e : Ev) (b : Body) (sw : List Nat) (hk : e.kind = .commit b sw) :
    (mergeCommit mp g e).path = g.path ++ [e.cipher] ∧ (mergeCommit mp g e).secrets = g.secrets := by
  unfold mergeCommit; rw [hk]
  cases b <;> simp [applyBody]

theorem childG_facts (c0 : Cl) (hb : Base c0) (a : Ev) (hs : Com c0 a) :
    (childG c0 a).path = c0.g.path ++ [a.cipher] ∧
    alookup (epochOf c0.g.path + 1) (childG c0 a).secrets = some (c0.g.path ++ [a.cipher]) ∧
    alookup (epochOf c0.g.path) (childG c0 a).secrets = some c0.g.path ∧
    (childG c0 a).recEpoch = epochOf c0.g.path + 1 := by
  obtain ⟨b, sw, hk⟩ := hs.kind
  obtain ⟨hp, hsec⟩ := mergeCommit_path c0.maxPast (gP c0) a b sw hk
  rw [gP_path] at hp
  have hnone : alookup (epochOf (mergeCommit c0.maxPast (gP c0) a).path) (mergeCommit c0.maxPast (gP c0) a).secrets = none := by
    rw [hp, hsec, epochOf_snoc]; exact gP_sec1 c0 hb
  unfold childG
  rw [ensureSecret_of_none _ hnone]
  simp only [syncRec, hp, hsec, epochOf_snoc]
  refine ⟨trivial, by simp [alookup_ainsert_self], ?_, trivial⟩
  rw [alookup_ainsert_ne _ _ _ _ (by omega)]; exact gP_sec0 c0 hb

/-- a commit that does not rotate the nostr group id leaves the id in force where it was -/
theorem childG_recNid (c0 : Cl) (a : Ev) (hs : Com c0 a) : (childG c0 a).recNid = c0.g.recNid := by
  obtain ⟨b, sw, hk⟩ := hs.kind
  have h := hs.nid b sw hk
  have hd := ensureSecret_data (mergeCommit c0.maxPast (gP c0) a)
  simp only [childG, syncRec, hd]
  simp only [mergeCommit, hk, gP]
  exact h

theorem childG_stable (c0 : Cl) (hb : Base c0) (a : Ev) (hs : Com c0 a) :
    ensureSecret (childG c0 a) = childG c0 a ∧ syncRec (childG c0 a) = childG c0 a := by
  obtain ⟨h1, h2, _, _⟩ := childG_facts c0 hb a hs
  constructor
  · exact ensureSecret_of_some _ _ (by rw [h1, epochOf_snoc]; exact h2)
  · simp [childG, syncRec]

theorem outerOpens_parent (c0 : Cl) (hb : Base c0) (e : Ev) (hp : e.path = c0.g.path) : outerOpens (gP c0) e = true := by
  simp [outerOpens, gP_path, gP_sec0 c0 hb, hp]

theorem outerOpens_child (c0 : Cl) (hb : Base c0) (a e : Ev) (hs : Com c0 a) (hp : e.path = c0.g.path) :
    outerOpens (childG c0 a) e = true := by
  obtain ⟨h1, h2, h3, _⟩ := childG_facts c0 hb a hs
  simp only [outerOpens, h1, epochOf_snoc, h2, Bool.or_eq_true, List.any_eq_true]
  right
  refine ⟨0, by simp, ?_⟩
  have h3' : alookup (baseEpoch + c0.g.path.length) (childG c0 a).secrets = some c0.g.path := h3
  simp [hp, epochOf, h3']

/-! ## the consumed-ciphertext list rides along

  Since the model follows OpenMLS in consuming a foreign commit's ratchet generation BEFORE the
  snapshot, the parent state saved in a snapshot differs from the original one in `consumed`.  None of
  the functions below looks at that field. -/

/-- the state with its consumed list replaced -/
def wc (g : GState) (X : List Nat) : GState := { g with consumed := X }

theorem wc_self (g : GState) : wc g g.consumed = g := by cases g; rfl
@[simp] theorem wc_wc (g : GState) (X Y : List Nat) : wc (wc g X) Y = wc g Y := rfl
@[simp] theorem wc_consumed (g : GState) (X : List Nat) : (wc g X).consumed = X := rfl

theorem ensureSecret_wc (g : GState) (X : List Nat) : ensureSecret (wc g X) = wc (ensureSecret g) X := by
  unfold ensureSecret wc
  simp only
  split <;> rfl

theorem syncRec_wc (g : GState) (X : List Nat) : syncRec (wc g X) = wc (syncRec g) X := rfl

theorem mergeCommit_wc (mp : Nat) (g : GState) (X : List Nat) (e : Ev) : mergeCommit mp (wc g X) e = wc (mergeCommit mp g e) X := by
  unfold mergeCommit wc
  split
  · rename_i b sw _
    cases b <;> rfl
  · rfl

theorem outerOpens_wc (g : GState) (X : List Nat) (e : Ev) : outerOpens (wc g X) e = outerOpens g e := rfl

/-- consume a ciphertext (what decrypting a foreign commit does to the ratchet) -/
def consume (c : Cl) (x : Nat) : Cl := { c with g := { c.g with consumed := x :: c.g.consumed } }

/-! ## `process_message` on a commit: which handler runs -/

theorem step1_commit_same (retry : Cl → Option (Cl × Res)) (nx : Nat) (c : Cl) (e : Ev) (b : Body) (sw : List Nat)
    (hg : routes c e = true) (hact : c.g.active = true) (ho : outerOpens (withSecret c).g e = true) (hk : e.kind = .commit b sw)
    (hep : epochOf e.path = epochOf c.g.path) (hf : (e.sender == c.id) = false)
    (hc : e.cipher ∉ c.g.consumed) :
    step1 retry nx c e = processCommit (consume (withSecret c) e.cipher) e b sw := by
  unfold step1
  simp only [consume]
  simp [hg, hact, ho, hk, hep, hf, hc]

theorem step1_commit_wrong (retry : Cl → Option (Cl × Res)) (nx : Nat) (c : Cl) (e : Ev) (b : Body) (sw : List Nat)
    (hg : routes c e = true) (hact : c.g.active = true) (ho : outerOpens (withSecret c).g e = true) (hk : e.kind = .commit b sw)
    (hep : epochOf e.path ≠ epochOf c.g.path) :
    step1 retry nx c e = wrongEpochCommit retry (withSecret c) e (epochOf e.path) := by
  unfold step1
  simp [hg, hact, ho, hk, hep]

theorem processCommit_ok (c : Cl) (e : Ev) (b : Body) (sw : List Nat)
    (ha : (isAdmin c.g e.sender || isPureSelfUpdate b sw) = true) (hme : removesMe c.id b sw = false) :
    processCommit c e b sw =
      (setRec { mgrCreate c (epochOf c.g.path) e with g := syncRec (ensureSecret (mergeCommit c.maxPast c.g e)) } e.n
        { state := 2, epoch := some (epochOf (syncRec (ensureSecret (mergeCommit c.maxPast c.g e))).path), hasGroup := true, mid := none }, .commit) := by
  unfold processCommit
  simp [ha, hme, mgrCreate]

theorem deliverOnce_norec (retry : Cl → Option (Cl × Res)) (nx : Nat) (c : Cl) (e : Ev) (h : getRec c e.n = none) :
    deliverOnce retry nx c e = step1 retry nx c e := by simp [deliverOnce, h]

theorem deliverOnce_blocked (retry : Cl → Option (Cl × Res)) (nx : Nat) (c : Cl) (e : Ev) (r : Rec)
    (h : getRec c e.n = some r) (hs : r.state = 3 ∨ r.state = 4) : (deliverOnce retry nx c e).1 = c := by
  rcases hs with hs | hs <;> simp [deliverOnce, h, hs]

theorem deliverOnce_rec2 (retry : Cl → Option (Cl × Res)) (nx : Nat) (c : Cl) (e : Ev) (r : Rec)
    (h : getRec c e.n = some r) (hs : r.state = 2) : deliverOnce retry nx c e = step1 retry nx c e := by
  simp [deliverOnce, h, hs]


/-! ## the two shapes of the client at the fork -/

/-- the snapshot of the parent state taken when sibling `a` was applied, with consumed list `X` -/
def snapOf (c0 : Cl) (a : Ev) (X : List Nat) : Snap :=
  { epoch := epochOf c0.g.path, commit := a.idnum, ts := a.ts, saved := wc (gP c0) X }

/-- at the parent state (possibly after rollbacks): the parent state up to the consumed list; the snapshot
    manager holds a suffix of the original queue -/
structure PForm (c0 c : Cl) : Prop where
  id : c.id = c0.id
  ret : c.retention = c0.retention
  mp : c.maxPast = c0.maxPast
  hg : c.hasGroup = true
  g : ensureSecret c.g = wc (gP c0) c.g.consumed
  mgr : ∃ k, c.mgr = c0.mgr.drop k

/-- sibling `a` applied: its state (up to the consumed list), and the snapshot of the parent state — with
    the same consumed list — last in the queue -/
structure CForm (c0 : Cl) (a : Ev) (c : Cl) : Prop where
  id : c.id = c0.id
  ret : c.retention = c0.retention
  mp : c.maxPast = c0.maxPast
  hg : c.hasGroup = true
  g : c.g = wc (childG c0 a) c.g.consumed
  mgr : ∃ k, c.mgr = c0.mgr.drop k ++ [snapOf c0 a c.g.consumed]

/-- both shapes are active (neither `ensureSecret`, `mergeCommit` nor `syncRec` touches the flag) -/
theorem pform_active (c0 c : Cl) (hb : Base c0) (hf : PForm c0 c) : c.g.active = true := by
  have := congrArg GState.active hf.g
  rw [ensureSecret_active] at this
  rw [this]
  show (ensureSecret c0.g).active = true
  rw [ensureSecret_active]; exact hb.act

theorem childG_active (c0 : Cl) (hb : Base c0) (a : Ev) : (childG c0 a).active = true := by
  simp only [childG, syncRec, ensureSecret_active]
  have : (mergeCommit c0.maxPast (gP c0) a).active = (gP c0).active := by
    unfold mergeCommit
    split
    · rename_i b sw _
      cases b <;> rfl
    · rfl
  rw [this]
  show (ensureSecret c0.g).active = true
  rw [ensureSecret_active]; exact hb.act

theorem cform_active (c0 : Cl) (hb : Base c0) (a : Ev) (c : Cl) (hf : CForm c0 a c) : c.g.active = true := by
  rw [hf.g]; exact childG_active c0 hb a

/-- at the parent shape an event tagged with the parent's id is routed -/
theorem pform_routes (c0 c : Cl) (e : Ev) (hf : PForm c0 c) (ht : e.tag = c0.g.recNid) : routes c e = true := by
  have h1 : c.g.recNid = c0.g.recNid := by
    have := congrArg GState.recNid hf.g
    rw [ensureSecret_recNid] at this
    rw [this]
    show (ensureSecret c0.g).recNid = _
    exact ensureSecret_recNid _
  simp [routes, hf.hg, ht, h1]

/-- at the child of a commit that keeps the id, too -/
theorem cform_routes (c0 : Cl) (a : Ev) (c : Cl) (e : Ev) (hf : CForm c0 a c) (ha : Com c0 a) (ht : e.tag = c0.g.recNid) :
    routes c e = true := by
  have h1 : c.g.recNid = c0.g.recNid := by
    rw [hf.g]
    exact childG_recNid c0 a ha
  simp [routes, hf.hg, ht, h1]

def rec2 (c0 : Cl) : Rec := { state := 2, epoch := some (epochOf c0.g.path + 1), hasGroup := true, mid := none }
def rec3 (c0 : Cl) : Rec := { state := 3, epoch := some (epochOf c0.g.path + 1), hasGroup := true, mid := none }

theorem drop_snoc {α : Type} (X : List α) (s : α) (j : Nat) (h : j ≤ X.length) : (X ++ [s]).drop j = X.drop j ++ [s] :=
  List.drop_append_of_le_length h

theorem withSecret_eq (c : Cl) (h : ensureSecret c.g = c.g) : withSecret c = c := by
  cases c; simp only [withSecret] at *; simp [h]

theorem childOf_wc (c0 : Cl) (a : Ev) (X : List Nat) :
    syncRec (ensureSecret (mergeCommit c0.maxPast (wc (gP c0) X) a)) = wc (childG c0 a) X := by
  rw [mergeCommit_wc, ensureSecret_wc, syncRec_wc]; rfl

/-- the queue after `mgrCreate` at the parent shape -/
theorem mgrCreate_parent (c0 : Cl) (hb : Base c0) (k ret : Nat) (s : Snap) (hr : ret = c0.retention) :
    ∃ k', (c0.mgr.drop k ++ [s]).drop ((c0.mgr.drop k ++ [s]).length - ret) = c0.mgr.drop k' ++ [s] := by
  have hlen : (c0.mgr.drop k ++ [s]).length - ret ≤ (c0.mgr.drop k).length := by
    have := hb.ret
    simp only [List.length_append, List.length_singleton]
    omega
  exact ⟨k + ((c0.mgr.drop k ++ [s]).length - ret), by rw [drop_snoc _ _ _ hlen, List.drop_drop]⟩

/-- situation 1: at the parent state a sibling without a record, whose ciphertext is not consumed, is applied -/
theorem apply_parent (c0 : Cl) (hb : Base c0) (retry : Cl → Option (Cl × Res)) (nx : Nat) (c : Cl) (e : Ev)
    (hf : PForm c0 c) (hs : Sib c0 e) (hr : getRec c e.n = none) (hc : e.cipher ∉ c.g.consumed) :
    CForm c0 e (deliverOnce retry nx c e).1 ∧ (deliverOnce retry nx c e).1.recs = ainsert e.n (rec2 c0) c.recs ∧
    (deliverOnce retry nx c e).1.g.consumed = e.cipher :: c.g.consumed := by
  obtain ⟨b, sw, hk, hadm⟩ := hs.kind
  have hwg : (withSecret c).g = wc (gP c0) c.g.consumed := hf.g
  have hpath : c.g.path = c0.g.path := by
    have := congrArg GState.path hf.g
    rw [ensureSecret_path] at this; rw [this]; exact gP_path c0
  have hcg : (consume (withSecret c) e.cipher).g = wc (gP c0) (e.cipher :: c.g.consumed) := by
    show ({ (withSecret c).g with consumed := e.cipher :: (withSecret c).g.consumed } : GState) = _
    rw [hwg]; rfl
  rw [deliverOnce_norec _ _ _ _ hr,
    step1_commit_same retry nx c e b sw (pform_routes c0 c e hf hs.tag) (pform_active c0 c hb hf) (by rw [hwg, outerOpens_wc]; exact outerOpens_parent c0 hb e hs.path) hk
      (by rw [hs.path, hpath]) (by rw [hf.id]; exact hs.foreign) hc,
    processCommit_ok _ _ _ _ (by
      rw [hcg]
      have : isAdmin (wc (gP c0) (e.cipher :: c.g.consumed)) e.sender = isAdmin c0.g e.sender := by simp [isAdmin, gP, wc]
      rw [this]; exact hadm) (by
      show removesMe c.id b sw = false
      rw [hf.id]; exact hs.me b sw hk)]
  obtain ⟨k, hk'⟩ := hf.mgr
  have hchild : syncRec (ensureSecret (mergeCommit (consume (withSecret c) e.cipher).maxPast (consume (withSecret c) e.cipher).g e))
      = wc (childG c0 e) (e.cipher :: c.g.consumed) := by
    rw [hcg]
    show syncRec (ensureSecret (mergeCommit c.maxPast _ e)) = _
    rw [hf.mp]; exact childOf_wc c0 e _
  have hcons : (syncRec (ensureSecret (mergeCommit (consume (withSecret c) e.cipher).maxPast (consume (withSecret c) e.cipher).g e))).consumed
      = e.cipher :: c.g.consumed := by rw [hchild]; rfl
  refine ⟨⟨hf.id, hf.ret, hf.mp, hf.hg, ?_, ?_⟩, ?_, ?_⟩
  · show syncRec _ = wc (childG c0 e) (syncRec _).consumed
    rw [hcons]; exact hchild
  · show ∃ k, (mgrCreate (consume (withSecret c) e.cipher) _ e).mgr = _ ++ [snapOf c0 e (syncRec _).consumed]
    rw [hcons]
    simp only [mgrCreate, hcg]
    have hm : (consume (withSecret c) e.cipher).mgr = c0.mgr.drop k := hk'
    have hp' : (wc (gP c0) (e.cipher :: c.g.consumed)).path = c0.g.path := gP_path c0
    rw [hm, hp']
    exact mgrCreate_parent c0 hb k _ _ hf.ret
  · have hep : epochOf (syncRec (ensureSecret (mergeCommit (consume (withSecret c) e.cipher).maxPast (consume (withSecret c) e.cipher).g e))).path = epochOf c0.g.path + 1 := by
      rw [hchild]
      show epochOf (childG c0 e).path = _
      rw [(childG_facts c0 hb e hs.com).1, epochOf_snoc]
    simp only [setRec, hep, rec2]
    rfl
  · exact hcons

def key (e : Ev) : Key := (e.ts, e.idnum)

theorem find_snoc (X : List Snap) (s : Snap) (ep : Nat) (hX : ∀ x ∈ X, x.epoch ≠ ep) (hs : s.epoch = ep) :
    (X ++ [s]).find? (·.epoch == ep) = some s := by
  rw [List.find?_append]
  have : X.find? (·.epoch == ep) = none := by
    apply List.find?_eq_none.mpr; intro x hx; simpa using hX x hx
  simp [this, hs]

theorem findIdx_snoc (X : List Snap) (s : Snap) (ep : Nat) (hX : ∀ x ∈ X, x.epoch ≠ ep) (hs : s.epoch = ep) :
    findIdx (X ++ [s]) ep = some X.length := by
  induction X with
  | nil => simp [findIdx, hs]
  | cons x t ih =>
    have hx : (x.epoch == ep) = false := by simpa using hX x List.mem_cons_self
    simp only [List.cons_append, findIdx, hx, Bool.false_eq_true, if_false,
      ih (fun y hy => hX y (List.mem_cons_of_mem _ hy)), Option.map_some, List.length_cons]

theorem drop_no_epoch (c0 : Cl) (hb : Base c0) (k : Nat) : ∀ x ∈ c0.mgr.drop k, x.epoch ≠ epochOf c0.g.path :=
  fun x hx => hb.mgr x (List.mem_of_mem_drop hx)

/-- at child `a` the MIP-03 comparison is with `a`'s key -/
theorem isBetter_child (c0 : Cl) (hb : Base c0) (a e : Ev) (c : Cl) (hf : CForm c0 a c) (hts : a.ts ≠ 0) :
    isBetter c (epochOf c0.g.path) e = klt (key e) (key a) := by
  obtain ⟨k, hk⟩ := hf.mgr
  unfold isBetter
  rw [hk, find_snoc _ _ _ (drop_no_epoch c0 hb k) rfl]
  simp only [snapOf, klt, key]
  have : (a.ts == 0) = false := by simpa using hts
  simp only [this, Bool.false_eq_true, if_false]
  by_cases h1 : e.ts < a.ts
  · simp [h1]
  · by_cases h2 : e.ts > a.ts
    · have : ¬ e.ts = a.ts := by omega
      simp [h1, h2, this]
    · have : e.ts = a.ts := by omega
      simp only [h1, h2, this, decide_false, Bool.false_or, beq_self_eq_true, Bool.true_and, if_false, Nat.lt_irrefl]
      apply decide_eq_decide.mpr; exact Iff.rfl

/-- the record rewriting of a rollback to epoch `ep` -/
def rbRec1 (ep : Nat) (r : Rec) : Rec :=
  if r.hasGroup && (match r.epoch with | some k => decide (k > ep) | none => false) then { r with state := 4 } else r
def rbRec2 (r : Rec) : Rec :=
  if r.hasGroup && r.state == 3 && r.epoch.isNone then { r with state := 5 } else r
def rbRec (ep : Nat) (r : Rec) : Rec := rbRec2 (rbRec1 ep r)

theorem ite_pair {α β : Type} (c : Prop) [Decidable c] (k : α) (a b : β) :
    (if c then (k, a) else (k, b)) = (k, if c then a else b) := by split <;> rfl

theorem alookup_map_key {α : Type} (f : Nat × α → Nat × α) (F : α → α) (hF : ∀ p, f p = (p.1, F p.2)) (n : Nat)
    (l : List (Nat × α)) : alookup n (l.map f) = (alookup n l).map F := by
  induction l with
  | nil => rfl
  | cons h t ih =>
    obtain ⟨k, v⟩ := h
    simp only [List.map_cons, hF]
    by_cases c : k = n <;> simp [alookup, c, ih]

/-- situation 2a: at child `a`, rolling back to the fork epoch restores the parent shape; records are rewritten -/
theorem rollback_child (c0 : Cl) (hb : Base c0) (a : Ev) (c : Cl) (hf : CForm c0 a c) :
    ∃ c1, rollbackTo c (epochOf c0.g.path) = some c1 ∧ PForm c0 c1 ∧ c1.g.consumed = c.g.consumed ∧
      ∀ n, getRec c1 n = (getRec c n).map (rbRec (epochOf c0.g.path)) := by
  obtain ⟨k, hk⟩ := hf.mgr
  have hidx := findIdx_snoc (c0.mgr.drop k) (snapOf c0 a c.g.consumed) (epochOf c0.g.path) (drop_no_epoch c0 hb k) rfl
  unfold rollbackTo
  rw [hk, hidx]
  simp only [List.drop_left, List.take_left]
  refine ⟨_, rfl, ⟨hf.id, hf.ret, hf.mp, hf.hg, ?_, ⟨k, rfl⟩⟩, rfl, ?_⟩
  · show ensureSecret (snapOf c0 a c.g.consumed).saved = wc (gP c0) (snapOf c0 a c.g.consumed).saved.consumed
    simp only [snapOf, wc_consumed]
    rw [ensureSecret_wc]
    show wc (ensureSecret (ensureSecret c0.g)) _ = _
    rw [ensureSecret_idem]; rfl
  · intro n
    simp only [getRec]
    rw [alookup_map_key _ rbRec2 (by intro p; obtain ⟨k', r⟩ := p; exact ite_pair _ _ _ _),
      alookup_map_key _ (rbRec1 (epochOf c0.g.path)) (by intro p; obtain ⟨k', r⟩ := p; exact ite_pair _ _ _ _)]
    cases alookup n c.recs <;> rfl

theorem deliverN_once (f nx : Nat) (c : Cl) (e : Ev) : ∃ retry, deliverN f nx c e = deliverOnce retry nx c e := by
  cases f with
  | zero => exact ⟨_, rfl⟩
  | succ f => exact ⟨_, rfl⟩

/-- common to the three child situations: the wrong-epoch handler runs on the unchanged client -/
theorem child_wrong (c0 : Cl) (hb : Base c0) (retry : Cl → Option (Cl × Res)) (nx : Nat) (a e : Ev) (c : Cl)
    (hf : CForm c0 a c) (ha : Com c0 a) (hs : Com c0 e) :
    step1 retry nx c e = wrongEpochCommit retry c e (epochOf c0.g.path) := by
  obtain ⟨b, sw, hk⟩ := hs.kind
  have hst := (childG_stable c0 hb a ha).1
  have hw : withSecret c = c := withSecret_eq c (by rw [hf.g, ensureSecret_wc, hst])
  have hpath : c.g.path = c0.g.path ++ [a.cipher] := by rw [hf.g]; exact (childG_facts c0 hb a ha).1
  rw [step1_commit_wrong retry nx c e b sw (cform_routes c0 a c e hf ha hs.tag) (cform_active c0 hb a c hf) (by rw [hw, hf.g, outerOpens_wc]; exact outerOpens_child c0 hb a e ha hs.path) hk
    (by rw [hs.path, hpath, epochOf_snoc]; omega), hw, hs.path]

/-- situation 2b: at child `a`, a worse sibling gets a Failed record; nothing else changes -/
theorem child_worse (c0 : Cl) (hb : Base c0) (retry : Cl → Option (Cl × Res)) (nx : Nat) (a e : Ev) (c : Cl)
    (hf : CForm c0 a c) (ha : Com c0 a) (hs : Sib c0 e) (hr : getRec c e.n = none)
    (hw : klt (key e) (key a) = false) :
    CForm c0 a (deliverOnce retry nx c e).1 ∧ (deliverOnce retry nx c e).1.recs = ainsert e.n (rec3 c0) c.recs ∧
    (deliverOnce retry nx c e).1.g = c.g := by
  have hb' : isBetter c (epochOf c0.g.path) e = false := by rw [isBetter_child c0 hb a e c hf ha.ts]; exact hw
  have hre : c.g.recEpoch = epochOf c0.g.path + 1 := by rw [hf.g]; exact (childG_facts c0 hb a ha).2.2.2
  rw [deliverOnce_norec _ _ _ _ hr, child_wrong c0 hb retry nx a e c hf ha hs.com]
  simp only [wrongEpochCommit, hb', Bool.false_eq_true, if_false, notBetterResult, hr, failUnprocessable, recordFailure, hre]
  refine ⟨⟨hf.id, hf.ret, hf.mp, hf.hg, hf.g, hf.mgr⟩, ?_, rfl⟩
  simp [setRec, rec3]

/-- situation 2c: at child `a`, `a` itself again (its record says ProcessedCommit): nothing changes -/
theorem child_same (c0 : Cl) (hb : Base c0) (retry : Cl → Option (Cl × Res)) (nx : Nat) (a : Ev) (c : Cl)
    (hf : CForm c0 a c) (ha : Com c0 a) (hr : getRec c a.n = some (rec2 c0)) :
    (deliverOnce retry nx c a).1 = c := by
  have hb' : isBetter c (epochOf c0.g.path) a = false := by rw [isBetter_child c0 hb a a c hf ha.ts]; exact klt_irrefl _
  rw [deliverOnce_rec2 _ _ _ _ _ hr rfl, child_wrong c0 hb retry nx a a c hf ha ha]
  simp only [wrongEpochCommit, hb', Bool.false_eq_true, if_false, notBetterResult, hr, rec2, returnOwnCommit]
  have hsy : syncRec c.g = c.g := by rw [hf.g, syncRec_wc, (childG_stable c0 hb a ha).2]
  cases c
  simp only at hsy ⊢
  simp [hsy]

/-- situation 2a: at child `a`, a better sibling: rollback (a's record → EpochInvalidated), then it is applied -/
theorem child_better (c0 : Cl) (hb : Base c0) (f nx : Nat) (a e : Ev) (c : Cl)
    (hf : CForm c0 a c) (ha : Com c0 a) (hs : Sib c0 e) (hr : getRec c e.n = none) (hc : e.cipher ∉ c.g.consumed)
    (hw : klt (key e) (key a) = true) :
    CForm c0 e (deliverN (f + 1) nx c e).1 ∧
    (∀ n, getRec (deliverN (f + 1) nx c e).1 n =
      if n = e.n then some (rec2 c0) else (getRec c n).map (rbRec (epochOf c0.g.path))) ∧
    (deliverN (f + 1) nx c e).1.g.consumed = e.cipher :: c.g.consumed := by
  have hb' : isBetter c (epochOf c0.g.path) e = true := by rw [isBetter_child c0 hb a e c hf ha.ts]; exact hw
  obtain ⟨c1, hrb, hp1, hcons1, hrec1⟩ := rollback_child c0 hb a c hf
  have hr1 : getRec c1 e.n = none := by rw [hrec1, hr]; rfl
  obtain ⟨retry', hret⟩ := deliverN_once f nx c1 e
  have happ := apply_parent c0 hb retry' nx c1 e hp1 hs hr1 (by rw [hcons1]; exact hc)
  have heq : deliverN (f + 1) nx c e = deliverOnce retry' nx c1 e := by
    show deliverOnce (fun c1 => some (deliverN f nx c1 e)) nx c e = _
    rw [deliverOnce_norec _ _ _ _ hr, child_wrong c0 hb _ nx a e c hf ha hs.com]
    simp only [wrongEpochCommit, hb', if_true, hrb, hret]
  rw [heq]
  refine ⟨happ.1, ?_, by rw [happ.2.2, hcons1]⟩
  intro n
  simp only [getRec] at hrec1 ⊢
  rw [happ.2.1]
  by_cases hn : n = e.n
  · subst hn; simp [alookup_ainsert_self]
  · rw [alookup_ainsert_ne _ _ _ _ hn, hrec1]; simp [hn]

/-! ## the simulation -/

/-- the set of sibling commits of the fork -/
structure Sibs (c0 : Cl) (S : List Ev) : Prop where
  sib : ∀ e ∈ S, Sib c0 e
  inj : ∀ e1 ∈ S, ∀ e2 ∈ S, (e1.n = e2.n ∨ key e1 = key e2) → e1 = e2
  cinj : ∀ e1 ∈ S, ∀ e2 ∈ S, e1.cipher = e2.cipher → e1 = e2
  norec : ∀ e ∈ S, getRec c0 e.n = none

/-- every consumed ciphertext was consumed before the fork or belongs to a sibling that has a record -/
def ConsOK (c0 : Cl) (S : List Ev) (c : Cl) : Prop :=
  ∀ x ∈ c.g.consumed, x ∈ c0.g.consumed ∨ ∃ e' ∈ S, e'.cipher = x ∧ getRec c e'.n ≠ none

theorem consOK_fresh (c0 : Cl) (S : List Ev) (c : Cl) (hsib : ∀ e ∈ S, Sib c0 e)
    (hcinj : ∀ e1 ∈ S, ∀ e2 ∈ S, e1.cipher = e2.cipher → e1 = e2) (h : ConsOK c0 S c)
    (e : Ev) (he : e ∈ S) (hr : getRec c e.n = none) : e.cipher ∉ c.g.consumed := by
  intro hm
  rcases h _ hm with x | ⟨e', he', hc, hn⟩
  · exact (hsib e he).cipher x
  · have := hcinj e' he' e he hc
    subst this
    exact hn hr

theorem consOK_step (c0 : Cl) (S : List Ev) (c c' : Cl) (h : ConsOK c0 S c)
    (hrec : ∀ e' ∈ S, getRec c e'.n ≠ none → getRec c' e'.n ≠ none)
    (hcons : c'.g.consumed = c.g.consumed ∨ ∃ e ∈ S, c'.g.consumed = e.cipher :: c.g.consumed ∧ getRec c' e.n ≠ none) :
    ConsOK c0 S c' := by
  intro x hx
  have old : x ∈ c.g.consumed → x ∈ c0.g.consumed ∨ ∃ e' ∈ S, e'.cipher = x ∧ getRec c' e'.n ≠ none := by
    intro hm
    rcases h x hm with y | ⟨e', he', hc, hn⟩
    · exact Or.inl y
    · exact Or.inr ⟨e', he', hc, hrec e' he' hn⟩
  rcases hcons with y | ⟨e, he, y, hn⟩
  · rw [y] at hx; exact old hx
  · rw [y] at hx
    rcases List.mem_cons.mp hx with z | z
    · exact Or.inr ⟨e, he, z.symm, hn⟩
    · exact old z

theorem alookup_ainsert_ne_none {α : Type} (n k : Nat) (v : α) (l : List (Nat × α)) (h : alookup n l ≠ none) :
    alookup n (ainsert k v l) ≠ none := by
  by_cases c : n = k
  · subst c; rw [alookup_ainsert_self]; simp
  · rw [alookup_ainsert_ne _ _ _ _ c]; exact h

/-- a record that makes the dedup step refuse the event, and stays so across rollbacks to the fork epoch -/
def BlockedRec (c0 : Cl) (r : Rec) : Prop :=
  (r.state = 3 ∨ r.state = 4) ∧ r.hasGroup = true ∧ r.epoch = some (epochOf c0.g.path + 1)

theorem rbRec_blocked (c0 : Cl) (r : Rec) (h : r.hasGroup = true ∧ r.epoch = some (epochOf c0.g.path + 1)) :
    BlockedRec c0 (rbRec (epochOf c0.g.path) r) := by
  obtain ⟨h1, h2⟩ := h
  have : rbRec1 (epochOf c0.g.path) r = { r with state := 4 } := by simp [rbRec1, h1, h2]
  simp only [rbRec, this, rbRec2, h2]
  simp [BlockedRec, h1, h2]

structure Rel (c0 : Cl) (S : List Ev) (c : Cl) (st : FState) : Prop where
  cons : ConsOK c0 S c
  par : st.applied = none → PForm c0 c
  chi : ∀ k, st.applied = some k → ∃ a ∈ S, key a = k ∧ CForm c0 a c ∧ getRec c a.n = some (rec2 c0)
  blk : ∀ e ∈ S, key e ∈ st.blocked → ∃ r, getRec c e.n = some r ∧ BlockedRec c0 r
  fresh : ∀ e ∈ S, key e ∉ st.blocked → st.applied ≠ some (key e) → getRec c e.n = none

theorem pform_init (c0 : Cl) (hb : Base c0) : PForm c0 c0 := by
  refine ⟨rfl, rfl, rfl, hb.hasGroup, ?_, ⟨0, by simp⟩⟩
  have : (ensureSecret c0.g).consumed = c0.g.consumed := (ensureSecret_fields c0.g).2.2.2.2.2.2.2.2.2.2.1
  rw [← this]; exact (wc_self _).symm

theorem rel_init (c0 : Cl) (hb : Base c0) (S : List Ev) (hS : Sibs c0 S) : Rel c0 S c0 ⟨none, []⟩ where
  cons := fun x hx => Or.inl hx
  par := fun _ => pform_init c0 hb
  chi := fun k h => by cases h
  blk := fun e _ h => by cases h
  fresh := fun e he _ _ => hS.norec e he

theorem rel_step (c0 : Cl) (hb : Base c0) (S : List Ev) (hS : Sibs c0 S) (c : Cl) (st : FState) (nx : Nat)
    (h : Rel c0 S c st) (hi : FInv st) (e : Ev) (he : e ∈ S) :
    Rel c0 S (deliver c e nx).1 (fdeliver st (key e)) := by
  have hse := hS.sib e he
  by_cases hbl : key e ∈ st.blocked
  · -- already blocked: the dedup step returns at once
    obtain ⟨r, hr, hbr⟩ := h.blk e he hbl
    obtain ⟨retry, hd⟩ := deliverN_once 3 nx c e
    rw [fdeliver_blocked hbl, deliver, hd, deliverOnce_blocked retry nx c e r hr hbr.1]
    exact h
  · cases hap : st.applied with
    | none =>
      -- at the parent state: applied
      have hr := h.fresh e he hbl (by rw [hap]; simp)
      obtain ⟨retry, hd⟩ := deliverN_once 3 nx c e
      obtain ⟨hcf, hrecs, hcons⟩ := apply_parent c0 hb retry nx c e (h.par hap) hse hr
        (consOK_fresh c0 S c hS.sib hS.cinj h.cons e he hr)
      rw [fdeliver_none hbl hap, deliver, hd]
      have hother : ∀ e' ∈ S, key e' ≠ key e → getRec (deliverOnce retry nx c e).1 e'.n = getRec c e'.n := by
        intro e' he' hk
        have hn : e'.n ≠ e.n := fun x => hk (congrArg key (hS.inj e' he' e he (Or.inl x)))
        simp only [getRec, hrecs]; exact alookup_ainsert_ne _ _ _ _ hn
      have hcn : ConsOK c0 S (deliverOnce retry nx c e).1 :=
        consOK_step c0 S c _ h.cons (fun e' _ hn => by simp only [getRec, hrecs]; exact alookup_ainsert_ne_none _ _ _ _ hn)
          (Or.inr ⟨e, he, hcons, by simp only [getRec, hrecs, alookup_ainsert_self]; simp⟩)
      refine ⟨hcn, (fun x => by cases x), ?_, ?_, ?_⟩
      · intro k hk
        cases hk
        exact ⟨e, he, rfl, hcf, by simp only [getRec, hrecs]; exact alookup_ainsert_self _ _ _⟩
      · intro e' he' hb'
        have hk : key e' ≠ key e := fun x => hbl (x ▸ hb')
        rw [hother e' he' hk]; exact h.blk e' he' hb'
      · intro e' he' hb' hna
        have hk : key e' ≠ key e := fun x => hna (by rw [x])
        rw [hother e' he' hk]; exact h.fresh e' he' hb' (by rw [hap]; simp)
    | some ka =>
      obtain ⟨a, haS, hka, hcf, hra⟩ := h.chi ka hap
      have hsa := hS.sib a haS
      have hia : ¬ ka ∈ st.blocked ∧ ∀ b ∈ st.blocked, klt ka b = true := by simpa [FInv, hap] using hi
      by_cases hsame : ka = key e
      · -- the applied sibling again
        have : a = e := hS.inj a haS e he (Or.inr (hka.trans hsame))
        subst this
        obtain ⟨retry, hd⟩ := deliverN_once 3 nx c a
        rw [fdeliver_same hbl (by rw [hap, hsame]), deliver, hd, child_same c0 hb retry nx a c hcf hsa.com hra]
        exact h
      · have hr := h.fresh e he hbl (by rw [hap]; intro x; exact hsame (Option.some.inj x))
        have hne : a ≠ e := fun x => hsame (by rw [← hka, x])
        by_cases hlt : klt (key e) ka = true
        · -- better: rollback and apply
          obtain ⟨hcf', hrec', hcons⟩ := child_better c0 hb 2 nx a e c hcf hsa.com hse hr
            (consOK_fresh c0 S c hS.sib hS.cinj h.cons e he hr) (by rw [hka]; exact hlt)
          rw [fdeliver_better hbl hap hsame hlt]
          show Rel c0 S (deliverN 3 nx c e).1 _
          have hnn : ∀ e' ∈ S, key e' ≠ key e → e'.n ≠ e.n :=
            fun e' he' hk x => hk (congrArg key (hS.inj e' he' e he (Or.inl x)))
          have hcn : ConsOK c0 S (deliverN 3 nx c e).1 :=
            consOK_step c0 S c _ h.cons
              (fun e' _ hn => by
                rw [hrec']
                by_cases z : e'.n = e.n
                · simp [z]
                · simp only [z, if_false]; cases hg : getRec c e'.n with
                  | none => exact absurd hg hn
                  | some r => simp)
              (Or.inr ⟨e, he, hcons, by rw [hrec']; simp⟩)
          refine ⟨hcn, (fun x => by cases x), ?_, ?_, ?_⟩
          · intro k hk
            cases hk
            exact ⟨e, he, rfl, hcf', by rw [hrec']; simp⟩
          · intro e' he' hb'
            have hk : key e' ≠ key e := by
              intro x
              rcases List.mem_cons.mp hb' with y | y
              · exact hsame (y.symm.trans x)
              · exact hbl (x ▸ y)
            rw [hrec', if_neg (hnn e' he' hk)]
            rcases List.mem_cons.mp hb' with y | y
            · have : e' = a := hS.inj e' he' a haS (Or.inr (y.trans hka.symm))
              subst this
              rw [hra]
              exact ⟨_, rfl, rbRec_blocked c0 _ ⟨rfl, rfl⟩⟩
            · obtain ⟨r, hr', hbr⟩ := h.blk e' he' y
              rw [hr']
              exact ⟨_, rfl, rbRec_blocked c0 r ⟨hbr.2.1, hbr.2.2⟩⟩
          · intro e' he' hb' hna
            have hk : key e' ≠ key e := fun x => hna (by rw [x])
            have h1 : key e' ∉ st.blocked := fun x => hb' (List.mem_cons_of_mem _ x)
            have h2 : st.applied ≠ some (key e') := by
              rw [hap]; intro x; exact hb' (by rw [← Option.some.inj x]; exact List.mem_cons_self)
            rw [hrec', if_neg (hnn e' he' hk), h.fresh e' he' h1 h2]; rfl
        · -- worse: Failed record
          have hlt' : klt (key e) (key a) = false := by rw [hka]; simpa using hlt
          obtain ⟨retry, hd⟩ := deliverN_once 3 nx c e
          obtain ⟨hcf', hrecs, hgeq⟩ := child_worse c0 hb retry nx a e c hcf hsa.com hse hr hlt'
          rw [fdeliver_worse hbl hap hsame hlt, deliver, hd]
          have hother : ∀ e' ∈ S, key e' ≠ key e → getRec (deliverOnce retry nx c e).1 e'.n = getRec c e'.n := by
            intro e' he' hk
            have hn : e'.n ≠ e.n := fun x => hk (congrArg key (hS.inj e' he' e he (Or.inl x)))
            simp only [getRec, hrecs]; exact alookup_ainsert_ne _ _ _ _ hn
          have hcn : ConsOK c0 S (deliverOnce retry nx c e).1 :=
            consOK_step c0 S c _ h.cons (fun e' _ hn => by simp only [getRec, hrecs]; exact alookup_ainsert_ne_none _ _ _ _ hn)
              (Or.inl (by rw [hgeq]))
          refine ⟨hcn, (fun x => by rw [hap] at x; cases x), ?_, ?_, ?_⟩
          · intro k hk
            rw [hap] at hk; cases hk
            exact ⟨a, haS, hka, hcf', by rw [hother a haS (by rw [hka]; exact hsame)]; exact hra⟩
          · intro e' he' hb'
            by_cases hk : key e' = key e
            · have : e' = e := hS.inj e' he' e he (Or.inr hk)
              subst this
              refine ⟨rec3 c0, by simp only [getRec, hrecs]; exact alookup_ainsert_self _ _ _, ?_⟩
              simp [BlockedRec, rec3]
            · rw [hother e' he' hk]
              rcases List.mem_cons.mp hb' with y | y
              · exact absurd y hk
              · exact h.blk e' he' y
          · intro e' he' hb' hna
            have hk : key e' ≠ key e := fun x => hb' (by rw [x]; exact List.mem_cons_self)
            rw [hother e' he' hk]
            exact h.fresh e' he' (fun x => hb' (List.mem_cons_of_mem _ x)) hna

theorem rel_run (c0 : Cl) (hb : Base c0) (S : List Ev) (hS : Sibs c0 S) (nx : Nat) (l : List Ev) :
    ∀ (c : Cl) (st : FState), Rel c0 S c st → FInv st → (∀ e ∈ l, e ∈ S) →
      Rel c0 S (l.foldl (fun c e => (deliver c e nx).1) c) (frun st (l.map key)) := by
  induction l with
  | nil => intro c st h _ _; exact h
  | cons e t ih =>
    intro c st h hi hl
    simp only [List.foldl_cons, List.map_cons, frun]
    exact ih _ _ (rel_step c0 hb S hS c st nx h hi e (hl e List.mem_cons_self)) (finv_deliver st _ hi)
      (fun x hx => hl x (List.mem_cons_of_mem _ hx))


/-! ## the fork machine with the client's own commit among the siblings

  The own commit is never recorded as Failed: offered while a better sibling is applied it is answered
  from its ProcessedCommit record (`return_own_commit`) and nothing changes. -/

def fdeliver2 (own : Key) (c : FState) (s : Key) : FState :=
  if s ∈ c.blocked then c else
  match c.applied with
  | none => { c with applied := some s }
  | some a =>
    if a = s then c
    else if klt s a then { applied := some s, blocked := a :: c.blocked }
    else if s = own then c
    else { c with blocked := s :: c.blocked }

theorem fdeliver2_foreign (own : Key) (c : FState) (s : Key) (h : s ≠ own) : fdeliver2 own c s = fdeliver c s := by
  by_cases hb : s ∈ c.blocked
  · simp [fdeliver2, fdeliver, hb]
  · cases ha : c.applied with
    | none => simp [fdeliver2, fdeliver, hb, ha]
    | some a => by_cases e : a = s <;> by_cases hl : klt s a = true <;> simp [fdeliver2, fdeliver, hb, ha, e, hl, h]

theorem fdeliver2_own_worse {own : Key} {c : FState} {a : Key} (h : ¬ own ∈ c.blocked) (ha : c.applied = some a)
    (e : a ≠ own) (hl : ¬ klt own a = true) : fdeliver2 own c own = c := by
  simp [fdeliver2, h, ha, e, hl]

theorem fdeliver2_cases (own : Key) (c : FState) (s : Key) :
    fdeliver2 own c s = fdeliver c s ∨
    (fdeliver2 own c s = c ∧ s = own ∧ ¬ s ∈ c.blocked ∧ ∃ a, c.applied = some a ∧ a ≠ s ∧ klt a s = true) := by
  by_cases h : s = own
  · subst h
    by_cases hb : s ∈ c.blocked
    · left; simp [fdeliver2, fdeliver, hb]
    · cases ha : c.applied with
      | none => left; simp [fdeliver2, fdeliver, hb, ha]
      | some a =>
        by_cases e : a = s
        · left; simp [fdeliver2, fdeliver, hb, ha, e]
        · by_cases hl : klt s a = true
          · left; simp [fdeliver2, fdeliver, hb, ha, e, hl]
          · right
            refine ⟨by simp [fdeliver2, hb, ha, e, hl], rfl, hb, a, rfl, e, ?_⟩
            rcases klt_total e with x | x
            · exact x
            · exact absurd x hl
  · left; exact fdeliver2_foreign own c s h

def frun2 (own : Key) (c : FState) (l : List Key) : FState := l.foldl (fdeliver2 own) c

theorem finv_deliver2 (own : Key) (c : FState) (s : Key) (h : FInv c) : FInv (fdeliver2 own c s) := by
  rcases fdeliver2_cases own c s with x | x
  · rw [x]; exact finv_deliver c s h
  · rw [x.1]; exact h

theorem finv_run2 (own : Key) (c : FState) (l : List Key) (h : FInv c) : FInv (frun2 own c l) := by
  induction l generalizing c with
  | nil => exact h
  | cons s l ih => exact ih _ (finv_deliver2 own c s h)

/-- delivered keys are applied, blocked, or (the own key only) beaten by the applied one -/
def Covered (own : Key) (c : FState) (s : Key) : Prop :=
  c.applied = some s ∨ s ∈ c.blocked ∨ (s = own ∧ ∃ a, c.applied = some a ∧ klt a s = true)

theorem covered_step (own : Key) (c : FState) (s y : Key) (h : Covered own c s) : Covered own (fdeliver2 own c y) s := by
  rcases fdeliver2_cases own c y with x | x
  · rw [x]
    by_cases hb : y ∈ c.blocked
    · rw [fdeliver_blocked hb]; exact h
    · cases ha : c.applied with
      | none =>
        rw [fdeliver_none hb ha]
        rcases h with h | h | ⟨_, a, h, _⟩
        · rw [ha] at h; cases h
        · exact Or.inr (Or.inl h)
        · rw [ha] at h; cases h
      | some a =>
        by_cases e : a = y
        · subst e; rw [fdeliver_same hb ha]; exact h
        · by_cases hl : klt y a = true
          · rw [fdeliver_better hb ha e hl]
            rcases h with h | h | ⟨ho, a', h, hlt⟩
            · rw [ha] at h; cases h; exact Or.inr (Or.inl List.mem_cons_self)
            · exact Or.inr (Or.inl (List.mem_cons_of_mem _ h))
            · rw [ha] at h; cases h
              exact Or.inr (Or.inr ⟨ho, y, rfl, klt_trans hl hlt⟩)
          · rw [fdeliver_worse hb ha e hl]
            rcases h with h | h | ⟨ho, a', h, hlt⟩
            · exact Or.inl h
            · exact Or.inr (Or.inl (List.mem_cons_of_mem _ h))
            · exact Or.inr (Or.inr ⟨ho, a', h, hlt⟩)
  · rw [x.1]; exact h

theorem covered_now (own : Key) (c : FState) (s : Key) : Covered own (fdeliver2 own c s) s := by
  rcases fdeliver2_cases own c s with x | x
  · rw [x]
    by_cases hb : s ∈ c.blocked
    · rw [fdeliver_blocked hb]; exact Or.inr (Or.inl hb)
    · cases ha : c.applied with
      | none => rw [fdeliver_none hb ha]; exact Or.inl rfl
      | some a =>
        by_cases e : a = s
        · subst e; rw [fdeliver_same hb ha]; exact Or.inl ha
        · by_cases hl : klt s a = true
          · rw [fdeliver_better hb ha e hl]; exact Or.inl rfl
          · rw [fdeliver_worse hb ha e hl]; exact Or.inr (Or.inl List.mem_cons_self)
  · obtain ⟨h1, h2, _, a, ha, _, hlt⟩ := x
    rw [h1]; exact Or.inr (Or.inr ⟨h2, a, ha, hlt⟩)

theorem frun2_covers (own : Key) : ∀ (l : List Key) (c : FState), ∀ s ∈ l, Covered own (frun2 own c l) s := by
  intro l
  induction l with
  | nil => intro c s hs; cases hs
  | cons x l ih =>
    intro c s hs
    simp only [frun2, List.foldl_cons]
    rcases List.mem_cons.mp hs with rfl | hs'
    · have pers : ∀ (l : List Key) (c : FState), Covered own c s → Covered own (l.foldl (fdeliver2 own) c) s := by
        intro l
        induction l with
        | nil => intro c h; exact h
        | cons y l ih2 => intro c h; exact ih2 _ (covered_step own c s y h)
      exact pers l _ (covered_now own c s)
    · exact ih _ s hs'

theorem frun2_applied_mem (own : Key) : ∀ (l : List Key) (c : FState) (a : Key), (frun2 own c l).applied = some a →
    c.applied = some a ∨ a ∈ l := by
  intro l
  induction l with
  | nil => intro c a h; exact Or.inl h
  | cons x l ih =>
    intro c a h
    simp only [frun2, List.foldl_cons] at h
    rcases ih (fdeliver2 own c x) a h with h1 | h1
    · rcases fdeliver2_cases own c x with y | y
      · rw [y] at h1
        rcases frun_applied_mem [x] c a (by simpa [frun] using h1) with z | z
        · exact Or.inl z
        · exact Or.inr (by simp at z; rw [z]; exact List.mem_cons_self)
      · rw [y.1] at h1; exact Or.inl h1
    · exact Or.inr (List.mem_cons_of_mem _ h1)

/-- the fork theorem with the own commit among the siblings -/
theorem single_fork2 (own : Key) (l : List Key) (hne : l ≠ []) :
    ∃ a, a ∈ l ∧ (frun2 own ⟨none, []⟩ l).applied = some a ∧
      (∀ s ∈ l, a = s ∨ klt a s = true) ∧ (∀ s ∈ l, s ≠ a → s ≠ own → s ∈ (frun2 own ⟨none, []⟩ l).blocked) := by
  have h0 : FInv ⟨none, []⟩ := by simp [FInv]
  have hinv := finv_run2 own _ l h0
  obtain ⟨x, hx⟩ := List.exists_mem_of_ne_nil l hne
  have hcov := frun2_covers own l ⟨none, []⟩
  cases ha : (frun2 own ⟨none, []⟩ l).applied with
  | none =>
    simp only [FInv, ha] at hinv
    rcases hcov x hx with h | h | ⟨_, a, h, _⟩
    · rw [ha] at h; cases h
    · rw [hinv] at h; cases h
    · rw [ha] at h; cases h
  | some a =>
    simp only [FInv, ha] at hinv
    have hmem : a ∈ l := by
      rcases frun2_applied_mem own l _ a ha with h | h
      · cases h
      · exact h
    refine ⟨a, hmem, rfl, ?_, ?_⟩
    · intro s hs
      rcases hcov s hs with h | h | ⟨_, a', h, hlt⟩
      · rw [ha] at h; exact Or.inl (Option.some.inj h)
      · exact Or.inr (hinv.2 s h)
      · rw [ha] at h; cases h; exact Or.inr hlt
    · intro s hs hne' hno
      rcases hcov s hs with h | h | ⟨ho, _⟩
      · rw [ha] at h; exact absurd (Option.some.inj h).symm hne'
      · exact h
      · exact absurd ho hno


/-! ## the committer: its own staged commit among the siblings, applied on relay echo -/

def rec0 (c0 : Cl) : Rec := { state := 2, epoch := some (epochOf c0.g.path), hasGroup := true, mid := none }

/-- the client's own staged commit (what `stageCommit` leaves behind) -/
structure OwnSib (c0 : Cl) (o : Ev) : Prop where
  path : o.path = c0.g.path
  kind : ∃ b sw, o.kind = .commit b sw
  own : (o.sender == c0.id) = true
  ts : o.ts ≠ 0
  pending : c0.g.pending = some o
  record : getRec c0 o.n = some (rec0 c0)
  tag : o.tag = c0.g.recNid
  nid : ∀ b sw, o.kind = .commit b sw → (applyBody (ensureSecret c0.g) b).nid = c0.g.recNid
  me : ∀ b sw, o.kind = .commit b sw → removesMe c0.id b sw = false

theorem OwnSib.com {c0 : Cl} {o : Ev} (h : OwnSib c0 o) : Com c0 o := ⟨h.path, h.kind, h.ts, h.tag, h.nid, h.me⟩

theorem rbRec_rec0 (c0 : Cl) : rbRec (epochOf c0.g.path) (rec0 c0) = rec0 c0 := by
  simp [rbRec, rbRec1, rbRec2, rec0]

theorem step1_commit_own (retry : Cl → Option (Cl × Res)) (nx : Nat) (c : Cl) (e p : Ev) (b : Body) (sw : List Nat)
    (hg : routes c e = true) (hact : c.g.active = true) (ho : outerOpens (withSecret c).g e = true) (hk : e.kind = .commit b sw)
    (hep : epochOf e.path = epochOf c.g.path) (hf : (e.sender == c.id) = true) (hp : c.g.pending = some p) :
    step1 retry nx c e =
      (setRec { mgrCreate (withSecret c) (epochOf c.g.path) e with
                g := syncRec (ensureSecret (mergeCommit c.maxPast (withSecret c).g p)) } e.n
        { state := 2, epoch := some (epochOf (syncRec (ensureSecret (mergeCommit c.maxPast (withSecret c).g p))).path), hasGroup := true, mid := none }, .commit) := by
  have hmp : (withSecret c).maxPast = c.maxPast := rfl
  unfold step1
  simp [hg, hact, ho, hk, hep, hf, hp, mgrCreate, hmp]

/-- at the parent state the own commit's echo merges the pending commit (after taking the snapshot);
    no ciphertext is consumed (openmls merges its own pending commit without decrypting) -/
theorem apply_parent_own (c0 : Cl) (hb : Base c0) (retry : Cl → Option (Cl × Res)) (nx : Nat) (c : Cl) (o : Ev)
    (hf : PForm c0 c) (hs : OwnSib c0 o) (r : Rec) (hr : getRec c o.n = some r) (hst : r.state = 2) :
    CForm c0 o (deliverOnce retry nx c o).1 ∧ (deliverOnce retry nx c o).1.recs = ainsert o.n (rec2 c0) c.recs ∧
    (deliverOnce retry nx c o).1.g.consumed = c.g.consumed := by
  obtain ⟨b, sw, hk⟩ := hs.kind
  have hwg : (withSecret c).g = wc (gP c0) c.g.consumed := hf.g
  have hpath : c.g.path = c0.g.path := by
    have := congrArg GState.path hf.g
    rw [ensureSecret_path] at this; rw [this]; exact gP_path c0
  have hpend : c.g.pending = some o := by
    have := congrArg GState.pending hf.g
    rw [(ensureSecret_fields c.g).2.2.2.2.2.1] at this
    rw [this]
    show (gP c0).pending = _
    rw [gP, (ensureSecret_fields c0.g).2.2.2.2.2.1, hs.pending]
  rw [deliverOnce_rec2 _ _ _ _ r hr hst,
    step1_commit_own retry nx c o o b sw (pform_routes c0 c o hf hs.tag) (pform_active c0 c hb hf) (by rw [hwg, outerOpens_wc]; exact outerOpens_parent c0 hb o hs.path) hk
      (by rw [hs.path, hpath]) (by rw [hf.id]; exact hs.own) hpend]
  obtain ⟨k, hk'⟩ := hf.mgr
  have hchild : syncRec (ensureSecret (mergeCommit c.maxPast (withSecret c).g o)) = wc (childG c0 o) c.g.consumed := by
    rw [hwg, hf.mp]; exact childOf_wc c0 o _
  have hcons : (syncRec (ensureSecret (mergeCommit c.maxPast (withSecret c).g o))).consumed = c.g.consumed := by
    rw [hchild]; rfl
  refine ⟨⟨hf.id, hf.ret, hf.mp, hf.hg, ?_, ?_⟩, ?_, hcons⟩
  · show syncRec _ = wc (childG c0 o) (syncRec _).consumed
    rw [hcons]; exact hchild
  · show ∃ k, (mgrCreate (withSecret c) _ o).mgr = _ ++ [snapOf c0 o (syncRec _).consumed]
    rw [hcons]
    simp only [mgrCreate, hwg]
    have hm : (withSecret c).mgr = c0.mgr.drop k := hk'
    rw [hm, hpath]
    exact mgrCreate_parent c0 hb k _ _ hf.ret
  · have hep : epochOf (syncRec (ensureSecret (mergeCommit c.maxPast (withSecret c).g o))).path = epochOf c0.g.path + 1 := by
      rw [hchild]
      show epochOf (childG c0 o).path = _
      rw [(childG_facts c0 hb o hs.com).1, epochOf_snoc]
    simp only [setRec, hep, rec2]
    rfl

/-- at child `a` the own commit, not better than `a`, is answered from its record: nothing changes -/
theorem child_worse_own (c0 : Cl) (hb : Base c0) (retry : Cl → Option (Cl × Res)) (nx : Nat) (a o : Ev) (c : Cl)
    (hf : CForm c0 a c) (ha : Com c0 a) (hs : OwnSib c0 o) (r : Rec) (hr : getRec c o.n = some r) (hst : r.state = 2)
    (hw : klt (key o) (key a) = false) : (deliverOnce retry nx c o).1 = c := by
  have hb' : isBetter c (epochOf c0.g.path) o = false := by rw [isBetter_child c0 hb a o c hf ha.ts]; exact hw
  rw [deliverOnce_rec2 _ _ _ _ r hr hst, child_wrong c0 hb retry nx a o c hf ha hs.com]
  simp only [wrongEpochCommit, hb', Bool.false_eq_true, if_false, notBetterResult, hr, hst, returnOwnCommit]
  have hsy : syncRec c.g = c.g := by rw [hf.g, syncRec_wc, (childG_stable c0 hb a ha).2]
  cases c
  simp only at hsy ⊢
  simp [hsy]

/-- at child `a` the own commit, better than `a`: rollback (the snapshot holds the pending commit), merge -/
theorem child_better_own (c0 : Cl) (hb : Base c0) (f nx : Nat) (a o : Ev) (c : Cl)
    (hf : CForm c0 a c) (ha : Com c0 a) (hs : OwnSib c0 o) (hr : getRec c o.n = some (rec0 c0))
    (hw : klt (key o) (key a) = true) :
    CForm c0 o (deliverN (f + 1) nx c o).1 ∧
    (∀ n, getRec (deliverN (f + 1) nx c o).1 n =
      if n = o.n then some (rec2 c0) else (getRec c n).map (rbRec (epochOf c0.g.path))) ∧
    (deliverN (f + 1) nx c o).1.g.consumed = c.g.consumed := by
  have hb' : isBetter c (epochOf c0.g.path) o = true := by rw [isBetter_child c0 hb a o c hf ha.ts]; exact hw
  obtain ⟨c1, hrb, hp1, hcons1, hrec1⟩ := rollback_child c0 hb a c hf
  have hr1 : getRec c1 o.n = some (rec0 c0) := by rw [hrec1, hr]; simp [rbRec_rec0]
  obtain ⟨retry', hret⟩ := deliverN_once f nx c1 o
  have happ := apply_parent_own c0 hb retry' nx c1 o hp1 hs _ hr1 rfl
  have heq : deliverN (f + 1) nx c o = deliverOnce retry' nx c1 o := by
    show deliverOnce (fun c1 => some (deliverN f nx c1 o)) nx c o = _
    rw [deliverOnce_rec2 _ _ _ _ _ hr rfl, child_wrong c0 hb _ nx a o c hf ha hs.com]
    simp only [wrongEpochCommit, hb', if_true, hrb, hret]
  rw [heq]
  refine ⟨happ.1, ?_, by rw [happ.2.2, hcons1]⟩
  intro n
  simp only [getRec] at hrec1 ⊢
  rw [happ.2.1]
  by_cases hn : n = o.n
  · subst hn; simp [alookup_ainsert_self]
  · rw [alookup_ainsert_ne _ _ _ _ hn, hrec1]; simp [hn]

theorem fdeliver2_blocked {own : Key} {c : FState} {s : Key} (h : s ∈ c.blocked) : fdeliver2 own c s = c := by
  simp [fdeliver2, h]
theorem fdeliver2_none {own : Key} {c : FState} {s : Key} (h : ¬ s ∈ c.blocked) (ha : c.applied = none) :
    fdeliver2 own c s = { c with applied := some s } := by
  simp [fdeliver2, h, ha]
theorem fdeliver2_same {own : Key} {c : FState} {s : Key} (h : ¬ s ∈ c.blocked) (ha : c.applied = some s) :
    fdeliver2 own c s = c := by
  simp [fdeliver2, h, ha]
theorem fdeliver2_better {own : Key} {c : FState} {s a : Key} (h : ¬ s ∈ c.blocked) (ha : c.applied = some a)
    (e : a ≠ s) (hl : klt s a = true) : fdeliver2 own c s = { applied := some s, blocked := a :: c.blocked } := by
  simp [fdeliver2, h, ha, e, hl]
theorem fdeliver2_worse {own : Key} {c : FState} {s a : Key} (h : ¬ s ∈ c.blocked) (ha : c.applied = some a)
    (e : a ≠ s) (hl : ¬ klt s a = true) (ho : s ≠ own) : fdeliver2 own c s = { c with blocked := s :: c.blocked } := by
  simp [fdeliver2, h, ha, e, hl, ho]

/-- the siblings of the committer: its own staged commit `o` and foreign ones -/
structure Sibs2 (c0 : Cl) (o : Ev) (S : List Ev) : Prop where
  own : OwnSib c0 o
  sib : ∀ e ∈ S, Sib c0 e
  inj : ∀ e1 ∈ o :: S, ∀ e2 ∈ o :: S, (e1.n = e2.n ∨ key e1 = key e2) → e1 = e2
  cinj : ∀ e1 ∈ S, ∀ e2 ∈ S, e1.cipher = e2.cipher → e1 = e2
  norec : ∀ e ∈ S, getRec c0 e.n = none

theorem Sibs2.com {c0 : Cl} {o : Ev} {S : List Ev} (h : Sibs2 c0 o S) (e : Ev) (he : e ∈ o :: S) : Com c0 e := by
  rcases List.mem_cons.mp he with rfl | he'
  · exact h.own.com
  · exact (h.sib e he').com

structure Rel2 (c0 : Cl) (o : Ev) (S : List Ev) (c : Cl) (st : FState) : Prop where
  cons : ConsOK c0 S c
  par : st.applied = none → PForm c0 c
  chi : ∀ k, st.applied = some k → ∃ a ∈ o :: S, key a = k ∧ CForm c0 a c ∧ getRec c a.n = some (rec2 c0)
  blk : ∀ e ∈ o :: S, key e ∈ st.blocked → ∃ r, getRec c e.n = some r ∧ BlockedRec c0 r
  fresh : ∀ e ∈ S, key e ∉ st.blocked → st.applied ≠ some (key e) → getRec c e.n = none
  ownf : key o ∉ st.blocked → st.applied ≠ some (key o) → getRec c o.n = some (rec0 c0)

theorem rel2_init (c0 : Cl) (hb : Base c0) (o : Ev) (S : List Ev) (hS : Sibs2 c0 o S) : Rel2 c0 o S c0 ⟨none, []⟩ where
  cons := fun x hx => Or.inl hx
  par := fun _ => pform_init c0 hb
  chi := fun k h => by cases h
  blk := fun e _ h => by cases h
  fresh := fun e he _ _ => hS.norec e he
  ownf := fun _ _ => hS.own.record

theorem rel2_step (c0 : Cl) (hb : Base c0) (o : Ev) (S : List Ev) (hS : Sibs2 c0 o S) (c : Cl) (st : FState) (nx : Nat)
    (h : Rel2 c0 o S c st) (_hi : FInv st) (e : Ev) (he : e ∈ o :: S) :
    Rel2 c0 o S (deliver c e nx).1 (fdeliver2 (key o) st (key e)) := by
  have hoT : o ∈ o :: S := List.mem_cons_self
  have hnn : ∀ e' ∈ o :: S, key e' ≠ key e → e'.n ≠ e.n :=
    fun e' he' hk x => hk (congrArg key (hS.inj e' he' e he (Or.inl x)))
  have hST : ∀ e' ∈ S, e' ∈ o :: S := fun e' h' => List.mem_cons_of_mem _ h'
  by_cases hbl : key e ∈ st.blocked
  · obtain ⟨r, hr, hbr⟩ := h.blk e he hbl
    obtain ⟨retry, hd⟩ := deliverN_once 3 nx c e
    rw [fdeliver2_blocked hbl, deliver, hd, deliverOnce_blocked retry nx c e r hr hbr.1]
    exact h
  · cases hap : st.applied with
    | none =>
      obtain ⟨retry, hd⟩ := deliverN_once 3 nx c e
      have happ : CForm c0 e (deliverOnce retry nx c e).1 ∧ (deliverOnce retry nx c e).1.recs = ainsert e.n (rec2 c0) c.recs ∧
          ((deliverOnce retry nx c e).1.g.consumed = c.g.consumed ∨
           (e ∈ S ∧ (deliverOnce retry nx c e).1.g.consumed = e.cipher :: c.g.consumed)) := by
        rcases List.mem_cons.mp he with rfl | heS
        · obtain ⟨x1, x2, x3⟩ := apply_parent_own c0 hb retry nx c e (h.par hap) hS.own _ (h.ownf hbl (by rw [hap]; simp)) rfl
          exact ⟨x1, x2, Or.inl x3⟩
        · have hfr := h.fresh e heS hbl (by rw [hap]; simp)
          obtain ⟨x1, x2, x3⟩ := apply_parent c0 hb retry nx c e (h.par hap) (hS.sib e heS) hfr
            (consOK_fresh c0 S c hS.sib hS.cinj h.cons e heS hfr)
          exact ⟨x1, x2, Or.inr ⟨heS, x3⟩⟩
      obtain ⟨hcf, hrecs, hcons⟩ := happ
      rw [fdeliver2_none hbl hap, deliver, hd]
      have hother : ∀ e' ∈ o :: S, key e' ≠ key e → getRec (deliverOnce retry nx c e).1 e'.n = getRec c e'.n := by
        intro e' he' hk
        simp only [getRec, hrecs]; exact alookup_ainsert_ne _ _ _ _ (hnn e' he' hk)
      have hcn : ConsOK c0 S (deliverOnce retry nx c e).1 :=
        consOK_step c0 S c _ h.cons (fun e' _ hn => by simp only [getRec, hrecs]; exact alookup_ainsert_ne_none _ _ _ _ hn)
          (by
            rcases hcons with x | ⟨heS, x⟩
            · exact Or.inl x
            · exact Or.inr ⟨e, heS, x, by simp only [getRec, hrecs, alookup_ainsert_self]; simp⟩)
      refine ⟨hcn, (fun x => by cases x), ?_, ?_, ?_, ?_⟩
      · intro k hk
        cases hk
        exact ⟨e, he, rfl, hcf, by simp only [getRec, hrecs]; exact alookup_ainsert_self _ _ _⟩
      · intro e' he' hb'
        have hk : key e' ≠ key e := fun x => hbl (x ▸ hb')
        rw [hother e' he' hk]; exact h.blk e' he' hb'
      · intro e' he' hb' hna
        have hk : key e' ≠ key e := fun x => hna (by rw [x])
        rw [hother e' (hST e' he') hk]; exact h.fresh e' he' hb' (by rw [hap]; simp)
      · intro hb' hna
        have hk : key o ≠ key e := fun x => hna (by rw [x])
        rw [hother o hoT hk]; exact h.ownf hb' (by rw [hap]; simp)
    | some ka =>
      obtain ⟨a, haT, hka, hcf, hra⟩ := h.chi ka hap
      have hca := hS.com a haT
      by_cases hsame : ka = key e
      · have : a = e := hS.inj a haT e he (Or.inr (hka.trans hsame))
        subst this
        obtain ⟨retry, hd⟩ := deliverN_once 3 nx c a
        rw [fdeliver2_same hbl (by rw [hap, hsame]), deliver, hd, child_same c0 hb retry nx a c hcf hca hra]
        exact h
      · have hne : a ≠ e := fun x => hsame (by rw [← hka, x])
        have hnap : st.applied ≠ some (key e) := by rw [hap]; intro x; exact hsame (Option.some.inj x)
        by_cases hlt : klt (key e) ka = true
        · -- better
          have hbet : CForm c0 e (deliverN 3 nx c e).1 ∧ (∀ n, getRec (deliverN 3 nx c e).1 n =
              if n = e.n then some (rec2 c0) else (getRec c n).map (rbRec (epochOf c0.g.path))) ∧
              ((deliverN 3 nx c e).1.g.consumed = c.g.consumed ∨
               (e ∈ S ∧ (deliverN 3 nx c e).1.g.consumed = e.cipher :: c.g.consumed)) := by
            rcases List.mem_cons.mp he with rfl | heS
            · obtain ⟨x1, x2, x3⟩ := child_better_own c0 hb 2 nx a e c hcf hca hS.own (h.ownf hbl hnap) (by rw [hka]; exact hlt)
              exact ⟨x1, x2, Or.inl x3⟩
            · have hfr := h.fresh e heS hbl hnap
              obtain ⟨x1, x2, x3⟩ := child_better c0 hb 2 nx a e c hcf hca (hS.sib e heS) hfr
                (consOK_fresh c0 S c hS.sib hS.cinj h.cons e heS hfr) (by rw [hka]; exact hlt)
              exact ⟨x1, x2, Or.inr ⟨heS, x3⟩⟩
          obtain ⟨hcf', hrec', hcons⟩ := hbet
          rw [fdeliver2_better hbl hap hsame hlt]
          show Rel2 c0 o S (deliverN 3 nx c e).1 _
          have hcn : ConsOK c0 S (deliverN 3 nx c e).1 :=
            consOK_step c0 S c _ h.cons
              (fun e' _ hn => by
                rw [hrec']
                by_cases z : e'.n = e.n
                · simp [z]
                · simp only [z, if_false]; cases hg : getRec c e'.n with
                  | none => exact absurd hg hn
                  | some r => simp)
              (by
                rcases hcons with x | ⟨heS, x⟩
                · exact Or.inl x
                · exact Or.inr ⟨e, heS, x, by rw [hrec']; simp⟩)
          refine ⟨hcn, (fun x => by cases x), ?_, ?_, ?_, ?_⟩
          · intro k hk
            cases hk
            exact ⟨e, he, rfl, hcf', by rw [hrec']; simp⟩
          · intro e' he' hb'
            have hk : key e' ≠ key e := by
              intro x
              rcases List.mem_cons.mp hb' with y | y
              · exact hsame (y.symm.trans x)
              · exact hbl (x ▸ y)
            rw [hrec', if_neg (hnn e' he' hk)]
            rcases List.mem_cons.mp hb' with y | y
            · have : e' = a := hS.inj e' he' a haT (Or.inr (y.trans hka.symm))
              subst this
              rw [hra]
              exact ⟨_, rfl, rbRec_blocked c0 _ ⟨rfl, rfl⟩⟩
            · obtain ⟨r, hr', hbr⟩ := h.blk e' he' y
              rw [hr']
              exact ⟨_, rfl, rbRec_blocked c0 r ⟨hbr.2.1, hbr.2.2⟩⟩
          · intro e' he' hb' hna
            have hk : key e' ≠ key e := fun x => hna (by rw [x])
            have h1 : key e' ∉ st.blocked := fun x => hb' (List.mem_cons_of_mem _ x)
            have h2 : st.applied ≠ some (key e') := by
              rw [hap]; intro x; exact hb' (by rw [← Option.some.inj x]; exact List.mem_cons_self)
            rw [hrec', if_neg (hnn e' (hST e' he') hk), h.fresh e' he' h1 h2]; rfl
          · intro hb' hna
            have hk : key o ≠ key e := fun x => hna (by rw [x])
            have h1 : key o ∉ st.blocked := fun x => hb' (List.mem_cons_of_mem _ x)
            have h2 : st.applied ≠ some (key o) := by
              rw [hap]; intro x; exact hb' (by rw [← Option.some.inj x]; exact List.mem_cons_self)
            rw [hrec', if_neg (hnn o hoT hk), h.ownf h1 h2]
            simp [rbRec_rec0]
        · -- worse
          have hlt' : klt (key e) (key a) = false := by rw [hka]; simpa using hlt
          obtain ⟨retry, hd⟩ := deliverN_once 3 nx c e
          rcases List.mem_cons.mp he with rfl | heS
          · -- the own commit: answered from its record, nothing changes
            rw [fdeliver2_own_worse hbl hap hsame hlt, deliver, hd,
              child_worse_own c0 hb retry nx a e c hcf hca hS.own _ (h.ownf hbl hnap) rfl hlt']
            exact h
          · have hko : key e ≠ key o := by
              intro x
              have := hS.inj e he o hoT (Or.inr x)
              subst this
              have h1 := (hS.sib e heS).foreign
              rw [hS.own.own] at h1; cases h1
            obtain ⟨hcf', hrecs, hgeq⟩ := child_worse c0 hb retry nx a e c hcf hca (hS.sib e heS) (h.fresh e heS hbl hnap) hlt'
            rw [fdeliver2_worse hbl hap hsame hlt hko, deliver, hd]
            have hother : ∀ e' ∈ o :: S, key e' ≠ key e → getRec (deliverOnce retry nx c e).1 e'.n = getRec c e'.n := by
              intro e' he' hk
              simp only [getRec, hrecs]; exact alookup_ainsert_ne _ _ _ _ (hnn e' he' hk)
            have hcn : ConsOK c0 S (deliverOnce retry nx c e).1 :=
              consOK_step c0 S c _ h.cons (fun e' _ hn => by simp only [getRec, hrecs]; exact alookup_ainsert_ne_none _ _ _ _ hn)
                (Or.inl (by rw [hgeq]))
            refine ⟨hcn, (fun x => by rw [hap] at x; cases x), ?_, ?_, ?_, ?_⟩
            · intro k hk
              rw [hap] at hk; cases hk
              exact ⟨a, haT, hka, hcf', by rw [hother a haT (by rw [hka]; exact hsame)]; exact hra⟩
            · intro e' he' hb'
              by_cases hk : key e' = key e
              · have : e' = e := hS.inj e' he' e he (Or.inr hk)
                subst this
                refine ⟨rec3 c0, by simp only [getRec, hrecs]; exact alookup_ainsert_self _ _ _, ?_⟩
                simp [BlockedRec, rec3]
              · rw [hother e' he' hk]
                rcases List.mem_cons.mp hb' with y | y
                · exact absurd y hk
                · exact h.blk e' he' y
            · intro e' he' hb' hna
              have hk : key e' ≠ key e := fun x => hb' (by rw [x]; exact List.mem_cons_self)
              rw [hother e' (hST e' he') hk]
              exact h.fresh e' he' (fun x => hb' (List.mem_cons_of_mem _ x)) hna
            · intro hb' hna
              rw [hother o hoT (fun x => hko x.symm)]
              exact h.ownf (fun x => hb' (List.mem_cons_of_mem _ x)) hna

theorem rel2_run (c0 : Cl) (hb : Base c0) (o : Ev) (S : List Ev) (hS : Sibs2 c0 o S) (nx : Nat) (l : List Ev) :
    ∀ (c : Cl) (st : FState), Rel2 c0 o S c st → FInv st → (∀ e ∈ l, e ∈ o :: S) →
      Rel2 c0 o S (l.foldl (fun c e => (deliver c e nx).1) c) (frun2 (key o) st (l.map key)) := by
  induction l with
  | nil => intro c st h _ _; exact h
  | cons e t ih =>
    intro c st h hi hl
    simp only [List.foldl_cons, List.map_cons, frun2]
    exact ih _ _ (rel2_step c0 hb o S hS c st nx h hi e (hl e List.mem_cons_self)) (finv_deliver2 _ st _ hi)
      (fun x hx => hl x (List.mem_cons_of_mem _ hx))


end MdkVerif.Fork
