import MdkVerif.Model.Locks
import MdkVerif.Proofs.LocksNested
import MdkVerif.Proofs.LocksStore
/-
  MdkVerif.Proofs.LocksNestedStore — the memory backend's nested snapshot operations as an instance
  of `Proofs.LocksNested`: no method that runs under the `inner` lock alone reads or writes the
  snapshot map (the part of the store the `group_snapshots` lock protects).
-/
namespace MdkVerif.Locks
open MdkVerif MdkVerif.Store

/-- changing the snapshot map before or after the step is the same (the step does not read it),
    and the step leaves it as it is (does not write it) -/
def SnapIndep (op : Op) : Prop :=
  ∀ (s : Store) (x : List Snap),
    Store.step { s with snaps := x } op = ({ (Store.step s op).1 with snaps := x }, (Store.step s op).2) ∧
    (Store.step s op).1.snaps = s.snaps

theorem okErr_indep (f : Store → Option Store) (s : Store) (x : List Snap)
    (h : f { s with snaps := x } = (f s).map (fun s' => { s' with snaps := x }) ∧
         ∀ s', f s = some s' → s'.snaps = s.snaps) :
    okErr (f { s with snaps := x }) { s with snaps := x } = ({ (okErr (f s) s).1 with snaps := x }, (okErr (f s) s).2) ∧
    (okErr (f s) s).1.snaps = s.snaps := by
  rw [h.1]
  cases hf : f s with
  | none => simp [okErr]
  | some s' => simp [okErr, h.2 s' hf]

theorem saveGroup_indep (g : Group) (s : Store) (x : List Snap) :
    saveGroup { s with snaps := x } g = (saveGroup s g).map (fun s' => { s' with snaps := x }) ∧
    ∀ s', saveGroup s g = some s' → s'.snaps = s.snaps := by
  constructor
  · simp only [saveGroup, findGroup]
    repeat' split
    all_goals first
      | (simp_all; done)
      | (simp_all; split <;> simp_all)
  · intro s' h
    simp only [saveGroup] at h
    repeat' split at h
    all_goals first | (cases h; done) | (cases h; rfl)

theorem saveMessage_indep (m : Msg) (s : Store) (x : List Snap) :
    saveMessage { s with snaps := x } m = (saveMessage s m).map (fun s' => { s' with snaps := x }) ∧
    ∀ s', saveMessage s m = some s' → s'.snaps = s.snaps := by
  constructor
  · simp only [saveMessage, findGroup]
    repeat' split
    all_goals first
      | (simp_all; done)
      | (simp_all; split <;> simp_all)
  · intro s' h
    simp only [saveMessage] at h
    repeat' split at h
    all_goals first | (cases h; done) | (cases h; rfl)

theorem markRetryable_indep (w : Nat) (s : Store) (x : List Snap) :
    markRetryable { s with snaps := x } w = (markRetryable s w).map (fun s' => { s' with snaps := x }) ∧
    ∀ s', markRetryable s w = some s' → s'.snaps = s.snaps := by
  constructor
  · simp only [markRetryable, findPm]
    repeat' split
    all_goals first
      | (simp_all; done)
      | (simp_all; split <;> simp_all)
  · intro s' h
    simp only [markRetryable] at h
    repeat' split at h
    all_goals first | (cases h; done) | (cases h; rfl)

theorem replaceRelays_indep (g : Nat) (rs : List Nat) (s : Store) (x : List Snap) :
    replaceRelays { s with snaps := x } g rs = (replaceRelays s g rs).map (fun s' => { s' with snaps := x }) ∧
    ∀ s', replaceRelays s g rs = some s' → s'.snaps = s.snaps := by
  constructor
  · simp only [replaceRelays, findGroup]
    repeat' split
    all_goals first
      | (simp_all; done)
      | (simp_all; split <;> simp_all)
  · intro s' h
    simp only [replaceRelays] at h
    repeat' split at h
    all_goals first | (cases h; done) | (cases h; rfl)

theorem saveSecret_indep (g e v : Nat) (s : Store) (x : List Snap) :
    saveSecret { s with snaps := x } g e v = (saveSecret s g e v).map (fun s' => { s' with snaps := x }) ∧
    ∀ s', saveSecret s g e v = some s' → s'.snaps = s.snaps := by
  constructor
  · simp only [saveSecret, findGroup]
    repeat' split
    all_goals first
      | (simp_all; done)
      | (simp_all; split <;> simp_all)
  · intro s' h
    simp only [saveSecret] at h
    repeat' split at h
    all_goals first | (cases h; done) | (cases h; rfl)

theorem saveWelcome_indep (w : Welcome) (s : Store) (x : List Snap) :
    saveWelcome { s with snaps := x } w = (saveWelcome s w).map (fun s' => { s' with snaps := x }) ∧
    ∀ s', saveWelcome s w = some s' → s'.snaps = s.snaps := by
  constructor
  · simp only [saveWelcome]
    repeat' split
    all_goals first
      | (simp_all; done)
      | (simp_all; split <;> simp_all)
  · intro s' h
    simp only [saveWelcome] at h
    repeat' split at h
    all_goals first | (cases h; done) | (cases h; rfl)

/-- the operations whose memory method runs under the `inner` lock only -/
def innerOnly : Op → Bool
  | .snapCreate _ _ _ | .snapRollback _ _ | .snapRelease _ _ | .snapList _ | .snapPrune _ | .dump | .updLast _ _ _ _ => false
  | _ => true

theorem snapIndep_of_innerOnly (op : Op) (h : innerOnly op = true) : SnapIndep op := by
  intro s x
  cases op <;> simp only [innerOnly, Bool.false_eq_true] at h
  case saveGroup g => exact okErr_indep (fun s => saveGroup s g) s x (saveGroup_indep g s x)
  case saveMessage m => exact okErr_indep (fun s => saveMessage s m) s x (saveMessage_indep m s x)
  case markRetryable w => exact okErr_indep (fun s => markRetryable s w) s x (markRetryable_indep w s x)
  case replaceRelays g rs => exact okErr_indep (fun s => replaceRelays s g rs) s x (replaceRelays_indep g rs s x)
  case saveSecret g e v => exact okErr_indep (fun s => saveSecret s g e v) s x (saveSecret_indep g e v s x)
  case saveWelcome w => exact okErr_indep (fun s => saveWelcome s w) s x (saveWelcome_indep w s x)
  all_goals exact ⟨rfl, rfl⟩

/-- a one-section method whose function neither reads nor writes the snapshot map -/
theorem good_atomic_of_indep (lk : Lock) (f : Store → Store × String)
    (h : ∀ (s : Store) (x : List Snap), f { s with snaps := x } = ({ (f s).1 with snaps := x }, (f s).2) ∧ (f s).1.snaps = s.snaps) :
    memNest.good (Prog.atomic lk f) := by
  refine ⟨fun _ s x => ?_, fun _ => trivial⟩
  obtain ⟨h1, h2⟩ := h s x
  refine ⟨?_, ?_, h2⟩
  · show (f { s with snaps := x }).1 = _
    rw [h1]; rfl
  · show Prog.done (f { s with snaps := x }).2 = _
    rw [h1]

theorem good_whole_inner (lk : Lock) (op : Op) (h : SnapIndep op) : memNest.good (whole lk op) :=
  good_atomic_of_indep lk _ h

theorem updLast_act_indep (G : Group) (r : String) (s : Store) (x : List Snap) :
    let f : Store → Store × String := fun s' =>
      match saveGroup s' G with
      | some s'' => (s'', r)
      | none => (s', "err")
    f { s with snaps := x } = ({ (f s).1 with snaps := x }, (f s).2) ∧ (f s).1.snaps = s.snaps := by
  intro f
  obtain ⟨h1, h2⟩ := saveGroup_indep G s x
  simp only [f]
  rw [h1]
  cases hs : saveGroup s G with
  | none => simp
  | some s'' => simp [h2 s'' hs]

theorem good_whole_snaps (m : Nat) (op : Op) : memNest.good (whole (1, m) op) :=
  ⟨fun h => absurd rfl h, fun _ => trivial⟩

/-- `memNest.describes`: the nested form of the memory snapshot methods is what `memProgWith true` runs -/
theorem memNest_describes : memNest.describes (memProgWith true) := by
  intro op h
  cases op <;> simp [memNest] at h <;> rfl

/-- every other memory method (the harness composite `dump`, which is not a storage method, apart)
    is made of un-nested sections that take the `group_snapshots` lock or neither read nor write
    the snapshot map -/
theorem memProgN_good (op : Op) (hop : op ≠ .dump) (hno : memNest.is op = false) :
    memNest.good (memProgWith true op) := by
  cases op
  case dump => exact absurd rfl hop
  case snapCreate g n ts => simp [memNest] at hno
  case snapRollback g n => simp [memNest] at hno
  case snapRelease g n => exact good_whole_snaps _ _
  case snapList g => exact good_whole_snaps _ _
  case snapPrune t => exact good_whole_snaps _ _
  case updLast g c p i =>
    refine ⟨fun _ s x => ⟨rfl, rfl, rfl⟩, ?_⟩
    intro s
    show memNest.good (match findGroup s g with
      | none => Prog.done "err"
      | some gr => Prog.atomic lkInnerW (fun s' =>
          match saveGroup s' (updLast gr (c, p, i)) with
          | some s'' => (s'', if dominates gr (c, p, i) then "true" else "false")
          | none => (s', "err")))
    cases findGroup s g with
    | none => trivial
    | some gr => exact good_atomic_of_indep _ _ (updLast_act_indep (updLast gr (c, p, i)) _)
  all_goals exact good_whole_inner _ _ (snapIndep_of_innerOnly _ rfl)

/-- the fused snapshot operations ARE the sequential model's operations -/
theorem memN_fuse_run (op : Op) (s : Store) (hb : s.backend = .mem) :
    (memNest.fuse (memProgWith true) op).run s = Store.step s op := by
  by_cases h : memNest.is op = true
  · simp only [NestOps.fuse, h, if_true, run_atomic]
    rw [← run_nested, ← memNest_describes op h]
    exact memProgWith_run true op s hb
  · have h' : memNest.is op = false := by simpa using h
    simp only [NestOps.fuse, h', Bool.false_eq_true, if_false]
    exact memProgWith_run true op s hb

/-- … and each of them is ONE section -/
theorem memN_fuse_single (op : Op) (h : singleOp .mem op = true ∨ memNest.is op = true) :
    (memNest.fuse (memProgWith true) op).single := by
  by_cases hk : memNest.is op = true
  · simp only [NestOps.fuse, hk, if_true]; exact single_atomic _ _
  · have hk' : memNest.is op = false := by simpa using hk
    simp only [NestOps.fuse, hk', Bool.false_eq_true, if_false]
    rcases h with h | h
    · cases op <;> first | exact single_atomic _ _ | (simp [singleOp] at h) | (simp [memNest] at hk')
    · exact absurd h hk

/-! ## the lock order of the generated shape table -/

/-- GENERATED FACT: every section of every storage method of both backends takes its locks in
    strictly increasing `lockRank` (`group_snapshots` before `inner`; never the same lock twice;
    the sqlite connection never together with another lock) -/
theorem lock_order_table :
    Generated.lockShape.all (fun e => e.2.2.2.1.all (stackOrdered lockRank 0)) = true := by
  decide

theorem lockRank_lt (i : Nat) : lockRank i < 3 := by
  unfold lockRank; split <;> omega

theorem shapeOf_ordered (b : Backend) (m : Nat) (l : List (List Lock)) (h : shapeOf b m = some l) :
    ∀ st, st ∈ l → stackOrdered lockRank 0 st = true := by
  simp only [shapeOf, Option.map_eq_some_iff] at h
  obtain ⟨e, he, rfl⟩ := h
  have hm := List.mem_of_find?_eq_some he
  have := List.all_eq_true.mp lock_order_table e hm
  intro st hst
  exact List.all_eq_true.mp this st hst

theorem ordered_atomic {σ ρ : Type} (rank : Nat → Nat) (lk : Lock) (f : σ → σ × ρ) : (Prog.atomic lk f).ordered rank 0 :=
  ⟨Nat.zero_le _, fun _ => trivial⟩

/-- every storage method, as modelled, acquires its locks in the order the table exhibits -/
theorem lockProg_ordered (b : Backend) (op : Op) : (lockProg b op).ordered lockRank 0 := by
  cases hm : methodOf op with
  | some m =>
    obtain ⟨l, hl, hf⟩ := lockProg_follows_shape' b op m hm
    exact ordered_of_follows lockRank _ [] l hf (shapeOf_ordered b m l hl)
  | none =>
    cases op <;> simp only [methodOf, reduceCtorEq] at hm
    case updLast g c p i =>
      cases b
      · refine ⟨Nat.zero_le _, fun s => ?_⟩
        show Prog.ordered lockRank 0 (match findGroup s g with
          | none => Prog.done "err"
          | some gr => Prog.atomic lkInnerW _)
        cases findGroup s g with
        | none => trivial
        | some gr => exact ordered_atomic _ _ _
      · refine ⟨Nat.zero_le _, fun s => ?_⟩
        show Prog.ordered lockRank 0 (match findGroup s g with
          | none => Prog.done "err"
          | some gr => Prog.atomic lkConn _)
        cases findGroup s g with
        | none => trivial
        | some gr => exact ordered_atomic _ _ _
    case dump => cases b <;> exact ordered_atomic _ _ _

/-! ## the backend never changes; sequential runs under equal sequential meanings -/

theorem okErr_backend (o : Option Store) (s : Store) (h : ∀ s', o = some s' → s'.backend = s.backend) :
    (okErr o s).1.backend = s.backend := by
  cases o with
  | none => rfl
  | some s' => exact h s' rfl

theorem step_backend (s : Store) (op : Op) : (Store.step s op).1.backend = s.backend := by
  cases op
  case saveGroup g =>
    apply okErr_backend; intro s' h
    simp only [saveGroup] at h
    repeat' split at h
    all_goals first | (cases h; done) | (cases h; rfl)
  case saveMessage m =>
    apply okErr_backend; intro s' h
    simp only [saveMessage] at h
    repeat' split at h
    all_goals first | (cases h; done) | (cases h; rfl)
  case markRetryable w =>
    apply okErr_backend; intro s' h
    simp only [markRetryable] at h
    repeat' split at h
    all_goals first | (cases h; done) | (cases h; rfl)
  case replaceRelays g rs =>
    apply okErr_backend; intro s' h
    simp only [replaceRelays] at h
    repeat' split at h
    all_goals first | (cases h; done) | (cases h; rfl)
  case saveSecret g e v =>
    apply okErr_backend; intro s' h
    simp only [saveSecret] at h
    repeat' split at h
    all_goals first | (cases h; done) | (cases h; rfl)
  case saveWelcome w =>
    apply okErr_backend; intro s' h
    simp only [saveWelcome] at h
    repeat' split at h
    all_goals first | (cases h; done) | (cases h; rfl)
  case snapCreate g n ts =>
    apply okErr_backend; intro s' h
    simp only [snapCreate] at h
    repeat' split at h
    all_goals first | (cases h; done) | (cases h; rfl) | (cases h; simp_all)
  case snapRollback g n =>
    apply okErr_backend; intro s' h
    simp only [snapRollback, restoreFrom] at h
    repeat' split at h
    all_goals first | (cases h; done) | (cases h; rfl) | (cases h; simp_all)
  case updLast g c p i =>
    simp only [Store.step, updLastOp]
    split
    · rfl
    · split
      · rename_i s' h
        simp only [saveGroup] at h
        repeat' split at h
        all_goals first | (cases h; done) | (cases h; rfl)
      · rfl
  all_goals rfl

theorem seqRun_congr {ι σ ρ : Type} (P Q : ι → Prog σ ρ) (I : σ → Prop)
    (hI : ∀ i s, I s → I ((Q i).run s).1) (h : ∀ i s, I s → (P i).run s = (Q i).run s) :
    ∀ (l : List ι) (s : σ), I s → seqRun P l s = seqRun Q l s := by
  intro l
  induction l with
  | nil => intro s _; rfl
  | cons i is ih =>
    intro s hs
    simp only [seqRun]
    rw [h i s hs, ih _ (hI i s hs)]

/-- a sequential run of the fused memory operations is the sequential store model's run -/
theorem memN_fuse_seqRun (l : List Op) (s : Store) (hb : s.backend = .mem) :
    seqRun (memNest.fuse (memProgWith true)) l s = seqRun (fun op => whole lkInnerW op) l s :=
  seqRun_congr _ _ (fun s => s.backend = .mem)
    (fun op s hs => by rw [run_whole]; rw [step_backend]; exact hs)
    (fun op s hs => by rw [run_whole]; exact memN_fuse_run op s hs) l s hb

end MdkVerif.Locks
