import MdkVerif.Model.MediaEpoch
import MdkVerif.Proofs.Media
/- helper lemmas for Props/C17 (epoch-hint part) -/
namespace MdkVerif.MediaEpoch
open MdkVerif MdkVerif.Codec MdkVerif.Media List

def hintedSecret (c : MClient) (h : Bytes) : Option Nat :=
  match hintOf c h with
  | none => none
  | some e => alookup e c.secrets

theorem schemeLabel_default : schemeLabel Generated.defaultSchemeVersion = some Generated.mediaSchemeLabel := by
  simp [schemeLabel]

theorem deriveKey_default (s : Nat) (r : Reference) (hv : r.version = Generated.defaultSchemeVersion) :
    deriveKey s r = some { secret := s, info := buildContext Generated.mediaSchemeLabel r.hash r.mime r.filename Generated.mediaKeySuffix } := by
  simp [deriveKey, hv, schemeLabel_default]

/-- opening an untampered blob with the key of secret `s'` -/
theorem dav_sealed (s s' : Nat) (r : Reference) (p : Nat) (hv : r.version = Generated.defaultSchemeVersion) :
    decryptAndVerify (sealBlob s r p)
      { secret := s', info := buildContext Generated.mediaSchemeLabel r.hash r.mime r.filename Generated.mediaKeySuffix } r
      = if s = s' then .ok p else .err .decryptionFailed := by
  by_cases h : s = s'
  · subst h; simp [decryptAndVerify, sealBlob, hv, schemeLabel_default]
  · simp [decryptAndVerify, sealBlob, hv, schemeLabel_default, h]

theorem tryCurrent_sealed (c : MClient) (s : Nat) (r : Reference) (p : Nat)
    (hv : r.version = Generated.defaultSchemeVersion) :
    tryCurrent c (sealBlob s r p) r =
      match c.cur with
      | none => .err .groupNotFound
      | some s' => if s = s' then .ok p else .err .decryptionFailed := by
  unfold tryCurrent
  cases hc : c.cur with
  | none => rfl
  | some s' => simp [deriveKey_default s' r hv, dav_sealed s s' r p hv]

theorem tryHint_sealed (c : MClient) (s : Nat) (r : Reference) (p : Nat)
    (hv : r.version = Generated.defaultSchemeVersion) :
    tryHint c (sealBlob s r p) r =
      match hintOf c r.hash with
      | none => .err .decryptionFailed
      | some e =>
        match alookup e c.secrets with
        | none => .err .noSecretForEpoch
        | some s' => if s = s' then .ok p else .err .decryptionFailed := by
  unfold tryHint
  cases h1 : hintOf c r.hash with
  | none => rfl
  | some e =>
    simp only
    cases h2 : alookup e c.secrets with
    | none => rfl
    | some s' => simp [deriveKey_default s' r hv, dav_sealed s s' r p hv]

theorem decrypt_sealed_iff (c : MClient) (s : Nat) (r : Reference) (p : Nat)
    (hv : r.version = Generated.defaultSchemeVersion) :
    decryptFromDownload c (sealBlob s r p) r = .ok p ↔ hintedSecret c r.hash = some s ∨ c.cur = some s := by
  unfold decryptFromDownload hintedSecret
  rw [tryHint_sealed c s r p hv, tryCurrent_sealed c s r p hv]
  cases h1 : hintOf c r.hash with
  | none =>
    cases hc : c.cur with
    | none => simp
    | some s' => by_cases h : s = s' <;> simp [h, eq_comm]
  | some e =>
    simp only
    cases h2 : alookup e c.secrets with
    | none =>
      cases hc : c.cur with
      | none => simp
      | some s' => by_cases h : s = s' <;> simp [h, eq_comm]
    | some s1 =>
      by_cases hs1 : s = s1
      · simp [hs1]
      · cases hc : c.cur with
        | none => simp [hs1]; exact fun h => hs1 h.symm
        | some s' =>
          by_cases h : s = s'
          · subst h; simp [hs1]
          · simp [hs1, h]; exact ⟨fun e => hs1 e.symm, fun e => h e.symm⟩

/-- whatever is returned is the sealed plaintext of an intact blob whose nonce, AAD and hash match the reference -/
theorem dav_ok (b : Blob) (k : Key) (r : Reference) (q : Nat) (h : decryptAndVerify b k r = .ok q) :
    q = b.plain ∧ b.intact = true ∧ b.key = k ∧ b.nonce = r.nonce ∧ b.plainHash = r.hash ∧
    ∃ l, schemeLabel r.version = some l ∧ b.aad = buildAad l r.hash r.mime r.filename := by
  unfold decryptAndVerify at h
  cases hl : schemeLabel r.version with
  | none => simp [hl] at h
  | some l =>
    simp only [hl] at h
    split at h
    · next hc =>
      simp only [Bool.and_eq_true, decide_eq_true_eq] at hc
      split at h
      · next hh => cases h; exact ⟨rfl, hc.1.1.1, hc.1.1.2, hc.1.2, hh, l, rfl, hc.2⟩
      · cases h
    · cases h

theorem decrypt_ok (c : MClient) (b : Blob) (r : Reference) (q : Nat) (h : decryptFromDownload c b r = .ok q) :
    ∃ k, decryptAndVerify b k r = .ok q := by
  have cur_case : ∀ q, tryCurrent c b r = .ok q → ∃ k, decryptAndVerify b k r = .ok q := by
    intro q hq
    unfold tryCurrent at hq
    cases hc : c.cur with
    | none => simp [hc] at hq
    | some s =>
      simp only [hc] at hq
      cases hk : deriveKey s r with
      | none => simp [hk] at hq
      | some k => simp only [hk] at hq; exact ⟨k, hq⟩
  unfold decryptFromDownload at h
  cases ht : tryHint c b r with
  | ok p =>
    simp only [ht] at h
    unfold tryHint at ht
    cases h1 : hintOf c r.hash with
    | none => simp [h1] at ht
    | some e =>
      simp only [h1] at ht
      cases h2 : alookup e c.secrets with
      | none => simp [h2] at ht
      | some s =>
        simp only [h2] at ht
        cases hk : deriveKey s r with
        | none => simp [hk] at ht
        | some k => simp only [hk] at ht; cases h; exact ⟨k, ht⟩
  | err e =>
    simp only [ht] at h
    cases e <;> simp at h <;> exact cur_case q h

/-! ### the history -/

def Inv (c : MClient) : Prop :=
  (∀ n, c.epoch < n → alookup n c.secrets = none) ∧ (∀ s, alookup c.epoch c.secrets = some s → c.cur = some s)

theorem alookup_cons_ne {α : Type} (k k' : Nat) (v : α) (l : List (Nat × α)) (h : k' ≠ k) :
    alookup k ((k', v) :: l) = alookup k l := by
  simp [alookup, h]

theorem alookup_aerase_ne {α : Type} (k e : Nat) (l : List (Nat × α)) (h : e ≠ k) :
    alookup k (aerase e l) = alookup k l := by
  induction l with
  | nil => rfl
  | cons x xs ih =>
    obtain ⟨k', v⟩ := x
    unfold aerase at ih ⊢
    by_cases c : k' = e
    · subst c
      have : alookup k ((k', v) :: xs) = alookup k xs := alookup_cons_ne k k' v xs h
      simp [List.filter, this, ih]
    · have hne : ((k', v).1 != e) = true := by simp [c]
      simp only [List.filter, hne]
      by_cases c2 : k' = k
      · simp [alookup, c2]
      · simp [alookup, c2, ih]

theorem alookup_aerase_none {α : Type} (k e : Nat) (l : List (Nat × α)) (h : alookup k l = none) :
    alookup k (aerase e l) = none := by
  induction l with
  | nil => rfl
  | cons x xs ih =>
    obtain ⟨k', v⟩ := x
    unfold aerase at ih ⊢
    have hk : k' ≠ k := by intro c; simp [alookup, c] at h
    have hx : alookup k xs = none := by simpa [alookup, hk] using h
    by_cases c : k' = e
    · simp [List.filter, c, ih hx]
    · have hne : ((k', v).1 != e) = true := by simp [c]
      simp [List.filter, hne, alookup, hk, ih hx]

theorem lookupB_append (h : Bytes) (l m : List (Bytes × Nat)) (v : Nat) (hl : lookupB h l = some v) :
    lookupB h (l ++ m) = some v := by
  induction l with
  | nil => simp [lookupB] at hl
  | cons x xs ih =>
    obtain ⟨k, w⟩ := x
    by_cases c : k = h
    · simpa [lookupB, c] using hl
    · simp only [List.cons_append, lookupB, c, if_false] at hl ⊢
      exact ih hl

theorem lookupB_append_none (h : Bytes) (l : List (Bytes × Nat)) (k : Bytes) (v : Nat) (hl : lookupB h l = none) :
    lookupB h (l ++ [(k, v)]) = if k = h then some v else none := by
  induction l with
  | nil => simp [lookupB]
  | cons x xs ih =>
    obtain ⟨k', w⟩ := x
    by_cases c : k' = h
    · simp [lookupB, c] at hl
    · simp only [lookupB, c, if_false] at hl
      simp only [List.cons_append, lookupB, c, if_false]
      exact ih hl

theorem touch_cases (c : MClient) :
    touch c = c ∨ ∃ s, c.cur = some s ∧ alookup c.epoch c.secrets = none ∧
      touch c = { c with secrets := (c.epoch, s) :: c.secrets } := by
  unfold touch
  cases hc : c.cur with
  | none => exact Or.inl rfl
  | some s =>
    cases hl : alookup c.epoch c.secrets with
    | some v => simp
    | none => exact Or.inr ⟨s, rfl, rfl, by simp⟩

theorem touch_inv (c : MClient) (h : Inv c) : Inv (touch c) := by
  rcases touch_cases c with e | ⟨s, hc, hl, e⟩
  · rw [e]; exact h
  · rw [e]
    constructor
    · intro n hn
      have hn' : c.epoch < n := hn
      have : c.epoch ≠ n := by omega
      show alookup n ((c.epoch, s) :: c.secrets) = none
      rw [alookup_cons_ne n c.epoch s c.secrets this]
      exact h.1 n hn'
    · intro s' hs'
      have : alookup c.epoch ((c.epoch, s) :: c.secrets) = some s := by simp [alookup]
      have hs'' : alookup c.epoch ((c.epoch, s) :: c.secrets) = some s' := hs'
      rw [this] at hs''; cases hs''
      exact hc

theorem touch_fields (c : MClient) : (touch c).epoch = c.epoch ∧ (touch c).cur = c.cur ∧ (touch c).tags = c.tags := by
  rcases touch_cases c with e | ⟨s, _, _, e⟩ <;> rw [e] <;> exact ⟨rfl, rfl, rfl⟩

/-- after a `touch` in a consistent state the current secret is stored under the current epoch -/
theorem touch_stores (c : MClient) (s : Nat) (h : Inv c) (hc : c.cur = some s) :
    alookup c.epoch (touch c).secrets = some s := by
  rcases touch_cases c with e | ⟨s', hc', hl, e⟩
  · rw [e]
    cases hl : alookup c.epoch c.secrets with
    | some s' =>
      have := h.2 s' hl
      rw [hc] at this; cases this; rfl
    | none =>
      -- then `touch` would have stored it
      exfalso
      have : touch c ≠ c := by
        unfold touch; simp [hc, hl]
        intro heq
        have := congrArg MClient.secrets heq
        simp at this
      exact this e
  · rw [e]
    rw [hc] at hc'; cases hc'
    show alookup c.epoch ((c.epoch, s) :: c.secrets) = some s
    simp [alookup]

/-- a stored secret survives `touch` -/
theorem touch_keeps (c : MClient) (e s : Nat) (h : alookup e c.secrets = some s) :
    alookup e (touch c).secrets = some s := by
  rcases touch_cases c with eq | ⟨s', _, hl, eq⟩
  · rw [eq]; exact h
  · rw [eq]
    have : c.epoch ≠ e := by intro heq; rw [heq, h] at hl; cases hl
    show alookup e ((c.epoch, s') :: c.secrets) = some s
    rw [alookup_cons_ne e c.epoch s' c.secrets this]
    exact h

theorem step_inv (c : MClient) (op : MOp) (h : Inv c) : Inv (step c op) := by
  cases op with
  | touch => exact touch_inv c h
  | advance s =>
    constructor
    · intro n hn; simp [step] at hn ⊢; exact h.1 n (by omega)
    · intro s' hs'
      simp [step] at hs' ⊢
      have := h.1 (c.epoch + 1) (by omega)
      rw [this] at hs'; cases hs'
  | announce hh =>
    have ht := touch_inv c h
    simp only [step]
    split
    · exact ht
    · exact ⟨ht.1, ht.2⟩
  | forget e =>
    constructor
    · intro n hn; simp only [step] at hn ⊢; exact alookup_aerase_none n e c.secrets (h.1 n hn)
    · intro s hs
      simp only [step] at hs ⊢
      by_cases he : e = c.epoch
      · subst he
        have : alookup c.epoch (aerase c.epoch c.secrets) = none := by
          clear hs h
          induction c.secrets with
          | nil => rfl
          | cons x xs ih =>
            obtain ⟨k, v⟩ := x
            unfold aerase at ih ⊢
            by_cases ck : k = c.epoch
            · simp [List.filter, ck, ih]
            · have hne : ((k, v).1 != c.epoch) = true := by simp [ck]
              simp [List.filter, hne, alookup, ck, ih]
        rw [this] at hs; cases hs
      · rw [alookup_aerase_ne c.epoch e c.secrets he] at hs
        exact h.2 s hs

end MdkVerif.MediaEpoch
