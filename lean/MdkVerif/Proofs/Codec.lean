import MdkVerif.Model.Codec
/-
  Helper lemmas for Props/C15 (extension codec part).
-/
namespace MdkVerif.Codec
open List

/-! ### variable-length header -/

theorem encLen_length (n : Nat) (hdr : Bytes) (h : encLen n = some hdr) : hdr.length = minLenLen n := by
  unfold encLen at h
  unfold minLenLen
  by_cases c1 : n < 64
  · rw [if_pos c1] at h; cases h; simp [c1]
  · rw [if_neg c1] at h
    by_cases c2 : n < 16384
    · rw [if_pos c2] at h; cases h; simp [c1, c2]
    · rw [if_neg c2] at h
      by_cases c3 : n < 1073741824
      · rw [if_pos c3] at h; cases h; simp [c1, c2]
      · rw [if_neg c3] at h; cases h

theorem encLen_isSome (n : Nat) (h : small n) : ∃ hdr, encLen n = some hdr := by
  unfold small at h
  unfold encLen
  by_cases c1 : n < 64
  · exact ⟨_, by rw [if_pos c1]⟩
  · by_cases c2 : n < 16384
    · exact ⟨_, by rw [if_neg c1, if_pos c2]⟩
    · exact ⟨_, by rw [if_neg c1, if_neg c2, if_pos h]⟩

theorem minLenLen_pos (n : Nat) : 1 ≤ minLenLen n := by
  unfold minLenLen; split <;> (try split) <;> omega

theorem decLen_encLen (n : Nat) (tl : Bytes) (hdr : Bytes) (h : encLen n = some hdr) :
    decLen (hdr ++ tl) = some (n, hdr.length, tl) := by
  unfold encLen at h
  by_cases c1 : n < 64
  · rw [if_pos c1] at h; cases h
    have h1 : n / 64 = 0 := by omega
    have h2 : n % 64 = n := by omega
    simp [decLen, minLenLen, h1, h2, c1]
  · rw [if_neg c1] at h
    by_cases c2 : n < 16384
    · rw [if_pos c2] at h; cases h
      have h1 : (64 + n / 256) / 64 = 1 := by omega
      have h2 : (64 + n / 256) % 64 = n / 256 := by omega
      have h3 : n / 256 * 256 + n % 256 = n := by omega
      simp [decLen, minLenLen, h1, h2, h3, c1, c2]
    · rw [if_neg c2] at h
      by_cases c3 : n < 1073741824
      · rw [if_pos c3] at h; cases h
        have h1 : (128 + n / 16777216) / 64 = 2 := by omega
        have h2 : (128 + n / 16777216) % 64 = n / 16777216 := by omega
        have h3 : ((n / 16777216 * 256 + n / 65536 % 256) * 256 + n / 256 % 256) * 256 + n % 256 = n := by omega
        simp [decLen, minLenLen, h1, h2, h3, c1, c2]
      · rw [if_neg c3] at h; cases h

/-! ### primitive readers -/

theorem takeN_append (a tl : Bytes) : takeN a.length (a ++ tl) = some (a, tl) := by
  simp [takeN]

theorem takeN_append' (n : Nat) (a tl : Bytes) (h : a.length = n) : takeN n (a ++ tl) = some (a, tl) := by
  subst h; exact takeN_append a tl

theorem decU16_encU16 (v : Nat) (tl : Bytes) : decU16 (encU16 v ++ tl) = some (v, tl) := by
  have : v / 256 * 256 + v % 256 = v := by omega
  simp [decU16, encU16, this]

theorem decVecU8_enc (b tl enc : Bytes) (h : encVecU8 b = some enc) :
    decVecU8 (enc ++ tl) = some (b, enc.length, tl) := by
  unfold encVecU8 at h
  cases hh : encLen b.length with
  | none => simp [hh] at h
  | some hdr =>
    simp [hh] at h
    subst h
    have := decLen_encLen b.length (b ++ tl) hdr hh
    simp [decVecU8, List.append_assoc, this, takeN_append]

theorem encVecU8_length (b enc : Bytes) (h : encVecU8 b = some enc) :
    enc.length = minLenLen b.length + b.length := by
  unfold encVecU8 at h
  cases hh : encLen b.length with
  | none => simp [hh] at h
  | some hdr =>
    simp [hh] at h
    subst h
    simp [encLen_length _ _ hh]

/-! ### element loops -/

theorem readElems_arr (n : Nat) (hn : 1 ≤ n) (l : List Bytes) (hl : ∀ a ∈ l, a.length = n) (tl : Bytes) :
    ∀ fuel, l.length ≤ fuel →
      readElems (elemArr n) fuel (n * l.length) (l.flatten ++ tl) = some (l, tl) := by
  induction l with
  | nil => intro fuel _; cases fuel <;> simp [readElems]
  | cons a as ih =>
    intro fuel hf
    cases fuel with
    | zero => simp at hf
    | succ f =>
      have ha : a.length = n := hl a (by simp)
      have has : ∀ x ∈ as, x.length = n := fun x hx => hl x (by simp [hx])
      have hne : n * (as.length + 1) ≠ 0 := by
        have : n * (as.length + 1) = n * as.length + n := by rw [Nat.mul_add, Nat.mul_one]
        omega
      have hsub : n * (as.length + 1) - n = n * as.length := by
        rw [Nat.mul_add, Nat.mul_one]; omega
      have ht : takeN n (a ++ (as.flatten ++ tl)) = some (a, as.flatten ++ tl) := takeN_append' n a _ ha
      have hrec := ih has f (by simp at hf; omega)
      simp [readElems, hne, elemArr, List.append_assoc, ht, hsub, hrec]

theorem flatten_length_of_all (n : Nat) (l : List Bytes) (hl : ∀ a ∈ l, a.length = n) :
    l.flatten.length = n * l.length := by
  induction l with
  | nil => simp
  | cons a as ih =>
    have ha : a.length = n := hl a (by simp)
    have := ih (fun x hx => hl x (by simp [hx]))
    simp [ha, this, Nat.mul_add]; omega

theorem decVec_arr (l : List Bytes) (hl : ∀ a ∈ l, a.length = 32) (tl enc : Bytes)
    (h : encVecArr l = some enc) : decVec (elemArr 32) (enc ++ tl) = some (l, tl) := by
  unfold encVecArr at h
  cases hh : encLen l.flatten.length with
  | none => rw [hh] at h; simp at h
  | some hdr =>
    rw [hh] at h
    simp only [Option.map_some, Option.some.injEq] at h
    subst h
    have hd := decLen_encLen l.flatten.length (l.flatten ++ tl) hdr hh
    have hlen := flatten_length_of_all 32 l hl
    have hr := readElems_arr 32 (by omega) l hl tl (32 * l.length) (by omega)
    rw [hlen] at hd
    simp only [decVec, List.append_assoc, hd]
    exact hr

theorem encElems_length (l : List Bytes) (c : Bytes) (h : encElems l = some c) :
    c.length = elemsSize l ∧ l.length ≤ c.length := by
  induction l generalizing c with
  | nil => simp [encElems] at h; subst h; simp [elemsSize]
  | cons e es ih =>
    unfold encElems at h
    cases h1 : encVecU8 e with
    | none => simp [h1] at h
    | some a =>
      cases h2 : encElems es with
      | none => simp [h1, h2] at h
      | some b =>
        simp [h1, h2] at h
        subst h
        have := ih b h2
        have hl := encVecU8_length e a h1
        have hp := minLenLen_pos e.length
        simp [elemsSize, hl]; omega

theorem readElems_vecs (l : List Bytes) (tl : Bytes) :
    ∀ c fuel, encElems l = some c → l.length ≤ fuel →
      readElems decVecU8 fuel c.length (c ++ tl) = some (l, tl) := by
  induction l with
  | nil =>
    intro c fuel h _
    simp [encElems] at h; subst h
    cases fuel <;> simp [readElems]
  | cons e es ih =>
    intro c fuel h hf
    cases fuel with
    | zero => simp at hf
    | succ f =>
      unfold encElems at h
      cases h1 : encVecU8 e with
      | none => simp [h1] at h
      | some a =>
        cases h2 : encElems es with
        | none => simp [h1, h2] at h
        | some b =>
          simp [h1, h2] at h
          subst h
          have hl := encVecU8_length e a h1
          have hp := minLenLen_pos e.length
          have hne : (a ++ b).length ≠ 0 := by rw [List.length_append]; omega
          have hd := decVecU8_enc e (b ++ tl) a h1
          have hsub : (a ++ b).length - a.length = b.length := by simp
          have hrec := ih b f h2 (by simp at hf; omega)
          simp only [readElems, hne, if_false, List.append_assoc, hd, hsub, hrec]

theorem decVec_vecs (l : List Bytes) (tl enc : Bytes) (h : encVecVec l = some enc) :
    decVec decVecU8 (enc ++ tl) = some (l, tl) := by
  unfold encVecVec at h
  cases h1 : encElems l with
  | none => simp [h1] at h
  | some c =>
    simp only [h1] at h
    cases hh : encLen c.length with
    | none => simp [hh] at h
    | some hdr =>
      simp [hh] at h
      subst h
      have hd := decLen_encLen c.length (c ++ tl) hdr hh
      have hr := readElems_vecs l tl c c.length h1 (encElems_length l c h1).2
      simp only [decVec, List.append_assoc, hd]
      exact hr

/-! ### the struct -/

theorem decRaw_encRaw (r : Raw) (bs tl : Bytes) (h : encRaw r = some bs)
    (hg : r.gid.length = 32) (ha : ∀ a ∈ r.admins, a.length = 32) :
    decRaw (bs ++ tl) = some (r, tl) := by
  unfold encRaw at h
  cases e1 : encVecU8 r.name with
  | none => simp [e1] at h
  | some n =>
  cases e2 : encVecU8 r.desc with
  | none => simp [e1, e2] at h
  | some d =>
  cases e3 : encVecArr r.admins with
  | none => simp [e1, e2, e3] at h
  | some a =>
  cases e4 : encVecVec r.relays with
  | none => simp [e1, e2, e3, e4] at h
  | some rl =>
  cases e5 : encVecU8 r.ih with
  | none => simp [e1, e2, e3, e4, e5] at h
  | some hh =>
  cases e6 : encVecU8 r.ik with
  | none => simp [e1, e2, e3, e4, e5, e6] at h
  | some k =>
  cases e7 : encVecU8 r.inn with
  | none => simp [e1, e2, e3, e4, e5, e6, e7] at h
  | some nn =>
  cases e8 : encVecU8 r.iu with
  | none => simp [e1, e2, e3, e4, e5, e6, e7, e8] at h
  | some u =>
    simp only [e1, e2, e3, e4, e5, e6, e7, e8, Option.some.injEq] at h
    subst h
    have s0 := decU16_encU16 r.version (r.gid ++ (n ++ (d ++ (a ++ (rl ++ (hh ++ (k ++ (nn ++ u))))))) ++ tl)
    have s1 := takeN_append' 32 r.gid (n ++ (d ++ (a ++ (rl ++ (hh ++ (k ++ (nn ++ (u ++ tl)))))))) hg
    have s2 := decVecU8_enc r.name (d ++ (a ++ (rl ++ (hh ++ (k ++ (nn ++ (u ++ tl))))))) n e1
    have s3 := decVecU8_enc r.desc (a ++ (rl ++ (hh ++ (k ++ (nn ++ (u ++ tl)))))) d e2
    have s4 := decVec_arr r.admins ha (rl ++ (hh ++ (k ++ (nn ++ (u ++ tl))))) a e3
    have s5 := decVec_vecs r.relays (hh ++ (k ++ (nn ++ (u ++ tl)))) rl e4
    have s6 := decVecU8_enc r.ih (k ++ (nn ++ (u ++ tl))) hh e5
    have s7 := decVecU8_enc r.ik (nn ++ (u ++ tl)) k e6
    have s8 := decVecU8_enc r.inn (u ++ tl) nn e7
    have s9 := decVecU8_enc r.iu tl u e8
    simp only [List.append_assoc] at s0
    simp only [decRaw, List.append_assoc, s0, s1, s2, s3, s4, s5, s6, s7, s8, s9]

/-! ### sets -/

theorem bytesLt_asymm : ∀ (a b : Bytes), bytesLt a b = true → bytesLt b a = false := by
  intro a
  induction a with
  | nil => intro b h; cases b <;> simp [bytesLt] at *
  | cons x xs ih =>
    intro b h
    cases b with
    | nil => simp [bytesLt] at h
    | cons y ys =>
      unfold bytesLt at h ⊢
      by_cases c1 : x < y
      · have c2 : ¬ y < x := by omega
        simp [c2, c1]
      · by_cases c2 : y < x
        · simp [c1, c2] at h
        · simp [c1, c2] at h ⊢
          exact ih ys h

theorem bytesLt_irrefl (a : Bytes) : bytesLt a a = false := by
  cases h : bytesLt a a with
  | false => rfl
  | true => have := bytesLt_asymm a a h; simp [h] at this

theorem setInsert_append {α : Type} (lt : α → α → Bool)
    (hasym : ∀ a b, lt a b = true → lt b a = false) (x : α) (l : List α)
    (h : ∀ y ∈ l, lt y x = true) : setInsert lt x l = l ++ [x] := by
  induction l with
  | nil => rfl
  | cons y ys ih =>
    have hy : lt y x = true := h y (by simp)
    have hxy : lt x y = false := hasym y x hy
    have := ih (fun z hz => h z (by simp [hz]))
    simp [setInsert, hxy, hy, this]

theorem foldl_setInsert_sorted {α : Type} (lt : α → α → Bool)
    (hasym : ∀ a b, lt a b = true → lt b a = false) (l : List α) :
    ∀ acc, (acc ++ l).Pairwise (fun a b => lt a b = true) →
      l.foldl (fun acc x => setInsert lt x acc) acc = acc ++ l := by
  induction l with
  | nil => intro acc _; simp
  | cons x xs ih =>
    intro acc hp
    have hacc : ∀ y ∈ acc, lt y x = true := by
      intro y hy
      have := List.pairwise_append.mp hp
      exact this.2.2 y hy x (by simp)
    have hins := setInsert_append lt hasym x acc hacc
    have hp' : ((acc ++ [x]) ++ xs).Pairwise (fun a b => lt a b = true) := by
      simpa [List.append_assoc] using hp
    have := ih (acc ++ [x]) hp'
    simp only [List.foldl_cons, hins, this, List.append_assoc, List.singleton_append]

theorem setOfList_sorted (l : List Bytes) (h : l.Pairwise (fun a b => bytesLt a b = true)) :
    setOfList bytesLt l = l := by
  unfold setOfList
  have := foldl_setInsert_sorted bytesLt bytesLt_asymm l [] (by simpa using h)
  simpa using this

theorem relayLt_asymm (a b : Relay) (h : relayLt a b = true) : relayLt b a = false :=
  bytesLt_asymm _ _ h

theorem relaysFrom_sorted (env : Env) (l : List Relay)
    (hparse : ∀ r ∈ l, env.utf8 r.text = true ∧ env.relayParse r.text = some r) :
    ∀ acc, (acc ++ l).Pairwise (fun a b => relayLt a b = true) →
      relaysFrom env (l.map (fun r => r.text)) acc = .ok (acc ++ l) := by
  induction l with
  | nil => intro acc _; simp [relaysFrom]
  | cons x xs ih =>
    intro acc hp
    have hx := hparse x (by simp)
    have hacc : ∀ y ∈ acc, relayLt y x = true := by
      intro y hy
      have := List.pairwise_append.mp hp
      exact this.2.2 y hy x (by simp)
    have hins := setInsert_append relayLt relayLt_asymm x acc hacc
    have hp' : ((acc ++ [x]) ++ xs).Pairwise (fun a b => relayLt a b = true) := by
      simpa [List.append_assoc] using hp
    have := ih (fun r hr => hparse r (by simp [hr])) (acc ++ [x]) hp'
    simp [relaysFrom, hx.1, hx.2, hins, this]

theorem optFixed_opt (n : Nat) (hn : 1 ≤ n) (e : DecErr) (o : Option Bytes) (h : optLen n o) :
    optFixed n e (optBytes o) = .ok o := by
  cases o with
  | none => simp [optFixed, optBytes]
  | some b =>
    have hl : b.length = n := h.1
    have hne : b ≠ [] := by intro hb; subst hb; simp at hl; omega
    simp [optFixed, optBytes, hl, hne]

theorem fromRaw_asRaw (env : Env) (x : Ext) (h : x.WF env) : fromRaw env (asRaw x) = .ok x := by
  have hv : x.version ≠ 0 := by have := h.version; omega
  have hr := relaysFrom_sorted env x.relays (fun r hr => ⟨(h.relays.1 r hr).1, (h.relays.1 r hr).2.1⟩) []
    (by simpa using h.relays.2)
  have ha := setOfList_sorted x.admins h.admins.2.1
  have h1 := optFixed_opt 32 (by omega) .hashLen x.ih h.ih
  have h2 := optFixed_opt 32 (by omega) .keyLen x.ik h.ik
  have h3 := optFixed_opt 12 (by omega) .nonceLen x.inn h.inn
  have h4 := optFixed_opt 32 (by omega) .uploadLen x.iu h.iu
  simp only [List.nil_append] at hr
  simp [fromRaw, asRaw, hv, hr, ha, h1, h2, h3, h4, h.name.2.1, h.desc.2.1]

/-! ### encoding succeeds on well-formed values -/

theorem encVecU8_isSome (b : Bytes) (h : small b.length) : ∃ enc, encVecU8 b = some enc := by
  obtain ⟨hdr, hh⟩ := encLen_isSome b.length h
  exact ⟨hdr ++ b, by simp [encVecU8, hh]⟩

theorem encElems_isSome (l : List Bytes) (h : ∀ e ∈ l, small e.length) : ∃ c, encElems l = some c := by
  induction l with
  | nil => exact ⟨[], rfl⟩
  | cons e es ih =>
    obtain ⟨a, ha⟩ := encVecU8_isSome e (h e (by simp))
    obtain ⟨b, hb⟩ := ih (fun x hx => h x (by simp [hx]))
    exact ⟨a ++ b, by simp [encElems, ha, hb]⟩

theorem optBytes_small (n : Nat) (hn : n ≤ 32) (o : Option Bytes) (h : optLen n o) : small (optBytes o).length := by
  cases o with
  | none => simp [optBytes, small]
  | some b => have := h.1; simp [optBytes, small]; omega

theorem encode_isSome (env : Env) (x : Ext) (h : x.WF env) : ∃ bs, encode x = some bs := by
  obtain ⟨n, hn⟩ := encVecU8_isSome x.name h.name.2.2
  obtain ⟨d, hd⟩ := encVecU8_isSome x.desc h.desc.2.2
  have hal := flatten_length_of_all 32 x.admins (fun a ha => (h.admins.1 a ha).1)
  obtain ⟨ahdr, hah⟩ := encLen_isSome x.admins.flatten.length (by rw [hal]; exact h.admins.2.2)
  obtain ⟨c, hc⟩ := encElems_isSome (x.relays.map (fun r => r.text))
    (by intro e he; simp at he; obtain ⟨r, hr, rfl⟩ := he; exact (h.relays.1 r hr).2.2)
  have hcl := (encElems_length _ c hc).1
  obtain ⟨rhdr, hrh⟩ := encLen_isSome c.length (by rw [hcl]; exact h.relaysSize)
  obtain ⟨e5, h5⟩ := encVecU8_isSome (optBytes x.ih) (optBytes_small 32 (by omega) _ h.ih)
  obtain ⟨e6, h6⟩ := encVecU8_isSome (optBytes x.ik) (optBytes_small 32 (by omega) _ h.ik)
  obtain ⟨e7, h7⟩ := encVecU8_isSome (optBytes x.inn) (optBytes_small 12 (by omega) _ h.inn)
  obtain ⟨e8, h8⟩ := encVecU8_isSome (optBytes x.iu) (optBytes_small 32 (by omega) _ h.iu)
  simp only [encode, encRaw, asRaw, hn, hd, encVecArr, hah, encVecVec, hc, hrh, h5, h6, h7, h8, Option.map_some]
  exact ⟨_, rfl⟩

/-! ### an accepted length prefix is THE canonical one -/

theorem decLen_canonical (bs : Bytes) (hb : isBytes bs = true) (n k : Nat) (rest : Bytes)
    (h : decLen bs = some (n, k, rest)) :
    ∃ hdr, encLen n = some hdr ∧ bs = hdr ++ rest ∧ k = hdr.length := by
  cases bs with
  | nil => simp [decLen] at h
  | cons b0 r =>
    simp only [isBytes, List.all_cons, Bool.and_eq_true, decide_eq_true_eq] at hb
    obtain ⟨hb0, hr⟩ := hb
    unfold decLen at h
    simp only at h
    by_cases t0 : b0 / 64 = 0
    · rw [if_pos t0] at h
      have hv : b0 % 64 = b0 := by omega
      have hm : minLenLen (b0 % 64) = 1 := by unfold minLenLen; rw [if_pos (by omega)]
      rw [if_pos hm] at h
      simp only [Option.some.injEq, Prod.mk.injEq] at h
      obtain ⟨rfl, rfl, rfl⟩ := h
      refine ⟨[b0], ?_, ?_, rfl⟩
      · unfold encLen; rw [if_pos (by omega)]; rw [hv]
      · rfl
    · rw [if_neg t0] at h
      by_cases t1 : b0 / 64 = 1
      · rw [if_pos t1] at h
        cases r with
        | nil => simp at h
        | cons b1 r' =>
          simp only [List.all_cons, Bool.and_eq_true, decide_eq_true_eq] at hr
          obtain ⟨hb1, _⟩ := hr
          simp only at h
          by_cases hm : minLenLen (b0 % 64 * 256 + b1) = 2
          · rw [if_pos hm] at h
            simp only [Option.some.injEq, Prod.mk.injEq] at h
            obtain ⟨rfl, rfl, rfl⟩ := h
            have hge : ¬ (b0 % 64 * 256 + b1 < 64) := by
              intro c; unfold minLenLen at hm; rw [if_pos c] at hm; omega
            have hlt : b0 % 64 * 256 + b1 < 16384 := by omega
            refine ⟨[b0, b1], ?_, rfl, rfl⟩
            unfold encLen; rw [if_neg hge, if_pos hlt]
            have e1 : 64 + (b0 % 64 * 256 + b1) / 256 = b0 := by omega
            have e2 : (b0 % 64 * 256 + b1) % 256 = b1 := by omega
            rw [e1, e2]
          · rw [if_neg hm] at h; cases h
      · rw [if_neg t1] at h
        by_cases t2 : b0 / 64 = 2
        · rw [if_pos t2] at h
          match r, hr, h with
          | b1 :: b2 :: b3 :: r', hr, h =>
            simp only [List.all_cons, Bool.and_eq_true, decide_eq_true_eq] at hr
            obtain ⟨hb1, hb2, hb3, _⟩ := hr
            simp only at h
            by_cases hm : minLenLen (((b0 % 64 * 256 + b1) * 256 + b2) * 256 + b3) = 4
            · rw [if_pos hm] at h
              simp only [Option.some.injEq, Prod.mk.injEq] at h
              obtain ⟨rfl, rfl, rfl⟩ := h
              have hge : ¬ (((b0 % 64 * 256 + b1) * 256 + b2) * 256 + b3 < 16384) := by
                intro c; unfold minLenLen at hm
                by_cases c0 : ((b0 % 64 * 256 + b1) * 256 + b2) * 256 + b3 < 64
                · rw [if_pos c0] at hm; omega
                · rw [if_neg c0, if_pos c] at hm; omega
              have hge0 : ¬ (((b0 % 64 * 256 + b1) * 256 + b2) * 256 + b3 < 64) := by omega
              have hlt : ((b0 % 64 * 256 + b1) * 256 + b2) * 256 + b3 < 1073741824 := by omega
              refine ⟨[b0, b1, b2, b3], ?_, rfl, rfl⟩
              unfold encLen; rw [if_neg hge0, if_neg hge, if_pos hlt]
              have e1 : 128 + (((b0 % 64 * 256 + b1) * 256 + b2) * 256 + b3) / 16777216 = b0 := by omega
              have e2 : (((b0 % 64 * 256 + b1) * 256 + b2) * 256 + b3) / 65536 % 256 = b1 := by omega
              have e3 : (((b0 % 64 * 256 + b1) * 256 + b2) * 256 + b3) / 256 % 256 = b2 := by omega
              have e4 : (((b0 % 64 * 256 + b1) * 256 + b2) * 256 + b3) % 256 = b3 := by omega
              rw [e1, e2, e3, e4]
            · rw [if_neg hm] at h; cases h
          | [], _, h => simp at h
          | [_], _, h => simp at h
          | [_, _], _, h => simp at h
        · rw [if_neg t2] at h; cases h

end MdkVerif.Codec
