import MdkVerif.Model.Locks
/-
  MdkVerif.Proofs.Locks — lemmas about the interleaving semantics of `Model.Locks`
  (generic in the state, result and operation-name types).
-/
namespace MdkVerif.Locks
variable {ι σ ρ : Type}

/-! ## equations of `step` -/

theorem step_nil {c : Cfg ι σ ρ} {t : Nat} (h : c.thr t = []) : step c t = c := by
  simp [step, h]

theorem isDone_some {p : Prog σ ρ} {r : ρ} (h : p.isDone = some r) : p = .done r := by
  cases p <;> simp [Prog.isDone] at h
  subst h; rfl

theorem isDone_done (r : ρ) : (Prog.done r : Prog σ ρ).isDone = some r := rfl

/-- the operation at the head of `t` completes in this step -/
theorem step_complete {c : Cfg ι σ ρ} {t : Nat} {it : Item ι σ ρ} {rest : List (Item ι σ ρ)} {r : ρ}
    (h : c.thr t = it :: rest) (hd : (it.rem.adv c.st).2.1.isDone = some r) :
    step c t = { st := (it.rem.adv c.st).1, thr := setThr c.thr t rest, log := c.log ++ [(t, it.op, r)] } := by
  simp [step, h, hd]

/-- the operation at the head of `t` runs one section and is not finished -/
theorem step_continue {c : Cfg ι σ ρ} {t : Nat} {it : Item ι σ ρ} {rest : List (Item ι σ ρ)}
    (h : c.thr t = it :: rest) (hd : (it.rem.adv c.st).2.1.isDone = none) :
    step c t = { st := (it.rem.adv c.st).1,
                 thr := setThr c.thr t ({ op := it.op, rem := (it.rem.adv c.st).2.1, pc := it.pc + 1,
                                          held := it.held ++ (it.rem.adv c.st).2.2 } :: rest),
                 log := c.log } := by
  simp [step, h, hd]

theorem step_done {c : Cfg ι σ ρ} {t : Nat} {it : Item ι σ ρ} {rest : List (Item ι σ ρ)} {r : ρ}
    (h : c.thr t = it :: rest) (hr : it.rem = .done r) :
    step c t = { st := c.st, thr := setThr c.thr t rest, log := c.log ++ [(t, it.op, r)] } := by
  simp [step, h, hr, Prog.adv, Prog.isDone]

theorem step_sec_done {c : Cfg ι σ ρ} {t : Nat} {it : Item ι σ ρ} {rest : List (Item ι σ ρ)}
    {lk : Lock} {upd : σ → σ} {next : σ → Prog σ ρ} {r : ρ}
    (h : c.thr t = it :: rest) (hr : it.rem = .sec lk upd next) (hn : next c.st = .done r) :
    step c t = { st := upd c.st, thr := setThr c.thr t rest, log := c.log ++ [(t, it.op, r)] } := by
  simp [step, h, hr, hn, Prog.adv, Prog.isDone]

theorem step_sec_sec {c : Cfg ι σ ρ} {t : Nat} {it : Item ι σ ρ} {rest : List (Item ι σ ρ)}
    {lk lk' : Lock} {upd upd' : σ → σ} {next next' : σ → Prog σ ρ}
    (h : c.thr t = it :: rest) (hr : it.rem = .sec lk upd next) (hn : next c.st = .sec lk' upd' next') :
    step c t = { st := upd c.st,
                 thr := setThr c.thr t ({ op := it.op, rem := .sec lk' upd' next', pc := it.pc + 1, held := it.held } :: rest),
                 log := c.log } := by
  simp [step, h, hr, hn, Prog.adv, Prog.isDone]

theorem setThr_same (thr : Nat → List (Item ι σ ρ)) (t : Nat) (q : List (Item ι σ ρ)) :
    setThr thr t q t = q := by simp [setThr]

theorem setThr_other (thr : Nat → List (Item ι σ ρ)) {t u : Nat} (q : List (Item ι σ ρ)) (h : u ≠ t) :
    setThr thr t q u = thr u := by simp [setThr, h]

theorem exec_cons (c : Cfg ι σ ρ) (t : Nat) (r : List Nat) : exec c (t :: r) = exec (step c t) r := rfl
theorem exec_nil (c : Cfg ι σ ρ) : exec c [] = c := rfl

/-! ## sequential runs -/

theorem seqRun_snoc (prog : ι → Prog σ ρ) (l : List ι) (i : ι) (s : σ) :
    seqRun prog (l ++ [i]) s =
      (((prog i).run (seqRun prog l s).1).1, (seqRun prog l s).2 ++ [((prog i).run (seqRun prog l s).1).2]) := by
  induction l generalizing s with
  | nil => simp [seqRun]
  | cons j js ih => simp [seqRun, ih]

theorem run_atomic (lk : Lock) (f : σ → σ × ρ) (s : σ) : (Prog.atomic lk f).run s = f s := by
  simp [Prog.atomic, Prog.run]

theorem run_cta (lk1 lk2 : Lock) (chk : σ → Bool) (err : ρ) (act : σ → σ × ρ) (s : σ) :
    (Prog.cta lk1 lk2 chk err act).run s = if chk s then act s else (s, err) := by
  by_cases h : chk s <;> simp [Prog.cta, Prog.run, h, Prog.atomic]

theorem run_fused (lk : Lock) (chk : σ → Bool) (err : ρ) (act : σ → σ × ρ) (s : σ) :
    (Prog.fused lk chk err act).run s = if chk s then act s else (s, err) := by
  simp [Prog.fused, run_atomic]

theorem single_atomic (lk : Lock) (f : σ → σ × ρ) : (Prog.atomic lk f).single := by
  intro s; exact ⟨_, rfl⟩

/-! ## single-section operations: every schedule is the sequential run in completion order -/

theorem single_adv {p : Prog σ ρ} (h : p.single) (s : σ) :
    ∃ r, (p.adv s).2.1.isDone = some r ∧ p.run s = ((p.adv s).1, r) := by
  cases p with
  | done r => exact ⟨r, rfl, rfl⟩
  | sec lk upd next =>
    obtain ⟨r, hr⟩ := h s
    exact ⟨r, by simp [Prog.adv, hr, Prog.isDone], by simp [Prog.run, Prog.adv, hr]⟩
  | hold lk upd body =>
    obtain ⟨r, hr⟩ := h s
    exact ⟨r, by simp [Prog.adv, hr, Prog.isDone], by simp [Prog.run, Prog.adv, hr]⟩
  | act upd next =>
    obtain ⟨r, hr⟩ := h s
    exact ⟨r, by simp [Prog.adv, hr, Prog.isDone], by simp [Prog.run, Prog.adv, hr]⟩

/-- the invariant of `single_section_atomic` -/
def SeqInv (prog : ι → Prog σ ρ) (s0 : σ) (c : Cfg ι σ ρ) : Prop :=
  (∀ t it, it ∈ c.thr t → it.rem = prog it.op ∧ (prog it.op).single) ∧
  seqRun prog (c.log.map (·.2.1)) s0 = (c.st, c.log.map (·.2.2))

theorem seqInv_step (prog : ι → Prog σ ρ) (s0 : σ) (c : Cfg ι σ ρ) (t : Nat)
    (h : SeqInv prog s0 c) : SeqInv prog s0 (step c t) := by
  obtain ⟨hq, hl⟩ := h
  cases hth : c.thr t with
  | nil => rw [step_nil hth]; exact ⟨hq, hl⟩
  | cons it rest =>
    have hrem : it.rem = prog it.op := (hq t it (by simp [hth])).1
    have hs : (prog it.op).single := (hq t it (by simp [hth])).2
    have hrest : ∀ u it', it' ∈ setThr c.thr t rest u → it'.rem = prog it'.op ∧ (prog it'.op).single := by
      intro u it' hm
      by_cases e : u = t
      · subst e; rw [setThr_same] at hm; exact hq u it' (by simp [hth, hm])
      · rw [setThr_other _ _ e] at hm; exact hq u it' hm
    obtain ⟨r, hd, hrun⟩ := single_adv hs c.st
    rw [← hrem] at hd
    rw [step_complete hth hd]
    refine ⟨hrest, ?_⟩
    simp only [List.map_append, List.map_cons, List.map_nil]
    rw [seqRun_snoc, hl, hrun, hrem]

theorem seqInv_exec (prog : ι → Prog σ ρ) (s0 : σ) (sched : List Nat) :
    ∀ c : Cfg ι σ ρ, SeqInv prog s0 c → SeqInv prog s0 (exec c sched) := by
  induction sched with
  | nil => intro c h; exact h
  | cons t r ih => intro c h; rw [exec_cons]; exact ih _ (seqInv_step prog s0 c t h)

theorem seqInv_init (prog : ι → Prog σ ρ) (ops : Nat → List ι) (hs : ∀ t i, i ∈ ops t → (prog i).single) (s0 : σ) :
    SeqInv prog s0 (init prog ops s0) := by
  refine ⟨?_, ?_⟩
  · intro t it hm
    simp only [init, List.mem_map] at hm
    obtain ⟨i, hi, rfl⟩ := hm
    exact ⟨rfl, hs t i hi⟩
  · simp [init, seqRun]

/-! ## program order: a thread's completed ops followed by its remaining ops are its op list -/

def OrderInv (ops : Nat → List ι) (c : Cfg ι σ ρ) : Prop :=
  ∀ t, ((c.log.filter (fun e => e.1 == t)).map (·.2.1)) ++ (c.thr t).map (·.op) = ops t

theorem orderInv_step (ops : Nat → List ι) (c : Cfg ι σ ρ) (t : Nat) (h : OrderInv ops c) :
    OrderInv ops (step c t) := by
  cases hth : c.thr t with
  | nil => rw [step_nil hth]; exact h
  | cons it rest =>
    have complete : ∀ (s' : σ) (r : ρ),
        OrderInv ops ({ st := s', thr := setThr c.thr t rest, log := c.log ++ [(t, it.op, r)] } : Cfg ι σ ρ) := by
      intro s' r u
      by_cases e : u = t
      · subst e
        have := h u
        rw [hth] at this
        simp only [setThr_same, List.filter_append, List.map_append]
        simpa using this
      · have := h u
        have e' : ¬ (t = u) := fun x => e x.symm
        simp only [setThr_other _ _ e, List.filter_append, List.map_append]
        simpa [e'] using this
    cases hd : (it.rem.adv c.st).2.1.isDone with
    | some r => rw [step_complete hth hd]; exact complete _ r
    | none =>
      rw [step_continue hth hd]
      intro u
      by_cases e : u = t
      · subst e
        have := h u
        rw [hth] at this
        simpa [setThr_same] using this
      · simpa [setThr_other _ _ e] using h u

theorem orderInv_exec (ops : Nat → List ι) (sched : List Nat) :
    ∀ c : Cfg ι σ ρ, OrderInv ops c → OrderInv ops (exec c sched) := by
  induction sched with
  | nil => intro c h; exact h
  | cons t r ih => intro c h; rw [exec_cons]; exact ih _ (orderInv_step ops c t h)

theorem orderInv_init (prog : ι → Prog σ ρ) (ops : Nat → List ι) (s0 : σ) : OrderInv ops (init prog ops s0) := by
  intro t; simp [init, Function.comp_def]

/-! ## check-then-act: simulation by the fused (atomic) operations -/

section cta
variable (K : CtaOps ι σ ρ) (prog : ι → Prog σ ρ)

/-- an operation that has not started: identical on both sides, or check-then-act vs its fusion -/
def FreshRel (ic ia : Item ι σ ρ) : Prop :=
  (K.is ic.op = false ∧ ic = ia) ∨
  (K.is ic.op = true ∧ ic.rem = prog ic.op ∧ ic.pc = 0 ∧ ia = { op := ic.op, rem := K.fuse prog ic.op, pc := 0 })

/-- the head may additionally be a check-then-act between its sections, its check still true -/
def HeadRel (st : σ) (ic ia : Item ι σ ρ) : Prop :=
  FreshRel K prog ic ia ∨
  (K.is ic.op = true ∧ ic.pc > 0 ∧ ic.rem = Prog.atomic (K.lk2 ic.op) (K.act ic.op) ∧
    K.chk ic.op st = true ∧ ia = { op := ic.op, rem := K.fuse prog ic.op, pc := 0 })

def TailRel : List (Item ι σ ρ) → List (Item ι σ ρ) → Prop
  | [], [] => True
  | ic :: rc, ia :: ra => FreshRel K prog ic ia ∧ TailRel rc ra
  | _, _ => False

def QRel (st : σ) : List (Item ι σ ρ) → List (Item ι σ ρ) → Prop
  | [], [] => True
  | ic :: rc, ia :: ra => HeadRel K prog st ic ia ∧ TailRel K prog rc ra
  | _, _ => False

def Rel (c a : Cfg ι σ ρ) : Prop :=
  c.st = a.st ∧ c.log = a.log ∧ ∀ u, QRel K prog c.st (c.thr u) (a.thr u)

theorem qrel_of_tail (st : σ) : ∀ (qc qa : List (Item ι σ ρ)), TailRel K prog qc qa → QRel K prog st qc qa
  | [], [], _ => trivial
  | _ :: _, _ :: _, h => ⟨Or.inl h.1, h.2⟩
  | [], _ :: _, h => h.elim
  | _ :: _, [], h => h.elim

/-- moving to a new state keeps a queue related, provided a head that is between its sections
    keeps its check true -/
theorem qrel_state (st st' : σ) (qc qa : List (Item ι σ ρ)) (h : QRel K prog st qc qa)
    (hk : ∀ it rest, qc = it :: rest → K.is it.op = true → it.pc > 0 → K.chk it.op st = true → K.chk it.op st' = true) :
    QRel K prog st' qc qa := by
  match qc, qa, h with
  | [], [], _ => trivial
  | ic :: rc, ia :: ra, ⟨hh, ht⟩ =>
    refine ⟨?_, ht⟩
    cases hh with
    | inl f => exact Or.inl f
    | inr m =>
      obtain ⟨h1, h2, h3, h4, h5⟩ := m
      exact Or.inr ⟨h1, h2, h3, hk ic rc rfl h1 h2 h4, h5⟩

theorem passes_eq {c : Cfg ι σ ρ} {t : Nat} {it : Item ι σ ρ} {rest : List (Item ι σ ρ)} (h : c.thr t = it :: rest) :
    K.passes c t = (K.is it.op && it.pc == 0 && K.chk it.op c.st) := by
  simp [CtaOps.passes, h]

theorem rel_step (hK : K.describes prog) (c a : Cfg ι σ ρ) (t : Nat) (h : Rel K prog c a)
    (hs : K.stableStep c t) :
    Rel K prog (step c t) (if K.passes c t then a else step a t) := by
  obtain ⟨hst, hlog, hq⟩ := h
  -- other threads stay related whatever the new state is, by the side condition
  have others : ∀ u, u ≠ t → QRel K prog (step c t).st (c.thr u) (a.thr u) := by
    intro u hu
    exact qrel_state K prog c.st _ _ _ (hq u) (fun it rest e h1 h2 h3 => hs u hu it rest e h1 h2 h3)
  cases hth : c.thr t with
  | nil =>
    have hqa := hq t
    rw [hth] at hqa
    cases hta : a.thr t with
    | cons x y => rw [hta] at hqa; exact hqa.elim
    | nil =>
      have hp : K.passes c t = false := by simp [CtaOps.passes, hth]
      rw [hp, step_nil hth, step_nil hta]
      exact ⟨hst, hlog, hq⟩
  | cons ic rc =>
    have hqa := hq t
    rw [hth] at hqa
    cases hta : a.thr t with
    | nil => rw [hta] at hqa; exact hqa.elim
    | cons ia ra =>
      rw [hta] at hqa
      obtain ⟨hhead, htail⟩ := hqa
      -- the relation after the operation at the head of `t` completed on both sides
      have completed : ∀ (s' : σ) (r : ρ), (step c t).st = s' →
          step c t = { st := s', thr := setThr c.thr t rc, log := c.log ++ [(t, ic.op, r)] } →
          Rel K prog (step c t) { st := s', thr := setThr a.thr t ra, log := a.log ++ [(t, ic.op, r)] } := by
        intro s' r hs' hc
        refine ⟨hs', ?_, ?_⟩
        · rw [hc, hlog]
        · intro u
          by_cases e : u = t
          · subst e
            rw [hc]; simp only [setThr_same]
            exact qrel_of_tail K prog _ _ _ htail
          · have := others u e
            rw [hc] at this ⊢
            simpa [setThr_other _ _ e] using this
      cases hhead with
      | inl fresh =>
        cases fresh with
        | inl same =>
          -- not a check-then-act: both sides run the same item
          obtain ⟨hno, heq⟩ := same
          have hp : K.passes c t = false := by rw [passes_eq K hth]; simp [hno]
          rw [hp]; simp only [Bool.false_eq_true, if_false]
          subst heq
          cases hd : (ic.rem.adv c.st).2.1.isDone with
          | some r =>
            have hd' : (ic.rem.adv a.st).2.1.isDone = some r := by rw [← hst]; exact hd
            rw [step_complete hta hd', ← hst]
            exact completed _ r (by rw [step_complete hth hd]) (step_complete hth hd)
          | none =>
            have hd' : (ic.rem.adv a.st).2.1.isDone = none := by rw [← hst]; exact hd
            rw [step_continue hta hd', ← hst]
            have hc := step_continue hth hd
            refine ⟨by rw [hc], by rw [hc, hlog], ?_⟩
            intro u
            by_cases e : u = t
            · subst e
              rw [hc]; simp only [setThr_same]
              exact ⟨Or.inl (Or.inl ⟨hno, rfl⟩), htail⟩
            · have := others u e
              rw [hc] at this ⊢
              simpa [setThr_other _ _ e] using this
        | inr ctaFresh =>
          obtain ⟨hyes, hrem, hpc, hia⟩ := ctaFresh
          have hprog := hK ic.op hyes
          have hr : ic.rem = .sec (K.lk1 ic.op) (fun s => s)
              (fun s => if K.chk ic.op s then Prog.atomic (K.lk2 ic.op) (K.act ic.op) else .done (K.err ic.op)) := by
            rw [hrem, hprog]; rfl
          have hra : ia.rem = Prog.atomic (K.lk2 ic.op)
              (fun s => if K.chk ic.op s then K.act ic.op s else (s, K.err ic.op)) := by
            rw [hia]; simp [CtaOps.fuse, hyes, Prog.fused]
          have hopa : ia.op = ic.op := by rw [hia]
          by_cases hchk : K.chk ic.op c.st = true
          · -- the check passes: the concrete side only remembers it, the abstract side waits
            have hp : K.passes c t = true := by rw [passes_eq K hth]; simp [hyes, hpc, hchk]
            rw [hp]; simp only [if_true]
            have hn : (fun s => if K.chk ic.op s then Prog.atomic (K.lk2 ic.op) (K.act ic.op) else Prog.done (K.err ic.op)) c.st
                = .sec (K.lk2 ic.op) (fun s => (K.act ic.op s).1) (fun s => .done (K.act ic.op s).2) := by
              simp [hchk, Prog.atomic]
            have hc := step_sec_sec hth hr hn
            refine ⟨by rw [hc]; exact hst, by rw [hc]; exact hlog, ?_⟩
            intro u
            by_cases e : u = t
            · subst e
              rw [hc]; simp only [setThr_same, hta]
              refine ⟨Or.inr ⟨hyes, by simp, rfl, hchk, hia⟩, htail⟩
            · have := others u e
              rw [hc] at this ⊢
              simpa [setThr_other _ _ e] using this
          · -- the check fails: both sides complete with the error, state unchanged
            have hchk' : K.chk ic.op c.st = false := by simpa using hchk
            have hp : K.passes c t = false := by rw [passes_eq K hth]; simp [hchk']
            rw [hp]; simp only [Bool.false_eq_true, if_false]
            have hn : (fun s => if K.chk ic.op s then Prog.atomic (K.lk2 ic.op) (K.act ic.op) else Prog.done (K.err ic.op)) c.st
                = .done (K.err ic.op) := by simp [hchk']
            have hc := step_sec_done hth hr hn
            have hra' : ia.rem = .sec (K.lk2 ic.op)
                (fun s => (if K.chk ic.op s then K.act ic.op s else (s, K.err ic.op)).1)
                (fun s => .done (if K.chk ic.op s then K.act ic.op s else (s, K.err ic.op)).2) := by
              rw [hra]; rfl
            have hna : (fun s => Prog.done (if K.chk ic.op s then K.act ic.op s else (s, K.err ic.op)).2) a.st
                = (.done (K.err ic.op) : Prog σ ρ) := by
              simp [← hst, hchk']
            rw [step_sec_done hta hra' hna, hopa]
            have : (if K.chk ic.op a.st then K.act ic.op a.st else (a.st, K.err ic.op)).1 = c.st := by
              simp [← hst, hchk']
            rw [this]
            exact completed c.st (K.err ic.op) (by rw [hc]) hc
      | inr mid =>
        -- between the sections: the act runs now; the fused op checks (true) and acts now
        obtain ⟨hyes, hpc, hrem, hchk, hia⟩ := mid
        have hp : K.passes c t = false := by
          rw [passes_eq K hth]
          have : (ic.pc == 0) = false := by simp; omega
          simp [this]
        rw [hp]; simp only [Bool.false_eq_true, if_false]
        have hr : ic.rem = .sec (K.lk2 ic.op) (fun s => (K.act ic.op s).1) (fun s => .done (K.act ic.op s).2) := by
          rw [hrem]; rfl
        have hc := step_sec_done hth hr (rfl : (fun s => Prog.done (K.act ic.op s).2) c.st = .done (K.act ic.op c.st).2)
        have hra' : ia.rem = .sec (K.lk2 ic.op)
            (fun s => (if K.chk ic.op s then K.act ic.op s else (s, K.err ic.op)).1)
            (fun s => .done (if K.chk ic.op s then K.act ic.op s else (s, K.err ic.op)).2) := by
          rw [hia]; simp [CtaOps.fuse, hyes, Prog.fused, Prog.atomic]
        have hopa : ia.op = ic.op := by rw [hia]
        have hna : (fun s => Prog.done (if K.chk ic.op s then K.act ic.op s else (s, K.err ic.op)).2) a.st
            = (.done (K.act ic.op c.st).2 : Prog σ ρ) := by
          simp [← hst, hchk]
        rw [step_sec_done hta hra' hna, hopa]
        have : (if K.chk ic.op a.st then K.act ic.op a.st else (a.st, K.err ic.op)).1 = (K.act ic.op c.st).1 := by
          simp [← hst, hchk]
        rw [this]
        exact completed _ _ (by rw [hc]) hc

theorem rel_exec (hK : K.describes prog) (sched : List Nat) :
    ∀ c a : Cfg ι σ ρ, Rel K prog c a → K.stable c sched → Rel K prog (exec c sched) (exec a (K.reduce c sched)) := by
  induction sched with
  | nil => intro c a h _; exact h
  | cons t r ih =>
    intro c a h hs
    obtain ⟨h1, h2⟩ := hs
    have := rel_step K prog hK c a t h h1
    rw [exec_cons]
    by_cases hp : K.passes c t = true
    · simp only [CtaOps.reduce, hp, if_true] at this ⊢
      exact ih _ _ this h2
    · have hp' : K.passes c t = false := by simpa using hp
      simp only [CtaOps.reduce, hp', Bool.false_eq_true, if_false] at this ⊢
      rw [exec_cons]
      exact ih _ _ this h2

theorem rel_init (ops : Nat → List ι) (s0 : σ) :
    Rel K prog (init prog ops s0) (init (K.fuse prog) ops s0) := by
  refine ⟨rfl, rfl, ?_⟩
  intro u
  apply qrel_of_tail
  simp only [init]
  induction ops u with
  | nil => trivial
  | cons i is ih =>
    refine ⟨?_, ih⟩
    by_cases hi : K.is i = true
    · exact Or.inr ⟨hi, rfl, rfl, rfl⟩
    · have hi' : K.is i = false := by simpa using hi
      refine Or.inl ⟨hi', ?_⟩
      simp [CtaOps.fuse, hi']

/-! ### a decidable sufficient form of the side condition (finitely many active threads) -/

theorem step_keeps_idle (c : Cfg ι σ ρ) (t : Nat) (us : List Nat) (h : ∀ u, u ∉ us → c.thr u = []) :
    ∀ u, u ∉ us → (step c t).thr u = [] := by
  intro u hu
  cases hth : c.thr t with
  | nil => rw [step_nil hth]; exact h u hu
  | cons it rest =>
    have hne : u ≠ t := by
      intro e; subst e
      rw [h u hu] at hth; cases hth
    cases hd : (it.rem.adv c.st).2.1.isDone with
    | some r => rw [step_complete hth hd]; simp only [setThr_other _ _ hne]; exact h u hu
    | none => rw [step_continue hth hd]; simp only [setThr_other _ _ hne]; exact h u hu

theorem stable_of_stableB (us : List Nat) (sched : List Nat) :
    ∀ c : Cfg ι σ ρ, (∀ u, u ∉ us → c.thr u = []) → K.stableB c us sched = true → K.stable c sched := by
  induction sched with
  | nil => intro c _ _; trivial
  | cons t r ih =>
    intro c hidle hb
    simp only [CtaOps.stableB, Bool.and_eq_true] at hb
    refine ⟨?_, ih _ (step_keeps_idle c t us hidle) hb.2⟩
    intro u hu it rest e h1 h2 h3
    by_cases hm : u ∈ us
    · have := List.all_eq_true.mp hb.1 u hm
      simp only [e, Bool.or_eq_true, beq_iff_eq] at this
      rcases this with x | x
      · exact absurd x hu
      · rcases x with x | x
        · simp [h1, h2, h3] at x
        · exact x
    · rw [hidle u hm] at e; cases e

end cta

/-! ## deadlock freedom of the no-nesting protocol -/

theorem no_wait_path_of_length_two (L : LockState) (h : L.noNested) (a b c : Nat) :
    ¬ (L.waitsFor a b ∧ L.waitsFor b c) := by
  rintro ⟨⟨l, _, hl⟩, ⟨l', hw', _⟩⟩
  have : L.holds b = [] := h b (by rw [hw']; simp)
  rw [this] at hl
  cases hl

theorem no_self_wait (L : LockState) (h : L.noNested) (a : Nat) : ¬ L.waitsFor a a := by
  rintro ⟨l, hw, hl⟩
  have : L.holds a = [] := h a (by rw [hw]; simp)
  rw [this] at hl
  cases hl

end MdkVerif.Locks
