import MdkVerif.Proofs.MemLru
/-
  `messages_cache` (the by-message-id cache of the memory backend) is written by `save_message` and
  `invalidate_messages_after_epoch` and read by NO method of the storage traits.  Formally: two states of
  `Model/MemLru.lean` that agree on everything but that cache (and the eviction log) answer every operation alike
  and keep agreeing — so the model's treatment of that cache (in particular the order in which
  `invalidate_messages_after_epoch` promotes its entries, which follows an unobservable map order) cannot
  influence any observation.
-/
namespace MdkVerif.MemLru
open MdkVerif MdkVerif.Store MdkVerif.Lru List

/-- everything but `messages_cache` (content, queue) and the eviction log -/
def vis (s : MemStore) : MemStore := { s with byId := [], qById := [], evlog := [] }

theorem vis_fields (a b : MemStore) (h : vis a = vis b) :
    a.cap = b.cap ∧ a.msgCap = b.msgCap ∧ a.u = b.u ∧ a.qGroups = b.qGroups ∧ a.qByNid = b.qByNid ∧ a.qRelays = b.qRelays ∧
    a.qSecrets = b.qSecrets ∧ a.qWelcomes = b.qWelcomes ∧ a.qPws = b.qPws ∧ a.qMsgGroups = b.qMsgGroups ∧ a.qPms = b.qPms := by
  obtain ⟨c1, m1, u1, bi1, g1, n1, r1, x1, w1, p1, i1, mg1, pm1, e1⟩ := a
  obtain ⟨c2, m2, u2, bi2, g2, n2, r2, x2, w2, p2, i2, mg2, pm2, e2⟩ := b
  simp only [vis, MemStore.mk.injEq] at h
  obtain ⟨h1, h2, h3, -, h4, h5, h6, h7, h8, h9, -, h10, h11, -⟩ := h
  exact ⟨h1, h2, h3, h4, h5, h6, h7, h8, h9, h10, h11⟩

theorem vis_of_fields (a b : MemStore)
    (h : a.cap = b.cap ∧ a.msgCap = b.msgCap ∧ a.u = b.u ∧ a.qGroups = b.qGroups ∧ a.qByNid = b.qByNid ∧ a.qRelays = b.qRelays ∧
    a.qSecrets = b.qSecrets ∧ a.qWelcomes = b.qWelcomes ∧ a.qPws = b.qPws ∧ a.qMsgGroups = b.qMsgGroups ∧ a.qPms = b.qPms) :
    vis a = vis b := by
  obtain ⟨c1, m1, u1, bi1, g1, n1, r1, x1, w1, p1, i1, mg1, pm1, e1⟩ := a
  obtain ⟨c2, m2, u2, bi2, g2, n2, r2, x2, w2, p2, i2, mg2, pm2, e2⟩ := b
  simp only [] at h
  obtain ⟨rfl, rfl, rfl, rfl, rfl, rfl, rfl, rfl, rfl, rfl, rfl⟩ := h
  rfl

/-- a tactic-free way to say it: a function that reads and writes visible fields only commutes with `vis` -/
theorem vis_putGroups (a b : MemStore) (h : vis a = vis b) (k : Nat) : vis (putGroups a k) = vis (putGroups b k) := by
  obtain ⟨h1, h2, h3, h4, h5, h6, h7, h8, h9, h10, h11⟩ := vis_fields a b h
  apply vis_of_fields
  unfold putGroups
  rw [h1, h4]
  generalize (qTouch b.cap k b.qGroups) = r
  obtain ⟨ra, rb⟩ := r
  cases rb <;> simp [h2, h3, h5, h6, h7, h8, h9, h10, h11]
theorem vis_putByNid (a b : MemStore) (h : vis a = vis b) (k : Nat) : vis (putByNid a k) = vis (putByNid b k) := by
  obtain ⟨h1, h2, h3, h4, h5, h6, h7, h8, h9, h10, h11⟩ := vis_fields a b h
  apply vis_of_fields
  unfold putByNid
  rw [h1, h5]
  generalize (qTouch b.cap k b.qByNid) = r
  obtain ⟨ra, rb⟩ := r
  cases rb <;> simp [h2, h3, h4, h6, h7, h8, h9, h10, h11]
theorem vis_putRelays (a b : MemStore) (h : vis a = vis b) (k : Nat) : vis (putRelays a k) = vis (putRelays b k) := by
  obtain ⟨h1, h2, h3, h4, h5, h6, h7, h8, h9, h10, h11⟩ := vis_fields a b h
  apply vis_of_fields
  unfold putRelays
  rw [h1, h6]
  generalize (qTouch b.cap k b.qRelays) = r
  obtain ⟨ra, rb⟩ := r
  cases rb <;> simp [h2, h3, h4, h5, h7, h8, h9, h10, h11]
theorem vis_putSecrets (a b : MemStore) (h : vis a = vis b) (k : Nat × Nat) : vis (putSecrets a k) = vis (putSecrets b k) := by
  obtain ⟨h1, h2, h3, h4, h5, h6, h7, h8, h9, h10, h11⟩ := vis_fields a b h
  apply vis_of_fields
  unfold putSecrets
  rw [h1, h7]
  generalize (qTouch b.cap k b.qSecrets) = r
  obtain ⟨ra, rb⟩ := r
  cases rb <;> simp [h2, h3, h4, h5, h6, h8, h9, h10, h11]
theorem vis_putWelcomes (a b : MemStore) (h : vis a = vis b) (k : Nat) : vis (putWelcomes a k) = vis (putWelcomes b k) := by
  obtain ⟨h1, h2, h3, h4, h5, h6, h7, h8, h9, h10, h11⟩ := vis_fields a b h
  apply vis_of_fields
  unfold putWelcomes
  rw [h1, h8]
  generalize (qTouch b.cap k b.qWelcomes) = r
  obtain ⟨ra, rb⟩ := r
  cases rb <;> simp [h2, h3, h4, h5, h6, h7, h9, h10, h11]
theorem vis_putPws (a b : MemStore) (h : vis a = vis b) (k : Nat) : vis (putPws a k) = vis (putPws b k) := by
  obtain ⟨h1, h2, h3, h4, h5, h6, h7, h8, h9, h10, h11⟩ := vis_fields a b h
  apply vis_of_fields
  unfold putPws
  rw [h1, h9]
  generalize (qTouch b.cap k b.qPws) = r
  obtain ⟨ra, rb⟩ := r
  cases rb <;> simp [h2, h3, h4, h5, h6, h7, h8, h10, h11]
theorem vis_putMsgGroups (a b : MemStore) (h : vis a = vis b) (k : Nat) : vis (putMsgGroups a k) = vis (putMsgGroups b k) := by
  obtain ⟨h1, h2, h3, h4, h5, h6, h7, h8, h9, h10, h11⟩ := vis_fields a b h
  apply vis_of_fields
  unfold putMsgGroups
  rw [h1, h10]
  generalize (qTouch b.cap k b.qMsgGroups) = r
  obtain ⟨ra, rb⟩ := r
  cases rb <;> simp [h2, h3, h4, h5, h6, h7, h8, h9, h11]
theorem vis_putPms (a b : MemStore) (h : vis a = vis b) (k : Nat) : vis (putPms a k) = vis (putPms b k) := by
  obtain ⟨h1, h2, h3, h4, h5, h6, h7, h8, h9, h10, h11⟩ := vis_fields a b h
  apply vis_of_fields
  unfold putPms
  rw [h1, h11]
  generalize (qTouch b.cap k b.qPms) = r
  obtain ⟨ra, rb⟩ := r
  cases rb <;> simp [h2, h3, h4, h5, h6, h7, h8, h9, h10]
theorem vis_putById (a : MemStore) (k : Nat) : vis (putById a k) = vis a := by
  apply vis_of_fields
  obtain ⟨e0, e1, e2, e3, e4, e5, e6, e7, e8, e9, e10⟩ := putById_frame a k
  exact ⟨e1, e2, e0, e3, e4, e5, e6, e7, e8, e9, e10⟩

theorem vis_foldSecrets (gid : Nat) (es : List Nat) : ∀ a b : MemStore, vis a = vis b →
    vis (es.foldl (fun acc e => putSecrets acc (gid, e)) a) = vis (es.foldl (fun acc e => putSecrets acc (gid, e)) b) := by
  induction es with
  | nil => intro a b h; exact h
  | cons e t ih => intro a b h; exact ih _ _ (vis_putSecrets a b h (gid, e))

theorem vis_okErr (oa ob : Option MemStore) (a b : MemStore) (h : vis a = vis b)
    (hn : oa.isSome = ob.isSome) (hs : ∀ x y, oa = some x → ob = some y → vis x = vis y) :
    (okErr oa a).2 = (okErr ob b).2 ∧ vis (okErr oa a).1 = vis (okErr ob b).1 := by
  cases oa with
  | none =>
    cases ob with
    | none => exact ⟨rfl, h⟩
    | some y => simp at hn
  | some x =>
    cases ob with
    | none => simp at hn
    | some y => exact ⟨rfl, hs x y rfl rfl⟩

theorem vis_saveGroup (a b : MemStore) (h : vis a = vis b) (g : Group) :
    (saveGroup a g).isSome = (saveGroup b g).isSome ∧ ∀ x y, saveGroup a g = some x → saveGroup b g = some y → vis x = vis y := by
  obtain ⟨c1, m1, u1, bi1, g1, n1, r1, x1, w1, p1, i1, mg1, pm1, e1⟩ := a
  obtain ⟨c2, m2, u2, bi2, g2, n2, r2, x2, w2, p2, i2, mg2, pm2, e2⟩ := b
  simp only [vis, MemStore.mk.injEq] at h
  obtain ⟨rfl, rfl, rfl, -, rfl, rfl, rfl, rfl, rfl, rfl, -, rfl, rfl, -⟩ := h
  simp only [saveGroup]
  cases Store.saveGroup u1 g with
  | none => exact ⟨rfl, fun x y hx => by cases hx⟩
  | some u' =>
    refine ⟨rfl, fun x y hx hy => ?_⟩
    cases hx; cases hy
    exact vis_putByNid _ _ (vis_putGroups _ _ (by rfl) _) _

/-- the part of `save_message` that makes room in a full group -/
def capEvict (s : MemStore) (m : Msg) : MemStore :=
  if capHit s m then
    match victim (groupMsgs s.u m.gid) with
    | some v => { s with u := { s.u with msgs := s.u.msgs.filter (fun x => !(x.gid == m.gid && x.id == v)) }, byId := aerase v s.byId, qById := qRemove v s.qById, evlog := (9, v) :: s.evlog }
    | none => s
  else s

theorem saveMessage_eq (a : MemStore) (m : Msg) :
    saveMessage a m = if (findGroup a.u m.gid).isNone then none
      else if m.gid ∈ a.qMsgGroups then
        some (putById { capEvict a m with u := { (capEvict a m).u with msgs := upsertMsg m (capEvict a m).u.msgs }, qMsgGroups := qPromote m.gid (capEvict a m).qMsgGroups, byId := ainsert m.id m (capEvict a m).byId } m.id)
      else some (putById { putMsgGroups { a with u := { a.u with msgs := upsertMsg m a.u.msgs } } m.gid with byId := ainsert m.id m (putMsgGroups { a with u := { a.u with msgs := upsertMsg m a.u.msgs } } m.gid).byId } m.id) := rfl

theorem capEvict_msgs (a : MemStore) (m : Msg) :
    (capEvict a m).u.msgs = match (if capHit a m then victim (groupMsgs a.u m.gid) else none) with
      | some v => a.u.msgs.filter (fun x => !(x.gid == m.gid && x.id == v))
      | none => a.u.msgs := by
  unfold capEvict
  by_cases c : capHit a m = true
  · rw [if_pos c, if_pos c]
    cases victim (groupMsgs a.u m.gid) <;> rfl
  · rw [if_neg c, if_neg c]

theorem vis_capEvict (a b : MemStore) (h : vis a = vis b) (m : Msg) :
    vis (capEvict a m) = vis (capEvict b m) := by
  obtain ⟨c1, m1, u1, bi1, g1, n1, r1, x1, w1, p1, i1, mg1, pm1, e1⟩ := a
  obtain ⟨c2, m2, u2, bi2, g2, n2, r2, x2, w2, p2, i2, mg2, pm2, e2⟩ := b
  simp only [vis, MemStore.mk.injEq] at h
  obtain ⟨rfl, rfl, rfl, -, rfl, rfl, rfl, rfl, rfl, rfl, -, rfl, rfl, -⟩ := h
  have hc : capHit { cap := c1, msgCap := m1, u := u1, byId := bi1, qGroups := g1, qByNid := n1, qRelays := r1, qSecrets := x1, qWelcomes := w1, qPws := p1, qById := i1, qMsgGroups := mg1, qPms := pm1, evlog := e1 } m =
      capHit { cap := c1, msgCap := m1, u := u1, byId := bi2, qGroups := g1, qByNid := n1, qRelays := r1, qSecrets := x1, qWelcomes := w1, qPws := p1, qById := i2, qMsgGroups := mg1, qPms := pm1, evlog := e2 } m := rfl
  unfold capEvict
  rw [hc]
  by_cases c : capHit { cap := c1, msgCap := m1, u := u1, byId := bi2, qGroups := g1, qByNid := n1, qRelays := r1, qSecrets := x1, qWelcomes := w1, qPws := p1, qById := i2, qMsgGroups := mg1, qPms := pm1, evlog := e2 } m = true
  · rw [if_pos c, if_pos c]
    simp only []
    cases victim (groupMsgs u1 m.gid) <;> rfl
  · rw [if_neg c, if_neg c]; rfl

theorem vis_saveMessage (a b : MemStore) (h : vis a = vis b) (m : Msg) :
    (saveMessage a m).isSome = (saveMessage b m).isSome ∧
    ∀ x y, saveMessage a m = some x → saveMessage b m = some y → vis x = vis y := by
  have hce := vis_capEvict a b h m
  obtain ⟨h1, h2, h3, h4, h5, h6, h7, h8, h9, h10, h11⟩ := vis_fields a b h
  have ea : saveMessage a m = if (findGroup a.u m.gid).isNone then none
      else if m.gid ∈ a.qMsgGroups then
        some (putById { capEvict a m with u := { (capEvict a m).u with msgs := upsertMsg m (capEvict a m).u.msgs }, qMsgGroups := qPromote m.gid (capEvict a m).qMsgGroups, byId := ainsert m.id m (capEvict a m).byId } m.id)
      else some (putById { putMsgGroups { a with u := { a.u with msgs := upsertMsg m a.u.msgs } } m.gid with byId := ainsert m.id m (putMsgGroups { a with u := { a.u with msgs := upsertMsg m a.u.msgs } } m.gid).byId } m.id) := rfl
  have eb : saveMessage b m = if (findGroup b.u m.gid).isNone then none
      else if m.gid ∈ b.qMsgGroups then
        some (putById { capEvict b m with u := { (capEvict b m).u with msgs := upsertMsg m (capEvict b m).u.msgs }, qMsgGroups := qPromote m.gid (capEvict b m).qMsgGroups, byId := ainsert m.id m (capEvict b m).byId } m.id)
      else some (putById { putMsgGroups { b with u := { b.u with msgs := upsertMsg m b.u.msgs } } m.gid with byId := ainsert m.id m (putMsgGroups { b with u := { b.u with msgs := upsertMsg m b.u.msgs } } m.gid).byId } m.id) := rfl
  rw [ea, eb]
  by_cases c1 : (findGroup b.u m.gid).isNone = true
  · rw [if_pos (by rw [h3]; exact c1), if_pos c1]; exact ⟨rfl, fun x y hx => by cases hx⟩
  · rw [if_neg (by rw [h3]; exact c1), if_neg c1]
    by_cases c2 : m.gid ∈ b.qMsgGroups
    · rw [if_pos (by rw [h10]; exact c2), if_pos c2]
      refine ⟨rfl, fun x y hx hy => ?_⟩
      cases hx; cases hy
      rw [vis_putById, vis_putById]
      obtain ⟨f1, f2, f3, f4, f5, f6, f7, f8, f9, f10, f11⟩ := vis_fields _ _ hce
      apply vis_of_fields
      simp only [f1, f2, f3, f4, f5, f6, f7, f8, f9, f10, f11, and_self]
    · rw [if_neg (by rw [h10]; exact c2), if_neg c2]
      refine ⟨rfl, fun x y hx hy => ?_⟩
      cases hx; cases hy
      rw [vis_putById, vis_putById]
      have hp := vis_putMsgGroups { a with u := { a.u with msgs := upsertMsg m a.u.msgs } } { b with u := { b.u with msgs := upsertMsg m b.u.msgs } }
        (vis_of_fields _ _ ⟨h1, h2, by simp only [h3], h4, h5, h6, h7, h8, h9, h10, h11⟩) m.gid
      obtain ⟨f1, f2, f3, f4, f5, f6, f7, f8, f9, f10, f11⟩ := vis_fields _ _ hp
      apply vis_of_fields
      exact ⟨f1, f2, f3, f4, f5, f6, f7, f8, f9, f10, f11⟩

/-- the by-id cache and the eviction log never influence an answer, nor any other part of the state -/
theorem vis_step (a b : MemStore) (h : vis a = vis b) (op : Op) (ch : List Nat) :
    (step a op ch).2 = (step b op ch).2 ∧ vis (step a op ch).1 = vis (step b op ch).1 := by
  have hsg := vis_saveGroup a b h
  obtain ⟨c1, m1, u1, bi1, g1, n1, r1, x1, w1, p1, i1, mg1, pm1, e1⟩ := a
  obtain ⟨c2, m2, u2, bi2, g2, n2, r2, x2, w2, p2, i2, mg2, pm2, e2⟩ := b
  have h0 := h
  simp only [vis, MemStore.mk.injEq] at h
  obtain ⟨rfl, rfl, rfl, -, rfl, rfl, rfl, rfl, rfl, rfl, -, rfl, rfl, -⟩ := h
  cases op
  case saveGroup g => exact vis_okErr _ _ _ _ h0 (hsg g).1 (hsg g).2
  case updLast gid c p i =>
    simp only [step, updLastOp]
    cases findGroup u1 gid with
    | none => exact ⟨rfl, h0⟩
    | some g =>
      simp only []
      obtain ⟨hn, hs⟩ := hsg (updLast g (c, p, i))
      cases ha : saveGroup _ (updLast g (c, p, i)) with
      | none =>
        rw [ha] at hn
        cases hb : saveGroup _ (updLast g (c, p, i)) with
        | none => exact ⟨rfl, h0⟩
        | some y => rw [hb] at hn; simp at hn
      | some x =>
        rw [ha] at hn
        cases hb : saveGroup _ (updLast g (c, p, i)) with
        | none => rw [hb] at hn; simp at hn
        | some y => exact ⟨rfl, hs x y ha hb⟩
  case saveMessage m =>
    have hsm := vis_saveMessage _ _ h0 m
    exact vis_okErr _ _ _ _ h0 hsm.1 hsm.2
  case savePm p => exact ⟨rfl, vis_putPms _ _ (by rfl) _⟩
  case savePw p => exact ⟨rfl, vis_putPws _ _ (by rfl) _⟩
  case invalMsgs gid e => exact ⟨rfl, rfl⟩
  case invalPms gid e => exact ⟨rfl, rfl⟩
  case markRetryable w =>
    rcases hm : Store.markRetryable u1 w with _ | u'
    · simp only [step, markRetryable, hm]; exact ⟨trivial, rfl⟩
    · simp only [step, markRetryable, hm]; exact ⟨trivial, rfl⟩
  case replaceRelays gid rs =>
    simp only [step, replaceRelays]
    cases Store.replaceRelays u1 gid rs with
    | none => exact ⟨rfl, h0⟩
    | some u' => exact ⟨rfl, vis_putRelays _ _ (by rfl) _⟩
  case saveSecret gid ep v =>
    simp only [step, saveSecret]
    cases Store.saveSecret u1 gid ep v with
    | none => exact ⟨rfl, h0⟩
    | some u' => exact ⟨rfl, vis_putSecrets _ _ (by rfl) _⟩
  case saveWelcome w =>
    simp only [step, saveWelcome]
    cases Store.saveWelcome u1 w with
    | none => exact ⟨rfl, h0⟩
    | some u' => exact ⟨rfl, vis_putWelcomes _ _ (by rfl) _⟩
  case snapCreate gid name ts =>
    simp only [step, snapCreate]
    cases Store.snapCreate u1 gid name ts with
    | none => exact ⟨rfl, h0⟩
    | some u' => exact ⟨rfl, rfl⟩
  case snapRollback gid name =>
    simp only [step, snapRollback]
    cases findSnap u1 gid name with
    | none => exact ⟨rfl, h0⟩
    | some p =>
      simp only []
      cases restoreFrom u1 p with
      | none => exact ⟨rfl, h0⟩
      | some u' =>
        refine ⟨rfl, ?_⟩
        simp only [okErr]
        apply vis_foldSecrets
        have hbase : ∀ x y : MemStore, vis x = vis y →
            vis (if p.relays.isEmpty then x else putRelays x p.gid) = vis (if p.relays.isEmpty then y else putRelays y p.gid) := by
          intro x y hxy
          split
          · exact hxy
          · exact vis_putRelays _ _ hxy _
        apply hbase
        cases p.group with
        | none => rfl
        | some g => exact vis_putByNid _ _ (vis_putGroups _ _ (by rfl) _) _
  case mlsWrite gid k v => exact ⟨rfl, rfl⟩
  case mlsDelete gid k => exact ⟨rfl, rfl⟩
  case snapRelease gid name => exact ⟨rfl, rfl⟩
  case snapPrune t => exact ⟨rfl, rfl⟩
  all_goals exact ⟨rfl, h0⟩

end MdkVerif.MemLru
