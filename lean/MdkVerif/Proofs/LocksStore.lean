import MdkVerif.Model.Locks
import MdkVerif.Proofs.Locks
/-
  MdkVerif.Proofs.LocksStore — lemmas tying `Locks.lockProg` (the section structure of the storage
  methods) to `Generated.lockShape` and to the sequential store model, plus list lemmas for the
  cross-group frame property.
-/
namespace MdkVerif.Locks
open MdkVerif MdkVerif.Store

/-! ## shapes -/

theorem follows_done {σ ρ : Type} (r : ρ) (h : List Lock) (l : List (List Lock)) : (Prog.done r : Prog σ ρ).follows h l := by
  simp [Prog.follows]

theorem follows_atomic {σ ρ : Type} (lk : Lock) (f : σ → σ × ρ) (h : List Lock) (l : List (List Lock)) :
    (Prog.atomic lk f).follows h ((h ++ [lk]) :: l) := by
  refine ⟨rfl, ?_⟩; intro s; exact follows_done _ _ _

theorem follows_whole (lk : Lock) (op : Op) : (whole lk op).follows [] [[lk]] := follows_atomic _ _ _ _

theorem follows_cta {σ ρ : Type} (lk1 lk2 : Lock) (chk : σ → Bool) (err : ρ) (act : σ → σ × ρ) :
    (Prog.cta lk1 lk2 chk err act).follows [] [[lk1], [lk2]] := by
  refine ⟨rfl, ?_⟩
  intro s
  by_cases h : chk s = true
  · simp only [h, if_true]; exact follows_atomic _ _ _ _
  · have h' : chk s = false := by simpa using h
    simp only [h']; first | exact follows_done _ _ _ | trivial

/-- a nested operation: the outer lock alone, then the inner lock with the outer one held -/
theorem follows_nested {ι σ ρ β : Type} (K : NestOps ι σ ρ β) (i : ι) :
    (K.nested i).follows [] [[(K.S, 1)], [(K.S, 1), K.lkI i]] := by
  refine ⟨rfl, ?_⟩
  intro s
  cases h : K.early i (K.L.get s) with
  | some r => simp only [h]; exact follows_done _ _ _
  | none =>
    simp only [h]
    refine ⟨rfl, ?_⟩
    intro s1 s2
    exact follows_done _ _ _

/-- the CURRENT source has one of the two known shapes for the two memory methods that use both
    locks (anything else: the tie is broken and this no longer checks) -/
theorem mem_snapshot_shape_cases :
    (shapeOf .mem 27 = some shapeNested.1 ∧ shapeOf .mem 28 = some shapeNested.2) ∨
    (shapeOf .mem 27 = some shapeTwoSections.1 ∧ shapeOf .mem 28 = some shapeTwoSections.2) := by
  decide

theorem memSnapNested_of_nested (h27 : shapeOf .mem 27 = some shapeNested.1) (h28 : shapeOf .mem 28 = some shapeNested.2) :
    memSnapNested = true := by
  simp [memSnapNested, h27, h28]

theorem memSnapNested_of_two (h27 : shapeOf .mem 27 = some shapeTwoSections.1) : memSnapNested = false := by
  have : (some shapeTwoSections.1 == some shapeNested.1) = false := by decide
  simp [memSnapNested, h27, this]

theorem lockProg_follows_shape' (b : Backend) (op : Op) (m : Nat) (h : methodOf op = some m) :
    ∃ l, shapeOf b m = some l ∧ (lockProg b op).follows [] l := by
  cases b
  · -- memory
    cases op <;> simp only [methodOf, Option.some.injEq, reduceCtorEq] at h <;> subst h
    case snapCreate g n ts =>
      rcases mem_snapshot_shape_cases with ⟨h27, h28⟩ | ⟨h27, h28⟩
      · refine ⟨_, h27, ?_⟩
        simp only [lockProg, memProg, memProgWith, memSnapNested_of_nested h27 h28, if_true]
        exact follows_nested memNest _
      · refine ⟨_, h27, ?_⟩
        simp only [lockProg, memProg, memProgWith, memSnapNested_of_two h27, Bool.false_eq_true, if_false]
        refine ⟨rfl, ?_⟩
        intro s; exact follows_atomic _ _ _ _
    case snapRollback g n =>
      rcases mem_snapshot_shape_cases with ⟨h27, h28⟩ | ⟨h27, h28⟩
      · refine ⟨_, h28, ?_⟩
        simp only [lockProg, memProg, memProgWith, memSnapNested_of_nested h27 h28, if_true]
        exact follows_nested memNest _
      · refine ⟨_, h28, ?_⟩
        simp only [lockProg, memProg, memProgWith, memSnapNested_of_two h27, Bool.false_eq_true, if_false]
        refine ⟨rfl, ?_⟩
        intro s
        cases hf : findSnap s g n with
        | none => simp only [hf]; first | exact follows_done _ _ _ | trivial
        | some p => simp only [hf]; exact follows_atomic _ _ _ _
    case snapRelease g n => exact ⟨[[lkSnapsW]], by rfl, follows_whole _ _⟩
    case snapList g => exact ⟨[[lkSnapsR]], by rfl, follows_whole _ _⟩
    case snapPrune t => exact ⟨[[lkSnapsW]], by rfl, follows_whole _ _⟩
    all_goals first
      | exact ⟨[[lkInnerR]], by rfl, follows_whole _ _⟩
      | exact ⟨[[lkInnerW]], by rfl, follows_whole _ _⟩
  · -- sqlite
    cases op <;> simp only [methodOf, Option.some.injEq, reduceCtorEq] at h <;> subst h
    case messages g l o so =>
      refine ⟨[[lkConn], [lkConn]], by rfl, ?_⟩
      simp only [lockProg, sqlProg]
      split
      · exact follows_done _ _ _
      · exact follows_cta _ _ _ _ _
    case lastMessage g so => exact ⟨[[lkConn], [lkConn]], by rfl, follows_cta _ _ _ _ _⟩
    case relays g => exact ⟨[[lkConn], [lkConn]], by rfl, follows_cta _ _ _ _ _⟩
    case replaceRelays g rs => exact ⟨[[lkConn], [lkConn]], by rfl, follows_cta _ _ _ _ _⟩
    case getSecret g e => exact ⟨[[lkConn], [lkConn]], by rfl, follows_cta _ _ _ _ _⟩
    case saveSecret g e v => exact ⟨[[lkConn], [lkConn]], by rfl, follows_cta _ _ _ _ _⟩
    all_goals exact ⟨[[lkConn]], by rfl, follows_whole _ _⟩

/-! ## read sections are pure -/

theorem readsPure_atomic_w {σ ρ : Type} (l : Nat) (f : σ → σ × ρ) : (Prog.atomic (l, 1) f).readsPure := by
  refine ⟨?_, ?_⟩
  · intro h; simp at h
  · intro s; trivial

theorem readsPure_atomic_r {σ ρ : Type} (lk : Lock) (f : σ → σ × ρ) (h : ∀ s, (f s).1 = s) : (Prog.atomic lk f).readsPure := by
  refine ⟨fun _ => h, ?_⟩
  intro s; trivial

theorem readsPure_cta {σ ρ : Type} (lk1 : Lock) (l2 : Nat) (chk : σ → Bool) (err : ρ) (act : σ → σ × ρ) :
    (Prog.cta lk1 (l2, 1) chk err act).readsPure := by
  refine ⟨fun _ _ => rfl, ?_⟩
  intro s
  by_cases h : chk s = true
  · simp only [h, if_true]; exact readsPure_atomic_w _ _
  · have h' : chk s = false := by simpa using h
    simp only [h']; first | exact follows_done _ _ | trivial

theorem readsPure_nested_mem (op : Op) (h : memNest.is op = true) : (memNest.nested op).readsPure := by
  refine ⟨fun h0 => absurd h0 (by decide), ?_⟩
  intro s
  cases he : memNest.early op (memNest.L.get s) with
  | some r => simp only [he]; trivial
  | none =>
    simp only [he]
    refine ⟨?_, fun s1 s2 => trivial⟩
    cases op <;> simp [memNest] at h
    case snapCreate g n ts => intro _ s'; rfl
    case snapRollback g n => intro h0; simp [memNest, lkInnerW] at h0

theorem memProgWith_readsPure (nb : Bool) (op : Op) : (memProgWith nb op).readsPure := by
  cases op
  case snapCreate g n ts =>
    cases nb
    · refine ⟨fun _ _ => rfl, ?_⟩
      intro s; exact readsPure_atomic_w _ _
    · exact readsPure_nested_mem _ rfl
  case snapRollback g n =>
    cases nb
    · refine ⟨fun h => absurd h (by decide), ?_⟩
      intro s
      cases hf : findSnap s g n with
      | none => simp only [hf]; first | exact follows_done _ _ _ | trivial
      | some p => simp only [hf]; exact readsPure_atomic_w _ _
    · exact readsPure_nested_mem _ rfl
  case updLast g c p i =>
    refine ⟨fun _ _ => rfl, ?_⟩
    intro s
    cases hf : findGroup s g with
    | none => simp only [hf]; first | exact follows_done _ _ _ | trivial
    | some p => simp only [hf]; exact readsPure_atomic_w _ _
  case snapList g => exact readsPure_atomic_r _ _ (fun s => rfl)
  case snapRelease g n => exact readsPure_atomic_w _ _
  case snapPrune t => exact readsPure_atomic_w _ _
  all_goals first
    | exact readsPure_atomic_w _ _
    | exact readsPure_atomic_r _ _ (fun s => rfl)

theorem lockProg_readsPure' (b : Backend) (op : Op) : (lockProg b op).readsPure := by
  cases b
  · exact memProgWith_readsPure _ op
  · cases op
    case messages g l o so =>
      simp only [lockProg, sqlProg]
      split
      · trivial
      · exact readsPure_cta _ _ _ _ _
    case lastMessage g so => exact readsPure_cta _ _ _ _ _
    case relays g => exact readsPure_cta _ _ _ _ _
    case replaceRelays g rs => exact readsPure_cta _ _ _ _ _
    case getSecret g e => exact readsPure_cta _ _ _ _ _
    case saveSecret g e v => exact readsPure_cta _ _ _ _ _
    case updLast g c p i =>
      refine ⟨fun h => absurd h (by decide), ?_⟩
      intro s
      cases hf : findGroup s g with
      | none => simp only [hf]; first | exact follows_done _ _ _ | trivial
      | some p => simp only [hf]; exact readsPure_atomic_w _ _
    all_goals exact readsPure_atomic_w _ _

/-! ## the sections run back to back are the sequential step -/

theorem isNone_not (x : Option Group) : x.isNone = !x.isSome := by cases x <;> rfl

theorem run_whole (lk : Lock) (op : Op) (s : Store) : (whole lk op).run s = Store.step s op := run_atomic _ _ _

theorem dropSnap_of_not_found (s : Store) (gid name : Nat) (h : findSnap s gid name = none) :
    dropSnap gid name s.snaps = s.snaps := by
  simp only [findSnap, List.find?_eq_none] at h
  simp only [dropSnap, List.filter_eq_self]
  intro p hp
  have := h p hp
  cases hx : (p.gid == gid && p.name == name) with
  | false => rfl
  | true => exact absurd hx this

theorem findSnap_key (s : Store) (gid name : Nat) (p : Snap) (h : findSnap s gid name = some p) :
    p.gid = gid ∧ p.name = name := by
  have := List.find?_some h
  simp only [Bool.and_eq_true, beq_iff_eq] at this
  exact this

theorem lookSnap_eq (s : Store) (gid name : Nat) : lookSnap s.snaps gid name = findSnap s gid name := rfl

theorem mem_rollback_run (nb : Bool) (s : Store) (hb : s.backend = .mem) (gid name : Nat) :
    (memProgWith nb (.snapRollback gid name)).run s = Store.step s (.snapRollback gid name) := by
  cases nb
  · simp only [memProgWith, Bool.false_eq_true, if_false, Prog.run, Store.step, snapRollback]
    cases hf : findSnap s gid name with
    | none =>
      simp only [Prog.run, okErr]
      rw [dropSnap_of_not_found s gid name hf]
    | some p =>
      obtain ⟨hg, hn⟩ := findSnap_key s gid name p hf
      simp only [run_atomic, okErr]
      subst hg; subst hn
      simp [restoreInner, restoreFrom, hb, findGroup]
  · simp only [memProgWith, if_true, NestOps.nested, Prog.run, Store.step, snapRollback]
    cases hf : findSnap s gid name with
    | none =>
      have hf' := hf
      simp only [findSnap] at hf'
      simp only [memNest, snapsLens, lookSnap, hf', Prog.run, okErr]
      rw [dropSnap_of_not_found s gid name hf]
    | some p =>
      obtain ⟨hg, hn⟩ := findSnap_key s gid name p hf
      have hf' := hf
      simp only [findSnap] at hf'
      simp only [memNest, snapsLens, lookSnap, hf', NestOps.inner, NestOps.tail, Prog.run, okErr]
      subst hg; subst hn
      simp [restoreInner, restoreFrom, hb, findGroup]

theorem memProgWith_run (nb : Bool) (op : Op) (s : Store) (hb : s.backend = .mem) :
    (memProgWith nb op).run s = Store.step s op := by
  cases op
  case snapCreate g n ts =>
    cases nb
    · simp [memProgWith, Prog.run, run_atomic, Store.step, snapCreate, hb, okErr]
    · rcases s with ⟨bk, gs, bn, rl, sc, ms, pm, wl, pw, ml, sn⟩
      simp only at hb
      subst hb
      simp [memProgWith, NestOps.nested, NestOps.inner, NestOps.tail, memNest, snapsLens, Prog.run, Store.step, snapCreate, okErr]
  case snapRollback g n => exact mem_rollback_run nb s hb g n
  case updLast g c p i =>
    simp only [memProgWith, Prog.run, Store.step, updLastOp]
    cases findGroup s g with
    | none => simp [Prog.run]
    | some gr =>
      simp only [run_atomic]
      cases saveGroup s (updLast gr (c, p, i)) <;> rfl
  all_goals exact run_whole _ _ _

theorem lockProg_run (b : Backend) (op : Op) (s : Store) (hb : s.backend = b) :
    (lockProg b op).run s = Store.step s op := by
  cases b
  · exact memProgWith_run _ op s hb
  · cases op
    case messages g l o so =>
      simp only [lockProg, sqlProg]
      split
      · rename_i hbad
        simp only [Prog.run, Store.step, messages, hbad, if_true]
      · rename_i hok
        simp only [run_cta, Store.step, messages, hok, exists?, isNone_not]
        by_cases hx : (findGroup s g).isSome = true <;> simp [hx, hb]
    case lastMessage g so =>
      simp only [lockProg, sqlProg, run_cta, Store.step, lastMessage, exists?, isNone_not]
      by_cases hx : (findGroup s g).isSome = true <;> simp [hx]
    case relays g =>
      simp only [lockProg, sqlProg, run_cta, Store.step, relaysOf, exists?, isNone_not]
      by_cases hx : (findGroup s g).isSome = true <;> simp [hx]
    case replaceRelays g rs =>
      simp only [lockProg, sqlProg, run_cta, Store.step, replaceRelays, exists?, sqlReplaceRelaysAct, hb, okErr, isNone_not]
      by_cases hx : (findGroup s g).isSome = true <;> simp [hx]
    case getSecret g e =>
      simp only [lockProg, sqlProg, run_cta, Store.step, getSecret, exists?, isNone_not]
      by_cases hx : (findGroup s g).isSome = true <;> simp [hx]
    case saveSecret g e v =>
      simp only [lockProg, sqlProg, run_cta, Store.step, saveSecret, exists?, sqlSaveSecretAct, okErr, isNone_not]
      by_cases hx : (findGroup s g).isSome = true <;> simp [hx]
    case updLast g c p i =>
      simp only [lockProg, sqlProg, Prog.run, Store.step, updLastOp]
      cases findGroup s g with
      | none => simp [Prog.run]
      | some gr =>
        simp only [run_atomic]
        cases saveGroup s (updLast gr (c, p, i)) <;> rfl
    all_goals exact run_whole _ _ _

/-! ## the sqlite check-then-act methods -/

def limitOk (l : Option Nat) : Bool :=
  !((l.getD Generated.defaultMessageLimit) < 1 || (l.getD Generated.defaultMessageLimit) > Generated.maxMessageLimit)

def sqlCtaOps : CtaOps Op Store String where
  is := fun op => match op with
    | .messages _ l _ _ => limitOk l
    | .lastMessage _ _ | .relays _ | .replaceRelays _ _ | .getSecret _ _ | .saveSecret _ _ _ => true
    | _ => false
  lk1 := fun _ => lkConn
  lk2 := fun _ => lkConn
  chk := fun op => match op with
    | .messages g _ _ _ | .lastMessage g _ | .relays g | .replaceRelays g _ | .getSecret g _ | .saveSecret g _ _ => exists? g
    | _ => fun _ => false
  err := fun _ => "err"
  act := fun op => match op with
    | .messages gid l o so => fun s =>
      let off := if o.getD 0 ≥ two63 then (if Generated.sqlOffsetClamped then two63 - 1 else 0) else o.getD 0
      (s, listShow Msg.show (page (listing s gid (so.getD 0)) off (l.getD Generated.defaultMessageLimit)))
    | .lastMessage gid so => fun s => (s, optShow Msg.show (listing s gid so).head?)
    | .relays gid => fun s => (s, natList ((alookup gid s.relays).getD []))
    | .replaceRelays gid rs => sqlReplaceRelaysAct gid rs
    | .getSecret gid e => fun s =>
      (s, optShow toString ((s.secrets.find? (fun t => t.1 == gid && t.2.1 == e)).map (·.2.2)))
    | .saveSecret gid e v => sqlSaveSecretAct gid e v
    | _ => fun s => (s, "err")

theorem sqlCta_describes' : sqlCtaOps.describes sqlProg := by
  intro op h
  cases op <;> simp only [sqlCtaOps, Bool.false_eq_true] at h
  case messages g l o so =>
    simp only [limitOk, Bool.not_eq_true'] at h
    simp only [sqlProg, h, Bool.false_eq_true, if_false]
    rfl
  all_goals rfl

/-! ## single-section operations -/

theorem singleOp_single' (b : Backend) (op : Op) (h : singleOp b op = true) : (lockProg b op).single := by
  cases b <;> cases op <;> first | exact single_atomic _ _ | (simp [singleOp] at h)

/-! ## pending operations agree under the simulation relation -/

theorem tailrel_ops {ι σ ρ : Type} (K : CtaOps ι σ ρ) (prog : ι → Prog σ ρ) :
    ∀ qc qa : List (Item ι σ ρ), TailRel K prog qc qa → qc.map (·.op) = qa.map (·.op)
  | [], [], _ => rfl
  | ic :: rc, ia :: ra, h => by
    have ht := tailrel_ops K prog rc ra h.2
    have : ic.op = ia.op := by
      cases h.1 with
      | inl x => rw [x.2]
      | inr x => rw [x.2.2.2]
    simp [this, ht]
  | [], _ :: _, h => h.elim
  | _ :: _, [], h => h.elim

theorem qrel_ops {ι σ ρ : Type} (K : CtaOps ι σ ρ) (prog : ι → Prog σ ρ) (st : σ) :
    ∀ qc qa : List (Item ι σ ρ), QRel K prog st qc qa → qc.map (·.op) = qa.map (·.op)
  | [], [], _ => rfl
  | ic :: rc, ia :: ra, h => by
    have ht := tailrel_ops K prog rc ra h.2
    have : ic.op = ia.op := by
      cases h.1 with
      | inl f =>
        cases f with
        | inl x => rw [x.2]
        | inr x => rw [x.2.2.2]
      | inr m => rw [m.2.2.2.2]
    simp [this, ht]
  | [], _ :: _, h => h.elim
  | _ :: _, [], h => h.elim

/-! ## deadlock freedom -/

theorem ofPhases_noNested (ph : Nat → Phase) : (LockState.ofPhases ph).noNested := by
  intro t h
  simp only [LockState.ofPhases] at h ⊢
  cases hp : ph t <;> simp_all

theorem no_wait_cycle (L : LockState) (h : L.noNested) (a : Nat) (path : List Nat) : ¬ L.chain (a :: path ++ [a]) := by
  intro hc
  cases path with
  | nil => exact no_self_wait L h a hc.1
  | cons b r =>
    cases r with
    | nil => exact no_wait_path_of_length_two L h a b a ⟨hc.1, hc.2.1⟩
    | cons c r' => exact no_wait_path_of_length_two L h a b c ⟨hc.1, hc.2.1⟩

/-! ## list lemmas for snapshot_instant and frame -/

theorem findSnap_drop_append (snaps : List Snap) (p : Snap) :
    (dropSnap p.gid p.name snaps ++ [p]).find? (fun q => q.gid == p.gid && q.name == p.name) = some p := by
  rw [List.find?_append]
  have : (dropSnap p.gid p.name snaps).find? (fun q => q.gid == p.gid && q.name == p.name) = none := by
    simp only [List.find?_eq_none, dropSnap, List.mem_filter]
    intro q hq
    have := hq.2
    cases hx : (q.gid == p.gid && q.name == p.name) with
    | false => simp
    | true => simp [hx] at this
  simp [this]

theorem filter_map_restore (g : Nat) (l : List (Nat × Nat × Nat)) (kv : List (Nat × Nat)) :
    ((l.filter (fun t => t.1 != g) ++ kv.map (fun x => (g, x.1, x.2))).filter (fun t => t.1 == g)).map (·.2) = kv := by
  rw [List.filter_append]
  have h1 : (l.filter (fun t => t.1 != g)).filter (fun t => t.1 == g) = [] := by
    simp only [List.filter_filter, List.filter_eq_nil_iff]
    intro a _; simp
  have h2 : (kv.map (fun x => (g, x.1, x.2))).filter (fun t => t.1 == g) = kv.map (fun x => (g, x.1, x.2)) := by
    simp only [List.filter_eq_self, List.mem_map]
    rintro a ⟨x, _, rfl⟩; simp
  rw [h1, h2]; simp [Function.comp_def]

theorem find_replaceGroup_ne (g : Group) (l : List Group) (g' : Nat) (h : g' ≠ g.gid) :
    (replaceGroup g l).find? (·.gid == g') = l.find? (·.gid == g') := by
  induction l with
  | nil => simp [replaceGroup, List.find?]; intro e; exact h e.symm
  | cons x xs ih =>
    simp only [replaceGroup]
    by_cases hx : (x.gid == g.gid) = true
    · have hx' : x.gid = g.gid := by simpa using hx
      have n1 : (g.gid == g') = false := by simp; exact fun e => h e.symm
      have n2 : (x.gid == g') = false := by rw [hx']; exact n1
      simp [hx, List.find?, n1, n2]
    · have hx' : (x.gid == g.gid) = false := by simpa using hx
      simp only [hx', Bool.false_eq_true, if_false, List.find?]
      cases (x.gid == g') <;> simp [ih]

theorem filter_upsertMsg_ne (m : Msg) (l : List Msg) (g' : Nat) (h : g' ≠ m.gid) :
    (upsertMsg m l).filter (·.gid == g') = l.filter (·.gid == g') := by
  have n1 : (m.gid == g') = false := by simp; exact fun e => h e.symm
  induction l with
  | nil => simp [upsertMsg, n1]
  | cons x xs ih =>
    simp only [upsertMsg]
    by_cases hx : (x.gid == m.gid && x.id == m.id) = true
    · have hx' : x.gid = m.gid := by simp at hx; exact hx.1
      have n2 : (x.gid == g') = false := by rw [hx']; exact n1
      simp [hx, List.filter, n1, n2]
    · have hx' : (x.gid == m.gid && x.id == m.id) = false := by simpa using hx
      simp only [hx', Bool.false_eq_true, if_false, List.filter]
      cases (x.gid == g') <;> simp [ih]

theorem alookup_ainsert_ne {α : Type} (k k' : Nat) (v : α) (l : List (Nat × α)) (h : k' ≠ k) :
    alookup k' (ainsert k v l) = alookup k' l := by
  induction l with
  | nil => simp [ainsert, alookup]; intro e; exact absurd e.symm h
  | cons x xs ih =>
    obtain ⟨a, b⟩ := x
    simp only [ainsert]
    by_cases ha : a = k
    · subst ha
      have : ¬ (a = k') := fun e => h e.symm
      simp [alookup, this]
    · simp only [ha, if_false, alookup]
      by_cases hb : a = k' <;> simp [hb, ih]

theorem filter_upsert3_ne (g e v : Nat) (l : List (Nat × Nat × Nat)) (g' : Nat) (h : g' ≠ g)
    (f : Nat → Nat → Nat → List (Nat × Nat × Nat) → List (Nat × Nat × Nat))
    (hf0 : f g e v [] = [(g, e, v)])
    (hf1 : ∀ x xs, f g e v (x :: xs) = if x.1 == g && x.2.1 == e then (g, e, v) :: xs else x :: f g e v xs) :
    (f g e v l).filter (·.1 == g') = l.filter (·.1 == g') := by
  have n1 : (g == g') = false := by simp; exact fun x => h x.symm
  induction l with
  | nil => simp [hf0, n1]
  | cons x xs ih =>
    rw [hf1]
    by_cases hx : (x.1 == g && x.2.1 == e) = true
    · have hx' : x.1 = g := by simp at hx; exact hx.1
      have n2 : (x.1 == g') = false := by rw [hx']; exact n1
      simp [hx, List.filter, n1, n2]
    · have hx' : (x.1 == g && x.2.1 == e) = false := by simpa using hx
      simp only [hx', Bool.false_eq_true, if_false, List.filter]
      cases (x.1 == g') <;> simp [ih]

theorem filter_upsertSecret_ne (g e v : Nat) (l : List (Nat × Nat × Nat)) (g' : Nat) (h : g' ≠ g) :
    (upsertSecret g e v l).filter (·.1 == g') = l.filter (·.1 == g') :=
  filter_upsert3_ne g e v l g' h upsertSecret rfl (fun _ _ => rfl)

theorem filter_upsertMls_ne (g e v : Nat) (l : List (Nat × Nat × Nat)) (g' : Nat) (h : g' ≠ g) :
    (upsertMls g e v l).filter (·.1 == g') = l.filter (·.1 == g') :=
  filter_upsert3_ne g e v l g' h upsertMls rfl (fun _ _ => rfl)

/-! ## frame -/

theorem view_congr (s s' : Store) (g' : Nat)
    (h1 : findGroup s' g' = findGroup s g') (h2 : alookup g' s'.relays = alookup g' s.relays)
    (h3 : s'.secrets.filter (·.1 == g') = s.secrets.filter (·.1 == g'))
    (h4 : s'.mls.filter (·.1 == g') = s.mls.filter (·.1 == g'))
    (h5 : s'.msgs.filter (·.gid == g') = s.msgs.filter (·.gid == g'))
    (h6 : s'.snaps.filter (·.gid == g') = s.snaps.filter (·.gid == g')) : view s' g' = view s g' := by
  simp only [view, groupSecrets, groupMls, groupMsgs, h1, h2, h3, h4, h5, h6]

theorem view_okErr (o : Option Store) (s : Store) (g' : Nat)
    (h : ∀ s', o = some s' → view s' g' = view s g') : view (okErr o s).1 g' = view s g' := by
  cases o with
  | none => rfl
  | some s' => exact h s' rfl

theorem frame_saveMessage (s : Store) (m : Msg) (g' : Nat) (hne : g' ≠ m.gid) :
    view (Store.step s (.saveMessage m)).1 g' = view s g' := by
  apply view_okErr
  intro s' h
  simp only [saveMessage] at h
  repeat' split at h
  all_goals first
    | (cases h; done)
    | (cases h; exact view_congr _ _ _ rfl rfl rfl rfl (filter_upsertMsg_ne m s.msgs g' hne) rfl)

theorem frame_replaceRelays (s : Store) (g : Nat) (rs : List Nat) (g' : Nat) (hne : g' ≠ g) :
    view (Store.step s (.replaceRelays g rs)).1 g' = view s g' := by
  apply view_okErr
  intro s' h
  simp only [replaceRelays] at h
  repeat' split at h
  all_goals first
    | (cases h; done)
    | (cases h; exact view_congr _ _ _ rfl (alookup_ainsert_ne g g' _ s.relays hne) rfl rfl rfl rfl)

theorem frame_saveSecret (s : Store) (g e v : Nat) (g' : Nat) (hne : g' ≠ g) :
    view (Store.step s (.saveSecret g e v)).1 g' = view s g' := by
  apply view_okErr
  intro s' h
  simp only [saveSecret] at h
  repeat' split at h
  all_goals first
    | (cases h; done)
    | (cases h; exact view_congr _ _ _ rfl rfl (filter_upsertSecret_ne g e v s.secrets g' hne) rfl rfl rfl)

theorem frame_mlsWrite (s : Store) (g k v : Nat) (g' : Nat) (hne : g' ≠ g) :
    view (Store.step s (.mlsWrite g k v)).1 g' = view s g' :=
  view_congr _ _ _ rfl rfl rfl (filter_upsertMls_ne g k v s.mls g' hne) rfl rfl

theorem frame_mlsDelete (s : Store) (g k : Nat) (g' : Nat) (hne : g' ≠ g) :
    view (Store.step s (.mlsDelete g k)).1 g' = view s g' := by
  refine view_congr _ _ _ rfl rfl rfl ?_ rfl rfl
  simp only [Store.step, mlsDelete, List.filter_filter]
  apply List.filter_congr
  intro x _
  by_cases hx : x.1 = g'
  · simp [hx, hne]
  · simp [hx]

theorem filter_dropSnap_ne (g n : Nat) (l : List Snap) (g' : Nat) (hne : g' ≠ g) :
    (dropSnap g n l).filter (·.gid == g') = l.filter (·.gid == g') := by
  simp only [dropSnap, List.filter_filter]
  apply List.filter_congr
  intro x _
  by_cases hx : x.gid = g'
  · simp [hx, hne]
  · simp [hx]

theorem frame_snapRelease (s : Store) (g n : Nat) (g' : Nat) (hne : g' ≠ g) :
    view (Store.step s (.snapRelease g n)).1 g' = view s g' :=
  view_congr _ _ _ rfl rfl rfl rfl rfl (filter_dropSnap_ne g n s.snaps g' hne)

theorem frame_snapCreate (s : Store) (g n ts : Nat) (g' : Nat) (hne : g' ≠ g) :
    view (Store.step s (.snapCreate g n ts)).1 g' = view s g' := by
  have hg : ((takeSnap s g n ts).gid == g') = false := by simp [takeSnap]; exact fun e => hne e.symm
  have app : (dropSnap g n s.snaps ++ [takeSnap s g n ts]).filter (·.gid == g') = s.snaps.filter (·.gid == g') := by
    rw [List.filter_append, filter_dropSnap_ne g n s.snaps g' hne]; simp [hg]
  have app2 : (s.snaps ++ [takeSnap s g n ts]).filter (·.gid == g') = s.snaps.filter (·.gid == g') := by
    rw [List.filter_append]; simp [hg]
  apply view_okErr
  intro s' h
  simp only [snapCreate] at h
  repeat' split at h
  all_goals first
    | (cases h; done)
    | (cases h; rfl)
    | (cases h; exact view_congr _ _ _ rfl rfl rfl rfl rfl app)
    | (cases h; exact view_congr _ _ _ rfl rfl rfl rfl rfl app2)

theorem filter_map_of_fix {α : Type} (f : α → α) (p : α → Bool) (l : List α)
    (h1 : ∀ x, p (f x) = p x) (h2 : ∀ x, p x = true → f x = x) : (l.map f).filter p = l.filter p := by
  induction l with
  | nil => rfl
  | cons x xs ih =>
    simp only [List.map, List.filter, h1 x]
    cases hp : p x with
    | false => simp [ih]
    | true => simp [ih, h2 x hp]

theorem frame_invalMsgs (s : Store) (g e : Nat) (g' : Nat) (hne : g' ≠ g) :
    view (Store.step s (.invalMsgs g e)).1 g' = view s g' := by
  refine view_congr _ _ _ rfl rfl rfl rfl ?_ rfl
  simp only [Store.step, invalMsgs]
  apply filter_map_of_fix
  · intro x
    by_cases hh : (x.gid == g && epochGt x.epoch e) = true <;> simp [hh]
  · intro x hx
    have hx' : x.gid = g' := by simpa using hx
    have : (x.gid == g && epochGt x.epoch e) = false := by simp [hx', hne]
    simp [this]

theorem frame_saveGroup (s : Store) (gr : Group) (g' : Nat) (hne : g' ≠ gr.gid) :
    view (Store.step s (.saveGroup gr)).1 g' = view s g' := by
  have key : ∀ s' : Store, s'.groups = replaceGroup gr s.groups → s'.relays = s.relays → s'.secrets = s.secrets →
      s'.mls = s.mls → s'.msgs = s.msgs → s'.snaps = s.snaps → view s' g' = view s g' := by
    intro s' h1 h2 h3 h4 h5 h6
    apply view_congr
    · simp only [findGroup, h1]; exact find_replaceGroup_ne gr s.groups g' hne
    · rw [h2]
    · rw [h3]
    · rw [h4]
    · rw [h5]
    · rw [h6]
  apply view_okErr
  intro s' h
  simp only [saveGroup] at h
  repeat' split at h
  all_goals first
    | (cases h; done)
    | (cases h; apply key <;> rfl)

theorem frame' (s : Store) (op : Op) (g g' : Nat) (hop : opGroup op = some g) (hne : g' ≠ g) :
    view (Store.step s op).1 g' = view s g' := by
  cases op <;> simp only [opGroup, Option.some.injEq, reduceCtorEq] at hop <;> subst hop
  case saveGroup gr => exact frame_saveGroup s gr g' hne
  case saveMessage m => exact frame_saveMessage s m g' hne
  case invalMsgs g e => exact frame_invalMsgs s _ e g' hne
  case replaceRelays g rs => exact frame_replaceRelays s _ rs g' hne
  case saveSecret g e v => exact frame_saveSecret s _ e v g' hne
  case mlsWrite g k v => exact frame_mlsWrite s _ k v g' hne
  case mlsDelete g k => exact frame_mlsDelete s _ k g' hne
  case snapCreate g n ts => exact frame_snapCreate s _ n ts g' hne
  case snapRelease g n => exact frame_snapRelease s _ n g' hne

end MdkVerif.Locks
