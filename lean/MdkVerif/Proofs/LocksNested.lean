import MdkVerif.Model.Locks
import MdkVerif.Proofs.Locks
/-
  MdkVerif.Proofs.LocksNested — nested lock sections (generic in state, result, operation names):

  * ordered acquisition ⇒ some unfinished thread can always take its next step (no deadlock), for any
    thread pool and any schedule;
  * a nested section (outer lock held across an inner section) is simulated by ONE atomic step placed
    where the inner section ran, under every schedule that respects the locks.
-/
namespace MdkVerif.Locks
variable {ι σ ρ : Type}

/-! ## ordered acquisition -/

/-- 1 + the largest rank among the locks held (0 when none is held) -/
def bound (rank : Nat → Nat) : List Lock → Nat
  | [] => 0
  | l :: ls => max (rank l.1 + 1) (bound rank ls)

theorem bound_append (rank : Nat → Nat) (h : List Lock) (lk : Lock) :
    bound rank (h ++ [lk]) = max (bound rank h) (rank lk.1 + 1) := by
  induction h with
  | nil => simp [bound]
  | cons x xs ih => simp only [List.cons_append, bound, ih]; omega

theorem lt_bound_of_mem (rank : Nat → Nat) {h : List Lock} {l : Lock} (hm : l ∈ h) : rank l.1 < bound rank h := by
  induction h with
  | nil => cases hm
  | cons x xs ih =>
    simp only [bound]
    rcases List.mem_cons.mp hm with e | e
    · subst e; omega
    · have := ih e; omega

theorem ordered_acquires {rank : Nat → Nat} {b : Nat} {p : Prog σ ρ} {lk : Lock}
    (h : p.ordered rank b) (ha : p.acquires = some lk) : b ≤ rank lk.1 := by
  cases p <;> simp only [Prog.acquires, Option.some.injEq, reduceCtorEq] at ha
  · subst ha; exact h.1
  · subst ha; exact h.1

/-- one step keeps the order -/
theorem ordered_adv {rank : Nat → Nat} {hl : List Lock} {p : Prog σ ρ} (h : p.ordered rank (bound rank hl)) (s : σ) :
    (p.adv s).2.1.ordered rank (bound rank (hl ++ (p.adv s).2.2)) := by
  cases p with
  | done r => simp [Prog.adv, Prog.ordered]
  | sec lk upd next => simpa [Prog.adv] using h.2 s
  | hold lk upd body =>
    have h1 : bound rank hl ≤ rank lk.1 := h.1
    have : bound rank (hl ++ [lk]) = rank lk.1 + 1 := by rw [bound_append]; omega
    simp only [Prog.adv, this]
    exact h.2 s
  | act upd next => simpa [Prog.adv] using h s

/-- every operation under way acquires in order above what it holds; every operation not yet
    started holds nothing and acquires in order -/
def OrdInv (rank : Nat → Nat) (c : Cfg ι σ ρ) : Prop :=
  ∀ u it rest, c.thr u = it :: rest →
    it.rem.ordered rank (bound rank it.held) ∧ ∀ it', it' ∈ rest → it'.held = [] ∧ it'.rem.ordered rank 0

theorem ordInv_step (rank : Nat → Nat) (c : Cfg ι σ ρ) (t : Nat) (h : OrdInv rank c) : OrdInv rank (step c t) := by
  cases hth : c.thr t with
  | nil => rw [step_nil hth]; exact h
  | cons it rest =>
    obtain ⟨hhead, hrest⟩ := h t it rest hth
    cases hd : (it.rem.adv c.st).2.1.isDone with
    | some r =>
      rw [step_complete hth hd]
      intro u it2 rest2 hu
      by_cases e : u = t
      · subst e
        simp only [setThr_same] at hu
        subst hu
        obtain ⟨h1, h2⟩ := hrest it2 (by simp)
        refine ⟨by rw [h1]; exact h2, fun it' hm => hrest it' (by simp [hm])⟩
      · simp only [setThr_other _ _ e] at hu
        exact h u it2 rest2 hu
    | none =>
      rw [step_continue hth hd]
      intro u it2 rest2 hu
      by_cases e : u = t
      · subst e
        simp only [setThr_same, List.cons.injEq] at hu
        obtain ⟨h1, h2⟩ := hu
        subst h1; subst h2
        exact ⟨ordered_adv hhead c.st, hrest⟩
      · simp only [setThr_other _ _ e] at hu
        exact h u it2 rest2 hu

theorem ordInv_exec (rank : Nat → Nat) (sched : List Nat) :
    ∀ c : Cfg ι σ ρ, OrdInv rank c → OrdInv rank (exec c sched) := by
  induction sched with
  | nil => intro c h; exact h
  | cons t r ih => intro c h; rw [exec_cons]; exact ih _ (ordInv_step rank c t h)

theorem ordInv_init (rank : Nat → Nat) (prog : ι → Prog σ ρ) (hord : ∀ i, (prog i).ordered rank 0)
    (ops : Nat → List ι) (s0 : σ) : OrdInv rank (init prog ops s0) := by
  intro u it rest hu
  have hall : ∀ it', it' ∈ (init prog ops s0).thr u → it'.held = [] ∧ it'.rem.ordered rank 0 := by
    intro it' hm
    simp only [init, List.mem_map] at hm
    obtain ⟨i, _, rfl⟩ := hm
    exact ⟨rfl, hord i⟩
  rw [hu] at hall
  obtain ⟨h1, h2⟩ := hall it (by simp)
  refine ⟨by rw [h1]; exact h2, fun it' hm => hall it' (by simp [hm])⟩

theorem conflict_id {a b : Lock} (h : conflict a b = true) : a.1 = b.1 := by
  simp only [conflict, Bool.and_eq_true, beq_iff_eq] at h
  exact h.1

/-- the rank argument: a thread that cannot move waits for a lock held by a thread whose own next
    acquisition lies strictly higher; ranks are bounded, so the chain ends at a thread that can move -/
theorem ordered_progress_aux (rank : Nat → Nat) (N : Nat) (hN : ∀ i, rank i < N) (c : Cfg ι σ ρ)
    (hinv : OrdInv rank c) :
    ∀ k t, c.thr t ≠ [] →
      (∀ it rest lk, c.thr t = it :: rest → it.rem.acquires = some lk → N ≤ rank lk.1 + k) →
      ∃ u, c.thr u ≠ [] ∧ enabled c u := by
  intro k
  induction k with
  | zero =>
    intro t ht hk
    refine ⟨t, ht, ?_⟩
    intro it rest h lk hacq u l _
    have := hk it rest lk h hacq
    have := hN lk.1
    omega
  | succ k ih =>
    intro t ht hk
    by_cases he : enabled c t
    · exact ⟨t, ht, he⟩
    · simp only [enabled, Classical.not_forall] at he
      obtain ⟨it, rest, hth, lk, hacq, u, l, hl, hcf⟩ := he
      have hcf' : conflict lk l = true := by simpa using hcf
      have hid := conflict_id hcf'
      -- `u` is under way and holds `l`
      cases hu : c.thr u with
      | nil => simp [Cfg.holds, hu] at hl
      | cons iu ru =>
        have hlu : l ∈ iu.held := by simpa [Cfg.holds, hu] using hl
        have hlt := lt_bound_of_mem rank hlu
        obtain ⟨hord, _⟩ := hinv u iu ru hu
        apply ih u (by rw [hu]; simp)
        intro iu' ru' lk' hu' hacq'
        rw [hu] at hu'
        simp only [List.cons.injEq] at hu'
        obtain ⟨e1, _⟩ := hu'
        subst e1
        have h1 := ordered_acquires hord hacq'
        have h2 := hk it rest lk hth hacq
        rw [hid] at h2
        omega

theorem ordered_progress (rank : Nat → Nat) (N : Nat) (hN : ∀ i, rank i < N) (c : Cfg ι σ ρ)
    (hinv : OrdInv rank c) (t : Nat) (ht : c.thr t ≠ []) : ∃ u, c.thr u ≠ [] ∧ enabled c u := by
  apply ordered_progress_aux rank N hN c hinv N t ht
  intro it rest lk _ _
  omega

/-! ### the same at the level of lock states: no wait-for cycle -/

theorem chain_rank_lt (L : LockState) (rank : Nat → Nat) (h : L.orderedBy rank) :
    ∀ (rest : List Nat) (x z lx lz : Nat), L.chain (x :: rest ++ [z]) → L.waits x = some lx → L.waits z = some lz →
      rank lx < rank lz := by
  intro rest
  induction rest with
  | nil =>
    intro x z lx lz hc hx hz
    obtain ⟨l, hw, hl⟩ := hc.1
    rw [hx] at hw; cases hw
    exact h z lz hz lx hl
  | cons y r ih =>
    intro x z lx lz hc hx hz
    obtain ⟨l, hw, hl⟩ := hc.1
    rw [hx] at hw; cases hw
    have hc2 : L.chain (y :: r ++ [z]) := hc.2
    -- `y` waits too: it has a successor in the chain
    have hy : ∃ ly, L.waits y = some ly := by
      cases r with
      | nil => obtain ⟨l', hw', _⟩ := hc2.1; exact ⟨l', hw'⟩
      | cons y2 r2 => obtain ⟨l', hw', _⟩ := hc2.1; exact ⟨l', hw'⟩
    obtain ⟨ly, hly⟩ := hy
    have h1 := h y ly hly lx hl
    have h2 := ih y z ly lz hc2 hly hz
    omega

theorem ordered_no_wait_cycle (L : LockState) (rank : Nat → Nat) (h : L.orderedBy rank) (a : Nat) (path : List Nat) :
    ¬ L.chain (a :: path ++ [a]) := by
  intro hc
  have ha : ∃ la, L.waits a = some la := by
    cases path with
    | nil => obtain ⟨l', hw', _⟩ := hc.1; exact ⟨l', hw'⟩
    | cons y r => obtain ⟨l', hw', _⟩ := hc.1; exact ⟨l', hw'⟩
  obtain ⟨la, hla⟩ := ha
  have := chain_rank_lt L rank h path a a la la hc hla hla
  omega

/-- the no-nesting protocol is the special case: whoever waits holds nothing -/
theorem orderedBy_of_noNested (L : LockState) (rank : Nat → Nat) (h : L.noNested) : L.orderedBy rank := by
  intro t l hw x hx
  have : L.holds t = [] := h t (by rw [hw]; simp)
  rw [this] at hx; cases hx

/-! ### from the shape table to programs -/

theorem stackOrdered_snoc (rank : Nat → Nat) (h : List Lock) (lk : Lock) :
    ∀ b, stackOrdered rank b (h ++ [lk]) = true → b ≤ rank lk.1 ∧ bound rank h ≤ rank lk.1 := by
  induction h with
  | nil =>
    intro b hb
    simp only [List.nil_append, stackOrdered, Bool.and_true, decide_eq_true_eq] at hb
    exact ⟨hb, by simp [bound]⟩
  | cons x xs ih =>
    intro b hb
    simp only [List.cons_append, stackOrdered, Bool.and_eq_true, decide_eq_true_eq] at hb
    obtain ⟨h1, h2⟩ := ih _ hb.2
    simp only [bound]
    omega

/-- a program that follows a shape all of whose sections are taken in increasing rank acquires in order -/
theorem ordered_of_follows (rank : Nat → Nat) (p : Prog σ ρ) :
    ∀ (h : List Lock) (l : List (List Lock)), p.follows h l → (∀ st, st ∈ l → stackOrdered rank 0 st = true) →
      p.ordered rank (bound rank h) := by
  induction p with
  | done r => intro h l _ _; trivial
  | sec lk upd next ih =>
    intro h l hf hs
    cases l with
    | nil => exact hf.elim
    | cons st ls =>
      obtain ⟨hst, hnext⟩ := hf
      have hso := hs st (by simp)
      rw [hst] at hso
      obtain ⟨_, hb⟩ := stackOrdered_snoc rank h lk 0 hso
      exact ⟨hb, fun s => ih s h ls (hnext s) (fun st' hm => hs st' (by simp [hm]))⟩
  | hold lk upd body ih =>
    intro h l hf hs
    cases l with
    | nil => exact hf.elim
    | cons st ls =>
      obtain ⟨hst, hnext⟩ := hf
      have hso := hs st (by simp)
      rw [hst] at hso
      obtain ⟨_, hb⟩ := stackOrdered_snoc rank h lk 0 hso
      refine ⟨hb, fun s => ?_⟩
      have := ih s (h ++ [lk]) ls (hnext s) (fun st' hm => hs st' (by simp [hm]))
      have e : bound rank (h ++ [lk]) = rank lk.1 + 1 := by rw [bound_append]; omega
      rw [e] at this
      exact this
  | act upd next ih =>
    intro h l hf hs
    exact fun s => ih s h l (hf s) hs

/-! ### decidable form of `respects` (finitely many active threads) -/

theorem respects_of_respectsB (us : List Nat) (sched : List Nat) :
    ∀ c : Cfg ι σ ρ, (∀ u, u ∉ us → c.thr u = []) → respectsB c us sched = true → respects c sched := by
  induction sched with
  | nil => intro c _ _; trivial
  | cons t r ih =>
    intro c hidle hb
    simp only [respectsB, Bool.and_eq_true] at hb
    refine ⟨?_, ih _ (step_keeps_idle c t us hidle) hb.2⟩
    intro it rest hth lk hacq u l hl
    by_cases hm : u ∈ us
    · have h1 := hb.1
      simp only [enabledB, hth, hacq, List.all_eq_true] at h1
      have := h1 u hm l hl
      simpa using this
    · simp [Cfg.holds, hidle u hm] at hl

/-! ### decidable forms for finitely many active threads -/

theorem exec_keeps_idle (us : List Nat) (sched : List Nat) :
    ∀ c : Cfg ι σ ρ, (∀ u, u ∉ us → c.thr u = []) → ∀ u, u ∉ us → (exec c sched).thr u = [] := by
  induction sched with
  | nil => intro c h; exact h
  | cons t r ih => intro c h; rw [exec_cons]; exact ih _ (step_keeps_idle c t us h)

/-- nobody holds a lock, checked for the threads in `us` -/
def quiescentB (c : Cfg ι σ ρ) (us : List Nat) : Bool := us.all (fun u => (c.holds u).isEmpty)

theorem quiescent_of_quiescentB (c : Cfg ι σ ρ) (us : List Nat) (hidle : ∀ u, u ∉ us → c.thr u = [])
    (h : quiescentB c us = true) : ∀ u, c.holds u = [] := by
  intro u
  by_cases hm : u ∈ us
  · have := List.all_eq_true.mp h u hm
    simpa using this
  · simp [Cfg.holds, hidle u hm]

theorem init_idle (prog : ι → Prog σ ρ) (ops : Nat → List ι) (s0 : σ) (us : List Nat) (h : ∀ u, u ∉ us → ops u = []) :
    ∀ u, u ∉ us → (init prog ops s0).thr u = [] := by
  intro u hu; simp [init, h u hu]

/-! ## nested sections: simulation by the fused (atomic) operations -/

theorem logOf_snoc (l : List (Nat × ι × ρ)) (e : Nat × ι × ρ) (u : Nat) :
    logOf (l ++ [e]) u = logOf l u ++ (if e.1 = u then [e] else []) := by
  simp only [logOf, List.filter_append]
  by_cases h : e.1 = u <;> simp [h]

section nest
variable {β : Type} (K : NestOps ι σ ρ β) (prog : ι → Prog σ ρ)

/-- an operation that is not inside a nested section: a flat operation (identical on both sides,
    holds nothing, every section either takes the outer lock or is independent of what it
    protects), or a nested operation that has not started vs its fusion -/
def NFresh (ic ia : Item ι σ ρ) : Prop :=
  (K.is ic.op = false ∧ ic = ia ∧ ic.held = [] ∧ K.good ic.rem) ∨
  (K.is ic.op = true ∧ ic.rem = K.nested ic.op ∧ ic.pc = 0 ∧ ic.held = [] ∧
    ia = { op := ic.op, rem := K.fuse prog ic.op, pc := 0 })

def NTail : List (Item ι σ ρ) → List (Item ι σ ρ) → Prop
  | [], [] => True
  | ic :: rc, ia :: ra => NFresh K prog ic ia ∧ NTail rc ra
  | _, _ => False

/-- the simulation relation: nobody is inside a nested section (`free`), or exactly one thread is —
    after step 1 (`ph1`: its `pre` has run on the concrete side only) or after the inner section
    (`ph2`: the fused operation has completed on the abstract side, `post` is still to run on the
    concrete side) -/
inductive NRel (c a : Cfg ι σ ρ) : Prop where
  | free (hst : c.st = a.st) (hlog : ∀ u, logOf a.log u = logOf c.log u)
      (hq : ∀ u, NTail K prog (c.thr u) (a.thr u))
  | ph1 (t : Nat) (i : ι) (b0 : β) (rc ra : List (Item ι σ ρ))
      (hi : K.is i = true) (he : K.early i b0 = none)
      (hst : c.st = K.L.set (K.pre i b0) a.st) (hb : K.L.get a.st = b0)
      (hlog : ∀ u, logOf a.log u = logOf c.log u)
      (hc : c.thr t = { op := i, rem := K.inner i b0, pc := 1, held := [(K.S, 1)] } :: rc)
      (ha : a.thr t = { op := i, rem := K.fuse prog i, pc := 0 } :: ra)
      (htail : NTail K prog rc ra)
      (hq : ∀ u, u ≠ t → NTail K prog (c.thr u) (a.thr u))
  | ph2 (t : Nat) (i : ι) (s1 : σ) (rc : List (Item ι σ ρ))
      (hi : K.is i = true)
      (hst : a.st = K.L.set (K.post i s1 (K.L.get c.st)) c.st)
      (hlog : ∀ u, logOf a.log u = logOf c.log u ++ (if t = u then [(t, i, K.res i)] else []))
      (hc : c.thr t = { op := i, rem := K.tail i s1, pc := 2, held := [(K.S, 1)] } :: rc)
      (htail : NTail K prog rc (a.thr t))
      (hq : ∀ u, u ≠ t → NTail K prog (c.thr u) (a.thr u))

theorem ntail_nil_left {qa : List (Item ι σ ρ)} (h : NTail K prog [] qa) : qa = [] := by
  cases qa with
  | nil => rfl
  | cons x y => exact h.elim

theorem ntail_cons_left {ic : Item ι σ ρ} {rc qa : List (Item ι σ ρ)} (h : NTail K prog (ic :: rc) qa) :
    ∃ ia ra, qa = ia :: ra ∧ NFresh K prog ic ia ∧ NTail K prog rc ra := by
  cases qa with
  | nil => exact h.elim
  | cons ia ra => exact ⟨ia, ra, rfl, h.1, h.2⟩

theorem ntail_ops : ∀ qc qa : List (Item ι σ ρ), NTail K prog qc qa → qc.map (·.op) = qa.map (·.op)
  | [], [], _ => rfl
  | ic :: rc, ia :: ra, h => by
    have ht := ntail_ops rc ra h.2
    have : ic.op = ia.op := by
      cases h.1 with
      | inl x => rw [x.2.1]
      | inr x => rw [x.2.2.2.2]
    simp [this, ht]
  | [], _ :: _, h => h.elim
  | _ :: _, [], h => h.elim

/-- a flat step that does not take the outer lock commutes with every change of the protected part -/
theorem good_adv_indep {p : Prog σ ρ} (hg : K.good p) (hS : ∀ lk, p.acquires = some lk → lk.1 ≠ K.S) (s : σ) (x : β) :
    (p.adv (K.L.set x s)).1 = K.L.set x (p.adv s).1 ∧ (p.adv (K.L.set x s)).2 = (p.adv s).2 ∧
    K.L.get (p.adv s).1 = K.L.get s := by
  cases p with
  | done r => simp [Prog.adv]
  | sec lk upd next =>
    obtain ⟨h1, h2, h3⟩ := hg.1 (hS lk rfl) s x
    simp [Prog.adv, h1, h2, h3]
  | hold lk upd body => exact hg.elim
  | act upd next => exact hg.elim

theorem good_adv_good {p : Prog σ ρ} (hg : K.good p) (s : σ) : K.good (p.adv s).2.1 ∧ (p.adv s).2.2 = [] := by
  cases p with
  | done r => exact ⟨trivial, rfl⟩
  | sec lk upd next => exact ⟨hg.2 s, rfl⟩
  | hold lk upd body => exact hg.elim
  | act upd next => exact hg.elim

theorem skips_eq {c : Cfg ι σ ρ} {t : Nat} {it : Item ι σ ρ} {rest : List (Item ι σ ρ)} (h : c.thr t = it :: rest) :
    K.skips c t = (K.is it.op && ((it.pc == 0 && (K.early it.op (K.L.get c.st)).isNone) || it.pc == 2)) := by
  simp [NestOps.skips, h]

theorem fuse_nested {i : ι} (hi : K.is i = true) : K.fuse prog i = Prog.atomic (K.S, 1) (K.eff i) := by
  simp [NestOps.fuse, hi]

/-- while `tt` holds the outer lock, an enabled step of another thread does not take it -/
theorem not_outer_of_enabled {c : Cfg ι σ ρ} {t tt : Nat} {it : Item ι σ ρ} {rest : List (Item ι σ ρ)}
    (hen : enabled c t) (hth : c.thr t = it :: rest) (hh : (K.S, 1) ∈ c.holds tt) :
    ∀ lk, it.rem.acquires = some lk → lk.1 ≠ K.S := by
  intro lk hacq e
  have := hen it rest hth lk hacq tt (K.S, 1) hh
  simp [conflict, e] at this

theorem logOf_append (l d : List (Nat × ι × ρ)) (u : Nat) : logOf (l ++ d) u = logOf l u ++ logOf d u := by
  simp [logOf, List.filter_append]

/-- what the step of a flat operation `it` at the head of `t` looks like on both sides: it completes
    with the same result, or goes on with the same remainder -/
def FlatBoth (c a c' a' : Cfg ι σ ρ) (t : Nat) (it : Item ι σ ρ) (rc ra : List (Item ι σ ρ)) : Prop :=
  (∃ r, c'.thr = setThr c.thr t rc ∧ a'.thr = setThr a.thr t ra ∧
      c'.log = c.log ++ [(t, it.op, r)] ∧ a'.log = a.log ++ [(t, it.op, r)]) ∨
  (∃ it' : Item ι σ ρ, it'.op = it.op ∧ it'.held = [] ∧ K.good it'.rem ∧
      c'.thr = setThr c.thr t (it' :: rc) ∧ a'.thr = setThr a.thr t (it' :: ra) ∧
      c'.log = c.log ∧ a'.log = a.log)

theorem FlatBoth.swap {c a c' a' : Cfg ι σ ρ} {t : Nat} {it : Item ι σ ρ} {rc ra : List (Item ι σ ρ)}
    (h : FlatBoth K c a c' a' t it rc ra) : FlatBoth K a c a' c' t it ra rc := by
  rcases h with ⟨r, h1, h2, h3, h4⟩ | ⟨it', o1, o2, o3, h1, h2, h3, h4⟩
  · exact Or.inl ⟨r, h2, h1, h4, h3⟩
  · exact Or.inr ⟨it', o1, o2, o3, h2, h1, h4, h3⟩

/-- a flat operation at the head of `t` steps on both sides, the two states being related by a change
    of the protected part only (`a.st = set x c.st`): same continuation, same result -/
theorem flat_step_set {c a : Cfg ι σ ρ} {t : Nat} {it : Item ι σ ρ} {rc ra : List (Item ι σ ρ)}
    (hc : c.thr t = it :: rc) (ha : a.thr t = it :: ra) (hg : K.good it.rem) (hheld : it.held = [])
    (hS : ∀ lk, it.rem.acquires = some lk → lk.1 ≠ K.S) (x : β) (hst : a.st = K.L.set x c.st) :
    (step a t).st = K.L.set x (step c t).st ∧ K.L.get (step c t).st = K.L.get c.st ∧
    FlatBoth K c a (step c t) (step a t) t it rc ra := by
  obtain ⟨h1, h2, h3⟩ := good_adv_indep K hg hS c.st x
  obtain ⟨g1, g2⟩ := good_adv_good K hg c.st
  cases hd : (it.rem.adv c.st).2.1.isDone with
  | some r =>
    have hd' : (it.rem.adv a.st).2.1.isDone = some r := by rw [hst, h2]; exact hd
    rw [step_complete hc hd, step_complete ha hd']
    refine ⟨by simp only [hst, h1], h3, Or.inl ⟨r, rfl, rfl, rfl, rfl⟩⟩
  | none =>
    have hd' : (it.rem.adv a.st).2.1.isDone = none := by rw [hst, h2]; exact hd
    rw [step_continue hc hd, step_continue ha hd']
    refine ⟨by simp only [hst, h1], h3, Or.inr ⟨Item.mk it.op (it.rem.adv c.st).2.1 (it.pc + 1) (it.held ++ (it.rem.adv c.st).2.2),
      rfl, ?_, g1, rfl, ?_, rfl, rfl⟩⟩
    · simp [hheld, g2]
    · simp only [hst, h2]

/-- what such a step means for the relation: both logs grow by the same entries, the queue of `t`
    stays related, the other queues are untouched -/
theorem pair_of_flatBoth {c a c' a' : Cfg ι σ ρ} {t : Nat} {it : Item ι σ ρ} {rc ra : List (Item ι σ ρ)}
    (h : FlatBoth K c a c' a' t it rc ra) (hno : K.is it.op = false) (htl : NTail K prog rc ra) :
    (∃ d, (∀ u, u ≠ t → logOf d u = []) ∧ c'.log = c.log ++ d ∧ a'.log = a.log ++ d) ∧ NTail K prog (c'.thr t) (a'.thr t) ∧
    ∀ u, u ≠ t → c'.thr u = c.thr u ∧ a'.thr u = a.thr u := by
  rcases h with ⟨r, c1, a1, c2, a2⟩ | ⟨it', o1, o2, o3, c1, a1, c2, a2⟩
  · refine ⟨⟨_, ?_, c2, a2⟩, ?_, ?_⟩
    · intro u hu
      have : ¬ (t = u) := fun x => hu x.symm
      simp [logOf, this]
    · rw [c1, a1]; simpa [setThr_same] using htl
    · intro u hu; rw [c1, a1]; exact ⟨setThr_other _ _ hu, setThr_other _ _ hu⟩
  · refine ⟨⟨[], fun _ _ => rfl, by simp [c2], by simp [a2]⟩, ?_, ?_⟩
    · rw [c1, a1]; simp only [setThr_same]
      exact ⟨Or.inl ⟨by rw [o1]; exact hno, rfl, o2, o3⟩, htl⟩
    · intro u hu; rw [c1, a1]; exact ⟨setThr_other _ _ hu, setThr_other _ _ hu⟩

/-- the thread OTHER than the one inside a nested section (which holds the outer lock): it is idle
    on both sides, or the same flat operation is at its head on both sides and its next step does not
    take the outer lock -/
theorem other_flat {c a : Cfg ι σ ρ} {t tt : Nat} (hen : enabled c t)
    (hh : (K.S, 1) ∈ c.holds tt) (hqt : NTail K prog (c.thr t) (a.thr t)) :
    K.skips c t = false ∧
    ((c.thr t = [] ∧ a.thr t = []) ∨
     (∃ it rc ra, c.thr t = it :: rc ∧ a.thr t = it :: ra ∧ K.is it.op = false ∧ it.held = [] ∧ K.good it.rem ∧
        (∀ lk, it.rem.acquires = some lk → lk.1 ≠ K.S) ∧ NTail K prog rc ra)) := by
  cases hth : c.thr t with
  | nil =>
    rw [hth] at hqt
    exact ⟨by simp [NestOps.skips, hth], Or.inl ⟨rfl, ntail_nil_left K prog hqt⟩⟩
  | cons ic rc =>
    rw [hth] at hqt
    obtain ⟨ia, ra, hta, hfresh, htl⟩ := ntail_cons_left K prog hqt
    cases hfresh with
    | inr kf =>
      -- a nested operation would take the outer lock, which `tt` holds
      obtain ⟨_, hrem, _⟩ := kf
      have hacq : ic.rem.acquires = some (K.S, 1) := by rw [hrem]; rfl
      exact absurd rfl (not_outer_of_enabled K hen hth hh _ hacq)
    | inl fl =>
      obtain ⟨hno, heq, hheld, hg⟩ := fl
      subst heq
      refine ⟨by rw [skips_eq K hth]; simp [hno], Or.inr ⟨ic, rc, ra, rfl, hta, hno, hheld, hg, ?_, htl⟩⟩
      exact not_outer_of_enabled K hen hth hh

theorem ntail_setThr_other {c a : Cfg ι σ ρ} {t u : Nat} (qc qa : List (Item ι σ ρ)) (e : u ≠ t)
    (h : NTail K prog (c.thr u) (a.thr u)) : NTail K prog (setThr c.thr t qc u) (setThr a.thr t qa u) := by
  simpa [setThr_other _ _ e] using h

theorem nrel_step (c a : Cfg ι σ ρ) (t : Nat) (h : NRel K prog c a) (hen : enabled c t) :
    NRel K prog (step c t) (if K.skips c t then a else step a t) := by
  cases h with
  | free hst hlog hq =>
    cases hth : c.thr t with
    | nil =>
      have hqt := hq t
      rw [hth] at hqt
      have hta := ntail_nil_left K prog hqt
      have hsk : K.skips c t = false := by simp [NestOps.skips, hth]
      rw [hsk, step_nil hth]; simp only [Bool.false_eq_true, if_false]
      rw [step_nil hta]
      exact .free hst hlog hq
    | cons ic rc =>
      have hqt := hq t
      rw [hth] at hqt
      obtain ⟨ia, ra, hta, hfresh, htl⟩ := ntail_cons_left K prog hqt
      cases hfresh with
      | inl fl =>
        obtain ⟨hno, heq, hheld, hg⟩ := fl
        subst heq
        have hsk : K.skips c t = false := by rw [skips_eq K hth]; simp [hno]
        rw [hsk]; simp only [Bool.false_eq_true, if_false]
        obtain ⟨g1, g2⟩ := good_adv_good K hg c.st
        cases hd : (ic.rem.adv c.st).2.1.isDone with
        | some r =>
          have hd' : (ic.rem.adv a.st).2.1.isDone = some r := by rw [← hst]; exact hd
          rw [step_complete hth hd, step_complete hta hd', ← hst]
          refine .free rfl ?_ ?_
          · intro u; simp only [logOf_snoc, hlog u]
          · intro u
            by_cases e : u = t
            · subst e; simpa [setThr_same] using htl
            · exact ntail_setThr_other K prog _ _ e (hq u)
        | none =>
          have hd' : (ic.rem.adv a.st).2.1.isDone = none := by rw [← hst]; exact hd
          rw [step_continue hth hd, step_continue hta hd', ← hst]
          refine .free rfl hlog ?_
          intro u
          by_cases e : u = t
          · subst e
            simp only [setThr_same]
            exact ⟨Or.inl ⟨hno, rfl, by simp [hheld, g2], g1⟩, htl⟩
          · exact ntail_setThr_other K prog _ _ e (hq u)
      | inr kf =>
        obtain ⟨hyes, hrem, hpc, hheld, hia⟩ := kf
        have hra : ia.rem = Prog.atomic (K.S, 1) (K.eff ic.op) := by rw [hia]; exact fuse_nested K prog hyes
        have hopa : ia.op = ic.op := by rw [hia]
        cases he : K.early ic.op (K.L.get c.st) with
        | some r =>
          -- early return: both sides complete in this step
          have hsk : K.skips c t = false := by rw [skips_eq K hth]; simp [he, hpc]
          rw [hsk]; simp only [Bool.false_eq_true, if_false]
          have hd : (ic.rem.adv c.st).2.1.isDone = some r := by
            rw [hrem]; simp [NestOps.nested, Prog.adv, he, Prog.isDone]
          have hst1 : (ic.rem.adv c.st).1 = K.L.set (K.pre ic.op (K.L.get c.st)) c.st := by
            rw [hrem]; rfl
          have hea : K.eff ic.op a.st = (K.L.set (K.pre ic.op (K.L.get c.st)) c.st, r) := by
            rw [← hst]; simp [NestOps.eff, he]
          have hd' : (ia.rem.adv a.st).2.1.isDone = some r := by
            rw [hra]; simp [Prog.atomic, Prog.adv, Prog.isDone, hea]
          have hst2 : (ia.rem.adv a.st).1 = K.L.set (K.pre ic.op (K.L.get c.st)) c.st := by
            rw [hra]; simp [Prog.atomic, Prog.adv, hea]
          rw [step_complete hth hd, step_complete hta hd', hst1, hst2, hopa]
          refine .free rfl ?_ ?_
          · intro u; simp only [logOf_snoc, hlog u]
          · intro u
            by_cases e : u = t
            · subst e; simpa [setThr_same] using htl
            · exact ntail_setThr_other K prog _ _ e (hq u)
        | none =>
          -- step 1: the concrete side takes the outer lock and runs `pre`; the abstract side waits
          have hsk : K.skips c t = true := by rw [skips_eq K hth]; simp [he, hpc, hyes]
          rw [hsk]; simp only [if_true]
          have hd : (ic.rem.adv c.st).2.1.isDone = none := by
            rw [hrem]; simp [NestOps.nested, NestOps.inner, Prog.adv, he, Prog.isDone]
          have hadv : ic.rem.adv c.st = (K.L.set (K.pre ic.op (K.L.get c.st)) c.st, K.inner ic.op (K.L.get c.st), [(K.S, 1)]) := by
            rw [hrem]; simp [NestOps.nested, Prog.adv, he]
          have hc' := step_continue hth hd
          rw [hadv] at hc'
          simp only [hpc, hheld, List.nil_append, Nat.zero_add] at hc'
          refine .ph1 t ic.op (K.L.get c.st) rc ra hyes he ?_ (by rw [hst]) ?_ ?_ ?_ htl ?_
          · rw [hc', hst]
          · intro u; rw [hc']; exact hlog u
          · rw [hc']; simp [setThr_same]
          · rw [hta, hia]
          · intro u hu; rw [hc']; simpa [setThr_other _ _ hu] using hq u
  | ph1 tt i b0 rc ra hi he hst hb hlog hc ha htail hq =>
    by_cases e : t = tt
    · -- the inner section: the fused operation runs now
      subst e
      have hsk : K.skips c t = false := by rw [skips_eq K hc]; simp
      rw [hsk]; simp only [Bool.false_eq_true, if_false]
      have hd : ((K.inner i b0).adv c.st).2.1.isDone = none := by simp [NestOps.inner, NestOps.tail, Prog.adv, Prog.isDone]
      have hc' := step_continue hc hd
      simp only [NestOps.inner, Prog.adv, List.append_nil] at hc'
      have hea : K.eff i a.st = (K.L.set (K.post i c.st (K.L.get (K.mid i b0 c.st))) (K.mid i b0 c.st), K.res i) := by
        simp only [NestOps.eff, hb, he, ← hst]
      have hd' : ((Prog.atomic (K.S, 1) (K.eff i)).adv a.st).2.1.isDone = some (K.res i) := by
        simp [Prog.atomic, Prog.adv, Prog.isDone, hea]
      have ha0 : a.thr t = { op := i, rem := Prog.atomic (K.S, 1) (K.eff i), pc := 0 } :: ra := by
        rw [ha, fuse_nested K prog hi]
      have ha' := step_complete ha0 hd'
      simp only [Prog.atomic, Prog.adv, hea] at ha'
      refine .ph2 t i c.st rc hi ?_ ?_ ?_ ?_ ?_
      · rw [ha', hc']
      · intro u; rw [ha', hc']; simp only [logOf_snoc, hlog u]
      · rw [hc']; simp [setThr_same]
      · rw [ha']; simpa [setThr_same] using htail
      · intro u hu; rw [ha', hc']; simpa [setThr_other _ _ hu] using hq u hu
    · have hh : (K.S, 1) ∈ c.holds tt := by simp [Cfg.holds, hc]
      obtain ⟨hsk, hcase⟩ := other_flat K prog hen hh (hq t e)
      rw [hsk]; simp only [Bool.false_eq_true, if_false]
      rcases hcase with ⟨hcn, han⟩ | ⟨it, rc', ra', hth, hta, hno, hheld, hg, hS, htl⟩
      · rw [step_nil hcn, step_nil han]
        exact .ph1 tt i b0 rc ra hi he hst hb hlog hc ha htail hq
      · -- the concrete state is the abstract one with the protected part changed: roles swapped
        obtain ⟨s1, s2, fb⟩ := flat_step_set K hta hth hg hheld hS (K.pre i b0) hst
        obtain ⟨⟨d, _, cl, al⟩, qt, oth⟩ := pair_of_flatBoth K prog fb.swap hno htl
        refine .ph1 tt i b0 rc ra hi he s1 (by rw [s2, hb]) ?_ ?_ ?_ htail ?_
        · intro u; rw [al, cl, logOf_append, logOf_append, hlog u]
        · rw [(oth tt (fun x => e x.symm)).1]; exact hc
        · rw [(oth tt (fun x => e x.symm)).2]; exact ha
        · intro u hu
          by_cases e2 : u = t
          · subst e2; exact qt
          · rw [(oth u e2).1, (oth u e2).2]; exact hq u hu
  | ph2 tt i s1 rc hi hst hlog hc htail hq =>
    by_cases e : t = tt
    · -- step 3: `post` runs on the concrete side and the operation completes there
      subst e
      have hsk : K.skips c t = true := by rw [skips_eq K hc]; simp [hi]
      rw [hsk]; simp only [if_true]
      have hd : ((K.tail i s1).adv c.st).2.1.isDone = some (K.res i) := by simp [NestOps.tail, Prog.adv, Prog.isDone]
      have hc' := step_complete hc hd
      simp only [NestOps.tail, Prog.adv] at hc'
      refine .free ?_ ?_ ?_
      · rw [hc', hst]
      · intro u; rw [hc', logOf_snoc]; exact hlog u
      · intro u
        by_cases e2 : u = t
        · subst e2; rw [hc']; simpa [setThr_same] using htail
        · rw [hc']; simpa [setThr_other _ _ e2] using hq u e2
    · have hh : (K.S, 1) ∈ c.holds tt := by simp [Cfg.holds, hc]
      obtain ⟨hsk, hcase⟩ := other_flat K prog hen hh (hq t e)
      rw [hsk]; simp only [Bool.false_eq_true, if_false]
      rcases hcase with ⟨hcn, han⟩ | ⟨it, rc', ra', hth, hta, hno, hheld, hg, hS, htl⟩
      · rw [step_nil hcn, step_nil han]
        exact .ph2 tt i s1 rc hi hst hlog hc htail hq
      · obtain ⟨t1, t2, fb⟩ := flat_step_set K hth hta hg hheld hS (K.post i s1 (K.L.get c.st)) hst
        obtain ⟨⟨d, hd0, cl, al⟩, qt, oth⟩ := pair_of_flatBoth K prog fb hno htl
        refine .ph2 tt i s1 rc hi (by rw [t1, t2]) ?_ ?_ ?_ ?_
        · intro u; rw [al, cl, logOf_append, logOf_append, hlog u]
          simp only [List.append_assoc]
          by_cases e3 : tt = u
          · -- entries of `d` belong to thread `t ≠ tt`
            subst e3
            simp [hd0 tt (fun x => e x.symm)]
          · simp [e3]
        · rw [(oth tt (fun x => e x.symm)).1]; exact hc
        · rw [(oth tt (fun x => e x.symm)).2]; exact htail
        · intro u hu
          by_cases e2 : u = t
          · subst e2; exact qt
          · rw [(oth u e2).1, (oth u e2).2]; exact hq u hu

theorem nrel_exec (sched : List Nat) :
    ∀ c a : Cfg ι σ ρ, NRel K prog c a → respects c sched → NRel K prog (exec c sched) (exec a (K.reduce c sched)) := by
  induction sched with
  | nil => intro c a h _; exact h
  | cons t r ih =>
    intro c a h hs
    obtain ⟨h1, h2⟩ := hs
    have := nrel_step K prog c a t h h1
    rw [exec_cons]
    by_cases hp : K.skips c t = true
    · simp only [NestOps.reduce, hp, if_true] at this ⊢
      exact ih _ _ this h2
    · have hp' : K.skips c t = false := by simpa using hp
      simp only [NestOps.reduce, hp', Bool.false_eq_true, if_false] at this ⊢
      rw [exec_cons]
      exact ih _ _ this h2

theorem ntail_init (hK : K.describes prog) (l : List ι) (hgood : ∀ i, i ∈ l → K.is i = false → K.good (prog i)) :
    NTail K prog (l.map (fun i => ({ op := i, rem := prog i, pc := 0 } : Item ι σ ρ)))
      (l.map (fun i => ({ op := i, rem := K.fuse prog i, pc := 0 } : Item ι σ ρ))) := by
  induction l with
  | nil => trivial
  | cons i is ih =>
    refine ⟨?_, ih (fun j hj => hgood j (by simp [hj]))⟩
    by_cases hi : K.is i = true
    · exact Or.inr ⟨hi, hK i hi, rfl, rfl, rfl⟩
    · have hi' : K.is i = false := by simpa using hi
      refine Or.inl ⟨hi', ?_, rfl, hgood i (by simp) hi'⟩
      simp [NestOps.fuse, hi']

theorem nrel_init (hK : K.describes prog) (ops : Nat → List ι)
    (hgood : ∀ t i, i ∈ ops t → K.is i = false → K.good (prog i)) (s0 : σ) :
    NRel K prog (init prog ops s0) (init (K.fuse prog) ops s0) :=
  .free rfl (fun _ => rfl) (fun u => ntail_init K prog hK (ops u) (hgood u))

theorem run_nested (i : ι) (s : σ) : (K.nested i).run s = K.eff i s := by
  simp only [NestOps.nested, Prog.run, NestOps.eff]
  cases K.early i (K.L.get s) with
  | some r => simp [Prog.run]
  | none => simp [NestOps.inner, NestOps.tail, Prog.run]

/-- what the relation says when no thread is inside a nested section -/
theorem nrel_quiescent {c a : Cfg ι σ ρ} (h : NRel K prog c a) (hq : ∀ u, c.holds u = []) :
    c.st = a.st ∧ (∀ u, logOf c.log u = logOf a.log u) ∧ ∀ u, (c.thr u).map (·.op) = (a.thr u).map (·.op) := by
  cases h with
  | free hst hlog hqs => exact ⟨hst, fun u => (hlog u).symm, fun u => ntail_ops K prog _ _ (hqs u)⟩
  | ph1 t i b0 rc ra hi he hst hb hlog hc ha htail hqs =>
    have := hq t
    simp [Cfg.holds, hc] at this
  | ph2 t i s1 rc hi hst hlog hc htail hqs =>
    have := hq t
    simp [Cfg.holds, hc] at this

/-- … and at any moment: every thread has obtained, in the same order, a prefix of the results it
    obtains in the run of the fused operations (one result may be outstanding: its step 3) -/
theorem nrel_log_prefix {c a : Cfg ι σ ρ} (h : NRel K prog c a) (u : Nat) :
    ∃ d, logOf a.log u = logOf c.log u ++ d := by
  cases h with
  | free hst hlog hqs => exact ⟨[], by simp [hlog u]⟩
  | ph1 t i b0 rc ra hi he hst hb hlog hc ha htail hqs => exact ⟨[], by simp [hlog u]⟩
  | ph2 t i s1 rc hi hst hlog hc htail hqs => exact ⟨_, hlog u⟩

end nest

end MdkVerif.Locks
