import MdkVerif.Model.Store
/-
  MdkVerif.Model.StoreLimits — the VALIDATION the two storage backends perform before a write, layered over
  `Model.Store` (which keeps its own copies of the name / description / content / count checks, so every theorem
  about `Store.step` stays as it is).

  What a backend refuses is read from the source on every run (`tools/gen_model.py limit_facts`): per saving
  function the list of refusals `if <expr>.len() > <limit> { return Err(..) }` it performs before the write, as
  triples (quantity, limit, limit-itself-accepted) — `Generated.sqlSave*Checks`, `Generated.memSave*Checks`,
  `Generated.*ReplaceRelaysChecks`.  Quantities:

    0 content bytes            1 serialized tags JSON bytes      2 serialized event JSON bytes
    3 name bytes               4 description bytes               5 serialized admin-pubkeys JSON bytes
    6 serialized relays JSON bytes   7 number of admins          8 number of relays     9 bytes of the longest relay URL

  SQLite measures the JSON text it is about to store (`serde_json::to_string(..).len()`, `event.as_json().len()`).
  Those byte counts are NOT re-implemented here: the op carries them (`Sizes`), the harness measures them on the real
  values with the same serialisation calls (`vh store`, op `measure`).  Lengths and counts the harness constructs by
  number (name, description, content, admins, relays, URL bytes) are fields of the model values already.

  A refused call answers `err` and leaves the store as it was (`stepL`).
-/
namespace MdkVerif.StoreLimits
open MdkVerif MdkVerif.Store

/-- serialized sizes of the values of one op, measured by the harness (0 where the op has no such value) -/
structure Sizes where
  tagsJson : Nat
  eventJson : Nat
  adminsJson : Nat
  relaysJson : Nat
  deriving DecidableEq, Repr, Inhabited

def Sizes.zero : Sizes := { tagsJson := 0, eventJson := 0, adminsJson := 0, relaysJson := 0 }

/-- bytes of the longest URL of a relay list (the memory backend loops over the set) -/
def maxUrl : List Nat → Nat
  | [] => 0
  | r :: t => Nat.max (relayLen r) (maxUrl t)

/-- the number a backend compares against a limit -/
def quantity (op : Op) (z : Sizes) (q : Nat) : Nat :=
  match op with
  | .saveGroup g =>
    if q == 3 then g.nameLen else if q == 4 then g.descLen else if q == 5 then z.adminsJson
    else if q == 7 then g.admins else 0
  | .saveMessage m =>
    if q == 0 then m.contentLen else if q == 1 then z.tagsJson else if q == 2 then z.eventJson else 0
  | .saveWelcome w =>
    if q == 2 then z.eventJson else if q == 3 then w.nameLen else if q == 4 then w.descLen
    else if q == 5 then z.adminsJson else if q == 6 then z.relaysJson else if q == 7 then w.admins
    else if q == 8 then w.relays else if q == 9 then (if w.relays > 0 then w.relayLen else 0) else 0
  | .replaceRelays _ rs =>
    if q == 8 then (sortBy natLt rs.eraseDups).length else if q == 9 then maxUrl rs else 0
  | _ => 0

/-- the refusals a backend performs for an op (regenerated tables) -/
def checksOf (b : Backend) (op : Op) : List (Nat × Nat × Bool) :=
  match b, op with
  | .sql, .saveGroup _ => Generated.sqlSaveGroupChecks
  | .sql, .saveMessage _ => Generated.sqlSaveMessageChecks
  | .sql, .saveWelcome _ => Generated.sqlSaveWelcomeChecks
  | .sql, .replaceRelays _ _ => Generated.sqlReplaceRelaysChecks
  | .mem, .saveGroup _ => Generated.memSaveGroupChecks
  | .mem, .saveMessage _ => Generated.memSaveMessageChecks
  | .mem, .saveWelcome _ => Generated.memSaveWelcomeChecks
  | .mem, .replaceRelays _ _ => Generated.memReplaceRelaysChecks
  | _, _ => []

/-- `n` passes the check `(q, limit, inclusive)`: `!(n > limit)`, or `!(n >= limit)` had the code that operator -/
def passes (n : Nat) (c : Nat × Nat × Bool) : Bool :=
  if c.2.2 then decide (n ≤ c.2.1) else decide (n < c.2.1)

/-- does the backend's validation let the call through? -/
def validate (b : Backend) (op : Op) (z : Sizes) : Bool :=
  (checksOf b op).all (fun c => passes (quantity op z c.1) c)

/-- the limit-aware step: the backend's validation first, then the store's own step -/
def stepL (s : Store) (op : Op) (z : Sizes) : Store × String :=
  if validate s.backend op z then step s op else (s, "err")

def runL (s : Store) (ops : List (Op × Sizes)) : Store := ops.foldl (fun s o => (stepL s o.1 o.2).1) s

end MdkVerif.StoreLimits
