/-
  Model.OpenMatrix — decision logic of the three public constructors of `MdkSqliteStorage`
  (crates/mdk-sqlite-storage/src/lib.rs `new`, `new_with_key`, `new_unencrypted`, `new_internal*`,
  `open_connection`, `apply_secure_permissions`; encryption.rs `apply_encryption`,
  `is_database_encrypted`; keyring.rs `get_db_key`, `get_or_create_db_key`, `delete_db_key`;
  permissions.rs `precreate_secure_database_file`), transcribed branch by branch, over

      file state  × keyring state × constructor  ↦  outcome, new file state, new keyring state, modes.

  What SQLCipher does with a (file, key) pair is NOT derived here; it is the table `sqlOpen`, an
  assumption that the harness exercises on every run (cell-by-cell correspondence).
  Core Lean only; executable; closed terms reduce in the kernel.
-/
namespace MdkVerif.OpenMatrix

abbrev Key := Nat

/-- what is at the database path.  `d` is a marker for the data inside (0 = a freshly created database) -/
inductive FileSt where
  | missing
  | empty                       -- 0 bytes
  | small                       -- 1..15 bytes: shorter than the SQLite header
  | plain (d : Nat)             -- starts with "SQLite format 3\0"
  | enc (k : Key) (d : Nat)     -- SQLCipher database under key k
  | garbage                     -- ≥ 16 bytes, neither of the above
  | special                     -- the path is ":memory:" / starts with ':' / is empty
  deriving DecidableEq, Repr

/-- the keyring as seen through keyring-core for this (service, id) -/
inductive RingSt where
  | none                        -- store present, no entry (get_secret → NoEntry)
  | key (k : Key)               -- a 32-byte entry
  | bad                         -- an entry whose length is not 32
  | noaccess                    -- every credential call → Error::NoStorageAccess
  | platfail                    -- every credential call → Error::PlatformFailure
  | nostore                     -- no default store set: Entry::new → Error::NoDefaultStore
  | rdfail (k : Key) (notInit : Bool)
      -- a 32-byte entry k is stored but the store cannot hand it out: get_secret fails (BadDataFormat / BadEncoding /
      -- Ambiguous / PlatformFailure → Error::Keyring; NoStorageAccess → KeyringNotInitialized when `notInit`), while
      -- set_secret and delete_credential still succeed (a locked or corrupted entry; writing replaces it)
  deriving DecidableEq, Repr

inductive Ctor where
  | new                         -- MdkSqliteStorage::new(path, service, id)
  | withKey (k : Key)           -- MdkSqliteStorage::new_with_key(path, EncryptionConfig(k))
  | unenc                       -- MdkSqliteStorage::new_unencrypted(path)
  deriving DecidableEq, Repr

/-- error KINDS (variants of mdk_sqlite_storage::error::Error; Rusqlite and Refinery are one kind) -/
inductive ErrKind where
  | unencryptedWithEncryption   -- UnencryptedDatabaseWithEncryption
  | wrongKey                    -- WrongEncryptionKey
  | keyringEntryMissing         -- KeyringEntryMissingForExistingDatabase
  | keyringNotInitialized       -- KeyringNotInitialized
  | keyring                     -- Keyring(..)
  | sqlite                      -- Rusqlite(..) / Refinery(..)
  deriving DecidableEq, Repr

inductive Outcome where
  | opened (key : Option Key) (data : Nat)
  | err (e : ErrKind)
  deriving DecidableEq, Repr

def Outcome.isOpened : Outcome → Bool
  | .opened _ _ => true
  | .err _ => false

structure World where
  file : FileSt
  ring : RingSt
  fmode : Nat          -- mode bits of the database file (meaningless while missing / special)
  dir : Option Nat     -- mode bits of the parent directory; `none`: it does not exist
  stores : Nat         -- successful `set_secret` calls so far
  deriving DecidableEq, Repr

def mode600 : Nat := 384
def mode700 : Nat := 448
def mode644 : Nat := 420
def mode755 : Nat := 493

/-! ### permissions.rs -/

inductive Pre where
  | created | existed | skipped
  deriving DecidableEq, Repr

/-- `precreate_secure_database_file`: special paths are skipped; a missing parent is created 0700
    (an existing one is left as it is); `create_new` creates the file 0600 or reports AlreadyExists -/
def precreate (w : World) : World × Pre :=
  match w.file with
  | .special => (w, .skipped)
  | f =>
    let w1 : World := match w.dir with
      | none => { w with dir := some mode700 }
      | some _ => w
    match f with
    | .missing => ({ w1 with file := .empty, fmode := mode600 }, .created)
    | _ => (w1, .existed)

/-! ### keyring.rs (sequential reading; the interleavings are `Model.Keyring`) -/

/-- `get_db_key` -/
def getDbKey : RingSt → Except ErrKind (Option Key)
  | .nostore => .error .keyring                 -- Entry::new fails → Error::Keyring
  | .none => .ok none                           -- KeyringError::NoEntry
  | .key k => .ok (some k)
  | .bad => .error .keyring                     -- from_slice fails → Error::Keyring("…invalid length…")
  | .noaccess => .error .keyringNotInitialized  -- KeyringError::NoStorageAccess
  | .platfail => .error .keyring
  | .rdfail _ ni => .error (if ni then .keyringNotInitialized else .keyring)   -- every read error is an error, never "no key"

/-- `get_or_create_db_key`; `fresh` is what `EncryptionConfig::generate()` returns -/
def getOrCreate (w : World) (fresh : Key) : World × Except ErrKind Key :=
  match getDbKey w.ring with                    -- fast path
  | .error e => (w, .error e)
  | .ok (some k) => (w, .ok k)
  | .ok none =>
    match getDbKey w.ring with                  -- re-read under KEY_GENERATION_LOCK
    | .error e => (w, .error e)
    | .ok (some k) => (w, .ok k)
    | .ok none =>                               -- generate, Entry::new, set_secret
      ({ w with ring := .key fresh, stores := w.stores + 1 }, .ok fresh)

/-- `delete_db_key` -/
def deleteDbKey (w : World) : World × Except ErrKind Unit :=
  match w.ring with
  | .nostore => (w, .error .keyring)
  | .none => (w, .ok ())
  | .key _ => ({ w with ring := .none }, .ok ())
  | .bad => ({ w with ring := .none }, .ok ())
  | .noaccess => (w, .error .keyringNotInitialized)
  | .platfail => (w, .error .keyring)
  | .rdfail _ _ => ({ w with ring := .none }, .ok ())

/-! ### encryption.rs -/

/-- `is_database_encrypted`: false when the path does not exist or the file is shorter than 16 bytes;
    otherwise "the first 16 bytes are not the SQLite header" -/
def isEncrypted : FileSt → Bool
  | .missing => false
  | .empty => false
  | .small => false
  | .plain _ => false
  | .enc _ _ => true
  | .garbage => true
  | .special => false

/-- `Path::exists` -/
def fileExists : FileSt → Bool
  | .missing => false
  | .special => false
  | _ => true

/-- ASSUMPTION (SQLCipher / SQLite, exercised by the harness, not proved): the result of
    `Connection::open` + (`apply_encryption` when a key is given: PRAGMA key, cipher_compatibility,
    temp_store, validation read) + `PRAGMA foreign_keys` + migrations.
    With a key: a missing/empty file becomes a database under that key; an encrypted file opens iff the
    key is its key, everything else fails the validation read (`NotADatabase` → WrongEncryptionKey).
    Without a key: a missing/empty file becomes a plain database, a plain one opens, everything else
    fails in SQLite. -/
def sqlOpen (f : FileSt) (key : Option Key) : Except ErrKind (FileSt × Nat) :=
  match key, f with
  | some k, .missing => .ok (.enc k 0, 0)
  | some k, .empty => .ok (.enc k 0, 0)
  | some _, .special => .ok (.special, 0)
  | some k, .enc k' d => if k = k' then .ok (.enc k' d, d) else .error .wrongKey
  | some _, .small => .error .wrongKey
  | some _, .plain _ => .error .wrongKey
  | some _, .garbage => .error .wrongKey
  | none, .missing => .ok (.plain 0, 0)
  | none, .empty => .ok (.plain 0, 0)
  | none, .special => .ok (.special, 0)
  | none, .plain d => .ok (.plain d, d)
  | none, .small => .error .sqlite
  | none, .enc _ _ => .error .sqlite
  | none, .garbage => .error .sqlite

/-! ### lib.rs -/

/-- `new_internal_skip_precreate`: open_connection, migrations, apply_secure_permissions (chmod 0600
    of the main file; skipped for special paths) -/
def finishOpen (w : World) (key : Option Key) : World × Outcome :=
  match sqlOpen w.file key with
  | .error e => (w, .err e)
  | .ok (f, d) =>
    match f with
    | .special => ({ w with file := f }, .opened key d)
    | _ => ({ w with file := f, fmode := mode600 }, .opened key d)

/-- `MdkSqliteStorage::new` -/
def ctorNew (w : World) (fresh : Key) : World × Outcome :=
  match precreate w with
  | (w1, .existed) =>
    -- the keyring is consulted FIRST; the existing-file branch never generates a key
    match getDbKey w1.ring with
    | .error e => (w1, .err e)
    | .ok (some k) => finishOpen w1 (some k)
    | .ok none =>
      if !isEncrypted w1.file then (w1, .err .unencryptedWithEncryption)
      else (w1, .err .keyringEntryMissing)
  | (w1, _) =>                                  -- Created | Skipped
    match getOrCreate w1 fresh with
    | (w2, .error e) => (w2, .err e)
    | (w2, .ok k) => finishOpen w2 (some k)

/-- `MdkSqliteStorage::new_with_key` -/
def ctorWithKey (w : World) (k : Key) : World × Outcome :=
  if fileExists w.file && !isEncrypted w.file then (w, .err .unencryptedWithEncryption)
  else finishOpen (precreate w).1 (some k)

/-- `MdkSqliteStorage::new_unencrypted` -/
def ctorUnenc (w : World) : World × Outcome :=
  finishOpen (precreate w).1 none

def openDb (w : World) (c : Ctor) (fresh : Key) : World × Outcome :=
  match c with
  | .new => ctorNew w fresh
  | .withKey k => ctorWithKey w k
  | .unenc => ctorUnenc w

/-- does constructor `c`, in keyring state `r`, present key `k`? -/
def presents (c : Ctor) (r : RingSt) (k : Key) : Bool :=
  match c with
  | .withKey k' => k' = k
  | .new => r = .key k
  | .unenc => false

/-! ### the harness' set-up ops (not mdk code): how the test world is prepared -/

def World.fresh (dir : Option Nat) : World :=
  { file := .missing, ring := .none, fmode := 0, dir := dir, stores := 0 }

/-- `file <st>`: the harness (re)creates the file in the given state with mode 0644, creating the
    directory 0755 when it does not exist -/
def setFile (w : World) (f : FileSt) : World :=
  match f with
  | .missing => { w with file := f }
  | .special => { w with file := f }
  | _ => { w with file := f, fmode := mode644, dir := some (w.dir.getD mode755) }

def setRing (w : World) (r : RingSt) : World := { w with ring := r }

/-- a history of constructor calls (with the key `generate()` would return at each) -/
def runOpens (w : World) : List (Ctor × Key) → World
  | [] => w
  | (c, f) :: rest => runOpens (openDb w c f).1 rest

end MdkVerif.OpenMatrix
