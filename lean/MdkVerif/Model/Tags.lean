import MdkVerif.Generated
import MdkVerif.Model.Codec
/-
  MdkVerif.Model.Tags — Nostr tag grammars of mdk-core (property C15), executable.

  * tag names are constructors of `TagName` (never string keys); tag values are UTF-8 byte lists;
  * `kpTagsOk` = `validate_key_package_tags(event, None)`, `parseKp` = `MDK::parse_key_package`
    (crates/mdk-core/src/key_packages.rs) with OpenMLS's own (de)serialisation and validation of the
    key package summarised by `KpEvent.content` (assumption A9: an opaque bijection);
  * `validateWelcome` = `validate_welcome_event` (crates/mdk-core/src/welcomes.rs);
  * `imetaCreate` / `imetaParse` = `create_imeta_tag` / `parse_imeta_tag`
    (crates/mdk-core/src/encrypted_media/manager.rs) with `validate_mime_type`, `validate_filename`;
  * `extractGid` = `extract_nostr_group_id` (crates/mdk-core/src/messages/validation.rs).

  Constants come from `Generated` (re-extracted from the source on every run).
  ASCII only where Rust uses Unicode-aware functions (`to_lowercase`, `trim`): on the strings that
  pass the neighbouring ASCII checks (hex digits, the literal `base64`) they coincide; for MIME
  strings the generator stays in ASCII and says so.
-/
namespace MdkVerif.Tags
open MdkVerif.Codec

inductive TagName where
  | protoVer      -- "mls_protocol_version"
  | ciphersuite   -- "mls_ciphersuite"
  | extensions    -- "mls_extensions"
  | relays        -- "relays"
  | i             -- "i"
  | e             -- "e"
  | h             -- "h"
  | client        -- "client"
  | encoding      -- "encoding"
  | imeta         -- "imeta"
  | protected_    -- "-"
  | other (n : Nat)   -- any other name (incl. case variants such as "I", "Relays", "Encoding")
  deriving DecidableEq, Repr

structure Tag where
  name : TagName
  vals : List Bytes
  deriving DecidableEq, Repr

/-- `event.tags.iter().find(pred)`: the FIRST tag of that kind -/
def firstTag (n : TagName) : List Tag → Option Tag
  | [] => none
  | t :: ts => if t.name = n then some t else firstTag n ts

/-- `tag.content()` / `values.get(1)` -/
def Tag.content (t : Tag) : Option Bytes := t.vals.head?

/-! ## ASCII helpers -/

def lowerAscii (c : Nat) : Nat := if 65 ≤ c ∧ c ≤ 90 then c + 32 else c
def lower (s : Bytes) : Bytes := s.map lowerAscii
def isHexDigit (c : Nat) : Bool :=
  decide ((48 ≤ c ∧ c ≤ 57) ∨ (97 ≤ c ∧ c ≤ 102) ∨ (65 ≤ c ∧ c ≤ 70))

/-- `len() == 6`, `strip_prefix("0x")`, four ASCII hex digits -/
def isHexU16 (v : Bytes) : Bool :=
  match v with
  | [a, b, c, d, e, f] => a == 48 && b == 120 && isHexDigit c && isHexDigit d && isHexDigit e && isHexDigit f
  | _ => false

/-! ## key-package events -/

def pvOk (t : Tag) : Bool := t.content == some Generated.kpProtocolVersion

def csOk (t : Tag) : Bool :=
  match t.content with
  | none => false
  | some v => isHexU16 v && lower v == lower Generated.kpCiphersuiteTag

def extOk (t : Tag) : Bool :=
  !t.vals.isEmpty && t.vals.all isHexU16 &&
    Generated.kpRequiredExtensionTags.all (fun r => (t.vals.map lower).contains r)

def relaysOk (env : Env) (t : Tag) : Bool :=
  !t.vals.isEmpty && t.vals.all (fun v => (env.relayParse v).isSome)

def iOk (t : Tag) : Bool :=
  match t.vals with
  | [v] => !v.isEmpty && (hexDec v).isSome
  | _ => false

/-- `validate_key_package_tags(event, None)` (every failure is `Error::KeyPackage(_)`) -/
def kpTagsOk (env : Env) (tags : List Tag) : Bool :=
  match firstTag .protoVer tags, firstTag .ciphersuite tags, firstTag .extensions tags,
        firstTag .relays tags, firstTag .i tags with
  | some pv, some cs, some ext, some rl, some it =>
    pvOk pv && csOk cs && extOk ext && relaysOk env rl && iOk it
  | _, _, _, _, _ => false

/-- `ContentEncoding::from_tags`: some `["encoding", v, ..]` tag with `v.to_lowercase() == "base64"` -/
def hasBase64Encoding (tags : List Tag) : Bool :=
  tags.any (fun t => t.name == .encoding &&
    (match t.content with
     | some v => lower v == Generated.encodingTagValue
     | none => false))

/-- what OpenMLS says about the event content (opaque to the model) -/
inductive Content where
  | ok          -- base64 of exactly one serialised, valid structure (key package / MLS welcome message)
  | trailing    -- base64 of a valid structure FOLLOWED by further bytes
  | notBase64   -- `decode_content` fails
  | badMls      -- base64 fine, TLS deserialisation / validation of the structure fails
  deriving DecidableEq, Repr

/-- `parse_serialized_key_package`: with `KeyPackageIn::tls_deserialize_exact` (fact
    `Generated.kpDeserializeExact`) a remainder is a TLS error; with the reader-based
    `tls_deserialize(&mut slice)` the remainder was never looked at -/
def kpContent (c : Content) : Content :=
  match c with
  | .trailing => if Generated.kpDeserializeExact then .badMls else .ok
  | c => c

structure KpEvent where
  kind : Nat
  tags : List Tag
  content : Content
  /-- `event.pubkey` -/
  author : Bytes
  /-- `BasicCredential.identity` of the leaf node in the content -/
  credIdentity : Bytes
  /-- `key_package.hash_ref()` of the content -/
  kpRef : Bytes
  deriving Repr

/-- result KINDS of `parse_key_package` -/
inductive KpRes where
  | ok
  | errKind        -- Error::UnexpectedEvent
  | errKp          -- Error::KeyPackage(_)
  | errIdentity    -- Error::KeyPackageIdentityMismatch
  | errOther       -- Tls / KeyPackageVerify / BasicCredential errors of OpenMLS
  deriving DecidableEq, Repr

/-- the bytes of the first `i` tag's value -/
def iTagBytes (tags : List Tag) : Option Bytes :=
  match firstTag .i tags with
  | none => none
  | some t =>
    match t.content with
    | none => none
    | some v => hexDec v

/-- `MDK::parse_key_package` -/
def parseKp (env : Env) (ev : KpEvent) : KpRes :=
  if ev.kind ≠ Generated.kindMlsKeyPackage then .errKind
  else if kpTagsOk env ev.tags = false then .errKp
  else if hasBase64Encoding ev.tags = false then .errKp
  else
    match kpContent ev.content with
    | .notBase64 => .errKp
    | .badMls => .errOther
    | .trailing => .errOther          -- unreachable: `kpContent` never returns it
    | .ok =>
      if ev.credIdentity.length ≠ 32 then .errKp
      else if ev.credIdentity ≠ ev.author then .errIdentity
      else
        match iTagBytes ev.tags with
        | none => .errKp
        | some b => if b = ev.kpRef then .ok else .errKp

/-- the tags written by `create_key_package_for_event_with_options` -/
def kpCreate (relays : List Bytes) (protected_ : Bool) (ref : Bytes) : List Tag :=
  [ { name := .protoVer, vals := [Generated.kpProtocolVersion] },
    { name := .ciphersuite, vals := [Generated.kpCiphersuiteTag] },
    { name := .extensions, vals := Generated.kpCreatedExtensionTags },
    { name := .relays, vals := relays },
    { name := .i, vals := [hexEnc ref] } ] ++
  (if protected_ then [{ name := .protected_, vals := [] }] else []) ++
  [ { name := .client, vals := [Generated.clientTagValue] },
    { name := .encoding, vals := [Generated.encodingTagValue] } ]

/-! ## welcome rumors -/

structure Rumor where
  kind : Nat
  tags : List Tag
  deriving Repr

/-- the tag makes `validate_welcome_event` return `InvalidWelcomeMessage` on the spot -/
def wTagBad (env : Env) (t : Tag) : Bool :=
  match t.name with
  | .relays => !t.vals.isEmpty && !(t.vals.all (fun v => (env.relayParse v).isSome))
  | .client => (match t.content with | some v => v.isEmpty | none => true)
  | .encoding => !(t.content == some Generated.encodingTagValue)
  | _ => false

def wSetsRelays (t : Tag) : Bool := t.name == .relays && !t.vals.isEmpty
def wSetsE (t : Tag) : Bool :=
  t.name == .e && (match t.content with | some v => !v.isEmpty | none => false)
def wSetsEnc (t : Tag) : Bool := t.name == .encoding

/-- the tag loop: `none` = early `return Err(InvalidWelcomeMessage)` -/
def wScan (env : Env) : List Tag → Bool × Bool × Bool → Option (Bool × Bool × Bool)
  | [], st => some st
  | t :: ts, (r, e, c) =>
    if wTagBad env t then none
    else wScan env ts (r || wSetsRelays t, e || wSetsE t, c || wSetsEnc t)

/-- `validate_welcome_event` (true = `Ok(())`, false = `Err(InvalidWelcomeMessage)`) -/
def validateWelcome (env : Env) (r : Rumor) : Bool :=
  if r.kind ≠ Generated.kindMlsWelcome then false
  else if r.tags.length < Generated.welcomeMinTags then false
  else
    match wScan env r.tags (false, false, false) with
    | none => false
    | some (hasRelays, hasE, hasEnc) => hasRelays && hasE && hasEnc

/-- the tags written by `build_welcome_rumors_for_key_packages` -/
def welcomeCreate (relays : List Bytes) (eventIdHex : Bytes) : List Tag :=
  [ { name := .relays, vals := relays },
    { name := .e, vals := [eventIdHex] },
    { name := .client, vals := [Generated.clientTagValue] },
    { name := .encoding, vals := [Generated.encodingTagValue] } ]

/-- `create_group` / `add_members` with member key packages: `none` = `Err(Error::Group(_))`, nothing
    is produced.  With the repair "inviting members requires at least one relay" (fact
    `Generated.inviteRequiresRelay`) an empty relay list is refused at creation. -/
def inviteTags (relays : List Bytes) (eventIdHex : Bytes) : Option (List Tag) :=
  if Generated.inviteRequiresRelay && relays.isEmpty then none else some (welcomeCreate relays eventIdHex)

/-- result KINDS of `process_welcome` on a fresh wrapper id -/
inductive WRes where
  | ok
  | invalid       -- Error::InvalidWelcomeMessage (from `validate_welcome_event`)
  | errWelcome    -- Error::Welcome(_) (`preview_welcome`: encoding tag / base64 / MLS failure, recorded as Failed)
  deriving DecidableEq, Repr

structure WelcomeEvent where
  rumor : Rumor
  content : Content
  deriving Repr

/-- `process_welcome` → `validate_welcome_event`, then `preview_welcome` (`parse_serialized_welcome`
    refuses a non-empty remainder after the MLS message: fact `Generated.welcomeRejectsTrailing`) -/
def processWelcome (env : Env) (ev : WelcomeEvent) : WRes :=
  if validateWelcome env ev.rumor = false then .invalid
  else if hasBase64Encoding ev.rumor.tags = false then .errWelcome
  else
    match ev.content with
    | .ok => .ok
    | .trailing => if Generated.welcomeRejectsTrailing then .errWelcome else .ok
    | .notBase64 => .errWelcome
    | .badMls => .errWelcome

/-! ## `h` tag -/

inductive GidErr where
  | missing | multiple | format
  deriving DecidableEq, Repr

/-- `extract_nostr_group_id` -/
def extractGid (tags : List Tag) : Except GidErr Bytes :=
  match tags.filter (fun t => t.name == .h) with
  | [] => .error .missing
  | [t] =>
    match t.content with
    | none => .error .format
    | some v =>
      if v.length ≠ 64 then .error .format
      else
        match hexDec v with
        | none => .error .format
        | some b => if b.length = 32 then .ok b else .error .format
  | _ => .error .multiple

/-! ## imeta -/

def kUrl : Bytes := [117, 114, 108]
def kM : Bytes := [109]
def kX : Bytes := [120]
def kN : Bytes := [110]
def kV : Bytes := [118]
def kDim : Bytes := [100, 105, 109]
def kFilename : Bytes := [102, 105, 108, 101, 110, 97, 109, 101]
def kBlurhash : Bytes := [98, 108, 117, 114, 104, 97, 115, 104]

/-- `item.splitn(2, ' ')` with exactly two parts -/
def splitKV : Bytes → Option (Bytes × Bytes)
  | [] => none
  | c :: r =>
    if c = 32 then some ([], r)
    else
      match splitKV r with
      | none => none
      | some (k, v) => some (c :: k, v)

def kv (k v : Bytes) : Bytes := k ++ 32 :: v

def isAsciiSpace (c : Nat) : Bool := c == 32 || (decide (9 ≤ c ∧ c ≤ 13))
def trimLeft (s : Bytes) : Bytes := s.dropWhile isAsciiSpace
def trim (s : Bytes) : Bytes := (trimLeft (trimLeft s).reverse).reverse

/-- `validate_mime_type`: `some canonical` or `none` (= `InvalidMimeType`) -/
def validateMime (m : Bytes) : Option Bytes :=
  let normalized := lower (trim m)          -- to_ascii_lowercase
  let canonical := trim (normalized.takeWhile (fun c => c != 59))
  if !(canonical.contains 47) || decide (canonical.length > Generated.maxMimeLength) then none
  else if canonical == Generated.escapeHatchMimeType then some canonical
  else if Generated.supportedMimeTypes.contains canonical then some canonical
  else none

/-- some `char::is_control` character (C0, DEL, C1 = `C2 80..9F` in UTF-8) -/
def hasControl : Bytes → Bool
  | [] => false
  | [c] => decide (c < 32) || c == 127
  | c :: d :: r =>
    decide (c < 32) || c == 127 || (c == 194 && decide (128 ≤ d ∧ d ≤ 159)) || hasControl (d :: r)

/-- `validate_filename` -/
def filenameOk (f : Bytes) : Bool :=
  !f.isEmpty && decide (f.length ≤ Generated.maxFilenameLength) && !f.contains 47 && !f.contains 92 &&
    !hasControl f

/-- decimal digits, least significant first; `fuel` bounds the recursion (`n + 1` always suffices) -/
def digitsRev : Nat → Nat → Bytes
  | 0, _ => []
  | fuel + 1, n => if n < 10 then [48 + n] else (48 + n % 10) :: digitsRev fuel (n / 10)

/-- `format!("{}", n)` -/
def showNat (n : Nat) : Bytes := (digitsRev (n + 1) n).reverse

def readDigits : Bytes → Nat → Option Nat
  | [], acc => some acc
  | c :: r, acc => if 48 ≤ c ∧ c ≤ 57 then readDigits r (acc * 10 + (c - 48)) else none

/-- `str::parse::<u32>()`: optional `+`, at least one digit, no overflow -/
def stripPlus : Bytes → Bytes
  | 43 :: r => r
  | r => r

def readU32 (s : Bytes) : Option Nat :=
  let digits := stripPlus s
  if digits.isEmpty then none
  else
    match readDigits digits 0 with
    | some n => if n < 4294967296 then some n else none
    | none => none

/-- split at every `x` -/
def splitX : Bytes → List Bytes
  | [] => [[]]
  | c :: r =>
    match splitX r with
    | [] => [[]]          -- unreachable
    | p :: ps => if c = 120 then [] :: p :: ps else (c :: p) :: ps

def parseDim (v : Bytes) : Option (Nat × Nat) :=
  match splitX v with
  | [a, b] =>
    match readU32 a, readU32 b with
    | some w, some h => some (w, h)
    | _, _ => none
  | _ => none

structure Upload where
  mime : Bytes
  filename : Bytes
  dims : Option (Nat × Nat)
  blurhash : Option Bytes
  hash : Bytes
  nonce : Bytes
  deriving Repr

structure MediaRef where
  url : Bytes
  hash : Bytes
  mime : Bytes
  filename : Bytes
  dims : Option (Nat × Nat)
  version : Bytes
  nonce : Bytes
  deriving DecidableEq, Repr

/-- `create_imeta_tag` -/
def imetaCreate (u : Upload) (url : Bytes) : Tag :=
  { name := .imeta,
    vals := [kv kUrl url, kv kM u.mime, kv kFilename u.filename] ++
      (match u.dims with
       | some (w, h) => [kv kDim (showNat w ++ 120 :: showNat h)]
       | none => []) ++
      (match u.blurhash with
       | some b => [kv kBlurhash b]
       | none => []) ++
      [kv kX (hexEnc u.hash), kv kN (hexEnc u.nonce), kv kV Generated.defaultSchemeVersion] }

/-- `create_media_reference` -/
def mediaRefOf (u : Upload) (url : Bytes) : MediaRef :=
  { url := url, hash := u.hash, mime := u.mime, filename := u.filename, dims := u.dims,
    version := Generated.defaultSchemeVersion, nonce := u.nonce }

inductive ImetaErr where
  | invalid     -- EncryptedMediaError::InvalidImetaTag
  | version     -- EncryptedMediaError::DecryptionFailed (unsupported scheme version)
  deriving DecidableEq, Repr

structure ImetaAcc where
  url : Option Bytes := none
  mime : Option Bytes := none
  filename : Option Bytes := none
  hash : Option Bytes := none
  nonce : Option Bytes := none
  dims : Option (Nat × Nat) := none
  version : Option Bytes := none
  deriving Repr

/-- one key/value item of the tag: `none` = immediate `InvalidImetaTag` -/
def imetaItem (acc : ImetaAcc) (item : Bytes) : Option ImetaAcc :=
  match splitKV item with
  | none => some acc
  | some (k, v) =>
    if k = kUrl then some { acc with url := some v }
    else if k = kM then
      match validateMime v with
      | some c => some { acc with mime := some c }
      | none => none
    else if k = kX then
      match hexDec v with
      | some b => if b.length = 32 then some { acc with hash := some b } else none
      | none => none
    else if k = kN then
      match hexDec v with
      | some b => if b.length = 12 then some { acc with nonce := some b } else none
      | none => none
    else if k = kDim then
      match parseDim v with
      | some d => some { acc with dims := some d }
      | none => some acc
    else if k = kFilename then
      if filenameOk v then some { acc with filename := some v } else none
    else if k = kV then some { acc with version := some v }
    else some acc

def imetaLoop : List Bytes → ImetaAcc → Option ImetaAcc
  | [], acc => some acc
  | it :: r, acc =>
    match imetaItem acc it with
    | none => none
    | some acc' => imetaLoop r acc'

/-- `parse_imeta_tag` -/
def imetaParse (t : Tag) : Except ImetaErr MediaRef :=
  if t.name ≠ .imeta then .error .invalid
  else if t.vals.length + 1 < 7 then .error .invalid
  else
    match imetaLoop t.vals {} with
    | none => .error .invalid
    | some acc =>
      match acc.url, acc.mime, acc.hash, acc.filename, acc.version with
      | some url, some mime, some hash, some filename, some version =>
        if !(Generated.supportedSchemeVersions.contains version) then .error .version
        else
          match acc.nonce with
          | none => .error .invalid
          | some nonce =>
            .ok { url := url, hash := hash, mime := mime, filename := filename, dims := acc.dims,
                  version := version, nonce := nonce }
      | _, _, _, _, _ => .error .invalid

end MdkVerif.Tags
