/-
  MdkVerif.Model.Codec — wire formats of mdk-core (property C15), executable and import-free.

  * bytes are `List Nat` with a separate well-formedness predicate (`isBytes`: every element < 256),
    so header arithmetic is `/`, `%` and `omega`;
  * `encLen`/`decLen`: the QUIC-style variable-length integer of `tls_codec 0.4.2` with the `mls`
    feature (`quic_vec.rs`: `write_variable_length`, `read_variable_length_bytes`, `calculate_length`,
    `check_min_length`): 1/2/4-byte forms, the 8-byte form refused, minimal-length check;
  * `decVec`: the generic `impl DeserializeBytes for Vec<T>` — a length prefix followed by the element
    loop `while read - len_len < length { T::tls_deserialize_bytes … }` (it stops as soon as the bytes
    consumed reach the announced length and does NOT check that they are equal to it);
  * `Raw` / `decRaw` / `encRaw`: the layout of `TlsNostrGroupDataExtension`
    (crates/mdk-core/src/extension/types.rs): version u16, nostr_group_id [u8;32], name Vec<u8>,
    description Vec<u8>, admin_pubkeys Vec<[u8;32]>, relays Vec<Vec<u8>>, image_hash, image_key,
    image_nonce, image_upload_key Vec<u8>;
  * `decode` = `NostrGroupDataExtension::deserialize_bytes` (trailing-byte check + `from_raw`),
    `encode` = `as_raw().tls_serialize_detached()`.

  What is abstract: UTF-8 validity and `RelayUrl::parse` are the two fields of `Env`; the theorems in
  Props/C15 hold for EVERY `Env`.  The driver instantiates `Env` with `stdEnv` (an exact UTF-8
  validator and a relay-URL parser for the plain `ws(s)://host[:port][/path]` family the generator
  stays inside; the rest of `url::Url::parse` is assumption A9 of DESIGN §5.3).
-/
namespace MdkVerif.Codec

abbrev Bytes := List Nat

/-- every element is a byte -/
def isBytes (b : Bytes) : Bool := b.all (fun x => decide (x < 256))

/-! ## variable-length integers (tls_codec `quic_vec.rs`, feature `mls`) -/

/-- `write_variable_length`: `none` = `Error::InvalidVectorLength` (more than 30 bits) -/
def encLen (n : Nat) : Option Bytes :=
  if n < 64 then some [n]
  else if n < 16384 then some [64 + n / 256, n % 256]
  else if n < 1073741824 then some [128 + n / 16777216, (n / 65536) % 256, (n / 256) % 256, n % 256]
  else none

/-- `length_encoding_bytes` for values that fit 30 bits -/
def minLenLen (n : Nat) : Nat := if n < 64 then 1 else if n < 16384 then 2 else 4

/-- `read_variable_length_bytes`: the value, the number of prefix bytes, the remainder.
    Prefix tag `3` (8-byte form) is `InvalidVectorLength` under the `mls` feature; a prefix that is
    longer than necessary is refused by `check_min_length`. -/
def decLen : Bytes → Option (Nat × Nat × Bytes)
  | [] => none
  | b0 :: rest =>
    let tag := b0 / 64
    let v0 := b0 % 64
    if tag = 0 then (if minLenLen v0 = 1 then some (v0, 1, rest) else none)
    else if tag = 1 then
      match rest with
      | b1 :: r => let n := v0 * 256 + b1; if minLenLen n = 2 then some (n, 2, r) else none
      | _ => none
    else if tag = 2 then
      match rest with
      | b1 :: b2 :: b3 :: r =>
        let n := ((v0 * 256 + b1) * 256 + b2) * 256 + b3
        if minLenLen n = 4 then some (n, 4, r) else none
      | _ => none
    else none

/-! ## primitive readers -/

/-- `bytes.get(..n)` / `&bytes[n..]`: `none` = `EndOfStream` -/
def takeN (n : Nat) (bs : Bytes) : Option (Bytes × Bytes) :=
  if bs.length < n then none else some (bs.take n, bs.drop n)

def decU16 : Bytes → Option (Nat × Bytes)
  | b0 :: b1 :: r => some (b0 * 256 + b1, r)
  | _ => none

def encU16 (v : Nat) : Bytes := [v / 256, v % 256]

/-- an element reader returns the element, its `tls_serialized_len`, and the remainder -/
abbrev ElemReader := Bytes → Option (Bytes × Nat × Bytes)

/-- `[u8; n]` -/
def elemArr (n : Nat) : ElemReader := fun bs =>
  match takeN n bs with
  | none => none
  | some (a, r) => some (a, n, r)

/-- `Vec<u8>`: prefix, then exactly that many single-byte elements (the generic loop with
    one-byte elements reads exactly `length` bytes) -/
def decVecU8 : ElemReader := fun bs =>
  match decLen bs with
  | none => none
  | some (n, k, r) =>
    match takeN n r with
    | none => none
    | some (c, r') => some (c, k + n, r')

/-- the element loop of `Vec<T>`: `remaining = length - (read - len_len)` (truncated subtraction, so
    `remaining = 0 ↔ ¬ (read - len_len < length)`).  `fuel` only makes the recursion structural: every
    element has size ≥ 1, so `fuel = length` is never exhausted. -/
def readElems (elem : ElemReader) : Nat → Nat → Bytes → Option (List Bytes × Bytes)
  | 0, remaining, bs => if remaining = 0 then some ([], bs) else none
  | fuel + 1, remaining, bs =>
    if remaining = 0 then some ([], bs)
    else
      match elem bs with
      | none => none
      | some (e, sz, r) =>
        match readElems elem fuel (remaining - sz) r with
        | none => none
        | some (es, r') => some (e :: es, r')

/-- `Vec<T>::tls_deserialize_bytes` -/
def decVec (elem : ElemReader) (bs : Bytes) : Option (List Bytes × Bytes) :=
  match decLen bs with
  | none => none
  | some (n, _, r) => readElems elem n n r

/-! ## serialisers -/

def encVecU8 (b : Bytes) : Option Bytes := (encLen b.length).map (fun h => h ++ b)

/-- `Vec<[u8;32]>`: prefix = total byte length of the elements -/
def encVecArr (l : List Bytes) : Option Bytes :=
  (encLen l.flatten.length).map (fun h => h ++ l.flatten)

/-- the concatenated serialisations of `Vec<u8>` elements -/
def encElems : List Bytes → Option Bytes
  | [] => some []
  | e :: es =>
    match encVecU8 e, encElems es with
    | some a, some b => some (a ++ b)
    | _, _ => none

def encVecVec (l : List Bytes) : Option Bytes :=
  match encElems l with
  | none => none
  | some c => (encLen c.length).map (fun h => h ++ c)

/-! ## the TLS struct -/

/-- `TlsNostrGroupDataExtension` -/
structure Raw where
  version : Nat
  gid : Bytes
  name : Bytes
  desc : Bytes
  admins : List Bytes
  relays : List Bytes
  ih : Bytes
  ik : Bytes
  inn : Bytes
  iu : Bytes
  deriving DecidableEq, Repr

def decRaw (bs : Bytes) : Option (Raw × Bytes) :=
  match decU16 bs with
  | none => none
  | some (v, r0) =>
  match takeN 32 r0 with
  | none => none
  | some (gid, r1) =>
  match decVecU8 r1 with
  | none => none
  | some (name, _, r2) =>
  match decVecU8 r2 with
  | none => none
  | some (desc, _, r3) =>
  match decVec (elemArr 32) r3 with
  | none => none
  | some (admins, r4) =>
  match decVec decVecU8 r4 with
  | none => none
  | some (relays, r5) =>
  match decVecU8 r5 with
  | none => none
  | some (ih, _, r6) =>
  match decVecU8 r6 with
  | none => none
  | some (ik, _, r7) =>
  match decVecU8 r7 with
  | none => none
  | some (inn, _, r8) =>
  match decVecU8 r8 with
  | none => none
  | some (iu, _, r9) =>
    some ({ version := v, gid := gid, name := name, desc := desc, admins := admins, relays := relays,
            ih := ih, ik := ik, inn := inn, iu := iu }, r9)

def encRaw (r : Raw) : Option Bytes :=
  match encVecU8 r.name, encVecU8 r.desc, encVecArr r.admins, encVecVec r.relays,
        encVecU8 r.ih, encVecU8 r.ik, encVecU8 r.inn, encVecU8 r.iu with
  | some n, some d, some a, some rl, some h, some k, some nn, some u =>
    some (encU16 r.version ++ (r.gid ++ (n ++ (d ++ (a ++ (rl ++ (h ++ (k ++ (nn ++ u)))))))))
  | _, _, _, _, _, _, _, _ => none

/-! ## the typed value and `from_raw` / `as_raw` -/

/-- a parsed relay URL: `key` is the `url::Url` serialisation (what `Ord`/`Eq` of `RelayUrl` compare),
    `text` is what `to_string()` prints (the serialisation without the trailing slash unless the
    input had one) -/
structure Relay where
  key : Bytes
  text : Bytes
  deriving DecidableEq, Repr

/-- the two library functions the model does not define -/
structure Env where
  /-- `str::from_utf8(..).is_ok()` -/
  utf8 : Bytes → Bool
  /-- `RelayUrl::parse` on a string that already passed `utf8` -/
  relayParse : Bytes → Option Relay

/-- `NostrGroupDataExtension` (admins and relays are `BTreeSet`s: strictly ascending lists) -/
structure Ext where
  version : Nat
  gid : Bytes
  name : Bytes
  desc : Bytes
  admins : List Bytes
  relays : List Relay
  ih : Option Bytes
  ik : Option Bytes
  inn : Option Bytes
  iu : Option Bytes
  deriving DecidableEq, Repr

/-- error KINDS of `deserialize_bytes` (wording dropped) -/
inductive DecErr where
  | tls            -- Error::Tls(_)
  | trailing       -- Error::ExtensionFormatError (trailing bytes)
  | version0       -- Error::InvalidExtensionVersion(0)
  | utf8           -- Error::Utf8(_)
  | relayUrl       -- Error::RelayUrl(_)
  | hashLen        -- Error::InvalidImageHashLength
  | keyLen         -- Error::InvalidImageKeyLength
  | nonceLen       -- Error::InvalidImageNonceLength
  | uploadLen      -- Error::InvalidImageUploadKeyLength
  deriving DecidableEq, Repr

/-- lexicographic order on byte strings (`[u8;32]::cmp`, `str::cmp`) -/
def bytesLt : Bytes → Bytes → Bool
  | [], [] => false
  | [], _ :: _ => true
  | _ :: _, [] => false
  | a :: as, b :: bs => if a < b then true else if b < a then false else bytesLt as bs

def relayLt (a b : Relay) : Bool := bytesLt a.key b.key

/-- `BTreeSet::insert`: keeps the set strictly ascending; an element equal (w.r.t. the order) to
    one already present is dropped, the EXISTING one is kept -/
def setInsert {α : Type} (lt : α → α → Bool) (x : α) : List α → List α
  | [] => [x]
  | y :: ys =>
    if lt x y then x :: y :: ys
    else if lt y x then y :: setInsert lt x ys
    else y :: ys

def setOfList {α : Type} (lt : α → α → Bool) (l : List α) : List α :=
  l.foldl (fun acc x => setInsert lt x acc) []

/-- the relay loop of `from_raw` -/
def relaysFrom (env : Env) : List Bytes → List Relay → Except DecErr (List Relay)
  | [], acc => .ok acc
  | r :: rs, acc =>
    if env.utf8 r = false then .error .utf8
    else
      match env.relayParse r with
      | none => .error .relayUrl
      | some u => relaysFrom env rs (setInsert relayLt u acc)

/-- an optional fixed-length field carried as `Vec<u8>`: empty ⇒ `None`, exact length ⇒ `Some`,
    anything else ⇒ the field's length error -/
def optFixed (n : Nat) (e : DecErr) (b : Bytes) : Except DecErr (Option Bytes) :=
  if b.isEmpty then .ok none else if b.length = n then .ok (some b) else .error e

/-- `NostrGroupDataExtension::from_raw` (order of the checks as in the source) -/
def fromRaw (env : Env) (raw : Raw) : Except DecErr Ext :=
  if raw.version = 0 then .error .version0
  else
    match relaysFrom env raw.relays [] with
    | .error e => .error e
    | .ok relays =>
    match optFixed 32 .hashLen raw.ih with
    | .error e => .error e
    | .ok ih =>
    match optFixed 32 .keyLen raw.ik with
    | .error e => .error e
    | .ok ik =>
    match optFixed 12 .nonceLen raw.inn with
    | .error e => .error e
    | .ok inn =>
    match optFixed 32 .uploadLen raw.iu with
    | .error e => .error e
    | .ok iu =>
      if env.utf8 raw.name = false then .error .utf8
      else if env.utf8 raw.desc = false then .error .utf8
      else .ok { version := raw.version, gid := raw.gid, name := raw.name, desc := raw.desc,
                 admins := setOfList bytesLt raw.admins, relays := relays,
                 ih := ih, ik := ik, inn := inn, iu := iu }

/-- `NostrGroupDataExtension::deserialize_bytes` -/
def decode (env : Env) (bs : Bytes) : Except DecErr Ext :=
  match decRaw bs with
  | none => .error .tls
  | some (raw, rest) => if rest.isEmpty then fromRaw env raw else .error .trailing

def optBytes (o : Option Bytes) : Bytes := o.getD []

/-- `as_raw` -/
def asRaw (x : Ext) : Raw :=
  { version := x.version, gid := x.gid, name := x.name, desc := x.desc, admins := x.admins,
    relays := x.relays.map (fun r => r.text), ih := optBytes x.ih, ik := optBytes x.ik,
    inn := optBytes x.inn, iu := optBytes x.iu }

/-- `as_raw().tls_serialize_detached()` -/
def encode (x : Ext) : Option Bytes := encRaw (asRaw x)

/-! ## well-formed values (what a `NostrGroupDataExtension` can hold) -/

/-- total serialised size of a list of `Vec<u8>` elements -/
def elemsSize : List Bytes → Nat
  | [] => 0
  | e :: es => minLenLen e.length + e.length + elemsSize es

@[reducible] def small (n : Nat) : Prop := n < 1073741824

def optLen (n : Nat) (o : Option Bytes) : Prop :=
  match o with
  | none => True
  | some b => b.length = n ∧ isBytes b = true

instance (n : Nat) (o : Option Bytes) : Decidable (optLen n o) := by
  unfold optLen; cases o <;> exact inferInstance

/-- result comparison as a `Bool` (for closed examples) -/
def decodesTo (r : Except DecErr Ext) (x : Ext) : Bool :=
  match r with
  | .ok y => decide (y = x)
  | .error _ => false

def failsWith (r : Except DecErr Ext) (e : DecErr) : Bool :=
  match r with
  | .ok _ => false
  | .error e' => decide (e' = e)

structure Ext.WF (env : Env) (x : Ext) : Prop where
  version : 1 ≤ x.version ∧ x.version < 65536
  gid : x.gid.length = 32 ∧ isBytes x.gid = true
  name : isBytes x.name = true ∧ env.utf8 x.name = true ∧ small x.name.length
  desc : isBytes x.desc = true ∧ env.utf8 x.desc = true ∧ small x.desc.length
  admins : (∀ a ∈ x.admins, a.length = 32 ∧ isBytes a = true) ∧
           x.admins.Pairwise (fun a b => bytesLt a b = true) ∧ small (32 * x.admins.length)
  relays : (∀ r ∈ x.relays, env.utf8 r.text = true ∧ env.relayParse r.text = some r ∧ small r.text.length) ∧
           x.relays.Pairwise (fun a b => relayLt a b = true)
  relaysSize : small (elemsSize (x.relays.map (fun r => r.text)))
  ih : optLen 32 x.ih
  ik : optLen 32 x.ik
  inn : optLen 12 x.inn
  iu : optLen 32 x.iu

/-! ## hex (the `hex` crate: lower-case output, either case accepted, even length required) -/

def hexDigit (n : Nat) : Nat := if n < 10 then 48 + n else 87 + n

def hexEnc : Bytes → Bytes
  | [] => []
  | b :: r => hexDigit (b / 16) :: hexDigit (b % 16) :: hexEnc r

def hexVal (c : Nat) : Option Nat :=
  if 48 ≤ c ∧ c ≤ 57 then some (c - 48)
  else if 97 ≤ c ∧ c ≤ 102 then some (c - 87)
  else if 65 ≤ c ∧ c ≤ 70 then some (c - 55)
  else none

def hexDec : Bytes → Option Bytes
  | [] => some []
  | [_] => none
  | a :: b :: r =>
    match hexVal a, hexVal b, hexDec r with
    | some x, some y, some t => some ((x * 16 + y) :: t)
    | _, _, _ => none

/-! ## the concrete `Env` of the driver -/

def isCont (b : Nat) : Bool := decide (128 ≤ b ∧ b ≤ 191)

/-- exact UTF-8 validity (`core::str::from_utf8`): no overlong forms, no surrogates, ≤ U+10FFFF -/
def utf8Go : Nat → Bytes → Bool
  | 0, bs => bs.isEmpty
  | fuel + 1, bs =>
    match bs with
    | [] => true
    | b0 :: r =>
      if b0 < 128 then utf8Go fuel r
      else if 194 ≤ b0 ∧ b0 ≤ 223 then
        match r with
        | b1 :: r' => isCont b1 && utf8Go fuel r'
        | _ => false
      else if 224 ≤ b0 ∧ b0 ≤ 239 then
        match r with
        | b1 :: b2 :: r' =>
          (if b0 = 224 then decide (160 ≤ b1 ∧ b1 ≤ 191)
           else if b0 = 237 then decide (128 ≤ b1 ∧ b1 ≤ 159)
           else isCont b1) && isCont b2 && utf8Go fuel r'
        | _ => false
      else if 240 ≤ b0 ∧ b0 ≤ 244 then
        match r with
        | b1 :: b2 :: b3 :: r' =>
          (if b0 = 240 then decide (144 ≤ b1 ∧ b1 ≤ 191)
           else if b0 = 244 then decide (128 ≤ b1 ∧ b1 ≤ 143)
           else isCont b1) && isCont b2 && isCont b3 && utf8Go fuel r'
        | _ => false
      else false

def utf8Valid (bs : Bytes) : Bool := utf8Go bs.length bs

def isLowerAlnum (c : Nat) : Bool := decide ((97 ≤ c ∧ c ≤ 122) ∨ (48 ≤ c ∧ c ≤ 57))
def isDigit (c : Nat) : Bool := decide (48 ≤ c ∧ c ≤ 57)
def isHostChar (c : Nat) : Bool := isLowerAlnum c || c == 45 || c == 46
def isPathChar (c : Nat) : Bool := isLowerAlnum c || c == 45 || c == 47 || c == 95

/-- strip a literal prefix -/
def stripPrefix : Bytes → Bytes → Option Bytes
  | [], s => some s
  | _ :: _, [] => none
  | p :: ps, c :: cs => if p = c then stripPrefix ps cs else none

/-- relay URLs of the plain family `ws(s)://host[:port][/path]` (lower-case host with at least one
    letter first, non-default port, path of `[a-z0-9/_-]`).  For these `url::Url` normalises nothing
    but the empty path (`""` ↦ `"/"`), so `key = text` (+ `"/"` when there is no path) and
    `to_string() = text`.  Everything else is refused here; the generator produces invalid relay
    strings only OUTSIDE the part of the URL grammar this function does not cover. -/
def simpleRelayParse (s : Bytes) : Option Relay :=
  let rest? := match stripPrefix [119, 115, 115, 58, 47, 47] s with
               | some r => some r
               | none => stripPrefix [119, 115, 58, 47, 47] s
  match rest? with
  | none => none
  | some rest =>
    let host := rest.takeWhile isHostChar
    let afterHost := rest.dropWhile isHostChar
    match host with
    | [] => none
    | h0 :: _ =>
      if !(decide (97 ≤ h0 ∧ h0 ≤ 122)) then none
      else
        let afterPort? : Option Bytes :=
          match afterHost with
          | 58 :: r =>
            let port := r.takeWhile isDigit
            if port.isEmpty || decide (port.length > 4) then none else some (r.dropWhile isDigit)
          | r => some r
        match afterPort? with
        | none => none
        | some [] => some { key := s ++ [47], text := s }
        | some (47 :: p) => if p.all isPathChar then some { key := s, text := s } else none
        | some _ => none

def stdEnv : Env := { utf8 := utf8Valid, relayParse := simpleRelayParse }

end MdkVerif.Codec
