import MdkVerif.Model.Store
/-
  MdkVerif.Model.Snapshots — `EpochSnapshotManager` (mdk-core/src/epoch_snapshots.rs) on top of the
  store model, plus the start-up TTL prune of `MdkBuilder::build` (mdk-core/src/lib.rs).

  Snapshot names "snap_{group hex}_{epoch}_{commit id hex}" are coded as `epoch * nameBase + commit`
  (commit ids are naturals below `nameBase` in the harness encoding).
-/
namespace MdkVerif.Snapshots
open MdkVerif MdkVerif.Store

def nameBase : Nat := 1000000

structure Meta where
  epoch : Nat
  commit : Nat          -- applied commit id
  ts : Nat              -- applied commit timestamp; 0 for hydrated entries
  name : Nat
  deriving DecidableEq, Repr, Inhabited

def mkName (epoch commit : Nat) : Nat := epoch * nameBase + commit

structure Mgr where
  retention : Nat
  queues : List (Nat × List Meta)     -- gid ↦ queue, oldest first
  hydrated : List Nat
  store : Store
  deriving Repr, Inhabited

def Mgr.queue (m : Mgr) (gid : Nat) : List Meta := (alookup gid m.queues).getD []

def Mgr.setQueue (m : Mgr) (gid : Nat) (q : List Meta) : Mgr := { m with queues := ainsert gid q m.queues }

/-- release every entry of `old` from storage (best effort: `let _ = release…`) -/
def releaseAll (s : Store) (gid : Nat) (old : List Meta) : Store :=
  old.foldl (fun s e => snapRelease s gid e.name) s

/-- `while queue.len() > retention { pop_front; release }` -/
def trim (retention : Nat) (s : Store) (gid : Nat) (q : List Meta) : Store × List Meta :=
  let k := q.length - retention
  (releaseAll s gid (q.take k), q.drop k)

/-- `parse_snapshot_name`: every name written by `create_snapshot` parses back -/
def parseName (name : Nat) : Meta := { epoch := name / nameBase, commit := name % nameBase, ts := 0, name := name }

/-- `ensure_hydrated` -/
def hydrate (m : Mgr) (gid : Nat) : Mgr :=
  match m.store.backend with
  | .mem => m
  | .sql =>
    if gid ∈ m.hydrated then m
    else
      let stored := (snapListRaw m.store gid).map (fun p => parseName p.1)
      let q := m.queue gid ++ stored
      let r := trim m.retention m.store gid q
      { (m.setQueue gid r.2) with store := r.1, hydrated := gid :: m.hydrated }

/-- `create_snapshot(storage, group, epoch, commit_id, commit_ts)`; `clock` = second recorded by storage -/
def create (m : Mgr) (gid epoch commit ts clock : Nat) : Mgr × Bool :=
  let m := hydrate m gid
  let name := mkName epoch commit
  match snapCreate m.store gid name clock with
  | none => (m, false)
  | some s' =>
    -- SQLite stores nothing when the group has no rows at all; the manager still records the entry
    let q := m.queue gid ++ [{ epoch := epoch, commit := commit, ts := ts, name := name }]
    let r := trim m.retention s' gid q
    ({ (m.setQueue gid r.2) with store := r.1 }, true)

/-- `is_better_candidate` -/
def isBetter (m : Mgr) (gid epoch ts commit : Nat) : Mgr × Bool :=
  let m := hydrate m gid
  match (m.queue gid).find? (·.epoch == epoch) with
  | none => (m, false)
  | some e =>
    if e.ts == 0 then (m, false)
    else if ts < e.ts then (m, true)
    else if ts > e.ts then (m, false)
    else (m, decide (commit < e.commit))

/-- index of the first entry with the epoch -/
def findIdx (q : List Meta) (epoch : Nat) : Option Nat :=
  match q with
  | [] => none
  | e :: t => if e.epoch == epoch then some 0 else (findIdx t epoch).map (· + 1)

/-- `rollback_to_epoch` -/
def rollback (m : Mgr) (gid epoch : Nat) : Mgr × Bool :=
  let m := hydrate m gid
  let q := m.queue gid
  match findIdx q epoch with
  | none => (m, false)
  | some i =>
    match q.drop i with
    | [] => (m, false)
    | e :: later =>
      match snapRollback m.store gid e.name with
      | none => (m, false)
      | some s' =>
        ({ (m.setQueue gid (q.take i)) with store := releaseAll s' gid later }, true)

/-- drop the instance, reopen: start-up TTL prune on persistent storage, fresh manager -/
def restart (m : Mgr) (now ttl : Nat) : Mgr :=
  match m.store.backend with
  | .mem => m        -- a memory store does not survive a restart; the harness never restarts it
  | .sql => { m with queues := [], hydrated := [], store := (snapPrune m.store (now - ttl)).1 }

inductive Op where
  | create (gid epoch commit ts clock : Nat)
  | better (gid epoch ts commit : Nat)
  | rollback (gid epoch : Nat)
  | restart (now ttl : Nat)
  | list (gid : Nat)
  | saveGroup (gid nid : Nat)
  deriving Repr

def bstr (b : Bool) : String := if b then "true" else "false"

def step (m : Mgr) : Op → Mgr × String
  | .create g e c t k => let r := create m g e c t k; (r.1, if r.2 then "ok" else "err")
  | .better g e t c => let r := isBetter m g e t c; (r.1, bstr r.2)
  | .rollback g e => let r := rollback m g e; (r.1, if r.2 then "ok" else "err")
  | .restart now ttl => (restart m now ttl, "ok")
  | .list g => (m, "[" ++ joinWith ";" ((snapList m.store g).map (fun p => s!"{p.1 / nameBase}.{p.1 % nameBase}@{p.2}")) ++ "]")
  | .saveGroup g n =>
    match saveGroup m.store { gid := g, nid := n, nameLen := 1, descLen := 0, admins := 1, img := 0, lastId := none, lastAt := none, lastProc := none, epoch := 0, state := 0, selfUpd := 0 } with
    | some s' => ({ m with store := s' }, "ok")
    | none => (m, "err")

def init (b : Backend) (retention : Nat) : Mgr :=
  { retention := retention, queues := [], hydrated := [], store := Store.empty b }

def run (m : Mgr) (ops : List Op) : Mgr := ops.foldl (fun m o => (step m o).1) m

end MdkVerif.Snapshots
