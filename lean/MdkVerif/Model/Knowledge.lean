/-
  Model.Knowledge — symbolic (Dolev–Yao style) knowledge model for property C03.

  The WORLD is the tree of group states the honest members created: a state (commit path) `s` has a group
  id, an epoch, a member list, a parent state (the state its commit was made in; none for a creation) and
  the list of clients its commit ADDED (the addressees of its welcome).  Cryptography is perfect: the
  wrapper of a message sent in state `s` opens exactly for those who hold the secrets of `s` (exporter
  secret of the outer layer + MLS epoch secrets of the inner layer).

  A CLIENT is what the wrapper logic of mdk keeps: the current MLS state per group (present only while its
  own leaf is in the tree), the set of states whose secrets it holds (current + retained past epochs /
  stored exporter secrets, epoch snapshots), and its stored message rows.  Every step of a client is
  guarded exactly as the code guards it; a step whose guard fails is a no-op (the event is refused).
  A client may be fed ANY event of ANY group in ANY order, any number of times (`recv`, `apply`, `join`
  with arbitrary arguments): that is the observer of the property.
  Core Lean only; executable.
-/
namespace MdkVerif.Knowledge

structure GState where
  gid : Nat
  epoch : Nat
  members : List Nat
  parent : Option Nat       -- state id of the parent state
  added : List Nat          -- clients added by the commit that created this state (welcome addressees)
  deriving DecidableEq, Repr, Inhabited

/-- the world: state id ↦ state (finite, `none` outside) -/
abbrev World := Nat → Option GState

/-- well-formedness of a world: a welcome names only members of the state it leads to -/
def World.wf (w : World) : Prop := ∀ s g, w s = some g → ∀ c, c ∈ g.added → c ∈ g.members

def memberOf (w : World) (c s : Nat) : Bool :=
  match w s with
  | some g => g.members.contains c
  | none => false

def gidOf (w : World) (s : Nat) : Option Nat := (w s).map (·.gid)

structure Client where
  cur : Nat → Option Nat        -- gid ↦ current state (MLS group loaded and own leaf present)
  held : List Nat               -- states whose secrets are held (current, retained past epochs, snapshots)
  msgs : List (Nat × Nat)       -- stored message rows: (message id, state it was sent in)

def Client.empty : Client := { cur := fun _ => none, held := [], msgs := [] }

def setCur (c : Client) (gid : Nat) (s : Option Nat) : Client :=
  { c with cur := fun g => if g = gid then s else c.cur g }

inductive Step where
  /-- `create_group`: the creator enters the first state -/
  | create (s : Nat)
  /-- applying a commit (own pending commit merged, or a received commit processed): from `frm` to `to` -/
  | apply (frm to : Nat)
  /-- `accept_welcome` of the welcome of state `s` -/
  | join (s : Nat)
  /-- `create_message` in state `s` -/
  | send (mid s : Nat)
  /-- `process_message` of the wrapper of message `mid`, which was sent in state `s` -/
  | recv (mid s : Nat)
  /-- MIP-03 rollback to a snapshot of state `s` -/
  | rollback (s : Nat)
  /-- retention: the secrets of `s` are dropped (past-epoch window, snapshot pruning) -/
  | forget (s : Nat)
  deriving DecidableEq, Repr

/-- one step of client `me` in world `w` -/
def step (w : World) (me : Nat) (c : Client) : Step → Client
  | .create s =>
    match w s with
    | some g => if g.parent.isNone && g.members.contains me then { setCur c g.gid (some s) with held := s :: c.held } else c
    | none => c
  | .apply frm to =>
    match w frm, w to with
    | some gf, some gt =>
      -- the commit is decryptable only in its parent state, which must be the client's current one
      if gt.parent == some frm && gt.gid == gf.gid && c.cur gf.gid == some frm then
        if gt.members.contains me then { setCur c gf.gid (some to) with held := to :: c.held }
        else setCur c gf.gid none          -- evicted: own leaf gone, no secrets of `to` derived, group Inactive
      else c
    | _, _ => c
  | .join s =>
    match w s with
    | some g => if g.added.contains me then { setCur c g.gid (some s) with held := s :: c.held } else c
    | none => c
  | .send mid s =>
    match w s with
    | some g => if c.cur g.gid == some s then { c with msgs := (mid, s) :: c.msgs } else c
    | none => c
  | .recv mid s => if c.held.contains s then { c with msgs := (mid, s) :: c.msgs } else c
  | .rollback s =>
    match w s with
    | some g => if c.held.contains s && (c.cur g.gid).isSome then setCur c g.gid (some s) else c
    | none => c
  | .forget s =>
    -- retention never drops the state the client is currently in
    match w s with
    | some g => if c.cur g.gid == some s then c else { c with held := c.held.filter (· != s) }
    | none => { c with held := c.held.filter (· != s) }

def run (w : World) (me : Nat) (c : Client) : List Step → Client
  | [] => c
  | st :: rest => run w me (step w me c st) rest

end MdkVerif.Knowledge
