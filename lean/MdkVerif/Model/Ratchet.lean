/-
  MdkVerif.Model.Ratchet — application messages under reordering: the receiver-side bookkeeping of
  OpenMLS 0.8.1 per (epoch, sender) and what mdk-core does with its verdict.  Import-free, executable.

  What is modelled, and from where (the OpenMLS part is an ASSUMPTION about the dependency — read from
  its source, stated here, and checked on every run by the `msgwin` correspondence engine):

  * `Ratchet`, `recv`    openmls/src/tree/sender_ratchet.rs `DecryptionRatchet::secret_for_decryption`:
                         `ratchet_head.generation` (`head`: the NEXT generation the chain would derive) and
                         the `past_secrets: VecDeque<Option<_>>` (`past`: front = generation `head-1`;
                         `true` = `Some(key material)`, `false` = `None`: taken or the slot of the
                         generation that was asked for), the two window checks in their order, the forward
                         ratchet (`push_front(Some)` per skipped generation, `push_front(None)`,
                         `truncate(out_of_order_tolerance)`), the look-up of a past generation (`take()`).
  * `Store`, `advance`,  openmls/src/group/mls_group/past_secrets.rs `MessageSecretsStore` with
    `treeFor`            `max_epochs = max_past_epochs`: `add` (drop the oldest when full, nothing at all when
                         `max_epochs = 0`), `secrets_for_epoch_mut` (by epoch number), and
                         `MlsGroup::message_secrets_and_leaves_mut` (`TooDistantInThePast` when absent);
                         openmls/src/tree/secret_tree.rs: one application ratchet per sender leaf per epoch,
                         the sender's own `EncryptionRatchet` counts generations up from 0 in every epoch.
  * `Cl`, `deliver`,     mdk-core messages/process.rs (step-0 dedup: only Failed / EpochInvalidated block),
    `send`               decryption.rs (outer NIP-44 layer: the current exporter secret, then the stored
                         secrets of `DEFAULT_EPOCH_LOOKBACK` past epoch numbers), application.rs (row
                         filed under the RECEIVER's epoch, state Processed), error_handling.rs
                         (`CannotDecryptOwnMessage` ⇒ the cached own copy Created → Processed; every other
                         OpenMLS refusal ⇒ `fail_unprocessable`: a Failed record that keeps the message id
                         of an existing record), create.rs.
  Not modelled here (see Model.Client): commits racing for an epoch, rollback, proposals.  In this
  model every commit is applied by every client in order (`advance`).
-/
namespace MdkVerif.Ratchet

/-! ### the decryption ratchet of one sender in one epoch -/

inductive Verdict where
  | accepted
  | tooFarAhead         -- SecretTreeError::TooDistantInTheFuture
  | tooOld              -- SecretTreeError::TooDistantInThePast (generation)
  | reused              -- SecretTreeError::SecretReuseError
  | epochGone           -- SecretTreeError::TooDistantInThePast (no message secrets for the epoch)
  | ratchetTooLong      -- SecretTreeError::RatchetTooLong (generation u32::MAX)
  | indexOutOfBounds    -- SecretTreeError::IndexOutOfBounds (unreachable: `recv_never_oob`)
  deriving DecidableEq, Repr, Inhabited

def u32Max : Nat := 4294967295

structure Ratchet where
  head : Nat
  past : List Bool
  deriving DecidableEq, Repr, Inhabited

def Ratchet.new : Ratchet := ⟨0, []⟩

/-- `Option::take()` on the i-th slot -/
def setFalse : Nat → List Bool → List Bool
  | _, [] => []
  | 0, _ :: t => false :: t
  | i + 1, b :: t => b :: setFalse i t

/-- the look-up of a generation below the head in the `past_secrets` queue -/
def takePast (r : Ratchet) (g : Nat) : Ratchet × Verdict :=
  match r.past[r.head - g - 1]? with
  | none => (r, .indexOutOfBounds)
  | some true => (⟨r.head, setFalse (r.head - g - 1) r.past⟩, .accepted)
  | some false => (r, .reused)

/-- `secret_for_decryption(generation g)` with `out_of_order_tolerance = T`, `maximum_forward_distance = F` -/
def recv (T F : Nat) (r : Ratchet) (g : Nat) : Ratchet × Verdict :=
  if r.head < u32Max - F ∧ g > r.head + F then (r, .tooFarAhead)
  else if g < r.head ∧ r.head - g > T then (r, .tooOld)
  else if g ≥ r.head then
    if g ≥ u32Max then (r, .ratchetTooLong)
    else (⟨g + 1, (false :: (List.replicate (g - r.head) true ++ r.past)).take T⟩, .accepted)
  else takePast r g

/-- a delivery list offered to one ratchet: final state and the verdict of every offer -/
def run (T F : Nat) : Ratchet → List Nat → Ratchet × List Verdict
  | r, [] => (r, [])
  | r, g :: rest =>
    let (r1, v) := recv T F r g
    let (r2, vs) := run T F r1 rest
    (r2, v :: vs)

/-- the generations that were accepted, in the order of acceptance -/
def acceptedGens (T F : Nat) : Ratchet → List Nat → List Nat
  | _, [] => []
  | r, g :: rest =>
    let (r1, v) := recv T F r g
    if v = .accepted then g :: acceptedGens T F r1 rest else acceptedGens T F r1 rest

/-- **inside the windows**, decided on the delivery list alone: `h` is the head the list is offered to
    (0 for a fresh ratchet: one more than the largest generation offered so far); no offer is more than `F`
    ahead of the head nor more than `T` behind it -/
def inWin (T F : Nat) : Nat → List Nat → Bool
  | _, [] => true
  | h, g :: rest => decide (g ≤ h + F) && decide (h ≤ g + T) && decide (g < u32Max) && inWin T F (max h (g + 1)) rest

/-! ### the message-secrets store: which epochs' ratchets are retained -/

abbrev Tree := List (Nat × Ratchet)            -- application ratchets by sender (absent = not yet initialised)

def tlookup {α : Type} (k : Nat) : List (Nat × α) → Option α
  | [] => none
  | (k', v) :: r => if k' = k then some v else tlookup k r

def tinsert {α : Type} (k : Nat) (v : α) : List (Nat × α) → List (Nat × α)
  | [] => [(k, v)]
  | (k', v') :: r => if k' = k then (k, v) :: r else (k', v') :: tinsert k v r

structure Store where
  epoch : Nat
  cur : Tree
  pastTrees : List (Nat × Tree)                -- oldest first, at most `max_past_epochs`
  deriving DecidableEq, Repr, Inhabited

/-- `MessageSecretsStore::add` as used when a commit is merged: the tree of the epoch being left is
    retained (unless `P = 0`), the oldest one is dropped when `P` are held -/
def addPast (P : Nat) (l : List (Nat × Tree)) (e : Nat) (t : Tree) : List (Nat × Tree) :=
  if P = 0 then l
  else (if l.length ≥ P then (l.drop 1).take (P - 1) else l) ++ [(e, t)]

def advance (P : Nat) (s : Store) : Store :=
  { epoch := s.epoch + 1, cur := [], pastTrees := addPast P s.pastTrees s.epoch s.cur }

/-- `message_secrets_and_leaves_mut(m)`: the current tree, or the retained tree of a past epoch -/
def treeFor (s : Store) (m : Nat) : Option Tree :=
  if m < s.epoch then tlookup m s.pastTrees else some s.cur

def setTree (s : Store) (m : Nat) (t : Tree) : Store :=
  if m < s.epoch then { s with pastTrees := tinsert m t s.pastTrees } else { s with cur := t }

/-- OpenMLS `process_message` for an application message (epoch `m`, sender leaf, generation) of ANOTHER
    member.  `m > epoch` is `ValidationError::WrongEpoch` (never reached through mdk: the outer layer fails first) -/
def mlsRecv (T F : Nat) (s : Store) (m sender g : Nat) : Store × Verdict :=
  match treeFor s m with
  | none => (s, .epochGone)
  | some t =>
    let r := (tlookup sender t).getD Ratchet.new
    let (r1, v) := recv T F r g
    if v = .accepted then (setTree s m (tinsert sender r1 t), v) else (s, v)

/-! ### the mdk client around it -/

structure Cfg where
  T : Nat           -- MdkConfig::out_of_order_tolerance
  F : Nat           -- MdkConfig::maximum_forward_distance
  P : Nat           -- MdkConfig::max_past_epochs
  L : Nat           -- DEFAULT_EPOCH_LOOKBACK (a constant of mdk-core, not configurable; Generated.epochLookback)
  deriving DecidableEq, Repr, Inhabited

/-- a published application-message wrapper (kind 445) -/
structure Msg where
  n : Nat           -- wrapper event number
  sender : Nat
  epoch : Nat       -- MLS epoch it was encrypted in
  gen : Nat         -- sender-ratchet generation
  mid : Nat         -- rumor id
  tok : Nat         -- content token (kind, tags and created_at of the rumor are functions of it)
  deriving DecidableEq, Repr, Inhabited

structure Row where
  mid : Nat
  author : Nat
  state : Nat       -- 0 created, 1 processed
  epoch : Nat       -- epoch tag (the receiver's epoch at processing time)
  tok : Nat
  deriving DecidableEq, Repr, Inhabited

structure Rec where
  state : Nat       -- 0 created, 1 processed, 3 failed
  epoch : Option Nat
  mid : Option Nat
  deriving DecidableEq, Repr, Inhabited

structure Cl where
  id : Nat
  cfg : Cfg
  joined : Nat              -- first epoch whose exporter secret the client stored
  st : Store
  sendGen : Nat             -- own encryption ratchet: next generation in the current epoch
  rows : List Row
  recs : List (Nat × Rec)
  deriving DecidableEq, Repr, Inhabited

inductive Res where
  | app (mid : Nat) | unprocessable | errMessage | sent (m : Msg)
  deriving DecidableEq, Repr, Inhabited

def upsertRow (r : Row) : List Row → List Row
  | [] => [r]
  | h :: t => if h.mid = r.mid then r :: t else h :: upsertRow r t

def findRow (mid : Nat) : List Row → Option Row
  | [] => none
  | h :: t => if h.mid = mid then some h else findRow mid t

/-- `record_failure`: state Failed; the message id of an existing record is kept; the epoch is the given one
    or the existing record's -/
def recordFailure (c : Cl) (n : Nat) (epoch : Option Nat) : Cl :=
  let old := tlookup n c.recs
  let ep := match epoch with
    | some e => some e
    | none => old.bind (·.epoch)
  { c with recs := tinsert n { state := 3, epoch := ep, mid := old.bind (·.mid) } c.recs }

/-- outer layer (`try_decrypt_with_recent_epochs`): the exporter secret of the current epoch, then the
    stored ones of the `L` epoch numbers before it -/
def outerOpens (c : Cl) (m : Nat) : Bool :=
  decide (c.joined ≤ m ∧ m ≤ c.st.epoch ∧ c.st.epoch - m ≤ c.cfg.L)

/-- `CannotDecryptOwnMessage`: confirm the cached own copy -/
def ownMessage (c : Cl) (w : Msg) : Cl × Res :=
  match tlookup w.n c.recs with
  | none => (c, .errMessage)
  | some r =>
    if r.state = 0 then
      match r.mid with
      | none => (c, .errMessage)
      | some mid =>
        match findRow mid c.rows with
        | none => (c, .errMessage)
        | some row =>
          ({ c with rows := upsertRow { row with state := 1 } c.rows, recs := tinsert w.n { r with state := 1 } c.recs }, .app mid)
    else (c, .unprocessable)

/-- `process_application_message` -/
def storeApp (c : Cl) (w : Msg) : Cl × Res :=
  let row : Row := { mid := w.mid, author := w.sender, state := 1, epoch := c.st.epoch, tok := w.tok }
  ({ c with rows := upsertRow row c.rows,
            recs := tinsert w.n { state := 1, epoch := some c.st.epoch, mid := some w.mid } c.recs }, .app w.mid)

/-- steps 1–4 of `process_message` for an application-message wrapper -/
def step1 (c : Cl) (w : Msg) : Cl × Res :=
  if !outerOpens c w.epoch then (recordFailure c w.n none, .errMessage)
  else
    match treeFor c.st w.epoch with
    | none => (recordFailure c w.n (some c.st.epoch), .unprocessable)      -- past epoch no longer retained
    | some _ =>
      if w.sender = c.id then ownMessage c w
      else
        let (s1, v) := mlsRecv c.cfg.T c.cfg.F c.st w.epoch w.sender w.gen
        if v = .accepted then storeApp { c with st := s1 } w
        else (recordFailure c w.n (some c.st.epoch), .unprocessable)

/-- `process_message`: step 0 (a Failed record blocks), then `step1` -/
def deliver (c : Cl) (w : Msg) : Cl × Res :=
  match tlookup w.n c.recs with
  | some r => if r.state = 3 then (c, .unprocessable) else step1 c w
  | none => step1 c w

/-- `create_message`: the next generation of the own ratchet of the current epoch; the own copy is cached Created -/
def send (c : Cl) (n mid tok : Nat) : Cl × Msg :=
  let w : Msg := { n := n, sender := c.id, epoch := c.st.epoch, gen := c.sendGen, mid := mid, tok := tok }
  let row : Row := { mid := mid, author := c.id, state := 0, epoch := c.st.epoch, tok := tok }
  ({ c with sendGen := c.sendGen + 1, rows := upsertRow row c.rows,
            recs := tinsert n { state := 0, epoch := some c.st.epoch, mid := some mid } c.recs }, w)

/-- a commit is applied (own `merge_pending_commit` or a processed commit of another member): next epoch,
    fresh secret tree, the own generation counter starts again -/
def applyCommit (c : Cl) : Cl :=
  { c with st := advance c.cfg.P c.st, sendGen := 0 }

def initCl (id : Nat) (cfg : Cfg) (epoch : Nat) : Cl :=
  { id := id, cfg := cfg, joined := epoch, st := { epoch := epoch, cur := [], pastTrees := [] }, sendGen := 0, rows := [], recs := [] }

/-- a delivery list offered to one client -/
def deliverAll (c : Cl) : List Msg → Cl × List Res
  | [] => (c, [])
  | w :: rest =>
    let (c1, r) := deliver c w
    let (c2, rs) := deliverAll c1 rest
    (c2, r :: rs)

end MdkVerif.Ratchet
