import MdkVerif.Model.Client
/-
  MdkVerif.Model.Handled — C07's notion of an event that "was handled already" at a client, as executable predicates of the
  client's own state (import-free like the rest of the model: the world driver evaluates them, `handledq`, for the insertion
  pairs of vlib/c07hist.py; the theorems about them are Props/C07.lean and Proofs/Insert.lean).
-/
namespace MdkVerif.Client
open MdkVerif

/-- when is an event "already handled" past the dedup check, in terms of the client's own state -/
def handledInner (c : Cl) (e : Ev) : Bool :=
  match e.kind with
  | .commit _ _ =>
    -- an applied or superseded commit: it belongs to another epoch and does not beat what was applied
    epochOf e.path != epochOf c.g.path && !isBetter c (epochOf e.path) e
  | .leave =>
    -- somebody's queued (or already committed) proposal; or the echo of the client's OWN proposal (`leave_group` records it
    -- ProcessedCommit: `return_own_commit`)
    (e.sender != c.id && c.g.consumed.contains e.cipher) ||
    (e.sender == c.id && (match getRec c e.n with
                          | some r => r.state == 2
                          | none => false))
  | .app _ _ _ =>
    (e.sender != c.id && c.g.consumed.contains e.cipher) ||
    (e.sender == c.id && (match getRec c e.n with
                          | some r => r.state == 1
                          | none => false))

/-- blocked by the dedup check, or not found under its `h` tag any more (the nostr group id was rotated since: `GroupNotFound`),
    or handled past both -/
def handled (c : Cl) (e : Ev) : Bool :=
  (match getRec c e.n with
   | some r => r.state == 3 || r.state == 4
   | none => false) || !routes c e || handledInner c e

/-- the event has a dedup record here that carries an epoch (it took effect: Processed, ProcessedCommit, Created) or that
    blocks it already (Failed, EpochInvalidated) -/
def known (c : Cl) (e : Ev) : Bool :=
  match getRec c e.n with
  | some r => r.epoch.isSome || r.state == 3 || r.state == 4
  | none => false

end MdkVerif.Client
