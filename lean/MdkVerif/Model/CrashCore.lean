import MdkVerif.Generated
/-
  Model.CrashCore — process death inside the mdk-core API calls (property C12, core level).

  An API call is the ordered list of its storage effects.  The list is NOT written here: it is TRANSLATED from
  the current source on every run — `Generated.writeSeq` (tools/writeseq.py: entry point / case ↦ success
  paths ↦ ordered durable write STEPS: storage-trait writes and persisting OpenMLS calls) — and `writes kind`
  is that list with every step replaced by its effect on the projection (`effects`).  Three-way agreement:
  source text ↔ this model (`hand_sequence_matches_source` in Props/C12.lean) ↔ execution (`vh crashw`
  observes, tick by tick, which tables change and which crash class results: `tie:crashw-writeseq`,
  `tie:crashcore-class-sequences`).
  None of these calls runs inside a transaction (only snapshot creation and restore do), so a crash after
  `k` effects leaves exactly the first `k` on disk (`crashAt`).  `retry` is what the application can do
  after reopening: hand the same event to `process_message` / `process_welcome` again.

  The database is abstracted to the projection the harness reads back: MLS epoch, epoch of the group
  record, epochs with a stored exporter secret, the processed-message (dedup) record of the event, message
  rows, snapshots, the pending commit, the welcome rows — plus one bit that is NOT visible in any table
  row but decides the retry: whether OpenMLS has already decrypted this ciphertext once (decrypting
  deletes the ratchet secret it used, and that deletion is persisted at once).
-/
namespace MdkVerif.CrashCore

structure Db where
  mlsE : Nat
  recE : Nat
  secrets : List Nat
  pm : Nat              -- dedup record of THE event: 0 none, 1 processed, 2 processed_commit, 3 failed
  msgs : Nat
  snaps : Nat
  pending : Bool        -- a pending (own, unmerged) commit is stored
  consumed : Bool       -- the event's MLS ciphertext was decrypted once: its ratchet secret is gone
  groupRow : Bool       -- (welcome) the Pending group record exists
  pwRow : Bool          -- (welcome) the processed-welcome record exists
  welcomeRow : Bool     -- (welcome) the welcome record exists
  ptr : Bool            -- the group record's last-message pointer names THE event's message
  props : Nat := 0      -- proposals queued in the MLS proposal store by this call
  mlsGroup : Bool := true   -- an MLS group of that id is stored (false before accept_welcome / create_group)
  active : Bool := true     -- the group record's state is Active
  accepted : Bool := false  -- (welcome) the welcome record's state is Accepted
  deriving DecidableEq, Repr, Inhabited

/-- labelled storage effects -/
inductive W where
  | saveSecret          -- exporter secret of the current MLS epoch (created lazily when first needed)
  | consume             -- OpenMLS decrypts the ciphertext (secret tree / message secrets row rewritten)
  | saveMsg             -- message row
  | savePm (st : Nat)   -- processed_messages row
  | snapshot            -- the MIP-03 snapshot (itself one transaction)
  | bumpMls             -- OpenMLS merges the staged commit: the group's rows now describe epoch + 1
  | syncRecord          -- sync_group_metadata_from_mls: the group record follows
  | dropPending         -- the pending commit row is deleted
  | setPending          -- a pending commit is stored
  | saveGroup | saveRelays | savePw | saveWelcome
  | setPtr              -- the group record's last-message pointer / timestamp is moved to the new message
  | touch               -- a write that does not change the projection (bookkeeping rows)
  | storeProposal       -- OpenMLS queues a proposal
  | joinMls             -- OpenMLS stores a new group (StagedWelcome::into_group, MlsGroup::new)
  | acceptWelcome       -- the welcome record becomes Accepted
  | activate            -- the group record becomes Active
  | deactivate          -- the group record becomes Inactive
  deriving DecidableEq, Repr

def applyW (d : Db) : W → Db
  | .saveSecret => { d with secrets := if d.secrets.contains d.mlsE then d.secrets else d.secrets ++ [d.mlsE] }
  | .consume => { d with consumed := true }
  | .saveMsg => { d with msgs := d.msgs + 1 }
  | .savePm st => { d with pm := st }
  | .snapshot => { d with snaps := d.snaps + 1 }
  | .bumpMls => { d with mlsE := d.mlsE + 1 }
  | .syncRecord => { d with recE := d.mlsE }
  | .dropPending => { d with pending := false }
  | .setPending => { d with pending := true }
  | .saveGroup => { d with groupRow := true }
  | .saveRelays => d
  | .savePw => { d with pwRow := true }
  | .saveWelcome => { d with welcomeRow := true }
  | .setPtr => { d with ptr := true }
  | .touch => d
  | .storeProposal => { d with props := d.props + 1 }
  | .joinMls => { d with mlsGroup := true }
  | .acceptWelcome => { d with accepted := true }
  | .activate => { d with active := true }
  | .deactivate => { d with active := false }

inductive Kind where
  | application         -- process_message of an application message
  | commit              -- process_message of a commit of another member
  | welcome             -- process_welcome
  | merge               -- merge_pending_commit (local)
  deriving DecidableEq, Repr

/-- the case of `Generated.writeSeq` (codes of tools/writeseq.py `CASES`) a kind of call is -/
def Kind.case : Kind → Nat
  | .application => 0
  | .commit => 1
  | .welcome => 12
  | .merge => 23

def lookup (c : Nat) : List (Nat × List (List Nat)) → List (List Nat)
  | [] => []
  | (k, v) :: rest => if k = c then v else lookup c rest

/-- the paths of a case as translated from the source -/
def sourcePaths (c : Nat) : List (List Nat) := lookup c Generated.writeSeq

/-- The effect on the projection of one source-level step (codes of tools/writeseq.py) inside the call `case`.
    `save_group` (4) is what the call uses it for: the last-message pointer in process_application_message /
    create_message, the Pending record in process_welcome; OpenMLS's `merge_pending_commit` (42) deletes the
    pending commit BEFORE it writes the merged state (observed: `tie:crashw-writeseq`); starred steps (≥ 1000:
    zero or more snapshot releases, retry marks) and key-store writes do not touch the projection. -/
def effects (case : Nat) : Nat → List W
  | 1 | 2 => [.saveSecret]
  | 3 => [.saveMsg]
  | 4 => if case = 12 ∨ case = 17 then [.saveGroup] else if case = 0 ∨ case = 16 ∨ case = 11 then [.setPtr]
         else if case = 14 then [.activate] else if case = 15 ∨ case = 2 then [.deactivate] else [.touch]
  | 5 => [.saveRelays]
  | 6 => if case = 14 then [.acceptWelcome] else if case = 15 then [.touch] else [.saveWelcome]
  | 7 => [.savePw]
  | 8 | 15 => [.snapshot]
  | 17 => [.syncRecord]
  | 21 => [.savePm 1]
  | 22 => [.savePm 2]
  | 23 => [.savePm 3]
  | 24 => [.savePm 4]
  | 25 => [.savePm 5]
  | 26 => [.savePm 6]
  | 40 => [.consume]
  | 41 => [.bumpMls]
  | 42 => [.dropPending, .bumpMls]
  | 43 | 50 => [.storeProposal]
  | 44 | 46 | 47 | 48 | 49 => [.setPending]
  | 51 | 52 => [.joinMls]
  | 53 => [.dropPending]
  | 56 => []                              -- StagedWelcome::build_from_welcome reads the key package (observed: no table changes)
  | _ => [.touch]

def expand (case : Nat) (p : List Nat) : List W := p.flatMap (effects case)

/-- which of the translated paths a kind follows: the application message that moves the last-message pointer
    (the longest path), the merge of a commit that is not a pure self-update (the shortest) -/
def Kind.path (kind : Kind) : List Nat :=
  match kind with
  | .merge => (sourcePaths kind.case).getLastD []
  | _ => (sourcePaths kind.case).headD []

/-- the effects of a call, in the order the SOURCE performs them (regenerated on every run) -/
def writes (kind : Kind) : List W := expand kind.case kind.path

def run (d : Db) (l : List W) : Db := l.foldl applyW d

/-- what is on disk after the process died having performed `k` effects of the call -/
def crashAt (kind : Kind) (k : Nat) (d : Db) : Db := run d ((writes kind).take k)

def complete (kind : Kind) (d : Db) : Db := run d (writes kind)

/-- handing the same event to the library again on the reopened store -/
def retry (kind : Kind) (d : Db) : Db :=
  match kind with
  | .application =>
    if d.pm = 3 then d                                  -- previously failed: final
    else if d.consumed then { d with pm := 3 }          -- cannot decrypt twice → Unprocessable, recorded as Failed (even over a Processed record)
    else complete .application d
  | .commit =>
    if d.pm = 2 then d                                  -- dedup: already a processed commit
    else if d.pm = 3 then d
    else if d.consumed then { d with pm := 3 }
    else complete .commit d
  | .welcome =>
    if d.pwRow then d                                   -- dedup on the wrapper id: returns the stored welcome — or an error if there is none
    else if d.welcomeRow then { d with pwRow := true }   -- found by its rumor id: only the wrapper record is added
    else complete .welcome d
  | .merge => if d.pending then complete .merge d else d  -- nothing pending: the call is refused

/-- what the application can observe through MDK: everything but the dedup record of the event (no MDK
    call returns `processed_messages` rows; the record only decides how a re-delivery is answered) -/
def obs (d : Db) : Db := { d with pm := 0 }

/-- the call is recoverable at `k`: retrying on what the crash left reaches the uninterrupted result in
    every observable respect -/
def recovered (kind : Kind) (k : Nat) (d : Db) : Bool := obs (retry kind (crashAt kind k d)) == obs (complete kind d)

/-- a store on which the call is about to run for the first time -/
def fresh (kind : Kind) (d : Db) : Bool :=
  match kind with
  | .application => d.pm == 0 && !d.consumed && d.mlsE == d.recE && !d.pending && !d.ptr
  | .commit => d.pm == 0 && !d.consumed && d.mlsE == d.recE && !d.pending
  | .welcome => !d.groupRow && !d.pwRow && !d.welcomeRow
  | .merge => d.pending && d.mlsE == d.recE

/-- crash classes (codes shared with vlib/crashweng.py) -/
inductive Class where
  | recoverable
  | decryptConsumed      -- decrypt-consumed-retry-refused
  | msgSavedNoRecord     -- message-saved-record-missing
  | dedupBlocks          -- dedup-record-blocks-retry
  | snapshotLeft         -- snapshot-left-behind
  | tornMerge            -- torn-merge
  | appliedNoRecord      -- applied-dedup-record-missing
  | pendingLost          -- pending-commit-lost
  deriving DecidableEq, Repr

/-- the decidable classification of the crash point after `k` effects -/
def classify : Kind → Nat → Class
  | .application, 0 | .application, 1 => .recoverable
  | .application, 2 => .decryptConsumed
  | .application, 3 => .msgSavedNoRecord
  | .application, 4 => .dedupBlocks
  | .application, _ => .recoverable
  | .commit, 0 | .commit, 1 => .recoverable
  | .commit, 2 => .decryptConsumed
  | .commit, 3 => .snapshotLeft
  | .commit, 4 | .commit, 5 => .tornMerge
  | .commit, 6 => .appliedNoRecord
  | .commit, _ => .recoverable
  | .welcome, _ => .recoverable
  | .merge, 0 => .recoverable
  | .merge, 1 => .pendingLost
  | .merge, 2 => .tornMerge
  | .merge, _ => .recoverable

/-- classes whose crash points end in the uninterrupted run's observable state: the only difference is the
    dedup record of the event (applied, recorded Failed instead of ProcessedCommit) -/
def Class.harmless : Class → Bool
  | .recoverable | .appliedNoRecord => true
  | _ => false

def Class.name : Class → String
  | .recoverable => "recoverable"
  | .decryptConsumed => "decrypt-consumed-retry-refused"
  | .msgSavedNoRecord => "message-saved-record-missing"
  | .dedupBlocks => "dedup-record-blocks-retry"
  | .snapshotLeft => "snapshot-left-behind"
  | .tornMerge => "torn-merge"
  | .appliedNoRecord => "applied-dedup-record-missing"
  | .pendingLost => "pending-commit-lost"

/-- the sequence of classes along the effects of a call (consecutive repetitions merged) -/
def classes (kind : Kind) : List String :=
  let l := (List.range (writes kind).length).map (fun k => (classify kind k).name)
  l.foldr (fun x acc => match acc with
    | y :: _ => if x = y then acc else x :: acc
    | [] => [x]) []

end MdkVerif.CrashCore
