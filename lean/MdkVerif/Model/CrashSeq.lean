import MdkVerif.Model.CrashCore
/-
  Model.CrashSeq — process death inside EVERY mdk-core entry point that writes (property C12, core level,
  generic part).  `Generated.writeSeq` (tools/writeseq.py) lists, per case and success path, the ordered
  durable write steps of the current source; `CrashCore.expand` turns a path into its effects on the projection.
  This file adds, for every case of that table:

  * `Mode`      how the call is recovered: a REMOTE event (process_message, process_welcome, accept_welcome) is
                handed to the library again on the reopened store (`retryG`); a LOCAL call (create_message,
                add_members, merge_pending_commit, …) is the application's to re-issue, the reopened store must be
                usable: as before the call, as after it, or with a left-over the API itself removes;
  * `classifyG` the decision procedure for the crash point after `k` effects — the procedure `vlib/crashweng.py`
                applies to what the harness reads back from the real store, so the model's class sequence of every
                call kind is comparable with the observed one (`mdkdrv crashcore`, obligation
                `tie:crashcore-class-sequences`);
  * `recoveredG` the semantic notion the classes are sound for (`Props/C12.lean: classify_sound_all`);
  * `openPrefixes` every (case, path, k) that is not recoverable, with its mechanism — computed from the
                regenerated table (`Props/C12.lean: unrecoverable_prefixes`, `unrecoverable_signatures`).

  A store is given RELATIVE to what matters before the call: `freshStores case` lists the stores on which the
  call runs for the first time, one per value of the pre-state unknown the effects depend on (the exporter
  secret of the current epoch already cached or not).
-/
namespace MdkVerif.CrashSeq
open MdkVerif.CrashCore

inductive Mode where
  | message       -- process_message of an event not seen before
  | welcome       -- process_welcome
  | accept        -- accept_welcome
  | localCall     -- a call the application issues itself
  | inert         -- error recording / start-up / step-function bodies: re-running them repeats them
  deriving DecidableEq, Repr

def modeOf (case : Nat) : Mode :=
  if case ≤ 6 ∨ case = 10 ∨ case = 11 then .message
  else if case = 12 ∨ case = 13 then .welcome
  else if case = 14 then .accept
  else if 15 ≤ case ∧ case ≤ 24 then .localCall
  else .inert

/-- the store before the call, relative to what the call depends on -/
def baseStore (cached : Bool) : Db :=
  { mlsE := 1, recE := 1, secrets := if cached then [0, 1] else [0], pm := 0, msgs := 0, snaps := 0, pending := false,
    consumed := false, groupRow := true, pwRow := true, welcomeRow := true, ptr := false, props := 0,
    mlsGroup := true, active := true, accepted := true }

def freshStore (case : Nat) (cached : Bool) : Db :=
  let b := baseStore cached
  if case = 12 then { b with groupRow := false, pwRow := false, welcomeRow := false, mlsGroup := false, active := false, accepted := false }
  else if case = 13 then { b with pwRow := false, mlsGroup := false, active := false, accepted := false }
  else if case = 14 ∨ case = 15 then { b with mlsGroup := false, active := false, accepted := false }
  else if case = 17 then { b with groupRow := false, mlsGroup := false, active := false }
  else if case = 3 ∨ case = 23 ∨ case = 24 then { b with pending := true }
  else if case = 11 then { b with pm := 4, msgs := 1 }
  else b

def freshStores (case : Nat) : List Db := [freshStore case false, freshStore case true]

def crashAtG (ws : List W) (k : Nat) (d : Db) : Db := run d (ws.take k)

/-- handing the event to the library again: the new store and whether the call was answered normally -/
def retryG (mode : Mode) (ws : List W) (d : Db) : Db × Bool :=
  match mode with
  | .message =>
    if d.pm = 3 then (d, false)                         -- previously failed: Unprocessable, final
    else if d.pm = 2 then (d, true)                     -- a processed commit: answered from the record
    else if d.consumed then ({ d with pm := 3 }, false) -- cannot decrypt twice: Unprocessable, recorded Failed
    else (run d ws, true)
  | .welcome =>
    if d.pwRow then (d, d.welcomeRow)
    else if d.welcomeRow then ({ d with pwRow := true }, true)
    else (run d ws, true)
  | .accept => if d.accepted then (d, false) else (run d ws, true)
  | .localCall | .inert => (d, true)

/-- everything but the dedup record of the event, which no MDK call returns -/
def obsG (d : Db) : Db := { d with pm := 0, consumed := false }

/-- what the application sees through the API after reopening (the harness fingerprint): for a local call the
    records of its own events are part of it -/
def vis (d : Db) : Db := { d with consumed := false, secrets := [] }

/-- a left-over the API removes or that stays unpublished: a stored pending commit whose event never reached the
    application (`clear_pending_commit`), a message row that was never sent -/
def softLeftover (pre mid : Db) : Bool :=
  mid.mlsE == pre.mlsE && mid.recE == pre.recE && mid.mlsGroup == pre.mlsGroup && mid.active == pre.active &&
  mid.groupRow == pre.groupRow && (pre.pending → mid.pending)

def recoveredG (mode : Mode) (ws : List W) (k : Nat) (d : Db) : Bool :=
  let mid := crashAtG ws k d
  let post := run d ws
  match mode with
  | .message | .welcome | .accept => obsG (retryG mode ws mid).1 == obsG post
  | .localCall => vis mid == vis post || vis mid == vis d || softLeftover d mid
  | .inert => true

inductive ClassG where
  | recoverable
  | decryptConsumed | msgSavedNoRecord | dedupBlocks | snapshotLeft | tornMerge | appliedNoRecord | pendingLost
  | tornAccept | autocommitOrphaned
  | orphanPending | partialLocal       -- soft left-overs of an interrupted local call
  | other
  deriving DecidableEq, Repr

def ClassG.name : ClassG → String
  | .recoverable => "recoverable"
  | .decryptConsumed => "decrypt-consumed-retry-refused"
  | .msgSavedNoRecord => "message-saved-record-missing"
  | .dedupBlocks => "dedup-record-blocks-retry"
  | .snapshotLeft => "snapshot-left-behind"
  | .tornMerge => "torn-merge"
  | .appliedNoRecord => "applied-dedup-record-missing"
  | .pendingLost => "pending-commit-lost"
  | .tornAccept => "torn-accept"
  | .autocommitOrphaned => "autocommit-orphaned"
  | .orphanPending => "orphan-pending-commit"
  | .partialLocal => "partial-local-write"
  | .other => "other"

/-- the classes whose crash points end in the uninterrupted run's observable state (remote) / leave a usable
    store (local) -/
def ClassG.harmless : ClassG → Bool
  | .recoverable | .appliedNoRecord | .autocommitOrphaned | .orphanPending | .partialLocal => true
  | _ => false

/-- the decision procedure of `vlib/crashweng.py: classify`, on the model's stores -/
def classifyG (mode : Mode) (ws : List W) (k : Nat) (d : Db) : ClassG :=
  let mid := crashAtG ws k d
  let post := run d ws
  let torn := mid.mlsE != mid.recE && !(d.mlsE != d.recE)
  match mode with
  | .inert => .recoverable
  | .localCall =>
    if vis mid == vis post then .recoverable
    else if d.pending && !mid.pending && mid.mlsE == d.mlsE then .pendingLost
    else if torn then .tornMerge
    else if vis mid == vis d then .recoverable
    else if mid.pending && !d.pending then .orphanPending
    else .partialLocal
  | _ =>
    let r := retryG mode ws mid
    let retryOk := r.2
    let samePost := mid.recE == post.recE && mid.mlsE == post.mlsE && mid.secrets == post.secrets && mid.snaps == post.snaps &&
                    mid.pending == post.pending && mid.msgs == post.msgs
    let samePre := mid.recE == d.recE && mid.mlsE == d.mlsE && mid.snaps == d.snaps && mid.pending == d.pending && mid.msgs == d.msgs
    if { r.1 with consumed := false } == { post with consumed := false } then .recoverable
    else if mode == .accept && mid.mlsGroup && !d.mlsGroup && !retryOk then .tornAccept
    else if mode == .accept then .recoverable
    else if torn then .tornMerge
    else if mode == .welcome && !retryOk then .dedupBlocks
    else if !retryOk && samePost && mid.pm == 0 && post.pm != 0 && (mid.recE != d.recE || mid.mlsE != d.mlsE) then .appliedNoRecord
    else if mid.pending && !d.pending && !retryOk then .autocommitOrphaned
    else if mid.pm != 0 && d.pm == 0 && !retryOk then .dedupBlocks
    else if mid.msgs > d.msgs && !retryOk then .msgSavedNoRecord
    else if mid.snaps > d.snaps && !retryOk then .snapshotLeft
    else if samePre && !retryOk then .decryptConsumed
    else .other

/-- consecutive repetitions merged -/
def squash : List String → List String
  | [] => []
  | x :: rest => match squash rest with
    | y :: acc => if x = y then y :: acc else x :: y :: acc
    | [] => [x]

/-- the class sequence along the effects of one translated path (on the store without a cached secret) -/
def classesOf (case : Nat) (p : List Nat) : List String :=
  let ws := expand case p
  squash ((List.range ws.length).map (fun k => (classifyG (modeOf case) ws k (freshStore case false)).name))

/-- The cases this file classifies.  Not classified (their sequences are translated and, where the harness reaches
    them, compared with the execution, but no recovery semantics is claimed): 2 a commit that evicts the receiver,
    3 the own pending commit met on the wire, 10 a better commit after a rollback (continues as case 1), 11 the own
    message echoed back, 15 decline_welcome, 17 create_group. -/
def modelled (case : Nat) : Bool :=
  case ∈ [0, 1, 4, 5, 6, 7, 8, 9, 12, 13, 14, 16, 18, 19, 20, 21, 22, 23, 24, 25, 26, 27, 28, 29]

/-- every (case, path index, k, class) of the regenerated table -/
def allPrefixes : List (Nat × Nat × Nat × ClassG) :=
  (Generated.writeSeq.filter (fun cp => modelled cp.1)).flatMap (fun (cp : Nat × List (List Nat)) =>
    (List.range cp.2.length).flatMap (fun pi =>
      let ws := expand cp.1 (cp.2.getD pi [])
      (List.range ws.length).map (fun k => (cp.1, pi, k, classifyG (modeOf cp.1) ws k (freshStore cp.1 false)))))

/-- the crash points that are NOT recovered, with the mechanism the decision procedure names -/
def openPrefixes : List (Nat × Nat × Nat × ClassG) :=
  (Generated.writeSeq.filter (fun cp => modelled cp.1)).flatMap (fun (cp : Nat × List (List Nat)) =>
    (List.range cp.2.length).flatMap (fun pi =>
      let ws := expand cp.1 (cp.2.getD pi [])
      (List.range ws.length).filterMap (fun k =>
        if recoveredG (modeOf cp.1) ws k (freshStore cp.1 false) then none
        else some (cp.1, pi, k, classifyG (modeOf cp.1) ws k (freshStore cp.1 false)))))

/-- the retry is refused, yet everything the application can observe is as after the uninterrupted run: only the
    dedup record of the event differs (`excused: only-dedup-record-differs` in vlib/crashweng.py) -/
def recordOnly (mode : Mode) (ws : List W) (k : Nat) (d : Db) : Bool :=
  match mode with
  | .message | .welcome | .accept =>
    let r := retryG mode ws (crashAtG ws k d)
    !r.2 && obsG r.1 == obsG (run d ws)
  | _ => false

/-- the classification is sound and the same on both fresh stores of a case: a class called harmless is recovered; a
    recovered crash point is called harmless, or differs in the dedup record only; a crash point that is not
    recovered carries a mechanism -/
def soundAt (case : Nat) (p : List Nat) (k : Nat) (d : Db) : Bool :=
  let ws := expand case p
  let c := classifyG (modeOf case) ws k d
  let r := recoveredG (modeOf case) ws k d
  (!c.harmless || r) && (!r || c.harmless || recordOnly (modeOf case) ws k d) && (r || (c != .other && c != .recoverable)) &&
  c == classifyG (modeOf case) ws k (freshStore case false) && r == recoveredG (modeOf case) ws k (freshStore case false)

def soundAll : Bool :=
  (Generated.writeSeq.filter (fun cp => modelled cp.1)).all (fun cp =>
    cp.2.all (fun p => (List.range (expand cp.1 p).length).all (fun k => (freshStores cp.1).all (soundAt cp.1 p k))))

/-- call kinds as in the signatures `<mechanism>:<call>` of known_findings.jsonl:
    0 process_application 1 process_commit 2 process_proposal 3 process_welcome 4 accept_welcome 5 create_message
    6 add_members 7 remove_members 8 update_group_data 9 self_update 10 leave_group 11 merge_pending_commit
    12 clear_pending_commit 13 other -/
def callKind (case : Nat) : Nat :=
  if case = 0 then 0 else if case = 1 then 1 else if case = 4 ∨ case = 5 ∨ case = 6 then 2
  else if case = 12 ∨ case = 13 then 3 else if case = 14 then 4 else if case = 16 then 5 else if case = 18 then 6
  else if case = 19 then 7 else if case = 20 then 8 else if case = 21 then 9 else if case = 22 then 10
  else if case = 23 then 11 else if case = 24 then 12 else 13

def callKindName : Nat → String
  | 0 => "process_application" | 1 => "process_commit" | 2 => "process_proposal" | 3 => "process_welcome"
  | 4 => "accept_welcome" | 5 => "create_message" | 6 => "add_members" | 7 => "remove_members"
  | 8 => "update_group_data" | 9 => "self_update" | 10 => "leave_group" | 11 => "merge_pending_commit"
  | 12 => "clear_pending_commit" | _ => "other"

def dedupP : List (ClassG × Nat) → List (ClassG × Nat)
  | [] => []
  | x :: rest => if x ∈ rest then dedupP rest else x :: dedupP rest

/-- the open mechanisms per call kind -/
def openSignatures : List (ClassG × Nat) := dedupP (openPrefixes.map (fun x => (x.2.2.2, callKind x.1)))

end MdkVerif.CrashSeq
